(* RouteReadyProofs.v -- process_transition computes the "ready" flag of the entry it stages for (next task, NEXT route)
   from the inbound criteria evaluated on the route of the SOURCE task.  The two routes differ only when the next task
   is a split task outside every cycle, and then the flag is true: the difference is never harmful. *)
From Coq Require Import String List Bool ZArith Arith Lia.
From Orq Require Import GenStatuses GenEvents GenTables GenSpecMeta Base State Machines Codec Conductor Decode Api.
From Orq Require Import F_tables Hoare ValuePost C05Proofs RetryProofs SysProofs SysNextProofs SysItemsProofs.
Import ListNotations.
Open Scope string_scope.

(* split tasks have no barrier in the graph (true of composed graphs: the composer sets a barrier for join tasks only) *)
Definition split_no_barrier (sp : wf_spec) (g : graph) : bool :=
  forallb (fun n => negb (spec_is_split_task sp (n_id n)) || is_jnull (n_barrier n)) (g_nodes g).

Lemma split_barrier_null : forall sp g t, split_no_barrier sp g = true -> spec_is_split_task sp t = true ->
  g_barrier g t = JNull.
Proof.
  intros sp g t H Hs. unfold g_barrier, g_get_node. destruct (find _ (g_nodes g)) as [n|] eqn:E; [|reflexivity].
  apply find_some in E. destruct E as [Hin Hn]. apply String.eqb_eq in Hn. unfold split_no_barrier in H.
  rewrite forallb_forall in H. specialize (H n Hin). rewrite Hn, Hs in H. simpl in H.
  destruct (n_barrier n); try discriminate H. reflexivity.
Qed.

Lemma In_dedup_string : forall (l : list string) x, In x l -> In x (dedup_by String.eqb l).
Proof.
  intros l x. unfold dedup_by.
  assert (G : forall l acc, In x acc \/ In x l -> In x (fold_left (fun acc x0 => if existsb (String.eqb x0) acc then acc else app acc [x0]) l acc)).
  { induction l0 as [|a l0 IH]; intros acc [H|H]; simpl; auto; try contradiction.
    - apply IH. left. destruct (existsb (String.eqb a) acc); [exact H|apply in_or_app; left; exact H].
    - apply IH. destruct H as [->|H]; [left|right; exact H].
      destruct (existsb (String.eqb x) acc) eqn:E; [|apply in_or_app; right; left; reflexivity].
      apply existsb_exists in E. destruct E as [y [Hy Hxy]]. apply String.eqb_eq in Hxy. subst y. exact Hy. }
  intro H. apply G. right. exact H.
Qed.

Lemma filter_pos : forall A (p : A -> bool) l x, In x l -> p x = true -> 1 <= length (filter p l).
Proof.
  intros A p l x Hin Hp. assert (H : In x (filter p l)) by (apply filter_In; auto). destruct (filter p l); [destruct H|simpl; lia].
Qed.

(* a split task without barrier: one inbound transition recorded as followed on the route is enough *)
Lemma split_inbound_satisfied : forall g w nt route e r,
  g_barrier g nt = JNull -> In e (g_edges g) -> e_dst e = nt ->
  ws_task_entry w (e_src e) route = Some r -> aget trid_eqb (nt, e_key e) (r_next r) = Some true ->
  get_inbound_criteria_status g w nt route = InbSatisfied.
Proof.
  intros g w nt route e r Hb Hin Hd Hr Hn. unfold get_inbound_criteria_status.
  assert (Hreq : forall k, inbound_requirement g nt k = 1%Z) by (intro k; unfold inbound_requirement; rewrite Hb; reflexivity).
  rewrite Hreq.
  assert (Hinb : In e (g_prev_transitions g nt)).
  { unfold g_prev_transitions. apply filter_In. split; [exact Hin|]. rewrite Hd. apply String.eqb_refl. }
  assert (Hev : In (e_src e, Some true) (inbound_evaluation g w nt route)).
  { unfold inbound_evaluation. apply in_map_iff. exists (e_src e). split.
    - rewrite Hr. f_equal. f_equal. apply existsb_exists. exists e. split; [exact Hinb|]. rewrite String.eqb_refl, Hn. reflexivity.
    - apply In_dedup_string. apply in_map. exact Hinb. }
  match goal with |- context [filter ?ff (inbound_evaluation g w nt route)] =>
    assert (L : 1 <= length (filter ff (inbound_evaluation g w nt route)))
      by (apply (filter_pos _ ff _ (e_src e, Some true)); [exact Hev|reflexivity]) end.
  match goal with |- context [Z.leb 1 ?z] => assert (X : Z.leb 1 z = true) by (apply Z.leb_le; lia) end.
  rewrite X. reflexivity.
Qed.

Section RouteReady.
Variable ev : string -> dict -> evalres.

(* evaluate_route: the route changes only for a split task outside every cycle; the records are untouched *)
Lemma evaluate_route_eff : forall e route c c' nr, evaluate_route e route c = (c', Val nr) ->
  sequence (c_ws c') = sequence (c_ws c) /\ tasks (c_ws c') = tasks (c_ws c) /\ staged (c_ws c') = staged (c_ws c) /\
  c_graph c' = c_graph c /\ c_spec c' = c_spec c /\
  (nr <> route -> spec_is_split_task (c_spec c) (e_dst e) = true /\ g_in_cycle (c_graph c) (e_dst e) = false).
Proof.
  intros e route c c' nr H. unfold evaluate_route in H. unfold bind at 1 in H. unfold get at 1 in H.
  assert (Same : ret route c = (c', Val nr) ->
    sequence (c_ws c') = sequence (c_ws c) /\ tasks (c_ws c') = tasks (c_ws c) /\ staged (c_ws c') = staged (c_ws c) /\
    c_graph c' = c_graph c /\ c_spec c' = c_spec c /\
    (nr <> route -> spec_is_split_task (c_spec c) (e_dst e) = true /\ g_in_cycle (c_graph c) (e_dst e) = false)).
  { intro X. inversion X; subst. repeat split; auto; exfalso; apply H0; reflexivity. }
  destruct (spec_is_split_task (c_spec c) (e_dst e)) eqn:Es; [|apply Same; exact H].
  destruct (g_in_cycle (c_graph c) (e_dst e)) eqn:Ec; [apply Same; exact H|]. simpl in H.
  destruct (nth_error (routes (c_ws c)) route) as [old|]; [|inversion H].
  destruct (existsb (trid_eqb (e_src e, e_key e)) old); [apply Same; exact H|].
  unfold bind, modws in H. inversion H; subst. simpl. repeat split; auto.
Qed.

Lemma find_snoc_new : forall (p : stg -> bool) l x, find p l = None -> p x = true -> find p (app l [x]) = Some x.
Proof. induction l as [|a l IH]; simpl; intros x H Hx; [rewrite Hx; reflexivity|]. destruct (p a); [discriminate|]. apply IH; assumption. Qed.

Lemma aget_aset_trid : forall (d : list (trid * bool)) k v, aget trid_eqb k (aset trid_eqb k v d) = Some v.
Proof. intros. apply aget_aset_same. unfold trid_eqb. rewrite String.eqb_refl, Nat.eqb_refl. reflexivity. Qed.

(* the transition loop body.  Either it stages nothing, or the entry of (next task, nr) is in staging afterwards with the
   flag the inbound criteria give on the SOURCE's route; and when nr is not that route, the next task is a split task
   outside every cycle and the flag is true *)
Theorem split_route_ready : forall t route idx ts ctx e c c' res,
  process_transition ev t route idx ts ctx e c = (c', Val res) ->
  split_no_barrier (c_spec c) (c_graph c) = true ->
  ws_task_idx (c_ws c) t route = Some idx -> In e (g_edges (c_graph c)) -> e_src e = t ->
  staged (c_ws c') = staged (c_ws c) \/
  exists nr s, get_staged_task (c_ws c') (e_dst e) nr = Some s /\
    (nr <> route -> spec_is_split_task (c_spec c) (e_dst e) = true /\ g_in_cycle (c_graph c) (e_dst e) = false /\
                    s_ready s = true) /\
    (s_ready s = true -> res = (if is_engine_command (e_dst e) then (Some (e_dst e, nr), None) else (None, Some (e_dst e, nr)))).
Proof.
  intros t route idx ts ctx e c c' res H Hsb Hp Hin Hsrc. unfold process_transition in H. cbv zeta in H.
  apply bind_val_inv' in H. destruct H as [c1 [ok [E1 H]]].
  (* the criteria of the transition *)
  assert (Ok : (ok <> Some true /\ staged (c_ws c1) = staged (c_ws c)) \/
               (ok = Some true /\ c1 = set_ws c (ws_update_rec (c_ws c) idx (fun r => r_set_next r (aset trid_eqb (e_dst e, e_key e) true (r_next r)))))).
  { unfold try_catch in E1.
    destruct ((vs <- mapM (fun cr => evaluate ev cr ctx) (e_criteria e) ;;
               upd_rec idx (fun r => r_set_next r (aset trid_eqb (e_dst e, e_key e) (forallb truthy vs) (r_next r))) ;;;
               ret (Some (forallb truthy vs))) c) as [cx [v|x]] eqn:Eb.
    - inversion E1; subst cx v. apply bind_val_inv' in Eb. destruct Eb as [c0 [vs [Ev Eb]]].
      assert (c0 = c).
      { pose proof (state_pure_mapM _ _ (fun cr => evaluate ev cr ctx) (e_criteria e) (fun a => evaluate_pure ev a ctx) c) as P.
        rewrite Ev in P. exact P. }
      subst c0. unfold bind, upd_rec, modws in Eb. inversion Eb; subst c1 ok.
      destruct (forallb truthy vs); [right; auto|left; split; [discriminate|simpl; apply staged_update_rec]].
    - left. apply bind_val_inv' in E1. destruct E1 as [c2 [u2 [E2 E1]]]. apply bind_val_inv' in E1. destruct E1 as [c3 [u3 [E3 E1]]].
      inversion E1; subst c1 ok. split; [discriminate|].
      pose proof (vlt_log_error _ _ _ _ _ _ _ E2) as [_ [_ [S2 _]]]. pose proof (vlt_request_failed _ _ _ E3) as [_ [_ [S3 _]]].
      assert (Sx : staged (c_ws cx) = staged (c_ws c)).
      { unfold bind in Eb.
        pose proof (state_pure_mapM _ _ (fun cr => evaluate ev cr ctx) (e_criteria e) (fun a => evaluate_pure ev a ctx) c) as P.
        destruct (mapM (fun cr => evaluate ev cr ctx) (e_criteria e) c) as [c0 [vs|x0]]; simpl in P; subst c0.
        - unfold upd_rec, modws in Eb. inversion Eb.
        - inversion Eb; reflexivity. }
      congruence. }
  destruct Ok as [[Hno S1]|[-> ->]].
  { left. destruct ok as [[|]|]; try (exfalso; apply Hno; reflexivity); inversion H; subst; exact S1. }
  set (tid := (e_dst e, e_key e)) in *.
  set (cA := set_ws c (ws_update_rec (c_ws c) idx (fun r => r_set_next r (aset trid_eqb tid true (r_next r))))) in *.
  apply bind_val_inv' in H. destruct H as [c2 [[new_ctx errors] [E2 H]]].
  pose proof (vlt_finalize_context ev _ _ _ _ _ _ E2) as (Q2 & T2 & S2 & _ & _ & _ & G2 & P2 & _).
  destruct errors as [|er errs].
  2: { left. apply bind_val_inv' in H. destruct H as [c3 [u3 [E3 H]]]. apply bind_val_inv' in H. destruct H as [c4 [u4 [E4 H]]].
       inversion H; subst.
       pose proof (vlt_log_errors _ _ _ _ _ _ _ E3) as [_ [_ [S3 _]]]. pose proof (vlt_request_failed _ _ _ E4) as [_ [_ [S4 _]]].
       rewrite S4, S3, S2. unfold cA. simpl. apply staged_update_rec. }
  apply bind_val_inv' in H. destruct H as [cx [r2 [Ex H]]]. apply get_rec_inv in Ex. destruct Ex as [-> Hr2].
  apply bind_val_inv' in H. destruct H as [cx [w2 [Ex H]]]. inversion Ex; subst cx w2; clear Ex.
  apply bind_val_inv' in H. destruct H as [c3 [out_idxs [E3 H]]].
  (* the record at idx keeps the followed transition *)
  assert (R2 : aget trid_eqb tid (r_next r2) = Some true).
  { rewrite Q2 in Hr2. unfold cA in Hr2. simpl in Hr2. unfold ws_update_rec in Hr2.
    destruct (nth_error (sequence (c_ws c)) idx) as [r0|] eqn:E0.
    - simpl in Hr2. rewrite (nth_error_set_nth_same _ _ _ _ _ E0) in Hr2. inversion Hr2; subst r2. simpl. apply aget_aset_trid.
    - rewrite E0 in Hr2. discriminate. }
  assert (K3 : exists r3, nth_error (sequence (c_ws c3)) idx = Some r3 /\ r_next r3 = r_next r2 /\
                          tasks (c_ws c3) = tasks (c_ws c2) /\ staged (c_ws c3) = staged (c_ws c2) /\
                          c_graph c3 = c_graph c2 /\ c_spec c3 = c_spec c2).
  { destruct new_ctx as [|kv nc].
    - inversion E3; subst c3. exists r2. repeat split; auto.
    - apply bind_val_inv' in E3. destruct E3 as [cy [uy [Ey E3]]]. unfold modws in Ey. inversion Ey; subst cy; clear Ey.
      apply bind_val_inv' in E3. destruct E3 as [cz [uz [Ez E3]]]. unfold upd_rec, modws in Ez. inversion Ez; subst cz; clear Ez.
      inversion E3; subst c3. simpl. unfold ws_update_rec. simpl. rewrite Hr2. simpl.
      exists (r_set_out r2 (Some (tid, length (contexts (c_ws c2))))). split; [eapply nth_error_set_nth_same; exact Hr2|auto]. }
  destruct K3 as (r3 & Hr3 & N3 & T3 & S3 & G3 & P3).
  apply bind_val_inv' in H. destruct H as [c4 [nr [E4 H]]].
  destruct (evaluate_route_eff _ _ _ _ _ E4) as (Q4 & T4 & S4 & G4 & P4 & Hsplit).
  apply bind_val_inv' in H. destruct H as [cx [w4 [Ex H]]]. inversion Ex; subst cx w4; clear Ex.
  apply bind_val_inv' in H. destruct H as [c5 [u5 [E5 H]]].
  set (nt := e_dst e) in *.
  assert (K5 : sequence (c_ws c5) = sequence (c_ws c4) /\ tasks (c_ws c5) = tasks (c_ws c4) /\
               c_graph c5 = c_graph c4 /\ c_spec c5 = c_spec c4 /\ exists s5, get_staged_task (c_ws c5) nt nr = Some s5).
  { destruct (get_staged_task (c_ws c4) nt nr) as [sx|] eqn:Eg.
    - destruct (nat_remove_first 0 out_idxs); [|inversion E5]. unfold modws in E5. inversion E5; subst c5. simpl.
      repeat split; auto. unfold get_staged_task in *. simpl.
      rewrite find_staged_update_same by (intro; split; reflexivity). rewrite Eg. eexists; reflexivity.
    - unfold modws in E5. inversion E5; subst c5. simpl. repeat split; auto. unfold get_staged_task in *. simpl.
      eexists. apply find_snoc_new; [exact Eg|]. unfold stg_matches, mk_staged. simpl. rewrite String.eqb_refl, Nat.eqb_refl. reflexivity. }
  destruct K5 as (Q5 & T5 & G5 & P5 & s5 & Hs5).
  apply bind_val_inv' in H. destruct H as [cx [cg [Ex H]]]. inversion Ex; subst cx cg; clear Ex. cbv zeta in H.
  apply bind_val_inv' in H. destruct H as [c6 [u6 [E6 H]]]. unfold modws in E6. inversion E6; subst c6; clear E6.
  set (ready := inbound_eqb (get_inbound_criteria_status (c_graph c5) (c_ws c5) nt route) InbSatisfied) in *.
  right. exists nr, (s_set_ready s5 ready).
  assert (Hfinal : c' = set_ws c5 (ws_set_staged (c_ws c5) (staged_update (fun s => s_set_ready s ready) nt nr (staged (c_ws c5))))).
  { destruct (is_engine_command nt); [inversion H; reflexivity|]. destruct ready; inversion H; reflexivity. }
  split.
  { rewrite Hfinal. unfold get_staged_task in *. simpl. rewrite find_staged_update_same by (intro; split; reflexivity). rewrite Hs5. reflexivity. }
  assert (Gc : c_graph c5 = c_graph c) by (rewrite G5, G4, G3, G2; reflexivity).
  assert (Pc : c_spec c5 = c_spec c) by (rewrite P5, P4, P3, P2; reflexivity).
  split.
  - intro Hne. destruct (Hsplit Hne) as [Hs Hc]. rewrite P3, P2 in Hs. rewrite G3, G2 in Hc. simpl in Hs, Hc.
    split; [exact Hs|]. split; [exact Hc|]. simpl. unfold ready.
    rewrite (split_inbound_satisfied (c_graph c5) (c_ws c5) nt route e r3); [reflexivity| | |reflexivity| |].
    + rewrite Gc. apply (split_barrier_null (c_spec c)); [exact Hsb|exact Hs].
    + rewrite Gc. exact Hin.
    + rewrite Hsrc. unfold ws_task_entry, ws_task_idx. rewrite T5, T4, T3, T2. unfold cA. simpl. rewrite tasks_update_rec.
      unfold ws_task_idx in Hp. rewrite Hp. rewrite Q5, Q4. exact Hr3.
    + rewrite N3. exact R2.
  - simpl. intro Hr. rewrite Hr in H. destruct (is_engine_command nt); inversion H; reflexivity.
Qed.


(* the hypotheses of [split_route_ready] hold at every call of the transition loop of one task event: the loop runs over
   the outgoing edges of the task, and a transition moves neither the pointer of the task, nor the graph, nor the spec *)
Lemma next_transition_is_edge : forall g t e, In e (g_next_transitions g t) -> In e (g_edges g) /\ e_src e = t.
Proof.
  intros g t e H. unfold g_next_transitions in H. apply In_sort_by in H. apply filter_In in H. destruct H as [A B].
  apply String.eqb_eq in B. auto.
Qed.

Lemma transition_keeps_hyps : forall t route idx ts ctx e c c' res,
  process_transition ev t route idx ts ctx e c = (c', Val res) ->
  ws_task_idx (c_ws c') t route = ws_task_idx (c_ws c) t route /\ c_graph c' = c_graph c /\ c_spec c' = c_spec c.
Proof.
  intros t route idx ts ctx e c c' res H. destruct (vfr_process_transition ev _ _ _ _ _ _ _ _ _ H) as [T [_ [_ [G [P _]]]]].
  unfold ws_task_idx. rewrite T. auto.
Qed.

End RouteReady.
