(* StatusReach.v -- the workflow status moves only along entries of the generated workflow
   table (or to failed through the unreachable-join check), in every API call except an accepted
   rerun.  Consequences: terminal statuses are final (C04), a canceled workflow never succeeds
   (C10). *)
From Coq Require Import String List Bool ZArith Arith Lia.
From Orq Require Import GenStatuses GenEvents GenTables GenSpecMeta Base State Machines Codec Conductor.
From Orq Require Import F_tables Hoare.
Import ListNotations.
Open Scope monad_scope.

Inductive wf_reach : status -> status -> Prop :=
  | wr_refl : forall s, wf_reach s s
  | wr_step : forall s e t u, tbl_step wf_table s e = Some t -> wf_reach t u -> wf_reach s u
  | wr_unreachable : forall s u, In s COMPLETED_STATUSES -> s <> S_CANCELED ->
                                 wf_reach S_FAILED u -> wf_reach s u.

Lemma wf_reach_trans : forall a b c, wf_reach a b -> wf_reach b c -> wf_reach a c.
Proof.
  intros a b c H; revert c; induction H as [s|s e t u Hs Hr IH|s u Hc Hn Hr IH]; intros c0 Hc0; auto.
  - eapply wr_step; eauto.
  - eapply wr_unreachable; eauto.
Qed.

Definition Rst (c c' : cstate) : Prop := wf_reach (wstatus (c_ws c)) (wstatus (c_ws c')).

Lemma Rst_refl : forall c, Rst c c.
Proof. intro; apply wr_refl. Qed.
Lemma Rst_trans : forall a b c, Rst a b -> Rst b c -> Rst a c.
Proof. unfold Rst; intros; eapply wf_reach_trans; eauto. Qed.

(* what is reachable from the terminal and the cancel statuses *)
Lemma reach_from_failed : forall u, wf_reach S_FAILED u -> u = S_FAILED.
Proof.
  intros u H; remember S_FAILED as s0 eqn:E; induction H as [s|s e t u Hs Hr IH|s u Hc Hn Hr IH]; subst; auto.
  - rewrite F_wf_failed_final in Hs; discriminate.
Qed.

Lemma reach_from_canceled : forall u, wf_reach S_CANCELED u -> u = S_CANCELED.
Proof.
  intros u H; remember S_CANCELED as s0 eqn:E; induction H as [s|s e t u Hs Hr IH|s u Hc Hn Hr IH]; subst; auto.
  - rewrite F_wf_canceled_final in Hs; discriminate.
  - congruence.
Qed.

Lemma reach_from_succeeded : forall u, wf_reach S_SUCCEEDED u -> u = S_SUCCEEDED \/ u = S_FAILED.
Proof.
  intros u H; remember S_SUCCEEDED as s0 eqn:E; induction H as [s|s e t u Hs Hr IH|s u Hc Hn Hr IH]; subst; auto.
  - apply F_wf_succeeded_only_failed in Hs; subst. right; apply reach_from_failed; assumption.
  - right; apply reach_from_failed; assumption.
Qed.

Lemma reach_cancel_closed : forall s u, In s [S_CANCELING; S_CANCELED; S_FAILED] -> wf_reach s u ->
  In u [S_CANCELING; S_CANCELED; S_FAILED].
Proof.
  intros s0 u Hs0 H; induction H as [s|s e t u Hs Hr IH|s u Hc Hn Hr IH]; auto.
  - apply IH. destruct Hs0 as [Hs0|[Hs0|[Hs0|[]]]]; subst.
    + eapply F_wf_cancel_closed; [|eassumption]; simpl; auto.
    + eapply F_wf_cancel_closed; [|eassumption]; simpl; auto.
    + rewrite F_wf_failed_final in Hs; discriminate.
  - apply IH; simpl; auto.
Qed.

(* ---- every API call (except rerun) respects Rst ---- *)

Section WithEval.
Variable ev : string -> dict -> evalres.

Ltac leaf :=
  first
    [ apply (preserves_modws Rst); intro; unfold Rst; simpl; apply wr_refl
    | apply (preserves_modify Rst); intro; unfold Rst; simpl; apply wr_refl
    | assumption
    | match goal with IH : forall _ _ _, preserves _ _ |- _ => apply IH end
    | match goal with IH : forall _ _, preserves _ _ |- _ => apply IH end
    | eauto 3 with pres ].

Ltac walk := pw Rst_refl Rst_trans leaf.

Lemma ws_update_rec_status : forall w i f, wstatus (ws_update_rec w i f) = wstatus w.
Proof. intros; unfold ws_update_rec; destruct (nth_error (sequence w) i); reflexivity. Qed.

Lemma ws_remove_staged_status : forall w t r, wstatus (ws_remove_staged_task w t r) = wstatus w.
Proof.
  intros; unfold ws_remove_staged_task. destruct (get_staged_task w t r); [|reflexivity].
  destruct (items_any_active s); reflexivity.
Qed.

Lemma pres_upd_rec : forall i f, preserves Rst (upd_rec i f).
Proof.
  intros; unfold upd_rec. apply (preserves_modws Rst); intro c; unfold Rst; simpl.
  rewrite ws_update_rec_status; apply wr_refl.
Qed.
Hint Resolve pres_upd_rec : pres.

Lemma pres_set_rec_status : forall i s, preserves Rst (set_rec_status i s).
Proof.
  intros; unfold set_rec_status. apply (preserves_modws Rst); intro c; unfold Rst; simpl.
  rewrite ws_update_rec_status; apply wr_refl.
Qed.
Hint Resolve pres_set_rec_status : pres.

Lemma pres_remove_staged : forall t r, preserves Rst (modws (fun w => ws_remove_staged_task w t r)).
Proof.
  intros; apply (preserves_modws Rst); intro c; unfold Rst; simpl.
  rewrite ws_remove_staged_status; apply wr_refl.
Qed.
Hint Resolve pres_remove_staged : pres.

Lemma fail_on_unreachable_reach : forall g w,
  In (wstatus w) COMPLETED_STATUSES -> wstatus w <> S_CANCELED ->
  wf_reach (wstatus w) (fst (fail_on_unreachable g w)).
Proof.
  intros g w H1 H2; unfold fail_on_unreachable.
  destruct (get_unreachable_barriers g w); simpl; [apply wr_refl|].
  apply wr_unreachable; auto; apply wr_refl.
Qed.

Lemma pres_wf_workflow_event : forall st, preserves Rst (wf_workflow_event_M st).
Proof.
  intros st c c' r H. unfold wf_workflow_event_M in H.
  destruct (wf_process_workflow_event (c_graph c) (c_ws c) st) as [[new unr]|e] eqn:E;
    inversion H; subst; clear H; [|apply Rst_refl].
  unfold Rst; simpl. unfold wf_process_workflow_event in E.
  destruct (negb (string_in (wf_workflow_event_name (c_ws c) st) WORKFLOW_EXECUTION_EVENTS)); [discriminate|].
  destruct (tbl_row wf_table (wstatus (c_ws c))) as [row|] eqn:Er; [|discriminate].
  destruct (aget String.eqb (wf_workflow_event_name (c_ws c) st) row) as [n|] eqn:Ea.
  - assert (St : tbl_step wf_table (wstatus (c_ws c)) (wf_workflow_event_name (c_ws c) st) = Some n)
      by (unfold tbl_step; rewrite Er; exact Ea).
    destruct (negb (status_eqb n (wstatus (c_ws c))) && status_eqb n S_SUCCEEDED) eqn:Eb.
    + apply andb_prop in Eb; destruct Eb as [_ Es]. apply status_eqb_eq in Es; subst n.
      inversion E; subst; clear E.
      eapply wr_step; [exact St|].
      pose proof (fail_on_unreachable_reach (c_graph c) (ws_set_status (c_ws c) S_SUCCEEDED)) as F.
      rewrite H0 in F; cbn [fst wstatus ws_set_status] in F. apply F; [vm_compute; tauto|discriminate].
    + inversion E; subst. eapply wr_step; [exact St|apply wr_refl].
  - inversion E; subst; apply wr_refl.
Qed.
Hint Resolve pres_wf_workflow_event : pres.

Lemma pres_wf_task_event : forall t route st, preserves Rst (wf_task_event_M t route st).
Proof.
  intros t route st c c' r H. unfold wf_task_event_M in H.
  destruct (wf_process_task_event (c_graph c) (c_ws c) t route st) as [[new unr]|e] eqn:E;
    inversion H; subst; clear H; [|apply Rst_refl].
  unfold Rst; simpl. unfold wf_process_task_event in E.
  destruct (negb (string_in (wf_task_event_name (c_graph c) (c_ws c) t route st) TASK_EXECUTION_EVENTS)); [discriminate|].
  destruct (tbl_row wf_table (wstatus (c_ws c))) as [row|] eqn:Er; [|discriminate].
  destruct (aget String.eqb (wf_task_event_name (c_graph c) (c_ws c) t route st) row) as [n|] eqn:Ea.
  - assert (St : tbl_step wf_table (wstatus (c_ws c)) (wf_task_event_name (c_graph c) (c_ws c) t route st) = Some n)
      by (unfold tbl_step; rewrite Er; exact Ea).
    destruct (status_in n COMPLETED_STATUSES && negb (status_eqb n S_CANCELED)) eqn:Eb.
    + apply andb_prop in Eb; destruct Eb as [Ec En].
      inversion E; subst; clear E.
      eapply wr_step; [exact St|].
      pose proof (fail_on_unreachable_reach (c_graph c) (ws_set_status (c_ws c) n)) as F.
      rewrite H0 in F; cbn [fst wstatus ws_set_status] in F. apply F.
      * apply status_in_In; exact Ec.
      * intro; subst n. rewrite status_eqb_refl in En; discriminate.
    + inversion E; subst. eapply wr_step; [exact St|apply wr_refl].
  - inversion E; subst; apply wr_refl.
Qed.
Hint Resolve pres_wf_task_event : pres.

Lemma pres_log_entry_error : forall m t r tr res, preserves Rst (log_entry_error m t r tr res).
Proof.
  intros; unfold log_entry_error. apply (preserves_modify Rst); intro c; unfold Rst.
  destruct (existsb _ _); simpl; apply wr_refl.
Qed.
Hint Resolve pres_log_entry_error : pres.

Lemma pres_log_error : forall e t r tr, preserves Rst (log_error e t r tr).
Proof. intros; unfold log_error; auto with pres. Qed.
Hint Resolve pres_log_error : pres.

Lemma pres_log_errors : forall es t r tr, preserves Rst (log_errors es t r tr).
Proof. intros; unfold log_errors; walk. Qed.
Hint Resolve pres_log_errors : pres.

Lemma pres_log_unreachable : forall l, preserves Rst (log_unreachable l).
Proof. intros; unfold log_unreachable; walk. Qed.
Hint Resolve pres_log_unreachable : pres.

Lemma pres_request_status_core : forall st, preserves Rst (request_status_core st).
Proof. intros; unfold request_status_core; walk. Qed.
Hint Resolve pres_request_status_core : pres.

Lemma pres_render_input : forall specs rt rolling errs, preserves Rst (render_input ev specs rt rolling errs).
Proof. induction specs as [|[n d] specs IH]; intros; simpl; walk. Qed.
Hint Resolve pres_render_input : pres.

Lemma pres_render_vars : forall specs rolling rendered errs, preserves Rst (render_vars ev specs rolling rendered errs).
Proof. induction specs as [|[n d] specs IH]; intros; simpl; walk. Qed.
Hint Resolve pres_render_vars : pres.

Lemma pres_ensure_ws : preserves Rst (ensure_ws ev).
Proof. unfold ensure_ws; walk. Qed.
Hint Resolve pres_ensure_ws : pres.

Theorem pres_request_workflow_status : forall st, preserves Rst (request_workflow_status ev st).
Proof. intros; unfold request_workflow_status; walk. Qed.

Lemma pres_get_task_context : forall idxs, preserves Rst (get_task_context idxs).
Proof. intros; unfold get_task_context; walk. Qed.
Hint Resolve pres_get_task_context : pres.

Lemma pres_render_task : forall ts ctx, preserves Rst (render_task ev ts ctx).
Proof. intros; unfold render_task; walk. Qed.
Hint Resolve pres_render_task : pres.

Lemma pres_next_task_for : forall s, preserves Rst (next_task_for ev s).
Proof. intros; unfold next_task_for; walk. Qed.
Hint Resolve pres_next_task_for : pres.

Theorem pres_get_next_tasks : preserves Rst (get_next_tasks ev).
Proof. unfold get_next_tasks; walk. Qed.

Lemma pres_setup_retry : forall t idxs, preserves Rst (setup_retry ev t idxs).
Proof. intros; unfold setup_retry; walk. Qed.
Hint Resolve pres_setup_retry : pres.

Lemma pres_add_task_state : forall t r i p, preserves Rst (add_task_state ev t r i p).
Proof. intros; unfold add_task_state; walk. Qed.
Hint Resolve pres_add_task_state : pres.

Lemma pres_evaluate_route : forall e r, preserves Rst (evaluate_route e r).
Proof. intros; unfold evaluate_route; walk. Qed.
Hint Resolve pres_evaluate_route : pres.

Lemma pres_evaluate_task_retry : forall r ctx, preserves Rst (evaluate_task_retry ev r ctx).
Proof. intros; unfold evaluate_task_retry; walk. Qed.
Hint Resolve pres_evaluate_task_retry : pres.

Lemma pres_finalize_context : forall ts e ctx, preserves Rst (finalize_context ev ts e ctx).
Proof. intros; unfold finalize_context; walk. Qed.
Hint Resolve pres_finalize_context : pres.

Lemma pres_get_rec : forall i, preserves Rst (get_rec i).
Proof. intros; unfold get_rec; walk. Qed.
Hint Resolve pres_get_rec : pres.

Lemma pres_process_transition : forall t route idx ts ctx e,
  preserves Rst (process_transition ev t route idx ts ctx e).
Proof. intros; unfold process_transition; walk. Qed.
Hint Resolve pres_process_transition : pres.

Lemma pres_update_task_state_fuel : forall fuel t route evt,
  preserves Rst (update_task_state_fuel ev fuel t route evt).
Proof.
  induction fuel as [|fuel IH]; intros t route evt; simpl; [apply (preserves_raise _ Rst_refl)|].
  walk.
Qed.

Theorem pres_update_task_state : forall t route evt, preserves Rst (update_task_state ev t route evt).
Proof. intros; unfold update_task_state; apply pres_update_task_state_fuel. Qed.

Lemma pres_merge_term_contexts : forall l acc, preserves Rst (merge_term_contexts l acc).
Proof. induction l as [|[i r] l IH]; intros; simpl; walk. Qed.
Hint Resolve pres_merge_term_contexts : pres.

Theorem pres_render_workflow_output : preserves Rst (render_workflow_output ev).
Proof. unfold render_workflow_output, get_workflow_terminal_context; walk. Qed.

End WithEval.
