(* SysItemsBusyProofs.v -- the with-items provider protocol: no task record ever has one of the statuses the protocol
   does not use, and when the workflow reports pausing or canceling some task execution is active. *)
From Coq Require Import String List Bool ZArith Arith Lia.
From Orq Require Import GenStatuses GenEvents GenTables GenSpecMeta Base State Machines Codec Conductor Decode Api Driver ProviderSys ProviderSysItems ProviderSysItemsMon ProviderSysItemsMon2.
From Orq Require Import F_tables F_names F_sys F_sysitems Hoare ValuePost StatusReach C04Proofs C05Proofs C02C03Proofs C09C10Proofs OffersProofs InertProofs RetryProofs SysProofs SysNextProofs SysItemsProofs SysItemsRecProofs SysItemsPlainProofs SysItemsIdleProofs.
Import ListNotations.
Open Scope string_scope.

(* ================================================================== A. the statuses never used *)
Definition okst (o : option status) : Prop := ostatus_in o UNUSED_STATUSES = false /\ o <> Some S_UNSET.
Definition NB (c : cstate) : Prop := forall i rec, nth_error (sequence (c_ws c)) i = Some rec -> okst (r_status rec).
Definition Rnb (c c' : cstate) : Prop := NB c -> NB c'.
Lemma Rnb_refl : forall c, Rnb c c. Proof. intros c H; exact H. Qed.
Lemma Rnb_trans : forall a b c, Rnb a b -> Rnb b c -> Rnb a c. Proof. unfold Rnb; auto. Qed.

Lemma Rnb_sig : forall c c', map sig (sequence (c_ws c')) = map sig (sequence (c_ws c)) -> Rnb c c'.
Proof.
  intros c c' H N i rec E. destruct (nth_map_sig _ _ _ _ (eq_sym H) E) as [r0 [E0 S]]. destruct (sig_key _ _ S) as [_ S1].
  rewrite <- S1. exact (N i r0 E0).
Qed.
Lemma Rnb_seq : forall c c', sequence (c_ws c') = sequence (c_ws c) -> Rnb c c'.
Proof. intros c c' H. apply Rnb_sig. rewrite H. reflexivity. Qed.
Lemma Rnb_set_status : forall c i s, okst s -> Rnb c (set_ws c (ws_update_rec (c_ws c) i (fun r0 => r_set_status r0 s))).
Proof.
  intros c i s Hs N j rec E. unfold ws_update_rec in E. destruct (nth_error (sequence (c_ws c)) i) as [r|] eqn:Hr; [|exact (N j rec E)].
  simpl in E. destruct (Nat.eq_dec j i) as [->|Hne].
  - rewrite (nth_error_set_nth_same _ _ _ _ _ Hr) in E. inversion E; subst rec. exact Hs.
  - rewrite nth_error_set_nth_other in E by congruence. exact (N j rec E).
Qed.
Lemma okst_rstatus : forall r, okst (r_status r) -> status_in (rstatus r) UNUSED_STATUSES = false.
Proof. intros r [H _]. unfold rstatus in *. destruct (r_status r); [exact H|reflexivity]. Qed.

Section NoUnused.
Variable ev : string -> dict -> evalres.

Lemma nb_fr : forall A (m : M A), vpres Rfr m -> vpres Rnb m.
Proof. intros A m H c c' a E. destruct (H _ _ _ E) as [_ [S _]]. apply Rnb_sig. exact S. Qed.

Lemma nb_add_task_state : forall t rt ins prev, vpres Rnb (add_task_state ev t rt ins prev).
Proof.
  intros t rt ins prev c c' idx H. destruct (add_task_state_eff ev _ _ _ _ _ _ _ H) as [cm [retry [L [_ [-> _]]]]].
  intros N i rec E. simpl in E. destruct L as [Ls _].
  destruct (Nat.lt_ge_cases i (length (sequence (c_ws cm)))) as [Hlt|Hge].
  - rewrite nth_error_app1 in E by exact Hlt. rewrite Ls in E. exact (N i rec E).
  - rewrite nth_error_app2 in E by exact Hge. destruct (i - length (sequence (c_ws cm))) as [|k]; simpl in E; [inversion E; split; [reflexivity|discriminate]|destruct k; discriminate].
Qed.
Lemma nb_sel1 : forall t s0 e0, vpres Rnb (uts_sel1 ev t s0 e0).
Proof.
  intros t s0 e0. unfold uts_sel1, uts_need_staged.
  destruct e0; [destruct (is_engine_command t); [|apply (vp_ret _ Rnb_refl)]|];
    (apply (vp_bind _ Rnb_trans); [destruct s0; [apply (vp_ret _ Rnb_refl)|apply vp_raise]|intro; apply nb_add_task_state]).
Qed.
Lemma nb_sel2 : forall t evt s0 r1 i, vpres Rnb (uts_sel2 ev t evt s0 r1 i).
Proof.
  intros t evt s0 r1 i. unfold uts_sel2, uts_need_staged. destruct (_ && _ && _); [|apply (vp_ret _ Rnb_refl)].
  apply (vp_bind _ Rnb_trans); [destruct s0; [apply (vp_ret _ Rnb_refl)|apply vp_raise]|intro; apply nb_add_task_state].
Qed.
Lemma nb_setst : forall idx ns, (forall x, ns = Some x -> status_in x UNUSED_STATUSES = false /\ x <> S_UNSET) -> vpres Rnb (uts_setst idx ns).
Proof.
  intros idx ns Hn c c' a H. unfold uts_setst in H. destruct ns as [s|]; [|inversion H; apply Rnb_refl].
  unfold set_rec_status, modws in H. inversion H; subst c'. apply Rnb_set_status. destruct (Hn s eq_refl) as [A B]. split; [exact A|congruence].
Qed.
Lemma nb_wf_task_event : forall t route st, vpres Rnb (wf_task_event_M t route st).
Proof.
  intros t route st c c' a H. unfold wf_task_event_M in H.
  destruct (wf_process_task_event (c_graph c) (c_ws c) t route st) as [[new unr]|e]; inversion H; subst. apply Rnb_seq. reflexivity.
Qed.
Lemma nb_ensure_ws : vpres Rnb (ensure_ws ev).
Proof.
  intros c c' a H N i rec E. pose proof (np_ensure_ws ev c c' a H) as _.
  (* the sequence is untouched by the creation of the state *)
  assert (S : sequence (c_ws c') = sequence (c_ws c)).
  { destruct (c_init c) eqn:Hi; [rewrite (ensure_ws_inited ev c Hi) in H; inversion H; reflexivity|].
    unfold ensure_ws in H. unfold bind at 1 in H. unfold get at 1 in H. rewrite Hi in H.
    apply bind_val_inv' in H. destruct H as [c2 [u2 [E2 H]]]. unfold modify in E2. inversion E2; subst c2; clear E2.
    apply bind_val_inv' in H. destruct H as [c3 [[rin ierrs] [E3 H]]].
    pose proof (lt_render_input ev _ _ _ _ _ _ _ E3) as L3.
    apply bind_val_inv' in H. destruct H as [c4 [[rv verrs] [E4 H]]].
    pose proof (lt_render_vars ev _ _ _ _ _ _ _ E4) as L4.
    apply bind_val_inv' in H. destruct H as [c5 [u5 [E5 H]]].
    assert (L5 : Rlt c4 c5).
    { destruct (app ierrs verrs) as [|e0 es]; [inversion E5; subst; apply Rlt_refl|].
      apply bind_val_inv' in E5. destruct E5 as [c6 [u6 [E6 E5]]].
      eapply Rlt_trans; [eapply vlt_log_errors; exact E6|eapply vlt_request_failed; exact E5]. }
    pose proof (Rlt_trans _ _ _ (Rlt_trans _ _ _ L3 L4) L5) as [A1 _]. simpl in A1.
    apply bind_val_inv' in H. destruct H as [c6 [w6 [E6 H]]]. inversion E6; subst c6 w6; clear E6.
    destruct (status_in (wstatus (c_ws c5)) ABENDED_STATUSES).
    - inversion H; subst c'. exact A1.
    - apply bind_val_inv' in H. destruct H as [c7 [u7 [E7 H]]]. unfold modws in E7. inversion E7; subst c7; clear E7.
      assert (G : forall l cx cy u, forM_ l (fun t => modws (fun w => ws_add_staged w (mk_staged t 0 [0] [] true None))) cx = (cy, Val u) ->
                  sequence (c_ws cy) = sequence (c_ws cx)).
      { induction l as [|t l IH]; intros cx cy u X; simpl in X; [inversion X; reflexivity|].
        apply bind_val_inv' in X. destruct X as [cz [uz [Ez X]]]. unfold modws in Ez. inversion Ez; subst cz. rewrite (IH _ _ _ X). reflexivity. }
      rewrite (G _ _ _ _ H). simpl. exact A1. }
  rewrite S in E. exact (N i rec E).
Qed.

Section WithRec.
Variable rec : string -> nat -> event -> M unit.
Hypothesis Hrec : forall t r e, nbad e -> vpres Rnb (rec t r e).

Lemma engine_event_nbad : forall n e, engine_event n = Some e -> nbad e.
Proof.
  intros n e H. unfold engine_event in H. destruct (aget String.eqb n ENGINE_EVENT_MAP) as [[nm st]|] eqn:E; inversion H; subst e.
  simpl. apply aget_In in E. simpl in E. repeat (destruct E as [E|E]; [inversion E; subst; reflexivity|]). destruct E.
Qed.

Lemma nb_tail : forall t route ts idx o n compl, vpres Rnb (uts_tail ev rec t route ts idx o n compl).
Proof.
  intros t route ts idx o n compl. unfold uts_tail.
  assert (G : vpres Rnb
            (queue <- uts_queue ev t route idx ts o n compl ;;
             r <- get_rec idx ;;
             st <- match r_status r with Some s => ret s | None => raise (exn_key "status") end ;;
             unreachable <- wf_task_event_M t route st ;;
             log_unreachable unreachable ;;;
             forM_ queue (uts_call rec) ;;;
             (w <- getws ;; (if status_in (wstatus w) COMPLETED_STATUSES then upd_rec idx (fun r0 => r_set_term r0 true) else ret tt)))).
  { apply (vp_bind _ Rnb_trans); [apply nb_fr; apply vfr_queue|intro queue].
    apply (vp_bind _ Rnb_trans); [apply nb_fr; apply vfr_get_rec|intro r].
    apply (vp_bind _ Rnb_trans); [destruct (r_status r); [apply (vp_ret _ Rnb_refl)|apply vp_raise]|intro st].
    apply (vp_bind _ Rnb_trans); [apply nb_wf_task_event|intro unr].
    apply (vp_bind _ Rnb_trans); [apply nb_fr; apply vfr_log_unreachable|intros _].
    apply (vp_bind _ Rnb_trans).
    - apply (vp_forM _ Rnb_refl Rnb_trans). intros [nn rt]. unfold uts_call.
      destruct (engine_event nn) as [e|] eqn:E; [|apply vp_raise]. apply Hrec. eapply engine_event_nbad; exact E.
    - intros _. apply (vp_bind _ Rnb_trans); [apply (vp_getws _ Rnb_refl)|intro w].
      destruct (status_in (wstatus w) COMPLETED_STATUSES); [apply nb_fr; apply vfr_upd_rec; intro; reflexivity|apply (vp_ret _ Rnb_refl)]. }
  destruct compl as [[ctx [|]]|]; [|exact G|exact G].
  apply Hrec. reflexivity.
Qed.

Lemma nb_machine : forall t route evt ts idx, nbad evt -> vpres Rnb (uts_machine ev rec t route evt ts idx).
Proof.
  intros t route evt ts idx Hn c c' a H N. unfold uts_machine in H.
  apply bind_val_inv' in H. destruct H as [c0 [r [E0 H]]]. apply get_rec_inv in E0. destruct E0 as [-> Hr].
  apply bind_val_inv' in H. destruct H as [c0 [w [E0 H]]]. inversion E0; subst c0 w; clear E0.
  apply bind_val_inv' in H. destruct H as [c0 [ns [E0 H]]].
  assert (Ens : task_process_event (c_ws c) r evt = Val ns /\ c0 = c)
    by (destruct (task_process_event (c_ws c) r evt); inversion E0; auto). destruct Ens as [Ens ->].
  apply bind_val_inv' in H. destruct H as [c1 [[] [E1 H]]].
  assert (S1 : Rnb c c1).
  { refine (nb_setst idx ns _ _ _ _ E1). intros x ->. split; [exact (F_tpe_nbad _ _ _ _ Hn (okst_rstatus _ (N idx r Hr)) Ens)|exact (F_tpe_not_unset _ _ _ _ Ens)]. }
  apply bind_val_inv' in H. destruct H as [c2 [r' [E2 H]]]. apply get_rec_inv in E2. destruct E2 as [-> Hr'].
  apply bind_val_inv' in H. destruct H as [c3 [[] [E3 H]]].
  pose proof (nb_fr _ _ (vfr_retrying t route idx r' (rstatus r')) _ _ _ E3) as S3.
  apply bind_val_inv' in H. destruct H as [c4 [compl [E4 H]]].
  pose proof (nb_fr _ _ (vfr_completion ev t route evt ts idx (rstatus r') (rstatus r)) _ _ _ E4) as S4.
  pose proof (nb_tail _ _ _ _ _ _ _ _ _ _ H) as S5.
  exact (Rnb_trans _ _ _ (Rnb_trans _ _ _ (Rnb_trans _ _ _ S1 S3) S4) S5 N).
Qed.

Lemma nb_body : forall t route evt, nbad evt -> vpres Rnb (uts_body ev rec t route evt).
Proof.
  intros t route evt Hn. unfold uts_body.
  apply (vp_bind _ Rnb_trans); [apply nb_ensure_ws|intros _].
  apply (vp_bind _ Rnb_trans); [apply (vp_get _ Rnb_refl)|intro c0].
  destruct (negb (g_has_task (c_graph c0) t)); [apply vp_raise|]. cbv zeta.
  apply (vp_bind _ Rnb_trans); [destruct (spec_get_task (c_spec c0) t); [apply (vp_ret _ Rnb_refl)|apply vp_raise]|intro ts].
  assert (Main : forall s0 e0, vpres Rnb (uts_main ev rec t route evt ts s0 e0)).
  { intros s0 e0. unfold uts_main.
    apply (vp_bind _ Rnb_trans); [apply nb_sel1|intro idx1].
    apply (vp_bind _ Rnb_trans); [apply nb_fr; apply vfr_get_rec|intro r1].
    apply (vp_bind _ Rnb_trans); [apply nb_sel2|intro idx].
    apply (vp_bind _ Rnb_trans); [apply nb_fr; apply vfr_unstage|intros _].
    apply (vp_bind _ Rnb_trans); [apply nb_fr; apply vfr_item|intros _].
    apply (vp_bind _ Rnb_trans); [apply nb_fr; apply vfr_logfail|intros _].
    apply nb_machine. exact Hn. }
  destruct (get_staged_task (c_ws c0) t route), (ws_task_idx (c_ws c0) t route); try apply Main. apply vp_raise.
Qed.

End WithRec.

Lemma nb_fuel : forall fuel t route evt, nbad evt -> vpres Rnb (update_task_state_fuel ev fuel t route evt).
Proof.
  induction fuel as [|fuel IH]; intros t route evt Hn; [apply vp_raise|]. rewrite uts_unfold.
  apply nb_body; [|exact Hn]. intros t' r' e He. apply IH. exact He.
Qed.

Lemma nb_request_status_core : forall st, preserves Rnb (request_status_core st).
Proof.
  intros st c c' x H N. revert c' x H.
  assert (Snap : forall i r, In (i, r) (ws_tasks_by_status (c_ws c) ACTIVE_STATUSES) -> okst (r_status r)).
  { intros i r Hin. destruct (tasks_by_status_In _ _ _ _ Hin) as [A _]. exact (N i r A). }
  assert (P : preserves Rnb (request_status_core st) -> forall c' x, request_status_core st c = (c', x) -> NB c') by (intros P c' x H; exact (P _ _ _ H N)).
  intros c' x H. unfold request_status_core in H. unfold bind at 1 in H. unfold getws at 1 in H. cbv zeta in H.
  set (active := ws_tasks_by_status (c_ws c) ACTIVE_STATUSES) in *.
  assert (Q : preserves Rnb
            (forM_ active (fun '(i, _) =>
               w <- getws ;;
               match nth_error (sequence w) i with
               | None => ret tt
               | Some r => ns <- lift_res (task_process_event w r (EvWorkflow st)) ;;
                           match ns with Some s => set_rec_status i (Some s) | None => ret tt end
               end) ;;;
             unreachable <- wf_workflow_event_M st ;;
             log_unreachable unreachable ;;;
             w1 <- getws ;;
             (if status_eqb st S_PAUSED && status_eqb (wstatus (c_ws c)) S_PAUSING && status_eqb (wstatus w1) S_PAUSING then ret tt
              else if status_eqb st S_CANCELED && status_eqb (wstatus (c_ws c)) S_CANCELING && status_eqb (wstatus w1) S_CANCELING then ret tt
              else if negb (status_eqb st (wstatus (c_ws c))) && status_eqb (wstatus (c_ws c)) (wstatus w1)
              then forM_ active (fun '(i, r) => set_rec_status i (r_status r)) ;;; raise (exn_invalid_wf_transition (wstatus (c_ws c)) (WORKFLOW_EVENT_PREFIX ++ status_name st))
              else ret tt))).
  { apply (preserves_bind _ Rnb_trans).
    { apply (preserves_forM _ Rnb_refl Rnb_trans). intros [i r0] c1 c2 y E N1. unfold bind at 1 in E. unfold getws at 1 in E.
      destruct (nth_error (sequence (c_ws c1)) i) as [r|] eqn:Hr; [|inversion E; subst; exact N1].
      unfold bind in E. destruct (task_process_event (c_ws c1) r (EvWorkflow st)) as [[s|]|e] eqn:Ens; simpl in E;
        try (inversion E; subst; exact N1).
      unfold set_rec_status, modws in E. inversion E; subst c2. apply Rnb_set_status; [|exact N1].
      split; [simpl; exact (F_tpe_nbad (c_ws c1) r (EvWorkflow st) s Logic.I (okst_rstatus _ (N1 i r Hr)) Ens)|].
      pose proof (F_tpe_not_unset _ _ _ _ Ens). congruence. }
    intros _. apply (preserves_bind _ Rnb_trans).
    { intros c1 c2 y E. unfold wf_workflow_event_M in E.
      destruct (wf_process_workflow_event (c_graph c1) (c_ws c1) st) as [[new unr]|e]; inversion E; subst; [|apply Rnb_refl].
      apply Rnb_seq; reflexivity. }
    intro unr. apply (preserves_bind _ Rnb_trans).
    { intros c1 c2 y E. destruct (fr_log_unreachable _ _ _ _ E) as [_ [S _]]. apply Rnb_sig. exact S. }
    intros _. apply (preserves_bind _ Rnb_trans); [apply (preserves_getws _ Rnb_refl)|intro w1]. cbv zeta.
    match goal with |- preserves _ (if ?b then _ else _) => destruct b end; [apply (preserves_ret _ Rnb_refl)|].
    match goal with |- preserves _ (if ?b then _ else _) => destruct b end; [apply (preserves_ret _ Rnb_refl)|].
    match goal with |- preserves _ (if ?b then _ else _) => destruct b end; [|apply (preserves_ret _ Rnb_refl)].
    apply (preserves_bind _ Rnb_trans); [|intros _; apply (preserves_raise _ Rnb_refl)].
    assert (G : forall l : list (nat * trec), (forall i r, In (i, r) l -> okst (r_status r)) ->
                preserves Rnb (forM_ l (fun '(i, r) => set_rec_status i (r_status r)))).
    { induction l as [|[i r] l IH]; intros Hl; simpl; [apply (preserves_ret _ Rnb_refl)|].
      apply (preserves_bind _ Rnb_trans).
      - intros c1 c2 y E. unfold set_rec_status, modws in E. inversion E; subst c2. apply Rnb_set_status. apply (Hl i r). left; reflexivity.
      - intros _. apply IH. intros i' r' Hin. apply (Hl i' r'). right; exact Hin. }
    apply G. exact Snap. }
  exact (Q _ _ _ H N).
Qed.

End NoUnused.

Section NoUnusedSystem.
Variable ev : string -> dict -> evalres.

(* ---- no record has an unused status, along a history ---- *)
Lemma nb_event : forall s t r e, nbad e -> ibad (isys_event ev s t r e) = false -> NB (si_c s) -> NB (si_c (isys_event ev s t r e)).
Proof. intros s t r e Hn Hb N. exact (nb_fuel ev _ t r e Hn _ _ _ (ievent_val ev s t r e Hb) N). Qed.

Lemma nb_ack : forall t r s a, ibad (isys_ack ev t r s a) = false -> NB (si_c s) -> NB (si_c (isys_ack ev t r s a)).
Proof.
  intros t r s a Hb N. unfold isys_ack in *. destruct (a_item a); apply nb_event; try assumption; simpl; reflexivity.
Qed.

Lemma nb_fold_ack : forall t r acts s, ibad (fold_left (isys_ack ev t r) acts s) = false -> NB (si_c s) ->
  NB (si_c (fold_left (isys_ack ev t r) acts s)).
Proof.
  intros t r. induction acts as [|a acts IH]; intros s Hb N; cbn [fold_left] in *; [exact N|].
  apply IH; [exact Hb|]. apply nb_ack; [|exact N].
  apply (not_bad_before (fun x => fold_left (isys_ack ev t r) acts x)); [apply ibad_fold_ack_mono|exact Hb].
Qed.

Lemma nb_ack_offer : forall s o, ibad (isys_ack_offer ev s o) = false -> NB (si_c s) -> NB (si_c (isys_ack_offer ev s o)).
Proof.
  intros s o Hb N. unfold isys_ack_offer in *. destruct (o_items_count o) as [[|m]|]; try (apply nb_fold_ack; assumption).
  apply nb_event; [simpl; reflexivity|exact Hb|]. apply nb_event; [simpl; reflexivity| |exact N].
  apply (not_bad_before (fun x => isys_event ev x (o_id o) (o_route o) (EvAction S_SUCCEEDED (JList [])))); [apply ibad_event_mono|exact Hb].
Qed.

Lemma nb_fold_offer : forall offers s, ibad (fold_left (isys_ack_offer ev) offers s) = false -> NB (si_c s) ->
  NB (si_c (fold_left (isys_ack_offer ev) offers s)).
Proof.
  induction offers as [|o offers IH]; intros s Hb N; cbn [fold_left] in *; [exact N|].
  apply IH; [exact Hb|]. apply nb_ack_offer; [|exact N].
  apply (not_bad_before (fun x => fold_left (isys_ack_offer ev) offers x)); [apply ibad_fold_offer_mono|exact Hb].
Qed.

Lemma NB_born : forall c c1, unborn c -> ensure_ws ev c = (c1, Val tt) -> NB c1.
Proof.
  intros c c1 [Hi Hw] H. destruct (ensure_fresh ev c c1 Hi Hw H) as [_ [_ [_ [Hs _]]]].
  intros i rec E. rewrite Hs in E. destruct i; discriminate E.
Qed.

Definition nb_inv (s : isys) : Prop := ibad s = false -> NB (si_c s).

Lemma nb_poll_inited : forall s, c_init (si_c s) = true -> NB (si_c s) -> ibad (isys_poll ev s) = false -> NB (si_c (isys_poll ev s)).
Proof.
  intros s Hi N Hb. unfold isys_poll in *. destruct (get_next_tasks ev (si_c s)) as [c1 [offers|x]] eqn:Hg; [|discriminate Hb].
  destruct (gn_items_eff ev _ _ _ Hi Hg) as [(_ & _ & _ & Hseq & _) _].
  apply nb_fold_offer; [exact Hb|]. simpl. intros i rec E. rewrite Hseq in E. exact (N i rec E).
Qed.

Lemma nb_step : forall s op, isys_inv2 s -> nb_inv s -> nb_inv (isys_step ev s op).
Proof.
  intros s op H2 H3 Hb.
  assert (Hb0 : ibad s = false) by (apply (not_bad_before (fun x => isys_step ev x op)); [intro; apply ibad_step_mono; assumption|exact Hb]).
  specialize (H3 Hb0).
  assert (Born : forall c1, unborn (si_c s) -> ensure_ws ev (si_c s) = (c1, Val tt) -> NB c1) by (intros; eapply NB_born; eassumption).
  assert (Rq : forall st, ibad (isys_request ev s st) = false -> NB (si_c (isys_request ev s st))).
  { intros st Hb'. unfold isys_request in *. destruct (status_in st request_statuses); [|exact H3].
    destruct (api_exec ev (OpRequest st) (si_c s)) as [c' x] eqn:E. simpl.
    unfold ibad in Hb'. simpl in Hb'. apply orb_false_iff in Hb'. destruct Hb' as [Hb1 _]. apply orb_false_iff in Hb1. destruct Hb1 as [_ Hb3].
    cbn [api_exec] in E. unfold bind at 1 in E. destruct (request_workflow_status ev st (si_c s)) as [c2 rr] eqn:R.
    assert (c' = c2) by (destruct rr; inversion E; reflexivity). subst c2.
    unfold request_workflow_status, bind in R. destruct (ensure_ws ev (si_c s)) as [c1 [[]|e]] eqn:En; [|discriminate Hb3].
    apply (nb_request_status_core st _ _ _ R). exact (nb_ensure_ws ev _ _ _ En H3). }
  assert (Cl : forall o, o = OpRender \/ o = OpPersist -> ibad (isys_call ev s o) = false -> NB (si_c (isys_call ev s o))).
  { intros o Ho Hb'. unfold isys_call in *. destruct (api_exec ev o (si_c s)) as [c' x] eqn:E. simpl.
    unfold ibad in Hb'. simpl in Hb'. apply orb_false_iff in Hb'. destruct Hb' as [Hb1 _]. apply orb_false_iff in Hb1. destruct Hb1 as [_ Hb3].
    destruct Ho as [-> | ->]; cbn [api_exec] in E; destruct (then_ret_unit _ _ _ _ E) as [[_ X]|Y]; try congruence.
    - unfold render_workflow_output in X. apply bind_val_inv' in X. destruct X as [c1 [[] [En X]]].
      pose proof (nb_ensure_ws ev _ _ _ En H3) as N1.
      assert (Hi1 : c_init c1 = true) by (eapply ensure_ws_init_after; exact En).
      assert (X' : render_workflow_output ev c1 = (c', Val tt)).
      { unfold render_workflow_output. unfold bind at 1. rewrite (ensure_ws_inited ev c1 Hi1). exact X. }
      pose proof (vlt_render_workflow_output ev c1 Hi1 c' tt X') as [Hs _]. intros i rec E'. rewrite Hs in E'. exact (N1 i rec E').
    - unfold persist in X. apply bind_val_inv' in X. destruct X as [c1 [[] [En X]]].
      pose proof (nb_ensure_ws ev _ _ _ En H3) as N1.
      assert (Hi1 : c_init c1 = true) by (eapply ensure_ws_init_after; exact En).
      assert (X' : persist ev c1 = (c', Val tt)).
      { unfold persist. unfold bind at 1. rewrite (ensure_ws_inited ev c1 Hi1). exact X. }
      rewrite (persist_identity ev c1 Hi1) in X'. inversion X'; subst. exact N1. }
  destruct op; cbn [isys_step] in *; auto.
  - destruct (inv2_link s H2 Hb0) as [[Hu HF]|[Hi _]]; [|apply nb_poll_inited; assumption].
    destruct (unborn_get_next ev s Hu) as [[c1 [e X]]|[c2 [En [[Hi2 _] X]]]]; [unfold isys_poll in Hb; rewrite X in Hb; discriminate Hb|].
    assert (E : isys_poll ev s = isys_poll ev (set_c s c2)) by (unfold isys_poll; simpl; rewrite X; reflexivity).
    rewrite E in *. apply nb_poll_inited; [exact Hi2|simpl; exact (Born _ Hu En)|exact Hb].
  - unfold isys_report in *. destruct (ikey_in _ _ && _) eqn:En; [|exact H3].
    apply andb_true_iff in En. destruct En as [_ Hst].
    destruct item; apply nb_event; try assumption; simpl; destruct st; try discriminate Hst; reflexivity.
Qed.

Lemma nb_run : forall ops s, isys_inv2 s -> nb_inv s -> nb_inv (isys_run ev ops s).
Proof.
  induction ops as [|op ops IH]; intros s H2 H3; [exact H3|]. cbn [isys_run fold_left].
  apply IH; [apply isys_step_inv2; exact H2|apply nb_step; assumption].
Qed.


End NoUnusedSystem.

(* ================================================================== B. pausing / canceling: some task is active *)
Definition HELD2 : list status := [S_PAUSING; S_CANCELING].
Definition Psi (c : cstate) : Prop := In (wstatus (c_ws c)) HELD2 -> HA c.

Lemma HA_sig_up : forall c c', tasks (c_ws c') = tasks (c_ws c) -> map sig (sequence (c_ws c')) = map sig (sequence (c_ws c)) ->
  HA c -> HA c'.
Proof. intros c c' Ht Hs H. apply (HA_sig c' c); [symmetry; exact Ht|symmetry; exact Hs|exact H]. Qed.

Lemma psi_fr : forall c c', Rfr c c' -> Psi c -> Psi c'.
Proof.
  intros c c' [T [S [W _]]] P Hin. destruct W as [W|W]; [|rewrite W in Hin; simpl in Hin; intuition discriminate].
  rewrite W in Hin. exact (HA_sig_up _ _ T S (P Hin)).
Qed.

(* the record the pointer map gives for (t, route), if any, has a status the protocol uses *)
Definition OwnOk (c : cstate) (t : string) (route : nat) : Prop :=
  forall idx0 r0, ws_task_idx (c_ws c) t route = Some idx0 -> nth_error (sequence (c_ws c)) idx0 = Some r0 -> okst (r_status r0).

Section PsiFrame.
Variable ev : string -> dict -> evalres.

Lemma psi_wf_task_event : forall t route st c c' unr idx r, wf_task_event_M t route st c = (c', Val unr) ->
  ws_task_idx (c_ws c) t route = Some idx -> nth_error (sequence (c_ws c)) idx = Some r -> r_status r = Some st ->
  status_in st ITEM_STATUSES = true -> Psi c'.
Proof.
  intros t route st c c' unr idx r H Hp Hr Hst Hit. destruct (wf_task_event_eff _ _ _ _ _ _ H) as [n [-> Hn]].
  intros Hin. simpl in Hin.
  destruct Hn as [->|Hn]; [simpl in Hin; intuition discriminate|]. subst n. unfold wf_task_event_name in Hin.
  assert (Ha : has_active_tasks (c_ws c) = true).
  { eapply F_held_needs_active_task; [exact Hit| |exact Hin]. intro Hact. apply has_active_HA.
    apply (entry_HA c t route r); [unfold ws_task_entry; rewrite Hp; exact Hr|rewrite Hst; exact Hact]. }
  apply has_active_HA in Ha. destruct Ha as [i [r' [A [B C]]]]. exists i, r'. auto.
Qed.

(* the queued engine commands, one call each *)
Lemma psi_cmds : forall (rec : string -> nat -> event -> M unit),
  (forall t r e c c', nbad e -> is_engine_command t = true -> c_init c = true -> P_ok c -> rec t r e c = (c', Val tt) ->
                      Psi c' /\ c_init c' = true /\ P_ok c') ->
  forall queue c c', c_init c = true -> P_ok c -> Psi c -> forM_ queue (uts_call rec) c = (c', Val tt) -> Psi c'.
Proof.
  intros rec Hrec. induction queue as [|[nn rt] queue IH]; intros c c' Ia Pa P H; simpl in H; [inversion H; subst; exact P|].
  apply bind_val_inv' in H. destruct H as [c1 [[] [E1 H]]]. unfold uts_call in E1.
  destruct (engine_event nn) as [e|] eqn:E; [|inversion E1].
  destruct (Hrec nn rt e c c1 (engine_event_nbad _ _ E) (engine_event_cmd _ _ E) Ia Pa E1) as [P1 [I1 Q1]].
  exact (IH c1 c' I1 Q1 P1 H).
Qed.

Lemma psi_fuel : forall fuel t route evt c c', update_task_state_fuel ev fuel t route evt c = (c', Val tt) ->
  c_init c = true -> P_ok c -> nbad evt -> (is_engine_command t = true \/ OwnOk c t route) -> Psi c'.
Proof.
  induction fuel as [|fuel IH]; intros t route evt c c' H Ia Pa Hn Hown; [inversion H|]. rewrite uts_unfold in H.
  destruct (own_step ev _ _ _ _ _ _ H Ia Pa) as (ts & idx & rr & ns & c3 & c4 & compl &
    (I3 & P3 & A1 & A2) & (Hp3 & Hr3 & Hk3) & Orig & _ & Ens & (r4 & Hr4 & Hs4) &
    Hp4 & I4 & P4 & B1 & B2 & Hnc & Hretry & Htl).
  destruct (sig_key _ _ Hs4) as [K4 S4].
  (* the status the machine gave the record is one the protocol uses *)
  assert (Hrr : status_in (rstatus rr) UNUSED_STATUSES = false).
  { destruct Orig as [[O _]|[Hc [Op [r0 [Or0 [Os _]]]]]]; [unfold rstatus; rewrite O; reflexivity|].
    destruct Hown as [X|X]; [congruence|]. unfold rstatus. rewrite Os. apply (okst_rstatus r0). exact (X idx r0 Op Or0). }
  assert (Hok4 : okst (r_status r4)).
  { rewrite S4. destruct ns as [x|]; simpl.
    - split; [exact (F_tpe_nbad _ _ _ _ Hn Hrr Ens)|]. pose proof (F_tpe_not_unset _ _ _ _ Ens). congruence.
    - destruct Orig as [[O _]|[Hc [Op [r0 [Or0 [Os _]]]]]]; [rewrite O; split; [reflexivity|discriminate]|].
      destruct Hown as [X|X]; [congruence|]. rewrite Os. exact (X idx r0 Op Or0). }
  destruct compl as [[ctx [|]]|] eqn:Ec.
  - (* a retry was decided: the call goes on with the retry event *)
    unfold uts_tail in Htl. refine (IH t route retry_event c4 c' Htl I4 P4 eq_refl _). right.
    intros idx0 r0 X Y. rewrite Hp4 in X. inversion X; subst idx0. rewrite Hr4 in Y. inversion Y; subst r0. exact Hok4.
  - assert (Hno : forall ctx0 : dict, Some (ctx, false) <> Some (ctx0, true)) by (intros; discriminate).
    destruct (tail_inv ev _ _ _ _ _ _ _ _ _ _ Htl Hno) as (queue & cq & r & st & unr & cw & cl & cn & Eq & Hr & Hst & Ew & El & Wl & En & Hfl).
    pose proof (vfr_queue ev _ _ _ _ _ _ _ _ _ _ Eq) as Fq.
    assert (Hpq : ws_task_idx (c_ws cq) t route = Some idx) by (unfold ws_task_idx in *; destruct Fq as [T _]; rewrite T; exact Hp4).
    assert (Hitem : status_in st ITEM_STATUSES = true).
    { destruct (nth_sig_fr _ _ _ _ Fq Hr4) as [rq [Hrq Sq]]. rewrite Hr in Hrq. inversion Hrq; subst rq.
      destruct (sig_key _ _ Sq) as [_ Sq1]. destruct Hok4 as [O1 O2]. rewrite <- Sq1, Hst in O1, O2. simpl in O1.
      apply F_item_status; [exact O1|congruence]. }
    pose proof (psi_wf_task_event _ _ _ _ _ _ _ _ Ew Hpq Hr Hst Hitem) as Pw.
    assert (Pl : Psi cl) by (intros X; rewrite Wl in X; destruct (Pw X) as [i [r' [A [B C]]]]; exists i, r'; rewrite Wl; auto).
    destruct (RK_Rfr (fun _ => False) _ _ Fq I4 P4) as [Iq [Pq _]].
    destruct (wf_task_event_eff _ _ _ _ _ _ Ew) as [nw [-> _]].
    assert (Il : c_init cl = true).
    { pose proof (pd_log_unreachable unr _ _ _ El) as [_ [_ X]]. apply X. exact Iq. }
    assert (Pkl : P_ok cl).
    { intros t0 r0 i0 X. unfold ws_task_idx in *. rewrite Wl in *. simpl in *. exact (Pq t0 r0 i0 X). }
    assert (Pn : Psi cn).
    { refine (psi_cmds _ _ queue cl cn Il Pkl Pl En). intros t0 r0 e0 ca cb He Hc Ia0 Pa0 Ecall.
      split; [exact (IH t0 r0 e0 ca cb Ecall Ia0 Pa0 He (or_introl Hc))|].
      destruct (rk_fuel ev fuel t0 r0 e0 _ _ _ Ecall Ia0 Pa0) as [X [Y _]]. auto. }
    destruct Hfl as [Ffl _]. exact (psi_fr _ _ Ffl Pn).
  - assert (Hno : forall ctx0 : dict, None <> Some (ctx0, true)) by (intros; discriminate).
    destruct (tail_inv ev _ _ _ _ _ _ _ _ _ _ Htl Hno) as (queue & cq & r & st & unr & cw & cl & cn & Eq & Hr & Hst & Ew & El & Wl & En & Hfl).
    pose proof (vfr_queue ev _ _ _ _ _ _ _ _ _ _ Eq) as Fq.
    assert (Hpq : ws_task_idx (c_ws cq) t route = Some idx) by (unfold ws_task_idx in *; destruct Fq as [T _]; rewrite T; exact Hp4).
    assert (Hitem : status_in st ITEM_STATUSES = true).
    { destruct (nth_sig_fr _ _ _ _ Fq Hr4) as [rq [Hrq Sq]]. rewrite Hr in Hrq. inversion Hrq; subst rq.
      destruct (sig_key _ _ Sq) as [_ Sq1]. destruct Hok4 as [O1 O2]. rewrite <- Sq1, Hst in O1, O2. simpl in O1.
      apply F_item_status; [exact O1|congruence]. }
    pose proof (psi_wf_task_event _ _ _ _ _ _ _ _ Ew Hpq Hr Hst Hitem) as Pw.
    assert (Pl : Psi cl) by (intros X; rewrite Wl in X; destruct (Pw X) as [i [r' [A [B C]]]]; exists i, r'; rewrite Wl; auto).
    destruct (RK_Rfr (fun _ => False) _ _ Fq I4 P4) as [Iq [Pq _]].
    destruct (wf_task_event_eff _ _ _ _ _ _ Ew) as [nw [-> _]].
    assert (Il : c_init cl = true).
    { pose proof (pd_log_unreachable unr _ _ _ El) as [_ [_ X]]. apply X. exact Iq. }
    assert (Pkl : P_ok cl).
    { intros t0 r0 i0 X. unfold ws_task_idx in *. rewrite Wl in *. simpl in *. exact (Pq t0 r0 i0 X). }
    assert (Pn : Psi cn).
    { refine (psi_cmds _ _ queue cl cn Il Pkl Pl En). intros t0 r0 e0 ca cb He Hc Ia0 Pa0 Ecall.
      split; [exact (IH t0 r0 e0 ca cb Ecall Ia0 Pa0 He (or_introl Hc))|].
      destruct (rk_fuel ev fuel t0 r0 e0 _ _ _ Ecall Ia0 Pa0) as [X [Y _]]. auto. }
    destruct Hfl as [Ffl _]. exact (psi_fr _ _ Ffl Pn).
Qed.

End PsiFrame.

Section PsiRequests.
Variable ev : string -> dict -> evalres.

Definition rq_body1 (st : status) : nat * trec -> M unit := fun '(i, _) =>
  w <- getws ;;
  match nth_error (sequence w) i with
  | None => ret tt
  | Some r => ns <- lift_res (task_process_event w r (EvWorkflow st)) ;;
              match ns with Some s => set_rec_status i (Some s) | None => ret tt end
  end.

(* the first loop of a status request never raises, keeps the workflow status, the pointers and the number of records *)
Lemma rq_loop1_val : forall st (l : list (nat * trec)) c, status_in st request_statuses_f = true -> NB c ->
  exists c1, forM_ l (rq_body1 st) c = (c1, Val tt) /\ wstatus (c_ws c1) = wstatus (c_ws c) /\
             tasks (c_ws c1) = tasks (c_ws c) /\ length (sequence (c_ws c1)) = length (sequence (c_ws c)) /\ NB c1.
Proof.
  intros st l. induction l as [|[i r0] l IH]; intros c Hst N; cbn [forM_].
  { exists c. split; [reflexivity|]. split; [reflexivity|]. split; [reflexivity|]. split; [reflexivity|exact N]. }
  assert (Step : exists c0, rq_body1 st (i, r0) c = (c0, Val tt) /\ wstatus (c_ws c0) = wstatus (c_ws c) /\
                 tasks (c_ws c0) = tasks (c_ws c) /\ length (sequence (c_ws c0)) = length (sequence (c_ws c)) /\ NB c0).
  { unfold rq_body1. unfold bind at 1. unfold getws at 1.
    destruct (nth_error (sequence (c_ws c)) i) as [r|] eqn:Hr; [|exists c; auto].
    assert (Hv : exists ns, task_process_event (c_ws c) r (EvWorkflow st) = Val ns).
    { unfold task_process_event. cbn [ev_name]. rewrite (F_req_name_valid _ Hst). cbn [negb].
      unfold task_table_step. destruct (tbl_row task_table (rstatus r)) eqn:E; [eexists; reflexivity|].
      exfalso. exact (F_task_row _ (okst_rstatus _ (N i r Hr)) E). }
    destruct Hv as [ns Hv]. unfold bind. rewrite Hv. simpl. destruct ns as [s|]; [|exists c; auto].
    eexists. split; [unfold set_rec_status, modws; reflexivity|]. simpl.
    split; [apply wstatus_update_rec|]. split; [apply tasks_update_rec|]. split.
    - unfold ws_update_rec. rewrite Hr. simpl. apply length_set_nth.
    - apply Rnb_set_status; [|exact N]. split; [simpl; exact (F_tpe_nbad (c_ws c) r (EvWorkflow st) s Logic.I (okst_rstatus _ (N i r Hr)) Hv)|].
      pose proof (F_tpe_not_unset _ _ _ _ Hv). congruence. }
  destruct Step as [c0 [E0 [W0 [T0 [L0 N0]]]]]. destruct (IH c0 Hst N0) as [c1 [E1 [W1 [T1 [L1 N1]]]]].
  exists c1. unfold bind. rewrite E0. split; [exact E1|]. split; [congruence|]. split; [congruence|]. split; [congruence|exact N1].
Qed.

(* the restore loop: the records of the snapshot get their statuses back *)
Lemma rq_restore : forall (l : list (nat * trec)) c, NoDup (map fst l) ->
  exists c', forM_ l (fun '(i, r) => set_rec_status i (r_status r)) c = (c', Val tt) /\
    wstatus (c_ws c') = wstatus (c_ws c) /\ tasks (c_ws c') = tasks (c_ws c) /\
    forall i r, In (i, r) l -> i < length (sequence (c_ws c)) ->
      exists r', nth_error (sequence (c_ws c')) i = Some r' /\ r_status r' = r_status r.
Proof.
  induction l as [|[i r] l IH]; intros c Hnd; simpl; [exists c; repeat split; auto; intros i r []|].
  inversion Hnd as [|x xs Hx Hnd']; subst.
  set (c0 := set_ws c (ws_update_rec (c_ws c) i (fun r0 => r_set_status r0 (r_status r)))).
  destruct (IH c0 Hnd') as [c' [E [W [T Hrec]]]].
  exists c'. unfold bind, set_rec_status, modws. fold c0. split; [exact E|].
  split; [rewrite W; unfold c0; simpl; apply wstatus_update_rec|]. split; [rewrite T; unfold c0; simpl; apply tasks_update_rec|].
  assert (Len : length (sequence (c_ws c0)) = length (sequence (c_ws c))).
  { unfold c0. simpl. unfold ws_update_rec. destruct (nth_error (sequence (c_ws c)) i); [simpl; apply length_set_nth|reflexivity]. }
  intros j rj [Hj|Hj] Hlt.
  - inversion Hj; subst j rj.
    destruct (nth_error (sequence (c_ws c)) i) as [ri|] eqn:Hri; [|apply nth_error_None in Hri; lia].
    (* the later entries of the snapshot leave record i alone: restated through the induction *)
    assert (Keep : forall (l0 : list (nat * trec)) ca cb, ~ In i (map fst l0) ->
              forM_ l0 (fun '(i, r) => set_rec_status i (r_status r)) ca = (cb, Val tt) ->
              nth_error (sequence (c_ws cb)) i = nth_error (sequence (c_ws ca)) i).
    { induction l0 as [|[k rk] l0 IH0]; intros ca cb Hni X; simpl in X; [inversion X; reflexivity|].
      unfold bind, set_rec_status, modws in X. simpl in Hni.
      rewrite (IH0 _ _ (fun Y => Hni (or_intror Y)) X). simpl. unfold ws_update_rec.
      destruct (nth_error (sequence (c_ws ca)) k); [|reflexivity]. simpl. apply nth_error_set_nth_other. intro Y. apply Hni. left. exact Y. }
    rewrite (Keep l c0 c' Hx E). unfold c0. simpl. unfold ws_update_rec. rewrite Hri. simpl.
    rewrite (nth_error_set_nth_same _ _ _ _ _ Hri). eexists. split; reflexivity.
  - apply (Hrec j rj Hj). rewrite Len. exact Hlt.
Qed.

Lemma psi_request_status_core : forall st c c' x, request_status_core st c = (c', x) ->
  status_in st request_statuses_f = true -> NB c -> Psi c -> Psi c'.
Proof.
  intros st c c' x H Hst N P Hheld.
  unfold request_status_core in H. unfold bind at 1 in H. unfold getws at 1 in H. cbv zeta in H.
  set (active := ws_tasks_by_status (c_ws c) ACTIVE_STATUSES) in *. fold (rq_body1 st) in H.
  destruct (rq_loop1_val st active c Hst N) as [c1 [E1 [W1 [T1 [L1 N1]]]]].
  unfold bind at 1 in H. rewrite E1 in H.
  (* the workflow machine *)
  destruct (bind_inv _ _ _ _ _ _ _ H) as [[c2 [unr [E2 X2]]]|[e [E2 _]]].
  2: { (* it raised: impossible from pausing / canceling *)
       exfalso. unfold wf_workflow_event_M in E2.
       destruct (wf_process_workflow_event (c_graph c1) (c_ws c1) st) as [[? ?]|?] eqn:Ew; inversion E2; subst c'.
       unfold wf_process_workflow_event in Ew. rewrite wf_workflow_event_name_eq in Ew.
       rewrite F_req_event_valid in Ew; [|exact Hst|intro Hd; apply andb_prop in Hd; destruct Hd as [Hd _]; apply andb_prop in Hd; destruct Hd as [Hd _];
                                              apply andb_prop in Hd; destruct Hd as [Hd _]; apply andb_prop in Hd; destruct Hd as [_ Hd]; exact Hd].
       cbn [negb] in Ew. destruct (tbl_row wf_table (wstatus (c_ws c1))) eqn:Er; [|exact (F_wf_row_held _ Hheld Er)].
       destruct (aget String.eqb _ l); [|discriminate Ew]. match type of Ew with (if ?b then _ else _) = _ => destruct b end; discriminate Ew. }
  destruct (wf_workflow_event_eff _ _ _ _ E2) as [n [-> Hn]].
  set (c2 := set_ws c1 (ws_set_status (c_ws c1) n)) in *.
  destruct (log_unreachable_run unr c2) as [c3 [E3 W3]].
  unfold bind at 1 in X2. rewrite E3 in X2. unfold bind at 1 in X2. unfold getws at 1 in X2. rewrite W3 in X2.
  change (wstatus (c_ws c2)) with n in X2.
  (* when the status is kept or entered with an active task, that task is still active at the end *)
  assert (Act : has_active_tasks (c_ws c1) = true -> HA c3).
  { intro Ha. apply has_active_HA in Ha. destruct Ha as [i [r [A [B C]]]]. exists i, r. rewrite W3. unfold c2. simpl. auto. }
  assert (Sweep : In n HELD2 -> has_active_tasks (c_ws c1) = true \/
                  (n = wstatus (c_ws c) /\ st <> wstatus (c_ws c) /\ ~ (st = S_PAUSED /\ wstatus (c_ws c) = S_PAUSING) /\
                   ~ (st = S_CANCELED /\ wstatus (c_ws c) = S_CANCELING))).
  { intro Hin. destruct Hn as [->|Hn]; [simpl in Hin; intuition discriminate|].
    rewrite wf_workflow_event_name_eq, W1 in Hn. rewrite Hn in Hin |- *.
    refine (F_held_needs_active_request _ _ _ _ Hst _ Hin).
    intro Hd. apply andb_prop in Hd. destruct Hd as [Hd _]. apply andb_prop in Hd. destruct Hd as [Hd _]. apply andb_prop in Hd. destruct Hd as [Hd _].
    apply andb_prop in Hd. destruct Hd as [Hd _]. apply status_eqb_eq in Hd. exact Hd. }
  assert (Hin3 : c' = c3 -> In n HELD2) by (intros ->; rewrite W3 in Hheld; exact Hheld).
  destruct (status_eqb st S_PAUSED && status_eqb (wstatus (c_ws c)) S_PAUSING && status_eqb n S_PAUSING) eqn:EA1.
  { inversion X2; subst c'. destruct (Sweep (Hin3 eq_refl)) as [Ha|[_ [_ [Hx _]]]]; [exact (Act Ha)|]. exfalso. apply Hx.
    apply andb_prop in EA1. destruct EA1 as [EA1 _]. apply andb_prop in EA1. destruct EA1 as [A B].
    apply status_eqb_eq in A. apply status_eqb_eq in B. auto. }
  destruct (status_eqb st S_CANCELED && status_eqb (wstatus (c_ws c)) S_CANCELING && status_eqb n S_CANCELING) eqn:EA2.
  { inversion X2; subst c'. destruct (Sweep (Hin3 eq_refl)) as [Ha|[_ [_ [_ Hx]]]]; [exact (Act Ha)|]. exfalso. apply Hx.
    apply andb_prop in EA2. destruct EA2 as [EA2 _]. apply andb_prop in EA2. destruct EA2 as [A B].
    apply status_eqb_eq in A. apply status_eqb_eq in B. auto. }
  destruct (negb (status_eqb st (wstatus (c_ws c))) && status_eqb (wstatus (c_ws c)) n) eqn:EA3.
  - (* rejected: the records of the snapshot get their statuses back *)
    apply andb_prop in EA3. destruct EA3 as [_ EA3]. apply status_eqb_eq in EA3.
    destruct (rq_restore active c3 (tasks_by_status_NoDup _ _)) as [c4 [E4 [W4 [T4 Hrec]]]].
    unfold bind at 1 in X2. rewrite E4 in X2. unfold raise in X2. inversion X2; subst c'.
    assert (Hs : In (wstatus (c_ws c)) HELD2).
    { rewrite W4, W3 in Hheld. change (wstatus (c_ws c2)) with n in Hheld. rewrite <- EA3 in Hheld. exact Hheld. }
    destruct (P Hs) as [i [r [A [B C]]]].
    assert (Hinl : In (i, r) active).
    { unfold active, ws_tasks_by_status. apply filter_In. split; [unfold enumerate; exact (In_enumerate_from_nth _ _ 0 i r A)|rewrite B, C; reflexivity]. }
    assert (Hlt : i < length (sequence (c_ws c3))).
    { rewrite W3. unfold c2. simpl. rewrite L1. apply nth_error_Some. rewrite A. discriminate. }
    destruct (Hrec i r Hinl Hlt) as [r' [A' B']]. exists i, r'. split; [exact A'|]. split; [rewrite B'; exact B|].
    unfold ws_pointed in *. rewrite T4, W3. unfold c2. simpl. rewrite T1. exact C.
  - inversion X2; subst c'. destruct (Sweep (Hin3 eq_refl)) as [Ha|[Hx [Hy _]]]; [exact (Act Ha)|]. exfalso.
    assert (X : negb (status_eqb st (wstatus (c_ws c))) && status_eqb (wstatus (c_ws c)) n = true).
    { rewrite Hx, status_eqb_refl, andb_true_r. apply negb_true_iff. destruct (status_eqb st (wstatus (c_ws c))) eqn:E; [|reflexivity].
      apply status_eqb_eq in E. contradiction. }
    congruence.
Qed.

End PsiRequests.

(* ================================================================== C. the protocol *)
Section PsiSystem.
Variable ev : string -> dict -> evalres.

(* what the folds carry: the state is initialised, pointers are well-formed, statuses are the used ones, and Psi *)
Definition pfull (c : cstate) : Prop := c_init c = true /\ P_ok c /\ NB c /\ Psi c.

Lemma NB_OwnOk : forall c t r, NB c -> OwnOk c t r.
Proof. intros c t r N idx0 r0 _ Hr. exact (N idx0 r0 Hr). Qed.

Lemma pfull_event : forall s t r e, ibad (isys_event ev s t r e) = false -> nbad e -> pfull (si_c s) -> pfull (si_c (isys_event ev s t r e)).
Proof.
  intros s t r e Hb Hn [Ia [Pa [N P]]]. pose proof (ievent_val ev s t r e Hb) as H.
  destruct (prot_ok ev _ _ _ _ _ H Ia Pa) as [Ib Pb]. split; [exact Ib|]. split; [exact Pb|].
  split; [exact (nb_event ev s t r e Hn Hb N)|].
  unfold update_task_state in H. exact (psi_fuel ev _ t r e _ _ H Ia Pa Hn (or_intror (NB_OwnOk _ _ _ N))).
Qed.

Lemma pfull_ack : forall t r s a, ibad (isys_ack ev t r s a) = false -> pfull (si_c s) -> pfull (si_c (isys_ack ev t r s a)).
Proof. intros t r s a Hb F. unfold isys_ack in *. destruct (a_item a); apply pfull_event; try assumption; reflexivity. Qed.

Lemma pfull_fold_ack : forall t r acts s, ibad (fold_left (isys_ack ev t r) acts s) = false -> pfull (si_c s) ->
  pfull (si_c (fold_left (isys_ack ev t r) acts s)).
Proof.
  intros t r. induction acts as [|a acts IH]; intros s Hb F; cbn [fold_left] in *; [exact F|].
  apply IH; [exact Hb|]. apply pfull_ack; [|exact F].
  apply (not_bad_before (fun x => fold_left (isys_ack ev t r) acts x)); [apply ibad_fold_ack_mono|exact Hb].
Qed.

Lemma pfull_ack_offer : forall s o, ibad (isys_ack_offer ev s o) = false -> pfull (si_c s) -> pfull (si_c (isys_ack_offer ev s o)).
Proof.
  intros s o Hb F. unfold isys_ack_offer in *. destruct (o_items_count o) as [[|m]|]; try (apply pfull_fold_ack; assumption).
  apply pfull_event; [exact Hb|reflexivity|]. apply pfull_event; [|reflexivity|exact F].
  apply (not_bad_before (fun x => isys_event ev x (o_id o) (o_route o) (EvAction S_SUCCEEDED (JList [])))); [apply ibad_event_mono|exact Hb].
Qed.

Lemma pfull_fold_offer : forall offers s, ibad (fold_left (isys_ack_offer ev) offers s) = false -> pfull (si_c s) ->
  pfull (si_c (fold_left (isys_ack_offer ev) offers s)).
Proof.
  induction offers as [|o offers IH]; intros s Hb F; cbn [fold_left] in *; [exact F|].
  apply IH; [exact Hb|]. apply pfull_ack_offer; [|exact F].
  apply (not_bad_before (fun x => fold_left (isys_ack_offer ev) offers x)); [apply ibad_fold_offer_mono|exact Hb].
Qed.

Lemma pfull_poll : forall s, pfull (si_c s) -> ibad (isys_poll ev s) = false -> pfull (si_c (isys_poll ev s)).
Proof.
  intros s [Ia [Pa [N P]]] Hb. unfold isys_poll in *. destruct (get_next_tasks ev (si_c s)) as [c1 [offers|x]] eqn:Hg; [|discriminate Hb].
  destruct (gn_items_eff ev _ _ _ Ia Hg) as [(_ & _ & Hin & Hseq & Htk & Hw & _) _].
  apply pfull_fold_offer; [exact Hb|]. simpl. split; [congruence|]. split; [|split].
  - intros t r i E. unfold ws_task_idx in *. rewrite Htk in E. rewrite Hseq. exact (Pa t r i E).
  - intros i rec E. rewrite Hseq in E. exact (N i rec E).
  - intros X. destruct Hw as [Hw|Hw]; [|rewrite Hw in X; simpl in X; intuition discriminate]. rewrite Hw in X.
    destruct (P X) as [i [r [A [B C]]]]. exists i, r. rewrite Hseq. unfold ws_pointed in *. rewrite Htk. auto.
Qed.

Definition pfull_inv (s : isys) : Prop := ibad s = false -> unborn (si_c s) \/ pfull (si_c s).

Lemma born_pfull : forall c c1, unborn c -> ensure_ws ev c = (c1, Val tt) -> pfull c1.
Proof.
  intros c c1 Hu En. destruct (born_rec ev _ _ Hu En) as [A [B _]]. split; [exact A|]. split; [exact B|].
  destruct Hu as [Hi Hw]. destruct (ensure_fresh ev c c1 Hi Hw En) as [_ [_ [_ [Hs [_ Hst]]]]]. split.
  - intros i rec E. rewrite Hs in E. destruct i; discriminate E.
  - intros X. exfalso. destruct Hst as [[W _]|[W _]]; rewrite W in X; simpl in X; intuition discriminate.
Qed.

Lemma pfull_step : forall s op, isys_inv2 s -> pfull_inv s -> pfull_inv (isys_step ev s op).
Proof.
  intros s op H2 H3 Hb.
  assert (Hb0 : ibad s = false) by (apply (not_bad_before (fun x => isys_step ev x op)); [intro; apply ibad_step_mono; assumption|exact Hb]).
  assert (Rq : forall st, ibad (isys_request ev s st) = false -> unborn (si_c (isys_request ev s st)) \/ pfull (si_c (isys_request ev s st))).
  { intros st Hb'. unfold isys_request in *. destruct (status_in st request_statuses) eqn:Hst; [|exact (H3 Hb0)].
    destruct (api_exec ev (OpRequest st) (si_c s)) as [c' x] eqn:E. simpl. right.
    unfold ibad in Hb'. simpl in Hb'. apply orb_false_iff in Hb'. destruct Hb' as [Hb1 _]. apply orb_false_iff in Hb1. destruct Hb1 as [_ Hb3].
    cbn [api_exec] in E. unfold bind at 1 in E. destruct (request_workflow_status ev st (si_c s)) as [c2 rr] eqn:R.
    assert (c' = c2) by (destruct rr; inversion E; reflexivity). subst c2.
    unfold request_workflow_status, bind in R. destruct (ensure_ws ev (si_c s)) as [c1 [[]|e]] eqn:En; [|discriminate Hb3].
    assert (F1 : pfull c1).
    { destruct (H3 Hb0) as [Hu|F]; [exact (born_pfull _ _ Hu En)|].
      destruct F as [Ia F']. rewrite (ensure_ws_inited ev _ Ia) in En. inversion En; subst c1. split; assumption. }
    destruct F1 as [Ia [Pa [N P]]].
    destruct (request_records ev st c1 c' rr Ia (ltac:(unfold request_workflow_status, bind; rewrite (ensure_ws_inited ev c1 Ia); exact R))) as [Hs [Ht [Hin Hrec]]].
    split; [congruence|]. split; [|split].
    - intros t r i Ep. unfold ws_task_idx in *. rewrite Ht in Ep. destruct (Pa t r i Ep) as [rec [A B]].
      destruct (Hrec i rec A) as [rec' [A' [B' _]]]. exists rec'. split; [exact A'|congruence].
    - exact (nb_request_status_core st _ _ _ R N).
    - exact (psi_request_status_core st _ _ _ R Hst N P). }
  assert (Cl : forall o, o = OpRender \/ o = OpPersist -> ibad (isys_call ev s o) = false ->
               unborn (si_c (isys_call ev s o)) \/ pfull (si_c (isys_call ev s o))).
  { intros o Hop Hb'. unfold isys_call in *. destruct (api_exec ev o (si_c s)) as [c' x] eqn:E. simpl. right.
    unfold ibad in Hb'. simpl in Hb'. apply orb_false_iff in Hb'. destruct Hb' as [Hb1 _]. apply orb_false_iff in Hb1. destruct Hb1 as [_ Hb3].
    assert (XX : exists c1, pfull c1 /\ api_exec ev o c1 = (c', x)).
    { destruct (H3 Hb0) as [Hu|F]; [|exists (si_c s); auto].
      destruct Hop as [-> | ->]; cbn [api_exec] in E |- *;
        (destruct (then_ret_inv _ _ _ _ _ _ E) as [[Hx X]|[e [Hx _]]]; [|rewrite Hx in Hb3; discriminate Hb3]).
      - unfold render_workflow_output in X.
        match type of X with bind (ensure_ws ev) ?k (si_c s) = _ =>
          destruct (unborn_call ev _ k (si_c s) Hu) as [[c1 [e [_ Z]]]|[c1 [En [I Z]]]] end; [rewrite Z in X; discriminate X|].
        exists c1. split; [exact (born_pfull _ _ Hu En)|]. rewrite Z in X. unfold bind at 1. unfold render_workflow_output. rewrite X, Hx. reflexivity.
      - unfold persist in X.
        match type of X with bind (ensure_ws ev) ?k (si_c s) = _ =>
          destruct (unborn_call ev _ k (si_c s) Hu) as [[c1 [e [_ Z]]]|[c1 [En [I Z]]]] end; [rewrite Z in X; discriminate X|].
        exists c1. split; [exact (born_pfull _ _ Hu En)|]. rewrite Z in X. unfold bind at 1. unfold persist. rewrite X, Hx. reflexivity. }
    destruct XX as [c1 [[Ia [Pa [N P]]] E1]].
    destruct Hop as [-> | ->]; cbn [api_exec] in E1; destruct (then_ret_unit _ _ _ _ E1) as [[_ X]|Y]; try congruence.
    - pose proof (vlt_render_workflow_output ev c1 Ia c' tt X) as L. pose proof L as [Hs [Ht [_ [_ [_ [_ [_ [_ Hin]]]]]]]].
      split; [congruence|]. split; [|split].
      + intros t r i Ep. unfold ws_task_idx in *. rewrite Ht in Ep. rewrite Hs. exact (Pa t r i Ep).
      + intros i rec Er. rewrite Hs in Er. exact (N i rec Er).
      + exact (psi_fr _ _ (Rlt_Rfr _ _ L) P).
    - rewrite (persist_identity ev c1 Ia) in X. inversion X; subst. split; auto. }
  destruct op; cbn [isys_step] in *; auto.
  - right. destruct (H3 Hb0) as [Hu|F]; [|apply pfull_poll; assumption].
    destruct (unborn_get_next ev s Hu) as [[c1 [e X]]|[c2 [En [I X]]]]; [unfold isys_poll in Hb; rewrite X in Hb; discriminate Hb|].
    assert (E : isys_poll ev s = isys_poll ev (set_c s c2)) by (unfold isys_poll; simpl; rewrite X; reflexivity).
    rewrite E in *. apply pfull_poll; [simpl; exact (born_pfull _ _ Hu En)|exact Hb].
  - destruct (H3 Hb0) as [Hu|F].
    + left. destruct (inv2_link s H2 Hb0) as [[_ HF]|[Hi _]]; [unfold isys_report; rewrite HF; simpl; exact Hu|destruct Hu; congruence].
    + right. unfold isys_report in *. destruct (ikey_in _ _ && _) eqn:En; [|exact F].
      apply andb_true_iff in En. destruct En as [_ Hst].
      destruct item; apply pfull_event; try assumption; simpl; destruct st; try discriminate Hst; reflexivity.
Qed.

Lemma pfull_run : forall ops s, isys_inv2 s -> pfull_inv s -> pfull_inv (isys_run ev ops s).
Proof.
  induction ops as [|op ops IH]; intros s H2 H3; [exact H3|]. cbn [isys_run fold_left].
  apply IH; [apply isys_step_inv2; exact H2|apply pfull_step; assumption].
Qed.

End PsiSystem.

Section BusyReachable.
Variable ev : string -> dict -> evalres.
Variables (sp : wf_spec) (g : graph) (inputs parent : dict).

(* when the workflow reports pausing or canceling the conductor counts an active task execution *)
Theorem held_has_active_task : forall ops, let s := ireach ev sp g inputs parent ops in
  si_fault s = false -> si_wiped s = false ->
  In (wstatus (c_ws (si_c s))) [S_PAUSING; S_CANCELING] -> has_active_tasks (c_ws (si_c s)) = true.
Proof.
  intros ops s Hf Hw Hin.
  assert (F : pfull_inv s).
  { apply (pfull_run ev ops _ (isys_init_inv2 sp g inputs parent)). intros _. left. split; reflexivity. }
  destruct (F (ibad_false _ Hf Hw)) as [[_ Hws]|[_ [_ [_ P]]]].
  - exfalso. rewrite Hws in Hin. simpl in Hin. intuition discriminate.
  - apply has_active_HA. exact (P Hin).
Qed.

(* no task record ever has a status the protocol does not use *)
Theorem records_use_item_statuses : forall ops, let s := ireach ev sp g inputs parent ops in
  si_fault s = false -> si_wiped s = false ->
  forall i rec, nth_error (sequence (c_ws (si_c s))) i = Some rec -> ostatus_in (r_status rec) UNUSED_STATUSES = false /\ r_status rec <> Some S_UNSET.
Proof.
  intros ops s Hf Hw.
  assert (F : pfull_inv s).
  { apply (pfull_run ev ops _ (isys_init_inv2 sp g inputs parent)). intros _. left. split; reflexivity. }
  destruct (F (ibad_false _ Hf Hw)) as [[_ Hws]|[_ [_ [N _]]]].
  - intros i rec E. rewrite Hws in E. destruct i; discriminate E.
  - exact N.
Qed.

End BusyReachable.
