(* SysItemsIdleProofs.v -- the with-items provider protocol: when the workflow reports paused or canceled no task
   execution is active, hence nothing is in flight. *)
From Coq Require Import String List Bool ZArith Arith Lia.
From Orq Require Import GenStatuses GenEvents GenTables GenSpecMeta Base State Machines Codec Conductor Decode Api Driver ProviderSys ProviderSysItems ProviderSysItemsMon ProviderSysItemsMon2.
From Orq Require Import F_tables F_names F_sys F_sysitems Hoare ValuePost StatusReach C04Proofs C05Proofs C02C03Proofs C09C10Proofs OffersProofs InertProofs RetryProofs SysProofs SysNextProofs SysItemsProofs SysItemsRecProofs SysItemsPlainProofs.
Import ListNotations.
Open Scope string_scope.

(* some pointed record is active: what has_active_tasks computes *)
Definition HA (c : cstate) : Prop :=
  exists i r, nth_error (sequence (c_ws c)) i = Some r /\ ostatus_in (r_status r) ACTIVE_STATUSES = true /\
              ws_pointed (c_ws c) i = true.

Lemma has_active_HA : forall c, has_active_tasks (c_ws c) = true <-> HA c.
Proof.
  intro c. unfold has_active_tasks, HA. split.
  - destruct (ws_tasks_by_status (c_ws c) ACTIVE_STATUSES) as [|[i r] l] eqn:E; [discriminate|]. intros _.
    assert (Hin : In (i, r) (ws_tasks_by_status (c_ws c) ACTIVE_STATUSES)) by (rewrite E; left; reflexivity).
    destruct (tasks_by_status_In _ _ _ _ Hin) as [A B]. exists i, r. split; [exact A|]. split; [exact B|].
    unfold ws_tasks_by_status in Hin. apply filter_In in Hin. destruct Hin as [_ Hf]. apply andb_prop in Hf. apply Hf.
  - intros [i [r [A [B C]]]].
    assert (Hin : In (i, r) (ws_tasks_by_status (c_ws c) ACTIVE_STATUSES)).
    { unfold ws_tasks_by_status. apply filter_In. split; [|rewrite B, C; reflexivity].
      unfold enumerate. exact (In_enumerate_from_nth _ _ 0 i r A). }
    destruct (ws_tasks_by_status (c_ws c) ACTIVE_STATUSES); [destruct Hin|reflexivity].
Qed.

Definition REST2 : list status := [S_PAUSED; S_CANCELED].
Definition Phi (c : cstate) : Prop := In (wstatus (c_ws c)) REST2 -> ~ HA c.
Definition Rphi (c c' : cstate) : Prop := Phi c -> Phi c'.
Lemma Rphi_refl : forall c, Rphi c c. Proof. intros c H; exact H. Qed.
Lemma Rphi_trans : forall a b c, Rphi a b -> Rphi b c -> Rphi a c. Proof. unfold Rphi; auto. Qed.

(* the workflow status is kept or failed, and no record becomes active or pointed *)
Definition Rdown (c c' : cstate) : Prop :=
  (wstatus (c_ws c') = wstatus (c_ws c) \/ wstatus (c_ws c') = S_FAILED) /\ (HA c' -> HA c).
Lemma Rdown_refl : forall c, Rdown c c. Proof. intro c; split; auto. Qed.
Lemma Rdown_trans : forall a b c, Rdown a b -> Rdown b c -> Rdown a c.
Proof. intros a b c [A1 A2] [B1 B2]. split; [|auto]. destruct B1 as [B1|B1]; [|right; exact B1]. destruct A1 as [A1|A1]; [left|right]; congruence. Qed.
Lemma Rdown_phi : forall c c', Rdown c c' -> Rphi c c'.
Proof.
  intros c c' [W H] P Hin Ha. destruct W as [W|W]; [|rewrite W in Hin; simpl in Hin; intuition discriminate].
  rewrite W in Hin. exact (P Hin (H Ha)).
Qed.
Lemma Rdown_rest : forall c c', Rdown c c' -> ~ In (wstatus (c_ws c)) REST2 -> ~ In (wstatus (c_ws c')) REST2.
Proof. intros c c' [[W|W] _] H X; rewrite W in X; [exact (H X)|simpl in X; intuition discriminate]. Qed.

Lemma HA_sig : forall c c', tasks (c_ws c') = tasks (c_ws c) -> map sig (sequence (c_ws c')) = map sig (sequence (c_ws c)) ->
  HA c' -> HA c.
Proof.
  intros c c' Ht Hs [i [r [A [B C]]]]. destruct (nth_map_sig _ _ _ _ (eq_sym Hs) A) as [r0 [A0 S]]. destruct (sig_key _ _ S) as [_ S1].
  exists i, r0. split; [exact A0|]. split; [rewrite S1; exact B|]. unfold ws_pointed in *. rewrite <- Ht. exact C.
Qed.
Lemma Rdown_fr : forall c c', Rfr c c' -> Rdown c c'.
Proof. intros c c' [T [S [W _]]]. split; [exact W|apply HA_sig; assumption]. Qed.

Lemma In_aset_tkey : forall (d : list (tkey * nat)) k v k0 v0, In (k, v) (aset tkey_eqb k0 v0 d) -> (k, v) = (k0, v0) \/ In (k, v) d.
Proof.
  induction d as [|[k1 v1] d IH]; simpl; intros k v k0 v0 H.
  - destruct H as [H|[]]. left. congruence.
  - destruct (tkey_eqb k0 k1) eqn:E.
    + apply tkey_eqb_eq in E. subst k1. destruct H as [H|H]; [left; congruence|right; right; exact H].
    + destruct H as [H|H]; [right; left; exact H|]. destruct (IH _ _ _ _ H); auto.
Qed.

Section PhiFrame.
Variable ev : string -> dict -> evalres.

Lemma down_fr : forall A (m : M A), vpres Rfr m -> vpres Rdown m.
Proof. intros A m H c c' a E. apply Rdown_fr. exact (H _ _ _ E). Qed.
Lemma phi_fr : forall A (m : M A), vpres Rfr m -> vpres Rphi m.
Proof. intros A m H c c' a E. apply Rdown_phi. apply Rdown_fr. exact (H _ _ _ E). Qed.

Lemma down_add_task_state : forall t rt ins prev, vpres Rdown (add_task_state ev t rt ins prev).
Proof.
  intros t rt ins prev c c' idx H. destruct (add_task_state_eff ev _ _ _ _ _ _ _ H) as [cm [retry [L [-> [-> _]]]]].
  apply (Rdown_trans _ cm); [apply Rdown_fr; apply Rlt_Rfr; exact L|]. split; [left; reflexivity|].
  intros [i [r [A [B C]]]]. simpl in A, C.
  destruct (Nat.lt_ge_cases i (length (sequence (c_ws cm)))) as [Hlt|Hge].
  - rewrite nth_error_app1 in A by exact Hlt. exists i, r. split; [exact A|]. split; [exact B|].
    unfold ws_pointed in *. simpl in C. apply existsb_exists in C. destruct C as [[k j] [Hin Hj]]. apply Nat.eqb_eq in Hj. subst j.
    apply In_aset_tkey in Hin. destruct Hin as [Hin|Hin]; [inversion Hin; lia|].
    apply existsb_exists. exists (k, i). split; [exact Hin|apply Nat.eqb_refl].
  - rewrite nth_error_app2 in A by exact Hge. destruct (i - length (sequence (c_ws cm))) as [|k]; simpl in A; [inversion A; subst r; discriminate B|destruct k; discriminate A].
Qed.

Lemma down_sel1 : forall t s0 e0, vpres Rdown (uts_sel1 ev t s0 e0).
Proof.
  intros t s0 e0. unfold uts_sel1, uts_need_staged.
  destruct e0; [destruct (is_engine_command t); [|apply (vp_ret _ Rdown_refl)]|];
    (apply (vp_bind _ Rdown_trans); [destruct s0; [apply (vp_ret _ Rdown_refl)|apply vp_raise]|intro; apply down_add_task_state]).
Qed.
Lemma down_sel2 : forall t evt s0 r1 i, vpres Rdown (uts_sel2 ev t evt s0 r1 i).
Proof.
  intros t evt s0 r1 i. unfold uts_sel2, uts_need_staged. destruct (_ && _ && _); [|apply (vp_ret _ Rdown_refl)].
  apply (vp_bind _ Rdown_trans); [destruct s0; [apply (vp_ret _ Rdown_refl)|apply vp_raise]|intro; apply down_add_task_state].
Qed.

(* the workflow machine on a task event: paused / canceled are entered only when no task is active *)
Lemma phi_wf_task_event : forall t route st, vpres Rphi (wf_task_event_M t route st).
Proof.
  intros t route st c c' unr H P. destruct (wf_task_event_eff _ _ _ _ _ _ H) as [n [-> Hn]].
  intros Hin Ha. simpl in Hin.
  assert (Ha0 : HA c).
  { destruct Ha as [i [r [A [B C]]]]. exists i, r. auto. }
  destruct Hn as [->|Hn]; [simpl in Hin; intuition discriminate|].
  subst n. unfold wf_task_event_name in Hin.
  destruct (F_rest_needs_dormant_task _ _ _ _ _ _ _ Hin) as [Hf|Hs].
  - apply has_active_HA in Ha0. congruence.
  - rewrite Hs in Hin. exact (P Hin Ha0).
Qed.


(* engine events: commands and the retry event *)
Definition ENGINE_NAMES : list string := ["task_continue_requested"; "task_fail_requested"; "task_noop_requested"; "task_retry_requested"].
Definition calm (e : event) : Prop :=
  match e with
  | EvEngine n _ => string_in n ENGINE_NAMES = true
  | EvAction st _ | EvItem _ st _ _ => status_in st COMPLETED_STATUSES = true
  | EvWorkflow _ => False
  end.

Lemma engine_event_calm : forall n e, engine_event n = Some e -> calm e.
Proof.
  intros n e H. unfold engine_event in H. destruct (aget String.eqb n ENGINE_EVENT_MAP) as [[nm st]|] eqn:E; inversion H; subst e.
  simpl. apply aget_In in E. simpl in E. repeat (destruct E as [E|E]; [inversion E; subst; reflexivity|]). destruct E.
Qed.

(* a status written into a record: harmless when it does not make an inactive record active, or when the workflow is
   not at rest *)
Lemma phi_set_status : forall c idx r s, nth_error (sequence (c_ws c)) idx = Some r ->
  ((ostatus_in s ACTIVE_STATUSES = true -> ostatus_in (r_status r) ACTIVE_STATUSES = true) \/ ~ In (wstatus (c_ws c)) REST2) ->
  Rphi c (set_ws c (ws_update_rec (c_ws c) idx (fun r0 => r_set_status r0 s))).
Proof.
  intros c idx r s Hr H P Hin Ha. simpl in Hin. rewrite wstatus_update_rec in Hin. destruct H as [Hs|Hn]; [|exact (Hn Hin)]. apply (P Hin).
  unfold ws_update_rec in Ha. rewrite Hr in Ha.
  destruct Ha as [i [r' [A [B C]]]]. simpl in A, C. destruct (Nat.eq_dec i idx) as [->|Hne].
  - rewrite (nth_error_set_nth_same _ _ _ _ _ Hr) in A. inversion A; subst r'. simpl in B. exists idx, r. auto.
  - rewrite nth_error_set_nth_other in A by congruence. exists i, r'. auto.
Qed.

Lemma phi_setst : forall idx ns c c' r, nth_error (sequence (c_ws c)) idx = Some r ->
  (forall x, ns = Some x -> status_in x ACTIVE_STATUSES = true -> ostatus_in (r_status r) ACTIVE_STATUSES = true) \/ ~ In (wstatus (c_ws c)) REST2 ->
  uts_setst idx ns c = (c', Val tt) -> Rphi c c'.
Proof.
  intros idx ns c c' r Hr H E. unfold uts_setst in E. destruct ns as [s|]; [|inversion E; apply Rphi_refl].
  unfold set_rec_status, modws in E. inversion E; subst c'. apply (phi_set_status c idx r (Some s) Hr).
  destruct H as [H|H]; [left; simpl; apply H; reflexivity|right; exact H].
Qed.

Lemma rstatus_active : forall r, status_in (rstatus r) ACTIVE_STATUSES = true -> ostatus_in (r_status r) ACTIVE_STATUSES = true.
Proof. intros r H. unfold rstatus in H. destruct (r_status r); [exact H|discriminate H]. Qed.

Section WithRec.
Variable rec : string -> nat -> event -> M unit.
Hypothesis Hrec : forall t r e, calm e -> vpres Rphi (rec t r e).

Lemma phi_tail : forall t route ts idx o n compl, vpres Rphi (uts_tail ev rec t route ts idx o n compl).
Proof.
  intros t route ts idx o n compl. unfold uts_tail.
  assert (G : vpres Rphi
            (queue <- uts_queue ev t route idx ts o n compl ;;
             r <- get_rec idx ;;
             st <- match r_status r with Some s => ret s | None => raise (exn_key "status") end ;;
             unreachable <- wf_task_event_M t route st ;;
             log_unreachable unreachable ;;;
             forM_ queue (uts_call rec) ;;;
             (w <- getws ;; (if status_in (wstatus w) COMPLETED_STATUSES then upd_rec idx (fun r0 => r_set_term r0 true) else ret tt)))).
  { apply (vp_bind _ Rphi_trans); [apply phi_fr; apply vfr_queue|intro queue].
    apply (vp_bind _ Rphi_trans); [apply phi_fr; apply vfr_get_rec|intro r].
    apply (vp_bind _ Rphi_trans); [destruct (r_status r); [apply (vp_ret _ Rphi_refl)|apply vp_raise]|intro st].
    apply (vp_bind _ Rphi_trans); [apply phi_wf_task_event|intro unr].
    apply (vp_bind _ Rphi_trans); [apply phi_fr; apply vfr_log_unreachable|intros _].
    apply (vp_bind _ Rphi_trans).
    - apply (vp_forM _ Rphi_refl Rphi_trans). intros [nn rt]. unfold uts_call.
      destruct (engine_event nn) as [e|] eqn:E; [|apply vp_raise]. apply Hrec. eapply engine_event_calm; exact E.
    - intros _. apply (vp_bind _ Rphi_trans); [apply (vp_getws _ Rphi_refl)|intro w].
      destruct (status_in (wstatus w) COMPLETED_STATUSES); [apply phi_fr; apply vfr_upd_rec; intro; reflexivity|apply (vp_ret _ Rphi_refl)]. }
  destruct compl as [[ctx [|]]|]; [|exact G|exact G].
  apply Hrec. reflexivity.
Qed.

Lemma phi_machine : forall t route evt ts idx c c', calm evt \/ ~ In (wstatus (c_ws c)) REST2 ->
  uts_machine ev rec t route evt ts idx c = (c', Val tt) -> Rphi c c'.
Proof.
  intros t route evt ts idx c c' Hc H. unfold uts_machine in H.
  apply bind_val_inv' in H. destruct H as [c0 [r [E0 H]]]. apply get_rec_inv in E0. destruct E0 as [-> Hr].
  apply bind_val_inv' in H. destruct H as [c0 [w [E0 H]]]. inversion E0; subst c0 w; clear E0.
  apply bind_val_inv' in H. destruct H as [c0 [ns [E0 H]]].
  assert (Ens : task_process_event (c_ws c) r evt = Val ns /\ c0 = c)
    by (destruct (task_process_event (c_ws c) r evt); inversion E0; auto). destruct Ens as [Ens ->].
  apply bind_val_inv' in H. destruct H as [c1 [[] [E1 H]]].
  assert (S1 : Rphi c c1).
  { apply (phi_setst idx ns c c1 r Hr); [|exact E1]. destruct Hc as [Hc|Hc]; [left|right; exact Hc].
    intros x -> Hx. destruct evt as [st|st res|i st res acc|n st]; try (exfalso; exact Hc).
    - unfold task_process_event in Ens. destruct (negb _); [discriminate|]. apply task_table_step_val in Ens.
      apply rstatus_active. exact (F_completion_no_activation _ _ _ Ens (F_action_name_completion _ Hc) Hx).
    - unfold task_process_event in Ens. destruct (negb _); [discriminate|].
      destruct (item_event_name (c_ws c) (r_id r) (r_route r) i st) as [nm|e] eqn:En; [|discriminate].
      apply task_table_step_val in Ens.
      apply rstatus_active. exact (F_completion_no_activation _ _ _ Ens (F_item_name_completion _ _ _ _ _ _ Hc En) Hx).
    - apply tpe_engine in Ens. rewrite (F_engine_not_active _ _ _ Hc Ens) in Hx. discriminate Hx. }
  apply bind_val_inv' in H. destruct H as [c2 [r' [E2 H]]]. apply get_rec_inv in E2. destruct E2 as [-> Hr'].
  apply bind_val_inv' in H. destruct H as [c3 [[] [E3 H]]].
  pose proof (phi_fr _ _ (vfr_retrying t route idx r' (rstatus r')) _ _ _ E3) as S3.
  apply bind_val_inv' in H. destruct H as [c4 [compl [E4 H]]].
  pose proof (phi_fr _ _ (vfr_completion ev t route evt ts idx (rstatus r') (rstatus r)) _ _ _ E4) as S4.
  pose proof (phi_tail _ _ _ _ _ _ _ _ _ _ H) as S5.
  exact (Rphi_trans _ _ _ (Rphi_trans _ _ _ (Rphi_trans _ _ _ S1 S3) S4) S5).
Qed.

Lemma down_ensure_ws : vpres Rdown (ensure_ws ev).
Proof.
  intros c c' a H. destruct (c_init c) eqn:Hi; [rewrite (ensure_ws_inited ev c Hi) in H; inversion H; apply Rdown_refl|].
  unfold ensure_ws in H. unfold bind at 1 in H. unfold get at 1 in H. rewrite Hi in H.
  apply bind_val_inv' in H. destruct H as [c2 [u2 [E2 H]]]. unfold modify in E2. inversion E2; subst c2; clear E2.
  apply bind_val_inv' in H. destruct H as [c3 [[rin ierrs] [E3 H]]].
  pose proof (lt_render_input ev _ _ _ _ _ _ _ E3) as L3.
  apply bind_val_inv' in H. destruct H as [c4 [[rv verrs] [E4 H]]].
  pose proof (lt_render_vars ev _ _ _ _ _ _ _ E4) as L4.
  apply bind_val_inv' in H. destruct H as [c5 [u5 [E5 H]]].
  assert (L5 : Rlt c4 c5).
  { destruct (app ierrs verrs) as [|e0 es]; [inversion E5; subst; apply Rlt_refl|].
    apply bind_val_inv' in E5. destruct E5 as [c6 [u6 [E6 E5]]].
    eapply Rlt_trans; [eapply vlt_log_errors; exact E6|eapply vlt_request_failed; exact E5]. }
  pose proof (Rlt_trans _ _ _ (Rlt_trans _ _ _ L3 L4) L5) as [A1 [A2 [_ [_ [_ [A6 _]]]]]]. simpl in A1, A2, A6.
  apply bind_val_inv' in H. destruct H as [c6 [w6 [E6 H]]]. inversion E6; subst c6 w6; clear E6.
  assert (D5 : Rdown c c5).
  { split; [exact A6|]. intros [i [r [A [B C]]]]. exists i, r. rewrite A1 in A. unfold ws_pointed in *. rewrite A2 in C. auto. }
  destruct (status_in (wstatus (c_ws c5)) ABENDED_STATUSES).
  - inversion H; subst c'. exact D5.
  - apply bind_val_inv' in H. destruct H as [c7 [u7 [E7 H]]]. unfold modws in E7. inversion E7; subst c7; clear E7.
    assert (G : forall l cx cy u, forM_ l (fun t => modws (fun w => ws_add_staged w (mk_staged t 0 [0] [] true None))) cx = (cy, Val u) ->
                sequence (c_ws cy) = sequence (c_ws cx) /\ tasks (c_ws cy) = tasks (c_ws cx) /\ wstatus (c_ws cy) = wstatus (c_ws cx)).
    { induction l as [|t l IH]; intros cx cy u X; simpl in X; [inversion X; auto|].
      apply bind_val_inv' in X. destruct X as [cz [uz [Ez X]]]. unfold modws in Ez. inversion Ez; subst cz.
      destruct (IH _ _ _ X) as [P1 [P2 P3]]. rewrite P1, P2, P3. auto. }
    destruct (G _ _ _ _ H) as [P1 [P2 P3]]. simpl in P1, P2, P3.
    apply (Rdown_trans _ c5); [exact D5|]. split; [left; exact P3|].
    intros [i [r [A [B C]]]]. exists i, r. rewrite P1 in A. unfold ws_pointed in *. rewrite P2 in C. auto.
Qed.

Lemma phi_body : forall t route evt c c', calm evt \/ ~ In (wstatus (c_ws c)) REST2 ->
  uts_body ev rec t route evt c = (c', Val tt) -> Rphi c c'.
Proof.
  intros t route evt c c' Hc H. unfold uts_body in H.
  apply bind_val_inv' in H. destruct H as [ce [[] [Ee H]]]. pose proof (down_ensure_ws _ _ _ Ee) as De.
  unfold bind at 1 in H. unfold get at 1 in H.
  destruct (negb (g_has_task (c_graph ce) t)); [inversion H|]. cbv zeta in H.
  apply bind_val_inv' in H. destruct H as [c0 [ts [E0 H]]].
  assert (c0 = ce) by (destruct (spec_get_task (c_spec ce) t); inversion E0; reflexivity). subst c0.
  assert (Main : forall s0 e0, uts_main ev rec t route evt ts s0 e0 ce = (c', Val tt) -> Rphi c c').
  { clear H. intros s0 e0 H. unfold uts_main in H.
    apply bind_val_inv' in H. destruct H as [c1 [idx1 [E1 H]]]. pose proof (down_sel1 _ _ _ _ _ _ E1) as D1.
    apply bind_val_inv' in H. destruct H as [cx [r1 [Ex H]]]. apply get_rec_inv in Ex. destruct Ex as [-> Hr1].
    apply bind_val_inv' in H. destruct H as [c2 [idx [E2 H]]]. pose proof (down_sel2 _ _ _ _ _ _ _ _ E2) as D2.
    apply bind_val_inv' in H. destruct H as [c3 [[] [E3 H]]]. pose proof (Rdown_fr _ _ (vfr_unstage _ _ _ _ _ _ _ E3)) as D3.
    apply bind_val_inv' in H. destruct H as [c4 [[] [E4 H]]]. pose proof (Rdown_fr _ _ (vfr_item _ _ _ _ _ _ _ E4)) as D4.
    apply bind_val_inv' in H. destruct H as [c5 [[] [E5 H]]]. pose proof (Rdown_fr _ _ (vfr_logfail _ _ _ _ _ E5)) as D5.
    pose proof (Rdown_trans _ _ _ De (Rdown_trans _ _ _ (Rdown_trans _ _ _ (Rdown_trans _ _ _ (Rdown_trans _ _ _ D1 D2) D3) D4) D5)) as D.
    apply (Rphi_trans _ c5); [apply Rdown_phi; exact D|].
    refine (phi_machine _ _ _ _ _ _ _ _ H). destruct Hc as [X|X]; [left; exact X|right; exact (Rdown_rest _ _ D X)]. }
  destruct (get_staged_task (c_ws ce) t route), (ws_task_idx (c_ws ce) t route); try (eapply Main; exact H). inversion H.
Qed.

End WithRec.

Lemma phi_fuel : forall fuel t route evt c c', calm evt \/ ~ In (wstatus (c_ws c)) REST2 ->
  update_task_state_fuel ev fuel t route evt c = (c', Val tt) -> Rphi c c'.
Proof.
  induction fuel as [|fuel IH]; intros t route evt c c' Hc H; [inversion H|]. rewrite uts_unfold in H.
  apply (phi_body (update_task_state_fuel ev fuel)) with (t := t) (route := route) (evt := evt); try assumption.
  intros t' r' e He c1 c2 a E. destruct a. exact (IH t' r' e c1 c2 (or_introl He) E).
Qed.


(* ---- status requests ---- *)
Lemma bind_inv : forall A B (m : M A) (f : A -> M B) c c' x, bind m f c = (c', x) ->
  (exists c1 a, m c = (c1, Val a) /\ f a c1 = (c', x)) \/ (exists e, m c = (c', Exc e) /\ x = Exc e).
Proof.
  intros A B m f c c' x H. unfold bind in H. destruct (m c) as [c1 [a|e]]; [left; exists c1, a; auto|right; exists e; inversion H; auto].
Qed.

Definition Rws (c c' : cstate) : Prop := wstatus (c_ws c') = wstatus (c_ws c).
Lemma Rws_refl : forall c, Rws c c. Proof. intro; reflexivity. Qed.
Lemma Rws_trans : forall a b c, Rws a b -> Rws b c -> Rws a c. Proof. unfold Rws; intros; congruence. Qed.

Lemma ws_set_rec_status : forall i s, preserves Rws (set_rec_status i s).
Proof. intros i s c c' x H. unfold set_rec_status, modws in H. inversion H; subst. unfold Rws. simpl. apply wstatus_update_rec. Qed.

Lemma phi_wf_workflow_event : forall st c c' unr, wf_workflow_event_M st c = (c', Val unr) ->
  (Phi c \/ ~ In (wstatus (c_ws c)) REST2) -> Phi c'.
Proof.
  intros st c c' unr H P. destruct (wf_workflow_event_eff _ _ _ _ H) as [n [-> Hn]].
  intros Hin Ha. simpl in Hin.
  assert (Ha0 : HA c) by (destruct Ha as [i [r [A [B C]]]]; exists i, r; auto).
  destruct Hn as [->|Hn]; [simpl in Hin; intuition discriminate|].
  subst n. rewrite wf_workflow_event_name_eq in Hin.
  destruct (F_rest_needs_dormant_request _ _ _ _ Hin) as [Hf|Hs].
  - apply has_active_HA in Ha0. congruence.
  - rewrite Hs in Hin. destruct P as [P|P]; [exact (P Hin Ha0)|exact (P Hin)].
Qed.

Lemma phi_request_status_core : forall st c c' x, request_status_core st c = (c', x) -> Phi c -> Phi c'.
Proof.
  intros st c c' x H P. unfold request_status_core in H.
  unfold bind at 1 in H. unfold getws at 1 in H. cbv zeta in H.
  set (active := ws_tasks_by_status (c_ws c) ACTIVE_STATUSES) in *.
  assert (L1 : forall l : list (nat * trec), preserves Rws (forM_ l (fun '(i, _) =>
              w <- getws ;;
              match nth_error (sequence w) i with
              | None => ret tt
              | Some r => ns <- lift_res (task_process_event w r (EvWorkflow st)) ;;
                          match ns with Some s => set_rec_status i (Some s) | None => ret tt end
              end) : M unit)).
  { intro l. apply (preserves_forM _ Rws_refl Rws_trans). intros [i r0].
    apply (preserves_bind _ Rws_trans); [apply (preserves_getws _ Rws_refl)|intro w].
    destruct (nth_error (sequence w) i); [|apply (preserves_ret _ Rws_refl)].
    apply (preserves_bind _ Rws_trans); [apply (preserves_lift_res _ Rws_refl)|intro ns].
    destruct ns; [apply ws_set_rec_status|apply (preserves_ret _ Rws_refl)]. }
  assert (L2 : forall l : list (nat * trec), preserves Rws (forM_ l (fun '(i, r) => set_rec_status i (r_status r)))).
  { intro l. apply (preserves_forM _ Rws_refl Rws_trans). intros [i r]. apply ws_set_rec_status. }
  (* what is left once the records were visited *)
  assert (Rest : forall c1, (Phi c1 \/ ~ In (wstatus (c_ws c1)) REST2) -> wstatus (c_ws c1) = wstatus (c_ws c) ->
            (~ In (wstatus (c_ws c)) REST2 \/ active = []) ->
            (unreachable <- wf_workflow_event_M st ;;
             log_unreachable unreachable ;;;
             w1 <- getws ;;
             (if status_eqb st S_PAUSED && status_eqb (wstatus (c_ws c)) S_PAUSING && status_eqb (wstatus w1) S_PAUSING then ret tt
              else if status_eqb st S_CANCELED && status_eqb (wstatus (c_ws c)) S_CANCELING && status_eqb (wstatus w1) S_CANCELING then ret tt
              else if negb (status_eqb st (wstatus (c_ws c))) && status_eqb (wstatus (c_ws c)) (wstatus w1)
              then forM_ active (fun '(i, r) => set_rec_status i (r_status r)) ;;; raise (exn_invalid_wf_transition (wstatus (c_ws c)) (WORKFLOW_EVENT_PREFIX ++ status_name st))
              else ret tt)) c1 = (c', x) -> Phi c').
  { intros c1 P1 W1 Hcase X.
    destruct (bind_inv _ _ _ _ _ _ _ X) as [[c2 [unr [E2 X2]]]|[e [E2 _]]].
    2: { unfold wf_workflow_event_M in E2. destruct (wf_process_workflow_event (c_graph c1) (c_ws c1) st) as [[? ?]|?]; inversion E2; subst.
         destruct P1 as [P1|P1]; [exact P1|intros Y; contradiction]. }
    pose proof (phi_wf_workflow_event _ _ _ _ E2 P1) as P2.
    destruct (bind_inv _ _ _ _ _ _ _ X2) as [[c3 [u3 [E3 X3]]]|[e [E3 _]]].
    2: { exact (Rdown_phi _ _ (Rdown_fr _ _ (fr_log_unreachable _ _ _ _ E3)) P2). }
    pose proof (Rdown_phi _ _ (Rdown_fr _ _ (fr_log_unreachable _ _ _ _ E3)) P2) as P3.
    unfold bind at 1 in X3. unfold getws at 1 in X3.
    destruct (_ && _ && _); [inversion X3; subst; exact P3|].
    destruct (_ && _ && _); [inversion X3; subst; exact P3|].
    destruct (negb (status_eqb st (wstatus (c_ws c))) && status_eqb (wstatus (c_ws c)) (wstatus (c_ws c3))) eqn:Ec; [|inversion X3; subst; exact P3].
    apply andb_prop in Ec. destruct Ec as [_ Ec]. apply status_eqb_eq in Ec.
    destruct (bind_inv _ _ _ _ _ _ _ X3) as [[c4 [u4 [E4 X4]]]|[e [E4 _]]].
    - inversion X4; subst c'. destruct Hcase as [Hn|Hn].
      + intros Y. exfalso. apply Hn. rewrite Ec. rewrite <- (L2 _ _ _ _ E4). exact Y.
      + rewrite Hn in E4. simpl in E4. inversion E4; subst. exact P3.
    - destruct Hcase as [Hn|Hn].
      + intros Y. exfalso. apply Hn. rewrite Ec. rewrite <- (L2 _ _ _ _ E4). exact Y.
      + rewrite Hn in E4. simpl in E4. inversion E4. }
  assert (Dec : In (wstatus (c_ws c)) REST2 \/ ~ In (wstatus (c_ws c)) REST2).
  { destruct (status_in (wstatus (c_ws c)) REST2) eqn:Er; [left; apply status_in_In; exact Er|right; intro X; apply status_in_In in X; congruence]. }
  destruct (bind_inv _ _ _ _ _ _ _ H) as [[c1 [u1 [E1 X1]]]|[e [E1 _]]].
  - pose proof (L1 _ _ _ _ E1) as W1. unfold Rws in W1. destruct Dec as [Hr|Hr].
    + (* at rest: no record is active, the loops visit nothing *)
      assert (Hact : active = []).
      { unfold active. destruct (ws_tasks_by_status (c_ws c) ACTIVE_STATUSES) eqn:E; [reflexivity|]. exfalso. apply (P Hr).
        apply has_active_HA. unfold has_active_tasks. rewrite E. reflexivity. }
      rewrite Hact in E1. simpl in E1. inversion E1; subst c1. apply (Rest c); auto.
    + apply (Rest c1); auto. right. rewrite W1. exact Hr.
  - pose proof (L1 _ _ _ _ E1) as W1. unfold Rws in W1. destruct Dec as [Hr|Hr].
    + assert (Hact : active = []).
      { unfold active. destruct (ws_tasks_by_status (c_ws c) ACTIVE_STATUSES) eqn:E; [reflexivity|]. exfalso. apply (P Hr).
        apply has_active_HA. unfold has_active_tasks. rewrite E. reflexivity. }
      rewrite Hact in E1. simpl in E1. inversion E1.
    + intros Y. exfalso. apply Hr. rewrite <- W1. exact Y.
Qed.

End PhiFrame.

(* ================================================================== the protocol *)
Lemma at_rest_false : forall s, at_rest s = false <-> ~ In (wstatus (c_ws (si_c s))) REST2.
Proof.
  intro s. unfold at_rest, REST2. split.
  - intros H X. apply status_in_In in X. congruence.
  - intro H. destruct (status_in (wstatus (c_ws (si_c s))) [S_PAUSED; S_CANCELED]) eqn:E; [|reflexivity]. exfalso. apply H. apply status_in_In. exact E.
Qed.

Lemma aget_pointed : forall (d : list (tkey * nat)) k i, aget tkey_eqb k d = Some i -> existsb (fun '(_, j) => Nat.eqb i j) d = true.
Proof.
  induction d as [|[k1 v1] d IH]; simpl; intros k i H; [discriminate|]. destruct (tkey_eqb k k1).
  - inversion H; subst. rewrite Nat.eqb_refl. reflexivity.
  - rewrite (IH _ _ H). apply orb_true_r.
Qed.

Lemma entry_HA : forall c t r rec, ws_task_entry (c_ws c) t r = Some rec -> ostatus_in (r_status rec) ACTIVE_STATUSES = true -> HA c.
Proof.
  intros c t r rec H Ha. unfold ws_task_entry in H. destruct (ws_task_idx (c_ws c) t r) as [idx|] eqn:E; [|discriminate].
  exists idx, rec. split; [exact H|]. split; [exact Ha|]. unfold ws_pointed. eapply aget_pointed. exact E.
Qed.

Section PhiSystem.
Variable ev : string -> dict -> evalres.

Lemma phi_event : forall s t r e, ibad (isys_event ev s t r e) = false -> calm e \/ at_rest s = false ->
  Phi (si_c s) -> Phi (si_c (isys_event ev s t r e)).
Proof.
  intros s t r e Hb Hc P. pose proof (ievent_val ev s t r e Hb) as H. unfold update_task_state in H.
  refine (phi_fuel ev _ t r e _ _ _ H P). destruct Hc as [Hc|Hc]; [left; exact Hc|right; apply at_rest_false; exact Hc].
Qed.

Lemma phi_ack : forall t r s a, ibad (isys_ack ev t r s a) = false -> at_rest s = false -> Phi (si_c s) -> Phi (si_c (isys_ack ev t r s a)).
Proof. intros t r s a Hb Hr P. unfold isys_ack in *. destruct (a_item a); apply phi_event; auto. Qed.

Lemma phi_fold_ack : forall t r acts s, acks_stale2 ev t r acts s = false -> ibad (fold_left (isys_ack ev t r) acts s) = false ->
  Phi (si_c s) -> Phi (si_c (fold_left (isys_ack ev t r) acts s)).
Proof.
  intros t r. induction acts as [|a acts IH]; intros s Hst Hb P; cbn [fold_left] in *; [exact P|].
  destruct (acks_stale2_cons ev _ _ _ _ _ Hst) as [Hr [_ Hst2]].
  apply IH; [exact Hst2|exact Hb|]. apply phi_ack; [|exact Hr|exact P].
  apply (not_bad_before (fun x => fold_left (isys_ack ev t r) acts x)); [apply ibad_fold_ack_mono|exact Hb].
Qed.

Lemma phi_ack_offer : forall s o,
  (match o_items_count o with Some O => at_rest s | _ => acks_stale2 ev (o_id o) (o_route o) (o_actions o) s end) = false ->
  ibad (isys_ack_offer ev s o) = false -> Phi (si_c s) -> Phi (si_c (isys_ack_offer ev s o)).
Proof.
  intros s o Hst Hb P. unfold isys_ack_offer in *. destruct (o_items_count o) as [[|m]|]; try (apply phi_fold_ack; assumption).
  apply phi_event; [exact Hb|left; reflexivity|]. apply phi_event; [|right; exact Hst|exact P].
  apply (not_bad_before (fun x => isys_event ev x (o_id o) (o_route o) (EvAction S_SUCCEEDED (JList [])))); [apply ibad_event_mono|exact Hb].
Qed.

Lemma phi_fold_offer : forall offers s, offers_stale2 ev offers s = false -> ibad (fold_left (isys_ack_offer ev) offers s) = false ->
  Phi (si_c s) -> Phi (si_c (fold_left (isys_ack_offer ev) offers s)).
Proof.
  induction offers as [|o offers IH]; intros s Hst Hb P; cbn [fold_left] in *; [exact P|].
  destruct (offers_stale2_cons ev _ _ _ Hst) as [Hst1 Hst2].
  apply IH; [exact Hst2|exact Hb|]. apply phi_ack_offer; [exact Hst1| |exact P].
  apply (not_bad_before (fun x => fold_left (isys_ack_offer ev) offers x)); [apply ibad_fold_offer_mono|exact Hb].
Qed.

Lemma phi_poll_inited : forall s, c_init (si_c s) = true -> Phi (si_c s) -> poll_odd2 ev s = false -> ibad (isys_poll ev s) = false ->
  Phi (si_c (isys_poll ev s)).
Proof.
  intros s Hi P Ho Hb. unfold poll_odd2 in Ho. unfold isys_poll in *.
  destruct (get_next_tasks ev (si_c s)) as [c1 [offers|x]] eqn:Hg; [|discriminate Hb].
  apply orb_false_iff in Ho. destruct Ho as [_ Hst].
  destruct (gn_items_eff ev _ _ _ Hi Hg) as [(_ & _ & _ & Hseq & Htk & Hw & _) _].
  apply phi_fold_offer; [exact Hst|exact Hb|]. simpl.
  apply (Rdown_phi (si_c s)); [|exact P]. split; [exact Hw|].
  intros [i [r [A [B C]]]]. exists i, r. rewrite Hseq in A. unfold ws_pointed in *. rewrite Htk in C. auto.
Qed.

Definition phi_inv (s : isys) : Prop := ibad s = false -> Phi (si_c s).

Lemma phi_step : forall s op, isys_inv2 s -> phi_inv s -> op_odd2 ev s op = false -> phi_inv (isys_step ev s op).
Proof.
  intros s op H2 H3 Ho Hb.
  assert (Hb0 : ibad s = false) by (apply (not_bad_before (fun x => isys_step ev x op)); [intro; apply ibad_step_mono; assumption|exact Hb]).
  specialize (H3 Hb0).
  assert (Rq : forall st, ibad (isys_request ev s st) = false -> Phi (si_c (isys_request ev s st))).
  { intros st Hb'. unfold isys_request in *. destruct (status_in st request_statuses); [|exact H3].
    destruct (api_exec ev (OpRequest st) (si_c s)) as [c' x] eqn:E. simpl.
    unfold ibad in Hb'. simpl in Hb'. apply orb_false_iff in Hb'. destruct Hb' as [Hb1 _]. apply orb_false_iff in Hb1. destruct Hb1 as [_ Hb3].
    cbn [api_exec] in E. unfold bind at 1 in E. destruct (request_workflow_status ev st (si_c s)) as [c2 rr] eqn:R.
    assert (c' = c2) by (destruct rr; inversion E; reflexivity). subst c2.
    unfold request_workflow_status, bind in R. destruct (ensure_ws ev (si_c s)) as [c1 [[]|e]] eqn:En; [|discriminate Hb3].
    apply (phi_request_status_core st _ _ _ R). exact (Rdown_phi _ _ (down_ensure_ws ev _ _ _ En) H3). }
  assert (Cl : forall o, o = OpRender \/ o = OpPersist -> ibad (isys_call ev s o) = false -> Phi (si_c (isys_call ev s o))).
  { intros o Hop Hb'. unfold isys_call in *. destruct (api_exec ev o (si_c s)) as [c' x] eqn:E. simpl.
    unfold ibad in Hb'. simpl in Hb'. apply orb_false_iff in Hb'. destruct Hb' as [Hb1 _]. apply orb_false_iff in Hb1. destruct Hb1 as [_ Hb3].
    destruct Hop as [-> | ->]; cbn [api_exec] in E; destruct (then_ret_unit _ _ _ _ E) as [[_ X]|Y]; try congruence.
    - unfold render_workflow_output in X. apply bind_val_inv' in X. destruct X as [c1 [[] [En X]]].
      pose proof (Rdown_phi _ _ (down_ensure_ws ev _ _ _ En) H3) as P1.
      assert (Hi1 : c_init c1 = true) by (eapply ensure_ws_init_after; exact En).
      assert (X' : render_workflow_output ev c1 = (c', Val tt)).
      { unfold render_workflow_output. unfold bind at 1. rewrite (ensure_ws_inited ev c1 Hi1). exact X. }
      exact (Rdown_phi _ _ (Rdown_fr _ _ (Rlt_Rfr _ _ (vlt_render_workflow_output ev c1 Hi1 c' tt X'))) P1).
    - unfold persist in X. apply bind_val_inv' in X. destruct X as [c1 [[] [En X]]].
      pose proof (Rdown_phi _ _ (down_ensure_ws ev _ _ _ En) H3) as P1.
      assert (Hi1 : c_init c1 = true) by (eapply ensure_ws_init_after; exact En).
      assert (X' : persist ev c1 = (c', Val tt)).
      { unfold persist. unfold bind at 1. rewrite (ensure_ws_inited ev c1 Hi1). exact X. }
      rewrite (persist_identity ev c1 Hi1) in X'. inversion X'; subst. exact P1. }
  destruct op; cbn [isys_step op_odd2] in *; auto.
  - destruct (inv2_link s H2 Hb0) as [[Hu HF]|[Hi _]]; [|apply phi_poll_inited; assumption].
    destruct (unborn_get_next ev s Hu) as [[c1 [e X]]|[c2 [En [[Hi2 _] X]]]]; [unfold isys_poll in Hb; rewrite X in Hb; discriminate Hb|].
    assert (E : isys_poll ev s = isys_poll ev (set_c s c2)) by (unfold isys_poll; simpl; rewrite X; reflexivity).
    assert (Eo2 : poll_odd2 ev s = poll_odd2 ev (set_c s c2)) by (unfold poll_odd2; simpl; rewrite X; reflexivity).
    rewrite E in *. rewrite Eo2 in Ho. apply phi_poll_inited; [exact Hi2| |exact Ho|exact Hb].
    simpl. exact (Rdown_phi _ _ (down_ensure_ws ev _ _ _ En) H3).
  - unfold isys_report in *. destruct (ikey_in _ _ && _) eqn:En; [|exact H3].
    apply andb_true_iff in En. destruct En as [_ Hst].
    assert (Hc : status_in st COMPLETED_STATUSES = true) by exact Hst.
    destruct item; apply phi_event; try assumption; left; exact Hc.
Qed.

Lemma phi_run : forall ops s, isys_inv2 s -> phi_inv s -> run_odd2 ev ops s = false -> phi_inv (isys_run ev ops s).
Proof.
  induction ops as [|op ops IH]; intros s H2 H3 Ho; [exact H3|]. cbn [isys_run fold_left]. simpl in Ho.
  apply orb_false_iff in Ho. destruct Ho as [Ho1 Ho2].
  apply IH; [apply isys_step_inv2; exact H2|apply phi_step; assumption|exact Ho2].
Qed.

End PhiSystem.

Section IdleReachable.
Variable ev : string -> dict -> evalres.
Variables (sp : wf_spec) (g : graph) (inputs parent : dict).

(* when the workflow reports paused or canceled no pointed task record is active ... *)
Theorem rest_no_active_record : forall ops, let s := ireach ev sp g inputs parent ops in
  si_fault s = false -> si_wiped s = false -> run_odd2 ev ops (isys_init sp g inputs parent) = false ->
  In (wstatus (c_ws (si_c s))) [S_PAUSED; S_CANCELED] -> has_active_tasks (c_ws (si_c s)) = false.
Proof.
  intros ops s Hf Hw Ho Hin.
  assert (P : Phi (si_c s)).
  { apply (phi_run ev ops _ (isys_init_inv2 sp g inputs parent)); [|exact Ho|apply ibad_false; assumption].
    intros _ X. simpl in X. intuition discriminate. }
  destruct (has_active_tasks (c_ws (si_c s))) eqn:E; [|reflexivity]. exfalso. apply (P Hin). apply has_active_HA. exact E.
Qed.

(* ... hence nothing is in flight *)
Theorem paused_canceled_idle : forall ops, let s := ireach ev sp g inputs parent ops in
  si_fault s = false -> si_wiped s = false -> run_odd ev ops (isys_init sp g inputs parent) = false ->
  run_odd2 ev ops (isys_init sp g inputs parent) = false ->
  In (wstatus (c_ws (si_c s))) [S_PAUSED; S_CANCELED] -> si_inflight s = [].
Proof.
  intros ops s Hf Hw Ho Ho2 Hin. pose proof (rest_no_active_record ops Hf Hw Ho2 Hin) as Hna.
  destruct (si_inflight s) as [|[[t r] [i|]] F] eqn:EF; [reflexivity| |]; exfalso.
  - destruct (items_record_active ev sp g inputs parent ops Hf Hw Ho t r i) as [rec [A [_ [_ B]]]]; [fold s; rewrite EF; left; reflexivity|].
    pose proof (proj2 (has_active_HA _) (entry_HA _ _ _ _ A B)) as X. unfold s in Hna. rewrite X in Hna. discriminate Hna.
  - destruct (plain_record_active ev sp g inputs parent ops Hf Hw Ho Ho2 t r) as [rec [A [_ [_ B]]]]; [fold s; rewrite EF; left; reflexivity|].
    pose proof (proj2 (has_active_HA _) (entry_HA _ _ _ _ A B)) as X. unfold s in Hna. rewrite X in Hna. discriminate Hna.
Qed.

End IdleReachable.
