(* SysItemsPlainProofs.v -- the single actions of tasks WITHOUT items in the with-items provider protocol
   (model/ProviderSysItems.v): while the action of (task, route) is in flight the task record is active. *)
From Coq Require Import String List Bool ZArith Arith Lia.
From Orq Require Import GenStatuses GenEvents GenTables GenSpecMeta Base State Machines Codec Conductor Decode Api Driver ProviderSys ProviderSysItems ProviderSysItemsMon ProviderSysItemsMon2.
From Orq Require Import F_tables F_names F_sys F_sysitems Hoare ValuePost StatusReach C04Proofs C05Proofs C02C03Proofs C09C10Proofs OffersProofs InertProofs RetryProofs SysProofs SysNextProofs SysItemsProofs SysItemsRecProofs.
Import ListNotations.
Open Scope string_scope.

Section PlainAck.
Variable ev : string -> dict -> evalres.

(* the acknowledgement of the single action of a task *)
Lemma own_plain_ack : forall t r res c c',
  update_task_state ev t r (EvAction S_RUNNING res) c = (c', Val tt) -> c_init c = true -> P_ok c ->
  is_engine_command t = false -> stale_plain c t r = false ->
  exists idx r', ws_task_idx (c_ws c') t r = Some idx /\ nth_error (sequence (c_ws c')) idx = Some r' /\ busy (r_status r').
Proof.
  intros t r res c c' H Ia Pa Hcmd Hst. unfold update_task_state in H. rewrite uts_unfold in H.
  destruct (own_final ev _ _ _ _ _ _ H Ia Pa Hcmd) as (idx & rr & ns & w3 & idx' & r' & Hk & Orig & _ & Ens & Hp' & Hr' & Fin).
  destruct (tpe_provider w3 rr (EvAction S_RUNNING res) ns eq_refl Ens) as [name [Hn [_ Hname]]]. rewrite (Hname eq_refl) in Hn.
  assert (Hgood : status_in (rstatus (stepped rr ns)) GOOD_STATUSES = true).
  { rewrite stepped_status. destruct ns as [x|].
    - rewrite (F_running_target _ _ Hn). reflexivity.
    - destruct Orig as [[O _]|[Op [r0 [Or0 [Os Oc]]]]].
      + unfold rstatus in Hn. rewrite O in Hn. vm_compute in Hn. discriminate Hn.
      + apply (F_norow_busy _ Hn). unfold rstatus. rewrite Os.
        destruct (ostatus_in (r_status r0) COMPLETED_STATUSES) eqn:E0.
        * exfalso. unfold stale_plain, ws_task_entry in Hst. rewrite Op, Or0, E0 in Hst. simpl in Hst.
          unfold sel2cond in Oc. rewrite E0 in Oc. simpl in Oc.
          destruct (get_staged_task (c_ws c) t r) as [s0|]; [|discriminate Hst]. rewrite Hst in Oc. discriminate Oc.
        * destruct (r_status r0); [exact E0|reflexivity]. }
  exists idx', r'. split; [exact Hp'|]. split; [exact Hr'|].
  destruct Fin as [Fin|[_ Fin]].
  - rewrite Fin. apply busy_stepped. exact Hgood.
  - destruct (dead_split _ (F_good_split _ Hgood)) as [X _]. congruence.
Qed.

End PlainAck.

(* every task whose single action is in flight is not an engine command, has no item table, and an active (or pending) record *)
Definition Kpl (c : cstate) (F : list ikey) : Prop :=
  forall t r, In (t, r, None) F -> is_engine_command t = false /\ items_of c t r = None /\
    exists idx rec, ws_task_idx (c_ws c) t r = Some idx /\ nth_error (sequence (c_ws c)) idx = Some rec /\ busy (r_status rec).

Section PlainSystem.
Variable ev : string -> dict -> evalres.

(* no event creates an item table *)
Lemma ievent_no_new_table : forall s t0 r0 e t r, c_init (si_c s) = true -> fo (si_c s) ->
  ibad (isys_event ev s t0 r0 e) = false -> items_of (si_c s) t r = None -> items_of (si_c (isys_event ev s t0 r0 e)) t r = None.
Proof.
  intros s t0 r0 e t r Hi Hfo Hb Hn.
  destruct (items_of (si_c (isys_event ev s t0 r0 e)) t r) as [l'|] eqn:E; [|reflexivity].
  destruct (ievent_back ev (fun _ _ => True) s t0 r0 e Hi Hfo Hb (fun _ => I) (fun _ _ _ _ _ _ => I) _ _ _ E) as [l [X _]]. congruence.
Qed.

(* an event for the key (t0, r0): the plain keys of the other tasks are as before *)
Lemma ievent_plain_other : forall s t0 r0 e F, ibad (isys_event ev s t0 r0 e) = false ->
  c_init (si_c s) = true -> P_ok (si_c s) -> fo (si_c s) -> Kpl (si_c s) F ->
  forall t r, In (t, r, None) F -> (t, r) <> (t0, r0) -> is_engine_command t = false /\
     items_of (si_c (isys_event ev s t0 r0 e)) t r = None /\
     exists idx rec, ws_task_idx (c_ws (si_c (isys_event ev s t0 r0 e))) t r = Some idx /\
                     nth_error (sequence (c_ws (si_c (isys_event ev s t0 r0 e)))) idx = Some rec /\ busy (r_status rec).
Proof.
  intros s t0 r0 e F Hb Ia Pa Hfo Hk t r Hin Hne. pose proof (ievent_val ev _ _ _ _ Hb) as H.
  destruct (Hk t r Hin) as [Hc [Hn [idx [rec [Hp [Hr Hl]]]]]]. split; [exact Hc|].
  split; [apply ievent_no_new_table; assumption|].
  destruct (prot_other ev _ _ _ _ _ _ _ _ _ H Ia Pa Hne Hc Hp Hr) as [Hp' [rec' [Hr' Hs']]].
  exists idx, rec'. split; [exact Hp'|]. split; [exact Hr'|]. rewrite Hs'. exact Hl.
Qed.

(* an event for a key that has no plain action in flight *)
Lemma event_kpl : forall s t0 r0 e F, ibad (isys_event ev s t0 r0 e) = false ->
  c_init (si_c s) = true -> P_ok (si_c s) -> fo (si_c s) -> Kpl (si_c s) F -> ~ In (t0, r0, None) F ->
  Kpl (si_c (isys_event ev s t0 r0 e)) F.
Proof.
  intros s t0 r0 e F Hb Ia Pa Hfo Hk Hno t r Hin. apply (ievent_plain_other s t0 r0 e F Hb Ia Pa Hfo Hk t r Hin).
  intro X. inversion X; subst. exact (Hno Hin).
Qed.


Lemma tback_none : forall (Q : list status -> list status -> Prop) c c' t r, Tback Q c c' -> items_of c t r = None -> items_of c' t r = None.
Proof. intros Q c c' t r H Hn. destruct (items_of c' t r) as [l'|] eqn:E; [|reflexivity]. destruct (H _ _ _ E) as [l [X _]]. congruence. Qed.

Lemma Kpl_keys : forall c F F', (forall t r, In (t, r, None) F' -> In (t, r, None) F) -> Kpl c F -> Kpl c F'.
Proof. intros c F F' H K t r Hin. exact (K t r (H t r Hin)). Qed.

(* the acknowledgement of an item: the plain keys are those of before *)
Lemma ack_kpl_item : forall t r s a i, ilink (si_c s) (si_inflight s) -> irec s -> Kpl (si_c s) (si_inflight s) ->
  a_item a = Some i -> ~ In (t, r, None) (si_inflight s) -> ibad (isys_ack ev t r s a) = false ->
  Kpl (si_c (isys_ack ev t r s a)) (si_inflight (isys_ack ev t r s a)).
Proof.
  intros t r s a i [Hi [Hfo _]] [Ia [Pa _]] Hk Hai Hnone Hb. unfold isys_ack in *. rewrite Hai in *.
  set (s1 := with_inflight s (ikey_add (t, r, Some i) (si_inflight s))) in *.
  rewrite inflight_event. apply (Kpl_keys _ (si_inflight s)).
  - unfold s1; simpl. intros t' r' X. apply In_ikey_add in X. destruct X as [X|X]; [discriminate X|exact X].
  - apply (event_kpl s1); assumption.
Qed.

(* the acknowledgement of the single action of a task *)
Lemma ack_kpl_plain : forall t r s a, ilink (si_c s) (si_inflight s) -> irec s -> Kpl (si_c s) (si_inflight s) ->
  a_item a = None -> is_engine_command t = false -> items_of (si_c s) t r = None -> stale_plain (si_c s) t r = false ->
  ibad (isys_ack ev t r s a) = false ->
  Kpl (si_c (isys_ack ev t r s a)) (si_inflight (isys_ack ev t r s a)).
Proof.
  intros t r s a [Hi [Hfo _]] [Ia [Pa _]] Hk Hai Hcmd Hn Hst Hb. unfold isys_ack in *. rewrite Hai in *.
  set (s1 := with_inflight s (ikey_add (t, r, None) (si_inflight s))) in *. set (e := EvAction S_RUNNING JNull) in *.
  rewrite inflight_event. unfold s1 at 2; simpl. intros t' r' Hin. apply In_ikey_add in Hin.
  destruct (tkey_dec (t', r') (t, r)) as [E|Hne].
  - inversion E; subst t' r'. split; [exact Hcmd|]. split; [apply (ievent_no_new_table s1); assumption|].
    pose proof (ievent_val ev s1 t r e Hb) as H. change (si_c s1) with (si_c s) in H.
    exact (own_plain_ack ev _ _ _ _ _ H Ia Pa Hcmd Hst).
  - destruct Hin as [Hin|Hin]; [inversion Hin; subst; exfalso; apply Hne; reflexivity|].
    exact (ievent_plain_other s1 t r e (si_inflight s) Hb Ia Pa Hfo Hk t' r' Hin Hne).
Qed.

Lemma acks_stale2_cons : forall t r a acts s, acks_stale2 ev t r (a :: acts) s = false ->
  at_rest s = false /\ (match a_item a with None => stale_plain (si_c s) t r | Some _ => false end) = false /\
  acks_stale2 ev t r acts (isys_ack ev t r s a) = false.
Proof. intros t r a acts s H. simpl in H. apply orb_false_iff in H. destruct H as [H1 H2]. apply orb_false_iff in H1. tauto. Qed.

Lemma ack_items_loop_kpl : forall t r acts s l,
  ilink (si_c s) (si_inflight s) -> irec s -> Kpl (si_c s) (si_inflight s) -> items_of (si_c s) t r = Some l ->
  (forall a, In a acts -> exists i, a_item a = Some i /\ i < length l) ->
  is_engine_command t = false -> ~ In (t, r, None) (si_inflight s) -> acks_stale ev t r acts s = false ->
  ibad (fold_left (isys_ack ev t r) acts s) = false ->
  Kpl (si_c (fold_left (isys_ack ev t r) acts s)) (si_inflight (fold_left (isys_ack ev t r) acts s)).
Proof.
  intros t r. induction acts as [|a acts IH]; intros s l I R K Hl Hacts Hcmd Hnone Hst Hb; cbn [fold_left] in *; [exact K|].
  assert (Hb1 : ibad (isys_ack ev t r s a) = false).
  { apply (not_bad_before (fun x => fold_left (isys_ack ev t r) acts x)); [apply ibad_fold_ack_mono|exact Hb]. }
  destruct (Hacts a (or_introl eq_refl)) as [i [Hai Hil]].
  destruct (acks_stale_cons ev _ _ _ _ _ Hst) as [Hst1 Hst2]. rewrite Hai in Hst1.
  destruct (ack_item_step ev t r s a i l I Hl Hai Hil Hb1) as [I1 [Hl1 _]].
  pose proof (ack_item_rec ev t r s a i l I R Hl Hai Hil Hcmd Hnone Hst1 Hb1) as R1'.
  pose proof (ack_kpl_item t r s a i I R K Hai Hnone Hb1) as K1.
  apply (IH _ (list_set_nth i S_RUNNING l)); try assumption.
  - intros a' Ha'. destruct (Hacts a' (or_intror Ha')) as [i' [A B]]. exists i'. rewrite length_set_nth. auto.
  - unfold isys_ack. rewrite Hai, inflight_event. simpl. intro X. apply In_ikey_add in X. destruct X as [X|X]; [discriminate X|exact (Hnone X)].
Qed.

Lemma ack_plain_loop_kpl : forall t r acts s,
  ilink (si_c s) (si_inflight s) -> irec s -> Kpl (si_c s) (si_inflight s) -> (forall a, In a acts -> a_item a = None) ->
  (forall i, ~ In (t, r, Some i) (si_inflight s)) -> is_engine_command t = false -> items_of (si_c s) t r = None ->
  acks_stale2 ev t r acts s = false -> ibad (fold_left (isys_ack ev t r) acts s) = false ->
  Kpl (si_c (fold_left (isys_ack ev t r) acts s)) (si_inflight (fold_left (isys_ack ev t r) acts s)).
Proof.
  intros t r. induction acts as [|a acts IH]; intros s I R K Hacts Hno Hcmd Hn Hst Hb; cbn [fold_left] in *; [exact K|].
  assert (Hb1 : ibad (isys_ack ev t r s a) = false).
  { apply (not_bad_before (fun x => fold_left (isys_ack ev t r) acts x)); [apply ibad_fold_ack_mono|exact Hb]. }
  pose proof (Hacts a (or_introl eq_refl)) as Hai.
  destruct (acks_stale2_cons _ _ _ _ _ Hst) as [_ [Hst1 Hst2]]. rewrite Hai in Hst1.
  destruct (ack_plain_loop ev t r [a] s I) as [I1 _]; [intros a' [<-|[]]; exact Hai|exact Hb1|]. simpl in I1.
  assert (R1' : irec (isys_ack ev t r s a)).
  { apply (ack_plain_loop_rec ev t r [a] s I R); [intros a' [<-|[]]; exact Hai|exact Hno|exact Hb1]. }
  pose proof (ack_kpl_plain t r s a I R K Hai Hcmd Hn Hst1 Hb1) as K1.
  apply IH; try assumption.
  - intros; apply Hacts; right; assumption.
  - intros i X. unfold isys_ack in X. rewrite Hai, inflight_event in X. simpl in X.
    apply In_ikey_add in X. destruct X as [X|X]; [discriminate X|exact (Hno i X)].
  - destruct I as [Hi [Hfo _]]. unfold isys_ack in *. rewrite Hai in *. apply (ievent_no_new_table (with_inflight s _)); assumption.
Qed.

(* what an offer needs for the plain keys *)
Definition okF2 (F : list ikey) (c : cstate) (o : offer) : Prop :=
  match o_items_count o with
  | Some O => ~ In (o_id o, o_route o, None) F
  | Some (S _) => True
  | None => items_of c (o_id o) (o_route o) = None
  end.

Lemma ack_offer_kpl : forall s o, ilink (si_c s) (si_inflight s) -> irec s -> Kpl (si_c s) (si_inflight s) ->
  pend_ok (si_c s) o -> okF (si_inflight s) o -> okF2 (si_inflight s) (si_c s) o ->
  (match o_items_count o with Some O => false | _ => acks_stale ev (o_id o) (o_route o) (o_actions o) s end) = false ->
  (match o_items_count o with Some O => at_rest s | _ => acks_stale2 ev (o_id o) (o_route o) (o_actions o) s end) = false ->
  ibad (isys_ack_offer ev s o) = false ->
  Kpl (si_c (isys_ack_offer ev s o)) (si_inflight (isys_ack_offer ev s o)).
Proof.
  intros s o I R K Hp [Hcmd Hok] Hok2 Hst Hst2 Hb. unfold isys_ack_offer, pend_ok, okF2 in *. destruct (o_items_count o) as [[|m]|].
  - pose proof I as [Hi [Hfo _]]. pose proof R as [Ia [Pa _]].
    set (s1 := isys_event ev s (o_id o) (o_route o) (EvAction S_RUNNING JNull)) in *.
    assert (Hb1 : ibad s1 = false).
    { apply (not_bad_before (fun x => isys_event ev x (o_id o) (o_route o) (EvAction S_SUCCEEDED (JList [])))); [apply ibad_event_mono|exact Hb]. }
    destruct (plain_event_step ev s (o_id o) (o_route o) (EvAction S_RUNNING JNull) (si_inflight s) Logic.I I) as [[Hi1 [Hfo1 _]] _];
      [intros; tauto|exact Hb1|]. fold s1 in Hi1, Hfo1.
    destruct R as [_ [_ [Hkr _]]].
    destruct (plain_event_rec ev s _ _ _ _ Hb1 Ia Pa Hkr Hok) as [_ [Pb _]]. fold s1 in Pb.
    pose proof (event_kpl s _ _ _ _ Hb1 Ia Pa Hfo K Hok2) as K1. fold s1 in K1.
    rewrite !inflight_event. unfold s1 at 2. rewrite inflight_event.
    apply (event_kpl s1); assumption.
  - destruct Hp as [l [Hl Ha]]. exact (ack_items_loop_kpl _ _ _ _ _ I R K Hl Ha Hcmd Hok Hst Hb).
  - exact (ack_plain_loop_kpl _ _ _ _ I R K Hp Hok Hcmd Hok2 Hst2 Hb).
Qed.

Lemma offers_stale2_cons : forall o offers s, offers_stale2 ev (o :: offers) s = false ->
  (match o_items_count o with Some O => at_rest s | _ => acks_stale2 ev (o_id o) (o_route o) (o_actions o) s end) = false /\
  offers_stale2 ev offers (isys_ack_offer ev s o) = false.
Proof. intros o offers s H. simpl in H. apply orb_false_iff in H. exact H. Qed.

Lemma ack_offers_kpl : forall offers s, ilink (si_c s) (si_inflight s) -> irec s -> Kpl (si_c s) (si_inflight s) ->
  (forall o, In o offers -> pend_ok (si_c s) o) -> (forall o, In o offers -> okF (si_inflight s) o) ->
  (forall o, In o offers -> okF2 (si_inflight s) (si_c s) o) ->
  offers_dup offers = false -> offers_stale ev offers s = false -> offers_stale2 ev offers s = false ->
  ibad (fold_left (isys_ack_offer ev) offers s) = false ->
  Kpl (si_c (fold_left (isys_ack_offer ev) offers s)) (si_inflight (fold_left (isys_ack_offer ev) offers s)).
Proof.
  induction offers as [|o offers IH]; intros s I R K Hp Hok Hok2 Hd Hst Hst2 Hb; cbn [fold_left] in *; [exact K|].
  simpl in Hd. apply orb_false_iff in Hd. destruct Hd as [Hd1 Hd2].
  simpl in Hst. apply orb_false_iff in Hst. destruct Hst as [Hst1 Hst1'].
  destruct (offers_stale2_cons _ _ _ Hst2) as [Hst2a Hst2b].
  assert (Hb1 : ibad (isys_ack_offer ev s o) = false).
  { apply (not_bad_before (fun x => fold_left (isys_ack_offer ev) offers x)); [apply ibad_fold_offer_mono|exact Hb]. }
  destruct (ack_offer_link ev s o I (Hp o (or_introl eq_refl)) Hb1) as [I1 P1].
  pose proof (ack_offer_rec ev s o I R (Hp o (or_introl eq_refl)) (Hok o (or_introl eq_refl)) Hst1 Hb1) as R1'.
  pose proof (ack_offer_kpl s o I R K (Hp o (or_introl eq_refl)) (Hok o (or_introl eq_refl)) (Hok2 o (or_introl eq_refl)) Hst1 Hst2a Hb1) as K1.
  pose proof (ack_offer_back ev s o I (Hp o (or_introl eq_refl)) Hb1) as Bk.
  apply IH; try assumption.
  - intros o2 Ho2. apply (pend_ok_persist (si_c s)); [apply Hp; right; exact Ho2|].
    intros l2. apply P1. apply (offers_key_distinct _ _ _ Hd1 Ho2).
  - intros o2 Ho2. apply (okF_grow (si_inflight s)); [apply Hok; right; exact Ho2|].
    intros k Hk. destruct (inflight_ack_offer_key ev _ _ _ Hk) as [X|X]; [left; exact X|right].
    rewrite X. intro E. exact (offers_key_distinct _ _ _ Hd1 Ho2 (eq_sym E)).
  - intros o2 Ho2. specialize (Hok2 o2 (or_intror Ho2)). unfold okF2 in *. destruct (o_items_count o2) as [[|m]|]; [|exact Logic.I|].
    + intro X. destruct (inflight_ack_offer_key ev _ _ _ X) as [Y|Y]; [exact (Hok2 Y)|].
      simpl in Y. exact (offers_key_distinct _ _ _ Hd1 Ho2 Y).
    + exact (tback_none _ _ _ _ _ Bk Hok2).
Qed.

Lemma Kpl_same_records : forall c c' F, tasks (c_ws c') = tasks (c_ws c) -> sequence (c_ws c') = sequence (c_ws c) ->
  (forall t r, In (t, r, None) F -> items_of c' t r = None) -> Kpl c F -> Kpl c' F.
Proof.
  intros c c' F Ht Hs Hn K t r Hin. destruct (K t r Hin) as [Hc [_ [idx [rec [A [B C]]]]]]. split; [exact Hc|].
  split; [apply Hn; exact Hin|]. exists idx, rec. unfold ws_task_idx in *. rewrite Ht, Hs. auto.
Qed.

Lemma poll_kpl : forall s c1 offers, ilink (si_c s) (si_inflight s) -> irec s -> Kpl (si_c s) (si_inflight s) ->
  get_next_tasks ev (si_c s) = (c1, Val offers) -> poll_odd ev s = false -> poll_odd2 ev s = false ->
  ibad (isys_poll ev s) = false -> Kpl (si_c (isys_poll ev s)) (si_inflight (isys_poll ev s)).
Proof.
  intros s c1 offers I R K Hg Hodd Hodd2 Hb. unfold poll_odd in Hodd. unfold poll_odd2 in Hodd2. unfold isys_poll in *. rewrite Hg in *.
  apply orb_false_iff in Hodd. destruct Hodd as [Hodd Hstale].
  apply orb_false_iff in Hodd2. destruct Hodd2 as [Hodd2 Hstale2]. apply orb_false_iff in Hodd2. destruct Hodd2 as [Htbl Hodd2].
  destruct I as [Hi [Hfo [H1 H2]]]. destruct R as [Ia [Pa [Hk Hm]]].
  destruct (gn_items_eff ev _ _ _ Hi Hg) as [HR Hof].
  destruct (J_Rgn _ _ _ HR H1 H2) as [K1 K2].
  pose proof (fo_get_next_tasks ev _ _ _ Hg Hfo) as Hfo1.
  set (s0 := {| si_c := c1; si_inflight := si_inflight s; si_acc := si_acc s; si_fault := si_fault s;
                si_wiped := si_wiped s || offers_dup offers |}) in *.
  assert (Hb0 : ibad s0 = false).
  { apply (not_bad_before (fun x => fold_left (isys_ack_offer ev) offers x)); [apply ibad_fold_offer_mono|exact Hb]. }
  assert (Hd : offers_dup offers = false).
  { unfold ibad, s0 in Hb0. simpl in Hb0. apply orb_false_iff in Hb0. destruct Hb0 as [_ X]. apply orb_false_iff in X. tauto. }
  pose proof HR as (_ & _ & Hin & Hseq & Htk & _ & _).
  assert (Hi1 : c_init c1 = true) by (rewrite Hin; exact Hi).
  destruct (irec_same_records (si_c s) c1 (si_inflight s) Hi1 Htk Hseq Pa Hk) as [Pa1 Hk1].
  assert (Kc1 : Kpl c1 (si_inflight s)).
  { apply (Kpl_same_records (si_c s)); try assumption. intros t r Hin'.
    destruct (items_of c1 t r) as [l|] eqn:E; [|reflexivity]. exfalso.
    assert (X : inflight_tbl (si_inflight s) c1 = true).
    { unfold inflight_tbl. apply existsb_exists. exists (t, r, None). split; [exact Hin'|]. unfold has_tbl. rewrite E. reflexivity. }
    congruence. }
  assert (Odd : forall o, In o offers -> offer_odd (si_inflight s) c1 o = false /\ offer_odd2 (si_inflight s) c1 o = false).
  { intros o Ho. split.
    - destruct (offer_odd (si_inflight s) c1 o) eqn:E; [|reflexivity].
      assert (X : existsb (offer_odd (si_inflight s) c1) offers = true) by (apply existsb_exists; exists o; auto). congruence.
    - destruct (offer_odd2 (si_inflight s) c1 o) eqn:E; [|reflexivity].
      assert (X : existsb (offer_odd2 (si_inflight s) c1) offers = true) by (apply existsb_exists; exists o; auto). congruence. }
  apply (ack_offers_kpl offers s0); try assumption.
  - unfold s0; simpl. split; [exact Hi1|split; [exact Hfo1|split; assumption]].
  - unfold s0, irec; simpl. auto.
  - intros o Ho. destruct (Hof o Ho) as [e [_ [_ [_ Hok]]]]. exact (pend_of_offer_ok _ _ _ Hok).
  - intros o Ho. unfold s0; simpl. destruct (Odd o Ho) as [Ho' _].
    unfold offer_odd in Ho'. apply orb_false_iff in Ho'. destruct Ho' as [Ho' Hcmd]. apply orb_false_iff in Ho'. destruct Ho' as [Hrs Hcl].
    split; [exact Hcmd|].
    assert (NoItems : o_items_count o = None \/ o_items_count o = Some 0 -> forall i, ~ In (o_id o, o_route o, Some i) (si_inflight s)).
    { intros Hcnt i Hin'. destruct (H1 _ _ _ Hin') as [l [Hl Hn]].
      destruct l as [|x xs]; [destruct i; discriminate Hn|].
      unfold offer_resized in Hrs. rewrite (Rgn_items_stable _ _ _ _ _ _ HR Hl) in Hrs.
      destruct Hcnt as [E|E]; rewrite E in Hrs; discriminate Hrs. }
    destruct (o_items_count o) as [[|m]|]; [apply NoItems; auto| |apply NoItems; auto].
    intro X. apply ikey_in_iff in X. congruence.
  - intros o Ho. unfold s0; simpl. destruct (Odd o Ho) as [_ Ho']. unfold offer_odd2, okF2 in *.
    destruct (o_items_count o) as [[|m]|]; [|exact Logic.I|].
    + intro X. apply ikey_in_iff in X. congruence.
    + unfold has_tbl in Ho'. destruct (items_of c1 (o_id o) (o_route o)); [discriminate Ho'|reflexivity].
Qed.

Lemma report_kpl : forall s t r item st result, ilink (si_c s) (si_inflight s) -> irec s -> Kpl (si_c s) (si_inflight s) ->
  ibad (isys_report ev s t r item st result) = false ->
  Kpl (si_c (isys_report ev s t r item st result)) (si_inflight (isys_report ev s t r item st result)).
Proof.
  intros s t r item st result I R K Hb. unfold isys_report in *.
  destruct (ikey_in (t, r, item) (si_inflight s) && status_in st report_statuses) eqn:En; [|exact K].
  apply andb_true_iff in En. destruct En as [Hin _]. apply ikey_in_iff in Hin.
  destruct I as [Hi [Hfo _]]. destruct R as [Ia [Pa [_ Hm]]].
  destruct item as [i|].
  - match type of Hb with ibad (isys_event ev ?s2 t r ?e) = false => set (sx := s2) in *; set (ex := e) in * end.
    rewrite inflight_event. unfold sx at 2; simpl.
    apply (Kpl_keys _ (si_inflight s)); [intros t' r' X; apply In_ikey_remove in X; apply X|].
    apply (event_kpl sx); try assumption. intro X. exact (Hm t r X i Hin).
  - set (s1 := with_inflight s (ikey_remove (t, r, None) (si_inflight s))) in *.
    rewrite inflight_event. unfold s1 at 2; simpl. intros t' r' X. apply In_ikey_remove in X. destruct X as [X Hne].
    apply (ievent_plain_other s1 t r (EvAction st result) (si_inflight s) Hb Ia Pa Hfo K t' r' X). congruence.
Qed.

Lemma request_kpl_c : forall c F st c' x, c_init c = true -> P_ok c -> Kpl c F ->
  api_exec ev (OpRequest st) c = (c', x) -> Kpl c' F.
Proof.
  intros c F st c' x Ia Pa K E. cbn [api_exec] in E. unfold bind at 1 in E.
  destruct (request_workflow_status ev st c) as [c2 rr] eqn:R.
  assert (c' = c2) by (destruct rr; inversion E; reflexivity). subst c2.
  destruct (request_records ev st c c' rr Ia R) as [Hs [Ht [Hin Hrec]]].
  intros t r Hin'. destruct (K t r Hin') as [Hc [Hn [idx [rec [A [B C]]]]]]. split; [exact Hc|].
  split; [unfold items_of, get_staged_task in *; rewrite Hs; exact Hn|].
  destruct (Hrec idx rec B) as [rec' [B' [K' L']]]. exists idx, rec'. split; [unfold ws_task_idx in *; rewrite Ht; exact A|].
  split; [exact B'|]. apply L'; [right|exact C].
  destruct (Pa t r idx A) as [rec0 [X Y]]. rewrite B in X. inversion X; subst rec0. rewrite Y. exact Hn.
Qed.

Lemma call_kpl_c : forall c F op c' x, op = OpRender \/ op = OpPersist -> c_init c = true -> Kpl c F ->
  api_exec ev op c = (c', x) -> is_exc x = false -> Kpl c' F.
Proof.
  intros c F op c' x Hop Ia K E Hx. destruct Hop as [-> | ->]; cbn [api_exec] in E;
    destruct (then_ret_unit _ _ _ _ E) as [[_ X]|Y]; try congruence.
  - pose proof (vlt_render_workflow_output ev c Ia c' tt X) as [Hs [Ht [Hst _]]].
    apply (Kpl_same_records c); try assumption. intros t r Hin. destruct (K t r Hin) as [_ [Hn _]].
    unfold items_of, get_staged_task in *. rewrite Hst. exact Hn.
  - rewrite (persist_identity ev c Ia) in X. inversion X; subst. exact K.
Qed.

(* ---- the invariant along a history ---- *)
Definition kpl_inv (s : isys) : Prop := ibad s = false -> unborn (si_c s) \/ Kpl (si_c s) (si_inflight s).

Definition op_odd2 (s : isys) (op : isys_op) : bool := match op with IPoll => poll_odd2 ev s | _ => false end.

Lemma step_kpl : forall s op, isys_inv2 s -> irec_inv s -> kpl_inv s -> op_odd ev s op = false -> op_odd2 s op = false ->
  kpl_inv (isys_step ev s op).
Proof.
  intros s op H2 H3 H4 Ho Ho2 Hb.
  assert (Hb0 : ibad s = false) by (apply (not_bad_before (fun x => isys_step ev x op)); [intro; apply ibad_step_mono; assumption|exact Hb]).
  assert (Rq : forall st, ibad (isys_request ev s st) = false -> unborn (si_c (isys_request ev s st)) \/ Kpl (si_c (isys_request ev s st)) (si_inflight (isys_request ev s st))).
  { intros st Hb'. unfold isys_request in *. destruct (status_in st request_statuses); [|exact (H4 Hb0)].
    destruct (api_exec ev (OpRequest st) (si_c s)) as [c' x] eqn:E. simpl. right.
    unfold ibad in Hb'. simpl in Hb'. apply orb_false_iff in Hb'. destruct Hb' as [Hb1 _]. apply orb_false_iff in Hb1. destruct Hb1 as [_ Hb3].
    destruct (inv2_link s H2 Hb0) as [[Hu HF]|I].
    - rewrite HF. intros t r [].
    - destruct (H3 Hb0) as [[Hi _]|[Ia [Pa _]]]; [destruct I as [Hi' _]; congruence|].
      destruct (H4 Hb0) as [[Hi _]|K]; [congruence|]. eapply request_kpl_c; eassumption. }
  assert (Cl : forall o, o = OpRender \/ o = OpPersist -> ibad (isys_call ev s o) = false ->
               unborn (si_c (isys_call ev s o)) \/ Kpl (si_c (isys_call ev s o)) (si_inflight (isys_call ev s o))).
  { intros o Hop Hb'. unfold isys_call in *. destruct (api_exec ev o (si_c s)) as [c' x] eqn:E. simpl. right.
    unfold ibad in Hb'. simpl in Hb'. apply orb_false_iff in Hb'. destruct Hb' as [Hb1 _]. apply orb_false_iff in Hb1. destruct Hb1 as [_ Hb3].
    destruct (inv2_link s H2 Hb0) as [[Hu HF]|I].
    - rewrite HF. intros t r [].
    - destruct (H3 Hb0) as [[Hi _]|[Ia _]]; [destruct I as [Hi' _]; congruence|].
      destruct (H4 Hb0) as [[Hi _]|K]; [congruence|]. eapply call_kpl_c; eassumption. }
  destruct op; cbn [isys_step op_odd op_odd2] in *; auto.
  - right. destruct (inv2_link s H2 Hb0) as [[Hu HF]|I].
    + destruct (unborn_get_next ev s Hu) as [[c1 [e X]]|[c2 [En [I X]]]]; [unfold isys_poll in Hb; rewrite X in Hb; discriminate Hb|].
      assert (E : isys_poll ev s = isys_poll ev (set_c s c2)) by (unfold isys_poll; simpl; rewrite X; reflexivity).
      assert (Eo : poll_odd ev s = poll_odd ev (set_c s c2)) by (unfold poll_odd; simpl; rewrite X; reflexivity).
      assert (Eo2 : poll_odd2 ev s = poll_odd2 ev (set_c s c2)) by (unfold poll_odd2; simpl; rewrite X; reflexivity).
      rewrite E in *. rewrite Eo in Ho. rewrite Eo2 in Ho2.
      destruct (born_rec ev _ _ Hu En) as [A [B [C D]]].
      destruct (get_next_tasks ev (si_c (set_c s c2))) as [c1 [offers|x]] eqn:Hg; [|unfold isys_poll in Hb; rewrite Hg in Hb; discriminate Hb].
      apply (poll_kpl (set_c s c2) c1 offers); try assumption.
      * simpl. rewrite HF. exact I.
      * unfold irec. simpl. rewrite HF. auto.
      * simpl. rewrite HF. intros t r [].
    + destruct (H3 Hb0) as [[Hi _]|R]; [destruct I as [Hi' _]; congruence|].
      destruct (H4 Hb0) as [[Hi _]|K]; [destruct I as [Hi' _]; congruence|].
      destruct (get_next_tasks ev (si_c s)) as [c1 [offers|x]] eqn:Hg; [|unfold isys_poll in Hb; rewrite Hg in Hb; discriminate Hb].
      apply (poll_kpl s c1 offers); assumption.
  - destruct (inv2_link s H2 Hb0) as [[Hu HF]|I].
    + left. unfold isys_report. rewrite HF. simpl. exact Hu.
    + destruct (H3 Hb0) as [[Hi _]|R]; [destruct I as [Hi' _]; congruence|].
      destruct (H4 Hb0) as [[Hi _]|K]; [destruct I as [Hi' _]; congruence|]. right. apply report_kpl; assumption.
Qed.

Lemma run_kpl : forall ops s, isys_inv2 s -> irec_inv s -> kpl_inv s -> run_odd ev ops s = false -> run_odd2 ev ops s = false ->
  kpl_inv (isys_run ev ops s).
Proof.
  induction ops as [|op ops IH]; intros s H2 H3 H4 Ho Ho2; [exact H4|]. cbn [isys_run fold_left]. simpl in Ho, Ho2.
  apply orb_false_iff in Ho. destruct Ho as [Ho1 Ho1']. apply orb_false_iff in Ho2. destruct Ho2 as [Ho2a Ho2b].
  apply IH; [apply isys_step_inv2; exact H2|apply isys_step_inv3; assumption|apply step_kpl; assumption|exact Ho1'|exact Ho2b].
Qed.

End PlainSystem.

Section PlainReachable.
Variable ev : string -> dict -> evalres.
Variables (sp : wf_spec) (g : graph) (inputs parent : dict).

(* while the single action of a task is in flight the task record is ACTIVE *)
Theorem plain_record_active : forall ops, let s := ireach ev sp g inputs parent ops in
  si_fault s = false -> si_wiped s = false -> run_odd ev ops (isys_init sp g inputs parent) = false ->
  run_odd2 ev ops (isys_init sp g inputs parent) = false ->
  forall t r, In (t, r, None) (si_inflight s) ->
  exists rec, ws_task_entry (c_ws (si_c s)) t r = Some rec /\ r_id rec = t /\ r_route rec = r /\
              ostatus_in (r_status rec) ACTIVE_STATUSES = true.
Proof.
  intros ops s Hf Hw Ho Ho2 t r Hin. pose proof (ibad_false _ Hf Hw) as Hb.
  assert (K : kpl_inv s).
  { apply (run_kpl ev ops); try assumption; [apply isys_init_inv2| |]; intros _; left; split; reflexivity. }
  assert (R : irec_inv s) by (apply (ireach_inv3 ev sp g inputs parent ops Ho)).
  destruct (K Hb) as [[Hi0 _]|Kp].
  - exfalso. destruct (ireach_inv2 ev sp g inputs parent ops Hb) as [[_ HF]|[[Hi _] _]]; [fold s in HF; rewrite HF in Hin; destruct Hin|].
    fold s in Hi. congruence.
  - destruct (R Hb) as [[_ Hws]|[_ [Pa _]]].
    + exfalso. destruct (Kp t r Hin) as [_ [_ [idx [rec [A _]]]]]. unfold ws_task_idx in A. fold s in Hws. rewrite Hws in A. discriminate A.
    + destruct (Kp t r Hin) as [_ [_ [idx [rec [A [B C]]]]]].
      destruct (Pa t r idx A) as [rec0 [X Y]]. rewrite B in X. inversion X; subst rec0. unfold key_of in Y.
      exists rec. unfold ws_task_entry. rewrite A. split; [exact B|]. split; [congruence|]. split; [congruence|].
      assert (N : NP (si_c s)).
      { apply (np_run ev ops _ (isys_init_inv2 sp g inputs parent)); [|exact Hb]. intros _ j rc E. simpl in E. destruct j; discriminate E. }
      pose proof (N idx rec B) as Hnp. unfold busy in C. destruct (r_status rec) as [x|]; [|discriminate C]. simpl in *.
      apply F_good_not_pending_active; [exact C|congruence].
Qed.

End PlainReachable.
