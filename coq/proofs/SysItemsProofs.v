(* SysItemsProofs.v -- the provider protocol with WITH-ITEMS tasks (model/ProviderSysItems.v): the bookkeeping of
   item statuses in staged entries against the provider's in-flight item actions, over protocol histories. *)
From Coq Require Import String List Bool ZArith Arith Lia.
From Orq Require Import GenStatuses GenEvents GenTables GenSpecMeta Base State Machines Codec Conductor Decode Api Driver ProviderSys ProviderSysItems.
From Orq Require Import F_tables F_names F_sys Hoare ValuePost StatusReach C04Proofs C05Proofs C02C03Proofs C09C10Proofs OffersProofs InertProofs RetryProofs SysProofs SysNextProofs.
Import ListNotations.
Open Scope string_scope.
Open Scope monad_scope.

(* ================================================================== A. first staged entry of a key *)

Definition keeps_key (f : stg -> stg) : Prop := forall s, s_id (f s) = s_id s /\ s_route (f s) = s_route s.

Lemma matches_keeps : forall f t r s, keeps_key f -> stg_matches t r (f s) = stg_matches t r s.
Proof. intros f t r s H. unfold stg_matches. destruct (H s) as [A B]. rewrite A, B. reflexivity. Qed.

Lemma find_staged_update : forall f t r nt nr l s', keeps_key f ->
  find (stg_matches t r) (staged_update f nt nr l) = Some s' ->
  exists s, find (stg_matches t r) l = Some s /\ (s' = s \/ (s' = f s /\ stg_matches nt nr s = true)).
Proof.
  intros f t r nt nr l s' Hk. induction l as [|a l IH]; simpl; intro H; [discriminate|].
  destruct (stg_matches nt nr a) eqn:En; simpl in H.
  - rewrite (matches_keeps f t r a Hk) in H. destruct (stg_matches t r a).
    + inversion H; subst. exists a. split; [reflexivity|right; auto].
    + exists s'. split; [exact H|left; reflexivity].
  - destruct (stg_matches t r a); [inversion H as [E]; exists s'; split; [reflexivity|left; reflexivity]|apply IH; exact H].
Qed.

Lemma find_app_snoc : forall (p : stg -> bool) l x s', find p (app l [x]) = Some s' ->
  find p l = Some s' \/ (find p l = None /\ s' = x).
Proof.
  induction l as [|a l IH]; simpl; intros x s' H.
  - destruct (p x); inversion H; auto.
  - destruct (p a); [left; exact H|apply IH; exact H].
Qed.

Lemma matches_two : forall t r t' r' s, stg_matches t r s = true -> stg_matches t' r' s = true -> (t', r') = (t, r).
Proof. intros t r t' r' s A B. apply stg_matches_eq in A. apply stg_matches_eq in B. destruct A, B. congruence. Qed.

(* ================================================================== B. item tables only come from before *)

(* every item table in staging after the call was there, for the same key, before -- except for the key the call
   addresses and the keys of engine commands *)
Definition Rbk (k : string * nat) (c c' : cstate) : Prop :=
  forall t r l, (t, r) <> k -> is_engine_command t = false -> items_of c' t r = Some l -> items_of c t r = Some l.

Lemma Rbk_refl : forall k c, Rbk k c c.
Proof. intros k c t r l _ _ H; exact H. Qed.
Lemma Rbk_trans : forall k a b c, Rbk k a b -> Rbk k b c -> Rbk k a c.
Proof. intros k a b c H1 H2 t r l Hk Hc H. apply (H1 t r l Hk Hc). apply (H2 t r l Hk Hc). exact H. Qed.

Lemma Rbk_same_staged : forall k c c', staged (c_ws c') = staged (c_ws c) -> Rbk k c c'.
Proof. intros k c c' H t r l _ _ X. unfold items_of, get_staged_task in *. rewrite H in X. exact X. Qed.

Definition items_fade (f : stg -> stg) : Prop :=
  keeps_key f /\ forall s, s_items (f s) = s_items s \/ s_items (f s) = None.

Lemma Rbk_staged_update : forall k c f nt nr, items_fade f ->
  Rbk k c (set_ws c (ws_set_staged (c_ws c) (staged_update f nt nr (staged (c_ws c))))).
Proof.
  intros k c f nt nr [Hk Hf] t r l _ _ H. unfold items_of, get_staged_task in *. simpl in H.
  destruct (find (stg_matches t r) (staged_update f nt nr (staged (c_ws c)))) as [s'|] eqn:E; [|discriminate].
  destruct (find_staged_update _ _ _ _ _ _ _ Hk E) as [s [Hs [->|[-> _]]]]; rewrite Hs; [exact H|].
  destruct (Hf s) as [X|X]; rewrite X in H; [exact H|discriminate].
Qed.

(* an update of the entry of the addressed key *)
Lemma Rbk_staged_update_own : forall t0 r0 c f, keeps_key f ->
  Rbk (t0, r0) c (set_ws c (ws_set_staged (c_ws c) (staged_update f t0 r0 (staged (c_ws c))))).
Proof.
  intros t0 r0 c f Hk t r l Hne _ H. unfold items_of, get_staged_task in *. simpl in H.
  destruct (find (stg_matches t r) (staged_update f t0 r0 (staged (c_ws c)))) as [s'|] eqn:E; [|discriminate].
  destruct (find_staged_update _ _ _ _ _ _ _ Hk E) as [s [Hs [->|[-> Hm]]]]; rewrite Hs; [exact H|].
  exfalso. apply find_some in Hs. destruct Hs as [_ Hs]. apply Hne. exact (matches_two _ _ _ _ _ Hm Hs).
Qed.

Lemma Rbk_remove_own : forall t0 r0 c, Rbk (t0, r0) c (set_ws c (ws_remove_staged_task (c_ws c) t0 r0)).
Proof.
  intros t0 r0 c t r l Hne _ H. unfold items_of in *. simpl in H.
  rewrite (get_staged_after_remove (c_ws c) (ws_remove_staged_task (c_ws c) t0 r0) t0 r0 t r Hne eq_refl) in H. exact H.
Qed.

Lemma Rbk_add : forall k c x, s_items x = None -> Rbk k c (set_ws c (ws_add_staged (c_ws c) x)).
Proof.
  intros k c x Hx t r l _ _ H. unfold items_of, get_staged_task in *. simpl in H.
  destruct (find (stg_matches t r) (app (staged (c_ws c)) [x])) as [s'|] eqn:E; [|discriminate].
  destruct (find_app_snoc _ _ _ _ E) as [A|[_ ->]]; [rewrite A; exact H|rewrite Hx in H; discriminate].
Qed.

(* the weaker relation of a nested call on an engine command *)
Lemma Rbk_cmd : forall k n rt c c', is_engine_command n = true -> Rbk (n, rt) c c' -> Rbk k c c'.
Proof.
  intros k n rt c c' Hn H t r l _ Hc X. apply (H t r l); [intro E; inversion E; subst; congruence|exact Hc|exact X].
Qed.

Section BackFrame.
Variable ev : string -> dict -> evalres.

Ltac fade := split; [intro; split; reflexivity|intro; simpl; auto].
Ltac bleaf0 k :=
  first [ solve [apply Rbk_same_staged; simpl; first [reflexivity|apply staged_update_rec]]
        | solve [apply Rbk_remove_own]
        | solve [apply Rbk_add; reflexivity]
        | solve [apply Rbk_staged_update; split; [intro; split; reflexivity|intro; simpl; first [left; reflexivity|right; reflexivity]]]
        | solve [apply Rbk_staged_update_own; intro; split; reflexivity] ].
Ltac pleaf :=
  first [ solve [apply (preserves_modws (Rbk _)); intro; bleaf0 tt]
        | solve [apply (preserves_modify (Rbk _)); intro; apply Rbk_same_staged;
                 first [reflexivity|match goal with |- context [if ?b then _ else _] => destruct b end; reflexivity]]
        | assumption ].
Ltac leaf :=
  first [ solve [apply (vp_modws (Rbk _)); intro; bleaf0 tt]
        | solve [apply (vp_modify (Rbk _)); intro; apply Rbk_same_staged;
                 first [reflexivity|match goal with |- context [if ?b then _ else _] => destruct b end; reflexivity]]
        | assumption ].

Lemma bk_of_stg : forall k A (m : M A), vpres Rstg m -> vpres (Rbk k) m.
Proof. intros k A m H c c' a E. apply Rbk_same_staged. exact (H _ _ _ E). Qed.
Lemma pbk_of_lt : forall k A (m : M A), preserves Rlt m -> preserves (Rbk k) m.
Proof. intros k A m H c c' a E. apply Rbk_same_staged. apply Rlt_Rstg. exact (H _ _ _ E). Qed.
Lemma bk_of_lt : forall k A (m : M A), vpres Rlt m -> vpres (Rbk k) m.
Proof. intros k A m H c c' a E. apply Rbk_same_staged. apply Rlt_Rstg. exact (H _ _ _ E). Qed.

Lemma bk_wf_task_event : forall k t route st, vpres (Rbk k) (wf_task_event_M t route st).
Proof.
  intros k t route st c c' a H. unfold wf_task_event_M in H.
  destruct (wf_process_task_event (c_graph c) (c_ws c) t route st) as [[new unr]|e]; inversion H; subst.
  apply Rbk_same_staged. reflexivity.
Qed.

Lemma bk_add_task_state : forall k t rt ins prev, vpres (Rbk k) (add_task_state ev t rt ins prev).
Proof.
  intros k t rt ins prev c c' idx H. destruct (add_task_state_eff ev _ _ _ _ _ _ _ H) as [cm [retry [L [_ [-> _]]]]].
  apply Rbk_same_staged. simpl. apply L.
Qed.

Lemma bk_process_transition : forall t route idx ts ctx e, vpres (Rbk (t, route)) (process_transition ev t route idx ts ctx e).
Proof.
  intros t route idx ts ctx e. unfold process_transition.
  pose proof (fun e' t' r' tr => bk_of_lt (t, route) _ _ (vlt_log_error e' t' r' tr)) as H1.
  pose proof (fun es t' r' tr => bk_of_lt (t, route) _ _ (vlt_log_errors es t' r' tr)) as H2.
  pose proof (bk_of_lt (t, route) _ _ vlt_request_failed) as H3.
  pose proof (fun ts' e' c' => bk_of_lt (t, route) _ _ (vlt_finalize_context ev ts' e' c')) as H4.
  pose proof (fun i => bk_of_stg (t, route) _ _ (vs_get_rec i)) as H5.
  pose proof (fun i f => bk_of_stg (t, route) _ _ (vs_upd_rec i f)) as H6.
  pose proof (fun e' r' => bk_of_stg (t, route) _ _ (vs_evaluate_route e' r')) as H7.
  assert (H8 : forall i f, preserves (Rbk (t, route)) (upd_rec i f)).
  { intros i f c c' a E. apply Rbk_same_staged. exact (ps_upd_rec i f _ _ _ E). }
  sw (Rbk_refl (t, route)) (Rbk_trans (t, route)) ltac:(first [pleaf|apply H8]) ltac:(first [leaf|apply H1|apply H2|apply H3|apply H4|apply H5|apply H6|apply H7]).
Qed.


Lemma bk_unstage : forall t route evt s0, vpres (Rbk (t, route)) (uts_unstage t route evt s0).
Proof. intros; unfold uts_unstage. sw (Rbk_refl (t, route)) (Rbk_trans (t, route)) pleaf leaf. Qed.
Lemma bk_item : forall t route evt s0, vpres (Rbk (t, route)) (uts_item t route evt s0).
Proof. intros; unfold uts_item. sw (Rbk_refl (t, route)) (Rbk_trans (t, route)) pleaf leaf. Qed.
Lemma bk_logfail : forall k t evt, vpres (Rbk k) (uts_logfail t evt).
Proof.
  intros k t evt c c' a H. apply Rbk_same_staged. unfold uts_logfail in H.
  destruct (status_eqb (ev_status evt) S_FAILED); [|inversion H; reflexivity].
  apply log_entry_error_eff in H. destruct H as [_ [W _]]. rewrite W. reflexivity.
Qed.
Lemma bk_setst : forall k i ns, vpres (Rbk k) (uts_setst i ns).
Proof. intros k i ns. apply bk_of_stg. unfold uts_setst, set_rec_status. destruct ns; [|apply vp_ret; apply Rstg_refl].
  apply vp_modws. intro; unfold Rstg; simpl; apply staged_update_rec. Qed.
Lemma bk_retrying : forall t route idx r ns, vpres (Rbk (t, route)) (uts_retrying t route idx r ns).
Proof.
  intros; unfold uts_retrying. pose proof (fun i f => bk_of_stg (t, route) _ _ (vs_upd_rec i f)) as H6.
  sw (Rbk_refl (t, route)) (Rbk_trans (t, route)) pleaf ltac:(first [leaf|apply H6]).
Qed.
Lemma bk_completion : forall t route evt ts idx ns o0, vpres (Rbk (t, route)) (uts_completion ev t route evt ts idx ns o0).
Proof.
  intros; unfold uts_completion.
  pose proof (fun e' t' r' tr => bk_of_lt (t, route) _ _ (vlt_log_error e' t' r' tr)) as H1.
  pose proof (bk_of_lt (t, route) _ _ vlt_request_failed) as H3.
  pose proof (fun i => bk_of_stg (t, route) _ _ (vs_get_rec i)) as H5.
  pose proof (fun i => bk_of_lt (t, route) _ _ (vlt_get_task_context i)) as H7.
  assert (H8 : forall r ctx, preserves (Rbk (t, route)) (evaluate_task_retry ev r ctx)).
  { intros r ctx. apply (state_pure_preserves _ (Rbk_refl (t, route))). apply evaluate_task_retry_pure. }
  sw (Rbk_refl (t, route)) (Rbk_trans (t, route)) ltac:(first [pleaf|apply H8|apply (preserves_ret _ (Rbk_refl (t, route)))])
     ltac:(first [leaf|apply H1|apply H3|apply H5|apply H7]).
Qed.
Lemma bk_queue : forall t route idx ts o n compl, vpres (Rbk (t, route)) (uts_queue ev t route idx ts o n compl).
Proof.
  intros; unfold uts_queue.
  pose proof (bk_process_transition t route idx ts) as H1.
  pose proof (fun i => bk_of_stg (t, route) _ _ (vs_get_rec i)) as H5.
  pose proof (fun i f => bk_of_stg (t, route) _ _ (vs_upd_rec i f)) as H6.
  sw (Rbk_refl (t, route)) (Rbk_trans (t, route)) pleaf ltac:(first [leaf|apply H1|apply H5|apply H6]).
Qed.
Lemma bk_sel1 : forall k t s0 e0, vpres (Rbk k) (uts_sel1 ev t s0 e0).
Proof. intros; unfold uts_sel1, uts_need_staged. pose proof (bk_add_task_state k) as H. sw (Rbk_refl k) (Rbk_trans k) pleaf ltac:(first [leaf|apply H]). Qed.
Lemma bk_sel2 : forall k t evt s0 r1 i, vpres (Rbk k) (uts_sel2 ev t evt s0 r1 i).
Proof. intros; unfold uts_sel2, uts_need_staged. pose proof (bk_add_task_state k) as H. sw (Rbk_refl k) (Rbk_trans k) pleaf ltac:(first [leaf|apply H]). Qed.

Lemma bk_prefix_main : forall t route evt ts s0 e0, vpres (Rbk (t, route)) (pre_main ev t route evt ts s0 e0).
Proof.
  intros. unfold pre_main, pre_machine.
  pose proof (bk_sel1 (t, route)) as H1. pose proof (bk_sel2 (t, route)) as H2. pose proof bk_unstage as H3. pose proof bk_item as H4.
  pose proof (bk_logfail (t, route)) as H5. pose proof (bk_setst (t, route)) as H6. pose proof bk_retrying as H7. pose proof bk_completion as H8.
  pose proof (fun i => bk_of_stg (t, route) _ _ (vs_get_rec i)) as H9.
  assert (H10 : forall i, preserves (Rbk (t, route)) (get_rec i)).
  { intros i c c' a E. apply get_rec_state in E. subst. apply Rbk_refl. }
  sw (Rbk_refl (t, route)) (Rbk_trans (t, route)) ltac:(first [pleaf|apply H10])
     ltac:(first [leaf|apply H1|apply H2|apply H3|apply H4|apply H5|apply H6|apply H7|apply H8|apply H9]).
Qed.


Lemma bk_ensure_ws : forall k, vpres (Rbk k) (ensure_ws ev).
Proof.
  intro k. unfold ensure_ws.
  pose proof (fun a b c' d => pbk_of_lt k _ _ (lt_render_input ev a b c' d)) as P1.
  pose proof (fun a b c' d => pbk_of_lt k _ _ (lt_render_vars ev a b c' d)) as P2.
  pose proof (fun es t' r' tr => bk_of_lt k _ _ (vlt_log_errors es t' r' tr)) as H2.
  pose proof (bk_of_lt k _ _ vlt_request_failed) as H3.
  assert (Q1 : forall a b c' d, vpres (Rbk k) (render_input ev a b c' d)) by (intros; apply vp_of_pres; apply P1).
  assert (Q2 : forall a b c' d, vpres (Rbk k) (render_vars ev a b c' d)) by (intros; apply vp_of_pres; apply P2).
  sw (Rbk_refl k) (Rbk_trans k) ltac:(first [pleaf|apply P1|apply P2]) ltac:(first [leaf|apply H2|apply H3|apply Q1|apply Q2]).
Qed.

Lemma bk_call : forall rec k p, (forall t r e, vpres (Rbk (t, r)) (rec t r e)) -> cmd_pair p -> vpres (Rbk k) (uts_call rec p).
Proof.
  intros rec k [n rt] Hrec Hc. unfold uts_call. destruct (engine_event n) as [e|]; [|apply vp_raise].
  intros c c' a H. apply (Rbk_cmd k n rt); [exact Hc|]. exact (Hrec n rt e _ _ _ H).
Qed.

Lemma bk_tail : forall rec, (forall t r e, vpres (Rbk (t, r)) (rec t r e)) ->
  forall t route ts idx o n compl, vpres (Rbk (t, route)) (uts_tail ev rec t route ts idx o n compl).
Proof.
  intros rec Hrec t route ts idx o n compl. unfold uts_tail.
  assert (G : vpres (Rbk (t, route))
            (queue <- uts_queue ev t route idx ts o n compl ;;
             r <- get_rec idx ;;
             st <- match r_status r with Some s => ret s | None => raise (exn_key "status") end ;;
             unreachable <- wf_task_event_M t route st ;;
             log_unreachable unreachable ;;;
             forM_ queue (uts_call rec) ;;;
             (w <- getws ;; (if status_in (wstatus w) COMPLETED_STATUSES then upd_rec idx (fun r0 => r_set_term r0 true) else ret tt)))).
  { apply (vp_bind_v _ (Rbk_trans (t, route)) _ _ (Forall cmd_pair)); [apply queue_cmds|apply bk_queue|intros queue Hq].
    apply (vp_bind _ (Rbk_trans (t, route))); [apply bk_of_stg; apply vs_get_rec|intro r].
    apply (vp_bind _ (Rbk_trans (t, route))); [destruct (r_status r); [apply (vp_ret _ (Rbk_refl _))|apply vp_raise]|intro st].
    apply (vp_bind _ (Rbk_trans (t, route))); [apply bk_wf_task_event|intro unr].
    apply (vp_bind _ (Rbk_trans (t, route))); [apply bk_of_lt; apply vlt_log_unreachable|intros _].
    apply (vp_bind _ (Rbk_trans (t, route))).
    - apply (vp_forM_In _ (Rbk_refl _) (Rbk_trans _)). intros p Hp. apply bk_call; [exact Hrec|].
      rewrite Forall_forall in Hq. apply Hq; exact Hp.
    - intros _. apply (vp_bind _ (Rbk_trans (t, route))); [apply (vp_getws _ (Rbk_refl _))|intro w].
      destruct (status_in (wstatus w) COMPLETED_STATUSES); [apply bk_of_stg; apply vs_upd_rec|apply (vp_ret _ (Rbk_refl _))]. }
  destruct compl as [[ctx [|]]|]; [apply Hrec|exact G|exact G].
Qed.

Lemma bk_body : forall rec, (forall t r e, vpres (Rbk (t, r)) (rec t r e)) ->
  forall t route evt, vpres (Rbk (t, route)) (uts_body ev rec t route evt).
Proof.
  intros rec Hrec t route evt c c' a H. rewrite body_eq in H. revert c c' a H.
  apply (vp_bind _ (Rbk_trans (t, route))); [|intro p; apply bk_tail; exact Hrec].
  unfold uts_prefix.
  apply (vp_bind _ (Rbk_trans (t, route))); [apply bk_ensure_ws|intros _].
  apply (vp_bind _ (Rbk_trans (t, route))); [apply (vp_get _ (Rbk_refl _))|intro c0].
  destruct (negb (g_has_task (c_graph c0) t)); [apply vp_raise|]. cbv zeta.
  apply (vp_bind _ (Rbk_trans (t, route))); [destruct (spec_get_task (c_spec c0) t); [apply (vp_ret _ (Rbk_refl _))|apply vp_raise]|intro ts].
  destruct (get_staged_task (c_ws c0) t route), (ws_task_idx (c_ws c0) t route); try apply bk_prefix_main. apply vp_raise.
Qed.

Theorem bk_update_task_state : forall t route evt, vpres (Rbk (t, route)) (update_task_state ev t route evt).
Proof.
  intros t route evt. unfold update_task_state.
  assert (G : forall fuel t route evt, vpres (Rbk (t, route)) (update_task_state_fuel ev fuel t route evt)).
  { induction fuel as [|fuel IH]; intros t0 r0 e0; [apply vp_raise|]. rewrite uts_unfold. apply bk_body. exact IH. }
  apply G.
Qed.

End BackFrame.

(* ================================================================== C. the same, entry by entry *)

(* every staged entry with an item table after the call has a counterpart (same key, same table) before, except for
   entries of the key X *)
Definition Rin (X : string * nat -> Prop) (c c' : cstate) : Prop :=
  forall s' l, In s' (staged (c_ws c')) -> s_items s' = Some l -> ~ X (s_id s', s_route s') ->
  exists s, In s (staged (c_ws c)) /\ s_id s = s_id s' /\ s_route s = s_route s' /\ s_items s = Some l.

Definition nokey : string * nat -> Prop := fun _ => False.
Definition onekey (k : string * nat) : string * nat -> Prop := fun x => x = k.

Lemma Rin_refl : forall X c, Rin X c c.
Proof. intros X c s' l H1 H2 _. exists s'; auto. Qed.
Lemma Rin_trans : forall X a b c, Rin X a b -> Rin X b c -> Rin X a c.
Proof.
  intros X a b c H1 H2 s' l Hin Hi Hx. destruct (H2 _ _ Hin Hi Hx) as [s1 [A [B [C D]]]].
  assert (Hx1 : ~ X (s_id s1, s_route s1)) by (rewrite B, C; exact Hx).
  destruct (H1 _ _ A D Hx1) as [s0 [A0 [B0 [C0 D0]]]]. exists s0. repeat split; try assumption; congruence.
Qed.
Lemma Rin_weaken : forall X c c', Rin nokey c c' -> Rin X c c'.
Proof. intros X c c' H s' l A B _. apply (H s' l A B). intros []. Qed.
Lemma Rin_same_staged : forall X c c', staged (c_ws c') = staged (c_ws c) -> Rin X c c'.
Proof. intros X c c' H s' l A B _. rewrite H in A. exists s'; auto. Qed.

Lemma Rin_staged_update : forall X c f nt nr, items_fade f ->
  Rin X c (set_ws c (ws_set_staged (c_ws c) (staged_update f nt nr (staged (c_ws c))))).
Proof.
  intros X c f nt nr [Hk Hf] s' l Hin Hi _. simpl in Hin.
  destruct (In_staged_update _ _ _ _ _ Hin) as [A|[s0 [A ->]]]; [exists s'; auto|].
  exists s0. destruct (Hk s0) as [K1 K2]. split; [exact A|]. split; [auto|]. split; [auto|].
  destruct (Hf s0) as [E|E]; rewrite E in Hi; [exact Hi|discriminate].
Qed.

Lemma Rin_staged_update_own : forall t0 r0 c f, keeps_key f ->
  Rin (onekey (t0, r0)) c (set_ws c (ws_set_staged (c_ws c) (staged_update f t0 r0 (staged (c_ws c))))).
Proof.
  intros t0 r0 c f Hk s' l Hin Hi Hx. simpl in Hin.
  assert (G : forall l0, In s' (staged_update f t0 r0 l0) -> In s' l0 \/ exists s0, In s0 l0 /\ stg_matches t0 r0 s0 = true /\ s' = f s0).
  { induction l0 as [|a l0 IH]; simpl; intro H; [contradiction|]. destruct (stg_matches t0 r0 a) eqn:E.
    - destruct H as [H|H]; [right; exists a; auto|left; right; exact H].
    - destruct H as [H|H]; [left; left; exact H|]. destruct (IH H) as [A|[s0 [A [B C]]]]; [left; right; exact A|right; exists s0; auto]. }
  destruct (G _ Hin) as [A|[s0 [A [B ->]]]]; [exists s'; auto|].
  exfalso. apply Hx. destruct (Hk s0) as [K1 K2]. rewrite K1, K2. apply stg_matches_eq in B. destruct B; subst. reflexivity.
Qed.

Lemma Rin_remove : forall X c t r, Rin X c (set_ws c (ws_remove_staged_task (c_ws c) t r)).
Proof. intros X c t r s' l Hin Hi _. simpl in Hin. exists s'. split; [eapply staged_remove_task_incl; exact Hin|auto]. Qed.

Lemma Rin_add : forall X c x, s_items x = None -> Rin X c (set_ws c (ws_add_staged (c_ws c) x)).
Proof.
  intros X c x Hx s' l Hin Hi _. simpl in Hin. apply in_app_or in Hin. destruct Hin as [A|[A|[]]]; [exists s'; auto|].
  subst s'. rewrite Hx in Hi. discriminate.
Qed.

Section InFrame.
Variable ev : string -> dict -> evalres.
Variable X : string * nat -> Prop.

Ltac ileaf0 :=
  first [ solve [apply Rin_same_staged; simpl; first [reflexivity|apply staged_update_rec]]
        | solve [apply Rin_remove]
        | solve [apply Rin_add; reflexivity]
        | solve [apply Rin_staged_update; split; [intro; split; reflexivity|intro; simpl; first [left; reflexivity|right; reflexivity]]] ].
Ltac pleaf :=
  first [ solve [apply (preserves_modws (Rin X)); intro; ileaf0]
        | solve [apply (preserves_modify (Rin X)); intro; apply Rin_same_staged;
                 first [reflexivity|match goal with |- context [if ?b then _ else _] => destruct b end; reflexivity]]
        | assumption ].
Ltac leaf :=
  first [ solve [apply (vp_modws (Rin X)); intro; ileaf0]
        | solve [apply (vp_modify (Rin X)); intro; apply Rin_same_staged;
                 first [reflexivity|match goal with |- context [if ?b then _ else _] => destruct b end; reflexivity]]
        | assumption ].
Ltac walk := sw (Rin_refl X) (Rin_trans X) pleaf leaf.

Lemma in_of_stg : forall A (m : M A), vpres Rstg m -> vpres (Rin X) m.
Proof. intros A m H c c' a E. apply Rin_same_staged. exact (H _ _ _ E). Qed.
Lemma in_of_lt : forall A (m : M A), vpres Rlt m -> vpres (Rin X) m.
Proof. intros A m H c c' a E. apply Rin_same_staged. apply Rlt_Rstg. exact (H _ _ _ E). Qed.
Lemma pin_of_lt : forall A (m : M A), preserves Rlt m -> preserves (Rin X) m.
Proof. intros A m H c c' a E. apply Rin_same_staged. apply Rlt_Rstg. exact (H _ _ _ E). Qed.

Lemma in_wf_task_event : forall t route st, vpres (Rin X) (wf_task_event_M t route st).
Proof.
  intros t route st c c' a H. unfold wf_task_event_M in H.
  destruct (wf_process_task_event (c_graph c) (c_ws c) t route st) as [[new unr]|e]; inversion H; subst.
  apply Rin_same_staged. reflexivity.
Qed.
Lemma in_add_task_state : forall t rt ins prev, vpres (Rin X) (add_task_state ev t rt ins prev).
Proof.
  intros t rt ins prev c c' idx H. destruct (add_task_state_eff ev _ _ _ _ _ _ _ H) as [cm [retry [L [_ [-> _]]]]].
  apply Rin_same_staged. simpl. apply L.
Qed.

Lemma in_process_transition : forall t route idx ts ctx e, vpres (Rin X) (process_transition ev t route idx ts ctx e).
Proof.
  intros t route idx ts ctx e. unfold process_transition.
  pose proof (fun e' t' r' tr => in_of_lt _ _ (vlt_log_error e' t' r' tr)) as H1.
  pose proof (fun es t' r' tr => in_of_lt _ _ (vlt_log_errors es t' r' tr)) as H2.
  pose proof (in_of_lt _ _ vlt_request_failed) as H3.
  pose proof (fun ts' e' c' => in_of_lt _ _ (vlt_finalize_context ev ts' e' c')) as H4.
  pose proof (fun i => in_of_stg _ _ (vs_get_rec i)) as H5.
  pose proof (fun i f => in_of_stg _ _ (vs_upd_rec i f)) as H6.
  pose proof (fun e' r' => in_of_stg _ _ (vs_evaluate_route e' r')) as H7.
  assert (H8 : forall i f, preserves (Rin X) (upd_rec i f)).
  { intros i f c c' a E. apply Rin_same_staged. exact (ps_upd_rec i f _ _ _ E). }
  sw (Rin_refl X) (Rin_trans X) ltac:(first [pleaf|apply H8]) ltac:(first [leaf|apply H1|apply H2|apply H3|apply H4|apply H5|apply H6|apply H7]).
Qed.

Lemma in_unstage : forall t route evt s0, vpres (Rin X) (uts_unstage t route evt s0).
Proof. intros; unfold uts_unstage; walk. Qed.
Lemma in_logfail : forall t evt, vpres (Rin X) (uts_logfail t evt).
Proof.
  intros t evt c c' a H. apply Rin_same_staged. unfold uts_logfail in H.
  destruct (status_eqb (ev_status evt) S_FAILED); [|inversion H; reflexivity].
  apply log_entry_error_eff in H. destruct H as [_ [W _]]. rewrite W. reflexivity.
Qed.
Lemma in_setst : forall i ns, vpres (Rin X) (uts_setst i ns).
Proof. intros i ns. apply in_of_stg. unfold uts_setst, set_rec_status. destruct ns; [|apply vp_ret; apply Rstg_refl].
  apply vp_modws. intro; unfold Rstg; simpl; apply staged_update_rec. Qed.
Lemma in_retrying : forall t route idx r ns, vpres (Rin X) (uts_retrying t route idx r ns).
Proof. intros; unfold uts_retrying. pose proof (fun i f => in_of_stg _ _ (vs_upd_rec i f)) as H6. sw (Rin_refl X) (Rin_trans X) pleaf ltac:(first [leaf|apply H6]). Qed.
Lemma in_completion : forall t route evt ts idx ns o0, vpres (Rin X) (uts_completion ev t route evt ts idx ns o0).
Proof.
  intros; unfold uts_completion.
  pose proof (fun e' t' r' tr => in_of_lt _ _ (vlt_log_error e' t' r' tr)) as H1.
  pose proof (in_of_lt _ _ vlt_request_failed) as H3.
  pose proof (fun i => in_of_stg _ _ (vs_get_rec i)) as H5.
  pose proof (fun i => in_of_lt _ _ (vlt_get_task_context i)) as H7.
  assert (H8 : forall r ctx, preserves (Rin X) (evaluate_task_retry ev r ctx)).
  { intros r ctx. apply (state_pure_preserves _ (Rin_refl X)). apply evaluate_task_retry_pure. }
  sw (Rin_refl X) (Rin_trans X) ltac:(first [pleaf|apply H8|apply (preserves_ret _ (Rin_refl X))])
     ltac:(first [leaf|apply H1|apply H3|apply H5|apply H7]).
Qed.
Lemma in_queue : forall t route idx ts o n compl, vpres (Rin X) (uts_queue ev t route idx ts o n compl).
Proof.
  intros; unfold uts_queue.
  pose proof (in_process_transition t route idx ts) as H1.
  pose proof (fun i => in_of_stg _ _ (vs_get_rec i)) as H5.
  pose proof (fun i f => in_of_stg _ _ (vs_upd_rec i f)) as H6.
  sw (Rin_refl X) (Rin_trans X) pleaf ltac:(first [leaf|apply H1|apply H5|apply H6]).
Qed.
Lemma in_sel1 : forall t s0 e0, vpres (Rin X) (uts_sel1 ev t s0 e0).
Proof. intros; unfold uts_sel1, uts_need_staged. pose proof in_add_task_state as H. sw (Rin_refl X) (Rin_trans X) pleaf ltac:(first [leaf|apply H]). Qed.
Lemma in_sel2 : forall t evt s0 r1 i, vpres (Rin X) (uts_sel2 ev t evt s0 r1 i).
Proof. intros; unfold uts_sel2, uts_need_staged. pose proof in_add_task_state as H. sw (Rin_refl X) (Rin_trans X) pleaf ltac:(first [leaf|apply H]). Qed.
Lemma in_item_not : forall t route evt s0, not_item evt -> vpres (Rin X) (uts_item t route evt s0).
Proof.
  intros t route evt s0 Hn. unfold uts_item. destruct s0; [|apply (vp_ret _ (Rin_refl X))].
  destruct evt; try apply (vp_ret _ (Rin_refl X)). destruct Hn.
Qed.
Lemma in_ensure_ws : vpres (Rin X) (ensure_ws ev).
Proof.
  unfold ensure_ws.
  pose proof (fun a b c' d => pin_of_lt _ _ (lt_render_input ev a b c' d)) as P1.
  pose proof (fun a b c' d => pin_of_lt _ _ (lt_render_vars ev a b c' d)) as P2.
  pose proof (fun es t' r' tr => in_of_lt _ _ (vlt_log_errors es t' r' tr)) as H2.
  pose proof (in_of_lt _ _ vlt_request_failed) as H3.
  assert (Q1 : forall a b c' d, vpres (Rin X) (render_input ev a b c' d)) by (intros; apply vp_of_pres; apply P1).
  assert (Q2 : forall a b c' d, vpres (Rin X) (render_vars ev a b c' d)) by (intros; apply vp_of_pres; apply P2).
  sw (Rin_refl X) (Rin_trans X) ltac:(first [pleaf|apply P1|apply P2]) ltac:(first [leaf|apply H2|apply H3|apply Q1|apply Q2]).
Qed.

End InFrame.

Section InBody.
Variable ev : string -> dict -> evalres.

Lemma engine_event_not_item : forall n e, engine_event n = Some e -> not_item e.
Proof. intros n e H. unfold engine_event in H. destruct (aget String.eqb n ENGINE_EVENT_MAP) as [[nm st]|]; inversion H; exact I. Qed.

Section WithRec.
Variable rec : string -> nat -> event -> M unit.
Hypothesis Hrec : forall t r e, not_item e -> vpres (Rin nokey) (rec t r e).

Lemma in_tail : forall X t route ts idx o n compl, vpres (Rin X) (uts_tail ev rec t route ts idx o n compl).
Proof.
  intros X t route ts idx o n compl. unfold uts_tail.
  assert (G : vpres (Rin X)
            (queue <- uts_queue ev t route idx ts o n compl ;;
             r <- get_rec idx ;;
             st <- match r_status r with Some s => ret s | None => raise (exn_key "status") end ;;
             unreachable <- wf_task_event_M t route st ;;
             log_unreachable unreachable ;;;
             forM_ queue (uts_call rec) ;;;
             (w <- getws ;; (if status_in (wstatus w) COMPLETED_STATUSES then upd_rec idx (fun r0 => r_set_term r0 true) else ret tt)))).
  { apply (vp_bind _ (Rin_trans X)); [apply in_queue|intro queue].
    apply (vp_bind _ (Rin_trans X)); [apply in_of_stg; apply vs_get_rec|intro r].
    apply (vp_bind _ (Rin_trans X)); [destruct (r_status r); [apply (vp_ret _ (Rin_refl _))|apply vp_raise]|intro st].
    apply (vp_bind _ (Rin_trans X)); [apply in_wf_task_event|intro unr].
    apply (vp_bind _ (Rin_trans X)); [apply in_of_lt; apply vlt_log_unreachable|intros _].
    apply (vp_bind _ (Rin_trans X)).
    - apply (vp_forM _ (Rin_refl _) (Rin_trans _)). intros [nn rt]. unfold uts_call.
      destruct (engine_event nn) as [e|] eqn:E; [|apply vp_raise].
      intros c c' a H. apply Rin_weaken. exact (Hrec nn rt e (engine_event_not_item _ _ E) _ _ _ H).
    - intros _. apply (vp_bind _ (Rin_trans X)); [apply (vp_getws _ (Rin_refl _))|intro w].
      destruct (status_in (wstatus w) COMPLETED_STATUSES); [apply in_of_stg; apply vs_upd_rec|apply (vp_ret _ (Rin_refl _))]. }
  destruct compl as [[ctx [|]]|]; [|exact G|exact G].
  intros c c' a H. apply Rin_weaken. exact (Hrec t route retry_event I _ _ _ H).
Qed.

Lemma in_machine : forall X t route evt ts idx, vpres (Rin X) (uts_machine ev rec t route evt ts idx).
Proof.
  intros X t route evt ts idx. unfold uts_machine.
  apply (vp_bind _ (Rin_trans X)); [apply in_of_stg; apply vs_get_rec|intro r].
  apply (vp_bind _ (Rin_trans X)); [apply (vp_getws _ (Rin_refl _))|intro w].
  apply (vp_bind _ (Rin_trans X)); [apply (vp_lift_res _ (Rin_refl _))|intro ns].
  apply (vp_bind _ (Rin_trans X)); [apply in_setst|intros _].
  apply (vp_bind _ (Rin_trans X)); [apply in_of_stg; apply vs_get_rec|intro r'].
  apply (vp_bind _ (Rin_trans X)); [apply in_retrying|intros _].
  apply (vp_bind _ (Rin_trans X)); [apply in_completion|intro compl]. apply in_tail.
Qed.

(* the part of the call after the item status was recorded *)
Definition after_item (t : string) (route : nat) (evt : event) (ts : task_spec) (idx : nat) : M unit :=
  uts_logfail t evt ;;; uts_machine ev rec t route evt ts idx.

Lemma in_after_item : forall X t route evt ts idx, vpres (Rin X) (after_item t route evt ts idx).
Proof. intros. unfold after_item. apply (vp_bind _ (Rin_trans X)); [apply in_logfail|intros _; apply in_machine]. Qed.

Lemma in_main : forall X t route evt ts s0 e0, vpres (Rin X) (uts_item t route evt s0) ->
  vpres (Rin X) (uts_main ev rec t route evt ts s0 e0).
Proof.
  intros X t route evt ts s0 e0 Hitem. unfold uts_main.
  apply (vp_bind _ (Rin_trans X)); [apply in_sel1|intro idx1].
  apply (vp_bind _ (Rin_trans X)); [apply in_of_stg; apply vs_get_rec|intro r1].
  apply (vp_bind _ (Rin_trans X)); [apply in_sel2|intro idx].
  apply (vp_bind _ (Rin_trans X)); [apply in_unstage|intros _].
  apply (vp_bind _ (Rin_trans X)); [exact Hitem|intros _].
  apply (in_after_item X t route evt ts idx).
Qed.

Lemma in_body : forall X t route evt, (forall s0, vpres (Rin X) (uts_item t route evt s0)) ->
  vpres (Rin X) (uts_body ev rec t route evt).
Proof.
  intros X t route evt Hitem. unfold uts_body.
  apply (vp_bind _ (Rin_trans X)); [apply in_ensure_ws|intros _].
  apply (vp_bind _ (Rin_trans X)); [apply (vp_get _ (Rin_refl _))|intro c0].
  destruct (negb (g_has_task (c_graph c0) t)); [apply vp_raise|]. cbv zeta.
  apply (vp_bind _ (Rin_trans X)); [destruct (spec_get_task (c_spec c0) t); [apply (vp_ret _ (Rin_refl _))|apply vp_raise]|intro ts].
  destruct (get_staged_task (c_ws c0) t route), (ws_task_idx (c_ws c0) t route); try (apply in_main; apply Hitem). apply vp_raise.
Qed.

End WithRec.

Lemma in_item_own : forall t route evt s0, vpres (Rin (onekey (t, route))) (uts_item t route evt s0).
Proof.
  intros t route evt s0. unfold uts_item. destruct s0 as [s|]; [|apply (vp_ret _ (Rin_refl _))].
  destruct evt; try apply (vp_ret _ (Rin_refl _)). destruct (s_items s); [|apply (vp_ret _ (Rin_refl _))].
  destruct (Nat.ltb item (length l)); [|apply vp_raise].
  apply vp_modws. intro c. apply Rin_staged_update_own. intro; split; reflexivity.
Qed.

(* no item event: no item table changes at all; an item event: only the table of its own key *)
Lemma in_fuel_not_item : forall fuel t route evt, not_item evt ->
  vpres (Rin nokey) (update_task_state_fuel ev fuel t route evt).
Proof.
  induction fuel as [|fuel IH]; intros t route evt Hn; [apply vp_raise|]. rewrite uts_unfold.
  apply in_body; [exact IH|]. intro s0. apply in_item_not. exact Hn.
Qed.

Theorem in_update_task_state : forall t route evt,
  vpres (Rin (onekey (t, route))) (update_task_state ev t route evt).
Proof.
  intros t route evt. unfold update_task_state. rewrite uts_unfold.
  apply in_body; [intros; apply in_fuel_not_item; assumption|]. intro s0. apply in_item_own.
Qed.

Theorem in_update_task_state_not_item : forall t route evt, not_item evt ->
  vpres (Rin nokey) (update_task_state ev t route evt).
Proof. intros. unfold update_task_state. apply in_fuel_not_item. assumption. Qed.

End InBody.

(* ================================================================== D. only the first entry of a key has an item table *)

Definition skey (s : stg) : string * nat := (s_id s, s_route s).

Fixpoint first_only (l : list stg) : Prop :=
  match l with
  | [] => True
  | s :: l' => (forall s2, In s2 l' -> skey s2 = skey s -> s_items s2 = None) /\ first_only l'
  end.

Lemma matches_skey : forall t r s, stg_matches t r s = true <-> skey s = (t, r).
Proof.
  intros t r s. unfold skey. split; [intro H; apply stg_matches_eq in H; destruct H; congruence|].
  intro H; inversion H; subst. apply stg_matches_self.
Qed.

Lemma first_only_find : forall l s, first_only l -> In s l -> s_items s <> None ->
  find (stg_matches (s_id s) (s_route s)) l = Some s.
Proof.
  induction l as [|a l IH]; intros s H Hin Hi; [destruct Hin|]. destruct H as [Ha Hl]. simpl.
  destruct (stg_matches (s_id s) (s_route s) a) eqn:E.
  - destruct Hin as [->|Hin]; [reflexivity|]. exfalso. apply Hi. apply (Ha s Hin). apply matches_skey in E. symmetry; exact E.
  - destruct Hin as [->|Hin]; [rewrite stg_matches_self in E; discriminate|]. apply IH; assumption.
Qed.

Lemma first_only_remove : forall t r l, first_only l -> first_only (staged_remove_first t r l).
Proof.
  induction l as [|a l IH]; simpl; intros H; [exact I|]. destruct H as [Ha Hl]. destruct (stg_matches t r a); [exact Hl|].
  split; [|apply IH; exact Hl]. intros s2 Hin. apply Ha. eapply In_staged_remove_first; exact Hin.
Qed.

Lemma first_only_add : forall l x, s_items x = None -> first_only l -> first_only (app l [x]).
Proof.
  induction l as [|a l IH]; simpl; intros x Hx H; [split; [intros s2 []|exact I]|]. destruct H as [Ha Hl].
  split; [|apply IH; assumption]. intros s2 Hin Hk. apply in_app_or in Hin. destruct Hin as [Hin|[<-|[]]]; [apply Ha; assumption|exact Hx].
Qed.

Lemma In_staged_update_m : forall f t r l s, In s (staged_update f t r l) ->
  In s l \/ exists s0, In s0 l /\ stg_matches t r s0 = true /\ s = f s0.
Proof.
  induction l as [|a l IH]; simpl; intros s H; [contradiction|]. destruct (stg_matches t r a) eqn:E.
  - destruct H as [H|H]; [right; exists a; auto|left; right; exact H].
  - destruct H as [H|H]; [left; left; exact H|]. destruct (IH _ H) as [A|[s0 [A [B C]]]]; [left; right; exact A|right; exists s0; auto].
Qed.

Lemma first_only_update : forall f t r l, keeps_key f -> first_only l -> first_only (staged_update f t r l).
Proof.
  intros f t r l Hk. induction l as [|a l IH]; simpl; intros H; [exact I|]. destruct H as [Ha Hl].
  destruct (stg_matches t r a) eqn:E.
  - split; [|exact Hl]. intros s2 Hin Hs. apply Ha; [exact Hin|]. unfold skey in *. destruct (Hk a) as [K1 K2]. congruence.
  - split; [|apply IH; exact Hl]. intros s2 Hin Hs.
    destruct (In_staged_update_m _ _ _ _ _ Hin) as [A|[s0 [A [M ->]]]]; [apply Ha; assumption|].
    exfalso. apply matches_skey in M. unfold skey in *. destruct (Hk s0) as [K1 K2].
    assert (X : stg_matches t r a = true) by (apply matches_skey; unfold skey; congruence). congruence.
Qed.

Definition fo (c : cstate) : Prop := first_only (staged (c_ws c)).
Definition Rfo (c c' : cstate) : Prop := fo c -> fo c'.
Lemma Rfo_refl : forall c, Rfo c c. Proof. intros c H; exact H. Qed.
Lemma Rfo_trans : forall a b c, Rfo a b -> Rfo b c -> Rfo a c. Proof. unfold Rfo; auto. Qed.

Lemma fo_same : forall c c', staged (c_ws c') = staged (c_ws c) -> Rfo c c'.
Proof. intros c c' H X. unfold fo in *. rewrite H. exact X. Qed.
Lemma fo_update : forall c f t r, keeps_key f -> Rfo c (set_ws c (ws_set_staged (c_ws c) (staged_update f t r (staged (c_ws c))))).
Proof. intros c f t r Hk X. unfold fo in *. simpl. apply first_only_update; assumption. Qed.
Lemma fo_remove : forall c t r, Rfo c (set_ws c (ws_remove_staged_task (c_ws c) t r)).
Proof.
  intros c t r X. unfold fo in *. simpl. unfold ws_remove_staged_task. destruct (get_staged_task (c_ws c) t r); [|exact X].
  destruct (items_any_active s); [exact X|]. simpl. apply first_only_remove. exact X.
Qed.
Lemma fo_add : forall c x, s_items x = None -> Rfo c (set_ws c (ws_add_staged (c_ws c) x)).
Proof. intros c x Hx X. unfold fo in *. simpl. apply first_only_add; assumption. Qed.

Section FirstOnly.
Variable ev : string -> dict -> evalres.

Ltac fleaf0 :=
  first [ solve [apply fo_same; simpl; first [reflexivity|apply staged_update_rec]]
        | solve [apply fo_remove]
        | solve [apply fo_add; reflexivity]
        | solve [apply fo_update; intro; split; reflexivity] ].
Ltac pleaf :=
  first [ solve [apply (preserves_modws Rfo); intro; fleaf0]
        | solve [apply (preserves_modify Rfo); intro; apply fo_same;
                 first [reflexivity|match goal with |- context [if ?b then _ else _] => destruct b end; reflexivity]]
        | assumption
        | match goal with IH : forall _ _ _, vpres _ _ |- _ => apply IH end ].
Ltac leaf :=
  first [ solve [apply (vp_modws Rfo); intro; fleaf0]
        | solve [apply (vp_modify Rfo); intro; apply fo_same;
                 first [reflexivity|match goal with |- context [if ?b then _ else _] => destruct b end; reflexivity]]
        | assumption
        | match goal with IH : forall _ _ _, vpres _ _ |- _ => apply IH end ].

Lemma fo_of_lt : forall A (m : M A), vpres Rlt m -> vpres Rfo m.
Proof. intros A m H c c' a E. apply fo_same. apply Rlt_Rstg. exact (H _ _ _ E). Qed.
Lemma pfo_of_lt : forall A (m : M A), preserves Rlt m -> preserves Rfo m.
Proof. intros A m H c c' a E. apply fo_same. apply Rlt_Rstg. exact (H _ _ _ E). Qed.
Lemma fo_of_stg : forall A (m : M A), vpres Rstg m -> vpres Rfo m.
Proof. intros A m H c c' a E. apply fo_same. exact (H _ _ _ E). Qed.

Lemma fo_wf_task_event : forall t route st, vpres Rfo (wf_task_event_M t route st).
Proof.
  intros t route st c c' a H. unfold wf_task_event_M in H.
  destruct (wf_process_task_event (c_graph c) (c_ws c) t route st) as [[new unr]|e]; inversion H; subst. apply fo_same; reflexivity.
Qed.
Lemma fo_add_task_state : forall t rt ins prev, vpres Rfo (add_task_state ev t rt ins prev).
Proof.
  intros t rt ins prev c c' idx H. destruct (add_task_state_eff ev _ _ _ _ _ _ _ H) as [cm [retry [L [_ [-> _]]]]].
  apply fo_same. simpl. apply L.
Qed.
Lemma fo_ensure_ws : vpres Rfo (ensure_ws ev).
Proof.
  unfold ensure_ws.
  pose proof (fun a b c' d => pfo_of_lt _ _ (lt_render_input ev a b c' d)) as P1.
  pose proof (fun a b c' d => pfo_of_lt _ _ (lt_render_vars ev a b c' d)) as P2.
  pose proof (fun es t' r' tr => fo_of_lt _ _ (vlt_log_errors es t' r' tr)) as H2.
  pose proof (fo_of_lt _ _ vlt_request_failed) as H3.
  assert (Q1 : forall a b c' d, vpres Rfo (render_input ev a b c' d)) by (intros; apply vp_of_pres; apply P1).
  assert (Q2 : forall a b c' d, vpres Rfo (render_vars ev a b c' d)) by (intros; apply vp_of_pres; apply P2).
  sw Rfo_refl Rfo_trans ltac:(first [pleaf|apply P1|apply P2]) ltac:(first [leaf|apply H2|apply H3|apply Q1|apply Q2]).
Qed.

Lemma fo_uts_fuel : forall fuel t route evt, vpres Rfo (update_task_state_fuel ev fuel t route evt).
Proof.
  induction fuel as [|fuel IH]; intros t route evt; [apply vp_raise|]. simpl.
  pose proof fo_ensure_ws as E0. pose proof fo_add_task_state as E1. pose proof fo_wf_task_event as E2.
  pose proof (fun e' t' r' tr => fo_of_lt _ _ (vlt_log_error e' t' r' tr)) as H1.
  pose proof (fun es t' r' tr => fo_of_lt _ _ (vlt_log_errors es t' r' tr)) as H2.
  pose proof (fo_of_lt _ _ vlt_request_failed) as H3.
  pose proof (fun ts' e' c' => fo_of_lt _ _ (vlt_finalize_context ev ts' e' c')) as H4.
  pose proof (fun i => fo_of_stg _ _ (vs_get_rec i)) as H5.
  pose proof (fun i f => fo_of_stg _ _ (vs_upd_rec i f)) as H6.
  pose proof (fun e' r' => fo_of_stg _ _ (vs_evaluate_route e' r')) as H7.
  pose proof (fun i => fo_of_lt _ _ (vlt_get_task_context i)) as H8.
  pose proof (fun l => fo_of_lt _ _ (vlt_log_unreachable l)) as H9.
  pose proof (fun m t' r' tr res => fo_of_lt _ _ (vp_of_pres _ _ _ (lt_log_entry_error m t' r' tr res))) as H10.
  assert (P8 : forall i f, preserves Rfo (upd_rec i f)).
  { intros i f c c' a E. apply fo_same. exact (ps_upd_rec i f _ _ _ E). }
  assert (P9 : forall r ctx, preserves Rfo (evaluate_task_retry ev r ctx)).
  { intros r ctx. apply (state_pure_preserves _ Rfo_refl). apply evaluate_task_retry_pure. }
  assert (S1 : forall i s, vpres Rfo (set_rec_status i s)).
  { intros i s. apply fo_of_stg. unfold set_rec_status. apply vp_modws. intro; unfold Rstg; simpl; apply staged_update_rec. }
  sw Rfo_refl Rfo_trans ltac:(first [pleaf|apply P8|apply P9|apply (preserves_ret _ Rfo_refl)])
     ltac:(first [leaf|apply E0|apply E1|apply E2|apply H1|apply H2|apply H3|apply H4|apply H5|apply H6|apply H7|apply H8|apply H9|apply H10|apply S1]).
Qed.

Theorem fo_update_task_state : forall t route evt, vpres Rfo (update_task_state ev t route evt).
Proof. intros; apply fo_uts_fuel. Qed.

End FirstOnly.

(* ================================================================== E. rendering a task for an offer *)

Section Render.
Variable ev : string -> dict -> evalres.

Lemma state_pure_render_task : forall ts ctx, state_pure (render_task ev ts ctx).
Proof.
  intros ts ctx. unfold render_task. destruct (ts_with ts) as [its|].
  - apply state_pure_bind; [apply evaluate_pure|intro items]. destruct items; try apply state_pure_raise.
    apply state_pure_mapM. intros [idx item].
    apply state_pure_bind; [apply evaluate_pure|intro]. apply state_pure_bind; [apply evaluate_pure|intro]. apply state_pure_ret.
  - apply state_pure_bind; [apply evaluate_pure|intro]. apply state_pure_bind; [apply evaluate_pure|intro]. apply state_pure_ret.
Qed.

Lemma map_fst_enumerate : forall A (l : list A), map fst (enumerate l) = seq 0 (length l).
Proof. intros. unfold enumerate. apply map_fst_enumerate_from. Qed.

(* the actions rendered for a with-items task carry the item indices 0 .. n-1 in order; those of a plain task none *)
Lemma render_task_items : forall ts ctx, vpost (fun acts =>
    match ts_with ts with
    | Some _ => map a_item acts = map Some (seq 0 (length acts))
    | None => forall a, In a acts -> a_item a = None
    end) (render_task ev ts ctx).
Proof.
  intros ts ctx. unfold render_task. destruct (ts_with ts) as [its|].
  - apply vpost_bind; intro items. destruct items; try apply vpost_raise.
    eapply vpost_weaken; [|apply (vpost_mapM _ _ (fun (p : nat * json) (a : action_spec) => a_item a = Some (fst p)))].
    + intros acts H.
      assert (G : map a_item acts = map Some (map fst (enumerate l))).
      { induction H as [|p a ps az Hp Hr IH]; [reflexivity|]. simpl. rewrite Hp, IH. reflexivity. }
      rewrite G, map_fst_enumerate. f_equal. f_equal.
      assert (L : length acts = length (enumerate l)).
      { clear G. induction H as [|p a ps az Hp Hr IH]; [reflexivity|simpl; rewrite IH; reflexivity]. }
      rewrite L. unfold enumerate. rewrite <- (map_length fst), map_fst_enumerate_from, seq_length. reflexivity.
    + intros [idx item]. apply vpost_bind; intro x1. apply vpost_bind; intro x2. apply vpost_ret. reflexivity.
  - apply vpost_bind; intro x1. apply vpost_bind; intro x2. apply vpost_ret. intros a0 [<-|[]]. reflexivity.
Qed.

End Render.

Lemma find_staged_update_same : forall f t r l, keeps_key f ->
  find (stg_matches t r) (staged_update f t r l) = option_map f (find (stg_matches t r) l).
Proof.
  intros f t r l Hk. induction l as [|a l IH]; [reflexivity|]. simpl. destruct (stg_matches t r a) eqn:E; simpl.
  - rewrite (matches_keeps f t r a Hk), E. reflexivity.
  - rewrite E. exact IH.
Qed.

(* the only thing rendering an offer writes: a fresh item table for the entry of its own key, when there was none *)
Definition init_of (t : string) (r : nat) (c c' : cstate) : Prop :=
  c' = c \/
  exists s n, get_staged_task (c_ws c) t r = Some s /\ (s_items s = None \/ s_items s = Some []) /\
    c' = set_ws c (ws_set_staged (c_ws c)
                     (staged_update (fun e => s_set_items e (Some (repeat S_UNSET n))) t r (staged (c_ws c)))).

Definition offer_post (s : stg) (c' : cstate) (o : offer) : Prop :=
  o_id o = s_id s /\ o_route o = s_route s /\
  match o_items_count o with
  | None => forall a, In a (o_actions o) -> a_item a = None
  | Some n => exists l conc conc' actions,
      items_of c' (s_id s) (s_route s) = Some l /\ length actions = n /\
      map a_item actions = map Some (seq 0 n) /\
      choose_items conc (combine actions l) = Val (o_actions o, conc') /\ o_concurrency o = Some conc' /\
      (n <> 0 -> o_actions o <> [])
  end.

Section NextTask.
Variable ev : string -> dict -> evalres.

Lemma ntf_eff : forall s c c' r, next_task_for ev s c = (c', r) ->
  init_of (s_id s) (s_route s) c c' /\ forall o, r = Val (Some o) -> offer_post s c' o.
Proof.
  intros s c c' r H. unfold next_task_for in H. unfold bind at 1 in H. unfold get at 1 in H.
  apply bind_pure_inv in H.
  2: { destruct (get_staged_task (c_ws c) (s_id s) (s_route s)); [apply state_pure_get_task_context|].
       destruct (ws_task_entry (c_ws c) (s_id s) (s_route s)); [apply state_pure_get_task_context|].
       destruct (nth_error (contexts (c_ws c)) 0); [apply state_pure_ret|apply state_pure_raise]. }
  destruct H as [[ctx0 [_ H]]|[e [_ [-> ->]]]]; [|split; [left; reflexivity|discriminate]].
  cbv zeta in H.
  destruct (spec_get_task (c_spec c) (s_id s)) as [ts|] eqn:Ets; [|inversion H; subst; split; [left; reflexivity|discriminate]].
  unfold bind at 1 in H. unfold ret at 1 in H.
  apply bind_pure_inv in H; [|apply state_pure_render_task].
  destruct H as [[acts [Ea H]]|[e [_ [-> ->]]]]; [|split; [left; reflexivity|discriminate]].
  pose proof (render_task_items ev ts _ _ _ _ Ea) as Hacts.
  apply bind_pure_inv in H.
  2: { destruct (truthy (ts_delay ts)); [|apply state_pure_ret].
       apply state_pure_bind; [destruct (ts_delay ts); first [apply evaluate_pure|apply state_pure_ret]|intro d].
       destruct (py_is_int d); [apply state_pure_ret|apply state_pure_raise]. }
  destruct H as [[dl [_ H]]|[e [_ [-> ->]]]]; [|split; [left; reflexivity|discriminate]].
  destruct (ts_with ts) as [its|] eqn:Ew.
  2: { inversion H; subst. split; [left; reflexivity|]. intros o Ho. inversion Ho as [Ho'].
       destruct acts as [|a0 acts']; [discriminate|]. inversion Ho'; subst o. simpl. repeat split; try reflexivity. exact Hacts. }
  apply bind_pure_inv in H; [|apply evaluate_pure].
  destruct H as [[conc [_ H]]|[e [_ [-> ->]]]]; [|split; [left; reflexivity|discriminate]].
  unfold bind at 1 in H. unfold getws at 1 in H.
  destruct (get_staged_task (c_ws c) (s_id s) (s_route s)) as [s'|] eqn:Eg;
    [|unfold bind, raise in H; inversion H; subst; split; [left; reflexivity|discriminate]].
  (* the table the items are chosen from *)
  assert (T : exists c1 l, init_of (s_id s) (s_route s) c c1 /\ items_of c1 (s_id s) (s_route s) = Some l /\
              (bind (lift_res (choose_items conc (combine acts l)))
                    (fun chosen => let '(acts0, conc') := chosen in
                       ret match acts0, length acts with
                           | [], S _ => None
                           | _, _ => Some {| o_id := s_id s; o_route := s_route s;
                                             o_ctx := merge_dicts (dset "__current_task" (current_task_json (s_id s) (s_route s) None) ctx0) (state_ctx (c_ws c));
                                             o_actions := acts0;
                                             o_delay := match s_retry s with
                                                        | Some rr => Some match rr_delay rr with Some d => if truthy d then d else JInt 0 | None => JInt 0 end
                                                        | None => dl end;
                                             o_items_count := Some (length acts); o_concurrency := Some conc' |}
                           end)) c1 = (c', r)).
  { destruct (s_items s') as [[|x xs]|] eqn:Ei.
    - (* Some [] : initialise *)
      unfold bind at 1 in H. unfold bind at 1 in H. unfold modws at 1 in H. unfold ret at 1 in H.
      eexists; exists (repeat S_UNSET (length acts)). split; [right; exists s', (length acts); split; [exact Eg|split; [right; exact Ei|reflexivity]]|].
      split; [|exact H]. unfold items_of, get_staged_task. simpl. rewrite find_staged_update_same by (intro; split; reflexivity).
      unfold get_staged_task in Eg. rewrite Eg. reflexivity.
    - unfold bind at 1 in H. unfold ret at 1 in H. exists c, (x :: xs). split; [left; reflexivity|].
      split; [unfold items_of; rewrite Eg; exact Ei|exact H].
    - unfold bind at 1 in H. unfold bind at 1 in H. unfold modws at 1 in H. unfold ret at 1 in H.
      eexists; exists (repeat S_UNSET (length acts)). split; [right; exists s', (length acts); split; [exact Eg|split; [left; exact Ei|reflexivity]]|].
      split; [|exact H]. unfold items_of, get_staged_task. simpl. rewrite find_staged_update_same by (intro; split; reflexivity).
      unfold get_staged_task in Eg. rewrite Eg. reflexivity. }
  destruct T as [c1 [l [Hinit [Hl H']]]]. clear H.
  unfold bind in H'. destruct (choose_items conc (combine acts l)) as [[acts0 conc']|e] eqn:Ec; simpl in H'.
  - inversion H'; subst c' r. split; [exact Hinit|]. intros o Ho. inversion Ho as [Ho'].
    assert (Ho'' : o = {| o_id := s_id s; o_route := s_route s;
                         o_ctx := merge_dicts (dset "__current_task" (current_task_json (s_id s) (s_route s) None) ctx0) (state_ctx (c_ws c));
                         o_actions := acts0;
                         o_delay := match s_retry s with
                                    | Some rr => Some match rr_delay rr with Some d => if truthy d then d else JInt 0 | None => JInt 0 end
                                    | None => dl end;
                         o_items_count := Some (length acts); o_concurrency := Some conc' |}).
    { destruct acts0; [destruct (length acts); [inversion Ho'; reflexivity|discriminate]|inversion Ho'; reflexivity]. }
    assert (Hne : length acts <> 0 -> acts0 <> []).
    { intros Hn E0. subst acts0. destruct (length acts); [apply Hn; reflexivity|discriminate Ho']. }
    subst o. simpl. split; [reflexivity|]. split; [reflexivity|].
    exists l, conc, conc', acts. repeat split; try assumption; reflexivity.
  - inversion H'; subst. split; [exact Hinit|discriminate].
Qed.

End NextTask.

(* ================================================================== F. what a poll does to staging *)

(* an entry, or the same entry with a fresh item table where it had none *)
Definition rho (s s' : stg) : Prop :=
  s' = s \/ ((s_items s = None \/ s_items s = Some []) /\ exists n, s' = s_set_items s (Some (repeat S_UNSET n))).

Definition Rgn (c c' : cstate) : Prop :=
  c_graph c' = c_graph c /\ c_spec c' = c_spec c /\ c_init c' = c_init c /\
  sequence (c_ws c') = sequence (c_ws c) /\ tasks (c_ws c') = tasks (c_ws c) /\
  (wstatus (c_ws c') = wstatus (c_ws c) \/ wstatus (c_ws c') = S_FAILED) /\
  Forall2 rho (staged (c_ws c)) (staged (c_ws c')).

Lemma rho_refl : forall s, rho s s. Proof. intro; left; reflexivity. Qed.
Lemma rho_trans : forall a b c, rho a b -> rho b c -> rho a c.
Proof.
  intros a b c [->|[Ha [n ->]]] H; [exact H|]. destruct H as [->|[Hb [m ->]]]; [right; split; [exact Ha|exists n; reflexivity]|].
  right. split; [exact Ha|]. exists m. destruct a; reflexivity.
Qed.
Lemma Forall2_rho_refl : forall l, Forall2 rho l l.
Proof. induction l; constructor; [apply rho_refl|assumption]. Qed.
Lemma Forall2_rho_trans : forall a b c, Forall2 rho a b -> Forall2 rho b c -> Forall2 rho a c.
Proof.
  intros a b c H; revert c; induction H as [|x y l l' Hxy Hl IH]; intros c Hc; inversion Hc; subst; constructor;
    [eapply rho_trans; eassumption|apply IH; assumption].
Qed.

Lemma Rgn_refl : forall c, Rgn c c.
Proof. intro c. repeat split; auto. apply Forall2_rho_refl. Qed.
Lemma Rgn_trans : forall a b c, Rgn a b -> Rgn b c -> Rgn a c.
Proof.
  intros a b c (A1 & A2 & A3 & A4 & A5 & A6 & A7) (B1 & B2 & B3 & B4 & B5 & B6 & B7).
  repeat split; try congruence; [|eapply Forall2_rho_trans; eassumption].
  destruct B6 as [B6|B6]; [|right; exact B6]. destruct A6 as [A6|A6]; [left|right]; congruence.
Qed.
Lemma Rlt_Rgn : forall c c', Rlt c c' -> Rgn c c'.
Proof.
  intros c c' (A1 & A2 & A3 & A4 & A5 & A6 & A7 & A8 & A9). repeat split; auto. rewrite A3. apply Forall2_rho_refl.
Qed.
Lemma only_errors_Rgn : forall c c', only_errors c c' -> Rgn c c'.
Proof. intros c c' (A1 & A2 & A3 & A4). unfold Rgn. rewrite A1. repeat split; auto. apply Forall2_rho_refl. Qed.

Lemma Forall2_rho_update : forall t r n l,
  (forall s, find (stg_matches t r) l = Some s -> s_items s = None \/ s_items s = Some []) ->
  Forall2 rho l (staged_update (fun e => s_set_items e (Some (repeat S_UNSET n))) t r l).
Proof.
  intros t r n. induction l as [|a l IH]; intro H; [constructor|]. simpl in *. destruct (stg_matches t r a).
  - constructor; [right; split; [apply H; reflexivity|exists n; reflexivity]|apply Forall2_rho_refl].
  - constructor; [apply rho_refl|apply IH; exact H].
Qed.

Lemma init_of_Rgn : forall t r c c', init_of t r c c' -> Rgn c c'.
Proof.
  intros t r c c' [->|[s [n [Hg [Hi ->]]]]]; [apply Rgn_refl|]. repeat split; auto. simpl.
  apply Forall2_rho_update. intros s0 Hs0. unfold get_staged_task in Hg. rewrite Hg in Hs0. inversion Hs0; subst. exact Hi.
Qed.

(* a table with an entry is stable *)
Lemma rho_key : forall s s', rho s s' -> stg_matches (s_id s) (s_route s) s' = true /\ forall t r, stg_matches t r s' = stg_matches t r s.
Proof. intros s s' [->|[_ [n ->]]]; split; try apply stg_matches_self; try reflexivity. exact (stg_matches_self s). Qed.

Lemma Rgn_items_stable : forall c c' t r x xs, Rgn c c' -> items_of c t r = Some (x :: xs) -> items_of c' t r = Some (x :: xs).
Proof.
  intros c c' t r x xs (_ & _ & _ & _ & _ & _ & F) H. unfold items_of, get_staged_task in *.
  induction F as [|s s' l l' Hr Hl IH]; [discriminate|]. simpl in *. destruct (rho_key _ _ Hr) as [_ K]. rewrite K.
  destruct (stg_matches t r s); [|apply IH; exact H].
  destruct Hr as [->|[[Hn|Hn] _]]; [exact H|rewrite Hn in H; discriminate|rewrite Hn in H; discriminate].
Qed.

Section PollEffect.
Variable ev : string -> dict -> evalres.

Lemma offer_try_items : forall s c c' r, offer_try ev s c = (c', Val r) ->
  Rgn c c' /\ forall o, fst r = Some o -> offer_post s c' o.
Proof.
  intros s c c' r H. unfold offer_try, try_catch in H.
  destruct ((o <- next_task_for ev s ;; ret (o, false)) c) as [c2 [x|e]] eqn:E.
  - inversion H; subst c2 x; clear H. apply bind_val_inv' in E. destruct E as [c3 [o [E1 E2]]]. inversion E2; subst c3 r; clear E2.
    destruct (ntf_eff ev _ _ _ _ E1) as [Hi Ho]. split; [eapply init_of_Rgn; exact Hi|]. intros o' Ho'. simpl in Ho'. subst o. apply Ho; reflexivity.
  - unfold bind in E. destruct (next_task_for ev s c) as [c3 [o|e']] eqn:E1; [inversion E|]. inversion E; subst c3 e'; clear E.
    destruct (ntf_eff ev _ _ _ _ E1) as [Hi _].
    apply bind_val_inv' in H. destruct H as [c4 [u [E4 H]]]. inversion H; subst c4 r; clear H.
    split; [|intros o Ho; discriminate Ho].
    eapply Rgn_trans; [eapply init_of_Rgn; exact Hi|]. apply Rlt_Rgn. exact (vlt_log_error _ _ _ _ _ _ _ E4).
Qed.

Lemma offer_post_stable : forall s c c' o m, Rgn c c' -> o_items_count o = Some (S m) -> offer_post s c o -> offer_post s c' o.
Proof.
  intros s c c' o m R Hm [H1 [H2 H3]]. split; [exact H1|]. split; [exact H2|]. rewrite Hm in *.
  destruct H3 as [l [conc [conc' [acts [Hl [Hlen [Hmap [Hch [Hco Hne]]]]]]]]]. exists l, conc, conc', acts.
  split; [|auto]. destruct l as [|x xs]; [|eapply Rgn_items_stable; eassumption].
  (* an empty table offers nothing: there would be no offer *)
  exfalso. apply Hne; [discriminate|]. rewrite combine_nil in Hch. unfold choose_items in Hch. simpl in Hch.
  destruct conc; inversion Hch; try reflexivity; destruct (Z.ltb _ _); try reflexivity; rewrite firstn_nil; reflexivity.
Qed.


(* what an offer says, read against the state the poll leaves *)
Definition offer_ok (c1 : cstate) (s : stg) (o : offer) : Prop :=
  o_id o = s_id s /\ o_route o = s_route s /\
  match o_items_count o with
  | None => forall a, In a (o_actions o) -> a_item a = None
  | Some O => True
  | Some (S m) => exists l conc conc' actions,
      items_of c1 (s_id s) (s_route s) = Some l /\ length actions = S m /\
      map a_item actions = map Some (seq 0 (S m)) /\
      choose_items conc (combine actions l) = Val (o_actions o, conc') /\ o_concurrency o = Some conc' /\ o_actions o <> []
  end.

Lemma offer_post_ok : forall s c c1 o, Rgn c c1 -> offer_post s c o -> offer_ok c1 s o.
Proof.
  intros s c c1 o R H. destruct (o_items_count o) as [[|m]|] eqn:E.
  - destruct H as [H1 [H2 _]]. unfold offer_ok. rewrite E. auto.
  - pose proof (offer_post_stable s c c1 o m R E H) as [H1 [H2 H3]]. unfold offer_ok. rewrite E in *.
    destruct H3 as [l [conc [conc' [acts [A [B [C [D [F G]]]]]]]]]. split; [exact H1|]. split; [exact H2|].
    exists l, conc, conc', acts. repeat split; try assumption. apply G. discriminate.
  - destruct H as [H1 [H2 H3]]. unfold offer_ok. rewrite E in *. auto.
Qed.

Lemma offers_mapM_items : forall l c c2 rs, mapM (offer_try ev) l c = (c2, Val rs) ->
  Rgn c c2 /\ forall o b, In (Some o, b) rs -> exists s, In s l /\ offer_ok c2 s o.
Proof.
  induction l as [|s l IH]; intros c c2 rs H; simpl in H.
  - inversion H; subst. split; [apply Rgn_refl|intros o b []].
  - apply bind_val_inv' in H. destruct H as [c1 [r [E1 H]]].
    apply bind_val_inv' in H. destruct H as [c3 [rs' [E2 H]]]. inversion H; subst c3 rs; clear H.
    destruct (offer_try_items _ _ _ _ E1) as [R1 P1]. destruct (IH _ _ _ E2) as [R2 P2].
    split; [eapply Rgn_trans; eassumption|]. intros o b [Hin|Hin].
    + exists s. split; [left; reflexivity|]. apply (offer_post_ok s c1 c2 o R2). apply P1. rewrite Hin. reflexivity.
    + destruct (P2 _ _ Hin) as [s' [A B]]. exists s'. split; [right; exact A|exact B].
Qed.

(* get_next_tasks when it returns: staging only gains fresh item tables; every offer is read off a ready entry *)
Lemma gn_items_eff : forall c c1 offers, c_init c = true -> get_next_tasks ev c = (c1, Val offers) ->
  Rgn c c1 /\
  forall o, In o offers -> exists s, In s (staged (c_ws c)) /\ s_ready s = true /\ s_completed s = false /\ offer_ok c1 s o.
Proof.
  intros c c1 offers Hi H. unfold get_next_tasks in H.
  unfold bind at 1 in H. rewrite (ensure_ws_inited ev c Hi) in H.
  unfold bind at 1 in H. unfold getws at 1 in H. cbv zeta in H.
  set (w := c_ws c) in *. set (stasks := staged_filtered w) in *.
  set (rem := if status_eqb (wstatus w) S_FAILED then filter s_run_on_fail stasks else []) in *.
  destruct (negb (status_in (wstatus w) RUNNING_STATUSES) && match rem with [] => true | _ => false end).
  { inversion H; subst. split; [apply Rgn_refl|intros o []]. }
  set (todo := match rem with [] => stasks | _ => rem end) in *.
  assert (Htodo : forall s, In s todo -> In s (staged w) /\ s_ready s = true /\ s_completed s = false).
  { intros s Hs. assert (Hsf : In s stasks).
    { unfold todo in Hs. destruct rem as [|r0 rem0] eqn:Er; [exact Hs|].
      unfold rem in Er. destruct (status_eqb (wstatus w) S_FAILED); [|discriminate].
      rewrite <- Er in Hs. apply filter_In in Hs; tauto. }
    unfold stasks, staged_filtered in Hsf. apply filter_In in Hsf. destruct Hsf as [Hin Hb].
    apply andb_prop in Hb; destruct Hb as [Hr Hc]. apply negb_true_iff in Hc. tauto. }
  apply bind_val_inv' in H. destruct H as [c2 [rs [E2 H]]].
  change (mapM (offer_try ev) todo c = (c2, Val rs)) in E2.
  destruct (offers_mapM_items _ _ _ _ E2) as [R2 P2].
  destruct (existsb snd rs).
  - apply bind_val_inv' in H. destruct H as [c3 [u [E3 H]]]. inversion H; subst c3 offers; clear H. destruct u.
    split; [|intros o []]. eapply Rgn_trans; [exact R2|]. apply Rlt_Rgn. exact (vlt_request_failed _ _ _ E3).
  - inversion H; subst c2 offers; clear H. split; [exact R2|]. intros o Ho. apply In_sort_by in Ho.
    apply in_flat_map in Ho. destruct Ho as [[o' b] [Hin Ho]]. destruct o' as [o'|]; [|destruct Ho]. destruct Ho as [<-|[]].
    destruct (P2 _ _ Hin) as [s [A B]]. exists s. destruct (Htodo _ A) as [X [Y Z]]. auto.
Qed.

End PollEffect.

(* ================================================================== G. a task event, read against the expected staging *)

Section EventSplit.
Variable ev : string -> dict -> evalres.

Lemma vs_add_task_state : forall t rt ins prev, vpres Rstg (add_task_state ev t rt ins prev).
Proof.
  intros t rt ins prev c c' idx H. destruct (add_task_state_eff ev _ _ _ _ _ _ _ H) as [cm [retry [L [_ [-> _]]]]].
  unfold Rstg. simpl. apply L.
Qed.
Lemma vs_sel1 : forall t s0 e0, vpres Rstg (uts_sel1 ev t s0 e0).
Proof.
  intros t s0 e0. unfold uts_sel1, uts_need_staged.
  destruct e0; [destruct (is_engine_command t); [|apply (vp_ret _ Rstg_refl)]|];
    (apply (vp_bind _ Rstg_trans); [destruct s0; [apply (vp_ret _ Rstg_refl)|apply vp_raise]|intro; apply vs_add_task_state]).
Qed.
Lemma vs_sel2 : forall t evt s0 r1 i, vpres Rstg (uts_sel2 ev t evt s0 r1 i).
Proof.
  intros t evt s0 r1 i. unfold uts_sel2, uts_need_staged. destruct (_ && _ && _); [|apply (vp_ret _ Rstg_refl)].
  apply (vp_bind _ Rstg_trans); [destruct s0; [apply (vp_ret _ Rstg_refl)|apply vp_raise]|intro; apply vs_add_task_state].
Qed.

Lemma Rin_staged_eq : forall X c0 c c', staged (c_ws c0) = staged (c_ws c) -> Rin X c c' -> Rin X c0 c'.
Proof. intros X c0 c c' H R s' l A B C. rewrite H. exact (R s' l A B C). Qed.

(* after a returning task event every item table in staging comes, entry for entry, from the expected staging *)
Theorem event_from_expected : forall t route evt c c', c_init c = true ->
  update_task_state ev t route evt c = (c', Val tt) -> Rin nokey (expect_item c t route evt) c'.
Proof.
  intros t route evt c c' Hi H.
  destruct evt as [st0|st0 res0|i st res acc|nm st0];
    try (cbn [expect_item]; refine (in_update_task_state_not_item ev t route _ _ _ _ _ H); exact I).
  unfold update_task_state in H. rewrite uts_unfold in H. unfold uts_body in H.
  unfold bind at 1 in H. rewrite (ensure_ws_inited ev c Hi) in H.
  unfold bind at 1 in H. unfold get at 1 in H.
  destruct (negb (g_has_task (c_graph c) t)); [inversion H|]. cbv zeta in H.
  apply bind_val_inv' in H. destruct H as [c0 [ts [E0 H]]].
  assert (c0 = c) as -> by (destruct (spec_get_task (c_spec c) t); inversion E0; reflexivity).
  assert (Hm : uts_main ev (update_task_state_fuel ev 2) t route (EvItem i st res acc) ts
                 (get_staged_task (c_ws c) t route) (ws_task_idx (c_ws c) t route) c = (c', Val tt)).
  { destruct (get_staged_task (c_ws c) t route), (ws_task_idx (c_ws c) t route); try exact H. inversion H. }
  clear H. unfold uts_main in Hm.
  apply bind_val_inv' in Hm. destruct Hm as [c1 [idx1 [E1 Hm]]].
  apply bind_val_inv' in Hm. destruct Hm as [c1' [r1 [E1' Hm]]]. apply get_rec_state in E1'; subst c1'.
  apply bind_val_inv' in Hm. destruct Hm as [c2 [idx [E2 Hm]]].
  apply bind_val_inv' in Hm. destruct Hm as [c3 [u3 [E3 Hm]]].
  apply bind_val_inv' in Hm. destruct Hm as [c4 [u4 [E4 Hm]]].
  assert (S2 : staged (c_ws c2) = staged (c_ws c)).
  { pose proof (vs_sel1 _ _ _ _ _ _ E1) as A. pose proof (vs_sel2 _ _ _ _ _ _ _ _ E2) as B. unfold Rstg in *. congruence. }
  assert (S3 : c3 = c2).
  { unfold uts_unstage in E3. destruct (get_staged_task (c_ws c) t route) as [s|]; [|inversion E3; reflexivity].
    destruct (s_items s); inversion E3; reflexivity. }
  subst c3.
  assert (S4 : staged (c_ws c4) = staged (c_ws (expect_item c t route (EvItem i st res acc)))).
  { unfold uts_item in E4. unfold expect_item. destruct (get_staged_task (c_ws c) t route) as [s|]; [|inversion E4; subst; exact S2].
    destruct (s_items s) as [l|]; [|inversion E4; subst; exact S2].
    destruct (Nat.ltb i (length l)); [|inversion E4].
    unfold modws in E4. inversion E4; subst c4. simpl. rewrite S2. reflexivity. }
  eapply Rin_staged_eq; [symmetry; exact S4|].
  exact (in_after_item ev (update_task_state_fuel ev 2) (fun t0 r0 e0 He => in_fuel_not_item ev 2 t0 r0 e0 He) nokey t route _ ts idx _ _ _ Hm).
Qed.

End EventSplit.

(* ================================================================== H. the link between item tables and in-flight item actions *)

(* every active item status in staging is "running" and its action is in flight *)
Definition J2e (c : cstate) (F : list ikey) : Prop :=
  forall s l j st, In s (staged (c_ws c)) -> s_items s = Some l -> nth_error l j = Some st ->
  status_in st ACTIVE_STATUSES = true -> st = S_RUNNING /\ In (s_id s, s_route s, Some j) F.

(* every item action in flight is "running" in the item table of its task's staged entry *)
Definition J1e (c : cstate) (F : list ikey) : Prop :=
  forall t r j, In (t, r, Some j) F -> exists l, items_of c t r = Some l /\ nth_error l j = Some S_RUNNING.

Lemma any_active_nth : forall l j st, nth_error l j = Some st -> status_in st ACTIVE_STATUSES = true -> any_active l = true.
Proof. intros l j st H Ha. unfold any_active. apply existsb_exists. exists st. split; [eapply nth_error_In; exact H|exact Ha]. Qed.

Lemma items_of_entry : forall c t r l, items_of c t r = Some l ->
  exists s, In s (staged (c_ws c)) /\ s_id s = t /\ s_route s = r /\ s_items s = Some l /\ get_staged_task (c_ws c) t r = Some s.
Proof.
  intros c t r l H. unfold items_of in H. destruct (get_staged_task (c_ws c) t r) as [s|] eqn:E; [|discriminate].
  exists s. pose proof E as E'. unfold get_staged_task in E. apply find_some in E. destruct E as [A B]. apply stg_matches_eq in B. destruct B. auto.
Qed.

Lemma transfer_link : forall t0 r0 cA c' F, fo cA -> Rin nokey cA c' -> items_wiped t0 r0 cA c' = false ->
  J1e cA F -> J2e cA F -> J1e c' F /\ J2e c' F.
Proof.
  intros t0 r0 cA c' F Hfo R Hw H1 H2. split.
  - intros t r j Hin. destruct (H1 _ _ _ Hin) as [l [Hl Hj]].
    destruct (items_of_entry _ _ _ _ Hl) as [s [Hs [Hid [Hrt [Hit Hg]]]]].
    assert (Hact : any_active l = true) by (eapply any_active_nth; [exact Hj|reflexivity]).
    (* the table is still there *)
    assert (Hsome : exists l', items_of c' t r = Some l').
    { unfold items_wiped in Hw. destruct (items_of c' t r) as [l'|] eqn:E; [exists l'; reflexivity|exfalso].
      assert (X : existsb (fun s0 => match s_items s0 with
                                     | Some l0 => (negb (stg_matches t0 r0 s0) || any_active l0) &&
                                                  match items_of c' (s_id s0) (s_route s0) with None => true | Some _ => false end
                                     | None => false end) (staged (c_ws cA)) = true).
      { apply existsb_exists. exists s. split; [exact Hs|]. rewrite Hit, Hact, Hid, Hrt, E. rewrite orb_true_r. reflexivity. }
      congruence. }
    destruct Hsome as [l' Hl']. exists l'. split; [exact Hl'|].
    destruct (items_of_entry _ _ _ _ Hl') as [s' [Hs' [Hid' [Hrt' [Hit' _]]]]].
    destruct (R s' l' Hs' Hit' (fun x => x)) as [sA [HsA [HidA [HrtA HitA]]]].
    assert (HfA : find (stg_matches (s_id sA) (s_route sA)) (staged (c_ws cA)) = Some sA).
    { apply first_only_find; [exact Hfo|exact HsA|rewrite HitA; discriminate]. }
    unfold get_staged_task in Hg. rewrite HidA, HrtA, Hid', Hrt' in HfA. rewrite Hg in HfA. inversion HfA; subst sA.
    rewrite Hit in HitA. inversion HitA; subst. exact Hj.
  - intros s' l j st Hs' Hit Hj Ha. destruct (R s' l Hs' Hit (fun x => x)) as [sA [HsA [HidA [HrtA HitA]]]].
    destruct (H2 _ _ _ _ HsA HitA Hj Ha) as [A B]. split; [exact A|]. rewrite <- HidA, <- HrtA. exact B.
Qed.

Lemma ikey_eqb_eq : forall a b : ikey, ikey_eqb a b = true <-> a = b.
Proof.
  intros [[t1 r1] i1] [[t2 r2] i2]. unfold ikey_eqb. simpl. split.
  - intro H. apply andb_prop in H. destruct H as [H H3]. apply andb_prop in H. destruct H as [H1 H2].
    apply String.eqb_eq in H1. apply Nat.eqb_eq in H2. subst.
    destruct i1, i2; simpl in H3; try discriminate; [apply Nat.eqb_eq in H3; subst|]; reflexivity.
  - intro H. inversion H; subst. rewrite String.eqb_refl, Nat.eqb_refl. destruct i2; simpl; [apply Nat.eqb_refl|reflexivity].
Qed.
Lemma ikey_in_iff : forall k l, ikey_in k l = true <-> In k l.
Proof.
  intros k l; unfold ikey_in; rewrite existsb_exists; split.
  - intros [x [Hin He]]. apply ikey_eqb_eq in He; subst; exact Hin.
  - intro H; exists k; split; [exact H|apply ikey_eqb_eq; reflexivity].
Qed.
Lemma In_ikey_add : forall k k0 l, In k (ikey_add k0 l) <-> k = k0 \/ In k l.
Proof.
  intros k k0 l; unfold ikey_add. destruct (ikey_in k0 l) eqn:E.
  - apply ikey_in_iff in E. split; [auto|intros [->|H]; assumption].
  - rewrite in_app_iff. simpl. split; [intros [H|[H|[]]]; auto|intros [->|H]; auto].
Qed.
Lemma In_ikey_remove : forall k k0 l, In k (ikey_remove k0 l) <-> In k l /\ k <> k0.
Proof.
  intros k k0 l; unfold ikey_remove. rewrite filter_In. split.
  - intros [H1 H2]. split; [exact H1|]. intro E; subst. apply negb_true_iff in H2.
    rewrite (proj2 (ikey_eqb_eq k0 k0) eq_refl) in H2. discriminate.
  - intros [H1 H2]. split; [exact H1|]. apply negb_true_iff. destruct (ikey_eqb k0 k) eqn:E; [|reflexivity].
    apply ikey_eqb_eq in E. congruence.
Qed.

Lemma record_item_keeps : forall i st, keeps_key (record_item i st).
Proof. intros i st s; split; reflexivity. Qed.

Lemma items_of_update_other : forall c f t r t' r', keeps_key f -> (t', r') <> (t, r) ->
  items_of (set_ws c (ws_set_staged (c_ws c) (staged_update f t r (staged (c_ws c))))) t' r' = items_of c t' r'.
Proof.
  intros c f t r t' r' Hk Hne. unfold items_of, get_staged_task. simpl.
  destruct (find (stg_matches t' r') (staged_update f t r (staged (c_ws c)))) as [s'|] eqn:E.
  - destruct (find_staged_update _ _ _ _ _ _ _ Hk E) as [s [Hs [->|[-> Hm]]]]; rewrite Hs; [reflexivity|].
    exfalso. apply find_some in Hs. destruct Hs as [_ Hs]. apply Hne. exact (matches_two _ _ _ _ _ Hm Hs).
  - destruct (find (stg_matches t' r') (staged (c_ws c))) as [s|] eqn:E2; [|reflexivity]. exfalso.
    assert (G : forall l, find (stg_matches t' r') l = Some s -> find (stg_matches t' r') (staged_update f t r l) <> None).
    { induction l as [|a l IH]; simpl; [discriminate|]. destruct (stg_matches t r a) eqn:Ea; simpl.
      - rewrite (matches_keeps f t' r' a Hk). destruct (stg_matches t' r' a); [discriminate|]. intros X Y. congruence.
      - destruct (stg_matches t' r' a); [discriminate|exact IH]. }
    exact (G _ E2 E).
Qed.

(* the expected staging keeps the link, with the in-flight set updated for the item the event is about *)
Lemma expect_link : forall c F t r i st res acc l, fo c -> J1e c F -> J2e c F ->
  items_of c t r = Some l -> i < length l ->
  let cE := expect_item c t r (EvItem i st res acc) in
  fo cE /\ items_of cE t r = Some (list_set_nth i st l) /\
  (st = S_RUNNING -> J1e cE (ikey_add (t, r, Some i) F) /\ J2e cE (ikey_add (t, r, Some i) F)) /\
  (status_in st ACTIVE_STATUSES = false -> J1e cE (ikey_remove (t, r, Some i) F) /\ J2e cE (ikey_remove (t, r, Some i) F)).
Proof.
  intros c F t r i st res acc l Hfo H1 H2 Hl Hi. cbv zeta.
  destruct (items_of_entry _ _ _ _ Hl) as [s0 [Hs0 [Hid [Hrt [Hit Hg]]]]].
  assert (HE : expect_item c t r (EvItem i st res acc) =
               set_ws c (ws_set_staged (c_ws c) (staged_update (record_item i st) t r (staged (c_ws c))))).
  { unfold expect_item. rewrite Hg, Hit. apply Nat.ltb_lt in Hi. rewrite Hi. reflexivity. }
  rewrite HE. clear HE.
  set (cE := set_ws c (ws_set_staged (c_ws c) (staged_update (record_item i st) t r (staged (c_ws c))))).
  assert (Hown : items_of cE t r = Some (list_set_nth i st l)).
  { unfold items_of, get_staged_task, cE. simpl. rewrite find_staged_update_same by apply record_item_keeps.
    unfold get_staged_task in Hg. rewrite Hg. simpl. rewrite Hit. reflexivity. }
  assert (Hoth : forall t' r', (t', r') <> (t, r) -> items_of cE t' r' = items_of c t' r').
  { intros t' r' Hne. apply items_of_update_other; [apply record_item_keeps|exact Hne]. }
  (* the entries of the expected staging *)
  assert (Hent : forall s' l', In s' (staged (c_ws cE)) -> s_items s' = Some l' ->
            (In s' (staged (c_ws c))) \/ (s_id s' = t /\ s_route s' = r /\ l' = list_set_nth i st l)).
  { intros s' l' Hin Hit'. unfold cE in Hin. simpl in Hin.
    destruct (In_staged_update_m _ _ _ _ _ Hin) as [A|[sx [A [M ->]]]]; [left; exact A|right].
    apply stg_matches_eq in M. destruct M as [M1 M2].
    assert (sx = s0).
    { assert (X : find (stg_matches (s_id sx) (s_route sx)) (staged (c_ws c)) = Some sx).
      { apply first_only_find; [exact Hfo|exact A|]. simpl in Hit'. destruct (s_items sx); [discriminate|discriminate]. }
      unfold get_staged_task in Hg. rewrite M1, M2, Hg in X. inversion X; reflexivity. }
    subst sx. simpl in Hit'. rewrite Hit in Hit'. inversion Hit'. simpl. auto. }
  assert (Hnth : forall j, j <> i -> nth_error (list_set_nth i st l) j = nth_error l j)
    by (intros j Hj; apply nth_error_set_nth_other; congruence).
  assert (Hnti : nth_error (list_set_nth i st l) i = Some st).
  { destruct (nth_error l i) as [x|] eqn:E; [eapply nth_error_set_nth_same; exact E|].
    apply nth_error_None in E. lia. }
  split; [unfold fo, cE; simpl; apply first_only_update; [apply record_item_keeps|exact Hfo]|].
  split; [exact Hown|]. split.
  - intros ->. split.
    + intros t' r' j Hin. apply In_ikey_add in Hin. destruct Hin as [Hin|Hin].
      * inversion Hin; subst. exists (list_set_nth i S_RUNNING l). auto.
      * destruct (H1 _ _ _ Hin) as [l' [Hl' Hj]].
        destruct (string_dec t' t) as [->|Ht]; [destruct (Nat.eq_dec r' r) as [->|Hr]|].
        -- rewrite Hl in Hl'. inversion Hl'; subst l'. exists (list_set_nth i S_RUNNING l). split; [exact Hown|].
           destruct (Nat.eq_dec j i) as [->|Hji]; [exact Hnti|rewrite Hnth by exact Hji; exact Hj].
        -- exists l'. rewrite Hoth by congruence. auto.
        -- exists l'. rewrite Hoth by congruence. auto.
    + intros s' l' j st' Hin Hit' Hj Ha. destruct (Hent _ _ Hin Hit') as [A|[A1 [A2 ->]]].
      * destruct (H2 _ _ _ _ A Hit' Hj Ha) as [X Y]. split; [exact X|apply In_ikey_add; right; exact Y].
      * rewrite A1, A2. destruct (Nat.eq_dec j i) as [->|Hji].
        -- rewrite Hnti in Hj. inversion Hj; subst. split; [reflexivity|apply In_ikey_add; left; reflexivity].
        -- rewrite Hnth in Hj by exact Hji. destruct (H2 _ _ _ _ Hs0 Hit Hj Ha) as [X Y]. rewrite Hid, Hrt in Y.
           split; [exact X|apply In_ikey_add; right; exact Y].
  - intros Hna. split.
    + intros t' r' j Hin. apply In_ikey_remove in Hin. destruct Hin as [Hin Hne].
      destruct (H1 _ _ _ Hin) as [l' [Hl' Hj]].
      destruct (string_dec t' t) as [->|Ht]; [destruct (Nat.eq_dec r' r) as [->|Hr]|].
      * rewrite Hl in Hl'. inversion Hl'; subst l'. exists (list_set_nth i st l). split; [exact Hown|].
        assert (Hji : j <> i) by (intro E; subst; apply Hne; reflexivity). rewrite Hnth by exact Hji. exact Hj.
      * exists l'. rewrite Hoth by congruence. auto.
      * exists l'. rewrite Hoth by congruence. auto.
    + intros s' l' j st' Hin Hit' Hj Ha. destruct (Hent _ _ Hin Hit') as [A|[A1 [A2 ->]]].
      * destruct (H2 _ _ _ _ A Hit' Hj Ha) as [X Y]. split; [exact X|]. apply In_ikey_remove. split; [exact Y|].
        intro E. inversion E as [[E1 E2 E3]]. subst j.
        (* the entry is the first one of (t, r): its table is l, and after the update the entry is not there *)
        assert (s' = s0).
        { assert (Z : find (stg_matches (s_id s') (s_route s')) (staged (c_ws c)) = Some s').
          { apply first_only_find; [exact Hfo|exact A|rewrite Hit'; discriminate]. }
          unfold get_staged_task in Hg. rewrite E1, E2, Hg in Z. inversion Z; reflexivity. }
        subst s'. (* s0 itself is in the updated staging only if it is not the replaced entry: it is *)
        unfold cE in Hin. simpl in Hin.
        assert (G : forall lst, first_only lst -> find (stg_matches t r) lst = Some s0 -> s_items s0 = Some l' ->
                    In s0 (staged_update (record_item i st) t r lst) -> list_set_nth i st l' = l').
        { induction lst as [|a lst IH]; simpl; intros Hf Hfd Hit0 Hin0; [discriminate|]. destruct Hf as [Ha0 Hf].
          destruct (stg_matches t r a) eqn:Ea.
          - inversion Hfd; subst a. destruct Hin0 as [Hin0|Hin0].
            + assert (Q : s_items (record_item i st s0) = s_items s0) by (rewrite Hin0; reflexivity).
              simpl in Q. rewrite Hit0 in Q. inversion Q as [Q']. rewrite Q'. exact Q'.
            + exfalso. assert (Q : s_items s0 = None) by (apply (Ha0 s0 Hin0); reflexivity). congruence.
          - destruct Hin0 as [Hin0|Hin0]; [subst a; apply find_some in Hfd; destruct Hfd as [_ Hfd]; congruence|].
            apply IH; assumption. }
        unfold get_staged_task in Hg. pose proof (G _ Hfo Hg Hit' Hin) as Eq.
        rewrite Hit in Hit'. inversion Hit'; subst l'.
        rewrite <- Eq in Hj. rewrite Hnti in Hj. inversion Hj; subst st'. congruence.
      * rewrite A1, A2. destruct (Nat.eq_dec j i) as [->|Hji].
        -- rewrite Hnti in Hj. inversion Hj; subst. congruence.
        -- rewrite Hnth in Hj by exact Hji. destruct (H2 _ _ _ _ Hs0 Hit Hj Ha) as [X Y]. rewrite Hid, Hrt in Y.
           split; [exact X|]. apply In_ikey_remove. split; [exact Y|]. intro E. inversion E. congruence.
Qed.

(* ================================================================== I. an acknowledgement touches only the entry of its own key *)

Definition nk (k : string * nat) (s : stg) : bool := negb (stg_matches (fst k) (snd k) s).

(* the staged entries of the other keys, in order, are the same *)
Definition Rflt (k : string * nat) (c c' : cstate) : Prop :=
  filter (nk k) (staged (c_ws c')) = filter (nk k) (staged (c_ws c)).
Lemma Rflt_refl : forall k c, Rflt k c c. Proof. intros; reflexivity. Qed.
Lemma Rflt_trans : forall k a b c, Rflt k a b -> Rflt k b c -> Rflt k a c. Proof. unfold Rflt; intros; congruence. Qed.
Lemma Rflt_same : forall k c c', staged (c_ws c') = staged (c_ws c) -> Rflt k c c'.
Proof. intros k c c' H. unfold Rflt. rewrite H. reflexivity. Qed.

Lemma filter_remove_first_own : forall t r l, filter (nk (t, r)) (staged_remove_first t r l) = filter (nk (t, r)) l.
Proof.
  induction l as [|a l IH]; [reflexivity|]. simpl. destruct (stg_matches t r a) eqn:E.
  - unfold nk. simpl. rewrite E. reflexivity.
  - simpl. rewrite IH. reflexivity.
Qed.
Lemma filter_update_own : forall f t r l, keeps_key f -> filter (nk (t, r)) (staged_update f t r l) = filter (nk (t, r)) l.
Proof.
  intros f t r l Hk. induction l as [|a l IH]; [reflexivity|]. simpl. destruct (stg_matches t r a) eqn:E.
  - simpl. unfold nk. simpl. rewrite (matches_keeps f t r a Hk), E. reflexivity.
  - simpl. rewrite IH. reflexivity.
Qed.

Lemma Rflt_remove : forall t r c, Rflt (t, r) c (set_ws c (ws_remove_staged_task (c_ws c) t r)).
Proof.
  intros t r c. unfold Rflt. simpl. unfold ws_remove_staged_task. destruct (get_staged_task (c_ws c) t r); [|reflexivity].
  destruct (items_any_active s); [reflexivity|]. simpl. apply filter_remove_first_own.
Qed.
Lemma Rflt_update : forall t r c f, keeps_key f ->
  Rflt (t, r) c (set_ws c (ws_set_staged (c_ws c) (staged_update f t r (staged (c_ws c))))).
Proof. intros t r c f Hk. unfold Rflt. simpl. apply filter_update_own. exact Hk. Qed.
Lemma Rflt_add_own : forall t r c x, stg_matches t r x = true -> Rflt (t, r) c (set_ws c (ws_add_staged (c_ws c) x)).
Proof.
  intros t r c x Hx. unfold Rflt. simpl. rewrite filter_app. simpl. unfold nk at 2. simpl. rewrite Hx. simpl. apply app_nil_r.
Qed.

Lemma find_filter_nk : forall k t r l, (t, r) <> k -> find (stg_matches t r) (filter (nk k) l) = find (stg_matches t r) l.
Proof.
  intros [t0 r0] t r l Hne. induction l as [|a l IH]; [reflexivity|]. simpl. unfold nk at 1. simpl.
  destruct (stg_matches t0 r0 a) eqn:E0; simpl.
  - destruct (stg_matches t r a) eqn:E; [exfalso; apply Hne; exact (matches_two _ _ _ _ _ E0 E)|exact IH].
  - destruct (stg_matches t r a); [reflexivity|exact IH].
Qed.

Lemma Rflt_items_of : forall k c c' t r, Rflt k c c' -> (t, r) <> k -> items_of c' t r = items_of c t r.
Proof.
  intros k c c' t r H Hne. unfold items_of, get_staged_task.
  rewrite <- (find_filter_nk k t r (staged (c_ws c')) Hne), <- (find_filter_nk k t r (staged (c_ws c)) Hne), H. reflexivity.
Qed.

Section OwnOnly.
Variable ev : string -> dict -> evalres.

Ltac oleaf0 :=
  first [ solve [apply Rflt_same; simpl; first [reflexivity|apply staged_update_rec]]
        | solve [apply Rflt_remove]
        | solve [apply Rflt_add_own; unfold stg_matches, mk_staged; simpl; rewrite String.eqb_refl, Nat.eqb_refl; reflexivity]
        | solve [apply Rflt_update; intro; split; reflexivity] ].
Ltac pleaf :=
  first [ solve [apply (preserves_modws (Rflt _)); intro; oleaf0]
        | solve [apply (preserves_modify (Rflt _)); intro; apply Rflt_same;
                 first [reflexivity|match goal with |- context [if ?b then _ else _] => destruct b end; reflexivity]]
        | assumption ].
Ltac leaf :=
  first [ solve [apply (vp_modws (Rflt _)); intro; oleaf0]
        | solve [apply (vp_modify (Rflt _)); intro; apply Rflt_same;
                 first [reflexivity|match goal with |- context [if ?b then _ else _] => destruct b end; reflexivity]]
        | assumption ].

Lemma flt_of_stg : forall k A (m : M A), vpres Rstg m -> vpres (Rflt k) m.
Proof. intros k A m H c c' a E. apply Rflt_same. exact (H _ _ _ E). Qed.
Lemma flt_of_lt : forall k A (m : M A), vpres Rlt m -> vpres (Rflt k) m.
Proof. intros k A m H c c' a E. apply Rflt_same. apply Rlt_Rstg. exact (H _ _ _ E). Qed.

Lemma flt_pre_main : forall t route evt ts s0 e0, vpres (Rflt (t, route)) (pre_main ev t route evt ts s0 e0).
Proof.
  intros t route evt ts s0 e0. unfold pre_main, pre_machine, uts_unstage, uts_item, uts_logfail, uts_setst, uts_retrying, uts_completion.
  pose proof (fun t' s0 e0 => flt_of_stg (t, route) _ _ (vs_sel1 ev t' s0 e0)) as H1.
  pose proof (fun t' e' s0 r1 i => flt_of_stg (t, route) _ _ (vs_sel2 ev t' e' s0 r1 i)) as H2.
  pose proof (fun i => flt_of_stg (t, route) _ _ (vs_get_rec i)) as H5.
  pose proof (fun i f => flt_of_stg (t, route) _ _ (vs_upd_rec i f)) as H6.
  pose proof (fun e' t' r' tr => flt_of_lt (t, route) _ _ (vlt_log_error e' t' r' tr)) as H7.
  pose proof (flt_of_lt (t, route) _ _ vlt_request_failed) as H8.
  pose proof (fun i => flt_of_lt (t, route) _ _ (vlt_get_task_context i)) as H9.
  pose proof (fun m t' r' tr res => flt_of_lt (t, route) _ _ (vp_of_pres _ _ _ (lt_log_entry_error m t' r' tr res))) as H10.
  assert (S1 : forall i s, vpres (Rflt (t, route)) (set_rec_status i s)).
  { intros i s. apply flt_of_stg. unfold set_rec_status. apply vp_modws. intro; unfold Rstg; simpl; apply staged_update_rec. }
  assert (P9 : forall r ctx, preserves (Rflt (t, route)) (evaluate_task_retry ev r ctx)).
  { intros r ctx. apply (state_pure_preserves _ (Rflt_refl (t, route))). apply evaluate_task_retry_pure. }
  assert (P10 : forall i, preserves (Rflt (t, route)) (get_rec i)).
  { intros i c c' a E. apply get_rec_state in E. subst. apply Rflt_refl. }
  sw (Rflt_refl (t, route)) (Rflt_trans (t, route)) ltac:(first [pleaf|apply P9|apply P10|apply (preserves_ret _ (Rflt_refl (t, route)))])
     ltac:(first [leaf|apply H1|apply H2|apply H5|apply H6|apply H7|apply H8|apply H9|apply H10|apply S1]).
Qed.

Lemma flt_prefix : forall t route evt c cp p, c_init c = true -> uts_prefix ev t route evt c = (cp, Val p) -> Rflt (t, route) c cp.
Proof.
  intros t route evt c cp p Hi H. unfold uts_prefix in H.
  unfold bind at 1 in H. rewrite (ensure_ws_inited ev c Hi) in H. unfold bind at 1 in H. unfold get at 1 in H.
  destruct (negb (g_has_task (c_graph c) t)); [inversion H|]. cbv zeta in H.
  apply bind_val_inv' in H. destruct H as [c0 [ts [E0 H]]].
  assert (c0 = c) as -> by (destruct (spec_get_task (c_spec c) t); inversion E0; reflexivity).
  destruct (get_staged_task (c_ws c) t route), (ws_task_idx (c_ws c) t route); try (exact (flt_pre_main _ _ _ _ _ _ _ _ _ H)). inversion H.
Qed.


Lemma flt_tail_noqueue : forall rec t route ts idx old new compl cp c',
  uts_tail ev rec t route ts idx old new compl cp = (c', Val tt) -> (forall ctx, compl <> Some (ctx, true)) ->
  (compl = None \/ new = old \/ g_next_transitions (c_graph cp) t = []) -> staged (c_ws c') = staged (c_ws cp).
Proof.
  intros rec t route ts idx old new compl cp c' H Hc Hq.
  destruct (tail_inv ev _ _ _ _ _ _ _ _ _ _ H Hc) as [queue [cq [r [st [unr [cw [cl [cn [Eq [Hr [Hst [Ew [El [Wl [En Hfl]]]]]]]]]]]]]]].
  assert (Q : queue = [] /\ staged (c_ws cq) = staged (c_ws cp)).
  { destruct Hq as [->|[->|Ht]].
    - unfold uts_queue in Eq. inversion Eq; auto.
    - unfold uts_queue in Eq. destruct compl as [[ctx b]|]; [|inversion Eq; auto].
      rewrite status_eqb_refl in Eq. simpl in Eq. inversion Eq; auto.
    - destruct (queue_nil_flag ev _ _ _ _ _ _ _ _ _ _ Eq Ht) as [A [_ [B _]]]. auto. }
  destruct Q as [-> Sq]. simpl in En. inversion En; subst cn.
  destruct (wf_task_event_eff _ _ _ _ _ _ Ew) as [nw [-> _]].
  destruct Hfl as [_ [Sfl _]]. rewrite Sfl, Wl. simpl. exact Sq.
Qed.

Lemma flt_retry_call : forall rec t route c c', c_init c = true ->
  uts_body ev rec t route retry_event c = (c', Val tt) -> Rflt (t, route) c c'.
Proof.
  intros rec t route c c' Hi H. rewrite body_eq in H. apply bind_val_inv' in H. destruct H as [cp [p [Ep Htl]]].
  eapply Rflt_trans; [eapply flt_prefix; eassumption|]. apply Rflt_same. unfold tail_of in Htl.
  pose proof (prefix_retry_event ev _ _ _ _ _ Ep) as Hn.
  apply (flt_tail_noqueue _ _ _ _ _ _ _ _ _ _ Htl).
  - intros ctx E. destruct Hn as [Hn|[ctx' [Hn _]]]; rewrite Hn in E; discriminate.
  - destruct Hn as [Hn|[ctx' [_ [Hn|Hn]]]]; auto.
Qed.

Lemma F_action_running_target : forall s x, tbl_step task_table s "action_running" = Some x -> x = S_RUNNING.
Proof.
  intros s x H.
  assert (T : table_forall task_table (fun _ e t => negb (String.eqb e "action_running") || status_eqb t S_RUNNING) = true)
    by (vm_compute; reflexivity).
  pose proof (table_forall_step _ _ T _ _ _ H) as P; cbv beta in P. rewrite String.eqb_refl in P. apply status_eqb_eq; exact P.
Qed.

(* an acknowledgement (an action or item event with status running) that returns leaves the entries of all other keys alone *)
Lemma flt_running_call : forall f t route evt c c', c_init c = true ->
  provider_event evt = true -> ev_status evt = S_RUNNING ->
  uts_body ev (update_task_state_fuel ev (S f)) t route evt c = (c', Val tt) -> Rflt (t, route) c c'.
Proof.
  intros f t route evt c c' Hi Hpe Hrun H. rewrite body_eq in H. apply bind_val_inv' in H. destruct H as [cp [p [Ep Htl]]].
  eapply Rflt_trans; [eapply flt_prefix; eassumption|]. unfold tail_of in Htl.
  destruct (prefix_to_machine ev _ _ _ _ _ _ Ep) as [c1 [ts [idx [c3 [r [E1 [Hm _]]]]]]].
  destruct (pre_machine_inv ev _ _ _ _ _ _ _ _ Hm) as [r0 [ns [c4 [c5 [Hr0 [Ens [_ [_ [_ [_ [_ [Ec [_ [_ [Hpo Hpn]]]]]]]]]]]]]]].
  destruct (tpe_provider _ _ _ _ Hpe Ens) as [name [Hn [_ Hname]]]. rewrite (Hname Hrun) in Hn.
  assert (Hsame : forall ctx b, po_compl p = Some (ctx, b) -> po_new p = po_old p).
  { intros ctx b Hc. destruct (completion_inv ev _ _ _ _ _ _ _ _ _ _ Ec) as [[_ [X _]]|[Hcomp _]]; [rewrite X in Hc; discriminate|].
    rewrite Hpn, Hpo, stepped_status. destruct ns as [x|]; [|reflexivity].
    rewrite stepped_status in Hcomp. rewrite (F_action_running_target _ _ Hn) in Hcomp. discriminate. }
  pose proof (prefix_def ev _ _ _ _ _ _ Ep) as [_ [_ Di]]. specialize (Di Hi).
  destruct (po_compl p) as [[ctx [|]]|] eqn:Ecompl.
  - unfold uts_tail in Htl. rewrite uts_unfold in Htl. eapply flt_retry_call; eassumption.
  - apply Rflt_same. apply (flt_tail_noqueue _ _ _ _ _ _ _ _ _ _ Htl); [intros ctx' E; discriminate|].
    right; left. eapply Hsame; reflexivity.
  - apply Rflt_same. apply (flt_tail_noqueue _ _ _ _ _ _ _ _ _ _ Htl); [intros ctx' E; discriminate|left; reflexivity].
Qed.

End OwnOnly.

(* ================================================================== J. the invariant of the item link *)

Definition ilink (c : cstate) (F : list ikey) : Prop := c_init c = true /\ fo c /\ J1e c F /\ J2e c F.

Lemma J_same_staged : forall c c' F, staged (c_ws c') = staged (c_ws c) -> (fo c -> fo c') /\ (J1e c F -> J1e c' F) /\ (J2e c F -> J2e c' F).
Proof.
  intros c c' F H. split; [unfold fo; rewrite H; auto|]. split.
  - intros H1 t r j Hin. destruct (H1 _ _ _ Hin) as [l [A B]]. exists l. unfold items_of, get_staged_task in *. rewrite H. auto.
  - intros H2 s l j st Hin. rewrite H in Hin. apply H2; exact Hin.
Qed.

Lemma J_keys : forall c F F', (forall t r j, In (t, r, Some j) F' <-> In (t, r, Some j) F) -> (J1e c F -> J1e c F') /\ (J2e c F -> J2e c F').
Proof.
  intros c F F' H. split.
  - intros H1 t r j Hin. apply H1. apply H. exact Hin.
  - intros H2 s l j st A B C D. destruct (H2 s l j st A B C D) as [X Y]. split; [exact X|apply H; exact Y].
Qed.

(* a table with an item in progress survives the call unchanged, unless the anomaly flag fires *)
Lemma transfer_table : forall t0 r0 cA c' t r l, fo cA -> Rin nokey cA c' -> items_wiped t0 r0 cA c' = false ->
  items_of cA t r = Some l -> (any_active l = true \/ (t, r) <> (t0, r0)) -> items_of c' t r = Some l.
Proof.
  intros t0 r0 cA c' t r l Hfo R Hw Hl Hact.
  destruct (items_of_entry _ _ _ _ Hl) as [s [Hs [Hid [Hrt [Hit Hg]]]]].
  destruct (items_of c' t r) as [l'|] eqn:E.
  - destruct (items_of_entry _ _ _ _ E) as [s' [Hs' [Hid' [Hrt' [Hit' _]]]]].
    destruct (R s' l' Hs' Hit' (fun x => x)) as [sA [HsA [HidA [HrtA HitA]]]].
    assert (HfA : find (stg_matches (s_id sA) (s_route sA)) (staged (c_ws cA)) = Some sA).
    { apply first_only_find; [exact Hfo|exact HsA|rewrite HitA; discriminate]. }
    unfold get_staged_task in Hg. rewrite HidA, HrtA, Hid', Hrt' in HfA. rewrite Hg in HfA. inversion HfA; subst sA. congruence.
  - exfalso. unfold items_wiped in Hw.
    assert (X : existsb (fun s0 => match s_items s0 with
                                   | Some l0 => (negb (stg_matches t0 r0 s0) || any_active l0) &&
                                                match items_of c' (s_id s0) (s_route s0) with None => true | Some _ => false end
                                   | None => false end) (staged (c_ws cA)) = true).
    { apply existsb_exists. exists s. split; [exact Hs|]. rewrite Hit, Hid, Hrt, E. rewrite andb_true_r.
      destruct Hact as [Hact|Hne]; [rewrite Hact; apply orb_true_r|].
      destruct (stg_matches t0 r0 s) eqn:Em; [|reflexivity]. exfalso. apply Hne. apply stg_matches_eq in Em. destruct Em; congruence. }
    congruence.
Qed.

Lemma Forall2_In_r : forall A B (R : A -> B -> Prop) l l' y, Forall2 R l l' -> In y l' -> exists x, In x l /\ R x y.
Proof.
  intros A B R l l' y H; induction H as [|a b l l' Hab Hl IH]; intro Hin; [destruct Hin|].
  destruct Hin as [<-|Hin]; [exists a; split; [left; reflexivity|exact Hab]|].
  destruct (IH Hin) as [x [A1 A2]]. exists x; split; [right; exact A1|exact A2].
Qed.

Lemma nth_repeat_unset : forall n j st, nth_error (repeat S_UNSET n) j = Some st -> st = S_UNSET.
Proof. intros n j st H. apply nth_error_In in H. apply repeat_spec in H. exact H. Qed.

Lemma J_Rgn : forall c c1 F, Rgn c c1 -> J1e c F -> J2e c F -> J1e c1 F /\ J2e c1 F.
Proof.
  intros c c1 F R H1 H2. split.
  - intros t r j Hin. destruct (H1 _ _ _ Hin) as [l [A B]]. exists l. split; [|exact B].
    destruct l as [|x xs]; [destruct j; discriminate B|]. eapply Rgn_items_stable; eassumption.
  - intros s' l j st Hin Hit Hj Ha. destruct R as (_ & _ & _ & _ & _ & _ & F2).
    destruct (Forall2_In_r _ _ _ _ _ _ F2 Hin) as [s [Hs [->|[_ [n ->]]]]]; [exact (H2 _ _ _ _ Hs Hit Hj Ha)|].
    simpl in Hit. inversion Hit; subst l. apply nth_repeat_unset in Hj. subst st. discriminate Ha.
Qed.

Section LinkSteps.
Variable ev : string -> dict -> evalres.

Lemma fo_get_next_tasks : vpres Rfo (get_next_tasks ev).
Proof.
  unfold get_next_tasks.
  assert (P : forall s, preserves Rfo (next_task_for ev s)).
  { intros s c c' r H. destruct (ntf_eff ev _ _ _ _ H) as [[->|[s0 [n [_ [_ ->]]]]] _]; [apply Rfo_refl|].
    apply fo_update. intro; split; reflexivity. }
  assert (Q : forall e t r tr, vpres Rfo (log_error e t r tr)) by (intros; apply fo_of_lt; apply vlt_log_error).
  assert (Q2 : vpres Rfo (request_status_core S_FAILED)) by (apply fo_of_lt; apply vlt_request_failed).
  apply (vp_bind _ Rfo_trans); [apply fo_ensure_ws|intros _].
  apply (vp_bind _ Rfo_trans); [apply (vp_getws _ Rfo_refl)|intro w]. cbv zeta.
  match goal with |- vpres _ (if ?b then _ else _) => destruct b end; [apply (vp_ret _ Rfo_refl)|].
  apply (vp_bind _ Rfo_trans).
  - apply (vp_mapM _ Rfo_refl Rfo_trans). intro s. apply (vp_try_catch _ Rfo_trans).
    + apply (preserves_bind _ Rfo_trans); [apply P|intro; apply (preserves_ret _ Rfo_refl)].
    + intro e. apply (vp_bind _ Rfo_trans); [apply Q|intros _; apply (vp_ret _ Rfo_refl)].
  - intro rs. destruct (existsb snd rs); [|apply (vp_ret _ Rfo_refl)].
    apply (vp_bind _ Rfo_trans); [exact Q2|intros _; apply (vp_ret _ Rfo_refl)].
Qed.

(* one returning task event keeps the link, given the link on the expected staging *)
Lemma ievent_link : forall c F t r e c' F', ilink c F ->
  update_task_state ev t r e c = (c', Val tt) -> items_wiped t r (expect_item c t r e) c' = false ->
  fo (expect_item c t r e) -> J1e (expect_item c t r e) F' -> J2e (expect_item c t r e) F' -> ilink c' F'.
Proof.
  intros c F t r e c' F' [Hi [Hfo _]] H Hw HfE H1 H2.
  pose proof (event_from_expected ev _ _ _ _ _ Hi H) as R.
  destruct (transfer_link _ _ _ _ _ HfE R Hw H1 H2) as [A B].
  split; [apply (pd_update_task_state ev t r e _ _ _ H); exact Hi|]. split; [exact (fo_update_task_state ev _ _ _ _ _ _ H Hfo)|]. auto.
Qed.

(* the actions chosen for an offer are items of the table, at their own index *)
Lemma chosen_in_table : forall conc (actions : list action_spec) l acts conc' n,
  choose_items conc (combine actions l) = Val (acts, conc') -> map a_item actions = map Some (seq 0 n) -> length actions = n ->
  forall a, In a acts -> exists i, a_item a = Some i /\ i < length l /\ nth_error l i = Some S_UNSET.
Proof.
  intros conc actions l acts conc' n Hc Hmap Hlen a Ha.
  destruct (offered_items_are_first_unset _ _ _ _ _ Hc) as [k Hk]. subst acts.
  apply in_map_iff in Ha. destruct Ha as [[a' st] [Hfst Hin]]. simpl in Hfst. subst a'.
  assert (Hin2 : In (a, st) (items_notrun (combine actions l))).
  { clear -Hin. revert Hin. generalize (items_notrun (combine actions l)). intro lst. revert k.
    induction lst as [|x lst IH]; intros [|k] H; simpl in H; try contradiction. destruct H as [H|H]; [left; exact H|right; eapply IH; exact H]. }
  apply items_notrun_unset in Hin2. destruct Hin2 as [Hst Hin3]. subst st.
  apply In_nth_error in Hin3. destruct Hin3 as [p Hp].
  assert (Hpa : nth_error actions p = Some a /\ nth_error l p = Some S_UNSET).
  { clear -Hp. revert l p Hp. induction actions as [|x actions IH]; intros [|y l] [|p] Hp; simpl in Hp; try discriminate.
    - inversion Hp; subst. auto.
    - simpl. apply IH; exact Hp. }
  destruct Hpa as [Hpa Hpl]. exists p. split; [|split; [apply nth_error_Some; rewrite Hpl; discriminate|exact Hpl]].
  assert (E : nth_error (map a_item actions) p = Some (a_item a)) by (rewrite nth_error_map, Hpa; reflexivity).
  rewrite Hmap, nth_error_map in E. destruct (nth_error (seq 0 n) p) as [q|] eqn:Eq; [|discriminate].
  assert (q = p).
  { assert (p < n) by (rewrite <- Hlen; apply nth_error_Some; rewrite Hpa; discriminate).
    rewrite nth_error_nth' with (d := 0) in Eq by (rewrite seq_length; assumption). rewrite seq_nth in Eq by assumption. inversion Eq; reflexivity. }
  subst q. simpl in E. inversion E. reflexivity.
Qed.

End LinkSteps.

(* ================================================================== K. the protocol steps keep the item link *)

Lemma length_set_nth : forall A (l : list A) i x, length (list_set_nth i x l) = length l.
Proof. induction l as [|a l IH]; intros [|i] x; simpl; auto. Qed.

Lemma expect_not_item : forall c t r e, not_item e -> expect_item c t r e = c.
Proof. intros c t r e H. destruct e; try reflexivity. destruct H. Qed.

Definition ibad (s : isys) : bool := si_fault s || si_wiped s.

Section ItemSystem.
Variable ev : string -> dict -> evalres.

Lemma then_ret_unit : forall (m : M unit) c c' x, (m ;;; ret RUnit) c = (c', x) ->
  (is_exc x = false /\ m c = (c', Val tt)) \/ is_exc x = true.
Proof.
  intros m c c' x H. unfold bind in H. destruct (m c) as [c1 [[]|e]]; inversion H; subst; [left; auto|right; reflexivity].
Qed.

(* one event of the protocol, when nothing went wrong *)
Lemma ievent_core : forall s t r e F0 F',
  ilink (si_c s) F0 -> ibad (isys_event ev s t r e) = false ->
  fo (expect_item (si_c s) t r e) -> J1e (expect_item (si_c s) t r e) F' -> J2e (expect_item (si_c s) t r e) F' ->
  ilink (si_c (isys_event ev s t r e)) F' /\
  (forall t' r' l, items_of (expect_item (si_c s) t r e) t' r' = Some l -> (any_active l = true \/ (t', r') <> (t, r)) ->
                   items_of (si_c (isys_event ev s t r e)) t' r' = Some l).
Proof.
  intros s t r e F0 F' I Hb HfE H1 H2. unfold isys_event in *.
  destruct (api_exec ev (OpEvent t r e) (si_c s)) as [c' x] eqn:E. unfold ibad in Hb. simpl in Hb. simpl.
  apply orb_false_elim in Hb. destruct Hb as [Hb1 Hb2]. apply orb_false_elim in Hb1. destruct Hb1 as [_ Hx].
  apply orb_false_elim in Hb2. destruct Hb2 as [_ Hw].
  cbn [api_exec] in E. destruct (then_ret_unit _ _ _ _ E) as [[_ X]|X]; [|congruence].
  split; [eapply ievent_link; eassumption|].
  intros t' r' l Hl Hor. destruct I as [Hi _].
  eapply transfer_table; [exact HfE|eapply event_from_expected; eassumption|exact Hw|exact Hl|exact Hor].
Qed.

Lemma ibad_event_mono : forall s t r e, ibad s = true -> ibad (isys_event ev s t r e) = true.
Proof.
  intros s t r e H. unfold isys_event. destruct (api_exec ev (OpEvent t r e) (si_c s)) as [c' x]. unfold ibad in *. simpl.
  apply orb_prop in H. destruct H as [H|H]; rewrite H; simpl; [reflexivity|apply orb_true_r].
Qed.

Lemma ibad_with_inflight : forall s l, ibad (with_inflight s l) = ibad s.
Proof. reflexivity. Qed.

Lemma ibad_ack_mono : forall t r s a, ibad s = true -> ibad (isys_ack ev t r s a) = true.
Proof. intros t r s a H. unfold isys_ack. destruct (a_item a); apply ibad_event_mono; exact H. Qed.

Lemma ibad_fold_ack_mono : forall t r acts s, ibad s = true -> ibad (fold_left (isys_ack ev t r) acts s) = true.
Proof. induction acts as [|a acts IH]; intros s H; [exact H|]. simpl. apply IH. apply ibad_ack_mono; exact H. Qed.

Lemma ibad_ack_offer_mono : forall s o, ibad s = true -> ibad (isys_ack_offer ev s o) = true.
Proof.
  intros s o H. unfold isys_ack_offer. destruct (o_items_count o) as [[|m]|]; try (apply ibad_fold_ack_mono; exact H).
  apply ibad_event_mono. apply ibad_event_mono. exact H.
Qed.

Lemma ibad_fold_offer_mono : forall offers s, ibad s = true -> ibad (fold_left (isys_ack_offer ev) offers s) = true.
Proof. induction offers as [|o offers IH]; intros s H; [exact H|]. simpl. apply IH. apply ibad_ack_offer_mono; exact H. Qed.


Lemma not_bad_before : forall (f : isys -> isys) s, (ibad s = true -> ibad (f s) = true) -> ibad (f s) = false -> ibad s = false.
Proof. intros f s H Hf. destruct (ibad s) eqn:E; [rewrite (H eq_refl) in Hf; discriminate|reflexivity]. Qed.

(* acknowledging the offered items of one with-items task *)
Lemma ack_items_loop : forall t r acts s l,
  ilink (si_c s) (si_inflight s) -> items_of (si_c s) t r = Some l ->
  (forall a, In a acts -> exists i, a_item a = Some i /\ i < length l) ->
  ibad (fold_left (isys_ack ev t r) acts s) = false ->
  ilink (si_c (fold_left (isys_ack ev t r) acts s)) (si_inflight (fold_left (isys_ack ev t r) acts s)) /\
  (forall t' r' l2, (t', r') <> (t, r) -> items_of (si_c s) t' r' = Some l2 ->
                    items_of (si_c (fold_left (isys_ack ev t r) acts s)) t' r' = Some l2).
Proof.
  intros t r. induction acts as [|a acts IH]; intros s l I Hl Hacts Hb; simpl in *; [split; [exact I|auto]|].
  destruct (Hacts a (or_introl eq_refl)) as [i [Hai Hil]].
  assert (Hb1 : ibad (isys_ack ev t r s a) = false).
  { apply (not_bad_before (fun x => fold_left (isys_ack ev t r) acts x)); [apply ibad_fold_ack_mono|exact Hb]. }
  unfold isys_ack in *. rewrite Hai in *.
  set (s1 := with_inflight s (ikey_add (t, r, Some i) (si_inflight s))) in *.
  destruct I as [Hi [Hfo [H1 H2]]].
  destruct (expect_link (si_c s) (si_inflight s) t r i S_RUNNING JNull JNull l Hfo H1 H2 Hl Hil) as [HfE [HlE [Hack _]]].
  destruct (Hack eq_refl) as [J1' J2'].
  destruct (ievent_core s1 t r (EvItem i S_RUNNING JNull JNull) (si_inflight s) (ikey_add (t, r, Some i) (si_inflight s))) as [I' P'];
    [split; [exact Hi|split; [exact Hfo|split; assumption]]|exact Hb1|exact HfE|exact J1'|exact J2'|].
  set (s2 := isys_event ev s1 t r (EvItem i S_RUNNING JNull JNull)) in *.
  assert (Hinf : si_inflight s2 = ikey_add (t, r, Some i) (si_inflight s)).
  { unfold s2, isys_event. destruct (api_exec ev _ (si_c s1)); reflexivity. }
  assert (Hl2 : items_of (si_c s2) t r = Some (list_set_nth i S_RUNNING l)).
  { apply P'; [exact HlE|left]. unfold any_active. apply existsb_exists. exists S_RUNNING. split; [|reflexivity].
    destruct (nth_error l i) as [x|] eqn:E; [|apply nth_error_None in E; lia].
    eapply nth_error_In. eapply nth_error_set_nth_same. exact E. }
  destruct (IH s2 (list_set_nth i S_RUNNING l)) as [If Pf].
  - rewrite Hinf. exact I'.
  - exact Hl2.
  - intros a' Ha'. destruct (Hacts a' (or_intror Ha')) as [i' [A B]]. exists i'. rewrite length_set_nth. auto.
  - exact Hb.
  - split; [exact If|]. intros t' r' l2 Hne Hl2'. apply Pf; [exact Hne|]. apply P'; [|right; exact Hne].
    assert (HE : expect_item (si_c s1) t r (EvItem i S_RUNNING JNull JNull) =
                 set_ws (si_c s) (ws_set_staged (c_ws (si_c s)) (staged_update (record_item i S_RUNNING) t r (staged (c_ws (si_c s)))))).
    { unfold expect_item. simpl. destruct (items_of_entry _ _ _ _ Hl) as [s0 [_ [_ [_ [Hit Hg]]]]]. rewrite Hg, Hit.
      apply Nat.ltb_lt in Hil. rewrite Hil. reflexivity. }
    rewrite HE. rewrite items_of_update_other; [exact Hl2'|apply record_item_keeps|exact Hne].
Qed.

(* acknowledging the single action of a plain task (and the two events of an empty with-items task) *)
Lemma plain_event_step : forall s t r e F', not_item e -> ilink (si_c s) (si_inflight s) ->
  (forall t' r' j, In (t', r', Some j) F' <-> In (t', r', Some j) (si_inflight s)) ->
  ibad (isys_event ev s t r e) = false ->
  ilink (si_c (isys_event ev s t r e)) F' /\
  (forall t' r' l2, (t', r') <> (t, r) -> items_of (si_c s) t' r' = Some l2 -> items_of (si_c (isys_event ev s t r e)) t' r' = Some l2).
Proof.
  intros s t r e F' Hn I HF Hb. pose proof I as [Hi [Hfo [H1 H2]]].
  destruct (J_keys (si_c s) (si_inflight s) F' HF) as [K1 K2].
  destruct (ievent_core s t r e (si_inflight s) F') as [I' P']; try rewrite (expect_not_item _ _ _ _ Hn); auto.
  split; [exact I'|]. intros t' r' l2 Hne Hl2. apply P'; [rewrite (expect_not_item _ _ _ _ Hn); exact Hl2|right; exact Hne].
Qed.

Lemma ack_plain_loop : forall t r acts s,
  ilink (si_c s) (si_inflight s) -> (forall a, In a acts -> a_item a = None) ->
  ibad (fold_left (isys_ack ev t r) acts s) = false ->
  ilink (si_c (fold_left (isys_ack ev t r) acts s)) (si_inflight (fold_left (isys_ack ev t r) acts s)) /\
  (forall t' r' l2, (t', r') <> (t, r) -> items_of (si_c s) t' r' = Some l2 ->
                    items_of (si_c (fold_left (isys_ack ev t r) acts s)) t' r' = Some l2).
Proof.
  intros t r. induction acts as [|a acts IH]; intros s I Hacts Hb; simpl in *; [split; [exact I|auto]|].
  assert (Hb1 : ibad (isys_ack ev t r s a) = false).
  { apply (not_bad_before (fun x => fold_left (isys_ack ev t r) acts x)); [apply ibad_fold_ack_mono|exact Hb]. }
  unfold isys_ack in *. rewrite (Hacts a (or_introl eq_refl)) in *.
  set (s1 := with_inflight s (ikey_add (t, r, None) (si_inflight s))) in *.
  destruct (plain_event_step s1 t r (EvAction S_RUNNING JNull) (ikey_add (t, r, None) (si_inflight s)) Logic.I) as [I' P'].
  - destruct I as [Hi [Hfo [H1 H2]]]. unfold s1; simpl. split; [exact Hi|split; [exact Hfo|]].
    destruct (J_keys (si_c s) (si_inflight s) (ikey_add (t, r, None) (si_inflight s))) as [K1 K2]; [|split; auto].
    intros t' r' j. rewrite In_ikey_add. split; [intros [X|X]; [discriminate X|exact X]|auto].
  - intros; reflexivity.
  - exact Hb1.
  - set (s2 := isys_event ev s1 t r (EvAction S_RUNNING JNull)) in *.
    assert (Hinf : si_inflight s2 = ikey_add (t, r, None) (si_inflight s)).
    { unfold s2, isys_event. destruct (api_exec ev _ (si_c s1)); reflexivity. }
    destruct (IH s2) as [If Pf]; [rewrite Hinf; exact I'|intros a' Ha'; apply Hacts; right; exact Ha'|exact Hb|].
    split; [exact If|]. intros t' r' l2 Hne Hl2. apply Pf; [exact Hne|]. apply P'; [exact Hne|exact Hl2].
Qed.


Definition pend_ok (c : cstate) (o : offer) : Prop :=
  match o_items_count o with
  | Some (S m) => exists l, items_of c (o_id o) (o_route o) = Some l /\
                            forall a, In a (o_actions o) -> exists i, a_item a = Some i /\ i < length l
  | Some O => True
  | None => forall a, In a (o_actions o) -> a_item a = None
  end.

Lemma pend_of_offer_ok : forall c1 s o, offer_ok c1 s o -> pend_ok c1 o.
Proof.
  intros c1 s o [Hid [Hr H]]. unfold pend_ok. destruct (o_items_count o) as [[|m]|]; [exact I| |exact H].
  destruct H as [l [conc [conc' [actions [Hl [Hlen [Hmap [Hch _]]]]]]]]. exists l. rewrite Hid, Hr. split; [exact Hl|].
  intros a Ha. destruct (chosen_in_table _ _ _ _ _ _ Hch Hmap Hlen a Ha) as [i [A [B _]]]. exists i. auto.
Qed.

Lemma inflight_event : forall s t r e, si_inflight (isys_event ev s t r e) = si_inflight s.
Proof. intros. unfold isys_event. destruct (api_exec ev _ (si_c s)); reflexivity. Qed.

Lemma ack_offer_link : forall s o, ilink (si_c s) (si_inflight s) -> pend_ok (si_c s) o ->
  ibad (isys_ack_offer ev s o) = false ->
  ilink (si_c (isys_ack_offer ev s o)) (si_inflight (isys_ack_offer ev s o)) /\
  (forall t' r' l2, (t', r') <> (o_id o, o_route o) -> items_of (si_c s) t' r' = Some l2 ->
                    items_of (si_c (isys_ack_offer ev s o)) t' r' = Some l2).
Proof.
  intros s o I Hp Hb. unfold isys_ack_offer, pend_ok in *. destruct (o_items_count o) as [[|m]|].
  - set (s1 := isys_event ev s (o_id o) (o_route o) (EvAction S_RUNNING JNull)) in *.
    assert (Hb1 : ibad s1 = false).
    { apply (not_bad_before (fun x => isys_event ev x (o_id o) (o_route o) (EvAction S_SUCCEEDED (JList [])))); [apply ibad_event_mono|exact Hb]. }
    destruct (plain_event_step s (o_id o) (o_route o) (EvAction S_RUNNING JNull) (si_inflight s) Logic.I I) as [I1 P1];
      [intros; tauto|exact Hb1|]. fold s1 in I1, P1.
    assert (E1 : si_inflight s1 = si_inflight s) by apply inflight_event.
    destruct (plain_event_step s1 (o_id o) (o_route o) (EvAction S_SUCCEEDED (JList [])) (si_inflight s1) Logic.I) as [I2 P2];
      [rewrite E1; exact I1|intros; tauto|exact Hb|].
    split; [rewrite inflight_event; exact I2|]. intros t' r' l2 Hne H. apply P2; [exact Hne|]. apply P1; assumption.
  - destruct Hp as [l [Hl Ha]]. exact (ack_items_loop _ _ _ _ _ I Hl Ha Hb).
  - exact (ack_plain_loop _ _ _ _ I Hp Hb).
Qed.

Lemma pend_ok_persist : forall c c' o, pend_ok c o ->
  (forall l2, items_of c (o_id o) (o_route o) = Some l2 -> items_of c' (o_id o) (o_route o) = Some l2) -> pend_ok c' o.
Proof.
  intros c c' o H P. unfold pend_ok in *. destruct (o_items_count o) as [[|m]|]; auto.
  destruct H as [l [Hl Ha]]. exists l. split; [apply P; exact Hl|exact Ha].
Qed.

Lemma ack_offers_link : forall offers s, ilink (si_c s) (si_inflight s) ->
  (forall o, In o offers -> pend_ok (si_c s) o) -> offers_dup offers = false ->
  ibad (fold_left (isys_ack_offer ev) offers s) = false ->
  ilink (si_c (fold_left (isys_ack_offer ev) offers s)) (si_inflight (fold_left (isys_ack_offer ev) offers s)).
Proof.
  induction offers as [|o offers IH]; intros s I Hp Hd Hb; simpl in *; [exact I|].
  apply orb_false_iff in Hd. destruct Hd as [Hd1 Hd2].
  assert (Hb1 : ibad (isys_ack_offer ev s o) = false).
  { apply (not_bad_before (fun x => fold_left (isys_ack_offer ev) offers x)); [apply ibad_fold_offer_mono|exact Hb]. }
  destruct (ack_offer_link s o I (Hp o (or_introl eq_refl)) Hb1) as [I1 P1].
  apply IH; [exact I1| |exact Hd2|exact Hb].
  intros o2 Ho2. apply (pend_ok_persist (si_c s)); [apply Hp; right; exact Ho2|].
  intros l2. apply P1. intros E. inversion E as [[E1 E2]].
  assert (X : existsb (fun o' => String.eqb (o_id o') (o_id o) && Nat.eqb (o_route o') (o_route o)) offers = true).
  { apply existsb_exists. exists o2. split; [exact Ho2|]. rewrite E1, E2, String.eqb_refl, Nat.eqb_refl. reflexivity. }
  rewrite X in Hd1. discriminate.
Qed.

(* ---- the protocol steps ---- *)
Lemma poll_link : forall s, ilink (si_c s) (si_inflight s) -> ibad (isys_poll ev s) = false ->
  ilink (si_c (isys_poll ev s)) (si_inflight (isys_poll ev s)).
Proof.
  intros s I Hb. unfold isys_poll in *. destruct (get_next_tasks ev (si_c s)) as [c1 [offers|x]] eqn:Hg.
  - destruct I as [Hi [Hfo [H1 H2]]].
    destruct (gn_items_eff ev _ _ _ Hi Hg) as [HR Hof].
    destruct (J_Rgn _ _ _ HR H1 H2) as [K1 K2].
    pose proof (fo_get_next_tasks ev _ _ _ Hg Hfo) as Hfo1.
    set (s0 := {| si_c := c1; si_inflight := si_inflight s; si_acc := si_acc s; si_fault := si_fault s;
                  si_wiped := si_wiped s || offers_dup offers |}) in *.
    assert (Hb0 : ibad s0 = false).
    { apply (not_bad_before (fun x => fold_left (isys_ack_offer ev) offers x)); [apply ibad_fold_offer_mono|exact Hb]. }
    assert (Hd : offers_dup offers = false).
    { unfold ibad, s0 in Hb0. simpl in Hb0. apply orb_false_iff in Hb0. destruct Hb0 as [_ X]. apply orb_false_iff in X. tauto. }
    apply ack_offers_link; [|intros o Ho|exact Hd|exact Hb].
    + unfold s0; simpl. split; [|split; [exact Hfo1|split; assumption]].
      destruct HR as [_ [_ [Hin _]]]. rewrite Hin. exact Hi.
    + destruct (Hof o Ho) as [e [_ [_ [_ Hok]]]]. exact (pend_of_offer_ok _ _ _ Hok).
  - unfold ibad in Hb. simpl in Hb. discriminate.
Qed.


Lemma ilink_keys : forall c F F', (forall t r j, In (t, r, Some j) F' <-> In (t, r, Some j) F) -> ilink c F -> ilink c F'.
Proof.
  intros c F F' H [Hi [Hfo [H1 H2]]]. destruct (J_keys c F F' H) as [K1 K2]. split; [exact Hi|split; [exact Hfo|split; auto]].
Qed.

Lemma completed_not_active : forall st, status_in st report_statuses = true -> status_in st ACTIVE_STATUSES = false.
Proof. intros st; destruct st; vm_compute; congruence. Qed.

Lemma report_link : forall s t r item st result, ilink (si_c s) (si_inflight s) ->
  ibad (isys_report ev s t r item st result) = false ->
  ilink (si_c (isys_report ev s t r item st result)) (si_inflight (isys_report ev s t r item st result)).
Proof.
  intros s t r item st result I Hb. unfold isys_report in *.
  destruct (ikey_in (t, r, item) (si_inflight s) && status_in st report_statuses) eqn:En; [|exact I].
  apply andb_true_iff in En. destruct En as [Hin Hst]. apply ikey_in_iff in Hin.
  destruct item as [i|].
  - pose proof I as [Hi [Hfo [H1 H2]]].
    destruct (H1 _ _ _ Hin) as [l [Hl Hn]].
    assert (Hil : i < length l) by (apply nth_error_Some; rewrite Hn; discriminate).
    set (acc' := acc_set (si_acc s) (t, r) i result) in *.
    set (e := EvItem i st result (acc_list (acc_get acc' (t, r)))) in *.
    set (s2 := {| si_c := si_c (with_inflight s (ikey_remove (t, r, Some i) (si_inflight s)));
                  si_inflight := si_inflight (with_inflight s (ikey_remove (t, r, Some i) (si_inflight s)));
                  si_acc := acc'; si_fault := si_fault (with_inflight s (ikey_remove (t, r, Some i) (si_inflight s)));
                  si_wiped := si_wiped (with_inflight s (ikey_remove (t, r, Some i) (si_inflight s))) |}) in *.
    destruct (expect_link (si_c s) (si_inflight s) t r i st result (acc_list (acc_get acc' (t, r))) l Hfo H1 H2 Hl Hil)
      as [HfE [_ [_ Hrem]]].
    destruct (Hrem (completed_not_active _ Hst)) as [J1' J2'].
    destruct (ievent_core s2 t r e (si_inflight s) (ikey_remove (t, r, Some i) (si_inflight s))) as [I' _];
      [exact I|exact Hb|exact HfE|exact J1'|exact J2'|].
    rewrite inflight_event. exact I'.
  - set (s1 := with_inflight s (ikey_remove (t, r, None) (si_inflight s))) in *.
    destruct (plain_event_step s1 t r (EvAction st result) (si_inflight s1) Logic.I) as [I' _]; [|intros; tauto|exact Hb|].
    + unfold s1; simpl. apply (ilink_keys _ (si_inflight s)); [|exact I].
      intros t' r' j. rewrite In_ikey_remove. split; [tauto|]. intros X; split; [exact X|discriminate].
    + rewrite inflight_event. exact I'.
Qed.


(* ---- the conductor before its first call ---- *)
Definition unborn (c : cstate) : Prop := c_init c = false /\ c_ws c = empty_ws.

Lemma first_only_none : forall l, (forall s, In s l -> s_items s = None) -> first_only l.
Proof. induction l as [|a l IH]; intros H; simpl; [exact Logic.I|]. split; [intros s2 Hs2 _; apply H; right; exact Hs2|apply IH; intros; apply H; right; assumption]. Qed.

Lemma born_link : forall c c1, unborn c -> ensure_ws ev c = (c1, Val tt) -> ilink c1 [].
Proof.
  intros c c1 [Hi Hw] H. destruct (ensure_fresh ev c c1 Hi Hw H) as [Hi1 [_ [_ [_ [_ Hst]]]]].
  assert (Hn : forall s, In s (staged (c_ws c1)) -> s_items s = None).
  { destruct Hst as [[_ E]|[_ E]]; rewrite E; [intros s []|]. intros s Hs. apply in_map_iff in Hs. destruct Hs as [x [<- _]]. reflexivity. }
  split; [exact Hi1|split; [apply first_only_none; exact Hn|split]].
  - intros t r j [].
  - intros s l j st Hs Hl. rewrite (Hn s Hs) in Hl. discriminate.
Qed.

Lemma unborn_call : forall A (k : unit -> M A) c, unborn c ->
  (exists c1 e, ensure_ws ev c = (c1, Exc e) /\ bind (ensure_ws ev) k c = (c1, Exc e)) \/
  (exists c1, ensure_ws ev c = (c1, Val tt) /\ ilink c1 [] /\ bind (ensure_ws ev) k c = bind (ensure_ws ev) k c1).
Proof.
  intros A k c Hu. destruct (ensure_ws ev c) as [c1 [[]|e]] eqn:E.
  - right. exists c1. split; [reflexivity|]. pose proof (born_link _ _ Hu E) as I. split; [exact I|].
    apply ensure_then; [exact E|]. destruct I as [X _]. exact X.
  - left. exists c1, e. split; [reflexivity|]. unfold bind. rewrite E. reflexivity.
Qed.

Definition set_c (s : isys) (c : cstate) : isys :=
  {| si_c := c; si_inflight := si_inflight s; si_acc := si_acc s; si_fault := si_fault s; si_wiped := si_wiped s |}.

Definition isys_inv (s : isys) : Prop :=
  ibad s = false -> (unborn (si_c s) /\ si_inflight s = []) \/ ilink (si_c s) (si_inflight s).

Lemma ibad_poll_mono : forall s, ibad s = true -> ibad (isys_poll ev s) = true.
Proof.
  intros s H. unfold isys_poll. destruct (get_next_tasks ev (si_c s)) as [c1 [offers|x]]; [|reflexivity].
  apply ibad_fold_offer_mono. unfold ibad in *. simpl. apply orb_true_iff in H. destruct H as [H|H]; rewrite H; [reflexivity|].
  simpl. apply orb_true_r.
Qed.

Lemma poll_inv : forall s, isys_inv s -> isys_inv (isys_poll ev s).
Proof.
  intros s Hs Hb. right.
  destruct (Hs (not_bad_before _ _ (ibad_poll_mono s) Hb)) as [[Hu HF]|I]; [|apply poll_link; assumption].
  assert (XX : (exists c1 e, get_next_tasks ev (si_c s) = (c1, Exc e)) \/
               (exists c1, ilink c1 [] /\ get_next_tasks ev (si_c s) = get_next_tasks ev c1)).
  { unfold get_next_tasks.
    match goal with |- context [bind (ensure_ws ev) ?k (si_c s)] =>
      destruct (unborn_call _ k (si_c s) Hu) as [[c1 [e [_ X]]]|[c1 [_ [I X]]]] end;
      [left; exists c1, e; exact X|right; exists c1; split; [exact I|exact X]]. }
  destruct XX as [[c1 [e X]]|[c1 [I X]]].
  - unfold isys_poll in Hb. rewrite X in Hb. discriminate Hb.
  - assert (E : isys_poll ev s = isys_poll ev (set_c s c1)).
    { unfold isys_poll. simpl. rewrite X. reflexivity. }
    rewrite E in *. apply poll_link; [|exact Hb]. simpl. rewrite HF. exact I.
Qed.

Lemma report_inv : forall s t r item st result, isys_inv s -> isys_inv (isys_report ev s t r item st result).
Proof.
  intros s t r item st result Hs Hb.
  assert (Hb0 : ibad s = false).
  { apply (not_bad_before (fun x => isys_report ev x t r item st result)); [|exact Hb].
    intros H. unfold isys_report. destruct (ikey_in _ _ && _); [|exact H].
    destruct item; apply ibad_event_mono; exact H. }
  destruct (Hs Hb0) as [[Hu HF]|I]; [|right; apply report_link; assumption].
  left. unfold isys_report. rewrite HF. simpl. split; [exact Hu|exact HF].
Qed.


Lemma ilink_staged : forall c c' F, staged (c_ws c') = staged (c_ws c) -> c_init c' = true -> ilink c F -> ilink c' F.
Proof.
  intros c c' F H Hi [_ [Hfo [H1 H2]]]. destruct (J_same_staged c c' F H) as [A [B C]]. split; [exact Hi|split; [auto|split; auto]].
Qed.

Lemma request_on_link : forall c F st c' x, ilink c F -> api_exec ev (OpRequest st) c = (c', x) -> ilink c' F.
Proof.
  intros c F st c' x I E. pose proof I as [Hi _]. cbn [api_exec] in E. unfold bind at 1 in E.
  destruct (request_workflow_status ev st c) as [c2 r] eqn:R.
  assert (c' = c2) by (destruct r; inversion E; reflexivity). subst c2.
  pose proof (control_request_frame ev st c c' r Hi R) as [_ [_ [Hst _]]].
  apply (ilink_staged c); [exact Hst|exact (presi_request_workflow_status ev st c c' r R Hi)|exact I].
Qed.

Lemma request_inv : forall s st, isys_inv s -> isys_inv (isys_request ev s st).
Proof.
  intros s st Hs. unfold isys_request. destruct (status_in st request_statuses); [|exact Hs].
  destruct (api_exec ev (OpRequest st) (si_c s)) as [c' x] eqn:E. intros Hb. unfold ibad in Hb. simpl in Hb.
  apply orb_false_iff in Hb. destruct Hb as [Hb1 Hb2]. apply orb_false_iff in Hb1. destruct Hb1 as [Hb1 Hb3].
  assert (Hb0 : ibad s = false) by (unfold ibad; rewrite Hb1, Hb2; reflexivity).
  right. simpl. destruct (Hs Hb0) as [[Hu HF]|I]; [|eapply request_on_link; eassumption].
  rewrite HF. destruct (ensure_ws ev (si_c s)) as [c1 [[]|e]] eqn:En; [|discriminate Hb3].
  pose proof (born_link _ _ Hu En) as I. pose proof I as [Hi1 _].
  assert (E1 : api_exec ev (OpRequest st) c1 = (c', x)).
  { rewrite <- E. cbn [api_exec]. unfold request_workflow_status, bind. rewrite En, (ensure_ws_inited ev c1 Hi1). reflexivity. }
  eapply request_on_link; eassumption.
Qed.

Lemma call_on_link : forall c F op c' x, op = OpRender \/ op = OpPersist -> ilink c F ->
  api_exec ev op c = (c', x) -> is_exc x = false -> ilink c' F.
Proof.
  intros c F op c' x Hop I E Hx. pose proof I as [Hi _]. destruct Hop as [-> | ->]; cbn [api_exec] in E;
    destruct (then_ret_unit _ _ _ _ E) as [[_ X]|Y]; try congruence.
  - pose proof (vlt_render_workflow_output ev c Hi c' tt X) as [_ [_ [Hst [_ [_ [_ [_ [_ Hin]]]]]]]].
    apply (ilink_staged c); [exact Hst|congruence|exact I].
  - rewrite (persist_identity ev c Hi) in X. inversion X; subst. exact I.
Qed.

Lemma call_inv : forall s op, op = OpRender \/ op = OpPersist -> isys_inv s -> isys_inv (isys_call ev s op).
Proof.
  intros s op Hop Hs. unfold isys_call. destruct (api_exec ev op (si_c s)) as [c' x] eqn:E. intros Hb. unfold ibad in Hb. simpl in Hb.
  apply orb_false_iff in Hb. destruct Hb as [Hb1 Hb2]. apply orb_false_iff in Hb1. destruct Hb1 as [Hb1 Hb3].
  assert (Hb0 : ibad s = false) by (unfold ibad; rewrite Hb1, Hb2; reflexivity).
  right. simpl. destruct (Hs Hb0) as [[Hu HF]|I]; [|eapply call_on_link; eassumption].
  rewrite HF.
  assert (XX : exists c1, ilink c1 [] /\ api_exec ev op c1 = (c', x)).
  { destruct Hop as [-> | ->]; cbn [api_exec] in E |- *;
      (destruct (then_ret_inv _ _ _ _ _ _ E) as [[Hx X]|[e [Hx _]]]; [|rewrite Hx in Hb3; discriminate Hb3]).
    - unfold render_workflow_output in X.
      match type of X with bind (ensure_ws ev) ?k (si_c s) = _ =>
        destruct (unborn_call _ k (si_c s) Hu) as [[c1 [e [_ Z]]]|[c1 [_ [I Z]]]] end.
      + rewrite Z in X. discriminate X.
      + exists c1. split; [exact I|]. rewrite Z in X. unfold bind at 1. unfold render_workflow_output. rewrite X, Hx. reflexivity.
    - unfold persist in X.
      match type of X with bind (ensure_ws ev) ?k (si_c s) = _ =>
        destruct (unborn_call _ k (si_c s) Hu) as [[c1 [e [_ Z]]]|[c1 [_ [I Z]]]] end.
      + rewrite Z in X. discriminate X.
      + exists c1. split; [exact I|]. rewrite Z in X. unfold bind at 1. unfold persist. rewrite X, Hx. reflexivity. }
  destruct XX as [c1 [I E1]]. eapply call_on_link; eassumption.
Qed.

Theorem isys_step_inv : forall s op, isys_inv s -> isys_inv (isys_step ev s op).
Proof.
  intros s op Hs. destruct op; cbn [isys_step].
  - apply request_inv; exact Hs.
  - apply poll_inv; exact Hs.
  - apply report_inv; exact Hs.
  - apply request_inv; exact Hs.
  - apply call_inv; [left; reflexivity|exact Hs].
  - apply call_inv; [right; reflexivity|exact Hs].
Qed.

Theorem isys_run_inv : forall ops s, isys_inv s -> isys_inv (isys_run ev ops s).
Proof. induction ops as [|op ops IH]; intros s Hs; [exact Hs|]. simpl. apply IH. apply isys_step_inv; exact Hs. Qed.

Lemma isys_init_inv : forall sp g inputs parent, isys_inv (isys_init sp g inputs parent).
Proof. intros sp g inputs parent _. left. split; [split; reflexivity|reflexivity]. Qed.


(* ---- properties of every item table ---- *)
Definition Tall (P : list status -> Prop) (c : cstate) : Prop :=
  forall s l, In s (staged (c_ws c)) -> s_items s = Some l -> P l.

Lemma Tall_same_staged : forall P c c', staged (c_ws c') = staged (c_ws c) -> Tall P c -> Tall P c'.
Proof. intros P c c' H T s l Hs. rewrite H in Hs. apply T; exact Hs. Qed.

Lemma Tall_Rin : forall P cE c', Rin nokey cE c' -> Tall P cE -> Tall P c'.
Proof. intros P cE c' R T s' l Hs Hl. destruct (R s' l Hs Hl (fun x => x)) as [s [A [_ [_ B]]]]. exact (T s l A B). Qed.

Lemma ievent_rin : forall s t r e, c_init (si_c s) = true -> ibad (isys_event ev s t r e) = false ->
  Rin nokey (expect_item (si_c s) t r e) (si_c (isys_event ev s t r e)).
Proof.
  intros s t r e Hi Hb. unfold isys_event in *.
  destruct (api_exec ev (OpEvent t r e) (si_c s)) as [c' x] eqn:E. unfold ibad in Hb. simpl in Hb. simpl.
  apply orb_false_elim in Hb. destruct Hb as [Hb1 _]. apply orb_false_elim in Hb1. destruct Hb1 as [_ Hx].
  cbn [api_exec] in E. destruct (then_ret_unit _ _ _ _ E) as [[_ X]|X]; [|congruence].
  eapply event_from_expected; eassumption.
Qed.

Lemma items_back : forall cE c' t r l, fo cE -> Rin nokey cE c' -> items_of c' t r = Some l -> items_of cE t r = Some l.
Proof.
  intros cE c' t r l Hfo R H. destruct (items_of_entry _ _ _ _ H) as [s' [Hs' [Hid [Hrt [Hit _]]]]].
  destruct (R s' l Hs' Hit (fun x => x)) as [sA [HsA [HidA [HrtA HitA]]]].
  assert (Hf : find (stg_matches (s_id sA) (s_route sA)) (staged (c_ws cE)) = Some sA).
  { apply first_only_find; [exact Hfo|exact HsA|rewrite HitA; discriminate]. }
  unfold items_of, get_staged_task. rewrite <- Hid, <- Hrt, <- HidA, <- HrtA, Hf. exact HitA.
Qed.

Lemma Tall_expect : forall P c t r i st res acc, Tall P c -> fo c ->
  (forall l, items_of c t r = Some l -> i < length l -> P (list_set_nth i st l)) ->
  Tall P (expect_item c t r (EvItem i st res acc)).
Proof.
  intros P c t r i st res acc T Hfo Hp. unfold expect_item.
  destruct (get_staged_task (c_ws c) t r) as [s0|] eqn:Eg; [|exact T].
  destruct (s_items s0) as [l0|] eqn:El; [|exact T]. destruct (Nat.ltb i (length l0)) eqn:Elt; [|exact T].
  apply Nat.ltb_lt in Elt.
  assert (Hio : items_of c t r = Some l0) by (unfold items_of; rewrite Eg; exact El).
  intros s l Hs Hl. simpl in Hs. apply In_staged_update_m in Hs. destruct Hs as [Hs|[s1 [Hs1 [Hm ->]]]]; [exact (T s l Hs Hl)|].
  assert (Hl' : match s_items s1 with Some l => Some (list_set_nth i st l) | None => None end = Some l).
  { rewrite <- Hl. unfold record_item. destruct s1; reflexivity. }
  destruct (s_items s1) as [l1|] eqn:E1; [|discriminate]. inversion Hl'; subst l.
  assert (Hf : find (stg_matches (s_id s1) (s_route s1)) (staged (c_ws c)) = Some s1).
  { apply (first_only_find _ s1 Hfo Hs1). rewrite E1. discriminate. }
  apply stg_matches_eq in Hm. destruct Hm as [Hm1 Hm2]. rewrite Hm1, Hm2 in Hf.
  unfold get_staged_task in Eg. rewrite Eg in Hf. inversion Hf; subst s0. rewrite E1 in El. inversion El; subst l0.
  apply Hp; [exact Hio|exact Elt].
Qed.


Lemma expect_item_eq : forall c t r i st res acc l, items_of c t r = Some l -> i < length l ->
  expect_item c t r (EvItem i st res acc) =
  set_ws c (ws_set_staged (c_ws c) (staged_update (record_item i st) t r (staged (c_ws c)))).
Proof.
  intros c t r i st res acc l Hl Hil. unfold expect_item. destruct (items_of_entry _ _ _ _ Hl) as [s0 [_ [_ [_ [Hit Hg]]]]].
  rewrite Hg, Hit. apply Nat.ltb_lt in Hil. rewrite Hil. reflexivity.
Qed.

(* one item acknowledgement, with everything it does to the item tables *)
Lemma ack_item_step : forall t r s a i l,
  ilink (si_c s) (si_inflight s) -> items_of (si_c s) t r = Some l -> a_item a = Some i -> i < length l ->
  ibad (isys_ack ev t r s a) = false ->
  ilink (si_c (isys_ack ev t r s a)) (si_inflight (isys_ack ev t r s a)) /\
  items_of (si_c (isys_ack ev t r s a)) t r = Some (list_set_nth i S_RUNNING l) /\
  (forall t' r' l2, (t', r') <> (t, r) -> items_of (si_c s) t' r' = Some l2 ->
                    items_of (si_c (isys_ack ev t r s a)) t' r' = Some l2) /\
  (forall t' r' l2, (t', r') <> (t, r) -> items_of (si_c (isys_ack ev t r s a)) t' r' = Some l2 ->
                    items_of (si_c s) t' r' = Some l2) /\
  (forall P : list status -> Prop, Tall P (si_c s) -> P (list_set_nth i S_RUNNING l) -> Tall P (si_c (isys_ack ev t r s a))).
Proof.
  intros t r s a i l I Hl Hai Hil Hb1. unfold isys_ack in *. rewrite Hai in *.
  set (s1 := with_inflight s (ikey_add (t, r, Some i) (si_inflight s))) in *.
  pose proof I as [Hi [Hfo [H1 H2]]].
  destruct (expect_link (si_c s) (si_inflight s) t r i S_RUNNING JNull JNull l Hfo H1 H2 Hl Hil) as [HfE [HlE [Hack _]]].
  destruct (Hack eq_refl) as [J1' J2'].
  destruct (ievent_core s1 t r (EvItem i S_RUNNING JNull JNull) (si_inflight s) (ikey_add (t, r, Some i) (si_inflight s))) as [I' P'];
    [exact I|exact Hb1|exact HfE|exact J1'|exact J2'|].
  pose proof (ievent_rin s1 t r (EvItem i S_RUNNING JNull JNull) Hi Hb1) as HR.
  set (s2 := isys_event ev s1 t r (EvItem i S_RUNNING JNull JNull)) in *.
  assert (HE : expect_item (si_c s1) t r (EvItem i S_RUNNING JNull JNull) =
               set_ws (si_c s) (ws_set_staged (c_ws (si_c s)) (staged_update (record_item i S_RUNNING) t r (staged (c_ws (si_c s))))))
    by (apply (expect_item_eq _ _ _ _ _ _ _ l); assumption).
  split; [unfold s2; rewrite inflight_event; exact I'|]. split; [|split; [|split]].
  - apply P'; [exact HlE|left]. unfold any_active. apply existsb_exists. exists S_RUNNING. split; [|reflexivity].
    destruct (nth_error l i) as [x|] eqn:E; [|apply nth_error_None in E; lia].
    eapply nth_error_In. eapply nth_error_set_nth_same. exact E.
  - intros t' r' l2 Hne Hl2'. apply P'; [|right; exact Hne].
    rewrite HE. rewrite items_of_update_other; [exact Hl2'|apply record_item_keeps|exact Hne].
  - intros t' r' l2 Hne Hl2'. pose proof (items_back _ _ _ _ _ HfE HR Hl2') as B.
    pose proof HE as HE'. change (si_c s1) with (si_c s) in HE'. rewrite HE' in B. rewrite items_of_update_other in B; [exact B|apply record_item_keeps|exact Hne].
  - intros P T Hp. apply (Tall_Rin P _ _ HR). apply Tall_expect; [exact T|exact Hfo|].
    intros l0 Hl0 _. simpl in Hl0. rewrite Hl in Hl0. inversion Hl0; subst l0. exact Hp.
Qed.


(* ---- the shape of an item table: statuses, then the items not offered yet ---- *)
Definition shaped (l : list status) : Prop :=
  exists pre u, l = app pre (repeat S_UNSET u) /\ Forall (fun st => st <> S_UNSET) pre.
Definition nact (l : list status) : nat := length (filter (fun st => status_in st ACTIVE_STATUSES) l).

Lemma shaped_repeat : forall n, shaped (repeat S_UNSET n).
Proof. intro n. exists [], n. split; [reflexivity|constructor]. Qed.

Lemma set_nth_app_l : forall A (l1 l2 : list A) i x, i < length l1 -> list_set_nth i x (app l1 l2) = app (list_set_nth i x l1) l2.
Proof.
  induction l1 as [|a l1 IH]; intros l2 i x H; simpl in *; [lia|]. destruct i; [reflexivity|]. simpl. rewrite IH; [reflexivity|lia].
Qed.

Lemma set_nth_app_r : forall A (l1 l2 : list A) x, list_set_nth (length l1) x (app l1 l2) = app l1 (list_set_nth 0 x l2).
Proof. induction l1 as [|a l1 IH]; intros l2 x; simpl; [reflexivity|]. rewrite IH. reflexivity. Qed.

Lemma nth_error_repeat : forall A (x : A) n i y, nth_error (repeat x n) i = Some y -> y = x.
Proof. intros A x n i y H. apply nth_error_In in H. apply repeat_spec in H. exact H. Qed.

Lemma Forall_set_nth : forall A (P : A -> Prop) l i x, Forall P l -> P x -> Forall P (list_set_nth i x l).
Proof.
  induction l as [|a l IH]; intros i x H Hx; [destruct i; constructor|]. inversion H; subst.
  destruct i; simpl; constructor; auto.
Qed.

(* a status that is not "unset" is overwritten by one that is not: the shape stays *)
Lemma shaped_set_nonunset : forall l i st0 st, shaped l -> nth_error l i = Some st0 -> st0 <> S_UNSET -> st <> S_UNSET ->
  shaped (list_set_nth i st l).
Proof.
  intros l i st0 st [pre [u [-> Hf]]] Hn H0 Hst.
  destruct (Nat.lt_ge_cases i (length pre)) as [Hlt|Hge].
  - exists (list_set_nth i st pre), u. split; [apply set_nth_app_l; exact Hlt|apply Forall_set_nth; assumption].
  - rewrite nth_error_app2 in Hn by exact Hge. apply nth_error_repeat in Hn. contradiction.
Qed.

Lemma set_first_unset : forall pre u st,
  list_set_nth (length pre) st (app pre (repeat S_UNSET (S u))) = app (app pre [st]) (repeat S_UNSET u).
Proof. intros. rewrite set_nth_app_r. simpl. rewrite <- app_assoc. reflexivity. Qed.

Lemma nact_app : forall l1 l2, nact (app l1 l2) = nact l1 + nact l2.
Proof. intros. unfold nact. rewrite filter_app, app_length. reflexivity. Qed.
Lemma nact_repeat_unset : forall u, nact (repeat S_UNSET u) = 0.
Proof. induction u; [reflexivity|]. unfold nact in *. simpl. exact IHu. Qed.
Lemma nact_repeat_running : forall m, nact (repeat S_RUNNING m) = m.
Proof. induction m; [reflexivity|]. change (repeat S_RUNNING (S m)) with (app [S_RUNNING] (repeat S_RUNNING m)). rewrite nact_app, IHm. reflexivity. Qed.

Lemma nact_cons : forall x l, nact (x :: l) = (if status_in x ACTIVE_STATUSES then 1 else 0) + nact l.
Proof. intros x l. unfold nact. cbn [filter]. destruct (status_in x ACTIVE_STATUSES); reflexivity. Qed.

(* replacing an active status by one that is not lowers the count; never raises it *)
Lemma nact_set_inactive : forall l i st, status_in st ACTIVE_STATUSES = false -> nact (list_set_nth i st l) <= nact l.
Proof.
  induction l as [|a l IH]; intros i st H; [destruct i; simpl; lia|]. destruct i; cbn [list_set_nth]; rewrite !nact_cons.
  - rewrite H. lia.
  - specialize (IH i st H). lia.
Qed.

(* the items chosen from a shaped table are the next ones: indices p, p+1, ... where p is the first unset index *)
Lemma notrun_shaped : forall pre (actions : list action_spec) start u,
  map a_item actions = map Some (seq start (length actions)) -> Forall (fun st => st <> S_UNSET) pre ->
  map a_item (map fst (items_notrun (combine actions (app pre (repeat S_UNSET u))))) =
  map Some (seq (start + length pre) (Nat.min (length actions - length pre) u)).
Proof.
  induction pre as [|x pre IH]; intros actions start u Hm Hf.
  - simpl. rewrite Nat.add_0_r, Nat.sub_0_r. revert start u Hm.
    induction actions as [|a actions IHa]; intros start u Hm; [reflexivity|].
    destruct u as [|u]; [reflexivity|].
    simpl in Hm. inversion Hm as [[Ha Hm']]. simpl. rewrite Ha. f_equal. apply IHa. exact Hm'.
  - inversion Hf as [|? ? Hx Hf']; subst. destruct actions as [|a actions]; [reflexivity|].
    simpl in Hm. inversion Hm as [[Ha Hm']]. simpl.
    assert (E : status_eqb x S_UNSET = false).
    { destruct (status_eqb x S_UNSET) eqn:E; [apply status_eqb_eq in E; contradiction|reflexivity]. }
    unfold items_notrun in *. simpl. rewrite E. rewrite (IH actions (S start) u Hm' Hf').
    f_equal. f_equal. lia.
Qed.

Lemma firstn_seq_some : forall k p M, firstn k (map Some (seq p M)) = map Some (seq p (Nat.min k M)).
Proof.
  induction k as [|k IH]; intros p M; [reflexivity|]. destruct M as [|M]; [reflexivity|]. simpl. f_equal. apply IH.
Qed.

Lemma chosen_seq : forall conc (actions : list action_spec) pre u acts conc' n,
  choose_items conc (combine actions (app pre (repeat S_UNSET u))) = Val (acts, conc') ->
  map a_item actions = map Some (seq 0 n) -> length actions = n -> Forall (fun st => st <> S_UNSET) pre ->
  exists m, map a_item acts = map Some (seq (length pre) m) /\ m <= u /\ m <= n - length pre /\ length acts = m.
Proof.
  intros conc actions pre u acts conc' n H Hm Hn Hf.
  destruct (offered_items_are_first_unset _ _ _ _ _ H) as [k ->].
  rewrite <- Hn in Hm. pose proof (notrun_shaped pre actions 0 u Hm Hf) as N. simpl in N.
  exists (Nat.min k (Nat.min (length actions - length pre) u)).
  assert (E : map a_item (map fst (firstn k (items_notrun (combine actions (app pre (repeat S_UNSET u)))))) =
              map Some (seq (length pre) (Nat.min k (Nat.min (length actions - length pre) u)))).
  { rewrite <- !firstn_map. rewrite N. apply firstn_seq_some. }
  split; [exact E|]. split; [lia|]. split; [lia|].
  rewrite <- (map_length a_item), E, map_length, seq_length. reflexivity.
Qed.

(* with every status that was ever set in the compared prefix, the count the engine makes is the count of the table *)
Lemma nactive_combine : forall pre (actions : list action_spec) u, length pre <= length actions ->
  items_nactive (combine actions (app pre (repeat S_UNSET u))) = nact pre.
Proof.
  induction pre as [|x pre IH]; intros actions u Hle.
  - clear Hle. simpl. unfold items_nactive, nact. simpl. revert u. induction actions as [|a actions IHa]; intro u; [reflexivity|].
    destruct u; [reflexivity|]. simpl. apply IHa.
  - destruct actions as [|a actions]; [simpl in Hle; lia|]. simpl in Hle.
    specialize (IH actions u (le_S_n _ _ Hle)). rewrite nact_cons, <- IH.
    unfold items_nactive. cbn [app combine filter]. destruct (status_in x ACTIVE_STATUSES); reflexivity.
Qed.

Lemma choose_conc : forall A conc (items : list (A * status)) acts conc', choose_items conc items = Val (acts, conc') ->
  py_is_int conc' = py_is_int conc /\ effective_concurrency conc' = effective_concurrency conc.
Proof.
  intros A conc items acts conc' H. unfold choose_items in H. destruct conc; inversion H; subst; clear H; try (split; reflexivity).
  - unfold effective_concurrency. destruct b; simpl; split; reflexivity.
  - split; [reflexivity|]. unfold effective_concurrency at 1. simpl py_int_value.
    unfold effective_concurrency. simpl. destruct (Z.leb z 0) eqn:E; [reflexivity|]. rewrite E. reflexivity.
Qed.


Lemma nth_error_repeat_lt : forall A (x : A) m j, j < m -> nth_error (repeat x m) j = Some x.
Proof. induction m as [|m IH]; intros j H; [lia|]. destruct j; [reflexivity|]. simpl. apply IH. lia. Qed.

Lemma plain_event_tall : forall P s t r e, not_item e -> c_init (si_c s) = true -> ibad (isys_event ev s t r e) = false ->
  Tall P (si_c s) -> Tall P (si_c (isys_event ev s t r e)).
Proof.
  intros P s t r e Hn Hi Hb T. pose proof (ievent_rin s t r e Hi Hb) as R. rewrite (expect_not_item _ _ _ _ Hn) in R.
  exact (Tall_Rin P _ _ R T).
Qed.

Lemma ack_plain_loop_tall : forall P t r acts s,
  ilink (si_c s) (si_inflight s) -> (forall a, In a acts -> a_item a = None) ->
  ibad (fold_left (isys_ack ev t r) acts s) = false -> Tall P (si_c s) ->
  Tall P (si_c (fold_left (isys_ack ev t r) acts s)).
Proof.
  intros P t r. induction acts as [|a acts IH]; intros s I Hacts Hb T; simpl in *; [exact T|].
  assert (Hb1 : ibad (isys_ack ev t r s a) = false).
  { apply (not_bad_before (fun x => fold_left (isys_ack ev t r) acts x)); [apply ibad_fold_ack_mono|exact Hb]. }
  destruct (ack_plain_loop t r [a] s I) as [I1 _]; [intros a' [<-|[]]; apply Hacts; left; reflexivity|exact Hb1|].
  simpl in I1. apply IH; [exact I1|intros; apply Hacts; right; assumption|exact Hb|].
  unfold isys_ack in *. rewrite (Hacts a (or_introl eq_refl)) in *.
  apply plain_event_tall; [exact Logic.I|destruct I as [Hi _]; exact Hi|exact Hb1|exact T].
Qed.

(* the acknowledgements of the items chosen from a shaped table: they become "running", in order *)
Lemma ack_items_loop_tbl : forall t r acts s pre u m,
  ilink (si_c s) (si_inflight s) -> Tall shaped (si_c s) ->
  items_of (si_c s) t r = Some (app pre (repeat S_UNSET u)) -> Forall (fun st => st <> S_UNSET) pre ->
  map a_item acts = map Some (seq (length pre) m) -> m <= u ->
  ibad (fold_left (isys_ack ev t r) acts s) = false ->
  ilink (si_c (fold_left (isys_ack ev t r) acts s)) (si_inflight (fold_left (isys_ack ev t r) acts s)) /\
  Tall shaped (si_c (fold_left (isys_ack ev t r) acts s)) /\
  items_of (si_c (fold_left (isys_ack ev t r) acts s)) t r =
    Some (app pre (app (repeat S_RUNNING m) (repeat S_UNSET (u - m)))) /\
  (forall t' r' l2, (t', r') <> (t, r) -> items_of (si_c s) t' r' = Some l2 ->
                    items_of (si_c (fold_left (isys_ack ev t r) acts s)) t' r' = Some l2).
Proof.
  intros t r. induction acts as [|a acts IH]; intros s pre u m I T Hl Hf Hm Hmu Hb.
  - destruct m; [|discriminate Hm]. simpl. rewrite Nat.sub_0_r. auto.
  - destruct m as [|m]; [discriminate Hm|]. destruct u as [|u]; [lia|].
    simpl in Hm. inversion Hm as [[Ha Hm']]. cbn [fold_left] in *.
    assert (Hb1 : ibad (isys_ack ev t r s a) = false).
    { apply (not_bad_before (fun x => fold_left (isys_ack ev t r) acts x)); [apply ibad_fold_ack_mono|exact Hb]. }
    destruct (ack_item_step t r s a (length pre) _ I Hl Ha) as [I1 [Hl1 [Fw [_ TP]]]];
      [rewrite app_length, repeat_length; lia|exact Hb1|].
    rewrite set_first_unset in Hl1.
    assert (Hf1 : Forall (fun st => st <> S_UNSET) (app pre [S_RUNNING])).
    { apply Forall_app. split; [exact Hf|constructor; [discriminate|constructor]]. }
    assert (T1 : Tall shaped (si_c (isys_ack ev t r s a))).
    { apply TP; [exact T|]. rewrite set_first_unset. exists (app pre [S_RUNNING]), u. auto. }
    destruct (IH (isys_ack ev t r s a) (app pre [S_RUNNING]) u m I1 T1 Hl1 Hf1) as [I2 [T2 [Hl2 Fw2]]].
    + rewrite app_length. simpl. rewrite Nat.add_1_r. exact Hm'.
    + lia.
    + exact Hb.
    + split; [exact I2|]. split; [exact T2|]. split.
      * rewrite Hl2. rewrite <- app_assoc. reflexivity.
      * intros t' r' l2 Hne H. apply Fw2; [exact Hne|]. apply Fw; assumption.
Qed.


(* what a poll has to acknowledge for one offer, and what is true of the offer's table afterwards *)
Definition pend2 (c : cstate) (o : offer) : Prop :=
  match o_items_count o with
  | Some (S n') => exists pre u m, items_of c (o_id o) (o_route o) = Some (app pre (repeat S_UNSET u)) /\
                     Forall (fun st => st <> S_UNSET) pre /\
                     map a_item (o_actions o) = map Some (seq (length pre) m) /\ m <= u /\
                     (forall conc', o_concurrency o = Some conc' -> py_is_int conc' = true ->
                                    (Z.of_nat (nact pre + m) <= effective_concurrency conc')%Z)
  | Some O => True
  | None => forall a, In a (o_actions o) -> a_item a = None
  end.

Definition done2 (c : cstate) (o : offer) : Prop :=
  match o_items_count o with
  | Some (S n') => exists l, items_of c (o_id o) (o_route o) = Some l /\ shaped l /\
                     (forall conc', o_concurrency o = Some conc' -> py_is_int conc' = true ->
                                    (Z.of_nat (nact l) <= effective_concurrency conc')%Z) /\
                     (forall a, In a (o_actions o) -> exists i, a_item a = Some i /\ nth_error l i = Some S_RUNNING)
  | _ => True
  end.

Lemma pend2_of_offer_ok : forall c1 s o, Tall shaped c1 -> offer_ok c1 s o -> pend2 c1 o.
Proof.
  intros c1 s o T [Hid [Hr H]]. unfold pend2. destruct (o_items_count o) as [[|n']|]; [exact I| |exact H].
  destruct H as [l [conc [conc' [actions [Hl [Hlen [Hmap [Hch [Hco Hne]]]]]]]]].
  destruct (items_of_entry _ _ _ _ Hl) as [e [He [_ [_ [Hit _]]]]].
  destruct (T e l He Hit) as [pre [u [-> Hf]]].
  destruct (chosen_seq _ _ _ _ _ _ _ Hch Hmap Hlen Hf) as [m [Hm [Hmu [Hmn Hlm]]]].
  exists pre, u, m. rewrite Hid, Hr. split; [exact Hl|]. split; [exact Hf|]. split; [exact Hm|]. split; [exact Hmu|].
  intros c2 Hc2 Hint. rewrite Hco in Hc2. inversion Hc2; subst c2.
  destruct (choose_conc _ _ _ _ _ Hch) as [Hpi He'].
  rewrite Hpi in Hint. rewrite He'.
  pose proof (window_respected _ _ _ _ _ Hch Hint Hne) as W. rewrite Hlm in W.
  assert (Hm1 : m <> 0) by (intro X; rewrite X in Hlm; destruct (o_actions o); [apply Hne; reflexivity|discriminate Hlm]).
  rewrite nactive_combine in W by lia. lia.
Qed.

Lemma done2_persist : forall c c' o, done2 c o ->
  (forall l2, items_of c (o_id o) (o_route o) = Some l2 -> items_of c' (o_id o) (o_route o) = Some l2) -> done2 c' o.
Proof.
  intros c c' o H P. unfold done2 in *. destruct (o_items_count o) as [[|m]|]; auto.
  destruct H as [l [Hl R]]. exists l. split; [apply P; exact Hl|exact R].
Qed.

Lemma pend2_persist : forall c c' o, pend2 c o ->
  (forall l2, items_of c (o_id o) (o_route o) = Some l2 -> items_of c' (o_id o) (o_route o) = Some l2) -> pend2 c' o.
Proof.
  intros c c' o H P. unfold pend2 in *. destruct (o_items_count o) as [[|m]|]; auto.
  destruct H as [pre [u [m' [Hl R]]]]. exists pre, u, m'. split; [apply P; exact Hl|exact R].
Qed.

Lemma ack_offer_tbl : forall s o, ilink (si_c s) (si_inflight s) -> Tall shaped (si_c s) -> pend2 (si_c s) o ->
  ibad (isys_ack_offer ev s o) = false ->
  ilink (si_c (isys_ack_offer ev s o)) (si_inflight (isys_ack_offer ev s o)) /\
  Tall shaped (si_c (isys_ack_offer ev s o)) /\ done2 (si_c (isys_ack_offer ev s o)) o /\
  (forall t' r' l2, (t', r') <> (o_id o, o_route o) -> items_of (si_c s) t' r' = Some l2 ->
                    items_of (si_c (isys_ack_offer ev s o)) t' r' = Some l2).
Proof.
  intros s o I T Hp Hb.
  assert (Hpk : pend_ok (si_c s) o).
  { unfold pend2, pend_ok in *. destruct (o_items_count o) as [[|n']|]; auto.
    destruct Hp as [pre [u [m [Hl [Hf [Hm [Hmu _]]]]]]]. exists (app pre (repeat S_UNSET u)). split; [exact Hl|].
    intros a Ha. apply (in_map a_item) in Ha. rewrite Hm in Ha. apply in_map_iff in Ha. destruct Ha as [i [Hi Hin]].
    apply in_seq in Hin. exists i. split; [auto|]. rewrite app_length, repeat_length. lia. }
  destruct (ack_offer_link s o I Hpk Hb) as [I1 Fw]. split; [exact I1|]. split; [|split; [|exact Fw]].
  - unfold isys_ack_offer, pend2 in *. destruct (o_items_count o) as [[|n']|].
    + pose proof I as [Hi _].
      set (s1 := isys_event ev s (o_id o) (o_route o) (EvAction S_RUNNING JNull)) in *.
      assert (Hb1 : ibad s1 = false).
      { apply (not_bad_before (fun x => isys_event ev x (o_id o) (o_route o) (EvAction S_SUCCEEDED (JList [])))); [apply ibad_event_mono|exact Hb]. }
      destruct (plain_event_step s (o_id o) (o_route o) (EvAction S_RUNNING JNull) (si_inflight s) Logic.I I) as [[Hi1 _] _];
        [intros; tauto|exact Hb1|]. fold s1 in Hi1.
      apply plain_event_tall; [exact Logic.I|exact Hi1|exact Hb|].
      apply plain_event_tall; [exact Logic.I|exact Hi|exact Hb1|exact T].
    + destruct Hp as [pre [u [m [Hl [Hf [Hm [Hmu _]]]]]]].
      destruct (ack_items_loop_tbl _ _ _ _ _ _ _ I T Hl Hf Hm Hmu Hb) as [_ [T2 _]]. exact T2.
    + apply ack_plain_loop_tall; assumption.
  - unfold isys_ack_offer, pend2, done2 in *. destruct (o_items_count o) as [[|n']|]; auto.
    destruct Hp as [pre [u [m [Hl [Hf [Hm [Hmu Hw]]]]]]].
    destruct (ack_items_loop_tbl _ _ _ _ _ _ _ I T Hl Hf Hm Hmu Hb) as [_ [_ [Hl2 _]]].
    exists (app pre (app (repeat S_RUNNING m) (repeat S_UNSET (u - m)))). split; [exact Hl2|]. split; [|split].
    + exists (app pre (repeat S_RUNNING m)), (u - m). split; [apply app_assoc|].
      apply Forall_app. split; [exact Hf|]. apply Forall_forall. intros x Hx. apply repeat_spec in Hx. subst x. discriminate.
    + intros conc' Hc Hint. rewrite !nact_app, nact_repeat_running, nact_repeat_unset. specialize (Hw conc' Hc Hint). lia.
    + intros a Ha. apply (in_map a_item) in Ha. rewrite Hm in Ha. apply in_map_iff in Ha. destruct Ha as [i [Hi Hin]].
      apply in_seq in Hin. exists i. split; [auto|].
      rewrite nth_error_app2 by lia. rewrite nth_error_app1 by (rewrite repeat_length; lia).
      apply nth_error_repeat_lt. lia.
Qed.


Lemma offers_key_distinct : forall (o o2 : offer) offers,
  existsb (fun o' => String.eqb (o_id o') (o_id o) && Nat.eqb (o_route o') (o_route o)) offers = false ->
  In o2 offers -> (o_id o2, o_route o2) <> (o_id o, o_route o).
Proof.
  intros o o2 offers Hd Ho2 E. inversion E as [[E1 E2]].
  assert (X : existsb (fun o' => String.eqb (o_id o') (o_id o) && Nat.eqb (o_route o') (o_route o)) offers = true).
  { apply existsb_exists. exists o2. split; [exact Ho2|]. rewrite E1, E2, String.eqb_refl, Nat.eqb_refl. reflexivity. }
  rewrite X in Hd. discriminate.
Qed.

Lemma ack_offers_tbl : forall offers s, ilink (si_c s) (si_inflight s) -> Tall shaped (si_c s) ->
  (forall o, In o offers -> pend2 (si_c s) o) -> offers_dup offers = false ->
  ibad (fold_left (isys_ack_offer ev) offers s) = false ->
  ilink (si_c (fold_left (isys_ack_offer ev) offers s)) (si_inflight (fold_left (isys_ack_offer ev) offers s)) /\
  Tall shaped (si_c (fold_left (isys_ack_offer ev) offers s)) /\
  (forall o, In o offers -> done2 (si_c (fold_left (isys_ack_offer ev) offers s)) o) /\
  (forall t' r' l2, (forall o, In o offers -> (t', r') <> (o_id o, o_route o)) -> items_of (si_c s) t' r' = Some l2 ->
                    items_of (si_c (fold_left (isys_ack_offer ev) offers s)) t' r' = Some l2).
Proof.
  induction offers as [|o offers IH]; intros s I T Hp Hd Hb; cbn [fold_left] in *.
  - split; [exact I|]. split; [exact T|]. split; [intros o []|auto].
  - simpl in Hd. apply orb_false_iff in Hd. destruct Hd as [Hd1 Hd2].
    assert (Hb1 : ibad (isys_ack_offer ev s o) = false).
    { apply (not_bad_before (fun x => fold_left (isys_ack_offer ev) offers x)); [apply ibad_fold_offer_mono|exact Hb]. }
    destruct (ack_offer_tbl s o I T (Hp o (or_introl eq_refl)) Hb1) as [I1 [T1 [D1 Fw1]]].
    destruct (IH (isys_ack_offer ev s o) I1 T1) as [I2 [T2 [D2 Fw2]]]; [|exact Hd2|exact Hb|].
    + intros o2 Ho2. apply (pend2_persist (si_c s)); [apply Hp; right; exact Ho2|].
      intros l2. apply Fw1. apply (offers_key_distinct _ _ _ Hd1 Ho2).
    + split; [exact I2|]. split; [exact T2|]. split.
      * intros o2 [<-|Ho2]; [|apply D2; exact Ho2].
        apply (done2_persist _ _ _ D1). intros l2. apply Fw2. intros o3 Ho3 E.
        exact (offers_key_distinct _ _ _ Hd1 Ho3 (eq_sym E)).
      * intros t' r' l2 Hk H. apply Fw2; [intros o3 Ho3; apply Hk; right; exact Ho3|].
        apply Fw1; [apply Hk; left; reflexivity|exact H].
Qed.

Lemma rho_items : forall s s' l, rho s s' -> s_items s' = Some l -> s_items s = Some l \/ exists n, l = repeat S_UNSET n.
Proof.
  intros s s' l [->|[_ [n ->]]] H; [left; exact H|]. right. exists n. destruct s; simpl in H. inversion H; reflexivity.
Qed.

Lemma Tall_Rgn : forall (P : list status -> Prop) c c1, (forall n, P (repeat S_UNSET n)) -> Rgn c c1 -> Tall P c -> Tall P c1.
Proof.
  intros P c c1 Hr (_ & _ & _ & _ & _ & _ & F) T. unfold Tall in *. revert T.
  induction F as [|s s' l l' Hrho Hl IH]; intros T e tb He Htb; [destruct He|].
  destruct He as [<-|He].
  - destruct (rho_items _ _ _ Hrho Htb) as [X|[n ->]]; [apply (T s tb); [left; reflexivity|exact X]|apply Hr].
  - apply (IH (fun e0 tb0 H0 => T e0 tb0 (or_intror H0)) e tb He Htb).
Qed.

(* one poll: the link, the shape of every table, and for every offer of items the window and the statuses *)
Lemma poll_tables : forall s c1 offers, ilink (si_c s) (si_inflight s) -> Tall shaped (si_c s) ->
  get_next_tasks ev (si_c s) = (c1, Val offers) -> ibad (isys_poll ev s) = false ->
  ilink (si_c (isys_poll ev s)) (si_inflight (isys_poll ev s)) /\ Tall shaped (si_c (isys_poll ev s)) /\
  (forall o, In o offers -> done2 (si_c (isys_poll ev s)) o) /\
  (forall t' r' l2, (forall o, In o offers -> (t', r') <> (o_id o, o_route o)) -> items_of c1 t' r' = Some l2 ->
                    items_of (si_c (isys_poll ev s)) t' r' = Some l2).
Proof.
  intros s c1 offers I T Hg Hb. unfold isys_poll in *. rewrite Hg in *.
  destruct I as [Hi [Hfo [H1 H2]]].
  destruct (gn_items_eff ev _ _ _ Hi Hg) as [HR Hof].
  destruct (J_Rgn _ _ _ HR H1 H2) as [K1 K2].
  pose proof (fo_get_next_tasks ev _ _ _ Hg Hfo) as Hfo1.
  pose proof (Tall_Rgn shaped _ _ shaped_repeat HR T) as T1.
  set (s0 := {| si_c := c1; si_inflight := si_inflight s; si_acc := si_acc s; si_fault := si_fault s;
                si_wiped := si_wiped s || offers_dup offers |}) in *.
  assert (Hb0 : ibad s0 = false).
  { apply (not_bad_before (fun x => fold_left (isys_ack_offer ev) offers x)); [apply ibad_fold_offer_mono|exact Hb]. }
  assert (Hd : offers_dup offers = false).
  { unfold ibad, s0 in Hb0. simpl in Hb0. apply orb_false_iff in Hb0. destruct Hb0 as [_ X]. apply orb_false_iff in X. tauto. }
  apply (ack_offers_tbl offers s0); [|exact T1|intros o Ho|exact Hd|exact Hb].
  - unfold s0; simpl. split; [|split; [exact Hfo1|split; assumption]].
    destruct HR as [_ [_ [Hin _]]]. rewrite Hin. exact Hi.
  - destruct (Hof o Ho) as [e [_ [_ [_ Hok]]]]. exact (pend2_of_offer_ok _ _ _ T1 Hok).
Qed.


(* ---- how a step may change a table: statuses that were set stay set; outside polls nothing becomes active ---- *)
Definition tle (l l' : list status) : Prop :=
  length l' = length l /\
  forall j st, nth_error l j = Some st -> st <> S_UNSET -> exists st', nth_error l' j = Some st' /\ st' <> S_UNSET.
Definition tdn (l l' : list status) : Prop := tle l l' /\ nact l' <= nact l.

Lemma tle_refl : forall l, tle l l.
Proof. intro l. split; [reflexivity|]. intros j st H Hn. exists st. auto. Qed.
Lemma tle_trans : forall a b c, tle a b -> tle b c -> tle a c.
Proof.
  intros a b c [L1 H1] [L2 H2]. split; [congruence|]. intros j st H Hn. destruct (H1 j st H Hn) as [st1 [A B]]. exact (H2 j st1 A B).
Qed.
Lemma tdn_refl : forall l, tdn l l.
Proof. intro l. split; [apply tle_refl|lia]. Qed.
Lemma tdn_trans : forall a b c, tdn a b -> tdn b c -> tdn a c.
Proof. intros a b c [A1 A2] [B1 B2]. split; [eapply tle_trans; eassumption|lia]. Qed.

Lemma nth_error_set_nth_cases : forall A (l : list A) i x j y, nth_error (list_set_nth i x l) j = Some y ->
  (j = i /\ y = x) \/ (j <> i /\ nth_error l j = Some y).
Proof.
  induction l as [|a l IH]; intros i x j y H; [destruct i; destruct j; discriminate H|].
  destruct i; destruct j; simpl in H.
  - left. inversion H; auto.
  - right. split; [discriminate|exact H].
  - right. split; [discriminate|exact H].
  - destruct (IH _ _ _ _ H) as [[-> ->]|[A0 B]]; [left; auto|right; split; [congruence|exact B]].
Qed.

Lemma tle_set : forall l i st, st <> S_UNSET -> tle l (list_set_nth i st l).
Proof.
  intros l i st Hst. split; [apply length_set_nth|]. intros j x H Hx.
  destruct (Nat.eq_dec j i) as [->|Hne].
  - exists st. split; [eapply nth_error_set_nth_same; exact H|exact Hst].
  - exists x. split; [rewrite nth_error_set_nth_other by congruence; exact H|exact Hx].
Qed.

Lemma tdn_set : forall l i st, st <> S_UNSET -> status_in st ACTIVE_STATUSES = false -> tdn l (list_set_nth i st l).
Proof. intros l i st H1 H2. split; [apply tle_set; exact H1|apply nact_set_inactive; exact H2]. Qed.

Definition Tback (Q : list status -> list status -> Prop) (c c' : cstate) : Prop :=
  forall t r l', items_of c' t r = Some l' -> exists l, items_of c t r = Some l /\ Q l l'.

Lemma Tback_refl : forall (Q : list status -> list status -> Prop) c, (forall l, Q l l) -> Tback Q c c.
Proof. intros Q c H t r l' E. exists l'. auto. Qed.
Lemma Tback_trans : forall (Q : list status -> list status -> Prop) a b c, (forall x y z, Q x y -> Q y z -> Q x z) ->
  Tback Q a b -> Tback Q b c -> Tback Q a c.
Proof.
  intros Q a b c Ht H1 H2 t r l' E. destruct (H2 _ _ _ E) as [l1 [E1 Q1]]. destruct (H1 _ _ _ E1) as [l0 [E0 Q0]].
  exists l0. split; [exact E0|eapply Ht; eassumption].
Qed.
Lemma Tback_same_staged : forall (Q : list status -> list status -> Prop) c c', (forall l, Q l l) ->
  staged (c_ws c') = staged (c_ws c) -> Tback Q c c'.
Proof. intros Q c c' H E t r l' X. exists l'. split; [|apply H]. unfold items_of, get_staged_task in *. rewrite <- E. exact X. Qed.

(* one protocol event, read backwards: every table afterwards is a table before, with at most the reported status written *)
Lemma ievent_back : forall (Q : list status -> list status -> Prop) s t r e,
  c_init (si_c s) = true -> fo (si_c s) -> ibad (isys_event ev s t r e) = false -> (forall l, Q l l) ->
  (forall i st res acc l, e = EvItem i st res acc -> Q l (list_set_nth i st l)) ->
  Tback Q (si_c s) (si_c (isys_event ev s t r e)).
Proof.
  intros Q s t r e Hi Hfo Hb Qr Qs t' r' l' E.
  pose proof (ievent_rin s t r e Hi Hb) as R.
  destruct (items_of_entry _ _ _ _ E) as [s' [Hs' [Hid [Hrt [Hit _]]]]].
  destruct (R s' l' Hs' Hit (fun x => x)) as [sA [HsA [HidA [HrtA HitA]]]].
  assert (Base : In sA (staged (c_ws (si_c s))) -> exists l, items_of (si_c s) t' r' = Some l /\ Q l l').
  { intro Hin. exists l'. split; [|apply Qr].
    assert (Hf : find (stg_matches (s_id sA) (s_route sA)) (staged (c_ws (si_c s))) = Some sA).
    { apply first_only_find; [exact Hfo|exact Hin|rewrite HitA; discriminate]. }
    unfold items_of, get_staged_task. rewrite <- Hid, <- Hrt, <- HidA, <- HrtA, Hf. exact HitA. }
  unfold expect_item in HsA. destruct e as [st0|st0 res0|i st res acc|nm st0]; try (apply Base; exact HsA).
  destruct (get_staged_task (c_ws (si_c s)) t r) as [s0|] eqn:Eg; [|apply Base; exact HsA].
  destruct (s_items s0) as [l0|] eqn:El; [|apply Base; exact HsA].
  destruct (Nat.ltb i (length l0)); [|apply Base; exact HsA].
  simpl in HsA. apply In_staged_update_m in HsA. destruct HsA as [HsA|[s1 [Hs1 [Hm ->]]]]; [apply Base; exact HsA|].
  assert (Hl' : match s_items s1 with Some l => Some (list_set_nth i st l) | None => None end = Some l').
  { rewrite <- HitA. unfold record_item. destruct s1; reflexivity. }
  destruct (s_items s1) as [l1|] eqn:E1; [|discriminate]. inversion Hl'; subst l'.
  exists l1. split; [|eapply Qs; reflexivity].
  assert (Hf : find (stg_matches (s_id s1) (s_route s1)) (staged (c_ws (si_c s))) = Some s1).
  { apply (first_only_find _ s1 Hfo Hs1). rewrite E1. discriminate. }
  destruct (record_item_keeps i st s1) as [K1 K2].
  unfold items_of, get_staged_task. rewrite <- Hid, <- Hrt, <- HidA, <- HrtA, K1, K2, Hf. exact E1.
Qed.


Lemma ack_back : forall t r s a, ilink (si_c s) (si_inflight s) -> ibad (isys_ack ev t r s a) = false ->
  Tback tle (si_c s) (si_c (isys_ack ev t r s a)).
Proof.
  intros t r s a [Hi [Hfo _]] Hb. unfold isys_ack in *.
  destruct (a_item a) as [i|]; apply (ievent_back tle (with_inflight s _)); try assumption; try apply tle_refl.
  - intros i0 st res acc l E. inversion E; subst. apply tle_set. discriminate.
  - intros i0 st res acc l E. discriminate E.
Qed.

Lemma ack_items_back : forall t r acts s l,
  ilink (si_c s) (si_inflight s) -> items_of (si_c s) t r = Some l ->
  (forall a, In a acts -> exists i, a_item a = Some i /\ i < length l) ->
  ibad (fold_left (isys_ack ev t r) acts s) = false ->
  Tback tle (si_c s) (si_c (fold_left (isys_ack ev t r) acts s)).
Proof.
  intros t r. induction acts as [|a acts IH]; intros s l I Hl Hacts Hb; cbn [fold_left] in *; [apply Tback_refl; apply tle_refl|].
  assert (Hb1 : ibad (isys_ack ev t r s a) = false).
  { apply (not_bad_before (fun x => fold_left (isys_ack ev t r) acts x)); [apply ibad_fold_ack_mono|exact Hb]. }
  destruct (Hacts a (or_introl eq_refl)) as [i [Hai Hil]].
  destruct (ack_item_step t r s a i l I Hl Hai Hil Hb1) as [I1 [Hl1 _]].
  apply (Tback_trans tle _ (si_c (isys_ack ev t r s a))); [exact tle_trans|apply ack_back; assumption|].
  apply (IH _ (list_set_nth i S_RUNNING l)); [exact I1|exact Hl1| |exact Hb].
  intros a' Ha'. destruct (Hacts a' (or_intror Ha')) as [i' [A B]]. exists i'. rewrite length_set_nth. auto.
Qed.

Lemma ack_plain_back : forall t r acts s,
  ilink (si_c s) (si_inflight s) -> (forall a, In a acts -> a_item a = None) ->
  ibad (fold_left (isys_ack ev t r) acts s) = false ->
  Tback tle (si_c s) (si_c (fold_left (isys_ack ev t r) acts s)).
Proof.
  intros t r. induction acts as [|a acts IH]; intros s I Hacts Hb; cbn [fold_left] in *; [apply Tback_refl; apply tle_refl|].
  assert (Hb1 : ibad (isys_ack ev t r s a) = false).
  { apply (not_bad_before (fun x => fold_left (isys_ack ev t r) acts x)); [apply ibad_fold_ack_mono|exact Hb]. }
  destruct (ack_plain_loop t r [a] s I) as [I1 _]; [intros a' [<-|[]]; apply Hacts; left; reflexivity|exact Hb1|].
  simpl in I1.
  apply (Tback_trans tle _ (si_c (isys_ack ev t r s a))); [exact tle_trans|apply ack_back; assumption|].
  apply IH; [exact I1|intros; apply Hacts; right; assumption|exact Hb].
Qed.

Lemma ack_offer_back : forall s o, ilink (si_c s) (si_inflight s) -> pend_ok (si_c s) o ->
  ibad (isys_ack_offer ev s o) = false -> Tback tle (si_c s) (si_c (isys_ack_offer ev s o)).
Proof.
  intros s o I Hp Hb. unfold isys_ack_offer, pend_ok in *. destruct (o_items_count o) as [[|m]|].
  - set (s1 := isys_event ev s (o_id o) (o_route o) (EvAction S_RUNNING JNull)) in *.
    assert (Hb1 : ibad s1 = false).
    { apply (not_bad_before (fun x => isys_event ev x (o_id o) (o_route o) (EvAction S_SUCCEEDED (JList [])))); [apply ibad_event_mono|exact Hb]. }
    destruct (plain_event_step s (o_id o) (o_route o) (EvAction S_RUNNING JNull) (si_inflight s) Logic.I I) as [[Hi1 [Hfo1 _]] _];
      [intros; tauto|exact Hb1|]. fold s1 in Hi1, Hfo1. destruct I as [Hi [Hfo _]].
    apply (Tback_trans tle _ (si_c s1)); [exact tle_trans| |].
    + apply ievent_back; try assumption; [apply tle_refl|intros; discriminate].
    + apply ievent_back; try assumption; [apply tle_refl|intros; discriminate].
  - destruct Hp as [l [Hl Ha]]. exact (ack_items_back _ _ _ _ _ I Hl Ha Hb).
  - exact (ack_plain_back _ _ _ _ I Hp Hb).
Qed.

Lemma ack_offers_back : forall offers s, ilink (si_c s) (si_inflight s) ->
  (forall o, In o offers -> pend_ok (si_c s) o) -> offers_dup offers = false ->
  ibad (fold_left (isys_ack_offer ev) offers s) = false ->
  Tback tle (si_c s) (si_c (fold_left (isys_ack_offer ev) offers s)).
Proof.
  induction offers as [|o offers IH]; intros s I Hp Hd Hb; cbn [fold_left] in *; [apply Tback_refl; apply tle_refl|].
  simpl in Hd. apply orb_false_iff in Hd. destruct Hd as [Hd1 Hd2].
  assert (Hb1 : ibad (isys_ack_offer ev s o) = false).
  { apply (not_bad_before (fun x => fold_left (isys_ack_offer ev) offers x)); [apply ibad_fold_offer_mono|exact Hb]. }
  destruct (ack_offer_link s o I (Hp o (or_introl eq_refl)) Hb1) as [I1 P1].
  apply (Tback_trans tle _ (si_c (isys_ack_offer ev s o))); [exact tle_trans|apply ack_offer_back; [exact I|apply Hp; left; reflexivity|exact Hb1]|].
  apply IH; [exact I1| |exact Hd2|exact Hb].
  intros o2 Ho2. apply (pend_ok_persist (si_c s)); [apply Hp; right; exact Ho2|].
  intros l2. apply P1. apply (offers_key_distinct _ _ _ Hd1 Ho2).
Qed.

(* a poll, read backwards: tables are created by the search for offers, then only statuses are written *)
Lemma Rgn_back : forall c c1 t r l', Rgn c c1 -> items_of c1 t r = Some l' ->
  items_of c t r = Some l' \/ ((items_of c t r = None \/ items_of c t r = Some []) /\ exists n, l' = repeat S_UNSET n).
Proof.
  intros c c1 t r l' (_ & _ & _ & _ & _ & _ & F) H. unfold items_of, get_staged_task in *.
  induction F as [|s s' l0 l1 Hr Hl IH]; [discriminate|]. simpl in *. destruct (rho_key _ _ Hr) as [_ K]. rewrite K in H.
  destruct (stg_matches t r s); [|apply IH; exact H].
  destruct Hr as [->|[Hn [n ->]]]; [left; exact H|]. right. split; [exact Hn|]. exists n. destruct s; simpl in H; inversion H; reflexivity.
Qed.

Lemma poll_back : forall s c1 offers, ilink (si_c s) (si_inflight s) ->
  get_next_tasks ev (si_c s) = (c1, Val offers) -> ibad (isys_poll ev s) = false ->
  Rgn (si_c s) c1 /\ Tback tle c1 (si_c (isys_poll ev s)).
Proof.
  intros s c1 offers I Hg Hb. unfold isys_poll in *. rewrite Hg in *.
  destruct I as [Hi [Hfo [H1 H2]]].
  destruct (gn_items_eff ev _ _ _ Hi Hg) as [HR Hof]. split; [exact HR|].
  destruct (J_Rgn _ _ _ HR H1 H2) as [K1 K2].
  pose proof (fo_get_next_tasks ev _ _ _ Hg Hfo) as Hfo1.
  set (s0 := {| si_c := c1; si_inflight := si_inflight s; si_acc := si_acc s; si_fault := si_fault s;
                si_wiped := si_wiped s || offers_dup offers |}) in *.
  assert (Hb0 : ibad s0 = false).
  { apply (not_bad_before (fun x => fold_left (isys_ack_offer ev) offers x)); [apply ibad_fold_offer_mono|exact Hb]. }
  assert (Hd : offers_dup offers = false).
  { unfold ibad, s0 in Hb0. simpl in Hb0. apply orb_false_iff in Hb0. destruct Hb0 as [_ X]. apply orb_false_iff in X. tauto. }
  apply (ack_offers_back offers s0); [|intros o Ho|exact Hd|exact Hb].
  - unfold s0; simpl. split; [|split; [exact Hfo1|split; assumption]].
    destruct HR as [_ [_ [Hin _]]]. rewrite Hin. exact Hi.
  - destruct (Hof o Ho) as [e [_ [_ [_ Hok]]]]. exact (pend_of_offer_ok _ _ _ Hok).
Qed.


(* ---- the second invariant: the link and the shape of every table ---- *)
Definition ilink2 (s : isys) : Prop := ilink (si_c s) (si_inflight s) /\ Tall shaped (si_c s).
Definition isys_inv2 (s : isys) : Prop :=
  ibad s = false -> (unborn (si_c s) /\ si_inflight s = []) \/ ilink2 s.

Lemma born_none : forall c c1, unborn c -> ensure_ws ev c = (c1, Val tt) -> forall s, In s (staged (c_ws c1)) -> s_items s = None.
Proof.
  intros c c1 [Hi Hw] H. destruct (ensure_fresh ev c c1 Hi Hw H) as [Hi1 [_ [_ [_ [_ Hst]]]]].
  destruct Hst as [[_ E]|[_ E]]; rewrite E; [intros s []|]. intros s Hs. apply in_map_iff in Hs. destruct Hs as [x [<- _]]. reflexivity.
Qed.

Lemma born_tall : forall (P : list status -> Prop) c c1, unborn c -> ensure_ws ev c = (c1, Val tt) -> Tall P c1.
Proof. intros P c c1 Hu H s l Hs Hl. rewrite (born_none c c1 Hu H s Hs) in Hl. discriminate. Qed.

Lemma request_staged : forall c st c' x, c_init c = true -> api_exec ev (OpRequest st) c = (c', x) ->
  staged (c_ws c') = staged (c_ws c).
Proof.
  intros c st c' x Hi E. cbn [api_exec] in E. unfold bind at 1 in E.
  destruct (request_workflow_status ev st c) as [c2 r] eqn:R.
  assert (c' = c2) by (destruct r; inversion E; reflexivity). subst c2.
  pose proof (control_request_frame ev st c c' r Hi R) as [_ [_ [Hst _]]]. exact Hst.
Qed.

Lemma call_staged : forall c op c' x, op = OpRender \/ op = OpPersist -> c_init c = true ->
  api_exec ev op c = (c', x) -> is_exc x = false -> staged (c_ws c') = staged (c_ws c).
Proof.
  intros c op c' x Hop Hi E Hx. destruct Hop as [-> | ->]; cbn [api_exec] in E;
    destruct (then_ret_unit _ _ _ _ E) as [[_ X]|Y]; try congruence.
  - pose proof (vlt_render_workflow_output ev c Hi c' tt X) as [_ [_ [Hst _]]]. exact Hst.
  - rewrite (persist_identity ev c Hi) in X. inversion X; subst. reflexivity.
Qed.

Lemma poll_inv2 : forall s, isys_inv2 s -> isys_inv2 (isys_poll ev s).
Proof.
  intros s Hs Hb. right.
  assert (K : forall s0, ilink2 s0 -> ibad (isys_poll ev s0) = false -> ilink2 (isys_poll ev s0)).
  { intros s0 [I T] Hb0. destruct (get_next_tasks ev (si_c s0)) as [c1 [offers|x]] eqn:Hg.
    - destruct (poll_tables s0 c1 offers I T Hg Hb0) as [A [B _]]. split; assumption.
    - unfold isys_poll in Hb0. rewrite Hg in Hb0. discriminate Hb0. }
  destruct (Hs (not_bad_before _ _ (ibad_poll_mono s) Hb)) as [[Hu HF]|I]; [|apply K; assumption].
  assert (XX : (exists c1 e, get_next_tasks ev (si_c s) = (c1, Exc e)) \/
               (exists c1, ensure_ws ev (si_c s) = (c1, Val tt) /\ ilink c1 [] /\ get_next_tasks ev (si_c s) = get_next_tasks ev c1)).
  { unfold get_next_tasks.
    match goal with |- context [bind (ensure_ws ev) ?k (si_c s)] =>
      destruct (unborn_call _ k (si_c s) Hu) as [[c1 [e [_ X]]]|[c1 [En [I X]]]] end;
      [left; exists c1, e; exact X|right; exists c1; split; [exact En|split; [exact I|exact X]]]. }
  destruct XX as [[c1 [e X]]|[c1 [En [I X]]]].
  - unfold isys_poll in Hb. rewrite X in Hb. discriminate Hb.
  - assert (E : isys_poll ev s = isys_poll ev (set_c s c1)).
    { unfold isys_poll. simpl. rewrite X. reflexivity. }
    rewrite E in *. apply K; [|exact Hb]. split; [simpl; rewrite HF; exact I|simpl; exact (born_tall shaped _ _ Hu En)].
Qed.

Lemma report_tall : forall s t r item st result, ilink2 s -> ibad (isys_report ev s t r item st result) = false ->
  Tall shaped (si_c (isys_report ev s t r item st result)) /\
  Tback tdn (si_c s) (si_c (isys_report ev s t r item st result)).
Proof.
  intros s t r item st result [I T] Hb. unfold isys_report in *.
  destruct (ikey_in (t, r, item) (si_inflight s) && status_in st report_statuses) eqn:En; [|split; [exact T|apply Tback_refl; apply tdn_refl]].
  apply andb_true_iff in En. destruct En as [Hin Hst]. apply ikey_in_iff in Hin.
  pose proof I as [Hi [Hfo [H1 H2]]].
  assert (Hst1 : st <> S_UNSET) by (intro X; subst st; discriminate Hst).
  destruct item as [i|].
  - destruct (H1 _ _ _ Hin) as [l [Hl Hn]].
    set (acc' := acc_set (si_acc s) (t, r) i result) in *.
    set (e := EvItem i st result (acc_list (acc_get acc' (t, r)))) in *.
    set (s2 := {| si_c := si_c (with_inflight s (ikey_remove (t, r, Some i) (si_inflight s)));
                  si_inflight := si_inflight (with_inflight s (ikey_remove (t, r, Some i) (si_inflight s)));
                  si_acc := acc'; si_fault := si_fault (with_inflight s (ikey_remove (t, r, Some i) (si_inflight s)));
                  si_wiped := si_wiped (with_inflight s (ikey_remove (t, r, Some i) (si_inflight s))) |}) in *.
    split.
    + apply (Tall_Rin shaped _ _ (ievent_rin s2 t r e Hi Hb)). apply Tall_expect; [exact T|exact Hfo|].
      intros l0 Hl0 _. simpl in Hl0. rewrite Hl in Hl0. inversion Hl0; subst l0.
      destruct (items_of_entry _ _ _ _ Hl) as [e0 [He0 [_ [_ [Hit _]]]]].
      apply (shaped_set_nonunset l i S_RUNNING st (T e0 l He0 Hit) Hn); [discriminate|exact Hst1].
    + apply (ievent_back tdn s2); try assumption; [apply tdn_refl|].
      intros i0 st0 res acc l0 E. inversion E; subst. apply tdn_set; [exact Hst1|apply completed_not_active; exact Hst].
  - set (s1 := with_inflight s (ikey_remove (t, r, None) (si_inflight s))) in *. split.
    + apply plain_event_tall; [exact Logic.I|exact Hi|exact Hb|exact T].
    + apply (ievent_back tdn s1); try assumption; [apply tdn_refl|intros; discriminate].
Qed.

Lemma report_inv2 : forall s t r item st result, isys_inv2 s -> isys_inv2 (isys_report ev s t r item st result).
Proof.
  intros s t r item st result Hs Hb.
  assert (Hb0 : ibad s = false).
  { apply (not_bad_before (fun x => isys_report ev x t r item st result)); [|exact Hb].
    intros H. unfold isys_report. destruct (ikey_in _ _ && _); [|exact H].
    destruct item; apply ibad_event_mono; exact H. }
  destruct (Hs Hb0) as [[Hu HF]|I].
  - left. unfold isys_report. rewrite HF. simpl. split; [exact Hu|exact HF].
  - right. split; [apply report_link; [destruct I; assumption|exact Hb]|apply report_tall; assumption].
Qed.


Lemma request_inv2 : forall s st, isys_inv2 s -> isys_inv2 (isys_request ev s st).
Proof.
  intros s st Hs. pose proof (request_inv s st) as L. unfold isys_request in *. destruct (status_in st request_statuses); [|exact Hs].
  destruct (api_exec ev (OpRequest st) (si_c s)) as [c' x] eqn:E. intros Hb.
  assert (Hb' := Hb). unfold ibad in Hb. simpl in Hb.
  apply orb_false_iff in Hb. destruct Hb as [Hb1 Hb2]. apply orb_false_iff in Hb1. destruct Hb1 as [Hb1 Hb3].
  assert (Hb0 : ibad s = false) by (unfold ibad; rewrite Hb1, Hb2; reflexivity).
  right. destruct (Hs Hb0) as [[Hu HF]|[I T]].
  - destruct (ensure_ws ev (si_c s)) as [c1 [[]|e]] eqn:En; [|discriminate Hb3].
    pose proof (born_link _ _ Hu En) as I. pose proof I as [Hi1 _].
    assert (E1 : api_exec ev (OpRequest st) c1 = (c', x)).
    { rewrite <- E. cbn [api_exec]. unfold request_workflow_status, bind. rewrite En, (ensure_ws_inited ev c1 Hi1). reflexivity. }
    split; simpl; [rewrite HF; eapply request_on_link; eassumption|].
    apply (Tall_same_staged shaped c1); [eapply request_staged; eassumption|exact (born_tall shaped _ _ Hu En)].
  - pose proof I as [Hi _]. split; simpl; [eapply request_on_link; eassumption|].
    apply (Tall_same_staged shaped (si_c s)); [eapply request_staged; eassumption|exact T].
Qed.

Lemma call_inv2 : forall s op, op = OpRender \/ op = OpPersist -> isys_inv2 s -> isys_inv2 (isys_call ev s op).
Proof.
  intros s op Hop Hs. unfold isys_call. destruct (api_exec ev op (si_c s)) as [c' x] eqn:E. intros Hb. unfold ibad in Hb. simpl in Hb.
  apply orb_false_iff in Hb. destruct Hb as [Hb1 Hb2]. apply orb_false_iff in Hb1. destruct Hb1 as [Hb1 Hb3].
  assert (Hb0 : ibad s = false) by (unfold ibad; rewrite Hb1, Hb2; reflexivity).
  right.
  assert (XX : exists c1 F, ilink c1 F /\ Tall shaped c1 /\ F = si_inflight s /\ api_exec ev op c1 = (c', x)).
  { destruct (Hs Hb0) as [[Hu HF]|[I T]]; [|exists (si_c s), (si_inflight s); auto].
    destruct Hop as [-> | ->]; cbn [api_exec] in E |- *;
      (destruct (then_ret_inv _ _ _ _ _ _ E) as [[Hx X]|[e [Hx _]]]; [|rewrite Hx in Hb3; discriminate Hb3]).
    - unfold render_workflow_output in X.
      match type of X with bind (ensure_ws ev) ?k (si_c s) = _ =>
        destruct (unborn_call _ k (si_c s) Hu) as [[c1 [e [_ Z]]]|[c1 [En [I Z]]]] end.
      + rewrite Z in X. discriminate X.
      + exists c1, []. split; [exact I|]. split; [exact (born_tall shaped _ _ Hu En)|]. split; [auto|].
        rewrite Z in X. unfold bind at 1. unfold render_workflow_output. rewrite X, Hx. reflexivity.
    - unfold persist in X.
      match type of X with bind (ensure_ws ev) ?k (si_c s) = _ =>
        destruct (unborn_call _ k (si_c s) Hu) as [[c1 [e [_ Z]]]|[c1 [En [I Z]]]] end.
      + rewrite Z in X. discriminate X.
      + exists c1, []. split; [exact I|]. split; [exact (born_tall shaped _ _ Hu En)|]. split; [auto|].
        rewrite Z in X. unfold bind at 1. unfold persist. rewrite X, Hx. reflexivity. }
  destruct XX as [c1 [F [I [T [-> E1]]]]]. pose proof I as [Hi _]. split; simpl.
  - eapply call_on_link; eassumption.
  - apply (Tall_same_staged shaped c1); [eapply call_staged; eassumption|exact T].
Qed.

Theorem isys_step_inv2 : forall s op, isys_inv2 s -> isys_inv2 (isys_step ev s op).
Proof.
  intros s op Hs. destruct op; cbn [isys_step].
  - apply request_inv2; exact Hs.
  - apply poll_inv2; exact Hs.
  - apply report_inv2; exact Hs.
  - apply request_inv2; exact Hs.
  - apply call_inv2; [left; reflexivity|exact Hs].
  - apply call_inv2; [right; reflexivity|exact Hs].
Qed.

Theorem isys_run_inv2 : forall ops s, isys_inv2 s -> isys_inv2 (isys_run ev ops s).
Proof. induction ops as [|op ops IH]; intros s Hs; [exact Hs|]. simpl. apply IH. apply isys_step_inv2; exact Hs. Qed.

Lemma isys_init_inv2 : forall sp g inputs parent, isys_inv2 (isys_init sp g inputs parent).
Proof. intros sp g inputs parent _. left. split; [split; reflexivity|reflexivity]. Qed.

(* flags only go up *)
Lemma ibad_step_mono : forall s op, ibad s = true -> ibad (isys_step ev s op) = true.
Proof.
  intros s op H.
  assert (R : forall st, ibad (isys_request ev s st) = true).
  { intro st. unfold isys_request. destruct (status_in st request_statuses); [|exact H].
    destruct (api_exec ev (OpRequest st) (si_c s)). unfold ibad in *. simpl.
    apply orb_true_iff in H. destruct H as [H|H]; rewrite H; [reflexivity|apply orb_true_r]. }
  assert (C : forall o, ibad (isys_call ev s o) = true).
  { intro o. unfold isys_call. destruct (api_exec ev o (si_c s)). unfold ibad in *. simpl.
    apply orb_true_iff in H. destruct H as [H|H]; rewrite H; [reflexivity|apply orb_true_r]. }
  destruct op; cbn [isys_step]; auto.
  - apply ibad_poll_mono; exact H.
  - unfold isys_report. destruct (ikey_in _ _ && _); [|exact H]. destruct item; apply ibad_event_mono; exact H.
Qed.

Lemma ibad_run_mono : forall ops s, ibad s = true -> ibad (isys_run ev ops s) = true.
Proof. induction ops as [|op ops IH]; intros s H; [exact H|]. simpl. apply IH. apply ibad_step_mono; exact H. Qed.

Lemma unborn_no_table : forall c t r, unborn c -> items_of c t r = None.
Proof. intros c t r [_ Hw]. unfold items_of, get_staged_task. rewrite Hw. reflexivity. Qed.

(* a step that is not a poll: every table afterwards is a table before with statuses only settled (never more active items) *)
Lemma step_back_tdn : forall s op, ilink2 s -> op <> IPoll -> ibad (isys_step ev s op) = false ->
  Tback tdn (si_c s) (si_c (isys_step ev s op)).
Proof.
  intros s op [I T] Hop Hb. pose proof I as [Hi _].
  assert (R : forall st, ibad (isys_request ev s st) = false -> Tback tdn (si_c s) (si_c (isys_request ev s st))).
  { intros st Hb'. unfold isys_request in *. destruct (status_in st request_statuses); [|apply Tback_refl; apply tdn_refl].
    destruct (api_exec ev (OpRequest st) (si_c s)) as [c' x] eqn:E. simpl.
    apply Tback_same_staged; [apply tdn_refl|eapply request_staged; eassumption]. }
  assert (C : forall o, o = OpRender \/ o = OpPersist -> ibad (isys_call ev s o) = false -> Tback tdn (si_c s) (si_c (isys_call ev s o))).
  { intros o Ho Hb'. unfold isys_call in *. destruct (api_exec ev o (si_c s)) as [c' x] eqn:E. simpl.
    unfold ibad in Hb'. simpl in Hb'. apply orb_false_iff in Hb'. destruct Hb' as [Hb1 _]. apply orb_false_iff in Hb1. destruct Hb1 as [_ Hx].
    apply Tback_same_staged; [apply tdn_refl|eapply call_staged; eassumption]. }
  destruct op; cbn [isys_step] in *; auto.
  - congruence.
  - apply report_tall; [split; assumption|exact Hb].
Qed.


Lemma isys_op_eq_poll : forall op, op = IPoll \/ op <> IPoll.
Proof. intro op. destruct op; try (right; discriminate). left; reflexivity. Qed.

(* ---- consequences for histories ---- *)
Lemma inv2_linked : forall s t r l, isys_inv2 s -> ibad s = false -> items_of (si_c s) t r = Some l -> ilink2 s.
Proof.
  intros s t r l Hs Hb Hl. destruct (Hs Hb) as [[Hu _]|I]; [|exact I]. rewrite (unborn_no_table _ t r Hu) in Hl. discriminate.
Qed.

Lemma shaped_order : forall l i j st, shaped l -> nth_error l j = Some st -> st <> S_UNSET -> nth_error l i = Some S_UNSET -> j < i.
Proof.
  intros l i j st [pre [u [-> Hf]]] Hj Hst Hi.
  destruct (Nat.lt_ge_cases j (length pre)) as [Hlt|Hge].
  - destruct (Nat.lt_ge_cases i (length pre)) as [Hlt'|Hge']; [|lia].
    rewrite nth_error_app1 in Hi by exact Hlt'. apply nth_error_In in Hi. rewrite Forall_forall in Hf. exfalso. exact (Hf _ Hi eq_refl).
  - rewrite nth_error_app2 in Hj by exact Hge. apply nth_error_repeat in Hj. contradiction.
Qed.

Lemma step_keeps : forall s op t r l l' j st, isys_inv2 s -> ibad (isys_step ev s op) = false ->
  items_of (si_c s) t r = Some l -> nth_error l j = Some st -> st <> S_UNSET ->
  items_of (si_c (isys_step ev s op)) t r = Some l' -> exists st', nth_error l' j = Some st' /\ st' <> S_UNSET.
Proof.
  intros s op t r l l' j st Hs Hb Hl Hj Hst Hl'.
  assert (Hb0 : ibad s = false) by (apply (not_bad_before (fun x => isys_step ev x op)); [intro; apply ibad_step_mono; assumption|exact Hb]).
  pose proof (inv2_linked _ _ _ _ Hs Hb0 Hl) as I.
  destruct (isys_op_eq_poll op) as [->|Hne].
  - cbn [isys_step] in *. destruct I as [I T].
    destruct (get_next_tasks ev (si_c s)) as [c1 [offers|x]] eqn:Hg; [|unfold isys_poll in Hb; rewrite Hg in Hb; discriminate Hb].
    destruct (poll_back s c1 offers I Hg Hb) as [HR HB].
    destruct (HB _ _ _ Hl') as [l1 [Hl1 [_ Q]]].
    destruct l as [|x xs]; [destruct j; discriminate Hj|].
    rewrite (Rgn_items_stable _ _ _ _ _ _ HR Hl) in Hl1. inversion Hl1; subst l1. exact (Q j st Hj Hst).
  - destruct (step_back_tdn s op I Hne Hb _ _ _ Hl') as [l0 [Hl0 [[_ Q] _]]]. rewrite Hl in Hl0. inversion Hl0; subst l0.
    exact (Q j st Hj Hst).
Qed.

Lemma run_keeps : forall t r j ops s l st, isys_inv2 s -> ibad (isys_run ev ops s) = false ->
  items_of (si_c s) t r = Some l -> nth_error l j = Some st -> st <> S_UNSET ->
  (forall ops1 ops2, ops = app ops1 ops2 -> items_of (si_c (isys_run ev ops1 s)) t r <> None) ->
  exists l' st', items_of (si_c (isys_run ev ops s)) t r = Some l' /\ nth_error l' j = Some st' /\ st' <> S_UNSET.
Proof.
  intros t r j. induction ops as [|op ops IH]; intros s l st Hs Hb Hl Hj Hst Hal; [exists l, st; auto|].
  cbn [isys_run fold_left] in *.
  assert (Hb1 : ibad (isys_step ev s op) = false).
  { apply (not_bad_before (fun x => isys_run ev ops x)); [apply ibad_run_mono|exact Hb]. }
  destruct (items_of (si_c (isys_step ev s op)) t r) as [l1|] eqn:E1;
    [|exfalso; apply (Hal [op] ops eq_refl); exact E1].
  destruct (step_keeps s op t r l l1 j st Hs Hb1 Hl Hj Hst E1) as [st1 [Hj1 Hst1]].
  apply (IH (isys_step ev s op) l1 st1); [apply isys_step_inv2; exact Hs|exact Hb|exact E1|exact Hj1|exact Hst1|].
  intros ops1 ops2 E. apply (Hal (op :: ops1) ops2). rewrite E. reflexivity.
Qed.

(* a poll offers item i of (t, r) *)
Definition offered_by (s : isys) (t : string) (r : nat) (i : nat) : Prop :=
  exists c1 offers o a n, get_next_tasks ev (si_c s) = (c1, Val offers) /\ In o offers /\ o_id o = t /\ o_route o = r /\
                          o_items_count o = Some (S n) /\ In a (o_actions o) /\ a_item a = Some i.

(* every reachable state, born or not: what a poll does with the offers it gets *)
Lemma poll_done : forall s c1 offers, isys_inv2 s -> get_next_tasks ev (si_c s) = (c1, Val offers) ->
  ibad (isys_poll ev s) = false -> forall o, In o offers -> done2 (si_c (isys_poll ev s)) o.
Proof.
  intros s c1 offers Hs Hg Hb.
  destruct (Hs (not_bad_before _ _ (ibad_poll_mono s) Hb)) as [[Hu HF]|[I T]].
  - assert (XX : (exists c1 e, get_next_tasks ev (si_c s) = (c1, Exc e)) \/
                 (exists c1, ensure_ws ev (si_c s) = (c1, Val tt) /\ ilink c1 [] /\ get_next_tasks ev (si_c s) = get_next_tasks ev c1)).
    { unfold get_next_tasks.
      match goal with |- context [bind (ensure_ws ev) ?k (si_c s)] =>
        destruct (unborn_call _ k (si_c s) Hu) as [[c2 [e [_ X]]]|[c2 [En [I X]]]] end;
        [left; exists c2, e; exact X|right; exists c2; split; [exact En|split; [exact I|exact X]]]. }
    destruct XX as [[c2 [e X]]|[c2 [En [I X]]]]; [rewrite X in Hg; discriminate|].
    assert (E : isys_poll ev s = isys_poll ev (set_c s c2)).
    { unfold isys_poll. simpl. rewrite X. reflexivity. }
    rewrite E in *. rewrite X in Hg.
    destruct (poll_tables (set_c s c2) c1 offers) as [_ [_ [D _]]]; [simpl; rewrite HF; exact I|simpl; exact (born_tall shaped _ _ Hu En)|exact Hg|exact Hb|exact D].
  - destruct (poll_tables s c1 offers I T Hg Hb) as [_ [_ [D _]]]. exact D.
Qed.

(* ONCE / ORDER: an item offered by a poll is, for as long as the task's table stays, never offered again, and
   everything offered later has a greater index *)
Theorem once_order : forall s1 ops t r i j, isys_inv2 s1 ->
  offered_by s1 t r j ->
  (forall ops1 ops2, ops = app ops1 ops2 -> items_of (si_c (isys_run ev ops1 (isys_poll ev s1))) t r <> None) ->
  offered_by (isys_run ev ops (isys_poll ev s1)) t r i ->
  ibad (isys_poll ev (isys_run ev ops (isys_poll ev s1))) = false -> j < i.
Proof.
  intros s1 ops t r i j Hs1 [c1 [offers [o [a [n [Hg [Ho [Hid [Hr [Hn [Ha Hai]]]]]]]]]]] Hal
         [c1' [offers' [o' [a' [n' [Hg' [Ho' [Hid' [Hr' [Hn' [Ha' Hai']]]]]]]]]]] Hb.
  set (s2 := isys_poll ev s1) in *. set (s3 := isys_run ev ops s2) in *.
  assert (Hb3 : ibad s3 = false) by (apply (not_bad_before _ _ (ibad_poll_mono s3)); exact Hb).
  assert (Hb2 : ibad s2 = false) by (apply (not_bad_before (fun x => isys_run ev ops x)); [apply ibad_run_mono|exact Hb3]).
  pose proof (poll_done s1 c1 offers Hs1 Hg Hb2 o Ho) as D. unfold done2 in D. rewrite Hn in D.
  destruct D as [l2 [Hl2 [_ [_ Hrun]]]]. destruct (Hrun a Ha) as [j0 [Hj0 Hnj]]. rewrite Hai in Hj0. inversion Hj0; subst j0.
  rewrite Hid, Hr in Hl2.
  assert (Hs2 : isys_inv2 s2) by (apply poll_inv2; exact Hs1).
  destruct (run_keeps t r j ops s2 l2 S_RUNNING Hs2 Hb3 Hl2 Hnj) as [l3 [st3 [Hl3 [Hj3 Hst3]]]]; [discriminate|exact Hal|].
  fold s3 in Hl3.
  assert (Hs3 : isys_inv2 s3) by (apply isys_run_inv2; exact Hs2).
  destruct (inv2_linked _ _ _ _ Hs3 Hb3 Hl3) as [I3 T3]. pose proof I3 as [Hi3 _].
  destruct (gn_items_eff ev _ _ _ Hi3 Hg') as [HR Hof].
  destruct (Hof o' Ho') as [e [_ [_ [_ [Eid [Ert Hok]]]]]]. rewrite Hn' in Hok.
  destruct Hok as [l1 [conc [conc' [actions [Hl1 [Hlen [Hmap [Hch _]]]]]]]].
  destruct (chosen_in_table _ _ _ _ _ _ Hch Hmap Hlen a' Ha') as [i0 [A [_ B]]]. rewrite Hai' in A. inversion A; subst i0.
  rewrite <- Eid, <- Ert, Hid', Hr' in Hl1.
  destruct l3 as [|x xs]; [destruct j; discriminate Hj3|].
  rewrite (Rgn_items_stable _ _ _ _ _ _ HR Hl3) in Hl1. inversion Hl1; subst l1.
  destruct (items_of_entry _ _ _ _ Hl3) as [e3 [He3 [_ [_ [Hit3 _]]]]].
  exact (shaped_order _ i j st3 (T3 e3 _ He3 Hit3) Hj3 Hst3 B).
Qed.


(* WINDOW, at the end of a poll: for every offer of items with an integer concurrency k, at most max(k,1) items of
   the task are active *)
Theorem poll_window : forall s c1 offers o n k, isys_inv2 s -> get_next_tasks ev (si_c s) = (c1, Val offers) ->
  ibad (isys_poll ev s) = false -> In o offers -> o_items_count o = Some (S n) ->
  o_concurrency o = Some k -> py_is_int k = true ->
  exists l, items_of (si_c (isys_poll ev s)) (o_id o) (o_route o) = Some l /\
            (Z.of_nat (nact l) <= effective_concurrency k)%Z.
Proof.
  intros s c1 offers o n k Hs Hg Hb Ho Hn Hk Hint. pose proof (poll_done s c1 offers Hs Hg Hb o Ho) as D.
  unfold done2 in D. rewrite Hn in D. destruct D as [l [Hl [_ [W _]]]]. exists l. split; [exact Hl|exact (W k Hk Hint)].
Qed.

(* ORDER inside one poll: the items offered for a task are consecutive, starting at the first item never offered *)
Theorem poll_offers_consecutive : forall s c1 offers o n, isys_inv2 s -> ibad s = false -> c_init (si_c s) = true ->
  get_next_tasks ev (si_c s) = (c1, Val offers) -> In o offers -> o_items_count o = Some (S n) ->
  exists pre u m, items_of c1 (o_id o) (o_route o) = Some (app pre (repeat S_UNSET u)) /\
                  Forall (fun st => st <> S_UNSET) pre /\
                  map a_item (o_actions o) = map Some (seq (length pre) m) /\ 0 < m <= u.
Proof.
  intros s c1 offers o n Hs Hb Hi Hg Ho Hn.
  assert (T : Tall shaped (si_c s)).
  { destruct (Hs Hb) as [[[Hu _] _]|[_ T]]; [congruence|exact T]. }
  destruct (gn_items_eff ev _ _ _ Hi Hg) as [HR Hof].
  pose proof (Tall_Rgn shaped _ _ shaped_repeat HR T) as T1.
  destruct (Hof o Ho) as [e [_ [_ [_ Hok]]]].
  pose proof (pend2_of_offer_ok _ _ _ T1 Hok) as P. unfold pend2 in P. rewrite Hn in P.
  destruct P as [pre [u [m [A [B [C [D _]]]]]]]. exists pre, u, m. repeat split; try assumption.
  destruct Hok as [_ [_ Hok]]. rewrite Hn in Hok. destruct Hok as [l [conc [conc' [actions [_ [_ [_ [_ [_ Hne]]]]]]]]].
  destruct m; [|lia]. destruct (o_actions o); [exfalso; apply Hne; reflexivity|discriminate C].
Qed.

(* WINDOW between polls: no other step makes an item active, or changes the number of items *)
Theorem step_window : forall s op t r l', isys_inv2 s -> op <> IPoll -> ibad (isys_step ev s op) = false ->
  items_of (si_c (isys_step ev s op)) t r = Some l' ->
  exists l, items_of (si_c s) t r = Some l /\ length l' = length l /\ nact l' <= nact l.
Proof.
  intros s op t r l' Hs Hop Hb Hl'.
  assert (Hb0 : ibad s = false) by (apply (not_bad_before (fun x => isys_step ev x op)); [intro; apply ibad_step_mono; assumption|exact Hb]).
  destruct (Hs Hb0) as [[Hu HF]|I].
  - exfalso. pose proof (isys_step_inv2 s op Hs Hb) as [[Hu' _]|[[Hi' _] _]]; [rewrite (unborn_no_table _ t r Hu') in Hl'; discriminate|].
    (* born by this step: every entry is a root entry without table *)
    assert (N : forall e, In e (staged (c_ws (si_c (isys_step ev s op)))) -> s_items e = None).
    { assert (R : forall st, ibad (isys_request ev s st) = false -> c_init (si_c (isys_request ev s st)) = true ->
                  forall e, In e (staged (c_ws (si_c (isys_request ev s st)))) -> s_items e = None).
      { intros st Hb' Hi''. unfold isys_request in *. destruct (status_in st request_statuses); [|destruct Hu; congruence].
        destruct (api_exec ev (OpRequest st) (si_c s)) as [c' x] eqn:E. simpl in *.
        unfold ibad in Hb'. simpl in Hb'. apply orb_false_iff in Hb'. destruct Hb' as [Hb1 _]. apply orb_false_iff in Hb1. destruct Hb1 as [_ Hb3].
        destruct (ensure_ws ev (si_c s)) as [c2 [[]|e0]] eqn:En; [|discriminate Hb3].
        pose proof (born_link _ _ Hu En) as [Hi2 _].
        assert (E1 : api_exec ev (OpRequest st) c2 = (c', x)).
        { rewrite <- E. cbn [api_exec]. unfold request_workflow_status, bind. rewrite En, (ensure_ws_inited ev c2 Hi2). reflexivity. }
        rewrite (request_staged _ _ _ _ Hi2 E1). exact (born_none _ _ Hu En). }
      assert (C : forall o, o = OpRender \/ o = OpPersist -> ibad (isys_call ev s o) = false ->
                  forall e, In e (staged (c_ws (si_c (isys_call ev s o)))) -> s_items e = None).
      { intros o Ho Hb'. unfold isys_call in *. destruct (api_exec ev o (si_c s)) as [c' x] eqn:E. simpl in *.
        unfold ibad in Hb'. simpl in Hb'. apply orb_false_iff in Hb'. destruct Hb' as [Hb1 _]. apply orb_false_iff in Hb1. destruct Hb1 as [_ Hb3].
        assert (XX : exists c2, ensure_ws ev (si_c s) = (c2, Val tt) /\ c_init c2 = true /\ api_exec ev o c2 = (c', x)).
        { destruct Ho as [-> | ->]; cbn [api_exec] in E |- *;
            (destruct (then_ret_inv _ _ _ _ _ _ E) as [[Hx X]|[e0 [Hx _]]]; [|rewrite Hx in Hb3; discriminate Hb3]).
          - unfold render_workflow_output in X.
            match type of X with bind (ensure_ws ev) ?k (si_c s) = _ =>
              destruct (unborn_call _ k (si_c s) Hu) as [[c2 [e0 [_ Z]]]|[c2 [En [[I _] Z]]]] end; [rewrite Z in X; discriminate X|].
            exists c2. split; [exact En|]. split; [exact I|]. rewrite Z in X. unfold bind at 1. unfold render_workflow_output. rewrite X, Hx. reflexivity.
          - unfold persist in X.
            match type of X with bind (ensure_ws ev) ?k (si_c s) = _ =>
              destruct (unborn_call _ k (si_c s) Hu) as [[c2 [e0 [_ Z]]]|[c2 [En [[I _] Z]]]] end; [rewrite Z in X; discriminate X|].
            exists c2. split; [exact En|]. split; [exact I|]. rewrite Z in X. unfold bind at 1. unfold persist. rewrite X, Hx. reflexivity. }
        destruct XX as [c2 [En [Hi2 E1]]]. rewrite (call_staged _ _ _ _ Ho Hi2 E1 Hb3). exact (born_none _ _ Hu En). }
      destruct op; cbn [isys_step] in *.
      - apply R; assumption.
      - congruence.
      - unfold isys_report in Hi'. rewrite HF in Hi'. simpl in Hi'. destruct Hu; congruence.
      - apply R; assumption.
      - apply C; [left; reflexivity|assumption].
      - apply C; [right; reflexivity|assumption]. }
    destruct (items_of_entry _ _ _ _ Hl') as [e [He [_ [_ [Hit _]]]]]. rewrite (N e He) in Hit. discriminate.
  - destruct (step_back_tdn s op I Hop Hb _ _ _ Hl') as [l [Hl [[Hlen _] Hn]]]. exists l. auto.
Qed.

(* HELD: once the workflow is pausing, paused, canceling or canceled a poll offers nothing and changes nothing *)
Theorem held_poll_nothing : forall s, c_init (si_c s) = true ->
  In (wstatus (c_ws (si_c s))) [S_PAUSING; S_PAUSED; S_CANCELING; S_CANCELED] ->
  get_next_tasks ev (si_c s) = (si_c s, Val []) /\ isys_poll ev s = s.
Proof.
  intros s Hi Hw. pose proof (no_offers_when_held ev (si_c s) Hi Hw) as H. split; [exact H|].
  unfold isys_poll. rewrite H. simpl. rewrite orb_false_r. destruct s; reflexivity.
Qed.

(* EMPTY LIST: the acknowledgement of an empty offer puts nothing in flight *)
Lemma empty_offer_inflight : forall s o, o_items_count o = Some 0 -> si_inflight (isys_ack_offer ev s o) = si_inflight s.
Proof. intros s o H. unfold isys_ack_offer. rewrite H. rewrite !inflight_event. reflexivity. Qed.


(* ---- inside a poll: the acknowledgements only add active items ---- *)
Definition tup (l l' : list status) : Prop := tle l l' /\ nact l <= nact l'.
Lemma tup_refl : forall l, tup l l.
Proof. intro l. split; [apply tle_refl|lia]. Qed.
Lemma tup_trans : forall a b c, tup a b -> tup b c -> tup a c.
Proof. intros a b c [A1 A2] [B1 B2]. split; [eapply tle_trans; eassumption|lia]. Qed.
Lemma nact_set_active : forall l i st, status_in st ACTIVE_STATUSES = true -> nact l <= nact (list_set_nth i st l).
Proof.
  induction l as [|a l IH]; intros i st H; [destruct i; simpl; lia|]. destruct i; cbn [list_set_nth]; rewrite !nact_cons.
  - rewrite H. destruct (status_in a ACTIVE_STATUSES); lia.
  - specialize (IH i st H). lia.
Qed.
Lemma tup_set : forall l i, tup l (list_set_nth i S_RUNNING l).
Proof. intros l i. split; [apply tle_set; discriminate|apply nact_set_active; reflexivity]. Qed.

Lemma ack_back_up : forall t r s a, ilink (si_c s) (si_inflight s) -> ibad (isys_ack ev t r s a) = false ->
  Tback tup (si_c s) (si_c (isys_ack ev t r s a)).
Proof.
  intros t r s a [Hi [Hfo _]] Hb. unfold isys_ack in *.
  destruct (a_item a) as [i|]; apply (ievent_back tup (with_inflight s _)); try assumption; try apply tup_refl.
  - intros i0 st res acc l E. inversion E; subst. apply tup_set.
  - intros i0 st res acc l E. discriminate E.
Qed.

Lemma ack_items_back_up : forall t r acts s l,
  ilink (si_c s) (si_inflight s) -> items_of (si_c s) t r = Some l ->
  (forall a, In a acts -> exists i, a_item a = Some i /\ i < length l) ->
  ibad (fold_left (isys_ack ev t r) acts s) = false ->
  Tback tup (si_c s) (si_c (fold_left (isys_ack ev t r) acts s)) /\
  exists l', items_of (si_c (fold_left (isys_ack ev t r) acts s)) t r = Some l' /\ length l' = length l.
Proof.
  intros t r. induction acts as [|a acts IH]; intros s l I Hl Hacts Hb; cbn [fold_left] in *;
    [split; [apply Tback_refl; apply tup_refl|exists l; auto]|].
  assert (Hb1 : ibad (isys_ack ev t r s a) = false).
  { apply (not_bad_before (fun x => fold_left (isys_ack ev t r) acts x)); [apply ibad_fold_ack_mono|exact Hb]. }
  destruct (Hacts a (or_introl eq_refl)) as [i [Hai Hil]].
  destruct (ack_item_step t r s a i l I Hl Hai Hil Hb1) as [I1 [Hl1 _]].
  destruct (IH _ (list_set_nth i S_RUNNING l) I1 Hl1) as [B [l' [Hl' Hlen]]]; [|exact Hb|].
  { intros a' Ha'. destruct (Hacts a' (or_intror Ha')) as [i' [A B]]. exists i'. rewrite length_set_nth. auto. }
  split; [|exists l'; rewrite Hlen, length_set_nth; auto].
  apply (Tback_trans tup _ (si_c (isys_ack ev t r s a))); [exact tup_trans|apply ack_back_up; assumption|exact B].
Qed.

Lemma ack_plain_back_up : forall t r acts s,
  ilink (si_c s) (si_inflight s) -> (forall a, In a acts -> a_item a = None) ->
  ibad (fold_left (isys_ack ev t r) acts s) = false ->
  Tback tup (si_c s) (si_c (fold_left (isys_ack ev t r) acts s)).
Proof.
  intros t r. induction acts as [|a acts IH]; intros s I Hacts Hb; cbn [fold_left] in *; [apply Tback_refl; apply tup_refl|].
  assert (Hb1 : ibad (isys_ack ev t r s a) = false).
  { apply (not_bad_before (fun x => fold_left (isys_ack ev t r) acts x)); [apply ibad_fold_ack_mono|exact Hb]. }
  destruct (ack_plain_loop t r [a] s I) as [I1 _]; [intros a' [<-|[]]; apply Hacts; left; reflexivity|exact Hb1|].
  simpl in I1.
  apply (Tback_trans tup _ (si_c (isys_ack ev t r s a))); [exact tup_trans|apply ack_back_up; assumption|].
  apply IH; [exact I1|intros; apply Hacts; right; assumption|exact Hb].
Qed.

Lemma ack_offer_back_up : forall s o, ilink (si_c s) (si_inflight s) -> pend_ok (si_c s) o ->
  ibad (isys_ack_offer ev s o) = false -> Tback tup (si_c s) (si_c (isys_ack_offer ev s o)).
Proof.
  intros s o I Hp Hb. unfold isys_ack_offer, pend_ok in *. destruct (o_items_count o) as [[|m]|].
  - set (s1 := isys_event ev s (o_id o) (o_route o) (EvAction S_RUNNING JNull)) in *.
    assert (Hb1 : ibad s1 = false).
    { apply (not_bad_before (fun x => isys_event ev x (o_id o) (o_route o) (EvAction S_SUCCEEDED (JList [])))); [apply ibad_event_mono|exact Hb]. }
    destruct (plain_event_step s (o_id o) (o_route o) (EvAction S_RUNNING JNull) (si_inflight s) Logic.I I) as [[Hi1 [Hfo1 _]] _];
      [intros; tauto|exact Hb1|]. fold s1 in Hi1, Hfo1. destruct I as [Hi [Hfo _]].
    apply (Tback_trans tup _ (si_c s1)); [exact tup_trans| |].
    + apply ievent_back; try assumption; [apply tup_refl|intros; discriminate].
    + apply ievent_back; try assumption; [apply tup_refl|intros; discriminate].
  - destruct Hp as [l [Hl Ha]]. exact (proj1 (ack_items_back_up _ _ _ _ _ I Hl Ha Hb)).
  - exact (ack_plain_back_up _ _ _ _ I Hp Hb).
Qed.

Lemma ack_offers_back_up : forall offers s, ilink (si_c s) (si_inflight s) ->
  (forall o, In o offers -> pend_ok (si_c s) o) -> offers_dup offers = false ->
  ibad (fold_left (isys_ack_offer ev) offers s) = false ->
  Tback tup (si_c s) (si_c (fold_left (isys_ack_offer ev) offers s)).
Proof.
  induction offers as [|o offers IH]; intros s I Hp Hd Hb; cbn [fold_left] in *; [apply Tback_refl; apply tup_refl|].
  simpl in Hd. apply orb_false_iff in Hd. destruct Hd as [Hd1 Hd2].
  assert (Hb1 : ibad (isys_ack_offer ev s o) = false).
  { apply (not_bad_before (fun x => fold_left (isys_ack_offer ev) offers x)); [apply ibad_fold_offer_mono|exact Hb]. }
  destruct (ack_offer_link s o I (Hp o (or_introl eq_refl)) Hb1) as [I1 P1].
  apply (Tback_trans tup _ (si_c (isys_ack_offer ev s o))); [exact tup_trans|apply ack_offer_back_up; [exact I|apply Hp; left; reflexivity|exact Hb1]|].
  apply IH; [exact I1| |exact Hd2|exact Hb].
  intros o2 Ho2. apply (pend_ok_persist (si_c s)); [apply Hp; right; exact Ho2|].
  intros l2. apply P1. apply (offers_key_distinct _ _ _ Hd1 Ho2).
Qed.


Definition poll_start (s : isys) (c1 : cstate) (offers : list offer) : isys :=
  {| si_c := c1; si_inflight := si_inflight s; si_acc := si_acc s; si_fault := si_fault s;
     si_wiped := si_wiped s || offers_dup offers |}.

Lemma offers_dup_app : forall a b, offers_dup (app a b) = false ->
  offers_dup a = false /\ offers_dup b = false /\
  forall o1 o2, In o1 a -> In o2 b -> (o_id o2, o_route o2) <> (o_id o1, o_route o1).
Proof.
  induction a as [|x a IH]; intros b H; simpl in *; [split; [reflexivity|split; [exact H|intros o1 o2 []]]|].
  apply orb_false_iff in H. destruct H as [H1 H2]. rewrite existsb_app in H1. apply orb_false_iff in H1. destruct H1 as [H1a H1b].
  destruct (IH b H2) as [A [B C]]. split; [rewrite H1a, A; reflexivity|]. split; [exact B|].
  intros o1 o2 [<-|Ho1] Ho2; [exact (offers_key_distinct _ _ _ H1b Ho2)|exact (C o1 o2 Ho1 Ho2)].
Qed.

(* WINDOW inside a poll: after the acknowledgement of any number of offers and of any number of the actions of the next
   one, every offer of the poll -- acknowledged already or not -- has at most max(k,1) active items *)
Theorem poll_window_inside : forall s c1 offers os1 o0 os2 as1 as2 o n k l,
  isys_inv2 s -> get_next_tasks ev (si_c s) = (c1, Val offers) -> ibad (isys_poll ev s) = false ->
  offers = app os1 (o0 :: os2) -> o_items_count o0 <> Some 0 -> o_actions o0 = app as1 as2 ->
  In o offers -> o_items_count o = Some (S n) -> o_concurrency o = Some k -> py_is_int k = true ->
  items_of (si_c (fold_left (isys_ack ev (o_id o0) (o_route o0)) as1
                            (fold_left (isys_ack_offer ev) os1 (poll_start s c1 offers)))) (o_id o) (o_route o) = Some l ->
  (Z.of_nat (nact l) <= effective_concurrency k)%Z.
Proof.
  intros s c1 offers os1 o0 os2 as1 as2 o n k l Hs Hg Hb Hsplit Hn0 Hacts Ho Hn Hk Hint Hl.
  pose proof (poll_done s c1 offers Hs Hg Hb o Ho) as D. unfold done2 in D. rewrite Hn in D.
  destruct D as [lf [Hlf [_ [W _]]]]. specialize (W k Hk Hint).
  (* a linked state with the same poll *)
  assert (Base : exists s', ilink2 s' /\ get_next_tasks ev (si_c s') = (c1, Val offers) /\
                            poll_start s' c1 offers = poll_start s c1 offers).
  { destruct (Hs (not_bad_before _ _ (ibad_poll_mono s) Hb)) as [[Hu HF]|I]; [|exists s; auto].
    assert (XX : (exists c2 e, get_next_tasks ev (si_c s) = (c2, Exc e)) \/
                 (exists c2, ensure_ws ev (si_c s) = (c2, Val tt) /\ ilink c2 [] /\ get_next_tasks ev (si_c s) = get_next_tasks ev c2)).
    { unfold get_next_tasks.
      match goal with |- context [bind (ensure_ws ev) ?k0 (si_c s)] =>
        destruct (unborn_call _ k0 (si_c s) Hu) as [[c2 [e [_ X]]]|[c2 [En [I X]]]] end;
        [left; exists c2, e; exact X|right; exists c2; split; [exact En|split; [exact I|exact X]]]. }
    destruct XX as [[c2 [e X]]|[c2 [En [I X]]]]; [rewrite X in Hg; discriminate|].
    exists (set_c s c2). split; [split; simpl; [rewrite HF; exact I|exact (born_tall shaped _ _ Hu En)]|].
    split; [simpl; rewrite <- X; exact Hg|reflexivity]. }
  destruct Base as [s' [[I T] [Hg' Hps]]].
  assert (Hfin : isys_poll ev s = fold_left (isys_ack_offer ev) offers (poll_start s c1 offers)).
  { unfold isys_poll. rewrite Hg. reflexivity. }
  rewrite Hfin in *. clear Hfin. rewrite <- Hps in *. clear Hps Hs Hg s. rename s' into s.
  set (s0 := poll_start s c1 offers) in *.
  destruct I as [Hi [Hfo [H1 H2]]].
  destruct (gn_items_eff ev _ _ _ Hi Hg') as [HR Hof].
  destruct (J_Rgn _ _ _ HR H1 H2) as [K1 K2].
  pose proof (fo_get_next_tasks ev _ _ _ Hg' Hfo) as Hfo1.
  pose proof (Tall_Rgn shaped _ _ shaped_repeat HR T) as T1.
  assert (Hb0 : ibad s0 = false).
  { apply (not_bad_before (fun x => fold_left (isys_ack_offer ev) offers x)); [apply ibad_fold_offer_mono|exact Hb]. }
  assert (Hd : offers_dup offers = false).
  { unfold ibad, s0, poll_start in Hb0. simpl in Hb0. apply orb_false_iff in Hb0. destruct Hb0 as [_ X]. apply orb_false_iff in X. tauto. }
  assert (I0 : ilink (si_c s0) (si_inflight s0)).
  { unfold s0, poll_start; simpl. split; [|split; [exact Hfo1|split; assumption]].
    destruct HR as [_ [_ [Hin _]]]. rewrite Hin. exact Hi. }
  assert (P0 : forall o', In o' offers -> pend2 (si_c s0) o').
  { intros o' Ho'. destruct (Hof o' Ho') as [e [_ [_ [_ Hok]]]]. exact (pend2_of_offer_ok _ _ _ T1 Hok). }
  assert (Pk : forall c o', pend2 c o' -> pend_ok c o').
  { intros c o' Hp. unfold pend2, pend_ok in *. destruct (o_items_count o') as [[|n']|]; auto.
    destruct Hp as [pre [u [m [Hl0 [Hf [Hm [Hmu _]]]]]]]. exists (app pre (repeat S_UNSET u)). split; [exact Hl0|].
    intros a Ha. apply (in_map a_item) in Ha. rewrite Hm in Ha. apply in_map_iff in Ha. destruct Ha as [i [Hi0 Hin]].
    apply in_seq in Hin. exists i. split; [auto|]. rewrite app_length, repeat_length. lia. }
  subst offers. rewrite fold_left_app in Hb, Hlf. cbn [fold_left] in Hb, Hlf.
  destruct (offers_dup_app _ _ Hd) as [Hd1 [Hd2 Hdis]].
  simpl in Hd2. apply orb_false_iff in Hd2. destruct Hd2 as [Hd2a Hd2b].
  set (sA := fold_left (isys_ack_offer ev) os1 s0) in *.
  set (sB := isys_ack_offer ev sA o0) in *.
  assert (HbB : ibad sB = false).
  { apply (not_bad_before (fun x => fold_left (isys_ack_offer ev) os2 x)); [apply ibad_fold_offer_mono|exact Hb]. }
  assert (HbA : ibad sA = false).
  { apply (not_bad_before (fun x => isys_ack_offer ev x o0)); [apply ibad_ack_offer_mono|exact HbB]. }
  destruct (ack_offers_tbl os1 s0 I0 T1) as [IA [TA [_ FwA]]];
    [intros o' Ho'; apply P0; apply in_or_app; left; exact Ho'|exact Hd1|exact HbA|]. fold sA in IA, TA, FwA.
  assert (PA : forall o', In o' (o0 :: os2) -> pend_ok (si_c sA) o').
  { intros o' Ho'. apply (pend_ok_persist (si_c s0)); [apply Pk; apply P0; apply in_or_app; right; exact Ho'|].
    intros l2. apply FwA. intros o1 Ho1. exact (Hdis o1 o' Ho1 Ho'). }
  destruct (ack_offer_link sA o0 IA (PA o0 (or_introl eq_refl)) HbB) as [IB FwB]. fold sB in IB, FwB.
  assert (PB : forall o', In o' os2 -> pend_ok (si_c sB) o').
  { intros o' Ho'. apply (pend_ok_persist (si_c sA)); [apply PA; right; exact Ho'|].
    intros l2. apply FwB. apply (offers_key_distinct _ _ _ Hd2a Ho'). }
  pose proof (ack_offers_back_up os2 sB IB PB Hd2b Hb) as BackB.
  (* from the middle of o0 to its end *)
  set (mid := fold_left (isys_ack ev (o_id o0) (o_route o0)) as1 sA) in *.
  assert (HsB : sB = fold_left (isys_ack ev (o_id o0) (o_route o0)) as2 mid).
  { unfold sB, isys_ack_offer, mid. rewrite Hacts, fold_left_app. destruct (o_items_count o0) as [[|m]|]; [congruence|reflexivity|reflexivity]. }
  assert (BackM : Tback tup (si_c mid) (si_c sB)).
  { assert (Hbm : ibad mid = false).
    { apply (not_bad_before (fun x => fold_left (isys_ack ev (o_id o0) (o_route o0)) as2 x)); [apply ibad_fold_ack_mono|rewrite <- HsB; exact HbB]. }
    pose proof (PA o0 (or_introl eq_refl)) as P. unfold pend_ok in P. destruct (o_items_count o0) as [[|m]|]; [congruence| |].
    - destruct P as [l0 [Hl0 Ha0]].
      assert (Ha1 : forall a, In a as1 -> exists i, a_item a = Some i /\ i < length l0).
      { intros a Ha. apply Ha0. rewrite Hacts. apply in_or_app. left. exact Ha. }
      destruct (ack_items_loop _ _ as1 sA l0 IA Hl0 Ha1 Hbm) as [Im _]. fold mid in Im.
      destruct (ack_items_back_up _ _ as1 sA l0 IA Hl0 Ha1 Hbm) as [_ [lm [Hlm Hlen]]]. fold mid in Hlm.
      rewrite HsB. apply (ack_items_back_up _ _ as2 mid lm Im Hlm); [|rewrite <- HsB; exact HbB].
      intros a Ha. rewrite Hlen. apply Ha0. rewrite Hacts. apply in_or_app. right. exact Ha.
    - assert (Ha1 : forall a, In a as1 -> a_item a = None) by (intros a Ha; apply P; rewrite Hacts; apply in_or_app; left; exact Ha).
      destruct (ack_plain_loop _ _ as1 sA IA Ha1 Hbm) as [Im _]. fold mid in Im.
      rewrite HsB. apply (ack_plain_back_up _ _ as2 mid Im); [|rewrite <- HsB; exact HbB].
      intros a Ha. apply P. rewrite Hacts. apply in_or_app. right. exact Ha. }
  destruct (BackB _ _ _ Hlf) as [lB [HlB [_ NB]]]. destruct (BackM _ _ _ HlB) as [lm [Hlm [_ NM]]].
  rewrite Hl in Hlm. inversion Hlm; subst lm. lia.
Qed.

End ItemSystem.

(* ================================================================== L. reachable states of the protocol *)
Section Reachable.
Variable ev : string -> dict -> evalres.
Variables (sp : wf_spec) (g : graph) (inputs parent : dict).

Definition ireach (ops : list isys_op) : isys := isys_run ev ops (isys_init sp g inputs parent).

Lemma ibad_false : forall s, si_fault s = false -> si_wiped s = false -> ibad s = false.
Proof. intros s A B. unfold ibad. rewrite A, B. reflexivity. Qed.

Lemma ireach_inv2 : forall ops, isys_inv2 (ireach ops).
Proof. intro ops. apply isys_run_inv2. apply isys_init_inv2. Qed.

Lemma ireach_app : forall ops1 ops2, ireach (app ops1 ops2) = isys_run ev ops2 (ireach ops1).
Proof. intros. unfold ireach, isys_run. apply fold_left_app. Qed.

(* (a) LINK, item part, with the shape of the tables *)
Theorem items_link : forall ops, let s := ireach ops in
  si_fault s = false -> si_wiped s = false ->
  (forall t r i, In (t, r, Some i) (si_inflight s) ->
     exists l, items_of (si_c s) t r = Some l /\ nth_error l i = Some S_RUNNING) /\
  (forall e l i st, In e (staged (c_ws (si_c s))) -> s_items e = Some l -> nth_error l i = Some st ->
     status_in st ACTIVE_STATUSES = true -> st = S_RUNNING /\ In (s_id e, s_route e, Some i) (si_inflight s)) /\
  (forall e l, In e (staged (c_ws (si_c s))) -> s_items e = Some l -> shaped l) /\
  first_only (staged (c_ws (si_c s))).
Proof.
  intros ops s Hf Hw. destruct (ireach_inv2 ops (ibad_false _ Hf Hw)) as [[[_ Hws] HF]|[[_ [Hfo [H1 H2]]] T]].
  - fold s in Hws, HF. rewrite HF, Hws. simpl. split; [intros; contradiction|]. split; [intros; contradiction|].
    split; [intros; contradiction|exact I].
  - fold s in Hfo, H1, H2, T. split; [exact H1|]. split; [exact H2|]. split; [exact T|exact Hfo].
Qed.

(* (b) WINDOW at the end of a poll *)
Theorem items_window_poll : forall ops c1 offers o n k, let s := ireach ops in
  si_fault (isys_poll ev s) = false -> si_wiped (isys_poll ev s) = false ->
  get_next_tasks ev (si_c s) = (c1, Val offers) -> In o offers -> o_items_count o = Some (S n) ->
  o_concurrency o = Some k -> py_is_int k = true ->
  exists l, items_of (si_c (isys_poll ev s)) (o_id o) (o_route o) = Some l /\
            (Z.of_nat (nact l) <= effective_concurrency k)%Z.
Proof.
  intros ops c1 offers o n k s Hf Hw Hg Ho Hn Hk Hint.
  exact (poll_window ev s c1 offers o n k (ireach_inv2 ops) Hg (ibad_false _ Hf Hw) Ho Hn Hk Hint).
Qed.

(* (b) WINDOW between polls *)
Theorem items_window_step : forall ops op t r l', let s := ireach ops in op <> IPoll ->
  si_fault (isys_step ev s op) = false -> si_wiped (isys_step ev s op) = false ->
  items_of (si_c (isys_step ev s op)) t r = Some l' ->
  exists l, items_of (si_c s) t r = Some l /\ length l' = length l /\ nact l' <= nact l.
Proof.
  intros ops op t r l' s Hop Hf Hw Hl'. exact (step_window ev s op t r l' (ireach_inv2 ops) Hop (ibad_false _ Hf Hw) Hl').
Qed.

(* (c) ORDER inside a poll *)
Theorem items_offers_consecutive : forall ops c1 offers o n, let s := ireach ops in
  si_fault s = false -> si_wiped s = false -> c_init (si_c s) = true ->
  get_next_tasks ev (si_c s) = (c1, Val offers) -> In o offers -> o_items_count o = Some (S n) ->
  exists pre u m, items_of c1 (o_id o) (o_route o) = Some (app pre (repeat S_UNSET u)) /\
                  Forall (fun st => st <> S_UNSET) pre /\
                  map a_item (o_actions o) = map Some (seq (length pre) m) /\ 0 < m <= u.
Proof.
  intros ops c1 offers o n s Hf Hw Hi Hg Ho Hn.
  exact (poll_offers_consecutive ev s c1 offers o n (ireach_inv2 ops) (ibad_false _ Hf Hw) Hi Hg Ho Hn).
Qed.

(* (c) ONCE / ORDER across polls *)
Theorem items_once_order : forall ops1 ops2 t r i j,
  let s1 := ireach ops1 in let s3 := isys_run ev ops2 (isys_poll ev s1) in
  offered_by ev s1 t r j ->
  (forall pre post, ops2 = app pre post -> items_of (si_c (isys_run ev pre (isys_poll ev s1))) t r <> None) ->
  offered_by ev s3 t r i ->
  si_fault (isys_poll ev s3) = false -> si_wiped (isys_poll ev s3) = false -> j < i.
Proof.
  intros ops1 ops2 t r i j s1 s3 Hj Hal Hi Hf Hw.
  exact (once_order ev s1 ops2 t r i j (ireach_inv2 ops1) Hj Hal Hi (ibad_false _ Hf Hw)).
Qed.


(* (b) WINDOW after every API call of a poll *)
Theorem items_window_inside : forall ops c1 offers os1 o0 os2 as1 as2 o n k l, let s := ireach ops in
  si_fault (isys_poll ev s) = false -> si_wiped (isys_poll ev s) = false ->
  get_next_tasks ev (si_c s) = (c1, Val offers) ->
  offers = app os1 (o0 :: os2) -> o_items_count o0 <> Some 0 -> o_actions o0 = app as1 as2 ->
  In o offers -> o_items_count o = Some (S n) -> o_concurrency o = Some k -> py_is_int k = true ->
  items_of (si_c (fold_left (isys_ack ev (o_id o0) (o_route o0)) as1
                            (fold_left (isys_ack_offer ev) os1 (poll_start s c1 offers)))) (o_id o) (o_route o) = Some l ->
  (Z.of_nat (nact l) <= effective_concurrency k)%Z.
Proof.
  intros ops c1 offers os1 o0 os2 as1 as2 o n k l s Hf Hw Hg.
  exact (poll_window_inside ev s c1 offers os1 o0 os2 as1 as2 o n k l (ireach_inv2 ops) Hg (ibad_false _ Hf Hw)).
Qed.

End Reachable.
