(* SysItemsRecProofs.v -- the RECORD level of the with-items provider protocol (model/ProviderSysItems.v):
   the frame of update_task_state and of the status requests on task records in states WITH item tables, and
   the link between the items in flight and the status of the task record. *)
From Coq Require Import String List Bool ZArith Arith Lia.
From Orq Require Import GenStatuses GenEvents GenTables GenSpecMeta Base State Machines Codec Conductor Decode Api Driver ProviderSys ProviderSysItems ProviderSysItemsMon.
From Orq Require Import F_tables F_names F_sys F_sysitems Hoare ValuePost StatusReach C04Proofs C05Proofs C02C03Proofs C09C10Proofs OffersProofs InertProofs RetryProofs SysProofs SysNextProofs SysItemsProofs.
Import ListNotations.
Open Scope string_scope.

(* ================================================================== A. pointers and the record frame *)

(* every pointer names a record of its own key *)
Definition P_ok (c : cstate) : Prop :=
  forall t r i, ws_task_idx (c_ws c) t r = Some i ->
    exists rec, nth_error (sequence (c_ws c)) i = Some rec /\ key_of rec = (t, r).

(* the records of [c] are still there in [c'], same key, and same status unless the key is in K *)
Definition R1 (K : tkey -> Prop) (c c' : cstate) : Prop :=
  forall i rec, nth_error (sequence (c_ws c)) i = Some rec ->
    exists rec', nth_error (sequence (c_ws c')) i = Some rec' /\ key_of rec' = key_of rec /\
                 (r_status rec' = r_status rec \/ K (key_of rec)).
(* the pointers of the keys outside K are unchanged *)
Definition R2 (K : tkey -> Prop) (c c' : cstate) : Prop :=
  forall t r, ~ K (t, r) -> ws_task_idx (c_ws c') t r = ws_task_idx (c_ws c) t r.

Definition RK (K : tkey -> Prop) (c c' : cstate) : Prop :=
  c_init c = true -> P_ok c -> c_init c' = true /\ P_ok c' /\ R1 K c c' /\ R2 K c c'.

Lemma RK_refl : forall K c, RK K c c.
Proof.
  intros K c Hi H. split; [exact Hi|]. split; [exact H|]. split; [|intros t r _; reflexivity].
  intros i rec E. exists rec. auto.
Qed.
Lemma RK_trans : forall K a b c, RK K a b -> RK K b c -> RK K a c.
Proof.
  intros K a b c H1 H2 Ia Pa. destruct (H1 Ia Pa) as [Ib [Pb [A1 A2]]]. destruct (H2 Ib Pb) as [Ic [Pc [B1 B2]]].
  split; [exact Ic|]. split; [exact Pc|]. split.
  - intros i rec E. destruct (A1 i rec E) as [r1 [E1 [K1 S1]]]. destruct (B1 i r1 E1) as [r2 [E2 [K2 S2]]].
    exists r2. split; [exact E2|]. split; [congruence|]. rewrite K1 in S2.
    destruct S1 as [S1|S1]; [|right; exact S1]. destruct S2 as [S2|S2]; [left; congruence|right; exact S2].
  - intros t r Hk. rewrite (B2 t r Hk). apply A2; exact Hk.
Qed.
Lemma RK_mono : forall (K K' : tkey -> Prop) c c', (forall k, K k -> K' k) -> RK K c c' -> RK K' c c'.
Proof.
  intros K K' c c' Hs H Ia Pa. destruct (H Ia Pa) as [Ib [Pb [A1 A2]]]. split; [exact Ib|]. split; [exact Pb|]. split.
  - intros i rec E. destruct (A1 i rec E) as [r1 [E1 [K1 S1]]]. exists r1. split; [exact E1|]. split; [exact K1|].
    destruct S1; auto.
  - intros t r Hk. apply A2. intro X. apply Hk. apply Hs. exact X.
Qed.

Lemma nth_map_sig : forall l l' i (rec : trec), map sig l' = map sig l -> nth_error l i = Some rec ->
  exists rec', nth_error l' i = Some rec' /\ sig rec' = sig rec.
Proof.
  intros l l' i rec H E. assert (X : nth_error (map sig l') i = Some (sig rec)) by (rewrite H; apply map_nth_error; exact E).
  rewrite nth_error_map in X. destruct (nth_error l' i) as [r'|]; [|discriminate]. simpl in X. exists r'. split; [reflexivity|congruence].
Qed.

Lemma sig_key : forall r r', sig r' = sig r -> key_of r' = key_of r /\ r_status r' = r_status r.
Proof. intros r r' H. unfold sig, key_of in *. inversion H. auto. Qed.

(* same pointers, same keys and statuses: the frame of SysProofs.v *)
Lemma RK_same : forall K c c', tasks (c_ws c') = tasks (c_ws c) -> map sig (sequence (c_ws c')) = map sig (sequence (c_ws c)) ->
  c_init c' = c_init c -> RK K c c'.
Proof.
  intros K c c' Ht Hs Hi Ia Pa. split; [congruence|]. split; [|split].
  - intros t r i E. unfold ws_task_idx in *. rewrite Ht in E. destruct (Pa t r i E) as [rec [A B]].
    destruct (nth_map_sig _ _ _ _ Hs A) as [rec' [A' S]]. exists rec'. split; [exact A'|]. destruct (sig_key _ _ S); congruence.
  - intros i rec E. destruct (nth_map_sig _ _ _ _ Hs E) as [rec' [A' S]]. exists rec'. destruct (sig_key _ _ S). auto.
  - intros t r _. unfold ws_task_idx. rewrite Ht. reflexivity.
Qed.
Lemma RK_Rfr : forall K c c', Rfr c c' -> RK K c c'.
Proof. intros K c c' [A [B [_ [_ [_ C]]]]]. apply RK_same; assumption. Qed.
Lemma RK_Rlt : forall K c c', Rlt c c' -> RK K c c'.
Proof. intros K c c' H. apply RK_Rfr. apply Rlt_Rfr. exact H. Qed.

(* a new record for the key (t, rt): appended, pointed *)
Lemma RK_new_rec : forall (K : tkey -> Prop) c t rt ins prev retry, K (t, rt) ->
  RK K c (set_ws c (ws_set_tasks (ws_set_sequence (c_ws c) (app (sequence (c_ws c)) [new_rec t rt ins prev retry]))
                                 (aset tkey_eqb (t, rt) (length (sequence (c_ws c))) (tasks (c_ws c))))).
Proof.
  intros K c t rt ins prev retry Hk Ia Pa. split; [exact Ia|]. split; [|split].
  - intros t' r' i E. unfold ws_task_idx in E. simpl in E. simpl.
    destruct (tkey_eqb (t', r') (t, rt)) eqn:Ek.
    + apply tkey_eqb_eq in Ek. inversion Ek; subst t' r'. rewrite aget_aset_same_tkey in E. inversion E; subst i.
      exists (new_rec t rt ins prev retry). split; [rewrite nth_error_app2, Nat.sub_diag by lia; reflexivity|reflexivity].
    + assert (Hne : (t', r') <> (t, rt)) by (intro X; rewrite X, tkey_eqb_refl in Ek; discriminate).
      rewrite aget_aset_other in E by exact Hne. destruct (Pa t' r' i E) as [rec [A B]]. exists rec. split; [|exact B].
      rewrite nth_error_app1; [exact A|]. apply nth_error_Some. rewrite A. discriminate.
  - intros i rec E. exists rec. simpl. split; [|auto]. rewrite nth_error_app1; [exact E|]. apply nth_error_Some. rewrite E. discriminate.
  - intros t' r' Hn. unfold ws_task_idx. simpl. apply aget_aset_other. intro X. apply Hn. rewrite X. exact Hk.
Qed.

(* ================================================================== B. the record frame of a task event *)

Definition Kcmd (k : tkey) : Prop := is_engine_command (fst k) = true.
Definition Kown (k0 k : tkey) : Prop := k = k0 \/ Kcmd k.

Lemma engine_event_cmd : forall n e, engine_event n = Some e -> is_engine_command n = true.
Proof.
  intros n e H. unfold engine_event in H. unfold is_engine_command, ahas.
  destruct (aget String.eqb n ENGINE_EVENT_MAP); [reflexivity|discriminate].
Qed.

(* a status written into the record at [idx] whose key is in K *)
Lemma RK_set_status : forall (K : tkey -> Prop) c idx r s, nth_error (sequence (c_ws c)) idx = Some r -> K (key_of r) ->
  RK K c (set_ws c (ws_update_rec (c_ws c) idx (fun r0 => r_set_status r0 s))).
Proof.
  intros K c idx r s Hr Hk Ia Pa. unfold ws_update_rec. rewrite Hr. split; [exact Ia|]. split; [|split].
  - intros t' r' i E. unfold ws_task_idx in *. simpl in *. destruct (Pa t' r' i E) as [rec [A B]].
    destruct (Nat.eq_dec i idx) as [->|Hne].
    + rewrite Hr in A. inversion A; subst rec. exists (r_set_status r s). split; [eapply nth_error_set_nth_same; exact Hr|exact B].
    + exists rec. split; [rewrite nth_error_set_nth_other by congruence; exact A|exact B].
  - intros i rec E. simpl. destruct (Nat.eq_dec i idx) as [->|Hne].
    + rewrite Hr in E. inversion E; subst rec. exists (r_set_status r s). split; [eapply nth_error_set_nth_same; exact Hr|].
      split; [reflexivity|right; exact Hk].
    + exists rec. split; [rewrite nth_error_set_nth_other by congruence; exact E|auto].
  - intros t' r' _. reflexivity.
Qed.

Section RecFrame.
Variable ev : string -> dict -> evalres.
Variable K : tkey -> Prop.

Lemma rk_fr : forall A (m : M A), vpres Rfr m -> vpres (RK K) m.
Proof. intros A m H c c' a E. apply RK_Rfr. exact (H _ _ _ E). Qed.

Lemma rk_wf_task_event : forall t route st, vpres (RK K) (wf_task_event_M t route st).
Proof.
  intros t route st c c' a H. unfold wf_task_event_M in H.
  destruct (wf_process_task_event (c_graph c) (c_ws c) t route st) as [[new unr]|e]; inversion H; subst.
  apply RK_same; reflexivity.
Qed.

Lemma rk_add_task_state : forall t rt ins prev c c' idx, K (t, rt) ->
  add_task_state ev t rt ins prev c = (c', Val idx) ->
  RK K c c' /\ ws_task_idx (c_ws c') t rt = Some idx.
Proof.
  intros t rt ins prev c c' idx Hk H. destruct (add_task_state_eff ev _ _ _ _ _ _ _ H) as [cm [retry [L [-> [-> _]]]]].
  split; [|unfold ws_task_idx; simpl; apply aget_aset_same_tkey].
  eapply RK_trans; [apply RK_Rlt; exact L|apply RK_new_rec; exact Hk].
Qed.

Lemma rk_sel1 : forall t route s0 e0 c c1 idx1, K (t, route) ->
  (forall s, s0 = Some s -> s_route s = route) -> e0 = ws_task_idx (c_ws c) t route ->
  uts_sel1 ev t s0 e0 c = (c1, Val idx1) -> RK K c c1 /\ ws_task_idx (c_ws c1) t route = Some idx1.
Proof.
  intros t route s0 e0 c c1 idx1 Hk Hr He H. unfold uts_sel1 in H.
  assert (Add : (s <- uts_need_staged s0 ;; add_task_state ev t (s_route s) (s_in s) (s_prev s)) c = (c1, Val idx1) ->
                RK K c c1 /\ ws_task_idx (c_ws c1) t route = Some idx1).
  { intro X. apply bind_val_inv' in X. destruct X as [c0 [s [E0 X]]]. destruct s0 as [s'|]; [|inversion E0].
    inversion E0; subst c0 s'. rewrite (Hr s eq_refl) in X. eapply rk_add_task_state; eassumption. }
  destruct e0 as [i|]; [|apply Add; exact H].
  destruct (is_engine_command t); [apply Add; exact H|]. inversion H; subst c1 idx1. split; [apply RK_refl|auto].
Qed.

Lemma rk_sel2 : forall t route evt s0 r1 idx1 c c2 idx, K (t, route) ->
  (forall s, s0 = Some s -> s_route s = route) -> ws_task_idx (c_ws c) t route = Some idx1 ->
  uts_sel2 ev t evt s0 r1 idx1 c = (c2, Val idx) -> RK K c c2 /\ ws_task_idx (c_ws c2) t route = Some idx.
Proof.
  intros t route evt s0 r1 idx1 c c2 idx Hk Hr He H. unfold uts_sel2 in H.
  destruct (_ && _ && _).
  - apply bind_val_inv' in H. destruct H as [c0 [s [E0 X]]]. destruct s0 as [s'|]; [|inversion E0].
    inversion E0; subst c0 s'. rewrite (Hr s eq_refl) in X. eapply rk_add_task_state; eassumption.
  - inversion H; subst c2 idx. split; [apply RK_refl|exact He].
Qed.

Lemma rk_setst : forall idx ns c c' r, nth_error (sequence (c_ws c)) idx = Some r -> K (key_of r) ->
  uts_setst idx ns c = (c', Val tt) -> RK K c c'.
Proof.
  intros idx ns c c' r Hr Hk H. unfold uts_setst in H. destruct ns as [s|]; [|inversion H; apply RK_refl].
  unfold set_rec_status, modws in H. inversion H; subst c'. eapply RK_set_status; eassumption.
Qed.

Section WithRec.
Variable rec : string -> nat -> event -> M unit.
Hypothesis Hcmd : forall k, Kcmd k -> K k.
Hypothesis Hrec : forall t r e, K (t, r) -> vpres (RK K) (rec t r e).

Lemma rk_tail : forall t route ts idx o n compl, (forall ctx, compl = Some (ctx, true) -> K (t, route)) ->
  vpres (RK K) (uts_tail ev rec t route ts idx o n compl).
Proof.
  intros t route ts idx o n compl Hown. unfold uts_tail.
  assert (G : vpres (RK K)
            (queue <- uts_queue ev t route idx ts o n compl ;;
             r <- get_rec idx ;;
             st <- match r_status r with Some s => ret s | None => raise (exn_key "status") end ;;
             unreachable <- wf_task_event_M t route st ;;
             log_unreachable unreachable ;;;
             forM_ queue (uts_call rec) ;;;
             (w <- getws ;; (if status_in (wstatus w) COMPLETED_STATUSES then upd_rec idx (fun r0 => r_set_term r0 true) else ret tt)))).
  { apply (vp_bind _ (RK_trans K)); [apply rk_fr; apply vfr_queue|intro queue].
    apply (vp_bind _ (RK_trans K)); [apply rk_fr; apply vfr_get_rec|intro r].
    apply (vp_bind _ (RK_trans K)); [destruct (r_status r); [apply (vp_ret _ (RK_refl K))|apply vp_raise]|intro st].
    apply (vp_bind _ (RK_trans K)); [apply rk_wf_task_event|intro unr].
    apply (vp_bind _ (RK_trans K)); [apply rk_fr; apply vfr_log_unreachable|intros _].
    apply (vp_bind _ (RK_trans K)).
    - apply (vp_forM _ (RK_refl K) (RK_trans K)). intros [nn rt]. unfold uts_call.
      destruct (engine_event nn) as [e|] eqn:E; [|apply vp_raise].
      apply Hrec. apply Hcmd. unfold Kcmd. simpl. eapply engine_event_cmd; exact E.
    - intros _. apply (vp_bind _ (RK_trans K)); [apply (vp_getws _ (RK_refl K))|intro w].
      destruct (status_in (wstatus w) COMPLETED_STATUSES); [apply rk_fr; apply vfr_upd_rec; intro; reflexivity|apply (vp_ret _ (RK_refl K))]. }
  destruct compl as [[ctx [|]]|]; [|exact G|exact G].
  apply Hrec. eapply Hown. reflexivity.
Qed.

(* the machine step and everything after it, for the record [idx] the key (t, route) points to *)
Lemma rk_machine : forall t route evt ts idx c c', K (t, route) ->
  ws_task_idx (c_ws c) t route = Some idx ->
  uts_machine ev rec t route evt ts idx c = (c', Val tt) -> RK K c c'.
Proof.
  intros t route evt ts idx c c' Hk Hp H Ia Pa. unfold uts_machine in H.
  apply bind_val_inv' in H. destruct H as [c0 [r [E0 H]]]. apply get_rec_inv in E0. destruct E0 as [-> Hr].
  apply bind_val_inv' in H. destruct H as [c0 [w [E0 H]]]. inversion E0; subst c0 w; clear E0.
  apply bind_val_inv' in H. destruct H as [c0 [ns [E0 H]]].
  assert (c0 = c) by (destruct (task_process_event (c_ws c) r evt); inversion E0; reflexivity). subst c0.
  apply bind_val_inv' in H. destruct H as [c1 [[] [E1 H]]].
  assert (Hkey : K (key_of r)).
  { destruct (Pa t route idx Hp) as [rec0 [A B]]. rewrite Hr in A. inversion A; subst rec0. rewrite B. exact Hk. }
  pose proof (rk_setst _ _ _ _ _ Hr Hkey E1) as S1.
  apply bind_val_inv' in H. destruct H as [c2 [r' [E2 H]]]. apply get_rec_inv in E2. destruct E2 as [-> Hr'].
  apply bind_val_inv' in H. destruct H as [c3 [[] [E3 H]]].
  pose proof (rk_fr _ _ (vfr_retrying t route idx r' (rstatus r')) _ _ _ E3) as S3.
  apply bind_val_inv' in H. destruct H as [c4 [compl [E4 H]]].
  pose proof (rk_fr _ _ (vfr_completion ev t route evt ts idx (rstatus r') (rstatus r)) _ _ _ E4) as S4.
  assert (S5 : RK K c4 c') by (eapply rk_tail; [intros; exact Hk|exact H]).
  exact (RK_trans K _ _ _ (RK_trans K _ _ _ (RK_trans K _ _ _ S1 S3) S4) S5 Ia Pa).
Qed.

Lemma rk_body : forall t route evt, K (t, route) -> vpres (RK K) (uts_body ev rec t route evt).
Proof.
  intros t route evt Hk c c' a H Ia Pa. unfold uts_body in H.
  unfold bind at 1 in H. rewrite (ensure_ws_inited ev c Ia) in H.
  unfold bind at 1 in H. unfold get at 1 in H.
  destruct (negb (g_has_task (c_graph c) t)); [inversion H|]. cbv zeta in H.
  apply bind_val_inv' in H. destruct H as [c0 [ts [E0 H]]].
  assert (c0 = c) by (destruct (spec_get_task (c_spec c) t); inversion E0; reflexivity). subst c0.
  assert (Hroute : forall s, get_staged_task (c_ws c) t route = Some s -> s_route s = route).
  { intros s Hs. apply get_staged_matches in Hs. apply Hs. }
  assert (Main : uts_main ev rec t route evt ts (get_staged_task (c_ws c) t route) (ws_task_idx (c_ws c) t route) c = (c', Val a) ->
                 c_init c' = true /\ P_ok c' /\ R1 K c c' /\ R2 K c c').
  { clear H. intro H. unfold uts_main in H.
    apply bind_val_inv' in H. destruct H as [c1 [idx1 [E1 H]]].
    destruct (rk_sel1 _ _ _ _ _ _ _ Hk Hroute eq_refl E1) as [S1 P1].
    apply bind_val_inv' in H. destruct H as [c0 [r1 [E0' H]]]. apply get_rec_inv in E0'. destruct E0' as [-> Hr1].
    apply bind_val_inv' in H. destruct H as [c2 [idx [E2 H]]].
    destruct (rk_sel2 _ _ _ _ _ _ _ _ _ Hk Hroute P1 E2) as [S2 P2].
    apply bind_val_inv' in H. destruct H as [c3 [[] [E3 H]]].
    pose proof (vfr_unstage _ _ _ _ _ _ _ E3) as F3.
    apply bind_val_inv' in H. destruct H as [c4 [[] [E4 H]]].
    pose proof (vfr_item _ _ _ _ _ _ _ E4) as F4.
    apply bind_val_inv' in H. destruct H as [c5 [[] [E5 H]]].
    pose proof (vfr_logfail _ _ _ _ _ E5) as F5.
    pose proof (Rfr_trans _ _ _ (Rfr_trans _ _ _ F3 F4) F5) as F.
    assert (P5 : ws_task_idx (c_ws c5) t route = Some idx).
    { unfold ws_task_idx in *. destruct F as [T _]. rewrite T. exact P2. }
    destruct a. pose proof (rk_machine _ _ _ _ _ _ _ Hk P5 H) as S6.
    exact (RK_trans K _ _ _ (RK_trans K _ _ _ (RK_trans K _ _ _ S1 S2) (RK_Rfr K _ _ F)) S6 Ia Pa). }
  destruct (get_staged_task (c_ws c) t route) as [s0|] eqn:Es, (ws_task_idx (c_ws c) t route) as [e0|] eqn:Ee;
    try (apply Main; exact H). inversion H.
Qed.

End WithRec.
End RecFrame.

(* the whole call: only records of the call's own key and of engine commands change status; only their pointers move *)
Lemma rk_fuel : forall ev fuel t route evt,
  vpres (RK (Kown (t, route))) (update_task_state_fuel ev fuel t route evt).
Proof.
  intros ev. induction fuel as [|fuel IH]; intros t route evt; [apply vp_raise|]. rewrite uts_unfold.
  apply rk_body; [intros k Hc; right; exact Hc| |left; reflexivity].
  intros t' r' e Hk c c' a H. apply (RK_mono (Kown (t', r'))); [|exact (IH t' r' e _ _ _ H)].
  intros k [->|Hc]; [exact Hk|right; exact Hc].
Qed.

Theorem rk_update_task_state : forall ev t route evt c c', update_task_state ev t route evt c = (c', Val tt) ->
  RK (Kown (t, route)) c c'.
Proof. intros ev t route evt c c' H. exact (rk_fuel ev _ t route evt _ _ _ H). Qed.

(* ================================================================== C. the call on its own record *)

Definition sel2cond (evt : event) (s0 : option stg) (r0 : trec) : bool :=
  ostatus_in (r_status r0) COMPLETED_STATUSES && status_in (ev_status evt) STARTING_STATUSES
  && match s0 with Some s => negb (s_completed s) | None => false end.

Section OwnStep.
Variable ev : string -> dict -> evalres.
Variable rec : string -> nat -> event -> M unit.

Lemma nth_sig_fr : forall c c' i r, Rfr c c' -> nth_error (sequence (c_ws c)) i = Some r ->
  exists r', nth_error (sequence (c_ws c')) i = Some r' /\ sig r' = sig r.
Proof. intros c c' i r [_ [H _]] E. eapply nth_map_sig; eassumption. Qed.

Lemma own_step : forall t route evt c c',
  uts_body ev rec t route evt c = (c', Val tt) -> c_init c = true -> P_ok c ->
  exists ts idx r ns c3 c4 compl,
    (c_init c3 = true /\ P_ok c3 /\ R1 (Kown (t, route)) c c3 /\ R2 (Kown (t, route)) c c3) /\
    (ws_task_idx (c_ws c3) t route = Some idx /\ nth_error (sequence (c_ws c3)) idx = Some r /\ key_of r = (t, route)) /\
    ((r_status r = None /\
      (is_engine_command t = true \/ ws_task_idx (c_ws c) t route = None \/
       exists idx0 r0, ws_task_idx (c_ws c) t route = Some idx0 /\ nth_error (sequence (c_ws c)) idx0 = Some r0 /\
                       sel2cond evt (get_staged_task (c_ws c) t route) r0 = true)) \/
     (is_engine_command t = false /\ ws_task_idx (c_ws c) t route = Some idx /\
      exists r0, nth_error (sequence (c_ws c)) idx = Some r0 /\ r_status r = r_status r0 /\
                 sel2cond evt (get_staged_task (c_ws c) t route) r0 = false)) /\
    (exists ca cb cc, staged (c_ws ca) = staged (c_ws c) /\
       uts_unstage t route evt (get_staged_task (c_ws c) t route) ca = (cb, Val tt) /\
       uts_item t route evt (get_staged_task (c_ws c) t route) cb = (cc, Val tt) /\
       staged (c_ws c3) = staged (c_ws cc)) /\
    task_process_event (c_ws c3) r evt = Val ns /\
    (exists r4, nth_error (sequence (c_ws c4)) idx = Some r4 /\ sig r4 = sig (stepped r ns)) /\
    ws_task_idx (c_ws c4) t route = Some idx /\ c_init c4 = true /\ P_ok c4 /\
    R1 (Kown (t, route)) c3 c4 /\ R2 (Kown (t, route)) c3 c4 /\
    (status_in (rstatus (stepped r ns)) COMPLETED_STATUSES = false ->
       compl = None /\ (rstatus (stepped r ns) <> S_RETRYING -> staged (c_ws c4) = staged (c_ws c3))) /\
    (forall ctx, compl = Some (ctx, true) -> status_in (rstatus (stepped r ns)) COMPLETED_STATUSES = true /\
                                             tbl_transition_valid task_table (rstatus (stepped r ns)) S_RETRYING = true) /\
    uts_tail ev rec t route ts idx (rstatus r) (rstatus (stepped r ns)) compl c4 = (c', Val tt).
Proof.
  intros t route evt c c' H Ia Pa. unfold uts_body in H.
  unfold bind at 1 in H. rewrite (ensure_ws_inited ev c Ia) in H.
  unfold bind at 1 in H. unfold get at 1 in H.
  destruct (negb (g_has_task (c_graph c) t)); [inversion H|]. cbv zeta in H.
  apply bind_val_inv' in H. destruct H as [c0 [ts [E0 H]]].
  assert (c0 = c) by (destruct (spec_get_task (c_spec c) t); inversion E0; reflexivity). subst c0. clear E0.
  set (K := Kown (t, route)).
  assert (Hk : K (t, route)) by (left; reflexivity).
  assert (Hroute : forall s, get_staged_task (c_ws c) t route = Some s -> s_route s = route).
  { intros s Hs. apply get_staged_matches in Hs. apply Hs. }
  assert (Main : uts_main ev rec t route evt ts (get_staged_task (c_ws c) t route) (ws_task_idx (c_ws c) t route) c = (c', Val tt)).
  { destruct (get_staged_task (c_ws c) t route), (ws_task_idx (c_ws c) t route); try exact H. inversion H. }
  clear H. rename Main into H. unfold uts_main in H.
  set (s0 := get_staged_task (c_ws c) t route) in *.
  apply bind_val_inv' in H. destruct H as [c1 [idx1 [E1 H]]].
  destruct (rk_sel1 ev K _ _ _ _ _ _ _ Hk Hroute eq_refl E1) as [S1 P1].
  pose proof (vs_sel1 ev _ _ _ _ _ _ E1) as G1.
  apply bind_val_inv' in H. destruct H as [c0 [r1 [E0' H]]]. apply get_rec_inv in E0'. destruct E0' as [-> Hr1].
  apply bind_val_inv' in H. destruct H as [c2 [idx [E2 H]]].
  destruct (rk_sel2 ev K _ _ _ _ _ _ _ _ _ Hk Hroute P1 E2) as [S2 P2].
  pose proof (vs_sel2 ev _ _ _ _ _ _ _ _ E2) as G2.
  pose proof (RK_trans K _ _ _ S1 S2) as S12. destruct (S12 Ia Pa) as [I2 [Pk2 [A1 A2]]].
  destruct (Pk2 t route idx P2) as [r2 [Hr2 Hkey2]].
  (* origin of the record *)
  assert (Orig : (r_status r2 = None /\
      (is_engine_command t = true \/ ws_task_idx (c_ws c) t route = None \/
       exists idx0 r0, ws_task_idx (c_ws c) t route = Some idx0 /\ nth_error (sequence (c_ws c)) idx0 = Some r0 /\
                       sel2cond evt s0 r0 = true)) \/
     (is_engine_command t = false /\ ws_task_idx (c_ws c) t route = Some idx /\
      exists r0, nth_error (sequence (c_ws c)) idx = Some r0 /\ r_status r2 = r_status r0 /\ sel2cond evt s0 r0 = false)).
  { assert (New : forall ca cb i (s : stg), add_task_state ev t (s_route s) (s_in s) (s_prev s) ca = (cb, Val i) ->
                    exists rn, nth_error (sequence (c_ws cb)) i = Some rn /\ r_status rn = None).
    { intros ca cb i s X. destruct (add_task_state_eff ev _ _ _ _ _ _ _ X) as [cm [retry [_ [-> [-> _]]]]].
      eexists. split; [simpl; rewrite nth_error_app2, Nat.sub_diag by lia; reflexivity|reflexivity]. }
    (* what the first selection did *)
    assert (Sel1 : (is_engine_command t = true \/ ws_task_idx (c_ws c) t route = None) /\ r_status r1 = None \/
                   is_engine_command t = false /\ ws_task_idx (c_ws c) t route = Some idx1 /\ c1 = c).
    { unfold uts_sel1 in E1. destruct (ws_task_idx (c_ws c) t route) as [i|] eqn:Ee.
      - destruct (is_engine_command t) eqn:Ecmd.
        + left. split; [left; reflexivity|]. apply bind_val_inv' in E1. destruct E1 as [cx [s [Ex E1]]]. destruct s0 as [s'|]; [|inversion Ex].
          inversion Ex; subst cx s'. destruct (New _ _ _ _ E1) as [rn [A B]]. rewrite Hr1 in A. inversion A; subst rn. exact B.
        + right. inversion E1; subst c1 idx1. auto.
      - left. split; [right; reflexivity|]. apply bind_val_inv' in E1. destruct E1 as [cx [s [Ex E1]]]. destruct s0 as [s'|]; [|inversion Ex].
        inversion Ex; subst cx s'. destruct (New _ _ _ _ E1) as [rn [A B]]. rewrite Hr1 in A. inversion A; subst rn. exact B. }
    unfold uts_sel2 in E2. fold (sel2cond evt s0 r1) in E2.
    destruct (sel2cond evt s0 r1) eqn:Ec.
    - left. split.
      + apply bind_val_inv' in E2. destruct E2 as [cx [s [Ex E2]]]. destruct s0 as [s'|]; [|inversion Ex].
        inversion Ex; subst cx s'. destruct (New _ _ _ _ E2) as [rn [A B]]. rewrite Hr2 in A. inversion A; subst rn. exact B.
      + destruct Sel1 as [[[X|X] _]|[_ [Y Z]]]; [left; exact X|right; left; exact X|].
        right; right. subst c1. exists idx1, r1. auto.
    - inversion E2; subst c2 idx. rewrite Hr1 in Hr2. inversion Hr2; subst r2.
      destruct Sel1 as [[X Y]|[X [Y Z]]]; [left; split; [exact Y|destruct X; auto]|].
      right. subst c1. split; [exact X|]. split; [exact Y|]. exists r1. auto. }
  apply bind_val_inv' in H. destruct H as [c3a [[] [E3 H]]].
  pose proof (vfr_unstage _ _ _ _ _ _ _ E3) as F3.
  apply bind_val_inv' in H. destruct H as [c3b [[] [E4 H]]].
  pose proof (vfr_item _ _ _ _ _ _ _ E4) as F4.
  apply bind_val_inv' in H. destruct H as [c3 [[] [E5 H]]].
  pose proof (vfr_logfail _ _ _ _ _ E5) as F5.
  assert (G5 : staged (c_ws c3) = staged (c_ws c3b)).
  { unfold uts_logfail in E5. destruct (status_eqb (ev_status evt) S_FAILED); [|inversion E5; reflexivity].
    apply log_entry_error_eff in E5. destruct E5 as [_ [W _]]. rewrite W. reflexivity. }
  pose proof (Rfr_trans _ _ _ (Rfr_trans _ _ _ F3 F4) F5) as F.
  assert (P3 : ws_task_idx (c_ws c3) t route = Some idx).
  { unfold ws_task_idx in *. destruct F as [T _]. rewrite T. exact P2. }
  destruct (nth_sig_fr _ _ _ _ F Hr2) as [r [Hr Hsig]]. destruct (sig_key _ _ Hsig) as [Hkr Hsr].
  pose proof (RK_trans K _ _ _ S12 (RK_Rfr K _ _ F)) as S3. destruct (S3 Ia Pa) as [I3 [Pk3 [B1 B2]]].
  (* the machine *)
  unfold uts_machine in H.
  apply bind_val_inv' in H. destruct H as [cx [rr [Ex H]]]. apply get_rec_inv in Ex. destruct Ex as [-> Hrr].
  rewrite Hr in Hrr. inversion Hrr; subst rr. clear Hrr.
  apply bind_val_inv' in H. destruct H as [cx [w [Ex H]]]. inversion Ex; subst cx w; clear Ex.
  apply bind_val_inv' in H. destruct H as [cx [ns [Ex H]]].
  assert (Ens : task_process_event (c_ws c3) r evt = Val ns /\ cx = c3)
    by (destruct (task_process_event (c_ws c3) r evt); inversion Ex; auto). destruct Ens as [Ens ->]. clear Ex.
  apply bind_val_inv' in H. destruct H as [c5 [[] [E6 H]]].
  assert (Hkey : K (key_of r)) by (rewrite Hkr, Hkey2; exact Hk).
  pose proof (rk_setst K _ _ _ _ _ Hr Hkey E6) as S6.
  destruct (setst_inv _ _ _ _ _ _ E6 Hr) as [_ [T6 [_ N6]]].
  assert (G6 : staged (c_ws c5) = staged (c_ws c3)).
  { unfold uts_setst in E6. destruct ns; [|inversion E6; reflexivity]. unfold set_rec_status, modws in E6. inversion E6; subst c5.
    simpl. apply staged_update_rec. }
  fold (stepped r ns) in N6.
  apply bind_val_inv' in H. destruct H as [cx [r' [Ex H]]]. apply get_rec_inv in Ex. destruct Ex as [-> Hr'].
  rewrite N6 in Hr'. inversion Hr'; subst r'. clear Hr'.
  apply bind_val_inv' in H. destruct H as [c6 [[] [E7 H]]].
  destruct (retrying_eff ev _ _ _ _ _ _ _ E7) as [F7 [Same7 _]].
  apply bind_val_inv' in H. destruct H as [c4 [compl [E8 H]]].
  pose proof (vfr_completion ev _ _ _ _ _ _ _ _ _ _ E8) as F8.
  pose proof (Rfr_trans _ _ _ F7 F8) as F78.
  exists ts, idx, r, ns, c3, c4, compl.
  split; [auto|]. split; [split; [exact P3|split; [exact Hr|rewrite Hkr; exact Hkey2]]|].
  split.
  { destruct Orig as [[O O2]|[Oc [Op [r0 [Or0 [Os Oc2]]]]]]; [left; split; [congruence|exact O2]|right].
    split; [exact Oc|]. split; [exact Op|]. exists r0. split; [exact Or0|]. split; [congruence|exact Oc2]. }
  split.
  { exists c2, c3a, c3b. split; [unfold Rstg in G1, G2; congruence|]. auto. }
  split; [exact Ens|].
  pose proof (RK_trans K _ _ _ S6 (RK_Rfr K _ _ F78)) as S8. destruct (S8 I3 Pk3) as [I4 [Pk4 [C1 C2]]].
  split; [eapply nth_sig_fr; [exact F78|exact N6]|].
  split; [unfold ws_task_idx in *; destruct F78 as [T _]; rewrite T, T6; exact P3|].
  split; [exact I4|]. split; [exact Pk4|]. split; [exact C1|]. split; [exact C2|].
  split.
  { intro Hnc. destruct (completion_inv ev _ _ _ _ _ _ _ _ _ _ E8) as [[_ [X Y]]|[Hcomp _]]; [|congruence].
    split; [exact X|]. intro Hnr. subst c4. rewrite (Same7 Hnr). exact G6. }
  split; [|exact H].
  intros ctx Hc. destruct (completion_inv ev _ _ _ _ _ _ _ _ _ _ E8) as [[_ [X _]]|[Hcomp [cy [ry [ctx' [b [_ [_ [_ [Hcb [Hb _]]]]]]]]]]]; [congruence|].
  split; [exact Hcomp|]. rewrite Hc in Hcb. inversion Hcb; subst. destruct (Hb eq_refl) as [_ [X _]]. exact X.
Qed.

End OwnStep.

(* ================================================================== D. what a call does to a protected record *)

Definition ncompl (o : option status) : Prop := ostatus_in o COMPLETED_STATUSES = false.

Lemma rstatus_ncompl : forall r, ncompl (r_status r) <-> status_in (rstatus r) COMPLETED_STATUSES = false.
Proof. intro r. unfold ncompl, rstatus, ostatus_in. destruct (r_status r); [tauto|]. split; intros _; reflexivity. Qed.

Section Protected.
Variable ev : string -> dict -> evalres.

Lemma tail_cmd : forall fuel t route ts idx o n compl c4 c', (forall ctx, compl <> Some (ctx, true)) ->
  uts_tail ev (update_task_state_fuel ev fuel) t route ts idx o n compl c4 = (c', Val tt) -> RK Kcmd c4 c'.
Proof.
  intros fuel t route ts idx o n compl c4 c' Hn H.
  refine (rk_tail ev Kcmd _ (fun k X => X) _ t route ts idx o n compl _ _ _ _ H).
  - intros t' r' e Hk c c0 a E. apply (RK_mono (Kown (t', r'))); [|exact (rk_fuel ev fuel t' r' e _ _ _ E)].
    intros k [->|Hc]; [exact Hk|exact Hc].
  - intros ctx E. exfalso. exact (Hn ctx E).
Qed.

(* a call for another key leaves the record of a task that is not an engine command alone *)
Lemma prot_other : forall t0 r0 e c c' t r idx rec, update_task_state ev t0 r0 e c = (c', Val tt) ->
  c_init c = true -> P_ok c -> (t, r) <> (t0, r0) -> is_engine_command t = false ->
  ws_task_idx (c_ws c) t r = Some idx -> nth_error (sequence (c_ws c)) idx = Some rec ->
  ws_task_idx (c_ws c') t r = Some idx /\
  exists rec', nth_error (sequence (c_ws c')) idx = Some rec' /\ r_status rec' = r_status rec.
Proof.
  intros t0 r0 e c c' t r idx rec H Ia Pa Hne Hc Hp Hr.
  destruct (rk_update_task_state ev _ _ _ _ _ H Ia Pa) as [_ [_ [A1 A2]]].
  assert (Hk : ~ Kown (t0, r0) (t, r)).
  { intros [X|X]; [exact (Hne X)|]. unfold Kcmd in X. simpl in X. congruence. }
  split; [rewrite (A2 t r Hk); exact Hp|].
  destruct (A1 idx rec Hr) as [rec' [E [_ S]]]. exists rec'. split; [exact E|].
  destruct S as [S|S]; [exact S|]. destruct (Pa t r idx Hp) as [rec0 [X Y]]. rewrite Hr in X. inversion X; subst rec0.
  rewrite Y in S. contradiction.
Qed.

(* the init flag and the pointers survive any call *)
Lemma prot_ok : forall t0 r0 e c c', update_task_state ev t0 r0 e c = (c', Val tt) ->
  c_init c = true -> P_ok c -> c_init c' = true /\ P_ok c'.
Proof. intros t0 r0 e c c' H Ia Pa. destruct (rk_update_task_state ev _ _ _ _ _ H Ia Pa) as [A [B _]]. auto. Qed.

(* an item event on a task with an item table: the record the machine steps, the name it is given, and where the
   record and the table are afterwards when the step does not complete the task *)
Lemma own_item_event : forall t r i st res acc c c' s0 l,
  update_task_state ev t r (EvItem i st res acc) c = (c', Val tt) -> c_init c = true -> P_ok c ->
  is_engine_command t = false ->
  get_staged_task (c_ws c) t r = Some s0 -> s_items s0 = Some l -> i < length l ->
  exists idx rr ns w3,
    key_of rr = (t, r) /\
    ((r_status rr = None /\
      (ws_task_idx (c_ws c) t r = None \/
       exists idx0 r0, ws_task_idx (c_ws c) t r = Some idx0 /\ nth_error (sequence (c_ws c)) idx0 = Some r0 /\
                       sel2cond (EvItem i st res acc) (Some s0) r0 = true)) \/
     (ws_task_idx (c_ws c) t r = Some idx /\
      exists r0, nth_error (sequence (c_ws c)) idx = Some r0 /\ r_status rr = r_status r0 /\
                 sel2cond (EvItem i st res acc) (Some s0) r0 = false)) /\
    get_staged_task w3 t r = Some (record_item i st s0) /\
    task_process_event w3 rr (EvItem i st res acc) = Val ns /\
    (status_in (rstatus (stepped rr ns)) COMPLETED_STATUSES = false -> rstatus (stepped rr ns) <> S_RETRYING ->
       ws_task_idx (c_ws c') t r = Some idx /\
       (exists r', nth_error (sequence (c_ws c')) idx = Some r' /\ r_status r' = r_status (stepped rr ns)) /\
       staged (c_ws c') = staged_update (record_item i st) t r (staged (c_ws c))).
Proof.
  intros t r i st res acc c c' s0 l H Ia Pa Hcmd Hs0 Hl Hil.
  unfold update_task_state in H. rewrite uts_unfold in H.
  destruct (own_step ev _ _ _ _ _ _ H Ia Pa) as (ts & idx & rr & ns & c3 & c4 & compl &
    (I3 & P3 & A1 & A2) & (Hp3 & Hr3 & Hk3) & Orig & (ca & cb & cc & Sa & Eu & Ei & Sc) & Ens & (r4 & Hr4 & Hs4) &
    Hp4 & I4 & P4 & B1 & B2 & Hnc & _ & Htl).
  rewrite Hs0 in *.
  assert (St3 : staged (c_ws c3) = staged_update (record_item i st) t r (staged (c_ws c))).
  { unfold uts_unstage in Eu. rewrite Hl in Eu. inversion Eu; subst cb.
    unfold uts_item in Ei. rewrite Hl in Ei. apply Nat.ltb_lt in Hil. rewrite Hil in Ei. unfold modws in Ei. inversion Ei; subst cc.
    rewrite Sc. simpl. rewrite Sa. reflexivity. }
  exists idx, rr, ns, (c_ws c3). split; [exact Hk3|]. split.
  { destruct Orig as [[O [O2|[O2|O2]]]|[_ [Op [r0 O]]]]; [congruence|left; auto|left; auto|right; split; [exact Op|exists r0; exact O]]. }
  split.
  { unfold get_staged_task. rewrite St3. unfold get_staged_task in Hs0.
    rewrite (find_staged_update_same _ _ _ _ (record_item_keeps i st)), Hs0. reflexivity. }
  split; [exact Ens|].
  intros Hn Hnr. destruct (Hnc Hn) as [-> Sg]. specialize (Sg Hnr).
  assert (Hnoretry : forall ctx : dict, None <> Some (ctx, true)) by (intros; discriminate).
  destruct (tail_cmd _ _ _ _ _ _ _ _ _ _ Hnoretry Htl I4 P4) as [_ [_ [C1 C2]]].
  assert (Hk : ~ Kcmd (t, r)) by (unfold Kcmd; simpl; congruence).
  split; [rewrite (C2 t r Hk); exact Hp4|]. split.
  - destruct (C1 idx r4 Hr4) as [r' [E [_ S]]]. exists r'. split; [exact E|].
    destruct (sig_key _ _ Hs4) as [K4 S4]. destruct S as [S|S]; [congruence|].
    exfalso. apply Hk. rewrite <- Hk3. rewrite K4 in S. destruct rr, ns; exact S.
  - rewrite <- St3, <- Sg. apply (flt_tail_noqueue ev _ _ _ _ _ _ _ _ _ _ Htl Hnoretry). left; reflexivity.
Qed.

End Protected.

(* ================================================================== E. acknowledgements and reports on the task's own record *)

Definition live (o : option status) : Prop := ostatus_in o DEAD_STATUSES = false.

Lemma live_rstatus : forall r, live (r_status r) <-> status_in (rstatus r) DEAD_STATUSES = false.
Proof. intro r. unfold live, rstatus, ostatus_in. destruct (r_status r); [tauto|]. split; intros _; reflexivity. Qed.
Lemma dead_split : forall x, status_in x DEAD_STATUSES = false -> status_in x COMPLETED_STATUSES = false /\ x <> S_RETRYING.
Proof. intros x H. destruct x; try discriminate H; split; try reflexivity; discriminate. Qed.
Lemma live_ncompl : forall o, live o -> ncompl o.
Proof. intros [x|] H; [|reflexivity]. unfold live, ncompl in *. simpl in *. apply (dead_split _ H). Qed.

Lemma del_set_nth : forall A (l : list A) i x, list_del_nth i (list_set_nth i x l) = list_del_nth i l.
Proof. induction l as [|a l IH]; intros i x; destruct i; simpl; try reflexivity. rewrite IH. reflexivity. Qed.
Lemma In_del_nth : forall A (l : list A) i j x, nth_error l j = Some x -> j <> i -> In x (list_del_nth i l).
Proof.
  induction l as [|a l IH]; intros i j x H Hne; [destruct j; discriminate|].
  destruct i, j; simpl in *; try congruence.
  - eapply nth_error_In; exact H.
  - inversion H; left; reflexivity.
  - right. eapply IH; [exact H|congruence].
Qed.

Lemma stepped_rstatus : forall r ns, r_status (stepped r ns) = Some (rstatus (stepped r ns)) \/ (ns = None /\ r_status r = None).
Proof. intros r [s|]; [left; reflexivity|]. simpl. unfold rstatus. destruct (r_status r); [left; reflexivity|right; auto]. Qed.

Definition busy (o : option status) : Prop := ostatus_in o GOOD_STATUSES = true.
Lemma busy_live : forall o, busy o -> live o.
Proof. intros [x|] H; [|discriminate H]. unfold busy, live in *. simpl in *. apply F_good_split; exact H. Qed.
Lemma busy_rstatus : forall r, busy (r_status r) -> status_in (rstatus r) GOOD_STATUSES = true.
Proof. intros r H. unfold busy, rstatus in *. destruct (r_status r); [exact H|discriminate H]. Qed.
Lemma busy_stepped : forall rr ns, status_in (rstatus (stepped rr ns)) GOOD_STATUSES = true -> busy (r_status (stepped rr ns)).
Proof.
  intros rr ns H. unfold busy. destruct (stepped_rstatus rr ns) as [E|[En E]]; [rewrite E; exact H|].
  subst ns. cbn [stepped] in *. unfold rstatus in H. rewrite E in H. discriminate H.
Qed.

Section OwnEvents.
Variable ev : string -> dict -> evalres.

(* the acknowledgement of an item *)
Lemma own_ack : forall t r i res acc c c' s0 l,
  update_task_state ev t r (EvItem i S_RUNNING res acc) c = (c', Val tt) -> c_init c = true -> P_ok c ->
  is_engine_command t = false ->
  get_staged_task (c_ws c) t r = Some s0 -> s_items s0 = Some l -> i < length l ->
  (forall idx0 r0, ws_task_idx (c_ws c) t r = Some idx0 -> nth_error (sequence (c_ws c)) idx0 = Some r0 ->
                   ostatus_in (r_status r0) COMPLETED_STATUSES = true -> s_completed s0 = false) ->
  exists idx r', ws_task_idx (c_ws c') t r = Some idx /\ nth_error (sequence (c_ws c')) idx = Some r' /\
                 busy (r_status r') /\
                 staged (c_ws c') = staged_update (record_item i S_RUNNING) t r (staged (c_ws c)).
Proof.
  intros t r i res acc c c' s0 l H Ia Pa Hcmd Hs0 Hl Hil Hcompl.
  destruct (own_item_event ev _ _ _ _ _ _ _ _ _ _ H Ia Pa Hcmd Hs0 Hl Hil) as (idx & rr & ns & w3 & Hk & Orig & _ & Ens & Fin).
  destruct (tpe_provider w3 rr (EvItem i S_RUNNING res acc) ns eq_refl Ens) as [name [Hn [_ Hname]]]. rewrite (Hname eq_refl) in Hn.
  assert (Hgood : status_in (rstatus (stepped rr ns)) GOOD_STATUSES = true).
  { rewrite stepped_status. destruct ns as [x|].
    - rewrite (F_running_target _ _ Hn). reflexivity.
    - destruct Orig as [[O _]|[Op [r0 [Or0 [Os Oc]]]]].
      + unfold rstatus in Hn. rewrite O in Hn. vm_compute in Hn. discriminate Hn.
      + apply (F_norow_busy _ Hn). unfold rstatus. rewrite Os.
        destruct (ostatus_in (r_status r0) COMPLETED_STATUSES) eqn:E0.
        * unfold sel2cond in Oc. rewrite E0, (Hcompl _ _ Op Or0 E0) in Oc. discriminate Oc.
        * destruct (r_status r0); [exact E0|reflexivity]. }
  destruct (dead_split _ (F_good_split _ Hgood)) as [Hnc Hnr]. destruct (Fin Hnc Hnr) as [Hp [[r' [Hr' Hs']] Hst]].
  exists idx, r'. split; [exact Hp|]. split; [exact Hr'|]. split; [|exact Hst].
  rewrite Hs'. apply busy_stepped. exact Hgood.
Qed.

(* the report of an item while another item of the task is active *)
Lemma own_report : forall t r i st res acc c c' s0 l j sj idx0 r0,
  update_task_state ev t r (EvItem i st res acc) c = (c', Val tt) -> c_init c = true -> P_ok c ->
  is_engine_command t = false -> status_in st report_statuses = true ->
  get_staged_task (c_ws c) t r = Some s0 -> s_items s0 = Some l -> i < length l ->
  nth_error l j = Some sj -> j <> i -> status_in sj ACTIVE_STATUSES = true ->
  ws_task_idx (c_ws c) t r = Some idx0 -> nth_error (sequence (c_ws c)) idx0 = Some r0 -> busy (r_status r0) ->
  exists idx r', ws_task_idx (c_ws c') t r = Some idx /\ nth_error (sequence (c_ws c')) idx = Some r' /\
                 busy (r_status r') /\
                 staged (c_ws c') = staged_update (record_item i st) t r (staged (c_ws c)).
Proof.
  intros t r i st res acc c c' s0 l j sj idx0 r0 H Ia Pa Hcmd Hst Hs0 Hl Hil Hj Hji Hact Hp0 Hr0 Hb0.
  destruct (own_item_event ev _ _ _ _ _ _ _ _ _ _ H Ia Pa Hcmd Hs0 Hl Hil) as (idx & rr & ns & w3 & Hk & Orig & Hg3 & Ens & Fin).
  assert (Hreq : status_in st item_requirements = true) by (destruct st; try discriminate Hst; reflexivity).
  assert (Hrr : busy (r_status rr)).
  { destruct Orig as [[_ [O|[i1 [r1 [Op [Or1 Oc]]]]]]|[Op [r1 [Or1 [Os _]]]]].
    - congruence.
    - rewrite Hp0 in Op. inversion Op; subst i1. rewrite Hr0 in Or1. inversion Or1; subst r1.
      unfold sel2cond in Oc. apply andb_prop in Oc. destruct Oc as [Oc _]. apply andb_prop in Oc. destruct Oc as [Oc _].
      pose proof (live_ncompl _ (busy_live _ Hb0)) as X. unfold ncompl in X. congruence.
    - rewrite Hp0 in Op. inversion Op; subst idx. rewrite Hr0 in Or1. inversion Or1; subst r1. rewrite Os. exact Hb0. }
  assert (Hgood : status_in (rstatus (stepped rr ns)) GOOD_STATUSES = true).
  { rewrite stepped_status. destruct ns as [x|]; [|apply busy_rstatus; exact Hrr].
    unfold task_process_event in Ens. destruct (negb _); [discriminate|].
    unfold key_of in Hk. inversion Hk as [[Hid Hrt]]. rewrite Hid, Hrt in Ens.
    destruct (item_event_name w3 t r i st) as [n|e] eqn:En; [|discriminate].
    apply task_table_step_val in Ens.
    assert (Hc : contains "_task_active_" n = true).
    { eapply (F_item_name_active w3 t r i st _ (list_set_nth i st l)); [exact Hg3| |exact Hreq| |exact En].
      - unfold record_item. rewrite Hl. destruct s0; reflexivity.
      - rewrite del_set_nth. apply existsb_exists. exists sj. split; [eapply In_del_nth; eassumption|exact Hact]. }
    exact (F_active_busy _ _ _ Ens Hc (busy_rstatus _ Hrr)). }
  destruct (dead_split _ (F_good_split _ Hgood)) as [Hnc Hnr]. destruct (Fin Hnc Hnr) as [Hp [[r' [Hr' Hs']] Hstg]].
  exists idx, r'. split; [exact Hp|]. split; [exact Hr'|]. split; [|exact Hstg].
  rewrite Hs'. apply busy_stepped. exact Hgood.
Qed.

End OwnEvents.


(* ================================================================== E'. where the task's own record ends *)
Section OwnFinal.
Variable ev : string -> dict -> evalres.

(* after a call for (t, route), t not an engine command: the record of (t, route) has the status the machine gave it,
   or -- when the step completed the task and a retry was decided -- it is retrying *)
Lemma own_final : forall f t route evt c c',
  uts_body ev (update_task_state_fuel ev (S f)) t route evt c = (c', Val tt) -> c_init c = true -> P_ok c ->
  is_engine_command t = false ->
  exists idx rr ns w3 idx' r',
    key_of rr = (t, route) /\
    ((r_status rr = None /\
      (ws_task_idx (c_ws c) t route = None \/
       exists idx0 r0, ws_task_idx (c_ws c) t route = Some idx0 /\ nth_error (sequence (c_ws c)) idx0 = Some r0 /\
                       sel2cond evt (get_staged_task (c_ws c) t route) r0 = true)) \/
     (ws_task_idx (c_ws c) t route = Some idx /\
      exists r0, nth_error (sequence (c_ws c)) idx = Some r0 /\ r_status rr = r_status r0 /\
                 sel2cond evt (get_staged_task (c_ws c) t route) r0 = false)) /\
    (exists ca cb cc, staged (c_ws ca) = staged (c_ws c) /\
       uts_unstage t route evt (get_staged_task (c_ws c) t route) ca = (cb, Val tt) /\
       uts_item t route evt (get_staged_task (c_ws c) t route) cb = (cc, Val tt) /\
       staged w3 = staged (c_ws cc)) /\
    task_process_event w3 rr evt = Val ns /\
    ws_task_idx (c_ws c') t route = Some idx' /\ nth_error (sequence (c_ws c')) idx' = Some r' /\
    (r_status r' = r_status (stepped rr ns) \/
     (r_status r' = Some S_RETRYING /\ status_in (rstatus (stepped rr ns)) COMPLETED_STATUSES = true)).
Proof.
  intros f t route evt c c' H Ia Pa Hcmd.
  destruct (own_step ev _ _ _ _ _ _ H Ia Pa) as (ts & idx & rr & ns & c3 & c4 & compl &
    (I3 & P3 & A1 & A2) & (Hp3 & Hr3 & Hk3) & Orig & Stg & Ens & (r4 & Hr4 & Hs4) &
    Hp4 & I4 & P4 & B1 & B2 & Hnc & Hretry & Htl).
  assert (Hk : ~ Kcmd (t, route)) by (unfold Kcmd; simpl; congruence).
  assert (OrigX : (r_status rr = None /\
      (ws_task_idx (c_ws c) t route = None \/
       exists idx0 r0, ws_task_idx (c_ws c) t route = Some idx0 /\ nth_error (sequence (c_ws c)) idx0 = Some r0 /\
                       sel2cond evt (get_staged_task (c_ws c) t route) r0 = true)) \/
     (ws_task_idx (c_ws c) t route = Some idx /\
      exists r0, nth_error (sequence (c_ws c)) idx = Some r0 /\ r_status rr = r_status r0 /\
                 sel2cond evt (get_staged_task (c_ws c) t route) r0 = false)).
  { destruct Orig as [[O [O2|[O2|O2]]]|[_ [Op [r0 O]]]]; [congruence|left; auto|left; auto|right; split; [exact Op|exists r0; exact O]]. }
  destruct (sig_key _ _ Hs4) as [K4 S4].
  assert (NoRetry : (forall ctx, compl <> Some (ctx, true)) ->
            ws_task_idx (c_ws c') t route = Some idx /\ exists r', nth_error (sequence (c_ws c')) idx = Some r' /\ r_status r' = r_status (stepped rr ns)).
  { intro Hn. destruct (tail_cmd ev _ _ _ _ _ _ _ _ _ _ Hn Htl I4 P4) as [_ [_ [C1 C2]]].
    split; [rewrite (C2 t route Hk); exact Hp4|].
    destruct (C1 idx r4 Hr4) as [r' [E [_ S]]]. exists r'. split; [exact E|].
    destruct S as [S|S]; [congruence|]. exfalso. apply Hk. rewrite <- Hk3. rewrite K4 in S. destruct rr, ns; exact S. }
  destruct compl as [[ctx [|]]|].
  - (* a retry was decided: the call goes on with the retry event *)
    destruct (Hretry ctx eq_refl) as [Hcomp Hvalid].
    unfold uts_tail in Htl. rewrite uts_unfold in Htl.
    destruct (own_step ev _ _ _ _ _ _ Htl I4 P4) as (ts2 & idx2 & rr2 & ns2 & c32 & c42 & compl2 &
      (I32 & P32 & A12 & A22) & (Hp32 & Hr32 & Hk32) & Orig2 & _ & Ens2 & (r42 & Hr42 & Hs42) &
      Hp42 & I42 & P42 & _ & _ & Hnc2 & _ & Htl2).
    assert (Hst2 : r_status rr2 = r_status (stepped rr ns)).
    { destruct Orig2 as [[_ [O|[O|[i0 [r0 [Op [Or0 Oc]]]]]]]|[_ [Op [r0 [Or0 [Os _]]]]]].
      - congruence.
      - congruence.
      - unfold sel2cond, retry_event in Oc. simpl in Oc. rewrite andb_false_r in Oc. discriminate Oc.
      - rewrite Hp4 in Op. inversion Op; subst idx2. rewrite Hr4 in Or0. inversion Or0; subst r0. congruence. }
    assert (Hns2 : ns2 = Some S_RETRYING).
    { unfold retry_event in Ens2. apply tpe_engine in Ens2.
      assert (E : rstatus rr2 = rstatus (stepped rr ns)) by (unfold rstatus; rewrite Hst2; reflexivity).
      rewrite E in Ens2. destruct (F_task_retry_valid _ Hvalid) as [X|X]; [rewrite X in Hcomp; discriminate Hcomp|congruence]. }
    subst ns2. assert (Hn2 : status_in (rstatus (stepped rr2 (Some S_RETRYING))) COMPLETED_STATUSES = false) by reflexivity.
    destruct (Hnc2 Hn2) as [-> _].
    assert (Hnr : forall ctx0 : dict, None <> Some (ctx0, true)) by (intros; discriminate).
    destruct (tail_cmd ev _ _ _ _ _ _ _ _ _ _ Hnr Htl2 I42 P42) as [_ [_ [C1 C2]]].
    destruct (C1 idx2 r42 Hr42) as [r' [E [_ S]]]. destruct (sig_key _ _ Hs42) as [K42 S42].
    exists idx, rr, ns, (c_ws c3), idx2, r'. split; [exact Hk3|]. split; [exact OrigX|]. split; [exact Stg|]. split; [exact Ens|].
    split; [rewrite (C2 t route Hk); exact Hp42|]. split; [exact E|]. right. split; [|exact Hcomp].
    destruct S as [S|S]; [rewrite S, S42; reflexivity|]. exfalso. apply Hk. rewrite <- Hk32. rewrite K42 in S. destruct rr2; exact S.
  - destruct NoRetry as [A [r' [B C]]]; [intros; discriminate|].
    exists idx, rr, ns, (c_ws c3), idx, r'. split; [exact Hk3|]. split; [exact OrigX|]. split; [exact Stg|]. split; [exact Ens|]. auto.
  - destruct NoRetry as [A [r' [B C]]]; [intros; discriminate|].
    exists idx, rr, ns, (c_ws c3), idx, r'. split; [exact Hk3|]. split; [exact OrigX|]. split; [exact Stg|]. split; [exact Ens|]. auto.
Qed.

End OwnFinal.


Section ItemSucceeded.
Variable ev : string -> dict -> evalres.

(* an item report on a task whose record is active: the record is succeeded afterwards only if the report is a success
   and every other item succeeded; and if so, and the record was running (or pausing / canceling), it is succeeded
   afterwards -- or retrying, when the task has a retry policy that asks for it *)
Lemma own_item_succeeded : forall t r i st res acc c c' s0 l idx0 r0,
  update_task_state ev t r (EvItem i st res acc) c = (c', Val tt) -> c_init c = true -> P_ok c ->
  is_engine_command t = false -> status_in st report_statuses = true ->
  get_staged_task (c_ws c) t r = Some s0 -> s_items s0 = Some l -> i < length l ->
  ws_task_idx (c_ws c) t r = Some idx0 -> nth_error (sequence (c_ws c)) idx0 = Some r0 -> busy (r_status r0) ->
  exists idx' r', ws_task_idx (c_ws c') t r = Some idx' /\ nth_error (sequence (c_ws c')) idx' = Some r' /\
    (r_status r' = Some S_SUCCEEDED -> st = S_SUCCEEDED /\ forall x, In x (list_del_nth i l) -> x = S_SUCCEEDED) /\
    (st = S_SUCCEEDED -> (forall x, In x (list_del_nth i l) -> x = S_SUCCEEDED) ->
     status_in (rstatus r0) [S_RUNNING; S_PAUSING; S_CANCELING] = true ->
     r_status r' = Some S_SUCCEEDED \/ r_status r' = Some S_RETRYING).
Proof.
  intros t r i st res acc c c' s0 l idx0 r0 H Ia Pa Hcmd Hst Hs0 Hl Hil Hp0 Hr0 Hb0.
  unfold update_task_state in H. rewrite uts_unfold in H.
  destruct (own_final ev _ _ _ _ _ _ H Ia Pa Hcmd) as (idx & rr & ns & w3 & idx' & r' & Hk & Orig & (ca & cb & cc & Sa & Eu & Ei & Sc) & Ens & Hp' & Hr' & Fin).
  rewrite Hs0 in *.
  assert (Hg3 : get_staged_task w3 t r = Some (record_item i st s0)).
  { unfold uts_unstage in Eu. rewrite Hl in Eu. inversion Eu; subst cb.
    unfold uts_item in Ei. rewrite Hl in Ei. pose proof Hil as Hil'. apply Nat.ltb_lt in Hil'. rewrite Hil' in Ei. unfold modws in Ei. inversion Ei; subst cc.
    unfold get_staged_task. rewrite Sc. simpl. rewrite Sa. unfold get_staged_task in Hs0.
    rewrite (find_staged_update_same _ _ _ _ (record_item_keeps i st)), Hs0. reflexivity. }
  assert (Hit3 : s_items (record_item i st s0) = Some (list_set_nth i st l)) by (unfold record_item; rewrite Hl; destruct s0; reflexivity).
  assert (Hrr : r_status rr = r_status r0).
  { destruct Orig as [[_ [O|[i1 [r1 [Op [Or1 Oc]]]]]]|[Op [r1 [Or1 [Os _]]]]].
    - congruence.
    - rewrite Hp0 in Op. inversion Op; subst i1. rewrite Hr0 in Or1. inversion Or1; subst r1.
      unfold sel2cond in Oc. apply andb_prop in Oc. destruct Oc as [Oc _]. apply andb_prop in Oc. destruct Oc as [Oc _].
      pose proof (live_ncompl _ (busy_live _ Hb0)) as X. unfold ncompl in X. congruence.
    - rewrite Hp0 in Op. inversion Op; subst idx. rewrite Hr0 in Or1. inversion Or1; subst r1. exact Os. }
  assert (Hrs : rstatus rr = rstatus r0) by (unfold rstatus; rewrite Hrr; reflexivity).
  assert (Hreq : status_in st item_requirements = true) by (destruct st; try discriminate Hst; reflexivity).
  unfold task_process_event in Ens. destruct (negb _); [discriminate|].
  assert (Hid : r_id rr = t) by (unfold key_of in Hk; congruence). assert (Hrt : r_route rr = r) by (unfold key_of in Hk; congruence).
  rewrite Hid, Hrt in Ens.
  destruct (item_event_name w3 t r i st) as [n|e] eqn:En; [|discriminate].
  apply task_table_step_val in Ens.
  exists idx', r'. split; [exact Hp'|]. split; [exact Hr'|]. split.
  - intro Hsucc. destruct Fin as [Fin|[Fin _]]; [|rewrite Hsucc in Fin; discriminate Fin].
    assert (Hns : ns = Some S_SUCCEEDED).
    { destruct ns as [x|]; [simpl in Fin; congruence|]. simpl in Fin. rewrite Hsucc, Hrr in Fin.
      pose proof (busy_live _ Hb0) as L. rewrite <- Fin in L. discriminate L. }
    rewrite Hns in Ens.
    destruct (F_item_name_succeeded _ _ _ _ _ _ _ _ _ Hg3 Hit3 Hreq En Ens) as [A B]. rewrite del_set_nth in B. auto.
  - intros -> Hall Hrun.
    assert (Hall' : Forall (fun x => x = S_SUCCEEDED) (list_del_nth i (list_set_nth i S_SUCCEEDED l))).
    { rewrite del_set_nth. apply Forall_forall. exact Hall. }
    rewrite (F_item_name_all_succ _ _ _ _ _ _ Hg3 Hit3) in En; [|rewrite length_set_nth; exact Hil|exact Hall'].
    inversion En; subst n. rewrite Hrs, (F_all_succ_step _ Hrun) in Ens. subst ns.
    destruct Fin as [Fin|[Fin _]]; [left; exact Fin|right; exact Fin].
Qed.

End ItemSucceeded.

(* ================================================================== F. status requests and task records *)

(* the staged entry of the key has a table with an active item *)
Definition TblAct (c : cstate) (k : tkey) : Prop :=
  exists s l, get_staged_task (c_ws c) (fst k) (snd k) = Some s /\ s_items s = Some l /\
              existsb (fun x => status_in x ACTIVE_STATUSES) l = true.

(* ... or has no table at all (a task without items) *)
Definition NoTbl (c : cstate) (k : tkey) : Prop := items_of c (fst k) (snd k) = None.
Definition Tok (c : cstate) (k : tkey) : Prop := TblAct c k \/ NoTbl c k.

Lemma Tok_staged : forall c c' k, staged (c_ws c') = staged (c_ws c) -> Tok c k -> Tok c' k.
Proof.
  intros c c' k H [[s [l [A B]]]|N]; [left; exists s, l; unfold get_staged_task in *; rewrite H; auto|right].
  unfold NoTbl, items_of, get_staged_task in *. rewrite H. exact N.
Qed.

Definition Rrq (c c' : cstate) : Prop :=
  staged (c_ws c') = staged (c_ws c) /\ tasks (c_ws c') = tasks (c_ws c) /\ c_init c' = c_init c /\
  forall i r, nth_error (sequence (c_ws c)) i = Some r ->
    exists r', nth_error (sequence (c_ws c')) i = Some r' /\ key_of r' = key_of r /\
               (Tok c (key_of r) -> busy (r_status r) -> busy (r_status r')).

Lemma TblAct_staged : forall c c' k, staged (c_ws c') = staged (c_ws c) -> TblAct c k -> TblAct c' k.
Proof. intros c c' k H [s [l [A B]]]. exists s, l. unfold get_staged_task in *. rewrite H. auto. Qed.

Lemma Rrq_refl : forall c, Rrq c c.
Proof. intro c. repeat split; auto. intros i r E. exists r. auto. Qed.
Lemma Rrq_trans : forall a b c, Rrq a b -> Rrq b c -> Rrq a c.
Proof.
  intros a b c [A1 [A2 [A3 A4]]] [B1 [B2 [B3 B4]]]. split; [congruence|]. split; [congruence|]. split; [congruence|].
  intros i r E. destruct (A4 i r E) as [r1 [E1 [K1 L1]]]. destruct (B4 i r1 E1) as [r2 [E2 [K2 L2]]].
  exists r2. split; [exact E2|]. split; [congruence|]. intros T L. apply L2; [|apply L1; assumption].
  rewrite K1. eapply Tok_staged; [exact A1|exact T].
Qed.

Lemma Rrq_same : forall c c', staged (c_ws c') = staged (c_ws c) -> tasks (c_ws c') = tasks (c_ws c) ->
  c_init c' = c_init c -> map sig (sequence (c_ws c')) = map sig (sequence (c_ws c)) -> Rrq c c'.
Proof.
  intros c c' A B C D. split; [exact A|]. split; [exact B|]. split; [exact C|]. intros i r E.
  destruct (nth_map_sig _ _ _ _ D E) as [r' [E' S]]. destruct (sig_key _ _ S) as [K1 S1]. exists r'. split; [exact E'|].
  split; [exact K1|]. intros _ L. rewrite S1. exact L.
Qed.

Lemma Rrq_set_status : forall c i r s, nth_error (sequence (c_ws c)) i = Some r ->
  (Tok c (key_of r) -> busy (r_status r) -> busy s) ->
  Rrq c (set_ws c (ws_update_rec (c_ws c) i (fun r0 => r_set_status r0 s))).
Proof.
  intros c i r s Hr Hl. unfold ws_update_rec. rewrite Hr. split; [reflexivity|]. split; [reflexivity|]. split; [reflexivity|].
  intros j rj E. simpl. destruct (Nat.eq_dec j i) as [->|Hne].
  - rewrite Hr in E. inversion E; subst rj. exists (r_set_status r s). split; [eapply nth_error_set_nth_same; exact Hr|].
    split; [reflexivity|exact Hl].
  - exists rj. split; [rewrite nth_error_set_nth_other by congruence; exact E|auto].
Qed.

Lemma active_busy : forall o, ostatus_in o ACTIVE_STATUSES = true -> busy o.
Proof. intros [x|] H; [|discriminate]. unfold busy. simpl in *. destruct x; try discriminate H; reflexivity. Qed.

Section Requests.
Variable ev : string -> dict -> evalres.

Lemma rq_step1 : forall st i, preserves Rrq
  (w <- getws ;;
   match nth_error (sequence w) i with
   | None => ret tt
   | Some r => ns <- lift_res (task_process_event w r (EvWorkflow st)) ;;
               match ns with Some s => set_rec_status i (Some s) | None => ret tt end
   end).
Proof.
  intros st i c c' x H. unfold bind at 1 in H. unfold getws at 1 in H.
  destruct (nth_error (sequence (c_ws c)) i) as [r|] eqn:Hr; [|inversion H; apply Rrq_refl].
  unfold bind in H. destruct (task_process_event (c_ws c) r (EvWorkflow st)) as [[s|]|e] eqn:Ens; simpl in H;
    try (inversion H; apply Rrq_refl).
  unfold set_rec_status, modws in H. inversion H; subst c'. apply (Rrq_set_status c i r (Some s) Hr).
  intros Htok Hlive. unfold task_process_event in Ens. destruct (negb _); [discriminate|].
  apply task_table_step_val in Ens. unfold busy. simpl.
  destruct Htok as [[e0 [l [Hg [Hl Hact]]]]|Hno].
  - unfold key_of in Hg. simpl in Hg.
    destruct (status_in st (app PAUSE_STATUSES CANCEL_STATUSES)) eqn:Epc.
    + exact (F_active_busy _ _ _ Ens (F_wf_name_active _ _ _ _ _ _ Hg Hl Epc Hact) (busy_rstatus _ Hlive)).
    + rewrite (F_wf_name_plain _ _ _ _ Epc) in Ens. apply (F_wf_plain_busy _ _ _ Epc Ens). apply busy_rstatus. exact Hlive.
  - assert (Hname : task_workflow_event_name (c_ws c) (r_id r) (r_route r) st = WORKFLOW_EVENT_PREFIX ++ status_name st).
    { unfold NoTbl, items_of, key_of in Hno. simpl in Hno. unfold task_workflow_event_name.
      destruct (status_in st (app PAUSE_STATUSES CANCEL_STATUSES)); [|reflexivity].
      destruct (get_staged_task (c_ws c) (r_id r) (r_route r)) as [s0|]; [|reflexivity]. rewrite Hno. reflexivity. }
    rewrite Hname in Ens. pose proof (F_wf_base_only_from_retrying _ _ _ Ens) as X.
    pose proof (busy_rstatus _ Hlive) as Y. rewrite X in Y. discriminate Y.
Qed.

Lemma rq_restore : forall (l : list (nat * trec)), (forall i r, In (i, r) l -> ostatus_in (r_status r) ACTIVE_STATUSES = true) ->
  preserves Rrq (forM_ l (fun '(i, r) => set_rec_status i (r_status r))).
Proof.
  induction l as [|[i r] l IH]; intros Hl; simpl; [apply (preserves_ret _ Rrq_refl)|].
  apply (preserves_bind _ Rrq_trans).
  - intros c c' x H. unfold set_rec_status, modws in H. inversion H; subst c'. unfold ws_update_rec.
    destruct (nth_error (sequence (c_ws c)) i) as [r0|] eqn:E.
    + pose proof (Rrq_set_status c i r0 (r_status r) E) as X. unfold ws_update_rec in X. rewrite E in X. apply X.
      intros _ _. apply active_busy. apply (Hl i r). left; reflexivity.
    + replace (set_ws c (c_ws c)) with c by (destruct c; reflexivity). apply Rrq_refl.
  - intros _. apply IH. intros i' r' Hin. apply (Hl i' r'). right; exact Hin.
Qed.

Lemma rq_of_ctl_fr : forall A (m : M A), preserves Rctl m -> preserves Rfr m -> preserves Rrq m.
Proof.
  intros A m H1 H2 c c' x E. destruct (H1 _ _ _ E) as [_ [_ [S [T _]]]]. destruct (H2 _ _ _ E) as [_ [Sg [_ [_ [_ I]]]]].
  apply Rrq_same; assumption.
Qed.

Lemma rq_request_status_core : forall st, preserves Rrq (request_status_core st).
Proof.
  intros st. unfold request_status_core.
  apply (preserves_bind _ Rrq_trans); [apply (preserves_getws _ Rrq_refl)|intro w0]. cbv zeta.
  apply (preserves_bind _ Rrq_trans).
  { apply (preserves_forM _ Rrq_refl Rrq_trans). intros [i r0]. apply rq_step1. }
  intros _. apply (preserves_bind _ Rrq_trans).
  { intros c c' x H. unfold wf_workflow_event_M in H.
    destruct (wf_process_workflow_event (c_graph c) (c_ws c) st) as [[new unr]|e]; inversion H; subst; [|apply Rrq_refl].
    apply Rrq_same; reflexivity. }
  intro unr. apply (preserves_bind _ Rrq_trans); [apply rq_of_ctl_fr; [apply pctl_log_unreachable|apply fr_log_unreachable]|intros _].
  apply (preserves_bind _ Rrq_trans); [apply (preserves_getws _ Rrq_refl)|intro w1]. cbv zeta.
  destruct (_ && _ && _); [apply (preserves_ret _ Rrq_refl)|].
  destruct (_ && _ && _); [apply (preserves_ret _ Rrq_refl)|].
  destruct (_ && _); [|apply (preserves_ret _ Rrq_refl)].
  apply (preserves_bind _ Rrq_trans); [|intros _; apply (preserves_raise _ Rrq_refl)].
  apply rq_restore. intros i r Hin. unfold ws_tasks_by_status in Hin. apply filter_In in Hin. destruct Hin as [_ Hb].
  apply andb_prop in Hb. apply Hb.
Qed.

Theorem request_records : forall st c c' x, c_init c = true -> request_workflow_status ev st c = (c', x) -> Rrq c c'.
Proof.
  intros st c c' x Hi H. unfold request_workflow_status, bind in H.
  rewrite (ensure_ws_inited ev c Hi) in H. eapply rq_request_status_core; exact H.
Qed.

End Requests.


(* ================================================================== F'. no record is ever "pending" *)

Definition NP (c : cstate) : Prop :=
  forall i rec, nth_error (sequence (c_ws c)) i = Some rec -> r_status rec <> Some S_PENDING.
Definition Rnp (c c' : cstate) : Prop := NP c -> NP c'.
Lemma Rnp_refl : forall c, Rnp c c. Proof. intros c H; exact H. Qed.
Lemma Rnp_trans : forall a b c, Rnp a b -> Rnp b c -> Rnp a c. Proof. unfold Rnp; auto. Qed.

Lemma Rnp_sig : forall c c', map sig (sequence (c_ws c')) = map sig (sequence (c_ws c)) -> Rnp c c'.
Proof.
  intros c c' H N i rec E. destruct (nth_map_sig _ _ _ _ (eq_sym H) E) as [r0 [E0 S]]. destruct (sig_key _ _ S) as [_ S1].
  rewrite <- S1. exact (N i r0 E0).
Qed.
Lemma Rnp_seq : forall c c', sequence (c_ws c') = sequence (c_ws c) -> Rnp c c'.
Proof. intros c c' H. apply Rnp_sig. rewrite H. reflexivity. Qed.
Lemma Rnp_set_status : forall c i s, s <> Some S_PENDING -> Rnp c (set_ws c (ws_update_rec (c_ws c) i (fun r0 => r_set_status r0 s))).
Proof.
  intros c i s Hs N j rec E. unfold ws_update_rec in E. destruct (nth_error (sequence (c_ws c)) i) as [r|] eqn:Hr; [|exact (N j rec E)].
  simpl in E. destruct (Nat.eq_dec j i) as [->|Hne].
  - rewrite (nth_error_set_nth_same _ _ _ _ _ Hr) in E. inversion E; subst rec. exact Hs.
  - rewrite nth_error_set_nth_other in E by congruence. exact (N j rec E).
Qed.

Section NoPending.
Variable ev : string -> dict -> evalres.

Lemma np_fr : forall A (m : M A), vpres Rfr m -> vpres Rnp m.
Proof. intros A m H c c' a E. destruct (H _ _ _ E) as [_ [S _]]. apply Rnp_sig. exact S. Qed.

Lemma np_add_task_state : forall t rt ins prev, vpres Rnp (add_task_state ev t rt ins prev).
Proof.
  intros t rt ins prev c c' idx H. destruct (add_task_state_eff ev _ _ _ _ _ _ _ H) as [cm [retry [L [_ [-> _]]]]].
  intros N i rec E. simpl in E. destruct L as [Ls _].
  destruct (Nat.lt_ge_cases i (length (sequence (c_ws cm)))) as [Hlt|Hge].
  - rewrite nth_error_app1 in E by exact Hlt. rewrite Ls in E. exact (N i rec E).
  - rewrite nth_error_app2 in E by exact Hge. destruct (i - length (sequence (c_ws cm))) as [|k]; simpl in E; [inversion E; discriminate|destruct k; discriminate].
Qed.

Lemma np_sel1 : forall t s0 e0, vpres Rnp (uts_sel1 ev t s0 e0).
Proof.
  intros t s0 e0. unfold uts_sel1, uts_need_staged.
  destruct e0; [destruct (is_engine_command t); [|apply (vp_ret _ Rnp_refl)]|];
    (apply (vp_bind _ Rnp_trans); [destruct s0; [apply (vp_ret _ Rnp_refl)|apply vp_raise]|intro; apply np_add_task_state]).
Qed.
Lemma np_sel2 : forall t evt s0 r1 i, vpres Rnp (uts_sel2 ev t evt s0 r1 i).
Proof.
  intros t evt s0 r1 i. unfold uts_sel2, uts_need_staged. destruct (_ && _ && _); [|apply (vp_ret _ Rnp_refl)].
  apply (vp_bind _ Rnp_trans); [destruct s0; [apply (vp_ret _ Rnp_refl)|apply vp_raise]|intro; apply np_add_task_state].
Qed.
Lemma np_setst : forall idx ns, ns <> Some S_PENDING -> vpres Rnp (uts_setst idx ns).
Proof.
  intros idx ns Hn c c' a H. unfold uts_setst in H. destruct ns as [s|]; [|inversion H; apply Rnp_refl].
  unfold set_rec_status, modws in H. inversion H; subst c'. apply Rnp_set_status. exact Hn.
Qed.
Lemma np_wf_task_event : forall t route st, vpres Rnp (wf_task_event_M t route st).
Proof.
  intros t route st c c' a H. unfold wf_task_event_M in H.
  destruct (wf_process_task_event (c_graph c) (c_ws c) t route st) as [[new unr]|e]; inversion H; subst. apply Rnp_seq. reflexivity.
Qed.

Lemma np_ensure_ws : vpres Rnp (ensure_ws ev).
Proof.
  intros c c' a H. destruct (c_init c) eqn:Hi; [rewrite (ensure_ws_inited ev c Hi) in H; inversion H; apply Rnp_refl|].
  unfold ensure_ws in H. unfold bind at 1 in H. unfold get at 1 in H. rewrite Hi in H.
  apply bind_val_inv' in H. destruct H as [c2 [u2 [E2 H]]]. unfold modify in E2. inversion E2; subst c2; clear E2.
  apply bind_val_inv' in H. destruct H as [c3 [[rin ierrs] [E3 H]]].
  pose proof (lt_render_input ev _ _ _ _ _ _ _ E3) as L3.
  apply bind_val_inv' in H. destruct H as [c4 [[rv verrs] [E4 H]]].
  pose proof (lt_render_vars ev _ _ _ _ _ _ _ E4) as L4.
  apply bind_val_inv' in H. destruct H as [c5 [u5 [E5 H]]].
  assert (L5 : Rlt c4 c5).
  { destruct (app ierrs verrs) as [|e0 es]; [inversion E5; subst; apply Rlt_refl|].
    apply bind_val_inv' in E5. destruct E5 as [c6 [u6 [E6 E5]]].
    eapply Rlt_trans; [eapply vlt_log_errors; exact E6|eapply vlt_request_failed; exact E5]. }
  pose proof (Rlt_trans _ _ _ (Rlt_trans _ _ _ L3 L4) L5) as [A1 _]. simpl in A1.
  apply bind_val_inv' in H. destruct H as [c6 [w6 [E6 H]]]. inversion E6; subst c6 w6; clear E6.
  destruct (status_in (wstatus (c_ws c5)) ABENDED_STATUSES).
  - inversion H; subst c'. apply Rnp_seq. exact A1.
  - apply bind_val_inv' in H. destruct H as [c7 [u7 [E7 H]]]. unfold modws in E7. inversion E7; subst c7; clear E7.
    assert (G : forall l cx cy u, forM_ l (fun t => modws (fun w => ws_add_staged w (mk_staged t 0 [0] [] true None))) cx = (cy, Val u) ->
                sequence (c_ws cy) = sequence (c_ws cx)).
    { induction l as [|t l IH]; intros cx cy u X; simpl in X; [inversion X; reflexivity|].
      apply bind_val_inv' in X. destruct X as [cz [uz [Ez X]]]. unfold modws in Ez. inversion Ez; subst cz. rewrite (IH _ _ _ X). reflexivity. }
    apply Rnp_seq. rewrite (G _ _ _ _ H). simpl. exact A1.
Qed.

Section WithRec.
Variable rec : string -> nat -> event -> M unit.
Hypothesis Hrec : forall t r e, npend e -> vpres Rnp (rec t r e).

Lemma np_tail : forall t route ts idx o n compl, vpres Rnp (uts_tail ev rec t route ts idx o n compl).
Proof.
  intros t route ts idx o n compl. unfold uts_tail.
  assert (G : vpres Rnp
            (queue <- uts_queue ev t route idx ts o n compl ;;
             r <- get_rec idx ;;
             st <- match r_status r with Some s => ret s | None => raise (exn_key "status") end ;;
             unreachable <- wf_task_event_M t route st ;;
             log_unreachable unreachable ;;;
             forM_ queue (uts_call rec) ;;;
             (w <- getws ;; (if status_in (wstatus w) COMPLETED_STATUSES then upd_rec idx (fun r0 => r_set_term r0 true) else ret tt)))).
  { apply (vp_bind _ Rnp_trans); [apply np_fr; apply vfr_queue|intro queue].
    apply (vp_bind _ Rnp_trans); [apply np_fr; apply vfr_get_rec|intro r].
    apply (vp_bind _ Rnp_trans); [destruct (r_status r); [apply (vp_ret _ Rnp_refl)|apply vp_raise]|intro st].
    apply (vp_bind _ Rnp_trans); [apply np_wf_task_event|intro unr].
    apply (vp_bind _ Rnp_trans); [apply np_fr; apply vfr_log_unreachable|intros _].
    apply (vp_bind _ Rnp_trans).
    - apply (vp_forM _ Rnp_refl Rnp_trans). intros [nn rt]. unfold uts_call.
      destruct (engine_event nn) as [e|] eqn:E; [|apply vp_raise]. apply Hrec. eapply F_engine_event_npend; exact E.
    - intros _. apply (vp_bind _ Rnp_trans); [apply (vp_getws _ Rnp_refl)|intro w].
      destruct (status_in (wstatus w) COMPLETED_STATUSES); [apply np_fr; apply vfr_upd_rec; intro; reflexivity|apply (vp_ret _ Rnp_refl)]. }
  destruct compl as [[ctx [|]]|]; [|exact G|exact G].
  apply Hrec. unfold retry_event. simpl. discriminate.
Qed.

Lemma np_machine : forall t route evt ts idx, npend evt -> vpres Rnp (uts_machine ev rec t route evt ts idx).
Proof.
  intros t route evt ts idx Hn c c' a H. unfold uts_machine in H.
  apply bind_val_inv' in H. destruct H as [c0 [r [E0 H]]]. apply get_rec_inv in E0. destruct E0 as [-> Hr].
  apply bind_val_inv' in H. destruct H as [c0 [w [E0 H]]]. inversion E0; subst c0 w; clear E0.
  apply bind_val_inv' in H. destruct H as [c0 [ns [E0 H]]].
  assert (Ens : task_process_event (c_ws c) r evt = Val ns /\ c0 = c)
    by (destruct (task_process_event (c_ws c) r evt); inversion E0; auto). destruct Ens as [Ens ->].
  apply bind_val_inv' in H. destruct H as [c1 [[] [E1 H]]].
  pose proof (np_setst idx ns (F_tpe_npend _ _ _ _ Hn Ens) _ _ _ E1) as S1.
  apply bind_val_inv' in H. destruct H as [c2 [r' [E2 H]]]. apply get_rec_inv in E2. destruct E2 as [-> Hr'].
  apply bind_val_inv' in H. destruct H as [c3 [[] [E3 H]]].
  pose proof (np_fr _ _ (vfr_retrying t route idx r' (rstatus r')) _ _ _ E3) as S3.
  apply bind_val_inv' in H. destruct H as [c4 [compl [E4 H]]].
  pose proof (np_fr _ _ (vfr_completion ev t route evt ts idx (rstatus r') (rstatus r)) _ _ _ E4) as S4.
  pose proof (np_tail _ _ _ _ _ _ _ _ _ _ H) as S5.
  exact (Rnp_trans _ _ _ (Rnp_trans _ _ _ (Rnp_trans _ _ _ S1 S3) S4) S5).
Qed.

Lemma np_body : forall t route evt, npend evt -> vpres Rnp (uts_body ev rec t route evt).
Proof.
  intros t route evt Hn. unfold uts_body.
  apply (vp_bind _ Rnp_trans); [apply np_ensure_ws|intros _].
  apply (vp_bind _ Rnp_trans); [apply (vp_get _ Rnp_refl)|intro c0].
  destruct (negb (g_has_task (c_graph c0) t)); [apply vp_raise|]. cbv zeta.
  apply (vp_bind _ Rnp_trans); [destruct (spec_get_task (c_spec c0) t); [apply (vp_ret _ Rnp_refl)|apply vp_raise]|intro ts].
  assert (Main : forall s0 e0, vpres Rnp (uts_main ev rec t route evt ts s0 e0)).
  { intros s0 e0. unfold uts_main.
    apply (vp_bind _ Rnp_trans); [apply np_sel1|intro idx1].
    apply (vp_bind _ Rnp_trans); [apply np_fr; apply vfr_get_rec|intro r1].
    apply (vp_bind _ Rnp_trans); [apply np_sel2|intro idx].
    apply (vp_bind _ Rnp_trans); [apply np_fr; apply vfr_unstage|intros _].
    apply (vp_bind _ Rnp_trans); [apply np_fr; apply vfr_item|intros _].
    apply (vp_bind _ Rnp_trans); [apply np_fr; apply vfr_logfail|intros _].
    apply np_machine. exact Hn. }
  destruct (get_staged_task (c_ws c0) t route), (ws_task_idx (c_ws c0) t route); try apply Main. apply vp_raise.
Qed.

End WithRec.

Lemma np_fuel : forall fuel t route evt, npend evt -> vpres Rnp (update_task_state_fuel ev fuel t route evt).
Proof.
  induction fuel as [|fuel IH]; intros t route evt Hn; [apply vp_raise|]. rewrite uts_unfold.
  apply np_body; [|exact Hn]. intros t' r' e He. apply IH. exact He.
Qed.

Lemma np_request_status_core : forall st, preserves Rnp (request_status_core st).
Proof.
  intros st. unfold request_status_core.
  apply (preserves_bind _ Rnp_trans); [apply (preserves_getws _ Rnp_refl)|intro w0]. cbv zeta.
  apply (preserves_bind _ Rnp_trans).
  { apply (preserves_forM _ Rnp_refl Rnp_trans). intros [i r0] c c' x H. unfold bind at 1 in H. unfold getws at 1 in H.
    destruct (nth_error (sequence (c_ws c)) i) as [r|] eqn:Hr; [|inversion H; apply Rnp_refl].
    unfold bind in H. destruct (task_process_event (c_ws c) r (EvWorkflow st)) as [[s|]|e] eqn:Ens; simpl in H;
      try (inversion H; apply Rnp_refl).
    unfold set_rec_status, modws in H. inversion H; subst c'. apply Rnp_set_status.
    exact (F_tpe_npend (c_ws c) r (EvWorkflow st) (Some s) Logic.I Ens). }
  intros _. apply (preserves_bind _ Rnp_trans).
  { intros c c' x H. unfold wf_workflow_event_M in H.
    destruct (wf_process_workflow_event (c_graph c) (c_ws c) st) as [[new unr]|e]; inversion H; subst; [|apply Rnp_refl].
    apply Rnp_seq; reflexivity. }
  intro unr. apply (preserves_bind _ Rnp_trans).
  { intros c c' x H. destruct (fr_log_unreachable _ _ _ _ H) as [_ [S _]]. apply Rnp_sig. exact S. }
  intros _. apply (preserves_bind _ Rnp_trans); [apply (preserves_getws _ Rnp_refl)|intro w1]. cbv zeta.
  destruct (_ && _ && _); [apply (preserves_ret _ Rnp_refl)|].
  destruct (_ && _ && _); [apply (preserves_ret _ Rnp_refl)|].
  destruct (_ && _); [|apply (preserves_ret _ Rnp_refl)].
  apply (preserves_bind _ Rnp_trans); [|intros _; apply (preserves_raise _ Rnp_refl)].
  assert (G : forall l : list (nat * trec), (forall i r, In (i, r) l -> ostatus_in (r_status r) ACTIVE_STATUSES = true) ->
              preserves Rnp (forM_ l (fun '(i, r) => set_rec_status i (r_status r)))).
  { induction l as [|[i r] l IH]; intros Hl; simpl; [apply (preserves_ret _ Rnp_refl)|].
    apply (preserves_bind _ Rnp_trans).
    - intros c c' x H. unfold set_rec_status, modws in H. inversion H; subst c'. apply Rnp_set_status.
      intro X. specialize (Hl i r (or_introl eq_refl)). rewrite X in Hl. discriminate Hl.
    - intros _. apply IH. intros i' r' Hin. apply (Hl i' r'). right; exact Hin. }
  apply G. intros i r Hin. unfold ws_tasks_by_status in Hin. apply filter_In in Hin. destruct Hin as [_ Hb].
  apply andb_prop in Hb. apply Hb.
Qed.

End NoPending.

(* ================================================================== G. the record invariant of the protocol *)

(* every task with an item in flight is not an engine command and its record is neither completed nor waiting for a retry *)
Definition Krec (c : cstate) (F : list ikey) : Prop :=
  forall t r i, In (t, r, Some i) F -> is_engine_command t = false /\
    exists idx rec, ws_task_idx (c_ws c) t r = Some idx /\ nth_error (sequence (c_ws c)) idx = Some rec /\ busy (r_status rec).
(* the single action of a task and an item of it are never in flight together *)
Definition Mx (F : list ikey) : Prop := forall t r, In (t, r, None) F -> forall i, ~ In (t, r, Some i) F.
Definition irec (s : isys) : Prop :=
  c_init (si_c s) = true /\ P_ok (si_c s) /\ Krec (si_c s) (si_inflight s) /\ Mx (si_inflight s).

Lemma tkey_dec : forall a b : tkey, a = b \/ a <> b.
Proof.
  intros [a1 a2] [b1 b2]. destruct (String.string_dec a1 b1) as [->|H]; [|right; congruence].
  destruct (Nat.eq_dec a2 b2) as [->|H]; [left; reflexivity|right; congruence].
Qed.

Section RecSystem.
Variable ev : string -> dict -> evalres.

Lemma ievent_val : forall s t r e, ibad (isys_event ev s t r e) = false ->
  update_task_state ev t r e (si_c s) = (si_c (isys_event ev s t r e), Val tt).
Proof.
  intros s t r e Hb. unfold isys_event in *. destruct (api_exec ev (OpEvent t r e) (si_c s)) as [c' x] eqn:E.
  unfold ibad in Hb. simpl in Hb. simpl. apply orb_false_elim in Hb. destruct Hb as [Hb1 _]. apply orb_false_elim in Hb1. destruct Hb1 as [_ Hx].
  cbn [api_exec] in E. destruct (then_ret_unit _ _ _ _ E) as [[_ X]|X]; [exact X|congruence].
Qed.

(* an event for the key (t0, r0): the records of the other tasks with items in flight are as before *)
Lemma ievent_rec_other : forall s t0 r0 e F, ibad (isys_event ev s t0 r0 e) = false ->
  c_init (si_c s) = true -> P_ok (si_c s) -> Krec (si_c s) F ->
  c_init (si_c (isys_event ev s t0 r0 e)) = true /\ P_ok (si_c (isys_event ev s t0 r0 e)) /\
  (forall t r i, In (t, r, Some i) F -> (t, r) <> (t0, r0) -> is_engine_command t = false /\
     exists idx rec, ws_task_idx (c_ws (si_c (isys_event ev s t0 r0 e))) t r = Some idx /\
                     nth_error (sequence (c_ws (si_c (isys_event ev s t0 r0 e)))) idx = Some rec /\ busy (r_status rec)).
Proof.
  intros s t0 r0 e F Hb Ia Pa Hk. pose proof (ievent_val _ _ _ _ Hb) as H.
  destruct (prot_ok ev _ _ _ _ _ H Ia Pa) as [Ib Pb]. split; [exact Ib|]. split; [exact Pb|].
  intros t r i Hin Hne. destruct (Hk t r i Hin) as [Hc [idx [rec [Hp [Hr Hl]]]]]. split; [exact Hc|].
  destruct (prot_other ev _ _ _ _ _ _ _ _ _ H Ia Pa Hne Hc Hp Hr) as [Hp' [rec' [Hr' Hs']]].
  exists idx, rec'. split; [exact Hp'|]. split; [exact Hr'|]. rewrite Hs'. exact Hl.
Qed.

(* an event that is not an item event, for a task without item in flight *)
Lemma plain_event_rec : forall s t0 r0 e F, ibad (isys_event ev s t0 r0 e) = false ->
  c_init (si_c s) = true -> P_ok (si_c s) -> Krec (si_c s) F -> (forall i, ~ In (t0, r0, Some i) F) ->
  c_init (si_c (isys_event ev s t0 r0 e)) = true /\ P_ok (si_c (isys_event ev s t0 r0 e)) /\ Krec (si_c (isys_event ev s t0 r0 e)) F.
Proof.
  intros s t0 r0 e F Hb Ia Pa Hk Hno. destruct (ievent_rec_other s t0 r0 e F Hb Ia Pa Hk) as [Ib [Pb Ho]].
  split; [exact Ib|]. split; [exact Pb|]. intros t r i Hin. apply (Ho t r i Hin). intro X. inversion X; subst. exact (Hno i Hin).
Qed.

Lemma stale_false : forall c t r s0, get_staged_task (c_ws c) t r = Some s0 -> stale c t r = false ->
  forall idx0 r0, ws_task_idx (c_ws c) t r = Some idx0 -> nth_error (sequence (c_ws c)) idx0 = Some r0 ->
                  ostatus_in (r_status r0) COMPLETED_STATUSES = true -> s_completed s0 = false.
Proof.
  intros c t r s0 Hs Hst idx0 r0 Hp Hr Hc. unfold stale, ws_task_entry in Hst. rewrite Hp, Hr, Hs, Hc in Hst. exact Hst.
Qed.

(* the acknowledgement of an item *)
Lemma ack_item_rec : forall t r s a i l,
  ilink (si_c s) (si_inflight s) -> irec s -> items_of (si_c s) t r = Some l -> a_item a = Some i -> i < length l ->
  is_engine_command t = false -> ~ In (t, r, None) (si_inflight s) -> stale (si_c s) t r = false ->
  ibad (isys_ack ev t r s a) = false -> irec (isys_ack ev t r s a).
Proof.
  intros t r s a i l I [Ia [Pa [Hk Hm]]] Hl Hai Hil Hcmd Hnone Hst Hb. unfold isys_ack in *. rewrite Hai in *.
  set (s1 := with_inflight s (ikey_add (t, r, Some i) (si_inflight s))) in *.
  set (e := EvItem i S_RUNNING JNull JNull) in *.
  pose proof (ievent_val s1 t r e Hb) as H. change (si_c s1) with (si_c s) in H.
  destruct (items_of_entry _ _ _ _ Hl) as [s0 [_ [_ [_ [Hit Hg]]]]].
  destruct (own_ack ev _ _ _ _ _ _ _ _ _ H Ia Pa Hcmd Hg Hit Hil (stale_false _ _ _ _ Hg Hst)) as [idx [rc' [Hp' [Hr' [Hl' _]]]]].
  destruct (ievent_rec_other s1 t r e (si_inflight s) Hb Ia Pa Hk) as [Ib [Pb Ho]].
  split; [exact Ib|]. split; [exact Pb|]. rewrite inflight_event. unfold s1; simpl. split.
  - intros t' r' i' Hin. apply In_ikey_add in Hin.
    destruct (tkey_dec (t', r') (t, r)) as [E|Hne].
    + inversion E; subst t' r'. split; [exact Hcmd|]. exists idx, rc'. auto.
    + destruct Hin as [Hin|Hin]; [inversion Hin; subst; exfalso; apply Hne; reflexivity|]. exact (Ho t' r' i' Hin Hne).
  - intros t' r' Hin i' Hin'. apply In_ikey_add in Hin. destruct Hin as [Hin|Hin]; [discriminate Hin|].
    apply In_ikey_add in Hin'. destruct Hin' as [Hin'|Hin']; [inversion Hin'; subst; exact (Hnone Hin)|]. exact (Hm t' r' Hin i' Hin').
Qed.

Lemma acks_stale_cons : forall t r a acts s, acks_stale ev t r (a :: acts) s = false ->
  (match a_item a with Some _ => stale (si_c s) t r | None => false end) = false /\
  acks_stale ev t r acts (isys_ack ev t r s a) = false.
Proof. intros t r a acts s H. simpl in H. apply orb_false_iff in H. exact H. Qed.

(* the acknowledgements of the items of one offer *)
Lemma ack_items_loop_rec : forall t r acts s l,
  ilink (si_c s) (si_inflight s) -> irec s -> items_of (si_c s) t r = Some l ->
  (forall a, In a acts -> exists i, a_item a = Some i /\ i < length l) ->
  is_engine_command t = false -> ~ In (t, r, None) (si_inflight s) -> acks_stale ev t r acts s = false ->
  ibad (fold_left (isys_ack ev t r) acts s) = false -> irec (fold_left (isys_ack ev t r) acts s).
Proof.
  intros t r. induction acts as [|a acts IH]; intros s l I R Hl Hacts Hcmd Hnone Hst Hb; cbn [fold_left] in *; [exact R|].
  assert (Hb1 : ibad (isys_ack ev t r s a) = false).
  { apply (not_bad_before (fun x => fold_left (isys_ack ev t r) acts x)); [apply ibad_fold_ack_mono|exact Hb]. }
  destruct (Hacts a (or_introl eq_refl)) as [i [Hai Hil]].
  destruct (acks_stale_cons _ _ _ _ _ Hst) as [Hst1 Hst2]. rewrite Hai in Hst1.
  destruct (ack_item_step ev t r s a i l I Hl Hai Hil Hb1) as [I1 [Hl1 _]].
  pose proof (ack_item_rec t r s a i l I R Hl Hai Hil Hcmd Hnone Hst1 Hb1) as R1'.
  apply (IH _ (list_set_nth i S_RUNNING l)); try assumption.
  - intros a' Ha'. destruct (Hacts a' (or_intror Ha')) as [i' [A B]]. exists i'. rewrite length_set_nth. auto.
  - unfold isys_ack. rewrite Hai, inflight_event. simpl. intro X. apply In_ikey_add in X. destruct X as [X|X]; [discriminate X|exact (Hnone X)].
Qed.

(* the acknowledgement of the single action of a task without item in flight *)
Lemma ack_plain_loop_rec : forall t r acts s,
  ilink (si_c s) (si_inflight s) -> irec s -> (forall a, In a acts -> a_item a = None) ->
  (forall i, ~ In (t, r, Some i) (si_inflight s)) ->
  ibad (fold_left (isys_ack ev t r) acts s) = false -> irec (fold_left (isys_ack ev t r) acts s).
Proof.
  intros t r. induction acts as [|a acts IH]; intros s I R Hacts Hno Hb; cbn [fold_left] in *; [exact R|].
  assert (Hb1 : ibad (isys_ack ev t r s a) = false).
  { apply (not_bad_before (fun x => fold_left (isys_ack ev t r) acts x)); [apply ibad_fold_ack_mono|exact Hb]. }
  destruct (ack_plain_loop ev t r [a] s I) as [I1 _]; [intros a' [<-|[]]; apply Hacts; left; reflexivity|exact Hb1|].
  simpl in I1. destruct R as [Ia [Pa [Hk Hm]]].
  assert (R1' : irec (isys_ack ev t r s a)).
  { unfold isys_ack in *. rewrite (Hacts a (or_introl eq_refl)) in *.
    set (s1 := with_inflight s (ikey_add (t, r, None) (si_inflight s))) in *.
    destruct (plain_event_rec s1 t r (EvAction S_RUNNING JNull) (si_inflight s) Hb1 Ia Pa Hk Hno) as [Ib [Pb Kb]].
    split; [exact Ib|]. split; [exact Pb|]. rewrite inflight_event. unfold s1; simpl. split.
    - intros t' r' i' Hin. apply In_ikey_add in Hin. destruct Hin as [Hin|Hin]; [discriminate Hin|]. exact (Kb t' r' i' Hin).
    - intros t' r' Hin i' Hin'. apply In_ikey_add in Hin'. destruct Hin' as [Hin'|Hin']; [discriminate Hin'|].
      apply In_ikey_add in Hin. destruct Hin as [Hin|Hin]; [inversion Hin; subst; exact (Hno i' Hin')|exact (Hm t' r' Hin i' Hin')]. }
  apply IH; [exact I1|exact R1'|intros; apply Hacts; right; assumption| |exact Hb].
  intros i X. unfold isys_ack in X. rewrite (Hacts a (or_introl eq_refl)), inflight_event in X. simpl in X.
  apply In_ikey_add in X. destruct X as [X|X]; [discriminate X|exact (Hno i X)].
Qed.

(* what the in-flight set has to satisfy when an offer is acknowledged *)
Definition okF (F : list ikey) (o : offer) : Prop :=
  is_engine_command (o_id o) = false /\
  match o_items_count o with
  | Some (S _) => ~ In (o_id o, o_route o, None) F
  | _ => forall i, ~ In (o_id o, o_route o, Some i) F
  end.

Lemma inflight_ack_key : forall t r acts s k, In k (si_inflight (fold_left (isys_ack ev t r) acts s)) ->
  In k (si_inflight s) \/ fst k = (t, r).
Proof.
  intros t r. induction acts as [|a acts IH]; intros s k H; cbn [fold_left] in H; [left; exact H|].
  destruct (IH _ _ H) as [X|X]; [|right; exact X]. unfold isys_ack in X.
  destruct (a_item a); rewrite inflight_event in X; simpl in X; apply In_ikey_add in X; destruct X as [X|X]; auto; right; rewrite X; reflexivity.
Qed.

Lemma inflight_ack_offer_key : forall s o k, In k (si_inflight (isys_ack_offer ev s o)) ->
  In k (si_inflight s) \/ fst k = (o_id o, o_route o).
Proof.
  intros s o k H. unfold isys_ack_offer in H. destruct (o_items_count o) as [[|m]|].
  - rewrite !inflight_event in H. left; exact H.
  - eapply inflight_ack_key; exact H.
  - eapply inflight_ack_key; exact H.
Qed.

Lemma ack_offer_rec : forall s o, ilink (si_c s) (si_inflight s) -> irec s -> pend_ok (si_c s) o ->
  okF (si_inflight s) o ->
  (match o_items_count o with Some O => false | _ => acks_stale ev (o_id o) (o_route o) (o_actions o) s end) = false ->
  ibad (isys_ack_offer ev s o) = false -> irec (isys_ack_offer ev s o).
Proof.
  intros s o I R Hp [Hcmd Hok] Hst Hb. unfold isys_ack_offer, pend_ok in *. destruct (o_items_count o) as [[|m]|].
  - destruct R as [Ia [Pa [Hk Hm]]].
    set (s1 := isys_event ev s (o_id o) (o_route o) (EvAction S_RUNNING JNull)) in *.
    assert (Hb1 : ibad s1 = false).
    { apply (not_bad_before (fun x => isys_event ev x (o_id o) (o_route o) (EvAction S_SUCCEEDED (JList [])))); [apply ibad_event_mono|exact Hb]. }
    destruct (plain_event_rec s _ _ _ _ Hb1 Ia Pa Hk Hok) as [Ib [Pb Kb]]. fold s1 in Ib, Pb, Kb.
    destruct (plain_event_rec s1 _ _ _ (si_inflight s) Hb Ib Pb Kb Hok) as [Ic [Pc Kc]].
    split; [exact Ic|]. split; [exact Pc|]. rewrite !inflight_event. unfold s1. rewrite inflight_event. auto.
  - destruct Hp as [l [Hl Ha]]. exact (ack_items_loop_rec _ _ _ _ _ I R Hl Ha Hcmd Hok Hst Hb).
  - exact (ack_plain_loop_rec _ _ _ _ I R Hp Hok Hb).
Qed.

Lemma okF_grow : forall F F' o, okF F o -> (forall k, In k F' -> In k F \/ fst k <> (o_id o, o_route o)) -> okF F' o.
Proof.
  intros F F' o [Hc H] Hg. split; [exact Hc|]. destruct (o_items_count o) as [[|m]|].
  - intros i X. destruct (Hg _ X) as [Y|Y]; [exact (H i Y)|apply Y; reflexivity].
  - intros X. destruct (Hg _ X) as [Y|Y]; [exact (H Y)|apply Y; reflexivity].
  - intros i X. destruct (Hg _ X) as [Y|Y]; [exact (H i Y)|apply Y; reflexivity].
Qed.

Lemma ack_offers_rec : forall offers s, ilink (si_c s) (si_inflight s) -> irec s ->
  (forall o, In o offers -> pend_ok (si_c s) o) -> (forall o, In o offers -> okF (si_inflight s) o) ->
  offers_dup offers = false -> offers_stale ev offers s = false ->
  ibad (fold_left (isys_ack_offer ev) offers s) = false -> irec (fold_left (isys_ack_offer ev) offers s).
Proof.
  induction offers as [|o offers IH]; intros s I R Hp Hok Hd Hst Hb; cbn [fold_left] in *; [exact R|].
  simpl in Hd. apply orb_false_iff in Hd. destruct Hd as [Hd1 Hd2].
  simpl in Hst. apply orb_false_iff in Hst. destruct Hst as [Hst1 Hst2].
  assert (Hb1 : ibad (isys_ack_offer ev s o) = false).
  { apply (not_bad_before (fun x => fold_left (isys_ack_offer ev) offers x)); [apply ibad_fold_offer_mono|exact Hb]. }
  destruct (ack_offer_link ev s o I (Hp o (or_introl eq_refl)) Hb1) as [I1 P1].
  pose proof (ack_offer_rec s o I R (Hp o (or_introl eq_refl)) (Hok o (or_introl eq_refl)) Hst1 Hb1) as R1'.
  apply IH; try assumption.
  - intros o2 Ho2. apply (pend_ok_persist (si_c s)); [apply Hp; right; exact Ho2|].
    intros l2. apply P1. apply (offers_key_distinct _ _ _ Hd1 Ho2).
  - intros o2 Ho2. apply (okF_grow (si_inflight s)); [apply Hok; right; exact Ho2|].
    intros k Hk. destruct (inflight_ack_offer_key _ _ _ Hk) as [X|X]; [left; exact X|right].
    rewrite X. intro E. exact (offers_key_distinct _ _ _ Hd1 Ho2 (eq_sym E)).
Qed.


(* ---- the protocol steps ---- *)
Lemma irec_same_records : forall c c' F, c_init c' = true -> tasks (c_ws c') = tasks (c_ws c) ->
  sequence (c_ws c') = sequence (c_ws c) -> P_ok c -> Krec c F -> P_ok c' /\ Krec c' F.
Proof.
  intros c c' F Hi Ht Hs Pa Hk. split.
  - intros t r i E. unfold ws_task_idx in *. rewrite Ht in E. rewrite Hs. exact (Pa t r i E).
  - intros t r i Hin. destruct (Hk t r i Hin) as [Hc [idx [rec [A [B C]]]]]. split; [exact Hc|]. exists idx, rec.
    unfold ws_task_idx in *. rewrite Ht, Hs. auto.
Qed.

Lemma poll_rec : forall s c1 offers, ilink (si_c s) (si_inflight s) -> irec s ->
  get_next_tasks ev (si_c s) = (c1, Val offers) -> poll_odd ev s = false -> ibad (isys_poll ev s) = false ->
  irec (isys_poll ev s).
Proof.
  intros s c1 offers I R Hg Hodd Hb. unfold poll_odd in Hodd. unfold isys_poll in *. rewrite Hg in *.
  apply orb_false_iff in Hodd. destruct Hodd as [Hodd Hstale].
  destruct I as [Hi [Hfo [H1 H2]]]. destruct R as [Ia [Pa [Hk Hm]]].
  destruct (gn_items_eff ev _ _ _ Hi Hg) as [HR Hof].
  destruct (J_Rgn _ _ _ HR H1 H2) as [K1 K2].
  pose proof (fo_get_next_tasks ev _ _ _ Hg Hfo) as Hfo1.
  set (s0 := {| si_c := c1; si_inflight := si_inflight s; si_acc := si_acc s; si_fault := si_fault s;
                si_wiped := si_wiped s || offers_dup offers |}) in *.
  assert (Hb0 : ibad s0 = false).
  { apply (not_bad_before (fun x => fold_left (isys_ack_offer ev) offers x)); [apply ibad_fold_offer_mono|exact Hb]. }
  assert (Hd : offers_dup offers = false).
  { unfold ibad, s0 in Hb0. simpl in Hb0. apply orb_false_iff in Hb0. destruct Hb0 as [_ X]. apply orb_false_iff in X. tauto. }
  pose proof HR as (_ & _ & Hin & Hseq & Htk & _ & _).
  assert (Hi1 : c_init c1 = true) by (rewrite Hin; exact Hi).
  destruct (irec_same_records (si_c s) c1 (si_inflight s) Hi1 Htk Hseq Pa Hk) as [Pa1 Hk1].
  apply (ack_offers_rec offers s0); try assumption.
  - unfold s0; simpl. split; [exact Hi1|split; [exact Hfo1|split; assumption]].
  - unfold s0, irec; simpl. auto.
  - intros o Ho. destruct (Hof o Ho) as [e [_ [_ [_ Hok]]]]. exact (pend_of_offer_ok _ _ _ Hok).
  - intros o Ho. unfold s0; simpl.
    assert (Ho' : offer_odd (si_inflight s) c1 o = false).
    { destruct (offer_odd (si_inflight s) c1 o) eqn:E; [|reflexivity].
      assert (X : existsb (offer_odd (si_inflight s) c1) offers = true) by (apply existsb_exists; exists o; auto). congruence. }
    unfold offer_odd in Ho'. apply orb_false_iff in Ho'. destruct Ho' as [Ho' Hcmd]. apply orb_false_iff in Ho'. destruct Ho' as [Hrs Hcl].
    split; [exact Hcmd|].
    assert (NoItems : o_items_count o = None \/ o_items_count o = Some 0 -> forall i, ~ In (o_id o, o_route o, Some i) (si_inflight s)).
    { intros Hcnt i Hin'. destruct (H1 _ _ _ Hin') as [l [Hl Hn]].
      destruct l as [|x xs]; [destruct i; discriminate Hn|].
      unfold offer_resized in Hrs. rewrite (Rgn_items_stable _ _ _ _ _ _ HR Hl) in Hrs.
      destruct Hcnt as [E|E]; rewrite E in Hrs; discriminate Hrs. }
    destruct (o_items_count o) as [[|m]|]; [apply NoItems; auto| |apply NoItems; auto].
    intro X. apply ikey_in_iff in X. congruence.
Qed.

Lemma other_item_dec : forall (F : list ikey) t r i,
  (exists j, j <> i /\ In (t, r, Some j) F) \/ (forall j, In (t, r, Some j) F -> j = i).
Proof.
  induction F as [|k F IH]; intros t r i; [right; intros j []|].
  destruct (IH t r i) as [[j [A B]]|H]; [left; exists j; split; [exact A|right; exact B]|].
  destruct k as [[t' r'] [j'|]].
  - destruct (tkey_dec (t', r') (t, r)) as [E|Hne].
    + destruct (Nat.eq_dec j' i) as [->|Hj].
      * right. intros j [X|X]; [inversion X; reflexivity|exact (H j X)].
      * left. exists j'. split; [exact Hj|left]. inversion E; reflexivity.
    + right. intros j [X|X]; [inversion X; subst; exfalso; apply Hne; reflexivity|exact (H j X)].
  - right. intros j [X|X]; [discriminate X|exact (H j X)].
Qed.

Lemma report_rec : forall s t r item st result, ilink (si_c s) (si_inflight s) -> irec s ->
  ibad (isys_report ev s t r item st result) = false -> irec (isys_report ev s t r item st result).
Proof.
  intros s t r item st result I R Hb. unfold isys_report in *.
  destruct (ikey_in (t, r, item) (si_inflight s) && status_in st report_statuses) eqn:En; [|exact R].
  apply andb_true_iff in En. destruct En as [Hin Hst]. apply ikey_in_iff in Hin.
  pose proof I as [Hi [Hfo [H1 H2]]]. destruct R as [Ia [Pa [Hk Hm]]].
  destruct item as [i|].
  - destruct (H1 _ _ _ Hin) as [l [Hl Hn]].
    assert (Hil : i < length l) by (apply nth_error_Some; rewrite Hn; discriminate).
    set (acc' := acc_set (si_acc s) (t, r) i result) in *.
    set (e := EvItem i st result (acc_list (acc_get acc' (t, r)))) in *.
    set (s2 := {| si_c := si_c (with_inflight s (ikey_remove (t, r, Some i) (si_inflight s)));
                  si_inflight := si_inflight (with_inflight s (ikey_remove (t, r, Some i) (si_inflight s)));
                  si_acc := acc'; si_fault := si_fault (with_inflight s (ikey_remove (t, r, Some i) (si_inflight s)));
                  si_wiped := si_wiped (with_inflight s (ikey_remove (t, r, Some i) (si_inflight s))) |}) in *.
    destruct (ievent_rec_other s2 t r e (si_inflight s) Hb Ia Pa Hk) as [Ib [Pb Ho]].
    split; [exact Ib|]. split; [exact Pb|]. rewrite inflight_event. unfold s2; simpl. split.
    + intros t' r' i' Hin'. apply In_ikey_remove in Hin'. destruct Hin' as [Hin' Hne'].
      destruct (tkey_dec (t', r') (t, r)) as [E|Hne]; [|exact (Ho t' r' i' Hin' Hne)].
      inversion E; subst t' r'. assert (Hi' : i' <> i) by congruence.
      destruct (Hk t r i Hin) as [Hcmd [idx0 [r0 [Hp0 [Hr0 Hl0]]]]]. split; [exact Hcmd|].
      destruct (H1 _ _ _ Hin') as [l' [Hl' Hn']]. rewrite Hl in Hl'. inversion Hl'; subst l'.
      destruct (items_of_entry _ _ _ _ Hl) as [s0 [_ [_ [_ [Hit Hg]]]]].
      pose proof (ievent_val s2 t r e Hb) as H. change (si_c s2) with (si_c s) in H.
      destruct (own_report ev _ _ _ _ _ _ _ _ _ _ _ _ _ _ H Ia Pa Hcmd Hst Hg Hit Hil Hn' Hi' eq_refl Hp0 Hr0 Hl0) as [idx [rc' [A [B [C _]]]]].
      exists idx, rc'. auto.
    + intros t' r' Hin' i' Hin''. apply In_ikey_remove in Hin'. apply In_ikey_remove in Hin''. exact (Hm t' r' (proj1 Hin') i' (proj1 Hin'')).
  - set (s1 := with_inflight s (ikey_remove (t, r, None) (si_inflight s))) in *.
    destruct (plain_event_rec s1 t r (EvAction st result) (si_inflight s) Hb Ia Pa Hk (Hm t r Hin)) as [Ib [Pb Kb]].
    split; [exact Ib|]. split; [exact Pb|]. rewrite inflight_event. unfold s1; simpl. split.
    + intros t' r' i' Hin'. apply In_ikey_remove in Hin'. exact (Kb t' r' i' (proj1 Hin')).
    + intros t' r' Hin' i' Hin''. apply In_ikey_remove in Hin'. apply In_ikey_remove in Hin''. exact (Hm t' r' (proj1 Hin') i' (proj1 Hin'')).
Qed.

Lemma request_rec_c : forall c F st c' x, ilink c F -> c_init c = true -> P_ok c -> Krec c F ->
  api_exec ev (OpRequest st) c = (c', x) -> c_init c' = true /\ P_ok c' /\ Krec c' F.
Proof.
  intros c F st c' x I Ia Pa Hk E. cbn [api_exec] in E. unfold bind at 1 in E.
  destruct (request_workflow_status ev st c) as [c2 rr] eqn:R.
  assert (c' = c2) by (destruct rr; inversion E; reflexivity). subst c2.
  destruct (request_records ev st c c' rr Ia R) as [Hs [Ht [Hin Hrec]]].
  split; [congruence|]. split.
  - intros t r i Ep. unfold ws_task_idx in *. rewrite Ht in Ep. destruct (Pa t r i Ep) as [rec [A B]].
    destruct (Hrec i rec A) as [rec' [A' [B' _]]]. exists rec'. split; [exact A'|congruence].
  - intros t r i Hin'. destruct (Hk t r i Hin') as [Hc [idx [rec [A [B C]]]]]. split; [exact Hc|].
    destruct (Hrec idx rec B) as [rec' [B' [K' L']]]. exists idx, rec'. split; [unfold ws_task_idx in *; rewrite Ht; exact A|].
    split; [exact B'|]. apply L'; [left|exact C].
    destruct (Pa t r idx A) as [rec0 [X Y]]. rewrite B in X. inversion X; subst rec0. rewrite Y.
    destruct I as [_ [_ [H1 _]]]. destruct (H1 _ _ _ Hin') as [l [Hl Hn]].
    destruct (items_of_entry _ _ _ _ Hl) as [s0 [_ [_ [_ [Hit Hg]]]]]. exists s0, l. simpl. split; [exact Hg|]. split; [exact Hit|].
    apply existsb_exists. exists S_RUNNING. split; [eapply nth_error_In; exact Hn|reflexivity].
Qed.

Lemma call_rec_c : forall c F op c' x, op = OpRender \/ op = OpPersist -> c_init c = true -> P_ok c -> Krec c F ->
  api_exec ev op c = (c', x) -> is_exc x = false -> c_init c' = true /\ P_ok c' /\ Krec c' F.
Proof.
  intros c F op c' x Hop Ia Pa Hk E Hx. destruct Hop as [-> | ->]; cbn [api_exec] in E;
    destruct (then_ret_unit _ _ _ _ E) as [[_ X]|Y]; try congruence.
  - pose proof (vlt_render_workflow_output ev c Ia c' tt X) as [Hs [Ht [_ [_ [_ [_ [_ [_ Hin]]]]]]]].
    assert (Hi' : c_init c' = true) by congruence. split; [exact Hi'|]. exact (irec_same_records c c' F Hi' Ht Hs Pa Hk).
  - rewrite (persist_identity ev c Ia) in X. inversion X; subst. auto.
Qed.

Lemma born_rec : forall c c1, unborn c -> ensure_ws ev c = (c1, Val tt) -> c_init c1 = true /\ P_ok c1 /\ Krec c1 [] /\ Mx [].
Proof.
  intros c c1 [Hi Hw] H. destruct (ensure_fresh ev c c1 Hi Hw H) as [Hi1 [_ [_ [_ [Ht _]]]]].
  split; [exact Hi1|]. split; [|split; [intros t r i []|intros t r []]].
  intros t r i E. unfold ws_task_idx in E. rewrite Ht in E. discriminate.
Qed.


(* ---- the invariant along a history ---- *)
Definition irec_inv (s : isys) : Prop := ibad s = false -> unborn (si_c s) \/ irec s.

Lemma inv2_link : forall s, isys_inv2 s -> ibad s = false -> unborn (si_c s) /\ si_inflight s = [] \/ ilink (si_c s) (si_inflight s).
Proof. intros s H Hb. destruct (H Hb) as [X|[X _]]; auto. Qed.

Lemma unborn_get_next : forall s, unborn (si_c s) ->
  (exists c1 e, get_next_tasks ev (si_c s) = (c1, Exc e)) \/
  (exists c2, ensure_ws ev (si_c s) = (c2, Val tt) /\ ilink c2 [] /\ get_next_tasks ev (si_c s) = get_next_tasks ev c2).
Proof.
  intros s Hu. unfold get_next_tasks.
  match goal with |- context [bind (ensure_ws ev) ?k0 (si_c s)] =>
    destruct (unborn_call ev _ k0 (si_c s) Hu) as [[c2 [e [_ X]]]|[c2 [En [I X]]]] end;
    [left; exists c2, e; exact X|right; exists c2; split; [exact En|split; [exact I|exact X]]].
Qed.

Lemma poll_inv3 : forall s, isys_inv2 s -> irec_inv s -> poll_odd ev s = false -> irec_inv (isys_poll ev s).
Proof.
  intros s H2 H3 Hodd Hb. right.
  assert (Hb0 : ibad s = false) by exact (not_bad_before _ _ (ibad_poll_mono ev s) Hb).
  assert (K : forall s0, ilink (si_c s0) (si_inflight s0) -> irec s0 -> poll_odd ev s0 = false ->
              ibad (isys_poll ev s0) = false -> irec (isys_poll ev s0)).
  { intros s0 I R Ho Hb'. destruct (get_next_tasks ev (si_c s0)) as [c1 [offers|x]] eqn:Hg.
    - exact (poll_rec s0 c1 offers I R Hg Ho Hb').
    - unfold isys_poll in Hb'. rewrite Hg in Hb'. discriminate Hb'. }
  destruct (inv2_link s H2 Hb0) as [[Hu HF]|I].
  - destruct (unborn_get_next s Hu) as [[c1 [e X]]|[c2 [En [I X]]]].
    + unfold isys_poll in Hb. rewrite X in Hb. discriminate Hb.
    + assert (E : isys_poll ev s = isys_poll ev (set_c s c2)) by (unfold isys_poll; simpl; rewrite X; reflexivity).
      assert (Eo : poll_odd ev s = poll_odd ev (set_c s c2)) by (unfold poll_odd; simpl; rewrite X; reflexivity).
      rewrite E in *. rewrite Eo in Hodd. apply K; [simpl; rewrite HF; exact I| |exact Hodd|exact Hb].
      destruct (born_rec _ _ Hu En) as [A [B [C D]]]. unfold irec. simpl. rewrite HF. auto.
  - destruct (H3 Hb0) as [[Hi _]|R]; [destruct I as [Hi' _]; congruence|]. apply K; assumption.
Qed.

Lemma report_inv3 : forall s t r item st result, isys_inv2 s -> irec_inv s -> irec_inv (isys_report ev s t r item st result).
Proof.
  intros s t r item st result H2 H3 Hb.
  assert (Hb0 : ibad s = false).
  { apply (not_bad_before (fun x => isys_report ev x t r item st result)); [|exact Hb].
    intros H. unfold isys_report. destruct (ikey_in _ _ && _); [|exact H].
    destruct item; apply ibad_event_mono; exact H. }
  destruct (inv2_link s H2 Hb0) as [[Hu HF]|I].
  - left. unfold isys_report. rewrite HF. simpl. exact Hu.
  - destruct (H3 Hb0) as [[Hi _]|R]; [destruct I as [Hi' _]; congruence|]. right. apply report_rec; assumption.
Qed.

Lemma request_inv3 : forall s st, isys_inv2 s -> irec_inv s -> irec_inv (isys_request ev s st).
Proof.
  intros s st H2 H3. unfold isys_request in *. destruct (status_in st request_statuses); [|exact H3].
  destruct (api_exec ev (OpRequest st) (si_c s)) as [c' x] eqn:E. intros Hb.
  unfold ibad in Hb. simpl in Hb.
  apply orb_false_iff in Hb. destruct Hb as [Hb1 Hb2]. apply orb_false_iff in Hb1. destruct Hb1 as [Hb1 Hb3].
  assert (Hb0 : ibad s = false) by (unfold ibad; rewrite Hb1, Hb2; reflexivity).
  right. unfold irec. simpl. destruct (inv2_link s H2 Hb0) as [[Hu HF]|I].
  - destruct (ensure_ws ev (si_c s)) as [c1 [[]|e]] eqn:En; [|discriminate Hb3].
    pose proof (born_link ev _ _ Hu En) as I. pose proof I as [Hi1 _].
    assert (E1 : api_exec ev (OpRequest st) c1 = (c', x)).
    { rewrite <- E. cbn [api_exec]. unfold request_workflow_status, bind. rewrite En, (ensure_ws_inited ev c1 Hi1). reflexivity. }
    destruct (born_rec _ _ Hu En) as [A [B [C D]]]. rewrite HF.
    destruct (request_rec_c c1 [] st c' x I A B C E1) as [A' [B' C']]. auto.
  - destruct (H3 Hb0) as [[Hi _]|[Ia [Pa [Hk Hm]]]]; [destruct I as [Hi' _]; congruence|].
    destruct (request_rec_c _ _ st c' x I Ia Pa Hk E) as [A' [B' C']]. auto.
Qed.

Lemma call_inv3 : forall s op, op = OpRender \/ op = OpPersist -> isys_inv2 s -> irec_inv s -> irec_inv (isys_call ev s op).
Proof.
  intros s op Hop H2 H3. unfold isys_call. destruct (api_exec ev op (si_c s)) as [c' x] eqn:E. intros Hb. unfold ibad in Hb. simpl in Hb.
  apply orb_false_iff in Hb. destruct Hb as [Hb1 Hb2]. apply orb_false_iff in Hb1. destruct Hb1 as [Hb1 Hb3].
  assert (Hb0 : ibad s = false) by (unfold ibad; rewrite Hb1, Hb2; reflexivity).
  right. unfold irec. simpl.
  assert (XX : exists c1, c_init c1 = true /\ P_ok c1 /\ Krec c1 (si_inflight s) /\ Mx (si_inflight s) /\ api_exec ev op c1 = (c', x)).
  { destruct (inv2_link s H2 Hb0) as [[Hu HF]|I].
    - rewrite HF.
      destruct Hop as [-> | ->]; cbn [api_exec] in E |- *;
        (destruct (then_ret_inv _ _ _ _ _ _ E) as [[Hx X]|[e [Hx _]]]; [|rewrite Hx in Hb3; discriminate Hb3]).
      + unfold render_workflow_output in X.
        match type of X with bind (ensure_ws ev) ?k (si_c s) = _ =>
          destruct (unborn_call ev _ k (si_c s) Hu) as [[c1 [e [_ Z]]]|[c1 [En [I Z]]]] end; [rewrite Z in X; discriminate X|].
        exists c1. destruct (born_rec _ _ Hu En) as [A [B [C D]]]. repeat (split; [assumption|]).
        rewrite Z in X. unfold bind at 1. unfold render_workflow_output. rewrite X, Hx. reflexivity.
      + unfold persist in X.
        match type of X with bind (ensure_ws ev) ?k (si_c s) = _ =>
          destruct (unborn_call ev _ k (si_c s) Hu) as [[c1 [e [_ Z]]]|[c1 [En [I Z]]]] end; [rewrite Z in X; discriminate X|].
        exists c1. destruct (born_rec _ _ Hu En) as [A [B [C D]]]. repeat (split; [assumption|]).
        rewrite Z in X. unfold bind at 1. unfold persist. rewrite X, Hx. reflexivity.
    - destruct (H3 Hb0) as [[Hi _]|[Ia [Pa [Hk Hm]]]]; [destruct I as [Hi' _]; congruence|]. exists (si_c s). auto. }
  destruct XX as [c1 [A [B [C [D E1]]]]]. destruct (call_rec_c c1 _ op c' x Hop A B C E1 Hb3) as [A' [B' C']]. auto.
Qed.

Definition op_odd (s : isys) (op : isys_op) : bool := match op with IPoll => poll_odd ev s | _ => false end.

Theorem isys_step_inv3 : forall s op, isys_inv2 s -> irec_inv s -> op_odd s op = false -> irec_inv (isys_step ev s op).
Proof.
  intros s op H2 H3 Ho. destruct op; cbn [isys_step].
  - apply request_inv3; assumption.
  - apply poll_inv3; assumption.
  - apply report_inv3; assumption.
  - apply request_inv3; assumption.
  - apply call_inv3; [left; reflexivity|assumption|assumption].
  - apply call_inv3; [right; reflexivity|assumption|assumption].
Qed.

Theorem isys_run_inv3 : forall ops s, isys_inv2 s -> irec_inv s -> run_odd ev ops s = false ->
  irec_inv (isys_run ev ops s).
Proof.
  induction ops as [|op ops IH]; intros s H2 H3 Ho; [exact H3|]. cbn [isys_run fold_left]. simpl in Ho.
  apply orb_false_iff in Ho. destruct Ho as [Ho1 Ho2].
  apply IH; [apply isys_step_inv2; exact H2|apply isys_step_inv3; assumption|exact Ho2].
Qed.


(* ---- no record is pending, along a history ---- *)
Lemma np_event : forall s t r e, npend e -> ibad (isys_event ev s t r e) = false -> NP (si_c s) -> NP (si_c (isys_event ev s t r e)).
Proof. intros s t r e Hn Hb N. exact (np_fuel ev _ t r e Hn _ _ _ (ievent_val s t r e Hb) N). Qed.

Lemma np_ack : forall t r s a, ibad (isys_ack ev t r s a) = false -> NP (si_c s) -> NP (si_c (isys_ack ev t r s a)).
Proof.
  intros t r s a Hb N. unfold isys_ack in *. destruct (a_item a); apply np_event; try assumption; simpl; discriminate.
Qed.

Lemma np_fold_ack : forall t r acts s, ibad (fold_left (isys_ack ev t r) acts s) = false -> NP (si_c s) ->
  NP (si_c (fold_left (isys_ack ev t r) acts s)).
Proof.
  intros t r. induction acts as [|a acts IH]; intros s Hb N; cbn [fold_left] in *; [exact N|].
  apply IH; [exact Hb|]. apply np_ack; [|exact N].
  apply (not_bad_before (fun x => fold_left (isys_ack ev t r) acts x)); [apply ibad_fold_ack_mono|exact Hb].
Qed.

Lemma np_ack_offer : forall s o, ibad (isys_ack_offer ev s o) = false -> NP (si_c s) -> NP (si_c (isys_ack_offer ev s o)).
Proof.
  intros s o Hb N. unfold isys_ack_offer in *. destruct (o_items_count o) as [[|m]|]; try (apply np_fold_ack; assumption).
  apply np_event; [simpl; discriminate|exact Hb|]. apply np_event; [simpl; discriminate| |exact N].
  apply (not_bad_before (fun x => isys_event ev x (o_id o) (o_route o) (EvAction S_SUCCEEDED (JList [])))); [apply ibad_event_mono|exact Hb].
Qed.

Lemma np_fold_offer : forall offers s, ibad (fold_left (isys_ack_offer ev) offers s) = false -> NP (si_c s) ->
  NP (si_c (fold_left (isys_ack_offer ev) offers s)).
Proof.
  induction offers as [|o offers IH]; intros s Hb N; cbn [fold_left] in *; [exact N|].
  apply IH; [exact Hb|]. apply np_ack_offer; [|exact N].
  apply (not_bad_before (fun x => fold_left (isys_ack_offer ev) offers x)); [apply ibad_fold_offer_mono|exact Hb].
Qed.

Lemma NP_born : forall c c1, unborn c -> ensure_ws ev c = (c1, Val tt) -> NP c1.
Proof.
  intros c c1 [Hi Hw] H. destruct (ensure_fresh ev c c1 Hi Hw H) as [_ [_ [_ [Hs _]]]].
  intros i rec E. rewrite Hs in E. destruct i; discriminate E.
Qed.

Definition np_inv (s : isys) : Prop := ibad s = false -> NP (si_c s).

Lemma np_poll_inited : forall s, c_init (si_c s) = true -> NP (si_c s) -> ibad (isys_poll ev s) = false -> NP (si_c (isys_poll ev s)).
Proof.
  intros s Hi N Hb. unfold isys_poll in *. destruct (get_next_tasks ev (si_c s)) as [c1 [offers|x]] eqn:Hg; [|discriminate Hb].
  destruct (gn_items_eff ev _ _ _ Hi Hg) as [(_ & _ & _ & Hseq & _) _].
  apply np_fold_offer; [exact Hb|]. simpl. intros i rec E. rewrite Hseq in E. exact (N i rec E).
Qed.

Lemma np_step : forall s op, isys_inv2 s -> np_inv s -> np_inv (isys_step ev s op).
Proof.
  intros s op H2 H3 Hb.
  assert (Hb0 : ibad s = false) by (apply (not_bad_before (fun x => isys_step ev x op)); [intro; apply ibad_step_mono; assumption|exact Hb]).
  specialize (H3 Hb0).
  assert (Born : forall c1, unborn (si_c s) -> ensure_ws ev (si_c s) = (c1, Val tt) -> NP c1) by (intros; eapply NP_born; eassumption).
  assert (Rq : forall st, ibad (isys_request ev s st) = false -> NP (si_c (isys_request ev s st))).
  { intros st Hb'. unfold isys_request in *. destruct (status_in st request_statuses); [|exact H3].
    destruct (api_exec ev (OpRequest st) (si_c s)) as [c' x] eqn:E. simpl.
    unfold ibad in Hb'. simpl in Hb'. apply orb_false_iff in Hb'. destruct Hb' as [Hb1 _]. apply orb_false_iff in Hb1. destruct Hb1 as [_ Hb3].
    cbn [api_exec] in E. unfold bind at 1 in E. destruct (request_workflow_status ev st (si_c s)) as [c2 rr] eqn:R.
    assert (c' = c2) by (destruct rr; inversion E; reflexivity). subst c2.
    unfold request_workflow_status, bind in R. destruct (ensure_ws ev (si_c s)) as [c1 [[]|e]] eqn:En; [|discriminate Hb3].
    apply (np_request_status_core st _ _ _ R). exact (np_ensure_ws ev _ _ _ En H3). }
  assert (Cl : forall o, o = OpRender \/ o = OpPersist -> ibad (isys_call ev s o) = false -> NP (si_c (isys_call ev s o))).
  { intros o Ho Hb'. unfold isys_call in *. destruct (api_exec ev o (si_c s)) as [c' x] eqn:E. simpl.
    unfold ibad in Hb'. simpl in Hb'. apply orb_false_iff in Hb'. destruct Hb' as [Hb1 _]. apply orb_false_iff in Hb1. destruct Hb1 as [_ Hb3].
    destruct Ho as [-> | ->]; cbn [api_exec] in E; destruct (then_ret_unit _ _ _ _ E) as [[_ X]|Y]; try congruence.
    - unfold render_workflow_output in X. apply bind_val_inv' in X. destruct X as [c1 [[] [En X]]].
      pose proof (np_ensure_ws ev _ _ _ En H3) as N1.
      assert (Hi1 : c_init c1 = true) by (eapply ensure_ws_init_after; exact En).
      assert (X' : render_workflow_output ev c1 = (c', Val tt)).
      { unfold render_workflow_output. unfold bind at 1. rewrite (ensure_ws_inited ev c1 Hi1). exact X. }
      pose proof (vlt_render_workflow_output ev c1 Hi1 c' tt X') as [Hs _]. intros i rec E'. rewrite Hs in E'. exact (N1 i rec E').
    - unfold persist in X. apply bind_val_inv' in X. destruct X as [c1 [[] [En X]]].
      pose proof (np_ensure_ws ev _ _ _ En H3) as N1.
      assert (Hi1 : c_init c1 = true) by (eapply ensure_ws_init_after; exact En).
      assert (X' : persist ev c1 = (c', Val tt)).
      { unfold persist. unfold bind at 1. rewrite (ensure_ws_inited ev c1 Hi1). exact X. }
      rewrite (persist_identity ev c1 Hi1) in X'. inversion X'; subst. exact N1. }
  destruct op; cbn [isys_step] in *; auto.
  - destruct (inv2_link s H2 Hb0) as [[Hu HF]|[Hi _]]; [|apply np_poll_inited; assumption].
    destruct (unborn_get_next s Hu) as [[c1 [e X]]|[c2 [En [[Hi2 _] X]]]]; [unfold isys_poll in Hb; rewrite X in Hb; discriminate Hb|].
    assert (E : isys_poll ev s = isys_poll ev (set_c s c2)) by (unfold isys_poll; simpl; rewrite X; reflexivity).
    rewrite E in *. apply np_poll_inited; [exact Hi2|simpl; exact (Born _ Hu En)|exact Hb].
  - unfold isys_report in *. destruct (ikey_in _ _ && _) eqn:En; [|exact H3].
    apply andb_true_iff in En. destruct En as [_ Hst].
    destruct item; apply np_event; try assumption; simpl; intro X; subst st; discriminate Hst.
Qed.

Lemma np_run : forall ops s, isys_inv2 s -> np_inv s -> np_inv (isys_run ev ops s).
Proof.
  induction ops as [|op ops IH]; intros s H2 H3; [exact H3|]. cbn [isys_run fold_left].
  apply IH; [apply isys_step_inv2; exact H2|apply np_step; assumption].
Qed.

End RecSystem.

(* ================================================================== H. reachable states *)
Section RecReachable.
Variable ev : string -> dict -> evalres.
Variables (sp : wf_spec) (g : graph) (inputs parent : dict).

Lemma ireach_inv3 : forall ops, run_odd ev ops (isys_init sp g inputs parent) = false ->
  irec_inv (ireach ev sp g inputs parent ops).
Proof.
  intros ops Ho. apply isys_run_inv3; [apply isys_init_inv2| |exact Ho].
  intros _. left. split; reflexivity.
Qed.

(* (d) DRAIN and the record half of (a): while an item of a task is in flight the pointer map leads to a record of
   that task whose status is active -- or pending, an action status that only a pending report produces -- hence
   neither completed nor retrying *)
Theorem items_record_busy : forall ops, let s := ireach ev sp g inputs parent ops in
  si_fault s = false -> si_wiped s = false -> run_odd ev ops (isys_init sp g inputs parent) = false ->
  forall t r i, In (t, r, Some i) (si_inflight s) ->
  is_engine_command t = false /\
  exists rec, ws_task_entry (c_ws (si_c s)) t r = Some rec /\ r_id rec = t /\ r_route rec = r /\
              ostatus_in (r_status rec) GOOD_STATUSES = true /\
              ostatus_in (r_status rec) COMPLETED_STATUSES = false /\ r_status rec <> Some S_RETRYING.
Proof.
  intros ops s Hf Hw Ho t r i Hin. destruct (ireach_inv3 ops Ho (ibad_false _ Hf Hw)) as [[_ Hws]|[_ [Pa [Hk _]]]].
  - exfalso. destruct (ireach_inv2 ev sp g inputs parent ops (ibad_false _ Hf Hw)) as [[_ HF]|[[_ [_ [H1 _]]] _]].
    + fold s in HF. rewrite HF in Hin. destruct Hin.
    + fold s in H1, Hws. destruct (H1 _ _ _ Hin) as [l [Hl _]]. unfold items_of, get_staged_task in Hl. rewrite Hws in Hl. discriminate.
  - fold s in Pa, Hk. destruct (Hk t r i Hin) as [Hc [idx [rec [A [B C]]]]]. split; [exact Hc|].
    destruct (Pa t r idx A) as [rec0 [X Y]]. rewrite B in X. inversion X; subst rec0. unfold key_of in Y.
    exists rec. unfold ws_task_entry. rewrite A. split; [exact B|]. split; [congruence|]. split; [congruence|].
    split; [exact C|]. pose proof (busy_live _ C) as L. unfold live in L.
    destruct (r_status rec) as [x|]; [|discriminate C]. simpl in L.
    destruct (dead_split _ L) as [C1 C2]. split; [exact C1|congruence].
Qed.


(* (d) "succeeded iff every item succeeded", at the report of an item *)
Theorem items_succeeded_iff : forall ops t r i st result,
  let s := ireach ev sp g inputs parent ops in let s' := isys_report ev s t r (Some i) st result in
  si_fault s' = false -> si_wiped s' = false -> run_odd ev ops (isys_init sp g inputs parent) = false ->
  In (t, r, Some i) (si_inflight s) -> status_in st report_statuses = true ->
  exists l rec rec', items_of (si_c s) t r = Some l /\ ws_task_entry (c_ws (si_c s)) t r = Some rec /\
    ws_task_entry (c_ws (si_c s')) t r = Some rec' /\
    (r_status rec' = Some S_SUCCEEDED -> st = S_SUCCEEDED /\ forall x, In x (list_del_nth i l) -> x = S_SUCCEEDED) /\
    (st = S_SUCCEEDED -> (forall x, In x (list_del_nth i l) -> x = S_SUCCEEDED) ->
     status_in (rstatus rec) [S_RUNNING; S_PAUSING; S_CANCELING] = true ->
     r_status rec' = Some S_SUCCEEDED \/ r_status rec' = Some S_RETRYING).
Proof.
  intros ops t r i st result s s' Hf Hw Ho Hin Hst.
  assert (Hb' : ibad s' = false) by (apply ibad_false; assumption).
  assert (Hb : ibad s = false).
  { apply (not_bad_before (fun x => isys_report ev x t r (Some i) st result)); [|exact Hb'].
    intros H. unfold isys_report. destruct (ikey_in _ _ && _); [|exact H]. apply ibad_event_mono; exact H. }
  destruct (ireach_inv2 ev sp g inputs parent ops Hb) as [[_ HF]|[[Hi [Hfo [H1 H2]]] _]]; [fold s in HF; rewrite HF in Hin; destruct Hin|].
  fold s in Hi, Hfo, H1, H2.
  destruct (ireach_inv3 ops Ho Hb) as [[Hi' _]|[Ia [Pa [Hk _]]]]; [fold s in Hi'; congruence|]. fold s in Ia, Pa, Hk.
  destruct (H1 _ _ _ Hin) as [l [Hl Hn]].
  assert (Hil : i < length l) by (apply nth_error_Some; rewrite Hn; discriminate).
  destruct (items_of_entry _ _ _ _ Hl) as [s0 [_ [_ [_ [Hit Hg]]]]].
  destruct (Hk t r i Hin) as [Hcmd [idx0 [r0 [Hp0 [Hr0 Hb0]]]]].
  unfold s', isys_report in *. apply ikey_in_iff in Hin. rewrite Hin, Hst in *. cbn [andb] in *.
  match type of Hb' with ibad (isys_event ev ?s2 t r ?e) = false => set (sx := s2) in *; set (ex := e) in * end.
  pose proof (ievent_val ev sx t r ex Hb') as H. change (si_c sx) with (si_c s) in H.
  destruct (own_item_succeeded ev _ _ _ _ _ _ _ _ _ _ _ _ H Ia Pa Hcmd Hst Hg Hit Hil Hp0 Hr0 Hb0) as [idx' [r' [A [B [C D]]]]].
  exists l, r0, r'. split; [exact Hl|]. split; [unfold ws_task_entry; rewrite Hp0; exact Hr0|].
  split; [unfold ws_task_entry; rewrite A; exact B|]. split; [exact C|exact D].
Qed.


(* (a), record half: while an item of a task is in flight the task record is ACTIVE *)
Theorem items_record_active : forall ops, let s := ireach ev sp g inputs parent ops in
  si_fault s = false -> si_wiped s = false -> run_odd ev ops (isys_init sp g inputs parent) = false ->
  forall t r i, In (t, r, Some i) (si_inflight s) ->
  exists rec, ws_task_entry (c_ws (si_c s)) t r = Some rec /\ r_id rec = t /\ r_route rec = r /\
              ostatus_in (r_status rec) ACTIVE_STATUSES = true.
Proof.
  intros ops s Hf Hw Ho t r i Hin.
  destruct (items_record_busy ops Hf Hw Ho t r i Hin) as [_ [rec [A [B [C [D _]]]]]].
  exists rec. split; [exact A|]. split; [exact B|]. split; [exact C|].
  assert (N : NP (si_c s)).
  { apply (np_run ev ops _ (isys_init_inv2 sp g inputs parent)); [|apply ibad_false; assumption].
    intros _ j rc E. simpl in E. destruct j; discriminate E. }
  unfold ws_task_entry in A. fold s in A. revert A. destruct (ws_task_idx (c_ws (si_c s)) t r) as [idx|]; intro A; [|discriminate A].
  pose proof (N idx rec A) as Hnp. destruct (r_status rec) as [x|]; [|discriminate D]. simpl in *.
  apply F_good_not_pending_active; [exact D|congruence].
Qed.

End RecReachable.
