(* SysItemsStuckProofs.v -- the with-items provider protocol, the backward link: an active task record is in flight, or has
   an active item, or is running with an item never offered; and while the workflow reports pausing / canceling a
   running record with an item never offered exists only after a task event moved the workflow there (the computed
   flag of model/ProviderSysItemsMon3.v). *)
From Coq Require Import String List Bool ZArith Arith Lia.
From Orq Require Import GenStatuses GenEvents GenTables GenSpecMeta Base State Machines Codec Conductor Decode Api Driver ProviderSys ProviderSysItems ProviderSysItemsMon ProviderSysItemsMon2 ProviderSysItemsMon3.
From Orq Require Import F_tables F_names F_sys F_sysitems Hoare ValuePost StatusReach C04Proofs C05Proofs C02C03Proofs C09C10Proofs OffersProofs InertProofs RetryProofs SysProofs SysNextProofs SysItemsProofs SysItemsRecProofs SysItemsPlainProofs SysItemsIdleProofs SysItemsBusyProofs.
Import ListNotations.
Open Scope string_scope.

(* ================================================================== A. one pointer per key; engine commands are never active *)
Definition ND (c : cstate) : Prop := NoDup (map fst (tasks (c_ws c))).
Definition CM (c : cstate) : Prop := forall i rec, nth_error (sequence (c_ws c)) i = Some rec ->
  is_engine_command (r_id rec) = true -> ostatus_in (r_status rec) ACTIVE_STATUSES = false.
Definition XC (c : cstate) : Prop := ND c /\ CM c.
Definition RX (c c' : cstate) : Prop := c_init c = true -> P_ok c -> XC c -> c_init c' = true /\ P_ok c' /\ XC c'.

Lemma RX_refl : forall c, RX c c. Proof. intros c A B C. auto. Qed.
Lemma RX_trans : forall a b c, RX a b -> RX b c -> RX a c.
Proof. intros a b c H1 H2 A B C. destruct (H1 A B C) as [A1 [B1 C1]]. exact (H2 A1 B1 C1). Qed.

Lemma key_id : forall r r' : trec, key_of r' = key_of r -> r_id r' = r_id r.
Proof. intros r r' H. unfold key_of in H. congruence. Qed.

Lemma RX_same : forall c c', tasks (c_ws c') = tasks (c_ws c) -> map sig (sequence (c_ws c')) = map sig (sequence (c_ws c)) ->
  c_init c' = c_init c -> RX c c'.
Proof.
  intros c c' Ht Hs Hi Ia Pa [Hn Hc]. destruct (RK_same (fun _ => False) c c' Ht Hs Hi Ia Pa) as [Ib [Pb _]].
  split; [exact Ib|]. split; [exact Pb|]. split; [unfold ND; rewrite Ht; exact Hn|].
  intros i rec E Hcmd. destruct (nth_map_sig _ _ _ _ (eq_sym Hs) E) as [r0 [E0 S]]. destruct (sig_key _ _ S) as [K1 S1].
  rewrite <- S1. apply (Hc i r0 E0). rewrite (key_id _ _ K1). exact Hcmd.
Qed.
Lemma RX_Rfr : forall c c', Rfr c c' -> RX c c'.
Proof. intros c c' [A [B [_ [_ [_ C]]]]]. apply RX_same; assumption. Qed.
Lemma RX_Rlt : forall c c', Rlt c c' -> RX c c'.
Proof. intros c c' H. apply RX_Rfr. apply Rlt_Rfr. exact H. Qed.

Lemma RX_new_rec : forall c t rt ins prev retry,
  RX c (set_ws c (ws_set_tasks (ws_set_sequence (c_ws c) (app (sequence (c_ws c)) [new_rec t rt ins prev retry]))
                               (aset tkey_eqb (t, rt) (length (sequence (c_ws c))) (tasks (c_ws c))))).
Proof.
  intros c t rt ins prev retry Ia Pa [Hn Hc].
  destruct (RK_new_rec (fun _ => True) c t rt ins prev retry Logic.I Ia Pa) as [Ib [Pb _]].
  split; [exact Ib|]. split; [exact Pb|]. split; [unfold ND; simpl; apply NoDup_aset; exact Hn|].
  intros i rec E Hcmd. simpl in E.
  destruct (Nat.lt_ge_cases i (length (sequence (c_ws c)))) as [Hlt|Hge].
  - rewrite nth_error_app1 in E by exact Hlt. exact (Hc i rec E Hcmd).
  - rewrite nth_error_app2 in E by exact Hge. destruct (i - length (sequence (c_ws c))) as [|k]; simpl in E; [inversion E; reflexivity|destruct k; discriminate].
Qed.

Lemma RX_set_status : forall c idx r s, nth_error (sequence (c_ws c)) idx = Some r ->
  (is_engine_command (r_id r) = true -> ostatus_in s ACTIVE_STATUSES = false) ->
  RX c (set_ws c (ws_update_rec (c_ws c) idx (fun r0 => r_set_status r0 s))).
Proof.
  intros c idx r s Hr Hs Ia Pa [Hn Hc].
  destruct (RK_set_status (fun _ => True) c idx r s Hr Logic.I Ia Pa) as [Ib [Pb _]].
  split; [exact Ib|]. split; [exact Pb|]. split; [unfold ND; simpl; rewrite tasks_update_rec; exact Hn|].
  intros i rec E Hcmd. simpl in E. unfold ws_update_rec in E. rewrite Hr in E. simpl in E.
  destruct (Nat.eq_dec i idx) as [->|Hne].
  - rewrite (nth_error_set_nth_same _ _ _ _ _ Hr) in E. inversion E; subst rec. simpl. apply Hs. destruct r; exact Hcmd.
  - rewrite nth_error_set_nth_other in E by congruence. exact (Hc i rec E Hcmd).
Qed.

(* the events the engine queues, and the retry event *)
Definition ecalm (e : event) : Prop :=
  match e with
  | EvEngine n _ => string_in n ["task_continue_requested"; "task_fail_requested"; "task_noop_requested"; "task_retry_requested"] = true
  | _ => False
  end.
Lemma engine_event_ecalm : forall n e, engine_event n = Some e -> ecalm e.
Proof.
  intros n e H. unfold engine_event in H. destruct (aget String.eqb n ENGINE_EVENT_MAP) as [[nm st]|] eqn:E; inversion H; subst e.
  simpl. apply aget_In in E. simpl in E. repeat (destruct E as [E|E]; [inversion E; subst; reflexivity|]). destruct E.
Qed.
Lemma ecalm_inactive : forall w r e ns, ecalm e -> task_process_event w r e = Val ns ->
  ostatus_in ns ACTIVE_STATUSES = false.
Proof.
  intros w r e ns He H. destruct e as [| | |n st]; try (exfalso; exact He). apply tpe_engine in H.
  destruct ns as [x|]; [|reflexivity]. simpl. exact (F_engine_not_active _ _ _ He H).
Qed.

Section CmdFrame.
Variable ev : string -> dict -> evalres.

Lemma rx_fr : forall A (m : M A), vpres Rfr m -> vpres RX m.
Proof. intros A m H c c' a E. apply RX_Rfr. exact (H _ _ _ E). Qed.

Lemma rx_wf_task_event : forall t route st, vpres RX (wf_task_event_M t route st).
Proof.
  intros t route st c c' a H. unfold wf_task_event_M in H.
  destruct (wf_process_task_event (c_graph c) (c_ws c) t route st) as [[new unr]|e]; inversion H; subst.
  apply RX_same; reflexivity.
Qed.

Lemma rx_add_task_state : forall t rt ins prev c c' idx,
  add_task_state ev t rt ins prev c = (c', Val idx) -> RX c c' /\ ws_task_idx (c_ws c') t rt = Some idx.
Proof.
  intros t rt ins prev c c' idx H. destruct (add_task_state_eff ev _ _ _ _ _ _ _ H) as [cm [retry [L [-> [-> _]]]]].
  split; [|unfold ws_task_idx; simpl; apply aget_aset_same_tkey].
  eapply RX_trans; [apply RX_Rlt; exact L|apply RX_new_rec].
Qed.

Lemma rx_sel1 : forall t route s0 e0 c c1 idx1,
  (forall s, s0 = Some s -> s_route s = route) -> e0 = ws_task_idx (c_ws c) t route ->
  uts_sel1 ev t s0 e0 c = (c1, Val idx1) -> RX c c1 /\ ws_task_idx (c_ws c1) t route = Some idx1.
Proof.
  intros t route s0 e0 c c1 idx1 Hr He H. unfold uts_sel1 in H.
  assert (Add : (s <- uts_need_staged s0 ;; add_task_state ev t (s_route s) (s_in s) (s_prev s)) c = (c1, Val idx1) ->
                RX c c1 /\ ws_task_idx (c_ws c1) t route = Some idx1).
  { intro X. apply bind_val_inv' in X. destruct X as [c0 [s [E0 X]]]. destruct s0 as [s'|]; [|inversion E0].
    inversion E0; subst c0 s'. rewrite (Hr s eq_refl) in X. eapply rx_add_task_state; eassumption. }
  destruct e0 as [i|]; [|apply Add; exact H].
  destruct (is_engine_command t); [apply Add; exact H|]. inversion H; subst c1 idx1. split; [apply RX_refl|auto].
Qed.

Lemma rx_sel2 : forall t route evt s0 r1 idx1 c c2 idx,
  (forall s, s0 = Some s -> s_route s = route) -> ws_task_idx (c_ws c) t route = Some idx1 ->
  uts_sel2 ev t evt s0 r1 idx1 c = (c2, Val idx) -> RX c c2 /\ ws_task_idx (c_ws c2) t route = Some idx.
Proof.
  intros t route evt s0 r1 idx1 c c2 idx Hr He H. unfold uts_sel2 in H.
  destruct (_ && _ && _).
  - apply bind_val_inv' in H. destruct H as [c0 [s [E0 X]]]. destruct s0 as [s'|]; [|inversion E0].
    inversion E0; subst c0 s'. rewrite (Hr s eq_refl) in X. eapply rx_add_task_state; eassumption.
  - inversion H; subst c2 idx. split; [apply RX_refl|exact He].
Qed.

Lemma rx_setst : forall idx ns c c' r, nth_error (sequence (c_ws c)) idx = Some r ->
  (is_engine_command (r_id r) = true -> ostatus_in ns ACTIVE_STATUSES = false) ->
  uts_setst idx ns c = (c', Val tt) -> RX c c'.
Proof.
  intros idx ns c c' r Hr Hk H. unfold uts_setst in H. destruct ns as [s|]; [|inversion H; apply RX_refl].
  unfold set_rec_status, modws in H. inversion H; subst c'. eapply RX_set_status; eassumption.
Qed.

Section WithRec.
Variable rec : string -> nat -> event -> M unit.
Hypothesis Hrec : forall t r e, (is_engine_command t = true -> ecalm e) -> vpres RX (rec t r e).

Lemma rx_tail : forall t route ts idx o n compl, vpres RX (uts_tail ev rec t route ts idx o n compl).
Proof.
  intros t route ts idx o n compl. unfold uts_tail.
  assert (G : vpres RX
            (queue <- uts_queue ev t route idx ts o n compl ;;
             r <- get_rec idx ;;
             st <- match r_status r with Some s => ret s | None => raise (exn_key "status") end ;;
             unreachable <- wf_task_event_M t route st ;;
             log_unreachable unreachable ;;;
             forM_ queue (uts_call rec) ;;;
             (w <- getws ;; (if status_in (wstatus w) COMPLETED_STATUSES then upd_rec idx (fun r0 => r_set_term r0 true) else ret tt)))).
  { apply (vp_bind _ RX_trans); [apply rx_fr; apply vfr_queue|intro queue].
    apply (vp_bind _ RX_trans); [apply rx_fr; apply vfr_get_rec|intro r].
    apply (vp_bind _ RX_trans); [destruct (r_status r); [apply (vp_ret _ RX_refl)|apply vp_raise]|intro st].
    apply (vp_bind _ RX_trans); [apply rx_wf_task_event|intro unr].
    apply (vp_bind _ RX_trans); [apply rx_fr; apply vfr_log_unreachable|intros _].
    apply (vp_bind _ RX_trans).
    - apply (vp_forM _ RX_refl RX_trans). intros [nn rt]. unfold uts_call.
      destruct (engine_event nn) as [e|] eqn:E; [|apply vp_raise].
      apply Hrec. intros _. eapply engine_event_ecalm; exact E.
    - intros _. apply (vp_bind _ RX_trans); [apply (vp_getws _ RX_refl)|intro w].
      destruct (status_in (wstatus w) COMPLETED_STATUSES); [apply rx_fr; apply vfr_upd_rec; intro; reflexivity|apply (vp_ret _ RX_refl)]. }
  destruct compl as [[ctx [|]]|]; [|exact G|exact G].
  apply Hrec. intros _. reflexivity.
Qed.

Lemma rx_machine : forall t route evt ts idx c c', (is_engine_command t = true -> ecalm evt) ->
  ws_task_idx (c_ws c) t route = Some idx ->
  uts_machine ev rec t route evt ts idx c = (c', Val tt) -> RX c c'.
Proof.
  intros t route evt ts idx c c' Hk Hp H Ia Pa Xa. unfold uts_machine in H.
  apply bind_val_inv' in H. destruct H as [c0 [r [E0 H]]]. apply get_rec_inv in E0. destruct E0 as [-> Hr].
  apply bind_val_inv' in H. destruct H as [c0 [w [E0 H]]]. inversion E0; subst c0 w; clear E0.
  apply bind_val_inv' in H. destruct H as [c0 [ns [E0 H]]].
  assert (Ens : task_process_event (c_ws c) r evt = Val ns /\ c0 = c)
    by (destruct (task_process_event (c_ws c) r evt); inversion E0; auto). destruct Ens as [Ens ->].
  apply bind_val_inv' in H. destruct H as [c1 [[] [E1 H]]].
  assert (Hid : r_id r = t).
  { destruct (Pa t route idx Hp) as [rec0 [A B]]. rewrite Hr in A. inversion A; subst rec0. unfold key_of in B. congruence. }
  assert (S1 : RX c c1).
  { refine (rx_setst idx ns _ _ r Hr _ E1). rewrite Hid. intro Hc. exact (ecalm_inactive _ _ _ _ (Hk Hc) Ens). }
  apply bind_val_inv' in H. destruct H as [c2 [r' [E2 H]]]. apply get_rec_inv in E2. destruct E2 as [-> Hr'].
  apply bind_val_inv' in H. destruct H as [c3 [[] [E3 H]]].
  pose proof (rx_fr _ _ (vfr_retrying t route idx r' (rstatus r')) _ _ _ E3) as S3.
  apply bind_val_inv' in H. destruct H as [c4 [compl [E4 H]]].
  pose proof (rx_fr _ _ (vfr_completion ev t route evt ts idx (rstatus r') (rstatus r)) _ _ _ E4) as S4.
  pose proof (rx_tail _ _ _ _ _ _ _ _ _ _ H) as S5.
  exact (RX_trans _ _ _ (RX_trans _ _ _ (RX_trans _ _ _ S1 S3) S4) S5 Ia Pa Xa).
Qed.

Lemma rx_body : forall t route evt, (is_engine_command t = true -> ecalm evt) -> vpres RX (uts_body ev rec t route evt).
Proof.
  intros t route evt Hk c c' a H Ia Pa Xa. unfold uts_body in H.
  unfold bind at 1 in H. rewrite (ensure_ws_inited ev c Ia) in H.
  unfold bind at 1 in H. unfold get at 1 in H.
  destruct (negb (g_has_task (c_graph c) t)); [inversion H|]. cbv zeta in H.
  apply bind_val_inv' in H. destruct H as [c0 [ts [E0 H]]].
  assert (c0 = c) by (destruct (spec_get_task (c_spec c) t); inversion E0; reflexivity). subst c0.
  assert (Hroute : forall s, get_staged_task (c_ws c) t route = Some s -> s_route s = route).
  { intros s Hs. apply get_staged_matches in Hs. apply Hs. }
  assert (Main : uts_main ev rec t route evt ts (get_staged_task (c_ws c) t route) (ws_task_idx (c_ws c) t route) c = (c', Val a) ->
                 c_init c' = true /\ P_ok c' /\ XC c').
  { clear H. intro H. unfold uts_main in H.
    apply bind_val_inv' in H. destruct H as [c1 [idx1 [E1 H]]].
    destruct (rx_sel1 _ _ _ _ _ _ _ Hroute eq_refl E1) as [S1 P1].
    apply bind_val_inv' in H. destruct H as [c0 [r1 [E0' H]]]. apply get_rec_inv in E0'. destruct E0' as [-> Hr1].
    apply bind_val_inv' in H. destruct H as [c2 [idx [E2 H]]].
    destruct (rx_sel2 _ _ _ _ _ _ _ _ _ Hroute P1 E2) as [S2 P2].
    apply bind_val_inv' in H. destruct H as [c3 [[] [E3 H]]].
    pose proof (vfr_unstage _ _ _ _ _ _ _ E3) as F3.
    apply bind_val_inv' in H. destruct H as [c4 [[] [E4 H]]].
    pose proof (vfr_item _ _ _ _ _ _ _ E4) as F4.
    apply bind_val_inv' in H. destruct H as [c5 [[] [E5 H]]].
    pose proof (vfr_logfail _ _ _ _ _ E5) as F5.
    pose proof (Rfr_trans _ _ _ (Rfr_trans _ _ _ F3 F4) F5) as F.
    assert (P5 : ws_task_idx (c_ws c5) t route = Some idx).
    { unfold ws_task_idx in *. destruct F as [T _]. rewrite T. exact P2. }
    destruct a. pose proof (rx_machine _ _ _ _ _ _ _ Hk P5 H) as S6.
    exact (RX_trans _ _ _ (RX_trans _ _ _ (RX_trans _ _ _ S1 S2) (RX_Rfr _ _ F)) S6 Ia Pa Xa). }
  destruct (get_staged_task (c_ws c) t route) as [s0|] eqn:Es, (ws_task_idx (c_ws c) t route) as [e0|] eqn:Ee;
    try (apply Main; exact H). inversion H.
Qed.

End WithRec.

Lemma rx_fuel : forall fuel t route evt, (is_engine_command t = true -> ecalm evt) ->
  vpres RX (update_task_state_fuel ev fuel t route evt).
Proof.
  induction fuel as [|fuel IH]; intros t route evt Hk; [apply vp_raise|]. rewrite uts_unfold.
  apply rx_body; [|exact Hk]. intros t' r' e He. apply IH. exact He.
Qed.

End CmdFrame.

(* ================================================================== B. what a status request does to each task record *)

(* the record was given the request: its status afterwards is what the task machine answers in the staging of [c] *)
Definition told (st : status) (c : cstate) (r r' : trec) : Prop :=
  exists w r1 ns, staged w = staged (c_ws c) /\ key_of r1 = key_of r /\ r_status r1 = r_status r /\
    task_process_event w r1 (EvWorkflow st) = Val ns /\ r_status r' = r_status (stepped r1 ns).

Definition same_frame (c c' : cstate) : Prop :=
  staged (c_ws c') = staged (c_ws c) /\ tasks (c_ws c') = tasks (c_ws c) /\ c_init c' = c_init c.

Lemma ws_update_rec_staged : forall w i f, staged (ws_update_rec w i f) = staged w.
Proof. intros; unfold ws_update_rec; destruct (nth_error (sequence w) i); reflexivity. Qed.

Lemma nth_update_rec : forall w i f j, nth_error (sequence (ws_update_rec w i f)) j =
  if Nat.eqb j i then option_map f (nth_error (sequence w) i) else nth_error (sequence w) j.
Proof.
  intros w i f j. unfold ws_update_rec. destruct (nth_error (sequence w) i) as [r|] eqn:Hr; simpl.
  - destruct (Nat.eqb j i) eqn:E.
    + apply Nat.eqb_eq in E. subst j. eapply nth_error_set_nth_same; exact Hr.
    + apply Nat.eqb_neq in E. apply nth_error_set_nth_other. congruence.
  - destruct (Nat.eqb j i) eqn:E; [apply Nat.eqb_eq in E; subst j; exact Hr|reflexivity].
Qed.

Lemma length_update_rec : forall w i f, length (sequence (ws_update_rec w i f)) = length (sequence w).
Proof. intros w i f. unfold ws_update_rec. destruct (nth_error (sequence w) i); [simpl; apply length_set_nth|reflexivity]. Qed.

Lemma rq_body1_inv : forall st i r0 c c0, rq_body1 st (i, r0) c = (c0, Val tt) ->
  (c0 = c /\ (nth_error (sequence (c_ws c)) i = None \/
              exists r, nth_error (sequence (c_ws c)) i = Some r /\ task_process_event (c_ws c) r (EvWorkflow st) = Val None)) \/
  (exists r s, nth_error (sequence (c_ws c)) i = Some r /\ task_process_event (c_ws c) r (EvWorkflow st) = Val (Some s) /\
               c0 = set_ws c (ws_update_rec (c_ws c) i (fun r1 => r_set_status r1 (Some s)))).
Proof.
  intros st i r0 c c0 H. unfold rq_body1 in H. unfold bind at 1 in H. unfold getws at 1 in H.
  destruct (nth_error (sequence (c_ws c)) i) as [r|] eqn:Hr; [|inversion H; left; auto].
  unfold bind in H. destruct (task_process_event (c_ws c) r (EvWorkflow st)) as [[s|]|e] eqn:Ens; simpl in H.
  - right. exists r, s. unfold set_rec_status, modws in H. inversion H. auto.
  - inversion H; subst c0. left. split; [reflexivity|right; exists r; split; [reflexivity|exact Ens]].
  - inversion H.
Qed.

Lemma rq_loop1_char : forall st (l : list (nat * trec)) c c1, NoDup (map fst l) ->
  forM_ l (rq_body1 st) c = (c1, Val tt) ->
  same_frame c c1 /\ wstatus (c_ws c1) = wstatus (c_ws c) /\
  forall i r, nth_error (sequence (c_ws c)) i = Some r ->
    exists r', nth_error (sequence (c_ws c1)) i = Some r' /\ key_of r' = key_of r /\
               (~ In i (map fst l) -> r' = r) /\ (In i (map fst l) -> told st c r r').
Proof.
  intros st. induction l as [|[i0 r0] l IH]; intros c c1 Hnd H; cbn [forM_] in H.
  { unfold ret in H. inversion H; subst c1. split; [repeat split|]. split; [reflexivity|]. intros i r E. exists r. split; [exact E|]. split; [reflexivity|].
    split; [auto|intros []]. }
  inversion Hnd as [|x xs Hx Hnd']; subst.
  apply bind_val_inv' in H. destruct H as [c0 [[] [E0 H]]].
  destruct (IH c0 c1 Hnd' H) as [[S1 [T1 I1]] [W1 R1]].
  assert (Step : same_frame c c0 /\ wstatus (c_ws c0) = wstatus (c_ws c) /\
            forall i r, nth_error (sequence (c_ws c)) i = Some r ->
              (i <> i0 -> nth_error (sequence (c_ws c0)) i = Some r) /\
              (i = i0 -> exists r', nth_error (sequence (c_ws c0)) i = Some r' /\ key_of r' = key_of r /\ told st c r r')).
  { destruct (rq_body1_inv _ _ _ _ _ E0) as [[-> Hc]|[r [s [Hr [Ens ->]]]]].
    - split; [repeat split|]. split; [reflexivity|]. intros i r E. split; [auto|]. intros ->. exists r. split; [exact E|]. split; [reflexivity|].
      destruct Hc as [Hc|[r2 [Hr2 Ens]]]; [congruence|]. rewrite E in Hr2. inversion Hr2; subst r2.
      exists (c_ws c), r, None. repeat split; auto.
    - split; [split; [simpl; apply ws_update_rec_staged|split; [simpl; apply tasks_update_rec|reflexivity]]|].
      split; [simpl; apply wstatus_update_rec|]. intros i r2 E. simpl. rewrite nth_update_rec. split.
      + intro Hne. apply Nat.eqb_neq in Hne. rewrite Hne. exact E.
      + intros ->. rewrite Nat.eqb_refl, Hr. simpl. rewrite E in Hr. inversion Hr; subst r2.
        eexists. split; [reflexivity|]. split; [destruct r; reflexivity|]. exists (c_ws c), r, (Some s). repeat split; auto. }
  destruct Step as [[S0 [T0 I0]] [W0 R0]].
  split; [split; [congruence|split; congruence]|]. split; [congruence|].
  intros i r E. destruct (Nat.eq_dec i i0) as [->|Hne].
  - destruct (proj2 (R0 i0 r E) eq_refl) as [r' [E' [K' Tl]]].
    destruct (R1 i0 r' E') as [r'' [E'' [K'' [Same _]]]]. rewrite (Same Hx) in E''.
    exists r'. split; [exact E''|]. split; [exact K'|]. split; [intro X; exfalso; apply X; left; reflexivity|intros _; exact Tl].
  - pose proof (proj1 (R0 i r E) Hne) as E'. destruct (R1 i r E') as [r'' [E'' [K'' [Same Tl]]]].
    exists r''. split; [exact E''|]. split; [exact K''|]. split.
    + intro X. apply Same. intro Y. apply X. right. exact Y.
    + intros [X|X]; [simpl in X; congruence|]. destruct (Tl X) as [w [r1 [ns [A [B [C [D F]]]]]]].
      exists w, r1, ns. split; [congruence|auto].
Qed.

Lemma rq_restore_char : forall (l : list (nat * trec)) c, NoDup (map fst l) ->
  exists c', forM_ l (fun '(i, r) => set_rec_status i (r_status r)) c = (c', Val tt) /\
    same_frame c c' /\ wstatus (c_ws c') = wstatus (c_ws c) /\
    length (sequence (c_ws c')) = length (sequence (c_ws c)) /\
    forall i r, nth_error (sequence (c_ws c)) i = Some r ->
      exists r', nth_error (sequence (c_ws c')) i = Some r' /\ key_of r' = key_of r /\
                 (~ In i (map fst l) -> r' = r) /\ (forall r0, In (i, r0) l -> r_status r' = r_status r0).
Proof.
  induction l as [|[i0 r0] l IH]; intros c Hnd; simpl.
  { exists c. split; [reflexivity|]. split; [repeat split|]. split; [reflexivity|]. split; [reflexivity|]. intros i r E. exists r. split; [exact E|]. split; [reflexivity|].
    split; [auto|intros ? []]. }
  inversion Hnd as [|x xs Hx Hnd']; subst.
  set (c0 := set_ws c (ws_update_rec (c_ws c) i0 (fun r1 => r_set_status r1 (r_status r0)))).
  destruct (IH c0 Hnd') as [c' [E [[S1 [T1 I1]] [W1 [L1 R1]]]]].
  exists c'. unfold bind, set_rec_status, modws. fold c0. split; [exact E|].
  split; [split; [rewrite S1; unfold c0; simpl; apply ws_update_rec_staged|split; [rewrite T1; unfold c0; simpl; apply tasks_update_rec|rewrite I1; reflexivity]]|].
  split; [rewrite W1; unfold c0; simpl; apply wstatus_update_rec|].
  split; [rewrite L1; unfold c0; simpl; apply length_update_rec|].
  intros i r Er. destruct (Nat.eq_dec i i0) as [->|Hne].
  - assert (E0 : nth_error (sequence (c_ws c0)) i0 = Some (r_set_status r (r_status r0))).
    { unfold c0. simpl. rewrite nth_update_rec, Nat.eqb_refl, Er. reflexivity. }
    destruct (R1 i0 _ E0) as [r' [E' [K' [Same _]]]]. rewrite (Same Hx) in E'. eexists. split; [exact E'|].
    split; [destruct r; reflexivity|]. split; [intro X; exfalso; apply X; left; reflexivity|].
    intros r2 [X|X]; [inversion X; subst; reflexivity|]. exfalso. apply Hx. apply in_map_iff. exists (i0, r2). auto.
  - assert (E0 : nth_error (sequence (c_ws c0)) i = Some r).
    { unfold c0. simpl. rewrite nth_update_rec. apply Nat.eqb_neq in Hne. rewrite Hne. exact Er. }
    destruct (R1 i r E0) as [r' [E' [K' [Same Rs]]]]. exists r'. split; [exact E'|]. split; [exact K'|]. split.
    + intro X. apply Same. intro Y. apply X. right. exact Y.
    + intros r2 [X|X]; [inversion X; congruence|exact (Rs r2 X)].
Qed.

Lemma F_req_held_pc : forall s st a d, status_in st request_statuses_f = true ->
  In (step_or_stay s (request_event_name_of st a d)) [S_PAUSING; S_CANCELING] ->
  status_in st (app PAUSE_STATUSES CANCEL_STATUSES) = true \/ (step_or_stay s (request_event_name_of st a d) = s /\ st <> s).
Proof.
  intros s st a d Hst.
  assert (T : forallb (fun s => forallb (fun st => forallb (fun a => forallb (fun d =>
      negb (status_in st request_statuses_f)
      || (let n := step_or_stay s (request_event_name_of st a d) in
          negb (status_in n [S_PAUSING; S_CANCELING]) || status_in st (app PAUSE_STATUSES CANCEL_STATUSES)
          || (status_eqb n s && negb (status_eqb st s))))
      [true; false]) [true; false]) all_statuses) all_statuses = true) by (vm_compute; reflexivity).
  rewrite forallb_forall in T. specialize (T s (all_statuses_complete s)).
  rewrite forallb_forall in T. specialize (T st (all_statuses_complete st)).
  rewrite forallb_forall in T. specialize (T a (ltac:(destruct a; simpl; auto))).
  rewrite forallb_forall in T. specialize (T d (ltac:(destruct d; simpl; auto))).
  rewrite Hst in T. cbn [negb orb] in T. cbv zeta in T. intro Hin.
  assert (Hn : status_in (step_or_stay s (request_event_name_of st a d)) [S_PAUSING; S_CANCELING] = true).
  { destruct Hin as [<-|[<-|[]]]; reflexivity. }
  rewrite Hn in T. cbn [negb orb] in T. apply orb_prop in T. destruct T as [T|T]; [left; exact T|right].
  apply andb_prop in T. destruct T as [A B]. apply status_eqb_eq in A. split; [exact A|].
  intro X. rewrite X, status_eqb_refl in B. discriminate B.
Qed.

(* the records a status request addresses: active, and pointed to by the task map *)
Definition tact (c : cstate) (i : nat) (r : trec) : bool := ostatus_in (r_status r) ACTIVE_STATUSES && ws_pointed (c_ws c) i.

Section RequestChar.
Variable ev : string -> dict -> evalres.

(* a status request: either every record has its status back and the workflow status is unchanged (the request was
   refused), or every active record was given the request once and the others are untouched -- and then the workflow
   reports pausing / canceling only after a pause / cancel request *)
Lemma rq_char : forall st c c' x, request_status_core st c = (c', x) -> status_in st request_statuses_f = true -> NB c ->
  same_frame c c' /\ length (sequence (c_ws c')) = length (sequence (c_ws c)) /\
  ((wstatus (c_ws c') = wstatus (c_ws c) /\
    forall i r, nth_error (sequence (c_ws c)) i = Some r ->
      exists r', nth_error (sequence (c_ws c')) i = Some r' /\ key_of r' = key_of r /\ r_status r' = r_status r) \/
   ((In (wstatus (c_ws c')) HELD2 -> status_in st (app PAUSE_STATUSES CANCEL_STATUSES) = true) /\
    forall i r, nth_error (sequence (c_ws c)) i = Some r ->
      exists r', nth_error (sequence (c_ws c')) i = Some r' /\ key_of r' = key_of r /\
        (tact c i r = false -> r' = r) /\
        (tact c i r = true -> told st c r r'))).
Proof.
  intros st c c' x H Hst N.
  unfold request_status_core in H. unfold bind at 1 in H. unfold getws at 1 in H. cbv zeta in H.
  set (active := ws_tasks_by_status (c_ws c) ACTIVE_STATUSES) in *. fold (rq_body1 st) in H.
  destruct (rq_loop1_val st active c Hst N) as [c1 [E1 [W1 [T1 [L1 N1]]]]].
  destruct (rq_loop1_char st active c c1 (tasks_by_status_NoDup _ _) E1) as [[Sg1 [_ I1]] [_ R1]].
  unfold bind at 1 in H. rewrite E1 in H.
  assert (InAct : forall i r, nth_error (sequence (c_ws c)) i = Some r ->
            (tact c i r = true -> In i (map fst active)) /\
            (tact c i r = false -> ~ In i (map fst active))).
  { intros i r E. split.
    - intro Ha. apply in_map_iff. exists (i, r). split; [reflexivity|]. unfold active, ws_tasks_by_status. apply filter_In.
      split; [unfold enumerate; exact (In_enumerate_from_nth _ _ 0 i r E)|exact Ha].
    - intros Ha X. apply in_map_iff in X. destruct X as [[j r2] [Ej X]]. simpl in Ej. subst j.
      unfold active, ws_tasks_by_status in X. apply filter_In in X. destruct X as [X1 X2].
      assert (A : nth_error (sequence (c_ws c)) i = Some r2) by (destruct (tasks_by_status_In _ _ _ _ (proj2 (filter_In _ _ _) (conj X1 X2))); assumption).
      rewrite E in A. inversion A; subst r2. unfold tact in Ha. cbv beta iota in X2. congruence. }
  assert (Told1 : forall i r, nth_error (sequence (c_ws c)) i = Some r ->
      exists r', nth_error (sequence (c_ws c1)) i = Some r' /\ key_of r' = key_of r /\
        (tact c i r = false -> r' = r) /\
        (tact c i r = true -> told st c r r')).
  { intros i r E. destruct (R1 i r E) as [r' [E' [K' [Same Tl]]]]. exists r'. split; [exact E'|]. split; [exact K'|].
    destruct (InAct i r E) as [A B]. split; [intro X; exact (Same (B X))|intro X; exact (Tl (A X))]. }
  destruct (bind_inv _ _ _ _ _ _ _ H) as [[c2 [unr [E2 X2]]]|[e [E2 _]]].
  2: { (* the workflow machine refused the event: the records were given the request *)
       unfold wf_workflow_event_M in E2.
       destruct (wf_process_workflow_event (c_graph c1) (c_ws c1) st) as [[? ?]|?] eqn:Ew; inversion E2; subst c'.
       split; [split; [exact Sg1|split; [exact T1|exact I1]]|]. split; [exact L1|]. right. split; [|exact Told1].
       intro Hheld. exfalso. unfold wf_process_workflow_event in Ew. rewrite wf_workflow_event_name_eq in Ew.
       rewrite F_req_event_valid in Ew; [|exact Hst|intro Hd; apply andb_prop in Hd; destruct Hd as [Hd _]; apply andb_prop in Hd; destruct Hd as [Hd _];
                                              apply andb_prop in Hd; destruct Hd as [Hd _]; apply andb_prop in Hd; destruct Hd as [_ Hd]; exact Hd].
       cbn [negb] in Ew. destruct (tbl_row wf_table (wstatus (c_ws c1))) eqn:Er; [|exact (F_wf_row_held _ Hheld Er)].
       destruct (aget String.eqb _ l); [|discriminate Ew]. match type of Ew with (if ?b then _ else _) = _ => destruct b end; discriminate Ew. }
  destruct (wf_workflow_event_eff _ _ _ _ E2) as [n [-> Hn]].
  set (c2 := set_ws c1 (ws_set_status (c_ws c1) n)) in *.
  destruct (log_unreachable_run unr c2) as [c3 [E3 W3]].
  unfold bind at 1 in X2. rewrite E3 in X2. unfold bind at 1 in X2. unfold getws at 1 in X2. rewrite W3 in X2.
  change (wstatus (c_ws c2)) with n in X2.
  assert (F3 : same_frame c c3).
  { unfold same_frame. rewrite W3. unfold c2. simpl. split; [exact Sg1|]. split; [exact T1|].
    destruct (fr_log_unreachable _ _ _ _ E3) as [_ [_ [_ [_ [_ Xi]]]]]. rewrite Xi. unfold c2. simpl. exact I1. }
  assert (Told3 : forall i r, nth_error (sequence (c_ws c)) i = Some r ->
      exists r', nth_error (sequence (c_ws c3)) i = Some r' /\ key_of r' = key_of r /\
        (tact c i r = false -> r' = r) /\
        (tact c i r = true -> told st c r r')).
  { intros i r E. rewrite W3. unfold c2. simpl. exact (Told1 i r E). }
  assert (Sweep : In n HELD2 -> status_in st (app PAUSE_STATUSES CANCEL_STATUSES) = true \/ (n = wstatus (c_ws c) /\ st <> wstatus (c_ws c))).
  { intro Hin. destruct Hn as [->|Hn]; [simpl in Hin; intuition discriminate|].
    rewrite wf_workflow_event_name_eq, W1 in Hn. rewrite Hn in Hin |- *. exact (F_req_held_pc _ _ _ _ Hst Hin). }
  assert (W3n : wstatus (c_ws c3) = n) by (rewrite W3; reflexivity).
  assert (L3 : length (sequence (c_ws c3)) = length (sequence (c_ws c))) by (rewrite W3; unfold c2; simpl; exact L1).
  destruct (status_eqb st S_PAUSED && status_eqb (wstatus (c_ws c)) S_PAUSING && status_eqb n S_PAUSING) eqn:EA1.
  { inversion X2; subst c'. split; [exact F3|]. split; [exact L3|]. right. split; [|exact Told3]. intros _.
    apply andb_prop in EA1. destruct EA1 as [EA1 _]. apply andb_prop in EA1. destruct EA1 as [A _]. apply status_eqb_eq in A. subst st. reflexivity. }
  destruct (status_eqb st S_CANCELED && status_eqb (wstatus (c_ws c)) S_CANCELING && status_eqb n S_CANCELING) eqn:EA2.
  { inversion X2; subst c'. split; [exact F3|]. split; [exact L3|]. right. split; [|exact Told3]. intros _.
    apply andb_prop in EA2. destruct EA2 as [EA2 _]. apply andb_prop in EA2. destruct EA2 as [A _]. apply status_eqb_eq in A. subst st. reflexivity. }
  destruct (negb (status_eqb st (wstatus (c_ws c))) && status_eqb (wstatus (c_ws c)) n) eqn:EA3.
  - (* refused: the snapshot is restored *)
    apply andb_prop in EA3. destruct EA3 as [_ EA3]. apply status_eqb_eq in EA3.
    destruct (rq_restore_char active c3 (tasks_by_status_NoDup _ _)) as [c4 [E4 [[S4 [T4 I4]] [W4 [L4 R4]]]]].
    unfold bind at 1 in X2. rewrite E4 in X2. unfold raise in X2. inversion X2; subst c'.
    destruct F3 as [S3 [T3 I3]]. split; [split; [congruence|split; congruence]|]. split; [congruence|]. left.
    split; [rewrite W4, W3n; symmetry; exact EA3|].
    intros i r E. destruct (Told3 i r E) as [r3 [E3' [K3 [Same3 _]]]].
    destruct (R4 i r3 E3') as [r4 [E4' [K4 [Same4 Rs4]]]]. exists r4. split; [exact E4'|]. split; [congruence|].
    destruct (tact c i r) eqn:Ha.
    + apply Rs4. unfold active, ws_tasks_by_status. apply filter_In.
      split; [unfold enumerate; exact (In_enumerate_from_nth _ _ 0 i r E)|exact Ha].
    + rewrite (Same4 (proj2 (InAct i r E) Ha)), (Same3 eq_refl). reflexivity.
  - inversion X2; subst c'. split; [exact F3|]. split; [exact L3|]. right. split; [|exact Told3]. rewrite W3n. intro Hin.
    destruct (Sweep Hin) as [A|[A B]]; [exact A|]. exfalso.
    assert (X : negb (status_eqb st (wstatus (c_ws c))) && status_eqb (wstatus (c_ws c)) n = true).
    { rewrite A, status_eqb_refl, andb_true_r. apply negb_true_iff. destruct (status_eqb st (wstatus (c_ws c))) eqn:E; [|reflexivity].
      apply status_eqb_eq in E. contradiction. }
    congruence.
Qed.

End RequestChar.

(* ================================================================== C. the backward link *)

(* what stands behind an active record of the key k: an action of the task in flight, or -- nothing of it in flight --
   the record is running and its item table has an item never offered *)
Definition Good (c : cstate) (F : list ikey) (k : tkey) (rec : trec) : Prop :=
  (exists it, In (k, it) F) \/
  (exists l, items_of c (fst k) (snd k) = Some l /\ r_status rec = Some S_RUNNING /\ has_open l = true).
Definition BLx (P : tkey -> Prop) (c : cstate) (F : list ikey) : Prop :=
  forall t r idx rec, P (t, r) -> is_engine_command t = false ->
    ws_task_idx (c_ws c) t r = Some idx -> nth_error (sequence (c_ws c)) idx = Some rec ->
    ostatus_in (r_status rec) ACTIVE_STATUSES = true -> Good c F (t, r) rec.
Definition BL (c : cstate) (F : list ikey) : Prop := BLx (fun _ => True) c F.

Lemma has_open_nonempty : forall l, has_open l = true -> exists x xs, l = x :: xs.
Proof. intros [|x xs] H; [discriminate H|exists x, xs; reflexivity]. Qed.

Section Backward.
Variable ev : string -> dict -> evalres.

Lemma xc_event : forall t0 r0 e c c', update_task_state ev t0 r0 e c = (c', Val tt) -> is_engine_command t0 = false ->
  c_init c = true -> P_ok c -> XC c -> XC c'.
Proof.
  intros t0 r0 e c c' H Hc Ia Pa Xa. unfold update_task_state in H.
  refine (proj2 (proj2 (rx_fuel ev _ t0 r0 e _ _ _ _ H Ia Pa Xa))). intro X. congruence.
Qed.

(* a call for the key (t0, r0): the backward link of the other keys *)
Lemma bl_other : forall t0 r0 e c c' F F', update_task_state ev t0 r0 e c = (c', Val tt) ->
  c_init c = true -> P_ok c ->
  (forall t r l, (t, r) <> (t0, r0) -> items_of c t r = Some l -> has_open l = true -> items_of c' t r = Some l) ->
  (forall k, In k F -> fst k <> (t0, r0) -> In k F') ->
  BLx (fun k => k <> (t0, r0)) c F -> BLx (fun k => k <> (t0, r0)) c' F'.
Proof.
  intros t0 r0 e c c' F F' H Ia Pa Htab HF B t r idx rec' Hne Hcmd Hp' Hr' Hact.
  destruct (rk_update_task_state ev _ _ _ _ _ H Ia Pa) as [_ [_ [A1 A2]]].
  assert (Hk : ~ Kown (t0, r0) (t, r)).
  { intros [X|X]; [exact (Hne X)|]. unfold Kcmd in X. simpl in X. congruence. }
  rewrite (A2 t r Hk) in Hp'. destruct (Pa t r idx Hp') as [rec [Hr Hkey]].
  destruct (A1 idx rec Hr) as [rec2 [E2 [_ S]]]. rewrite Hr' in E2. inversion E2; subst rec2.
  assert (Hs : r_status rec' = r_status rec) by (destruct S as [S|S]; [exact S|rewrite Hkey in S; contradiction]).
  rewrite Hs in Hact. destruct (B t r idx rec Hne Hcmd Hp' Hr Hact) as [[it Hin]|[l [Hl [Hrun Hop]]]].
  - left. exists it. apply HF; [exact Hin|exact Hne].
  - right. exists l. simpl in *. split; [apply Htab; assumption|]. split; [congruence|exact Hop].
Qed.

Lemma BLx_split : forall c F k0, BLx (fun k => k <> k0) c F ->
  (forall idx rec, is_engine_command (fst k0) = false -> ws_task_idx (c_ws c) (fst k0) (snd k0) = Some idx ->
     nth_error (sequence (c_ws c)) idx = Some rec -> ostatus_in (r_status rec) ACTIVE_STATUSES = true -> Good c F k0 rec) ->
  BL c F.
Proof.
  intros c F [t0 r0] B O t r idx rec _ Hcmd Hp Hr Ha. destruct (tkey_dec (t, r) (t0, r0)) as [E|Hne].
  - inversion E; subst t r. exact (O idx rec Hcmd Hp Hr Ha).
  - exact (B t r idx rec Hne Hcmd Hp Hr Ha).
Qed.
Lemma BL_BLx : forall c F P, BL c F -> BLx P c F.
Proof. intros c F P B t r idx rec _. exact (B t r idx rec Logic.I). Qed.

(* what the acknowledgement loops carry *)
Definition NC (F : list ikey) : Prop := forall t r it, In (t, r, it) F -> is_engine_command t = false.
Definition SK (s : isys) : Prop :=
  (c_init (si_c s) = true /\ P_ok (si_c s) /\ XC (si_c s) /\ NB (si_c s) /\ BL (si_c s) (si_inflight s)) /\ NC (si_inflight s).
Lemma NC_add : forall F t r it, NC F -> is_engine_command t = false -> NC (ikey_add (t, r, it) F).
Proof. intros F t r it N Hc t' r' it' H. apply In_ikey_add in H. destruct H as [H|H]; [inversion H; subst; exact Hc|exact (N t' r' it' H)]. Qed.

(* an event whose own key has an action in flight afterwards *)
Lemma sk_event_flight : forall s t r e it F F',
  ibad (isys_event ev s t r e) = false -> is_engine_command t = false -> nbad e ->
  c_init (si_c s) = true -> P_ok (si_c s) -> XC (si_c s) -> NB (si_c s) -> BL (si_c s) F ->
  (forall t' r' l, (t', r') <> (t, r) -> items_of (si_c s) t' r' = Some l -> items_of (si_c (isys_event ev s t r e)) t' r' = Some l) ->
  (forall k, In k F -> fst k <> (t, r) -> In k F') -> In (t, r, it) F' ->
  c_init (si_c (isys_event ev s t r e)) = true /\ P_ok (si_c (isys_event ev s t r e)) /\ XC (si_c (isys_event ev s t r e)) /\
  NB (si_c (isys_event ev s t r e)) /\ BL (si_c (isys_event ev s t r e)) F'.
Proof.
  intros s t r e it F F' Hb Hcmd Hn Ia Pa Xa Na B Htab HF Hin. pose proof (ievent_val ev s t r e Hb) as H.
  destruct (prot_ok ev _ _ _ _ _ H Ia Pa) as [Ib Pb]. split; [exact Ib|]. split; [exact Pb|].
  split; [exact (xc_event _ _ _ _ _ H Hcmd Ia Pa Xa)|]. split; [exact (nb_event ev s t r e Hn Hb Na)|].
  apply (BLx_split _ _ (t, r)).
  - refine (bl_other t r e _ _ F F' H Ia Pa _ HF (BL_BLx _ _ _ B)). intros t' r' l Hne Hl _. exact (Htab t' r' l Hne Hl).
  - intros idx rec _ _ _ _. left. exists it. exact Hin.
Qed.

Lemma sk_ack_item : forall t r s a i l,
  ilink (si_c s) (si_inflight s) -> SK s -> items_of (si_c s) t r = Some l -> a_item a = Some i -> i < length l ->
  is_engine_command t = false -> ibad (isys_ack ev t r s a) = false -> SK (isys_ack ev t r s a).
Proof.
  intros t r s a i l I [[Ia [Pa [Xa [Na B]]]] Nc] Hl Hai Hil Hcmd Hb.
  destruct (ack_item_step ev t r s a i l I Hl Hai Hil Hb) as [_ [_ [Hfw _]]].
  unfold isys_ack in *. rewrite Hai in *.
  set (s1 := with_inflight s (ikey_add (t, r, Some i) (si_inflight s))) in *.
  unfold SK. rewrite inflight_event. split; [|unfold s1; simpl; apply NC_add; assumption].
  refine (sk_event_flight s1 t r _ (Some i) (si_inflight s) _ Hb Hcmd _ Ia Pa Xa Na B Hfw _ _); [reflexivity| |].
  - intros k Hk _. unfold s1; simpl. apply In_ikey_add. right. exact Hk.
  - unfold s1; simpl. apply In_ikey_add. left. reflexivity.
Qed.

Lemma sk_ack_items_loop : forall t r acts s l,
  ilink (si_c s) (si_inflight s) -> SK s -> items_of (si_c s) t r = Some l ->
  (forall a, In a acts -> exists i, a_item a = Some i /\ i < length l) ->
  is_engine_command t = false ->
  ibad (fold_left (isys_ack ev t r) acts s) = false -> SK (fold_left (isys_ack ev t r) acts s).
Proof.
  intros t r. induction acts as [|a acts IH]; intros s l I K Hl Hacts Hcmd Hb; cbn [fold_left] in *; [exact K|].
  assert (Hb1 : ibad (isys_ack ev t r s a) = false).
  { apply (not_bad_before (fun x => fold_left (isys_ack ev t r) acts x)); [apply ibad_fold_ack_mono|exact Hb]. }
  destruct (Hacts a (or_introl eq_refl)) as [i [Hai Hil]].
  destruct (ack_item_step ev t r s a i l I Hl Hai Hil Hb1) as [I1 [Hl1 _]].
  pose proof (sk_ack_item t r s a i l I K Hl Hai Hil Hcmd Hb1) as K1.
  apply (IH _ (list_set_nth i S_RUNNING l)); try assumption.
  intros a' Ha'. destruct (Hacts a' (or_intror Ha')) as [i' [A B]]. exists i'. rewrite length_set_nth. auto.
Qed.

Lemma sk_ack_plain_loop : forall t r acts s,
  ilink (si_c s) (si_inflight s) -> SK s -> (forall a, In a acts -> a_item a = None) ->
  is_engine_command t = false ->
  ibad (fold_left (isys_ack ev t r) acts s) = false -> SK (fold_left (isys_ack ev t r) acts s).
Proof.
  intros t r. induction acts as [|a acts IH]; intros s I K Hacts Hcmd Hb; cbn [fold_left] in *; [exact K|].
  assert (Hb1 : ibad (isys_ack ev t r s a) = false).
  { apply (not_bad_before (fun x => fold_left (isys_ack ev t r) acts x)); [apply ibad_fold_ack_mono|exact Hb]. }
  destruct (ack_plain_loop ev t r [a] s I) as [I1 P1]; [intros a' [<-|[]]; apply Hacts; left; reflexivity|exact Hb1|].
  simpl in I1, P1.
  assert (K1 : SK (isys_ack ev t r s a)).
  { destruct K as [[Ia [Pa [Xa [Na B]]]] Nc]. unfold isys_ack in *. rewrite (Hacts a (or_introl eq_refl)) in *.
    set (s1 := with_inflight s (ikey_add (t, r, None) (si_inflight s))) in *.
    unfold SK. rewrite inflight_event. split; [|unfold s1; simpl; apply NC_add; assumption].
    refine (sk_event_flight s1 t r _ None (si_inflight s) _ Hb1 Hcmd _ Ia Pa Xa Na B P1 _ _); [reflexivity| |].
    - intros k Hk _. unfold s1; simpl. apply In_ikey_add. right. exact Hk.
    - unfold s1; simpl. apply In_ikey_add. left. reflexivity. }
  apply IH; [exact I1|exact K1|intros; apply Hacts; right; assumption|exact Hcmd|exact Hb].
Qed.

End Backward.

(* ================================================================== D. reports on the task's own record *)
Lemma tpe_action : forall w r st res ns, task_process_event w r (EvAction st res) = Val ns ->
  tbl_step task_table (rstatus r) (ACTION_EVENT_PREFIX ++ status_name st) = ns.
Proof.
  intros w r st res ns H. unfold task_process_event in H. destruct (negb _); [discriminate|].
  apply task_table_step_val in H. exact H.
Qed.

Lemma In_del_nth_inv : forall A (l : list A) i x, In x (list_del_nth i l) -> exists j, j <> i /\ nth_error l j = Some x.
Proof.
  induction l as [|a l IH]; intros i x H; [destruct i; destruct H|].
  destruct i; simpl in H.
  - apply In_nth_error in H. destruct H as [j Hj]. exists (S j). split; [discriminate|exact Hj].
  - destruct H as [->|H]; [exists 0; split; [discriminate|reflexivity]|].
    destruct (IH i x H) as [j [A1 A2]]. exists (S j). split; [congruence|exact A2].
Qed.

Lemma In_del_nth_In : forall A (l : list A) i x, In x (list_del_nth i l) -> In x l.
Proof. intros A l i x H. destruct (In_del_nth_inv _ _ _ _ H) as [j [_ E]]. eapply nth_error_In; exact E. Qed.

Section OwnReports.
Variable ev : string -> dict -> evalres.

(* own_final for an item event, with the staging afterwards when the task goes on *)
Lemma own_item_final : forall f t r i st res acc c c' s0 l,
  uts_body ev (update_task_state_fuel ev (S f)) t r (EvItem i st res acc) c = (c', Val tt) -> c_init c = true -> P_ok c ->
  is_engine_command t = false ->
  get_staged_task (c_ws c) t r = Some s0 -> s_items s0 = Some l -> i < length l ->
  exists idx rr ns w3 idx' r',
    key_of rr = (t, r) /\
    ((r_status rr = None /\
      (ws_task_idx (c_ws c) t r = None \/
       exists idx0 r0, ws_task_idx (c_ws c) t r = Some idx0 /\ nth_error (sequence (c_ws c)) idx0 = Some r0 /\
                       sel2cond (EvItem i st res acc) (Some s0) r0 = true)) \/
     (ws_task_idx (c_ws c) t r = Some idx /\
      exists r0, nth_error (sequence (c_ws c)) idx = Some r0 /\ r_status rr = r_status r0 /\
                 sel2cond (EvItem i st res acc) (Some s0) r0 = false)) /\
    get_staged_task w3 t r = Some (record_item i st s0) /\
    task_process_event w3 rr (EvItem i st res acc) = Val ns /\
    ws_task_idx (c_ws c') t r = Some idx' /\ nth_error (sequence (c_ws c')) idx' = Some r' /\
    ((r_status r' = r_status (stepped rr ns) /\
      (status_in (rstatus (stepped rr ns)) COMPLETED_STATUSES = false -> rstatus (stepped rr ns) <> S_RETRYING ->
       staged (c_ws c') = staged_update (record_item i st) t r (staged (c_ws c)))) \/
     (r_status r' = Some S_RETRYING /\ status_in (rstatus (stepped rr ns)) COMPLETED_STATUSES = true)).
Proof.
  intros f t r i st res acc c c' s0 l H Ia Pa Hcmd Hs0 Hl Hil.
  destruct (own_step ev _ _ _ _ _ _ H Ia Pa) as (ts & idx & rr & ns & c3 & c4 & compl &
    (I3 & P3 & A1 & A2) & (Hp3 & Hr3 & Hk3) & Orig & (ca & cb & cc & Sa & Eu & Ei & Sc) & Ens & (r4 & Hr4 & Hs4) &
    Hp4 & I4 & P4 & B1 & B2 & Hnc & Hretry & Htl).
  rewrite Hs0 in *.
  assert (Hk : ~ Kcmd (t, r)) by (unfold Kcmd; simpl; congruence).
  assert (St3 : staged (c_ws c3) = staged_update (record_item i st) t r (staged (c_ws c))).
  { unfold uts_unstage in Eu. rewrite Hl in Eu. inversion Eu; subst cb.
    unfold uts_item in Ei. rewrite Hl in Ei. pose proof Hil as Hil'. apply Nat.ltb_lt in Hil'. rewrite Hil' in Ei. unfold modws in Ei. inversion Ei; subst cc.
    rewrite Sc. simpl. rewrite Sa. reflexivity. }
  assert (Hg3 : get_staged_task (c_ws c3) t r = Some (record_item i st s0)).
  { unfold get_staged_task. rewrite St3. unfold get_staged_task in Hs0.
    rewrite (find_staged_update_same _ _ _ _ (record_item_keeps i st)), Hs0. reflexivity. }
  assert (OrigX : (r_status rr = None /\
      (ws_task_idx (c_ws c) t r = None \/
       exists idx0 r0, ws_task_idx (c_ws c) t r = Some idx0 /\ nth_error (sequence (c_ws c)) idx0 = Some r0 /\
                       sel2cond (EvItem i st res acc) (Some s0) r0 = true)) \/
     (ws_task_idx (c_ws c) t r = Some idx /\
      exists r0, nth_error (sequence (c_ws c)) idx = Some r0 /\ r_status rr = r_status r0 /\
                 sel2cond (EvItem i st res acc) (Some s0) r0 = false)).
  { destruct Orig as [[O [O2|[O2|O2]]]|[_ [Op [r0 O]]]]; [congruence|left; auto|left; auto|right; split; [exact Op|exists r0; exact O]]. }
  destruct (sig_key _ _ Hs4) as [K4 S4].
  assert (NoRetry : (forall ctx, compl <> Some (ctx, true)) ->
            ws_task_idx (c_ws c') t r = Some idx /\ exists r', nth_error (sequence (c_ws c')) idx = Some r' /\ r_status r' = r_status (stepped rr ns)).
  { intro Hn. destruct (tail_cmd ev _ _ _ _ _ _ _ _ _ _ Hn Htl I4 P4) as [_ [_ [C1 C2]]].
    split; [rewrite (C2 t r Hk); exact Hp4|].
    destruct (C1 idx r4 Hr4) as [r' [E [_ S]]]. exists r'. split; [exact E|].
    destruct S as [S|S]; [congruence|]. exfalso. apply Hk. rewrite <- Hk3. rewrite K4 in S. destruct rr, ns; exact S. }
  destruct compl as [[ctx [|]]|].
  - destruct (Hretry ctx eq_refl) as [Hcomp Hvalid].
    unfold uts_tail in Htl. rewrite uts_unfold in Htl.
    destruct (own_step ev _ _ _ _ _ _ Htl I4 P4) as (ts2 & idx2 & rr2 & ns2 & c32 & c42 & compl2 &
      (I32 & P32 & A12 & A22) & (Hp32 & Hr32 & Hk32) & Orig2 & _ & Ens2 & (r42 & Hr42 & Hs42) &
      Hp42 & I42 & P42 & _ & _ & Hnc2 & _ & Htl2).
    assert (Hst2 : r_status rr2 = r_status (stepped rr ns)).
    { destruct Orig2 as [[_ [O|[O|[i0 [r0 [Op [Or0 Oc]]]]]]]|[_ [Op [r0 [Or0 [Os _]]]]]].
      - congruence.
      - congruence.
      - unfold sel2cond, retry_event in Oc. simpl in Oc. rewrite andb_false_r in Oc. discriminate Oc.
      - rewrite Hp4 in Op. inversion Op; subst idx2. rewrite Hr4 in Or0. inversion Or0; subst r0. congruence. }
    assert (Hns2 : ns2 = Some S_RETRYING).
    { unfold retry_event in Ens2. apply tpe_engine in Ens2.
      assert (E : rstatus rr2 = rstatus (stepped rr ns)) by (unfold rstatus; rewrite Hst2; reflexivity).
      rewrite E in Ens2. destruct (F_task_retry_valid _ Hvalid) as [X|X]; [rewrite X in Hcomp; discriminate Hcomp|congruence]. }
    subst ns2. assert (Hn2 : status_in (rstatus (stepped rr2 (Some S_RETRYING))) COMPLETED_STATUSES = false) by reflexivity.
    destruct (Hnc2 Hn2) as [-> _].
    assert (Hnr : forall ctx0 : dict, None <> Some (ctx0, true)) by (intros; discriminate).
    destruct (tail_cmd ev _ _ _ _ _ _ _ _ _ _ Hnr Htl2 I42 P42) as [_ [_ [C1 C2]]].
    destruct (C1 idx2 r42 Hr42) as [r' [E [_ S]]]. destruct (sig_key _ _ Hs42) as [K42 S42].
    exists idx, rr, ns, (c_ws c3), idx2, r'. split; [exact Hk3|]. split; [exact OrigX|]. split; [exact Hg3|]. split; [exact Ens|].
    split; [rewrite (C2 t r Hk); exact Hp42|]. split; [exact E|]. right. split; [|exact Hcomp].
    destruct S as [S|S]; [rewrite S, S42; reflexivity|]. exfalso. apply Hk. rewrite <- Hk32. rewrite K42 in S. destruct rr2; exact S.
  - destruct NoRetry as [A [r' [B C]]]; [intros; discriminate|].
    exists idx, rr, ns, (c_ws c3), idx, r'. split; [exact Hk3|]. split; [exact OrigX|]. split; [exact Hg3|]. split; [exact Ens|].
    split; [exact A|]. split; [exact B|]. left. split; [exact C|]. intros Hn _. destruct (Hnc Hn) as [X _]. discriminate X.
  - destruct NoRetry as [A [r' [B C]]]; [intros; discriminate|].
    exists idx, rr, ns, (c_ws c3), idx, r'. split; [exact Hk3|]. split; [exact OrigX|]. split; [exact Hg3|]. split; [exact Ens|].
    split; [exact A|]. split; [exact B|]. left. split; [exact C|]. intros Hn Hnr. destruct (Hnc Hn) as [_ Sg]. specialize (Sg Hnr).
    assert (Hnoretry : forall ctx : dict, None <> Some (ctx, true)) by (intros; discriminate).
    rewrite <- St3, <- Sg. apply (flt_tail_noqueue ev _ _ _ _ _ _ _ _ _ _ Htl Hnoretry). left; reflexivity.
Qed.

(* a completion report on the single action of a task: its record is not active afterwards *)
Lemma own_plain_done : forall t r st res c c', update_task_state ev t r (EvAction st res) c = (c', Val tt) ->
  c_init c = true -> P_ok c -> is_engine_command t = false -> NB c -> status_in st COMPLETED_STATUSES = true ->
  forall idx' r', ws_task_idx (c_ws c') t r = Some idx' -> nth_error (sequence (c_ws c')) idx' = Some r' ->
    ostatus_in (r_status r') ACTIVE_STATUSES = false.
Proof.
  intros t r st res c c' H Ia Pa Hcmd N Hst idx' r' Hp' Hr'.
  unfold update_task_state in H. rewrite uts_unfold in H.
  destruct (own_final ev _ _ _ _ _ _ H Ia Pa Hcmd) as (idx & rr & ns & w3 & idx2 & r2 & Hk & Orig & _ & Ens & Hp2 & Hr2 & Fin).
  rewrite Hp' in Hp2. inversion Hp2; subst idx2. rewrite Hr' in Hr2. inversion Hr2; subst r2.
  destruct Fin as [Fin|[Fin _]]; [|rewrite Fin; reflexivity]. rewrite Fin.
  apply tpe_action in Ens.
  assert (Hrr : status_in (rstatus rr) UNUSED_STATUSES = false).
  { destruct Orig as [[O _]|[Op [r0 [Or0 [Os _]]]]]; [unfold rstatus; rewrite O; reflexivity|].
    unfold rstatus. rewrite Os. apply (okst_rstatus r0). exact (N idx r0 Or0). }
  pose proof (F_plain_any st (rstatus rr) Hst Hrr) as X. rewrite Ens in X.
  destruct ns as [x|]; [exact X|]. simpl. unfold rstatus in X. destruct (r_status rr); [exact X|reflexivity].
Qed.

(* the report of an item when no other item of the task is active: the record is active afterwards only if it was
   running, and then it is running, the table is still there and it has an item never offered *)
Lemma own_item_dormant : forall t r i st res acc c c' s0 l idx0 r0,
  update_task_state ev t r (EvItem i st res acc) c = (c', Val tt) -> c_init c = true -> P_ok c ->
  is_engine_command t = false -> status_in st report_statuses = true ->
  get_staged_task (c_ws c) t r = Some s0 -> s_items s0 = Some l -> i < length l ->
  ws_task_idx (c_ws c) t r = Some idx0 -> nth_error (sequence (c_ws c)) idx0 = Some r0 ->
  status_in (rstatus r0) [S_RUNNING; S_PAUSING; S_CANCELING] = true ->
  existsb (fun y => status_in y ACTIVE_STATUSES) (list_del_nth i l) = false ->
  forall idx' r', ws_task_idx (c_ws c') t r = Some idx' -> nth_error (sequence (c_ws c')) idx' = Some r' ->
    ostatus_in (r_status r') ACTIVE_STATUSES = true ->
    r_status r' = Some S_RUNNING /\ rstatus r0 = S_RUNNING /\
    items_of c' t r = Some (list_set_nth i st l) /\ has_open (list_set_nth i st l) = true.
Proof.
  intros t r i st res acc c c' s0 l idx0 r0 H Ia Pa Hcmd Hst Hs0 Hl Hil Hp0 Hr0 Hcur Hdor idx' r' Hp' Hr' Hact.
  unfold update_task_state in H. rewrite uts_unfold in H.
  destruct (own_item_final _ _ _ _ _ _ _ _ _ _ _ H Ia Pa Hcmd Hs0 Hl Hil) as (idx & rr & ns & w3 & idx2 & r2 & Hk & Orig & Hg3 & Ens & Hp2 & Hr2 & Fin).
  rewrite Hp' in Hp2. inversion Hp2; subst idx2. rewrite Hr' in Hr2. inversion Hr2; subst r2.
  destruct Fin as [[Fin Hstg]|[Fin _]]; [|rewrite Fin in Hact; discriminate Hact].
  assert (Hit3 : s_items (record_item i st s0) = Some (list_set_nth i st l)) by (unfold record_item; rewrite Hl; destruct s0; reflexivity).
  assert (Hcompl0 : ostatus_in (r_status r0) COMPLETED_STATUSES = false).
  { unfold rstatus in Hcur. destruct (r_status r0) as [x|]; [|reflexivity]. simpl. destruct x; try discriminate Hcur; reflexivity. }
  assert (Hrr : r_status rr = r_status r0).
  { destruct Orig as [[_ [O|[i1 [r1 [Op [Or1 Oc]]]]]]|[Op [r1 [Or1 [Os _]]]]].
    - congruence.
    - rewrite Hp0 in Op. inversion Op; subst i1. rewrite Hr0 in Or1. inversion Or1; subst r1.
      unfold sel2cond in Oc. rewrite Hcompl0 in Oc. discriminate Oc.
    - rewrite Hp0 in Op. inversion Op; subst idx. rewrite Hr0 in Or1. inversion Or1; subst r1. exact Os. }
  assert (Hrs : rstatus rr = rstatus r0) by (unfold rstatus; rewrite Hrr; reflexivity).
  unfold task_process_event in Ens. destruct (negb _); [discriminate|].
  assert (Hid : r_id rr = t) by (unfold key_of in Hk; congruence). assert (Hrt : r_route rr = r) by (unfold key_of in Hk; congruence).
  rewrite Hid, Hrt in Ens.
  destruct (item_event_name w3 t r i st) as [n|e] eqn:En; [|discriminate].
  apply task_table_step_val in Ens. rewrite Hrs in Ens.
  assert (Hdor3 : existsb (fun y => status_in y ACTIVE_STATUSES) (list_del_nth i (list_set_nth i st l)) = false) by (rewrite del_set_nth; exact Hdor).
  assert (Hst' : status_in st COMPLETED_STATUSES = true) by exact Hst.
  destruct ns as [x|].
  - destruct (F_dormant_report w3 t r i st _ _ n (rstatus r0) x Hg3 Hit3 Hst' Hdor3 En Hcur) as [_ Hx].
    assert (Hax : status_in x ACTIVE_STATUSES = true) by (rewrite Fin in Hact; exact Hact).
    destruct (Hx Ens Hax) as [-> [Hc0 Hinc]]. rewrite del_set_nth in Hinc.
    split; [rewrite Fin; reflexivity|]. split; [exact Hc0|].
    assert (Hs' : staged (c_ws c') = staged_update (record_item i st) t r (staged (c_ws c))) by (apply Hstg; [reflexivity|discriminate]).
    split.
    + unfold items_of, get_staged_task. rewrite Hs'. unfold get_staged_task in Hs0.
      rewrite (find_staged_update_same _ _ _ _ (record_item_keeps i st)), Hs0. simpl. exact Hit3.
    + apply existsb_exists in Hinc. destruct Hinc as [y [Hy Hny]]. unfold has_open. apply existsb_exists. exists y.
      split; [apply (In_del_nth_In _ (list_set_nth i st l) i); rewrite del_set_nth; exact Hy|].
      unfold open_slot. rewrite Hny, andb_true_r. apply negb_true_iff.
      destruct (status_in y ACTIVE_STATUSES) eqn:Ey; [|reflexivity].
      assert (X : existsb (fun y => status_in y ACTIVE_STATUSES) (list_del_nth i l) = true) by (apply existsb_exists; exists y; auto). congruence.
  - exfalso. destruct (F_dormant_report w3 t r i st _ _ n (rstatus r0) S_RUNNING Hg3 Hit3 Hst' Hdor3 En Hcur) as [Hx _]. exact (Hx Ens).
Qed.

End OwnReports.

(* ================================================================== E. the backward link along the protocol *)
Section BackwardSystem.
Variable ev : string -> dict -> evalres.

Lemma sk_ack_offer : forall s o, ilink (si_c s) (si_inflight s) -> SK s -> pend_ok (si_c s) o ->
  is_engine_command (o_id o) = false -> ibad (isys_ack_offer ev s o) = false -> SK (isys_ack_offer ev s o).
Proof.
  intros s o I K Hp Hcmd Hb. unfold isys_ack_offer, pend_ok in *. destruct (o_items_count o) as [[|m]|].
  - destruct K as [[Ia [Pa [Xa [Na B]]]] Nc].
    set (s1 := isys_event ev s (o_id o) (o_route o) (EvAction S_RUNNING JNull)) in *.
    assert (Hb1 : ibad s1 = false).
    { apply (not_bad_before (fun x => isys_event ev x (o_id o) (o_route o) (EvAction S_SUCCEEDED (JList [])))); [apply ibad_event_mono|exact Hb]. }
    destruct (plain_event_step ev s (o_id o) (o_route o) (EvAction S_RUNNING JNull) (si_inflight s) Logic.I I) as [I1 P1];
      [intros; tauto|exact Hb1|]. fold s1 in I1, P1.
    assert (E1 : si_inflight s1 = si_inflight s) by apply inflight_event.
    destruct (plain_event_step ev s1 (o_id o) (o_route o) (EvAction S_SUCCEEDED (JList [])) (si_inflight s1) Logic.I) as [I2 P2];
      [rewrite E1; exact I1|intros; tauto|exact Hb|].
    pose proof (ievent_val ev s (o_id o) (o_route o) _ Hb1) as H1. fold s1 in H1.
    pose proof (ievent_val ev s1 (o_id o) (o_route o) _ Hb) as H2.
    destruct (prot_ok ev _ _ _ _ _ H1 Ia Pa) as [Ib Pb].
    pose proof (xc_event ev _ _ _ _ _ H1 Hcmd Ia Pa Xa) as Xb.
    pose proof (nb_event ev s (o_id o) (o_route o) (EvAction S_RUNNING JNull) eq_refl Hb1 Na) as Nb. fold s1 in Nb.
    assert (B1 : BLx (fun k => k <> (o_id o, o_route o)) (si_c s1) (si_inflight s)).
    { refine (bl_other ev _ _ _ _ _ (si_inflight s) (si_inflight s) H1 Ia Pa _ (fun k X _ => X) (BL_BLx _ _ _ B)).
      intros t' r' l Hne Hl _. exact (P1 t' r' l Hne Hl). }
    destruct (prot_ok ev _ _ _ _ _ H2 Ib Pb) as [Ic Pc].
    split; [|rewrite inflight_event, E1; exact Nc].
    split; [exact Ic|]. split; [exact Pc|]. split; [exact (xc_event ev _ _ _ _ _ H2 Hcmd Ib Pb Xb)|].
    split; [exact (nb_event ev s1 (o_id o) (o_route o) (EvAction S_SUCCEEDED (JList [])) eq_refl Hb Nb)|].
    rewrite inflight_event, E1. apply (BLx_split _ _ (o_id o, o_route o)).
    + refine (bl_other ev _ _ _ _ _ (si_inflight s) (si_inflight s) H2 Ib Pb _ (fun k X _ => X) B1).
      intros t' r' l Hne Hl _. exact (P2 t' r' l Hne Hl).
    + intros idx rec _ Hp' Hr' Ha. simpl in Hp'.
      rewrite (own_plain_done ev _ _ _ _ _ _ H2 Ib Pb Hcmd Nb eq_refl idx rec Hp' Hr') in Ha. discriminate Ha.
  - destruct Hp as [l [Hl Ha]]. exact (sk_ack_items_loop ev _ _ _ _ _ I K Hl Ha Hcmd Hb).
  - exact (sk_ack_plain_loop ev _ _ _ _ I K Hp Hcmd Hb).
Qed.

Lemma sk_ack_offers : forall offers s, ilink (si_c s) (si_inflight s) -> SK s ->
  (forall o, In o offers -> pend_ok (si_c s) o) -> (forall o, In o offers -> is_engine_command (o_id o) = false) ->
  offers_dup offers = false ->
  ibad (fold_left (isys_ack_offer ev) offers s) = false -> SK (fold_left (isys_ack_offer ev) offers s).
Proof.
  induction offers as [|o offers IH]; intros s I K Hp Hc Hd Hb; cbn [fold_left] in *; [exact K|].
  simpl in Hd. apply orb_false_iff in Hd. destruct Hd as [Hd1 Hd2].
  assert (Hb1 : ibad (isys_ack_offer ev s o) = false).
  { apply (not_bad_before (fun x => fold_left (isys_ack_offer ev) offers x)); [apply ibad_fold_offer_mono|exact Hb]. }
  destruct (ack_offer_link ev s o I (Hp o (or_introl eq_refl)) Hb1) as [I1 P1].
  pose proof (sk_ack_offer s o I K (Hp o (or_introl eq_refl)) (Hc o (or_introl eq_refl)) Hb1) as K1.
  apply IH; try assumption.
  - intros o2 Ho2. apply (pend_ok_persist (si_c s)); [apply Hp; right; exact Ho2|].
    intros l2. apply P1. apply (offers_key_distinct _ _ _ Hd1 Ho2).
  - intros o2 Ho2. apply Hc. right. exact Ho2.
Qed.

Lemma sk_poll : forall s c1 offers, ilink (si_c s) (si_inflight s) -> SK s ->
  get_next_tasks ev (si_c s) = (c1, Val offers) -> poll_odd ev s = false -> ibad (isys_poll ev s) = false ->
  SK (isys_poll ev s).
Proof.
  intros s c1 offers I K Hg Hodd Hb. unfold poll_odd in Hodd. unfold isys_poll in *. rewrite Hg in *.
  apply orb_false_iff in Hodd. destruct Hodd as [Hodd _].
  pose proof I as [Hi [Hfo [H1 H2]]]. destruct K as [[Ia [Pa [[Xn Xc] [Na B]]]] Nc].
  destruct (gn_items_eff ev _ _ _ Hi Hg) as [HR Hof].
  destruct (J_Rgn _ _ _ HR H1 H2) as [K1 K2].
  pose proof (fo_get_next_tasks ev _ _ _ Hg Hfo) as Hfo1.
  set (s0 := {| si_c := c1; si_inflight := si_inflight s; si_acc := si_acc s; si_fault := si_fault s;
                si_wiped := si_wiped s || offers_dup offers |}) in *.
  assert (Hb0 : ibad s0 = false).
  { apply (not_bad_before (fun x => fold_left (isys_ack_offer ev) offers x)); [apply ibad_fold_offer_mono|exact Hb]. }
  assert (Hd : offers_dup offers = false).
  { unfold ibad, s0 in Hb0. simpl in Hb0. apply orb_false_iff in Hb0. destruct Hb0 as [_ X]. apply orb_false_iff in X. tauto. }
  pose proof HR as (_ & _ & Hin & Hseq & Htk & _ & _).
  assert (Hi1 : c_init c1 = true) by (rewrite Hin; exact Hi).
  apply (sk_ack_offers offers s0); try assumption.
  - unfold s0; simpl. split; [exact Hi1|split; [exact Hfo1|split; assumption]].
  - unfold SK, s0; simpl. split; [|exact Nc]. split; [exact Hi1|]. split; [|split; [|split]].
    + intros t r i E. unfold ws_task_idx in *. rewrite Htk in E. rewrite Hseq. exact (Pa t r i E).
    + split; [unfold ND; rewrite Htk; exact Xn|intros i rec E; rewrite Hseq in E; exact (Xc i rec E)].
    + intros i rec E. rewrite Hseq in E. exact (Na i rec E).
    + intros t r idx rec _ Hcmd Hp Hr Ha. unfold ws_task_idx in Hp. rewrite Htk in Hp. rewrite Hseq in Hr.
      destruct (B t r idx rec Logic.I Hcmd Hp Hr Ha) as [[it X]|[l [Hl [Hrun Hop]]]]; [left; exists it; exact X|right].
      exists l. split; [|auto]. destruct (has_open_nonempty _ Hop) as [x [xs ->]]. simpl in *.
      exact (Rgn_items_stable _ _ _ _ _ _ HR Hl).
  - intros o Ho. destruct (Hof o Ho) as [e [_ [_ [_ Hok]]]]. exact (pend_of_offer_ok _ _ _ Hok).
  - intros o Ho.
    assert (Ho' : offer_odd (si_inflight s) c1 o = false).
    { destruct (offer_odd (si_inflight s) c1 o) eqn:E; [|reflexivity].
      assert (X : existsb (offer_odd (si_inflight s) c1) offers = true) by (apply existsb_exists; exists o; auto). congruence. }
    unfold offer_odd in Ho'. apply orb_false_iff in Ho'. destruct Ho' as [_ Hcmd]. exact Hcmd.
Qed.

End BackwardSystem.

Lemma F_busy3 : forall x, status_in x GOOD_STATUSES = true -> status_in x UNUSED_STATUSES = false ->
  status_in x [S_RUNNING; S_PAUSING; S_CANCELING] = true.
Proof. intros x A C. destruct x; try discriminate A; try discriminate C; reflexivity. Qed.

Lemma flight_dec : forall (F : list ikey) (k : tkey), (exists it, In (k, it) F) \/ (forall it, ~ In (k, it) F).
Proof.
  induction F as [|[k0 it0] F IH]; intros k; [right; intros it []|].
  destruct (IH k) as [[it H]|H]; [left; exists it; right; exact H|].
  destruct (tkey_dec k0 k) as [->|Hne]; [left; exists it0; left; reflexivity|].
  right. intros it [X|X]; [inversion X; subst; apply Hne; reflexivity|exact (H it X)].
Qed.

Definition SK5 (c : cstate) (F : list ikey) : Prop := c_init c = true /\ P_ok c /\ XC c /\ NB c /\ BL c F.

Lemma items_of_staged : forall c c' t r, staged (c_ws c') = staged (c_ws c) -> items_of c' t r = items_of c t r.
Proof. intros c c' t r H. unfold items_of, get_staged_task. rewrite H. reflexivity. Qed.

Lemma sk5_same : forall c c' F, sequence (c_ws c') = sequence (c_ws c) -> tasks (c_ws c') = tasks (c_ws c) ->
  staged (c_ws c') = staged (c_ws c) -> c_init c' = true -> SK5 c F -> SK5 c' F.
Proof.
  intros c c' F Hs Ht Hg Hi [Ia [Pa [[Xn Xc] [Na B]]]]. split; [exact Hi|]. split; [|split; [|split]].
  - intros t r i E. unfold ws_task_idx in *. rewrite Ht in E. rewrite Hs. exact (Pa t r i E).
  - split; [unfold ND; rewrite Ht; exact Xn|intros i rec E; rewrite Hs in E; exact (Xc i rec E)].
  - intros i rec E. rewrite Hs in E. exact (Na i rec E).
  - intros t r idx rec _ Hcmd Hp Hr Ha. unfold ws_task_idx in Hp. rewrite Ht in Hp. rewrite Hs in Hr.
    destruct (B t r idx rec Logic.I Hcmd Hp Hr Ha) as [X|[l [Hl Y]]]; [left; exact X|right]. exists l. split; [|exact Y].
    rewrite (items_of_staged c c' _ _ Hg). exact Hl.
Qed.

Section BackwardSystem2.
Variable ev : string -> dict -> evalres.

Lemma sk_report : forall s t r item st result, ilink (si_c s) (si_inflight s) -> irec s -> SK s ->
  ibad (isys_report ev s t r item st result) = false -> SK (isys_report ev s t r item st result).
Proof.
  intros s t r item st result I R K Hb. unfold isys_report in *.
  destruct (ikey_in (t, r, item) (si_inflight s) && status_in st report_statuses) eqn:En; [|exact K].
  apply andb_true_iff in En. destruct En as [Hin Hst]. apply ikey_in_iff in Hin.
  pose proof I as [Hi [Hfo [H1 H2]]]. destruct R as [_ [_ [Hk Hm]]]. destruct K as [[Ia [Pa [Xa [Na B]]]] Nc].
  pose proof (Nc t r item Hin) as Hcmd.
  assert (Hstart : status_in st START_STATUSES = false) by (destruct st; try discriminate Hst; reflexivity).
  assert (NcR : forall k, NC (ikey_remove k (si_inflight s))).
  { intros k t' r' it' X. apply In_ikey_remove in X. exact (Nc t' r' it' (proj1 X)). }
  destruct item as [i|].
  - destruct (H1 _ _ _ Hin) as [l [Hl Hn]].
    assert (Hil : i < length l) by (apply nth_error_Some; rewrite Hn; discriminate).
    set (acc' := acc_set (si_acc s) (t, r) i result) in *.
    set (e := EvItem i st result (acc_list (acc_get acc' (t, r)))) in *.
    set (s2 := {| si_c := si_c (with_inflight s (ikey_remove (t, r, Some i) (si_inflight s)));
                  si_inflight := si_inflight (with_inflight s (ikey_remove (t, r, Some i) (si_inflight s)));
                  si_acc := acc'; si_fault := si_fault (with_inflight s (ikey_remove (t, r, Some i) (si_inflight s)));
                  si_wiped := si_wiped (with_inflight s (ikey_remove (t, r, Some i) (si_inflight s))) |}) in *.
    destruct (Hk t r i Hin) as [_ [idx0 [r0 [Hp0 [Hr0 Hl0]]]]].
    destruct (expect_link (si_c s) (si_inflight s) t r i st result (acc_list (acc_get acc' (t, r))) l Hfo H1 H2 Hl Hil)
      as [HfE [_ [_ Hrem]]].
    destruct (Hrem (completed_not_active _ Hst)) as [J1' J2'].
    destruct (ievent_core ev s2 t r e (si_inflight s) (ikey_remove (t, r, Some i) (si_inflight s))) as [_ Tfw];
      [exact I|exact Hb|exact HfE|exact J1'|exact J2'|].
    pose proof (ievent_val ev s2 t r e Hb) as H. change (si_c s2) with (si_c s) in H.
    destruct (prot_ok ev _ _ _ _ _ H Ia Pa) as [Ib Pb].
    unfold SK. rewrite inflight_event. unfold s2 at 2 3; simpl. split; [|apply NcR].
    split; [exact Ib|]. split; [exact Pb|]. split; [exact (xc_event ev _ _ _ _ _ H Hcmd Ia Pa Xa)|].
    split; [exact (nb_event ev s2 t r e Hstart Hb Na)|].
    apply (BLx_split _ _ (t, r)).
    + refine (bl_other ev t r e _ _ (si_inflight s) _ H Ia Pa _ _ (BL_BLx _ _ _ B)).
      * intros t' r' l2 Hne Hl2 _. apply Tfw; [|right; exact Hne].
        change (si_c s2) with (si_c s). unfold e. rewrite (expect_item_eq _ _ _ _ _ _ _ _ Hl Hil).
        rewrite items_of_update_other; [exact Hl2|apply record_item_keeps|exact Hne].
      * intros k Hk' Hne. apply In_ikey_remove. split; [exact Hk'|]. intro X. apply Hne. rewrite X. reflexivity.
    + intros idx rec _ Hp' Hr' Ha. simpl in Hp'.
      destruct (other_item_dec (si_inflight s) t r i) as [[j [Hj Hjin]]|Honly].
      * left. exists (Some j). apply In_ikey_remove. split; [exact Hjin|congruence].
      * right. destruct (items_of_entry _ _ _ _ Hl) as [s0 [Hs0in [Hs0id [Hs0rt [Hit Hg]]]]].
        assert (Hdor : existsb (fun y => status_in y ACTIVE_STATUSES) (list_del_nth i l) = false).
        { destruct (existsb (fun y => status_in y ACTIVE_STATUSES) (list_del_nth i l)) eqn:E; [|reflexivity]. exfalso.
          apply existsb_exists in E. destruct E as [y [Hy Hay]].
          destruct (In_del_nth_inv _ _ _ _ Hy) as [j [Hji Hnj]].
          destruct (H2 s0 l j y Hs0in Hit Hnj Hay) as [_ X]. rewrite Hs0id, Hs0rt in X. apply Hji. exact (Honly j X). }
        assert (Hcur : status_in (rstatus r0) [S_RUNNING; S_PAUSING; S_CANCELING] = true).
        { apply F_busy3; [apply busy_rstatus; exact Hl0|apply okst_rstatus; exact (Na idx0 r0 Hr0)]. }
        destruct (own_item_dormant ev _ _ _ _ _ _ _ _ _ _ _ _ H Ia Pa Hcmd Hst Hg Hit Hil Hp0 Hr0 Hcur Hdor idx rec Hp' Hr' Ha) as [A1 [_ [A3 A4]]].
        exists (list_set_nth i st l). simpl. auto.
  - set (s1 := with_inflight s (ikey_remove (t, r, None) (si_inflight s))) in *.
    destruct (plain_event_step ev s1 t r (EvAction st result) (si_inflight s1) Logic.I) as [_ P1]; [|intros; tauto|exact Hb|].
    { unfold s1; simpl. apply (ilink_keys _ (si_inflight s)); [|exact I].
      intros t' r' j. rewrite In_ikey_remove. split; [tauto|]. intros X; split; [exact X|discriminate]. }
    pose proof (ievent_val ev s1 t r _ Hb) as H. change (si_c s1) with (si_c s) in H.
    destruct (prot_ok ev _ _ _ _ _ H Ia Pa) as [Ib Pb].
    unfold SK. rewrite inflight_event. unfold s1 at 2 3; simpl. split; [|apply NcR].
    split; [exact Ib|]. split; [exact Pb|]. split; [exact (xc_event ev _ _ _ _ _ H Hcmd Ia Pa Xa)|].
    split; [exact (nb_event ev s1 t r (EvAction st result) Hstart Hb Na)|].
    apply (BLx_split _ _ (t, r)).
    + refine (bl_other ev t r _ _ _ (si_inflight s) _ H Ia Pa _ _ (BL_BLx _ _ _ B)).
      * intros t' r' l2 Hne Hl2 _. exact (P1 t' r' l2 Hne Hl2).
      * intros k Hk' Hne. apply In_ikey_remove. split; [exact Hk'|]. intro X. apply Hne. rewrite X. reflexivity.
    + intros idx rec _ Hp' Hr' Ha. simpl in Hp'.
      rewrite (own_plain_done ev _ _ _ _ _ _ H Ia Pa Hcmd Na Hst idx rec Hp' Hr') in Ha. discriminate Ha.
Qed.

Lemma tpe_workflow : forall w r st ns, task_process_event w r (EvWorkflow st) = Val ns ->
  tbl_step task_table (rstatus r) (task_workflow_event_name w (r_id r) (r_route r) st) = ns.
Proof.
  intros w r st ns H. unfold task_process_event in H. destruct (negb _); [discriminate|]. apply task_table_step_val in H. exact H.
Qed.

Lemma sk_request_c : forall c F st c' x, status_in st request_statuses = true -> J2e c F ->
  api_exec ev (OpRequest st) c = (c', x) -> SK5 c F -> SK5 c' F.
Proof.
  intros c F st c' x Hst J2 E [Ia [Pa [[Xn Xc] [Na B]]]].
  cbn [api_exec] in E. unfold bind at 1 in E. destruct (request_workflow_status ev st c) as [c2 rr] eqn:R.
  assert (c' = c2) by (destruct rr; inversion E; reflexivity). subst c2.
  unfold request_workflow_status, bind in R. rewrite (ensure_ws_inited ev c Ia) in R.
  destruct (rq_char st c c' rr R Hst Na) as [[Sg [Tk In']] [Ln Mode]].
  assert (Fwd : forall i r, nth_error (sequence (c_ws c)) i = Some r ->
            exists r', nth_error (sequence (c_ws c')) i = Some r' /\ key_of r' = key_of r /\
              (ostatus_in (r_status r) ACTIVE_STATUSES = false -> r_status r' = r_status r)).
  { intros i r Er. destruct Mode as [[_ M]|[_ M]]; destruct (M i r Er) as [r' [A [K' S]]]; exists r'; (split; [exact A|]); (split; [exact K'|]).
    - intros _. exact S.
    - intros Hina. destruct S as [S _]. rewrite S; [reflexivity|]. unfold tact. rewrite Hina. reflexivity. }
  assert (Bwd : forall i r', nth_error (sequence (c_ws c')) i = Some r' -> exists r, nth_error (sequence (c_ws c)) i = Some r).
  { intros i r' E'. destruct (nth_error (sequence (c_ws c)) i) as [r|] eqn:Er; [exists r; reflexivity|].
    apply nth_error_None in Er. rewrite <- Ln in Er. apply nth_error_None in Er. congruence. }
  split; [congruence|]. split; [|split; [|split]].
  - intros t r i Ep. unfold ws_task_idx in *. rewrite Tk in Ep. destruct (Pa t r i Ep) as [rec [A K']].
    destruct (Fwd i rec A) as [rec' [A' [K'' _]]]. exists rec'. split; [exact A'|congruence].
  - split; [unfold ND; rewrite Tk; exact Xn|]. intros i rec' E' Hc. destruct (Bwd i rec' E') as [rec Er].
    destruct (Fwd i rec Er) as [r2 [A2 [K2 S2]]]. rewrite E' in A2. inversion A2; subst r2.
    assert (Hina : ostatus_in (r_status rec) ACTIVE_STATUSES = false) by (apply (Xc i rec Er); rewrite <- (key_id _ _ K2); exact Hc).
    rewrite (S2 Hina). exact Hina.
  - exact (nb_request_status_core st _ _ _ R Na).
  - intros t r idx rec' _ Hcmd Hp' Hr' Ha. unfold ws_task_idx in Hp'. rewrite Tk in Hp'.
    destruct (Pa t r idx Hp') as [rec [Hr Hkey]].
    assert (Keep : r_status rec' = r_status rec -> Good c' F (t, r) rec').
    { intro S. rewrite S in Ha. destruct (B t r idx rec Logic.I Hcmd Hp' Hr Ha) as [X|[l [Hl [Y Z]]]]; [left; exact X|right].
      exists l. split; [rewrite (items_of_staged c c' _ _ Sg); exact Hl|]. split; [congruence|exact Z]. }
    destruct Mode as [[_ M]|[_ M]]; destruct (M idx rec Hr) as [r2 [A2 [K2 S2]]]; rewrite Hr' in A2; inversion A2; subst r2.
    { exact (Keep S2). }
    destruct S2 as [Same Told]. destruct (tact c idx rec) eqn:Et; [|rewrite (Same eq_refl) in *; exact (Keep eq_refl)].
    assert (Hact : ostatus_in (r_status rec) ACTIVE_STATUSES = true) by (unfold tact in Et; apply andb_prop in Et; apply Et).
    destruct (B t r idx rec Logic.I Hcmd Hp' Hr Hact) as [X|[l [Hl [Hrun Hop]]]]; [left; exact X|].
    destruct (flight_dec F (t, r)) as [X|Hno]; [left; exact X|]. right. simpl in Hl.
    destruct (items_of_entry _ _ _ _ Hl) as [s0 [Hs0in [Hs0id [Hs0rt [Hit Hg]]]]].
    assert (Hdor : existsb (fun y => status_in y ACTIVE_STATUSES) l = false).
    { destruct (existsb (fun y => status_in y ACTIVE_STATUSES) l) eqn:Eact; [|reflexivity]. exfalso.
      apply existsb_exists in Eact. destruct Eact as [y [Hy Hay]]. apply In_nth_error in Hy. destruct Hy as [j Hj].
      destruct (J2 s0 l j y Hs0in Hit Hj Hay) as [_ X]. rewrite Hs0id, Hs0rt in X. exact (Hno _ X). }
    destruct (Told eq_refl) as [w [r1 [ns [Sw [K1 [S1 [Ens Fin]]]]]]].
    apply tpe_workflow in Ens.
    assert (Hid : r_id r1 = t) by (rewrite Hkey in K1; unfold key_of in K1; congruence).
    assert (Hrt : r_route r1 = r) by (rewrite Hkey in K1; unfold key_of in K1; congruence).
    assert (Hr1 : rstatus r1 = S_RUNNING) by (unfold rstatus; rewrite S1, Hrun; reflexivity).
    rewrite Hid, Hrt, Hr1 in Ens.
    assert (Hgw : get_staged_task w t r = Some s0) by (unfold get_staged_task in *; rewrite Sw; exact Hg).
    exists l. simpl. split; [rewrite (items_of_staged c c' _ _ Sg); exact Hl|]. split; [|exact Hop].
    destruct (status_in st (app PAUSE_STATUSES CANCEL_STATUSES)) eqn:Epc.
    + exfalso. destruct (F_told_dormant w t r st s0 l _ Hgw Hit Epc Hdor Hop Ens) as [y [Ey Hy]]. rewrite Ey in Fin.
      rewrite Fin in Ha. change (status_in y ACTIVE_STATUSES = true) in Ha. congruence.
    + rewrite (F_wf_name_plain _ _ _ _ Epc) in Ens. destruct ns as [y|].
      * rewrite Fin in Ha |- *. change (status_in y ACTIVE_STATUSES = true) in Ha. cbn [stepped r_set_status r_status].
        rewrite (F_running_base st y Epc Ens Ha). reflexivity.
      * rewrite Fin. cbn [stepped]. congruence.
Qed.

Lemma sk_call_c : forall c F op c' x, op = OpRender \/ op = OpPersist -> api_exec ev op c = (c', x) -> is_exc x = false ->
  SK5 c F -> SK5 c' F.
Proof.
  intros c F op c' x Hop E Hx K. pose proof K as [Ia _]. destruct Hop as [-> | ->]; cbn [api_exec] in E;
    destruct (then_ret_unit _ _ _ _ E) as [[_ X]|Y]; try congruence.
  - pose proof (vlt_render_workflow_output ev c Ia c' tt X) as [Hs [Ht [Hg [_ [_ [_ [_ [_ Hin]]]]]]]].
    apply (sk5_same c c' F Hs Ht Hg); [congruence|exact K].
  - rewrite (persist_identity ev c Ia) in X. inversion X; subst. exact K.
Qed.

Lemma sk_born : forall c c1, unborn c -> ensure_ws ev c = (c1, Val tt) -> SK5 c1 [].
Proof.
  intros c c1 Hu En. destruct (born_pfull ev _ _ Hu En) as [A [Bp [N _]]]. split; [exact A|]. split; [exact Bp|].
  destruct Hu as [Hi Hw]. destruct (ensure_fresh ev c c1 Hi Hw En) as [_ [_ [_ [Hs [Ht _]]]]].
  split; [split; [unfold ND; rewrite Ht; constructor|intros i rec E; rewrite Hs in E; destruct i; discriminate E]|].
  split; [exact N|]. intros t r idx rec _ _ Hp. unfold ws_task_idx in Hp. rewrite Ht in Hp. discriminate Hp.
Qed.

Definition sk_inv (s : isys) : Prop := ibad s = false -> unborn (si_c s) \/ SK s.

Lemma sk_step : forall s op, isys_inv2 s -> irec_inv s -> sk_inv s -> op_odd ev s op = false -> sk_inv (isys_step ev s op).
Proof.
  intros s op H2 H3 H4 Hodd Hb.
  assert (Hb0 : ibad s = false) by (apply (not_bad_before (fun x => isys_step ev x op)); [intro; apply ibad_step_mono; assumption|exact Hb]).
  assert (Rq : forall st, ibad (isys_request ev s st) = false -> unborn (si_c (isys_request ev s st)) \/ SK (isys_request ev s st)).
  { intros st Hb'. unfold isys_request in *. destruct (status_in st request_statuses) eqn:Hst; [|exact (H4 Hb0)].
    destruct (api_exec ev (OpRequest st) (si_c s)) as [c' x] eqn:E. simpl. right.
    unfold ibad in Hb'. simpl in Hb'. apply orb_false_iff in Hb'. destruct Hb' as [Hb1 _]. apply orb_false_iff in Hb1. destruct Hb1 as [_ Hb3].
    unfold SK. simpl. destruct (inv2_link s H2 Hb0) as [[Hu HF]|I].
    - destruct (ensure_ws ev (si_c s)) as [c1 [[]|e]] eqn:En; [|discriminate Hb3].
      pose proof (born_link ev _ _ Hu En) as I. pose proof I as [Hi1 [_ [_ J2]]].
      assert (E1 : api_exec ev (OpRequest st) c1 = (c', x)).
      { rewrite <- E. cbn [api_exec]. unfold request_workflow_status, bind. rewrite En, (ensure_ws_inited ev c1 Hi1). reflexivity. }
      rewrite HF. split; [|intros t r it []]. exact (sk_request_c c1 [] st c' x Hst J2 E1 (sk_born _ _ Hu En)).
    - destruct (H4 Hb0) as [[Hi _]|[K5 Nc]]; [destruct I as [Hi' _]; congruence|].
      pose proof I as [_ [_ [_ J2]]]. split; [|exact Nc]. exact (sk_request_c _ _ st c' x Hst J2 E K5). }
  assert (Cl : forall o, o = OpRender \/ o = OpPersist -> ibad (isys_call ev s o) = false ->
               unborn (si_c (isys_call ev s o)) \/ SK (isys_call ev s o)).
  { intros o Hop Hb'. unfold isys_call in *. destruct (api_exec ev o (si_c s)) as [c' x] eqn:E. simpl. right.
    unfold ibad in Hb'. simpl in Hb'. apply orb_false_iff in Hb'. destruct Hb' as [Hb1 _]. apply orb_false_iff in Hb1. destruct Hb1 as [_ Hb3].
    assert (XX : exists c1, SK5 c1 (si_inflight s) /\ NC (si_inflight s) /\ api_exec ev o c1 = (c', x)).
    { destruct (H4 Hb0) as [Hu|[K5 Nc]]; [|exists (si_c s); auto].
      destruct (inv2_link s H2 Hb0) as [[_ HF]|[Hi' _]]; [|destruct Hu; congruence]. rewrite HF.
      destruct Hop as [-> | ->]; cbn [api_exec] in E |- *;
        (destruct (then_ret_inv _ _ _ _ _ _ E) as [[Hx X]|[e [Hx _]]]; [|rewrite Hx in Hb3; discriminate Hb3]).
      - unfold render_workflow_output in X.
        match type of X with bind (ensure_ws ev) ?k (si_c s) = _ =>
          destruct (unborn_call ev _ k (si_c s) Hu) as [[c1 [e [_ Z]]]|[c1 [En [I Z]]]] end; [rewrite Z in X; discriminate X|].
        exists c1. split; [exact (sk_born _ _ Hu En)|]. split; [intros t r it []|].
        rewrite Z in X. unfold bind at 1. unfold render_workflow_output. rewrite X, Hx. reflexivity.
      - unfold persist in X.
        match type of X with bind (ensure_ws ev) ?k (si_c s) = _ =>
          destruct (unborn_call ev _ k (si_c s) Hu) as [[c1 [e [_ Z]]]|[c1 [En [I Z]]]] end; [rewrite Z in X; discriminate X|].
        exists c1. split; [exact (sk_born _ _ Hu En)|]. split; [intros t r it []|].
        rewrite Z in X. unfold bind at 1. unfold persist. rewrite X, Hx. reflexivity. }
    destruct XX as [c1 [K5 [Nc E1]]]. unfold SK. simpl. split; [|exact Nc]. exact (sk_call_c c1 _ o c' x Hop E1 Hb3 K5). }
  destruct op; cbn [isys_step] in *; auto.
  - right.
    assert (K : forall s0, ilink (si_c s0) (si_inflight s0) -> SK s0 -> poll_odd ev s0 = false ->
                ibad (isys_poll ev s0) = false -> SK (isys_poll ev s0)).
    { intros s0 I K Ho Hb'. destruct (get_next_tasks ev (si_c s0)) as [c1 [offers|x]] eqn:Hg.
      - exact (sk_poll ev s0 c1 offers I K Hg Ho Hb').
      - unfold isys_poll in Hb'. rewrite Hg in Hb'. discriminate Hb'. }
    simpl in Hodd. destruct (inv2_link s H2 Hb0) as [[Hu HF]|I].
    + destruct (unborn_get_next ev s Hu) as [[c1 [e X]]|[c2 [En [I X]]]].
      * unfold isys_poll in Hb. rewrite X in Hb. discriminate Hb.
      * assert (E : isys_poll ev s = isys_poll ev (set_c s c2)) by (unfold isys_poll; simpl; rewrite X; reflexivity).
        assert (Eo : poll_odd ev s = poll_odd ev (set_c s c2)) by (unfold poll_odd; simpl; rewrite X; reflexivity).
        rewrite E in *. rewrite Eo in Hodd. apply K; [simpl; rewrite HF; exact I| |exact Hodd|exact Hb].
        unfold SK. simpl. rewrite HF. split; [exact (sk_born _ _ Hu En)|intros t r it []].
    + destruct (H4 Hb0) as [[Hi _]|K0]; [destruct I as [Hi' _]; congruence|]. apply K; assumption.
  - destruct (inv2_link s H2 Hb0) as [[Hu HF]|I].
    + left. unfold isys_report. rewrite HF. simpl. exact Hu.
    + destruct (H3 Hb0) as [[Hi _]|R]; [destruct I as [Hi' _]; congruence|].
      destruct (H4 Hb0) as [[Hi _]|K0]; [destruct I as [Hi' _]; congruence|]. right. apply sk_report; assumption.
Qed.

Lemma sk_run : forall ops s, isys_inv2 s -> irec_inv s -> sk_inv s -> run_odd ev ops s = false -> sk_inv (isys_run ev ops s).
Proof.
  induction ops as [|op ops IH]; intros s H2 H3 H4 Ho; [exact H4|]. cbn [isys_run fold_left]. simpl in Ho.
  apply orb_false_iff in Ho. destruct Ho as [Ho1 Ho2].
  apply IH; [apply isys_step_inv2; exact H2|apply isys_step_inv3; assumption|apply sk_step; assumption|exact Ho2].
Qed.

End BackwardSystem2.

(* ================================================================== F. pausing / canceling: no task is left running with an
   item never offered, unless a task event took the workflow there (the flag of model/ProviderSysItemsMon3.v) *)

Definition VB (c : cstate) : Prop :=
  forall t r idx rec l, is_engine_command t = false -> ws_task_idx (c_ws c) t r = Some idx ->
    nth_error (sequence (c_ws c)) idx = Some rec -> r_status rec = Some S_RUNNING ->
    items_of c t r = Some l -> has_open l = true -> False.
Definition VT (c : cstate) : Prop := held_wf c = true -> VB c.

Lemma tbl_open_eq : forall l, tbl_open l = has_open l. Proof. reflexivity. Qed.

Lemma not_prone_VB : forall c, stuck_prone c = false -> VB c.
Proof.
  intros c H t r idx rec l _ Hp Hr Hs Hl Ho. destruct (items_of_entry _ _ _ _ Hl) as [s0 [Hin [Hid [Hrt [Hit _]]]]].
  unfold stuck_prone in H.
  assert (X : existsb (fun e => match s_items e with
                    | Some l => tbl_open l &&
                                match ws_task_entry (c_ws c) (s_id e) (s_route e) with
                                | Some rec => match r_status rec with Some x => status_eqb x S_RUNNING | None => false end
                                | None => false
                                end
                    | None => false
                    end) (staged (c_ws c)) = true).
  { apply existsb_exists. exists s0. split; [exact Hin|]. rewrite Hit, Hid, Hrt, tbl_open_eq, Ho. unfold ws_task_entry. rewrite Hp, Hr, Hs. reflexivity. }
  congruence.
Qed.

Lemma open_set_nth : forall l i st, open_slot st = false -> has_open (list_set_nth i st l) = true -> has_open l = true.
Proof.
  induction l as [|a l IH]; intros i st Hst H; [destruct i; exact H|]. destruct i; simpl in *.
  - rewrite Hst in H. simpl in H. rewrite H. apply orb_true_r.
  - apply orb_prop in H. destruct H as [H|H]; [rewrite H; reflexivity|]. rewrite (IH i st Hst H). apply orb_true_r.
Qed.

Lemma pointed_of_idx : forall c t r idx, ws_task_idx (c_ws c) t r = Some idx -> ws_pointed (c_ws c) idx = true.
Proof.
  intros c t r idx H. unfold ws_task_idx in H. apply aget_In_tkey in H. unfold ws_pointed. apply existsb_exists.
  exists ((t, r), idx). split; [exact H|apply Nat.eqb_refl].
Qed.

Section Held.
Variable ev : string -> dict -> evalres.

(* the report of an item on a task that was told to pause or cancel: its record is not running afterwards *)
Lemma own_item_not_running : forall t r i st res acc c c' s0 l idx0 r0,
  update_task_state ev t r (EvItem i st res acc) c = (c', Val tt) -> c_init c = true -> P_ok c ->
  is_engine_command t = false -> status_in st report_statuses = true ->
  get_staged_task (c_ws c) t r = Some s0 -> s_items s0 = Some l -> i < length l ->
  ws_task_idx (c_ws c) t r = Some idx0 -> nth_error (sequence (c_ws c)) idx0 = Some r0 ->
  status_in (rstatus r0) [S_PAUSING; S_CANCELING] = true ->
  forall idx' r', ws_task_idx (c_ws c') t r = Some idx' -> nth_error (sequence (c_ws c')) idx' = Some r' ->
    r_status r' <> Some S_RUNNING.
Proof.
  intros t r i st res acc c c' s0 l idx0 r0 H Ia Pa Hcmd Hst Hs0 Hl Hil Hp0 Hr0 Hcur idx' r' Hp' Hr' Hrun.
  unfold update_task_state in H. rewrite uts_unfold in H.
  destruct (own_item_final ev _ _ _ _ _ _ _ _ _ _ _ H Ia Pa Hcmd Hs0 Hl Hil) as (idx & rr & ns & w3 & idx2 & r2 & Hk & Orig & Hg3 & Ens & Hp2 & Hr2 & Fin).
  rewrite Hp' in Hp2. inversion Hp2; subst idx2. rewrite Hr' in Hr2. inversion Hr2; subst r2.
  destruct Fin as [[Fin _]|[Fin _]]; [|rewrite Fin in Hrun; discriminate Hrun].
  assert (Hit3 : s_items (record_item i st s0) = Some (list_set_nth i st l)) by (unfold record_item; rewrite Hl; destruct s0; reflexivity).
  assert (Hcompl0 : ostatus_in (r_status r0) COMPLETED_STATUSES = false).
  { unfold rstatus in Hcur. destruct (r_status r0) as [x|]; [|reflexivity]. simpl. destruct x; try discriminate Hcur; reflexivity. }
  assert (Hrr : r_status rr = r_status r0).
  { destruct Orig as [[_ [O|[i1 [r1 [Op [Or1 Oc]]]]]]|[Op [r1 [Or1 [Os _]]]]].
    - congruence.
    - rewrite Hp0 in Op. inversion Op; subst i1. rewrite Hr0 in Or1. inversion Or1; subst r1.
      unfold sel2cond in Oc. rewrite Hcompl0 in Oc. discriminate Oc.
    - rewrite Hp0 in Op. inversion Op; subst idx. rewrite Hr0 in Or1. inversion Or1; subst r1. exact Os. }
  assert (Hrs : rstatus rr = rstatus r0) by (unfold rstatus; rewrite Hrr; reflexivity).
  unfold task_process_event in Ens. destruct (negb _); [discriminate|].
  assert (Hid : r_id rr = t) by (unfold key_of in Hk; congruence). assert (Hrt : r_route rr = r) by (unfold key_of in Hk; congruence).
  rewrite Hid, Hrt in Ens.
  destruct (item_event_name w3 t r i st) as [n|e] eqn:En; [|discriminate].
  apply task_table_step_val in Ens. rewrite Hrs in Ens.
  assert (Hst' : status_in st COMPLETED_STATUSES = true) by exact Hst.
  assert (Hcur3 : status_in (rstatus r0) [S_RUNNING; S_PAUSING; S_CANCELING] = true) by (destruct (rstatus r0); try discriminate Hcur; reflexivity).
  assert (Hnr : rstatus r0 <> S_RUNNING) by (intro X; rewrite X in Hcur; discriminate Hcur).
  assert (Hs' : r_status (stepped rr ns) = Some S_RUNNING) by congruence.
  destruct (existsb (fun y => status_in y ACTIVE_STATUSES) (list_del_nth i (list_set_nth i st l))) eqn:Hoth.
  - pose proof (F_told_stays w3 t r i st _ _ n (rstatus r0) Hg3 Hit3 Hst' Hoth En Hcur) as X. rewrite Ens in X.
    destruct ns as [x|]; simpl in Hs'.
    + inversion Hs'; subst x. congruence.
    + apply Hnr. unfold rstatus. rewrite <- Hrr, Hs'. reflexivity.
  - destruct ns as [x|]; simpl in Hs'.
    + inversion Hs'; subst x.
      destruct (F_dormant_report w3 t r i st _ _ n (rstatus r0) S_RUNNING Hg3 Hit3 Hst' Hoth En Hcur3) as [_ Hx].
      destruct (Hx Ens eq_refl) as [_ [X _]]. exact (Hnr X).
    + apply Hnr. unfold rstatus. rewrite <- Hrr, Hs'. reflexivity.
Qed.

Lemma rstatus_running : forall r0, rstatus r0 = S_RUNNING -> r_status r0 = Some S_RUNNING.
Proof. intros r0 H. unfold rstatus in H. destruct (r_status r0); [congruence|discriminate H]. Qed.
Lemma rstatus_running_inv : forall r0, r_status r0 = Some S_RUNNING -> rstatus r0 = S_RUNNING.
Proof. intros r0 H. unfold rstatus. rewrite H. reflexivity. Qed.

(* a report while the workflow is pausing / canceling *)
Lemma vt_report : forall s t r item st result, ilink (si_c s) (si_inflight s) -> irec s -> SK s ->
  VB (si_c s) -> ibad (isys_report ev s t r item st result) = false -> VB (si_c (isys_report ev s t r item st result)).
Proof.
  intros s t r item st result I R K V Hb. unfold isys_report in *.
  destruct (ikey_in (t, r, item) (si_inflight s) && status_in st report_statuses) eqn:En; [|exact V].
  apply andb_true_iff in En. destruct En as [Hin Hst]. apply ikey_in_iff in Hin.
  pose proof I as [Hi [Hfo [H1 H2]]]. destruct R as [_ [_ [Hk Hm]]]. destruct K as [[Ia [Pa [Xa [Na B]]]] Nc].
  pose proof (Nc t r item Hin) as Hcmd.
  assert (Hopen : open_slot st = false).
  { unfold open_slot. assert (X : status_in st COMPLETED_STATUSES = true) by exact Hst. rewrite X. apply andb_false_r. }
  (* every key but the event's own *)
  assert (Other : forall e c', update_task_state ev t r e (si_c s) = (c', Val tt) ->
            Tback (fun l l' => has_open l' = true -> has_open l = true) (si_c s) c' ->
            forall t' r' idx rec l, (t', r') <> (t, r) -> is_engine_command t' = false -> ws_task_idx (c_ws c') t' r' = Some idx ->
              nth_error (sequence (c_ws c')) idx = Some rec -> r_status rec = Some S_RUNNING ->
              items_of c' t' r' = Some l -> has_open l = true -> False).
  { intros e c' H Tb t' r' idx rec' l' Hne Hc' Hp' Hr' Hrun Hl' Ho'.
    destruct (rk_update_task_state ev _ _ _ _ _ H Ia Pa) as [_ [_ [A1 A2]]].
    assert (Hnk : ~ Kown (t, r) (t', r')).
    { intros [X|X]; [exact (Hne X)|]. unfold Kcmd in X. simpl in X. congruence. }
    rewrite (A2 t' r' Hnk) in Hp'. destruct (Pa t' r' idx Hp') as [rec [Hr Hkey]].
    destruct (A1 idx rec Hr) as [rec2 [E2 [_ S]]]. rewrite Hr' in E2. inversion E2; subst rec2.
    assert (Hs : r_status rec' = r_status rec) by (destruct S as [S|S]; [exact S|rewrite Hkey in S; contradiction]).
    destruct (Tb t' r' l' Hl') as [l [Hl Q]]. exact (V t' r' idx rec l Hc' Hp' Hr (eq_trans (eq_sym Hs) Hrun) Hl (Q Ho')). }
  destruct item as [i|].
  - destruct (H1 _ _ _ Hin) as [l [Hl Hn]].
    assert (Hil : i < length l) by (apply nth_error_Some; rewrite Hn; discriminate).
    set (acc' := acc_set (si_acc s) (t, r) i result) in *.
    set (e := EvItem i st result (acc_list (acc_get acc' (t, r)))) in *.
    set (s2 := {| si_c := si_c (with_inflight s (ikey_remove (t, r, Some i) (si_inflight s)));
                  si_inflight := si_inflight (with_inflight s (ikey_remove (t, r, Some i) (si_inflight s)));
                  si_acc := acc'; si_fault := si_fault (with_inflight s (ikey_remove (t, r, Some i) (si_inflight s)));
                  si_wiped := si_wiped (with_inflight s (ikey_remove (t, r, Some i) (si_inflight s))) |}) in *.
    destruct (Hk t r i Hin) as [_ [idx0 [r0 [Hp0 [Hr0 Hl0]]]]].
    pose proof (ievent_val ev s2 t r e Hb) as H. change (si_c s2) with (si_c s) in H.
    assert (Tb : Tback (fun l l' => has_open l' = true -> has_open l = true) (si_c s) (si_c (isys_event ev s2 t r e))).
    { apply (ievent_back ev (fun l l' => has_open l' = true -> has_open l = true) s2 t r e Ia Hfo Hb); [auto|].
      intros i' st' res' acc0 l0 Ee. unfold e in Ee. inversion Ee; subst i' st'. apply open_set_nth. exact Hopen. }
    intros t' r' idx rec l' Hc' Hp' Hr' Hrun Hl' Ho'.
    destruct (tkey_dec (t', r') (t, r)) as [E|Hne]; [|exact (Other e _ H Tb t' r' idx rec l' Hne Hc' Hp' Hr' Hrun Hl' Ho')].
    inversion E; subst t' r'.
    destruct (Tb t r l' Hl') as [l2 [Hl2 Q]]. rewrite Hl in Hl2. inversion Hl2; subst l2.
    assert (Hcur3 : status_in (rstatus r0) [S_RUNNING; S_PAUSING; S_CANCELING] = true).
    { apply F_busy3; [apply busy_rstatus; exact Hl0|apply okst_rstatus; exact (Na idx0 r0 Hr0)]. }
    assert (Hcur : status_in (rstatus r0) [S_PAUSING; S_CANCELING] = true).
    { destruct (status_eqb (rstatus r0) S_RUNNING) eqn:Er.
      - exfalso. apply status_eqb_eq in Er. exact (V t r idx0 r0 l Hcmd Hp0 Hr0 (rstatus_running _ Er) Hl (Q Ho')).
      - destruct (rstatus r0); try discriminate Hcur3; try reflexivity. rewrite status_eqb_refl in Er. discriminate Er. }
    destruct (items_of_entry _ _ _ _ Hl) as [s0 [_ [_ [_ [Hit Hg]]]]].
    exact (own_item_not_running _ _ _ _ _ _ _ _ _ _ _ _ H Ia Pa Hcmd Hst Hg Hit Hil Hp0 Hr0 Hcur idx rec Hp' Hr' Hrun).
  - set (s1 := with_inflight s (ikey_remove (t, r, None) (si_inflight s))) in *.
    pose proof (ievent_val ev s1 t r _ Hb) as H. change (si_c s1) with (si_c s) in H.
    assert (Tb : Tback (fun l l' => has_open l' = true -> has_open l = true) (si_c s) (si_c (isys_event ev s1 t r (EvAction st result)))).
    { apply (ievent_back ev (fun l l' => has_open l' = true -> has_open l = true) s1 t r _ Ia Hfo Hb); [auto|].
      intros i' st' res' acc0 l0 Ee. discriminate Ee. }
    intros t' r' idx rec l' Hc' Hp' Hr' Hrun Hl' Ho'.
    destruct (tkey_dec (t', r') (t, r)) as [E|Hne]; [|exact (Other _ _ H Tb t' r' idx rec l' Hne Hc' Hp' Hr' Hrun Hl' Ho')].
    inversion E; subst t' r'.
    pose proof (own_plain_done ev _ _ _ _ _ _ H Ia Pa Hcmd Na Hst idx rec Hp' Hr') as X. rewrite Hrun in X. discriminate X.
Qed.

(* a status request that leaves the workflow pausing / canceling *)
Lemma vt_request_c : forall c st c' x, status_in st request_statuses = true ->
  api_exec ev (OpRequest st) c = (c', x) -> c_init c = true -> P_ok c -> NB c -> VT c -> VT c'.
Proof.
  intros c st c' x Hst E Ia Pa Na V Hheld.
  cbn [api_exec] in E. unfold bind at 1 in E. destruct (request_workflow_status ev st c) as [c2 rr] eqn:R.
  assert (c' = c2) by (destruct rr; inversion E; reflexivity). subst c2.
  unfold request_workflow_status, bind in R. rewrite (ensure_ws_inited ev c Ia) in R.
  destruct (rq_char st c c' rr R Hst Na) as [[Sg [Tk In']] [Ln Mode]].
  intros t r idx rec' l Hcmd Hp' Hr' Hrun Hl' Ho. unfold ws_task_idx in Hp'. rewrite Tk in Hp'.
  destruct (Pa t r idx Hp') as [rec [Hr Hkey]]. rewrite (items_of_staged c c' _ _ Sg) in Hl'.
  destruct Mode as [[W M]|[Hpc M]]; destruct (M idx rec Hr) as [r2 [A2 [K2 S2]]]; rewrite Hr' in A2; inversion A2; subst r2.
  - assert (Hh : held_wf c = true) by (unfold held_wf in *; rewrite <- W; exact Hheld).
    exact (V Hh t r idx rec l Hcmd Hp' Hr (eq_trans (eq_sym S2) Hrun) Hl' Ho).
  - destruct S2 as [Same Told].
    assert (Hpc' : status_in st (app PAUSE_STATUSES CANCEL_STATUSES) = true).
    { apply Hpc. unfold held_wf in Hheld. unfold HELD2. destruct (wstatus (c_ws c')); try discriminate Hheld; simpl; auto. }
    destruct (tact c idx rec) eqn:Et.
    + destruct (Told eq_refl) as [w [r1 [ns [Sw [K1 [S1 [Ens Fin]]]]]]].
      apply tpe_workflow in Ens.
      assert (Hid : r_id r1 = t) by (rewrite Hkey in K1; unfold key_of in K1; congruence).
      assert (Hrt : r_route r1 = r) by (rewrite Hkey in K1; unfold key_of in K1; congruence).
      rewrite Hid, Hrt in Ens.
      destruct (items_of_entry _ _ _ _ Hl') as [s0 [_ [_ [_ [Hit Hg]]]]].
      assert (Hgw : get_staged_task w t r = Some s0) by (unfold get_staged_task in *; rewrite Sw; exact Hg).
      assert (Hact : ostatus_in (r_status rec) ACTIVE_STATUSES = true) by (unfold tact in Et; apply andb_prop in Et; apply Et).
      assert (Hcur : status_in (rstatus r1) [S_RUNNING; S_PAUSING; S_CANCELING] = true).
      { assert (X : rstatus r1 = rstatus rec) by (unfold rstatus; rewrite S1; reflexivity). rewrite X.
        pose proof (okst_rstatus _ (Na idx rec Hr)) as Y. unfold rstatus in *. destruct (r_status rec) as [y|]; [|discriminate Hact].
        simpl in Hact. destruct y; try discriminate Hact; try discriminate Y; reflexivity. }
      rewrite Fin in Hrun.
      destruct (existsb (fun y => status_in y ACTIVE_STATUSES) l) eqn:Eact.
      * pose proof (F_told_active w t r st s0 l (rstatus r1) Hgw Hit Hpc' Eact Hcur) as X. rewrite Ens in X.
        destruct ns as [y|]; simpl in Hrun.
        -- inversion Hrun; subst y. discriminate X.
        -- apply rstatus_running_inv in Hrun. rewrite Hrun in X. discriminate X.
      * destruct ns as [y|]; simpl in Hrun.
        -- inversion Hrun; subst y.
           assert (Hr1 : rstatus r1 = S_RUNNING).
           { destruct (status_eqb (rstatus r1) S_RUNNING) eqn:Er; [apply status_eqb_eq in Er; exact Er|]. exfalso.
             (* told from pausing / canceling with no active item: there is no such row *)
             unfold task_workflow_event_name in Ens. rewrite Hpc', Hgw, Hit, Eact in Ens.
             destruct (rstatus r1); try discriminate Hcur; try (vm_compute in Er; discriminate Er);
               destruct st; try discriminate Hpc';
               destruct (existsb (fun x0 => negb (status_in x0 COMPLETED_STATUSES)) l); vm_compute in Ens; discriminate Ens. }
           rewrite Hr1 in Ens.
           destruct (F_told_dormant w t r st s0 l _ Hgw Hit Hpc' Eact Ho Ens) as [y [Ey Hy]]. inversion Ey; subst y. discriminate Hy.
        -- apply rstatus_running_inv in Hrun.
           rewrite Hrun in Ens.
           destruct (F_told_dormant w t r st s0 l _ Hgw Hit Hpc' Eact Ho Ens) as [y [Ey _]]. discriminate Ey.
    + exfalso. unfold tact in Et. rewrite (Same eq_refl) in Hrun. rewrite Hrun in Et.
      unfold ws_task_idx in Hp'. pose proof (pointed_of_idx c t r idx Hp') as X. rewrite X in Et. discriminate Et.
Qed.

End Held.

(* ================================================================== G. the flag along the protocol *)
Section HeldSystem.
Variable ev : string -> dict -> evalres.

Definition vt_inv (s : isys) : Prop := ibad s = false -> VT (si_c s).

Lemma unborn_not_held : forall c, unborn c -> held_wf c = false.
Proof. intros c [_ Hw]. unfold held_wf. rewrite Hw. reflexivity. Qed.

Lemma VB_same : forall c c', sequence (c_ws c') = sequence (c_ws c) -> tasks (c_ws c') = tasks (c_ws c) ->
  staged (c_ws c') = staged (c_ws c) -> VB c -> VB c'.
Proof.
  intros c c' Hs Ht Hg V t r idx rec l Hc Hp Hr Hrun Hl Ho. unfold ws_task_idx in Hp. rewrite Ht in Hp. rewrite Hs in Hr.
  rewrite (items_of_staged c c' _ _ Hg) in Hl. exact (V t r idx rec l Hc Hp Hr Hrun Hl Ho).
Qed.

Lemma vt_step : forall s op, isys_inv2 s -> irec_inv s -> sk_inv s -> vt_inv s -> d24_step ev s op = false ->
  vt_inv (isys_step ev s op).
Proof.
  intros s op H2 H3 H4 H5 Hd Hb.
  assert (Hb0 : ibad s = false) by (apply (not_bad_before (fun x => isys_step ev x op)); [intro; apply ibad_step_mono; assumption|exact Hb]).
  assert (Rq : forall st, ibad (isys_request ev s st) = false -> VT (si_c (isys_request ev s st))).
  { intros st Hb'. unfold isys_request in *. destruct (status_in st request_statuses) eqn:Hst; [|exact (H5 Hb0)].
    destruct (api_exec ev (OpRequest st) (si_c s)) as [c' x] eqn:E. simpl.
    unfold ibad in Hb'. simpl in Hb'. apply orb_false_iff in Hb'. destruct Hb' as [Hb1 _]. apply orb_false_iff in Hb1. destruct Hb1 as [_ Hb3].
    destruct (inv2_link s H2 Hb0) as [[Hu HF]|I].
    - destruct (ensure_ws ev (si_c s)) as [c1 [[]|e]] eqn:En; [|discriminate Hb3].
      pose proof (born_link ev _ _ Hu En) as [Hi1 _].
      assert (E1 : api_exec ev (OpRequest st) c1 = (c', x)).
      { rewrite <- E. cbn [api_exec]. unfold request_workflow_status, bind. rewrite En, (ensure_ws_inited ev c1 Hi1). reflexivity. }
      destruct (sk_born ev _ _ Hu En) as [Ia [Pa [_ [Na _]]]].
      refine (vt_request_c ev c1 st c' x Hst E1 Ia Pa Na _). intro X. exfalso.
      destruct Hu as [Hi Hw]. destruct (ensure_fresh ev _ c1 Hi Hw En) as [_ [_ [_ [_ [_ Hst']]]]].
      unfold held_wf in X. destruct Hst' as [[W _]|[W _]]; rewrite W in X; discriminate X.
    - destruct (H4 Hb0) as [[Hi _]|[[Ia [Pa [_ [Na _]]]] _]]; [destruct I as [Hi' _]; congruence|].
      exact (vt_request_c ev _ st c' x Hst E Ia Pa Na (H5 Hb0)). }
  (* a step that is not a request and starts outside pausing / canceling *)
  assert (Enter : is_request op = false -> held_wf (si_c s) = false -> VT (si_c (isys_step ev s op))).
  { intros Hr Hh X. unfold d24_step in Hd. rewrite Hr, Hh, X in Hd. simpl in Hd. apply not_prone_VB. exact Hd. }
  destruct op; cbn [isys_step] in *.
  - apply Rq. exact Hb.
  - destruct (held_wf (si_c s)) eqn:Eh; [|exact (Enter eq_refl eq_refl)].
    destruct (inv2_link s H2 Hb0) as [[Hu _]|[Hi _]]; [rewrite (unborn_not_held _ Hu) in Eh; discriminate Eh|].
    assert (Hin : In (wstatus (c_ws (si_c s))) [S_PAUSING; S_PAUSED; S_CANCELING; S_CANCELED]).
    { unfold held_wf in Eh. destruct (wstatus (c_ws (si_c s))); try discriminate Eh; simpl; auto. }
    destruct (held_poll_nothing ev s Hi Hin) as [_ X]. rewrite X. exact (H5 Hb0).
  - destruct (held_wf (si_c s)) eqn:Eh; [|exact (Enter eq_refl eq_refl)].
    destruct (inv2_link s H2 Hb0) as [[Hu _]|I]; [rewrite (unborn_not_held _ Hu) in Eh; discriminate Eh|].
    destruct (H3 Hb0) as [[Hi _]|R]; [destruct I as [Hi' _]; congruence|].
    destruct (H4 Hb0) as [[Hi _]|K0]; [destruct I as [Hi' _]; congruence|].
    intros _. exact (vt_report ev s t route item st result I R K0 (H5 Hb0 Eh) Hb).
  - apply Rq. exact Hb.
  - destruct (held_wf (si_c s)) eqn:Eh; [|exact (Enter eq_refl eq_refl)].
    destruct (inv2_link s H2 Hb0) as [[Hu _]|[Hi _]]; [rewrite (unborn_not_held _ Hu) in Eh; discriminate Eh|].
    unfold isys_call in *. destruct (api_exec ev OpRender (si_c s)) as [c' x] eqn:E. simpl. intros _.
    unfold ibad in Hb. simpl in Hb. apply orb_false_iff in Hb. destruct Hb as [Hb1 _]. apply orb_false_iff in Hb1. destruct Hb1 as [_ Hb3].
    cbn [api_exec] in E. destruct (then_ret_unit _ _ _ _ E) as [[_ X]|Y]; [|congruence].
    pose proof (vlt_render_workflow_output ev _ Hi c' tt X) as [Hs [Ht [Hg _]]].
    exact (VB_same _ _ Hs Ht Hg (H5 Hb0 Eh)).
  - destruct (held_wf (si_c s)) eqn:Eh; [|exact (Enter eq_refl eq_refl)].
    destruct (inv2_link s H2 Hb0) as [[Hu _]|[Hi _]]; [rewrite (unborn_not_held _ Hu) in Eh; discriminate Eh|].
    unfold isys_call in *. destruct (api_exec ev OpPersist (si_c s)) as [c' x] eqn:E. simpl. intros _.
    unfold ibad in Hb. simpl in Hb. apply orb_false_iff in Hb. destruct Hb as [Hb1 _]. apply orb_false_iff in Hb1. destruct Hb1 as [_ Hb3].
    cbn [api_exec] in E. destruct (then_ret_unit _ _ _ _ E) as [[_ X]|Y]; [|congruence].
    rewrite (persist_identity ev _ Hi) in X. inversion X; subst. exact (H5 Hb0 Eh).
Qed.

Lemma vt_run : forall ops s, isys_inv2 s -> irec_inv s -> sk_inv s -> vt_inv s ->
  run_odd ev ops s = false -> run_d24 ev ops s = false -> vt_inv (isys_run ev ops s).
Proof.
  induction ops as [|op ops IH]; intros s H2 H3 H4 H5 Ho Hd; [exact H5|]. cbn [isys_run fold_left]. simpl in Ho, Hd.
  apply orb_false_iff in Ho. destruct Ho as [Ho1 Ho2]. apply orb_false_iff in Hd. destruct Hd as [Hd1 Hd2].
  apply IH; [apply isys_step_inv2; exact H2|apply isys_step_inv3; assumption|apply sk_step; assumption|apply vt_step; assumption|exact Ho2|exact Hd2].
Qed.

End HeldSystem.

(* ================================================================== H. the theorems *)
Section StuckReachable.
Variable ev : string -> dict -> evalres.
Variables (sp : wf_spec) (g : graph) (inputs parent : dict).

Lemma ireach_sk : forall ops, run_odd ev ops (isys_init sp g inputs parent) = false ->
  sk_inv (ireach ev sp g inputs parent ops).
Proof.
  intros ops Ho. apply (sk_run ev ops _ (isys_init_inv2 sp g inputs parent)); [| |exact Ho].
  - intros _. left. split; reflexivity.
  - intros _. left. split; reflexivity.
Qed.

(* the backward link: behind every active task record there is an action of the task in flight, or the record is
   running and its item table has an item never offered *)
Theorem active_record_backed : forall ops, let s := ireach ev sp g inputs parent ops in
  si_fault s = false -> si_wiped s = false -> run_odd ev ops (isys_init sp g inputs parent) = false ->
  forall t r rec, is_engine_command t = false -> ws_task_entry (c_ws (si_c s)) t r = Some rec ->
    ostatus_in (r_status rec) ACTIVE_STATUSES = true ->
    (exists it, In (t, r, it) (si_inflight s)) \/
    (exists l, items_of (si_c s) t r = Some l /\ r_status rec = Some S_RUNNING /\ has_open l = true).
Proof.
  intros ops s Hf Hw Ho t r rec Hcmd He Ha.
  destruct (ireach_sk ops Ho (ibad_false _ Hf Hw)) as [[Hi Hws]|[[_ [_ [_ [_ B]]]] _]].
  - exfalso. fold s in Hws. unfold ws_task_entry, ws_task_idx in He. rewrite Hws in He. discriminate He.
  - fold s in B. unfold ws_task_entry in He. destruct (ws_task_idx (c_ws (si_c s)) t r) as [idx|] eqn:Hp; [|discriminate He].
    exact (B t r idx rec Logic.I Hcmd Hp He Ha).
Qed.

(* while the flag is down, a workflow that reports pausing / canceling has no running task with an item never offered *)
Theorem held_no_untold_task : forall ops, let s := ireach ev sp g inputs parent ops in
  si_fault s = false -> si_wiped s = false -> run_odd ev ops (isys_init sp g inputs parent) = false ->
  run_d24 ev ops (isys_init sp g inputs parent) = false ->
  In (wstatus (c_ws (si_c s))) [S_PAUSING; S_CANCELING] ->
  forall t r rec l, is_engine_command t = false -> ws_task_entry (c_ws (si_c s)) t r = Some rec ->
    r_status rec = Some S_RUNNING -> items_of (si_c s) t r = Some l -> has_open l = false.
Proof.
  intros ops s Hf Hw Ho Hd Hin t r rec l Hcmd He Hrun Hl.
  assert (V : vt_inv s).
  { apply (vt_run ev ops _ (isys_init_inv2 sp g inputs parent)); [| | |exact Ho|exact Hd].
    - intros _. left. split; reflexivity.
    - intros _. left. split; reflexivity.
    - intros _ X. discriminate X. }
  assert (Hh : held_wf (si_c s) = true) by (unfold held_wf; destruct Hin as [<-|[<-|[]]]; reflexivity).
  destruct (has_open l) eqn:Eo; [|reflexivity]. exfalso.
  unfold ws_task_entry in He. destruct (ws_task_idx (c_ws (si_c s)) t r) as [idx|] eqn:Hp; [|discriminate He].
  exact (V (ibad_false _ Hf Hw) Hh t r idx rec l Hcmd Hp He Hrun Hl Eo).
Qed.

(* T1: pausing / canceling, flag down: an action is in flight *)
Theorem held_has_flight : forall ops, let s := ireach ev sp g inputs parent ops in
  si_fault s = false -> si_wiped s = false -> run_odd ev ops (isys_init sp g inputs parent) = false ->
  run_d24 ev ops (isys_init sp g inputs parent) = false ->
  In (wstatus (c_ws (si_c s))) [S_PAUSING; S_CANCELING] -> exists k, In k (si_inflight s).
Proof.
  intros ops s Hf Hw Ho Hd Hin.
  pose proof (held_has_active_task ev sp g inputs parent ops Hf Hw Hin) as Ha. fold s in Ha.
  apply has_active_HA in Ha. destruct Ha as [i [rec [Hr [Hact Hpt]]]].
  destruct (ireach_sk ops Ho (ibad_false _ Hf Hw)) as [[Hi Hws]|[[_ [Pa [[Xn Xc] _]]] _]].
  { exfalso. fold s in Hws. rewrite Hws in Hr. destruct i; discriminate Hr. }
  fold s in Pa, Xn, Xc.
  unfold ws_pointed in Hpt. apply existsb_exists in Hpt. destruct Hpt as [[[t r] j] [Hin' Hj]]. apply Nat.eqb_eq in Hj. subst j.
  pose proof (In_aget_tkey _ _ _ Xn Hin') as Hp.
  destruct (Pa t r i Hp) as [rec0 [Hr0 Hkey]]. rewrite Hr in Hr0. inversion Hr0; subst rec0.
  assert (Hcmd : is_engine_command t = false).
  { destruct (is_engine_command t) eqn:Ec; [|reflexivity]. exfalso.
    assert (X : is_engine_command (r_id rec) = true) by (unfold key_of in Hkey; inversion Hkey as [[H0 H1]]; rewrite H0; exact Ec).
    rewrite (Xc i rec Hr X) in Hact. discriminate Hact. }
  assert (He : ws_task_entry (c_ws (si_c s)) t r = Some rec) by (unfold ws_task_entry, ws_task_idx in *; rewrite Hp; exact Hr).
  destruct (active_record_backed ops Hf Hw Ho t r rec Hcmd He Hact) as [[it X]|[l [Hl [Hrun Hop]]]].
  - exists (t, r, it). exact X.
  - exfalso. rewrite (held_no_untold_task ops Hf Hw Ho Hd Hin t r rec l Hcmd He Hrun Hl) in Hop. discriminate Hop.
Qed.

(* T2: pausing / canceling with nothing in flight: the flag is up *)
Theorem held_idle_flagged : forall ops, let s := ireach ev sp g inputs parent ops in
  si_fault s = false -> si_wiped s = false -> run_odd ev ops (isys_init sp g inputs parent) = false ->
  In (wstatus (c_ws (si_c s))) [S_PAUSING; S_CANCELING] -> si_inflight s = [] ->
  run_d24 ev ops (isys_init sp g inputs parent) = true.
Proof.
  intros ops s Hf Hw Ho Hin HF. destruct (run_d24 ev ops (isys_init sp g inputs parent)) eqn:Ed; [reflexivity|]. exfalso.
  destruct (held_has_flight ops Hf Hw Ho Ed Hin) as [k Hk]. fold s in Hk. rewrite HF in Hk. destruct Hk.
Qed.

End StuckReachable.
