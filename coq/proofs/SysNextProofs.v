(* SysNextProofs.v -- the queue step of a completion report leaves every satisfied next task waiting in
   staging (the premise [queue_hnt_prop] of the system invariant of SysProofs.v), over graphs whose edges
   out of one task have distinct (destination, key) pairs. *)
From Coq Require Import String List Bool ZArith Arith Lia.
From Orq Require Import GenStatuses GenEvents GenTables GenSpecMeta Base State Machines Codec Conductor Decode Api Driver ProviderSys.
From Orq Require Import F_tables F_names F_sys Hoare ValuePost StatusReach C04Proofs C05Proofs C02C03Proofs OffersProofs InertProofs RetryProofs SysProofs.
Import ListNotations.
Open Scope string_scope.
Open Scope monad_scope.


Definition ekey (e : gedge) : trid := (e_dst e, e_key e).

(* the "satisfied" test of get_inbound_criteria_status: it reads records only *)
Definition sat (g : graph) (w : wstate) (dst : string) (route : nat) : bool :=
  let evl := inbound_evaluation g w dst route in
  Z.leb (inbound_requirement g dst (length evl))
        (Z.of_nat (length (filter (fun '(_, v) => match v with Some true => true | _ => false end) evl))).

Lemma criteria_sat : forall g w dst route,
  inbound_eqb (get_inbound_criteria_status g w dst route) InbSatisfied = sat g w dst route.
Proof.
  intros. unfold get_inbound_criteria_status, sat. cbv zeta.
  destruct (Z.leb _ _); [reflexivity|]. destruct (_ && _); reflexivity.
Qed.

Lemma criteria_unsat_wip : forall g w dst route, sat g w dst route = false ->
  inbound_eqb (get_inbound_criteria_status g w dst route) InbNotSatisfied = false ->
  has_active_tasks w || has_staged_tasks w = true.
Proof.
  intros g w dst route Hs H. unfold get_inbound_criteria_status in H. unfold sat in Hs. cbv zeta in *. rewrite Hs in H.
  destruct (existsb _ _ && (has_active_tasks w || has_staged_tasks w)) eqn:E; [|discriminate H].
  apply andb_prop in E. tauto.
Qed.

Lemma sat_same : forall g w w' dst route, tasks w' = tasks w -> sequence w' = sequence w ->
  sat g w' dst route = sat g w dst route.
Proof.
  intros g w w' dst route Ht Hs. unfold sat, inbound_evaluation, ws_task_entry, ws_task_idx. rewrite Ht, Hs. reflexivity.
Qed.

Lemma trid_eqb_eq : forall a b, trid_eqb a b = true <-> a = b.
Proof.
  intros [a1 a2] [b1 b2]; unfold trid_eqb; simpl; split.
  - intro H; apply andb_prop in H; destruct H as [H1 H2]. apply String.eqb_eq in H1; apply Nat.eqb_eq in H2; subst; reflexivity.
  - intro H; inversion H; subst. rewrite String.eqb_refl, Nat.eqb_refl; reflexivity.
Qed.

Lemma aget_aset_trid_same : forall (d : list (trid * bool)) k v, aget trid_eqb k (aset trid_eqb k v d) = Some v.
Proof. intros; apply aget_aset_same. apply trid_eqb_eq; reflexivity. Qed.

Lemma aget_aset_trid_other : forall (d : list (trid * bool)) k v k', k' <> k ->
  aget trid_eqb k' (aset trid_eqb k v d) = aget trid_eqb k' d.
Proof.
  induction d as [|[k0 v0] d IH]; simpl; intros k v k' Hn.
  - destruct (trid_eqb k' k) eqn:E; [apply trid_eqb_eq in E; contradiction|reflexivity].
  - destruct (trid_eqb k k0) eqn:E; simpl.
    + apply trid_eqb_eq in E; subst k0. destruct (trid_eqb k' k) eqn:E2; [apply trid_eqb_eq in E2; contradiction|reflexivity].
    + destruct (trid_eqb k' k0); [reflexivity|apply IH; exact Hn].
Qed.

(* only the record at idx moves, and not its recorded decisions *)
Definition Rnx (idx : nat) (c c' : cstate) : Prop :=
  tasks (c_ws c') = tasks (c_ws c) /\
  (forall j, j <> idx -> nth_error (sequence (c_ws c')) j = nth_error (sequence (c_ws c)) j) /\
  (forall r, nth_error (sequence (c_ws c)) idx = Some r ->
     exists r', nth_error (sequence (c_ws c')) idx = Some r' /\ r_next r' = r_next r /\ sig r' = sig r).
Lemma Rnx_refl : forall idx c, Rnx idx c c.
Proof. intros idx c; split; [reflexivity|]. split; [auto|]. intros r H; exists r; auto. Qed.
Lemma Rnx_trans : forall idx a b c, Rnx idx a b -> Rnx idx b c -> Rnx idx a c.
Proof.
  intros idx a b c [A1 [A2 A3]] [B1 [B2 B3]]. split; [congruence|]. split.
  - intros j Hj. rewrite (B2 _ Hj). apply A2; exact Hj.
  - intros r Hr. destruct (A3 _ Hr) as [r1 [H1 [H2 H3]]]. destruct (B3 _ H1) as [r2 [H4 [H5 H6]]].
    exists r2. split; [exact H4|split; congruence].
Qed.
Lemma Rnx_same_seq : forall idx c c', tasks (c_ws c') = tasks (c_ws c) -> sequence (c_ws c') = sequence (c_ws c) -> Rnx idx c c'.
Proof. intros idx c c' H1 H2. unfold Rnx. rewrite H1, H2. split; [reflexivity|]. split; [auto|]. intros r H; exists r; auto. Qed.
Lemma Rlt_Rnx : forall idx c c', Rlt c c' -> Rnx idx c c'.
Proof. intros idx c c' [A1 [A2 _]]. apply Rnx_same_seq; assumption. Qed.
Lemma Rnx_upd : forall idx c f, (forall r, r_next (f r) = r_next r /\ sig (f r) = sig r) ->
  Rnx idx c (set_ws c (ws_update_rec (c_ws c) idx f)).
Proof.
  intros idx c f Hf. unfold Rnx. simpl. rewrite tasks_update_rec. split; [reflexivity|]. split.
  - intros j Hj. apply nth_update_rec_other. congruence.
  - intros r Hr. exists (f r). split; [apply nth_update_rec_same; exact Hr|apply Hf].
Qed.


Lemma su_fwd : forall f t r l s, In s l -> exists s', In s' (staged_update f t r l) /\ (s' = s \/ (stg_matches t r s = true /\ s' = f s)).
Proof.
  induction l as [|a l IH]; intros s Hin; [destruct Hin|]. simpl. destruct (stg_matches t r a) eqn:E.
  - destruct Hin as [->|Hin]; [exists (f s); split; [left; reflexivity|right; auto]|exists s; split; [right; exact Hin|left; reflexivity]].
  - destruct Hin as [->|Hin]; [exists s; split; [left; reflexivity|left; reflexivity]|].
    destruct (IH _ Hin) as [s' [H1 H2]]. exists s'; split; [right; exact H1|exact H2].
Qed.

Lemma su_hit : forall f t r l s0, find (stg_matches t r) l = Some s0 -> In (f s0) (staged_update f t r l).
Proof.
  induction l as [|a l IH]; intros s0 H; [discriminate|]. simpl in *. destruct (stg_matches t r a).
  - inversion H; subst. left; reflexivity.
  - right. apply IH; exact H.
Qed.

Lemma stg_matches_self : forall s, stg_matches (s_id s) (s_route s) s = true.
Proof. intro s; unfold stg_matches. rewrite String.eqb_refl, Nat.eqb_refl. reflexivity. Qed.

Lemma stg_matches_eq : forall t r s, stg_matches t r s = true -> s_id s = t /\ s_route s = r.
Proof. intros t r s H. unfold stg_matches in H. apply andb_prop in H. destruct H as [A B]. apply String.eqb_eq in A. apply Nat.eqb_eq in B. auto. Qed.

Lemma state_pure_mapM : forall A B (f : A -> M B) l, (forall a, state_pure (f a)) -> state_pure (mapM f l).
Proof.
  intros A B f l Hf; induction l as [|x l IH]; simpl; [apply state_pure_ret|].
  apply state_pure_bind; [apply Hf|intro]. apply state_pure_bind; [exact IH|intro; apply state_pure_ret].
Qed.

(* what one transition does to the record of the reporting task and to staging *)
Definition pt_frame (idx : nat) (tid : trid) (b : option bool) (c c' : cstate) : Prop :=
  tasks (c_ws c') = tasks (c_ws c) /\ c_graph c' = c_graph c /\
  (forall j, j <> idx -> nth_error (sequence (c_ws c')) j = nth_error (sequence (c_ws c)) j) /\
  (forall r, nth_error (sequence (c_ws c)) idx = Some r ->
     exists r', nth_error (sequence (c_ws c')) idx = Some r' /\ sig r' = sig r /\
       r_next r' = match b with Some v => aset trid_eqb tid v (r_next r) | None => r_next r end).

Definition staged_carried (dst : string) (v : bool) (c c' : cstate) : Prop :=
  forall s, In s (staged (c_ws c)) -> stg_plain s ->
    exists s', In s' (staged (c_ws c')) /\ s_id s' = s_id s /\ stg_plain s' /\
               (s_ready s' = s_ready s \/ (s_id s = dst /\ s_ready s' = v)).

Lemma staged_carried_same : forall dst v c c', staged (c_ws c') = staged (c_ws c) -> staged_carried dst v c c'.
Proof. intros dst v c c' H s Hin Hp. exists s. rewrite H. auto. Qed.

Section Next.
Variable ev : string -> dict -> evalres.

Lemma Rnx_pt_frame : forall idx tid c c', Rnx idx c c' -> c_graph c' = c_graph c -> pt_frame idx tid None c c'.
Proof.
  intros idx tid c c' [A1 [A2 A3]] G. split; [exact A1|]. split; [exact G|]. split; [exact A2|].
  intros r Hr. destruct (A3 _ Hr) as [r' [H1 [H2 H3]]]. exists r'; auto.
Qed.

Lemma pt_frame_then : forall idx tid b c c1 c', pt_frame idx tid b c c1 -> Rnx idx c1 c' -> c_graph c' = c_graph c1 ->
  pt_frame idx tid b c c'.
Proof.
  intros idx tid b c c1 c' [A1 [A2 [A3 A4]]] [B1 [B2 B3]] G. split; [congruence|]. split; [congruence|]. split.
  - intros j Hj. rewrite (B2 _ Hj). apply A3; exact Hj.
  - intros r Hr. destruct (A4 _ Hr) as [r1 [H1 [H2 H3]]]. destruct (B3 _ H1) as [r2 [H4 [H5 H6]]].
    exists r2. split; [exact H4|]. split; congruence.
Qed.

Lemma vlt_finalize_context : forall ts e ctx, vpres Rlt (finalize_context ev ts e ctx).
Proof.
  intros ts e ctx. unfold finalize_context. destruct (nth_error (ts_next ts) (e_ref e)); [|apply vp_raise].
  destruct (string_in (e_dst e) (tr_do t)); [apply vlt_render_vars|apply vp_ret; apply Rlt_refl].
Qed.

Lemma process_transition_eff : forall t route idx ts ctx e c c' res,
  process_transition ev t route idx ts ctx e c = (c', Val res) ->
  (pt_frame idx (ekey e) None c c' /\ staged (c_ws c') = staged (c_ws c) /\ wstatus (c_ws c') = S_FAILED) \/
  (pt_frame idx (ekey e) (Some false) c c' /\ staged (c_ws c') = staged (c_ws c)) \/
  (pt_frame idx (ekey e) (Some true) c c' /\ staged (c_ws c') = staged (c_ws c) /\ wstatus (c_ws c') = S_FAILED) \/
  (pt_frame idx (ekey e) (Some true) c c' /\
   (exists s, In s (staged (c_ws c')) /\ s_id s = e_dst e /\ stg_plain s /\
              s_ready s = sat (c_graph c') (c_ws c') (e_dst e) route) /\
   staged_carried (e_dst e) (sat (c_graph c') (c_ws c') (e_dst e) route) c c').
Proof.
  intros t route idx ts ctx e c c' res H. unfold process_transition in H.
  apply bind_val_inv' in H. destruct H as [c1 [ok [E1 H]]].
  (* the evaluation of the criteria and the record of the decision *)
  assert (S1 : (ok = None /\ Rlt c c1 /\ wstatus (c_ws c1) = S_FAILED) \/
               (exists b, ok = Some b /\ c1 = set_ws c (ws_update_rec (c_ws c) idx
                                (fun r => r_set_next r (aset trid_eqb (ekey e) b (r_next r)))))).
  { unfold try_catch in E1.
    match type of E1 with match ?m c with _ => _ end = _ => destruct (m c) as [c2 [a|x]] eqn:Em end.
    - inversion E1; subst c2 a; clear E1. right.
      apply bind_pure_inv in Em; [|apply state_pure_mapM; intro; apply evaluate_pure].
      destruct Em as [[vs [_ Em]]|[x [_ [_ X]]]]; [|discriminate X].
      apply bind_val_inv' in Em. destruct Em as [c3 [u [E3 Em]]]. inversion Em; subst. unfold upd_rec, modws in E3. inversion E3; subst.
      exists (forallb truthy vs). split; reflexivity.
    - left.
      assert (c2 = c).
      { apply bind_pure_inv in Em; [|apply state_pure_mapM; intro; apply evaluate_pure].
        destruct Em as [[vs [_ Em]]|[x' [_ [X _]]]]; [|exact X].
        apply bind_val_inv' in Em || idtac. unfold bind in Em. unfold upd_rec, modws in Em. inversion Em. }
      subst c2.
      apply bind_val_inv' in E1. destruct E1 as [c3 [u3 [E3 E1]]].
      apply bind_val_inv' in E1. destruct E1 as [c4 [u4 [E4 E1]]]. inversion E1; subst c4 ok; clear E1. destruct u4.
      split; [reflexivity|]. split; [eapply Rlt_trans; [eapply vlt_log_error; exact E3|eapply vlt_request_failed; exact E4]|].
      eapply request_failed_fails; exact E4. }
  destruct S1 as [[-> [L1 F1]]|[b [-> ->]]].
  { inversion H; subst c' res. left. split; [apply Rnx_pt_frame; [apply Rlt_Rnx; exact L1|apply L1]|]. split; [apply L1|exact F1]. }
  set (c1 := set_ws c (ws_update_rec (c_ws c) idx (fun r => r_set_next r (aset trid_eqb (ekey e) b (r_next r))))) in *.
  assert (P1 : pt_frame idx (ekey e) (Some b) c c1).
  { unfold c1, pt_frame. simpl. rewrite tasks_update_rec. split; [reflexivity|]. split; [reflexivity|]. split.
    - intros j Hj. apply nth_update_rec_other. congruence.
    - intros r Hr. eexists. split; [apply nth_update_rec_same; exact Hr|]. split; reflexivity. }
  assert (St1 : staged (c_ws c1) = staged (c_ws c)) by (unfold c1; simpl; apply staged_update_rec).
  destruct b.
  2: { inversion H; subst c' res. right; left. split; [exact P1|exact St1]. }
  apply bind_val_inv' in H. destruct H as [c2 [[new_ctx errors] [E2 H]]].
  pose proof (vlt_finalize_context _ _ _ _ _ _ E2) as L2.
  destruct errors as [|e1 errs].
  2: { apply bind_val_inv' in H. destruct H as [c3 [u3 [E3 H]]].
       apply bind_val_inv' in H. destruct H as [c4 [u4 [E4 H]]]. inversion H; subst c4 res; clear H. destruct u4.
       pose proof (vlt_log_errors _ _ _ _ _ _ _ E3) as L3. pose proof (vlt_request_failed _ _ _ E4) as L4.
       pose proof (Rlt_trans _ _ _ (Rlt_trans _ _ _ L2 L3) L4) as L.
       right; right; left. split; [eapply pt_frame_then; [exact P1|apply Rlt_Rnx; exact L|apply L]|].
       split; [rewrite <- St1; apply L|eapply request_failed_fails; exact E4]. }
  apply bind_val_inv' in H. destruct H as [c3 [r [E3 H]]]. apply get_rec_inv in E3; destruct E3 as [-> Hr].
  apply bind_val_inv' in H. destruct H as [c3 [w [E3 H]]]. inversion E3; subst c3 w; clear E3.
  apply bind_val_inv' in H. destruct H as [c3 [out_idxs [E3 H]]].
  assert (L3 : Rnx idx c2 c3 /\ staged (c_ws c3) = staged (c_ws c2) /\ c_graph c3 = c_graph c2).
  { destruct new_ctx as [|p0 l0]; [inversion E3; subst; split; [apply Rnx_refl|split; reflexivity]|].
    apply bind_val_inv' in E3. destruct E3 as [c4 [u4 [E4 E3]]]. unfold modws in E4. inversion E4; subst c4; clear E4.
    apply bind_val_inv' in E3. destruct E3 as [c5 [u5 [E5 E3]]]. unfold upd_rec, modws in E5. inversion E5; subst c5; clear E5.
    inversion E3; subst c3. split; [|split; [simpl; rewrite staged_update_rec; reflexivity|reflexivity]].
    eapply Rnx_trans; [apply (Rnx_same_seq idx c2 (set_ws c2 (ws_set_contexts (c_ws c2) (app (contexts (c_ws c2)) [p0 :: l0])))); reflexivity|].
    apply Rnx_upd. intro; split; reflexivity. }
  destruct L3 as [L3 [St3 G3]].
  apply bind_val_inv' in H. destruct H as [c4 [next_route [E4 H]]].
  assert (L4 : sequence (c_ws c4) = sequence (c_ws c3) /\ tasks (c_ws c4) = tasks (c_ws c3) /\
               staged (c_ws c4) = staged (c_ws c3) /\ c_graph c4 = c_graph c3).
  { unfold evaluate_route in E4. unfold bind at 1 in E4. unfold get at 1 in E4.
    destruct (negb (spec_is_split_task (c_spec c3) (e_dst e)) || g_in_cycle (c_graph c3) (e_dst e)); [inversion E4; subst; auto|].
    destruct (nth_error (routes (c_ws c3)) route); [|inversion E4].
    destruct (existsb _ l); [inversion E4; subst; auto|].
    apply bind_val_inv' in E4. destruct E4 as [c5 [u5 [E5 E4]]]. unfold modws in E5. inversion E5; subst c5. inversion E4; subst. simpl. auto. }
  destruct L4 as [Q4 [T4 [St4 G4]]].
  apply bind_val_inv' in H. destruct H as [c5 [w5 [E5 H]]]. inversion E5; subst c5 w5; clear E5.
  apply bind_val_inv' in H. destruct H as [c5 [u5 [E5 H]]].
  apply bind_val_inv' in H. destruct H as [c6 [cc [E6 H]]]. inversion E6; subst c6 cc; clear E6.
  apply bind_val_inv' in H. destruct H as [c6 [u6 [E6 H]]]. unfold modws in E6. inversion E6; subst c6; clear E6.
  assert (Hc' : c' = set_ws c5 (ws_set_staged (c_ws c5)
             (staged_update (fun s => s_set_ready s (inbound_eqb (get_inbound_criteria_status (c_graph c5) (c_ws c5) (e_dst e) route) InbSatisfied))
                (e_dst e) next_route (staged (c_ws c5))))).
  { destruct (is_engine_command (e_dst e)); [inversion H; reflexivity|].
    match type of H with (if ?x then _ else _) _ = _ => destruct x end; inversion H; reflexivity. }
  clear H. rewrite criteria_sat in Hc'.
  (* the staging step *)
  assert (L5 : sequence (c_ws c5) = sequence (c_ws c4) /\ tasks (c_ws c5) = tasks (c_ws c4) /\ c_graph c5 = c_graph c4 /\
               (exists s0, find (stg_matches (e_dst e) next_route) (staged (c_ws c5)) = Some s0 /\ stg_plain s0) /\
               (forall s, In s (staged (c_ws c4)) -> stg_plain s ->
                  exists s', In s' (staged (c_ws c5)) /\ s_id s' = s_id s /\ s_route s' = s_route s /\ stg_plain s' /\ s_ready s' = s_ready s)).
  { destruct (get_staged_task (c_ws c4) (e_dst e) next_route) as [sx|] eqn:Eg.
    - destruct (nat_remove_first 0 out_idxs) as [l0|]; [|inversion E5]. unfold modws in E5. inversion E5; subst c5; clear E5. simpl.
      split; [reflexivity|]. split; [reflexivity|]. split; [reflexivity|]. split.
      + unfold get_staged_task in Eg.
        assert (X : forall l, find (stg_matches (e_dst e) next_route) l = Some sx ->
                    exists s0, find (stg_matches (e_dst e) next_route)
                      (staged_update (fun s => s_set_completed (s_set_items (s_set_in_prev s (app (s_in s) l0)
                         (aset trid_eqb (t, e_key e) idx (s_prev s))) None) false) (e_dst e) next_route l) = Some s0 /\ stg_plain s0).
        { induction l as [|a l IHl]; intro Hf; [discriminate|]. simpl in *. destruct (stg_matches (e_dst e) next_route a) eqn:Em.
          - eexists. simpl. unfold stg_matches in *. simpl. rewrite Em. split; [reflexivity|split; reflexivity].
          - simpl. rewrite Em. apply IHl; exact Hf. }
        apply X; exact Eg.
      + intros s Hin Hp. destruct (su_fwd (fun s => s_set_completed (s_set_items (s_set_in_prev s (app (s_in s) l0)
                         (aset trid_eqb (t, e_key e) idx (s_prev s))) None) false) (e_dst e) next_route _ _ Hin) as [s' [Hs' [->|[_ ->]]]].
        * exists s. auto.
        * eexists. split; [exact Hs'|]. simpl. repeat split; reflexivity.
    - unfold modws in E5. inversion E5; subst c5; clear E5. simpl.
      split; [reflexivity|]. split; [reflexivity|]. split; [reflexivity|]. split.
      + exists (mk_staged (e_dst e) next_route out_idxs [((t, e_key e), idx)] false None). split; [|split; reflexivity].
        unfold get_staged_task in Eg.
        assert (X : forall l x, find (stg_matches (e_dst e) next_route) l = None -> stg_matches (e_dst e) next_route x = true ->
                     find (stg_matches (e_dst e) next_route) (app l [x]) = Some x).
        { induction l as [|a l IHl]; intros x Hf Hx; simpl in *; [rewrite Hx; reflexivity|].
          destruct (stg_matches (e_dst e) next_route a); [discriminate|]. apply IHl; assumption. }
        apply X; [exact Eg|]. unfold stg_matches, mk_staged; simpl. rewrite String.eqb_refl, Nat.eqb_refl. reflexivity.
      + intros s Hin Hp. exists s. split; [apply in_or_app; left; exact Hin|auto]. }
  destruct L5 as [Q5 [T5 [G5 [[s0 [Hf0 Hp0]] Hcar]]]].
  (* assemble *)
  assert (Qc' : sequence (c_ws c') = sequence (c_ws c5) /\ tasks (c_ws c') = tasks (c_ws c5) /\ c_graph c' = c_graph c5)
    by (rewrite Hc'; simpl; auto).
  destruct Qc' as [Q6 [T6 G6]].
  assert (Hsat : sat (c_graph c5) (c_ws c5) (e_dst e) route = sat (c_graph c') (c_ws c') (e_dst e) route).
  { rewrite G6. symmetry. apply sat_same; assumption. }
  assert (Fr : pt_frame idx (ekey e) (Some true) c c').
  { assert (G2 : c_graph c2 = c_graph c1) by apply L2.
    eapply pt_frame_then; [exact P1| |congruence].
    eapply Rnx_trans; [apply Rlt_Rnx; exact L2|]. eapply Rnx_trans; [exact L3|].
    apply Rnx_same_seq; congruence. }
  right; right; right. split; [exact Fr|]. rewrite <- Hsat.
  split.
  - exists (s_set_ready s0 (sat (c_graph c5) (c_ws c5) (e_dst e) route)). split.
    + rewrite Hc'. simpl.
      apply (su_hit (fun s => s_set_ready s (sat (c_graph c5) (c_ws c5) (e_dst e) route)) (e_dst e) next_route _ s0 Hf0).
    + simpl. apply find_some in Hf0. destruct Hf0 as [_ Hm]. apply stg_matches_eq in Hm. destruct Hp0. repeat split; tauto.
  - intros s Hin Hp. assert (Hin4 : In s (staged (c_ws c4))) by (rewrite St4, St3; destruct L2 as [_ [_ [X _]]]; rewrite X, St1; exact Hin).
    destruct (Hcar _ Hin4 Hp) as [s' [J1 [J2 [J2' [J3 J4]]]]].
    destruct (su_fwd (fun s => s_set_ready s (sat (c_graph c5) (c_ws c5) (e_dst e) route)) (e_dst e) next_route _ _ J1) as [s'' [K1 [->|[Km ->]]]].
    + exists s'. rewrite Hc'. simpl. auto.
    + eexists. rewrite Hc'. simpl. split; [exact K1|]. simpl. split; [exact J2|]. split; [exact J3|]. right.
      apply stg_matches_eq in Km. destruct Km as [Km _]. split; [congruence|reflexivity].
Qed.

End Next.

(* ---------------------------------------------------------------- the satisfied test is stable *)

Lemma next_transitions_in : forall g t e, In e (g_next_transitions g t) ->
  In e (g_prev_transitions g (e_dst e)) /\ e_src e = t.
Proof.
  intros g t e H. unfold g_next_transitions in H. apply In_sort_by in H. apply filter_In in H. destruct H as [Hin Hs].
  apply String.eqb_eq in Hs. split; [|exact Hs]. unfold g_prev_transitions. apply filter_In. split; [exact Hin|apply String.eqb_refl].
Qed.

Lemma In_dedup_by : forall (l : list string) x, In x l -> In x (dedup_by String.eqb l).
Proof.
  intros l x H. unfold dedup_by.
  assert (G : forall l acc, In x acc \/ In x l ->
            In x (fold_left (fun acc y => if existsb (String.eqb y) acc then acc else app acc [y]) l acc)).
  { induction l0 as [|y l0 IH]; intros acc [Ha|Hl]; simpl; auto; try contradiction.
    - apply IH. left. destruct (existsb (String.eqb y) acc); [exact Ha|apply in_or_app; left; exact Ha].
    - destruct Hl as [->|Hl]; [|apply IH; right; exact Hl]. apply IH. left.
      destruct (existsb (String.eqb x) acc) eqn:E; [|apply in_or_app; right; left; reflexivity].
      apply existsb_exists in E. destruct E as [z [Hz Ez]]. apply String.eqb_eq in Ez. subst; exact Hz. }
  apply G. right; exact H.
Qed.

(* the evaluation of the inbound criteria of dst does not change when only the record at idx changes and the
   task of that record stays satisfied for dst *)
Lemma inbound_evaluation_stable : forall g w w' dst route idx r r' e0,
  tasks_ok w -> tasks w' = tasks w ->
  (forall j, j <> idx -> nth_error (sequence w') j = nth_error (sequence w) j) ->
  nth_error (sequence w) idx = Some r -> nth_error (sequence w') idx = Some r' -> r_id r' = r_id r ->
  In e0 (g_prev_transitions g dst) -> e_src e0 = r_id r ->
  aget trid_eqb (dst, e_key e0) (r_next r) = Some true -> aget trid_eqb (dst, e_key e0) (r_next r') = Some true ->
  inbound_evaluation g w' dst route = inbound_evaluation g w dst route.
Proof.
  intros g w w' dst route idx r r' e0 [_ Ht] Htk Hoth Hr Hr' Hid Hin Hsrc He He'.
  unfold inbound_evaluation. apply map_ext. intro src. f_equal.
  unfold ws_task_entry, ws_task_idx. rewrite Htk.
  destruct (aget tkey_eqb (src, route) (tasks w)) as [i|] eqn:Ea; [|reflexivity].
  destruct (Nat.eq_dec i idx) as [->|Hne]; [|rewrite (Hoth _ Hne); reflexivity].
  rewrite Hr, Hr'. f_equal.
  destruct (Ht _ _ (aget_In_tkey _ _ _ Ea)) as [r0 [Hr0 Hk]]. rewrite Hr in Hr0; inversion Hr0; subst r0.
  unfold key_of in Hk. inversion Hk as [[Hk1 Hk2]].
  assert (W : forall rr, aget trid_eqb (dst, e_key e0) (r_next rr) = Some true ->
          existsb (fun e => String.eqb (e_src e) (r_id r) &&
                            match aget trid_eqb (dst, e_key e) (r_next rr) with Some true => true | _ => false end)
                  (g_prev_transitions g dst) = true).
  { intros rr Hrr. apply existsb_exists. exists e0. split; [exact Hin|]. rewrite Hsrc, String.eqb_refl, Hrr. reflexivity. }
  rewrite (W r He), (W r' He'). reflexivity.
Qed.

Lemma sat_stable : forall g w w' dst route idx r r' e0,
  tasks_ok w -> tasks w' = tasks w ->
  (forall j, j <> idx -> nth_error (sequence w') j = nth_error (sequence w) j) ->
  nth_error (sequence w) idx = Some r -> nth_error (sequence w') idx = Some r' -> r_id r' = r_id r ->
  In e0 (g_prev_transitions g dst) -> e_src e0 = r_id r ->
  aget trid_eqb (dst, e_key e0) (r_next r) = Some true -> aget trid_eqb (dst, e_key e0) (r_next r') = Some true ->
  sat g w' dst route = sat g w dst route.
Proof.
  intros. unfold sat. rewrite (inbound_evaluation_stable g w w' dst route idx r r' e0); auto.
Qed.

(* without a barrier one satisfied inbound transition satisfies the criteria *)
Lemma sat_no_barrier : forall g w dst route i r e0,
  g_has_barrier g dst = false ->
  aget tkey_eqb (e_src e0, route) (tasks w) = Some i -> nth_error (sequence w) i = Some r ->
  In e0 (g_prev_transitions g dst) -> aget trid_eqb (dst, e_key e0) (r_next r) = Some true ->
  sat g w dst route = true.
Proof.
  intros g w dst route i r e0 Hb Ha Hr Hin He. unfold sat. cbv zeta.
  assert (Hreq : forall n, inbound_requirement g dst n = 1%Z).
  { intro n. unfold inbound_requirement. unfold g_has_barrier in Hb. destruct (g_barrier g dst) as [| | | |s|l|d]; try reflexivity; try discriminate Hb.
    destruct s as [|a s]; [reflexivity|]. discriminate Hb. }
  rewrite Hreq.
  set (evl := inbound_evaluation g w dst route).
  assert (Hin' : In (e_src e0, Some true) evl).
  { unfold evl, inbound_evaluation. apply in_map_iff. exists (e_src e0). split.
    - f_equal. unfold ws_task_entry, ws_task_idx. rewrite Ha, Hr. f_equal. apply existsb_exists. exists e0.
      split; [exact Hin|]. rewrite String.eqb_refl, He. reflexivity.
    - apply In_dedup_by. apply in_map_iff. exists e0; split; [reflexivity|exact Hin]. }
  assert (Hf : In (e_src e0, Some true) (filter (fun '(_, v) => match v with Some true => true | _ => false end) evl))
    by (apply filter_In; split; [exact Hin'|reflexivity]).
  destruct (filter _ evl) as [|x l]; [destruct Hf|]. simpl. apply Z.leb_le. lia.
Qed.

(* ---------------------------------------------------------------- the loop over the transitions *)

Section Loop.
Variable ev : string -> dict -> evalres.
Variables (t : string) (route idx : nat) (ts : task_spec) (ctx : dict) (g : graph).

(* the staged entry of the target of e is ready, or the criteria of the target are not satisfied *)
Definition Good (e : gedge) (c : cstate) : Prop :=
  exists s, In s (staged (c_ws c)) /\ s_id s = e_dst e /\ stg_plain s /\
            (s_ready s = true \/ sat g (c_ws c) (e_dst e) route = false).

Definition entry_val (e : gedge) (c : cstate) (v : option bool) : Prop :=
  exists r, nth_error (sequence (c_ws c)) idx = Some r /\ aget trid_eqb (ekey e) (r_next r) = v.

Definition base (c : cstate) : Prop :=
  winv c /\ c_graph c = g /\ aget tkey_eqb (t, route) (tasks (c_ws c)) = Some idx.

Lemma base_step : forall e c c' res, base c -> process_transition ev t route idx ts ctx e c = (c', Val res) -> base c'.
Proof.
  intros e c c' res [Hw [Hg Hp]] H. split; [exact (vw_process_transition ev _ _ _ _ _ _ _ _ _ H Hw)|].
  destruct (vfr_process_transition ev _ _ _ _ _ _ _ _ _ H) as [T [_ [_ [G _]]]]. split; [congruence|rewrite T; exact Hp].
Qed.

Lemma failed_step : forall e c c' res, process_transition ev t route idx ts ctx e c = (c', Val res) ->
  wstatus (c_ws c) = S_FAILED -> wstatus (c_ws c') = S_FAILED.
Proof.
  intros e c c' res H Hf. destruct (vfr_process_transition ev _ _ _ _ _ _ _ _ _ H) as [_ [_ [[W|W] _]]]; congruence.
Qed.

Lemma frame_of_eff : forall e c c' res, process_transition ev t route idx ts ctx e c = (c', Val res) ->
  exists b, pt_frame idx (ekey e) b c c'.
Proof.
  intros e c c' res H. destruct (process_transition_eff ev _ _ _ _ _ _ _ _ _ H) as [[F _]|[[F _]|[[F _]|[F _]]]]; eexists; exact F.
Qed.

(* another transition keeps a recorded decision and the readiness of its target *)
Lemma pt_keeps_good : forall e0 e c c' res, base c -> In e0 (g_next_transitions g t) -> ekey e <> ekey e0 ->
  process_transition ev t route idx ts ctx e c = (c', Val res) ->
  entry_val e0 c (Some true) -> Good e0 c -> entry_val e0 c' (Some true) /\ Good e0 c'.
Proof.
  intros e0 e c c' res [Hw [Hg Hp]] Hin0 Hne H [r [Hr He]] [s [Hs [Hid [Hpl Hrd]]]].
  destruct (next_transitions_in _ _ _ Hin0) as [Hprev Hsrc].
  destruct (proj2 (proj1 Hw) _ _ (aget_In_tkey _ _ _ Hp)) as [r0 [Hr0 Hk0]]. rewrite Hr in Hr0; inversion Hr0; subst r0.
  assert (Hrid : r_id r = t) by (unfold key_of in Hk0; congruence).
  (* the frame *)
  destruct (frame_of_eff _ _ _ _ H) as [b [T [G [Oth Rec]]]].
  destruct (Rec _ Hr) as [r' [Hr' [Hsig Hnext]]].
  assert (He' : aget trid_eqb (ekey e0) (r_next r') = Some true).
  { rewrite Hnext. destruct b as [v|]; [rewrite aget_aset_trid_other by (intro X; apply Hne; symmetry; exact X)|]; exact He. }
  assert (Hid' : r_id r' = r_id r) by (unfold sig in Hsig; congruence).
  assert (Hsat : sat g (c_ws c') (e_dst e0) route = sat g (c_ws c) (e_dst e0) route).
  { apply (sat_stable g (c_ws c) (c_ws c') (e_dst e0) route idx r r' e0 (proj1 Hw) T Oth Hr Hr' Hid' Hprev);
      [congruence|exact He|exact He']. }
  split; [exists r'; auto|].
  assert (Same : staged (c_ws c') = staged (c_ws c) -> Good e0 c').
  { intro St. exists s. rewrite St, Hsat. auto. }
  destruct (process_transition_eff ev _ _ _ _ _ _ _ _ _ H) as [[_ [St _]]|[[_ St]|[[_ [St _]]|[_ [_ Car]]]]]; try (apply Same; exact St).
  destruct (Car _ Hs Hpl) as [s' [H1 [H2 [H3 H4]]]]. exists s'. split; [exact H1|]. split; [congruence|]. split; [exact H3|].
  rewrite Hsat. destruct H4 as [H4|[H4 H5]].
  - rewrite H4. exact Hrd.
  - rewrite G, Hg in H5. assert (Hd : e_dst e = e_dst e0) by congruence. rewrite Hd, Hsat in H5.
    rewrite H5. destruct (sat g (c_ws c) (e_dst e0) route); auto.
Qed.

(* the transition itself: the workflow fails, or the decision is "no", or the target is staged *)
Lemma pt_sets_good : forall e c c' res, base c -> process_transition ev t route idx ts ctx e c = (c', Val res) ->
  (exists r, nth_error (sequence (c_ws c)) idx = Some r) ->
  wstatus (c_ws c') = S_FAILED \/ entry_val e c' (Some false) \/ (entry_val e c' (Some true) /\ Good e c').
Proof.
  intros e c c' res [Hw [Hg Hp]] H [r Hr].
  destruct (process_transition_eff ev _ _ _ _ _ _ _ _ _ H) as [[_ [_ F]]|[[F _]|[[_ [_ F]]|[F [[s [H1 [H2 [H3 H4]]]] _]]]]]; auto.
  - right; left. destruct F as [_ [_ [_ Rec]]]. destruct (Rec _ Hr) as [r' [Hr' [_ Hn]]]. exists r'. split; [exact Hr'|].
    rewrite Hn. apply aget_aset_trid_same.
  - right; right. pose proof F as [_ [G [_ Rec]]]. destruct (Rec _ Hr) as [r' [Hr' [_ Hn]]]. split.
    + exists r'. split; [exact Hr'|]. rewrite Hn. apply aget_aset_trid_same.
    + exists s. rewrite G, Hg in H4. split; [exact H1|]. split; [exact H2|]. split; [exact H3|].
      rewrite H4. destruct (sat g (c_ws c') (e_dst e) route); auto.
Qed.

Lemma entry_kept : forall e0 e c c' res v, ekey e <> ekey e0 ->
  process_transition ev t route idx ts ctx e c = (c', Val res) -> entry_val e0 c v -> entry_val e0 c' v.
Proof.
  intros e0 e c c' res v Hne H [r [Hr He]]. destruct (frame_of_eff _ _ _ _ H) as [b [_ [_ [_ Rec]]]].
  destruct (Rec _ Hr) as [r' [Hr' [_ Hn]]]. exists r'. split; [exact Hr'|]. rewrite Hn.
  destruct b as [x|]; [rewrite aget_aset_trid_other by (intro X; apply Hne; symmetry; exact X)|]; exact He.
Qed.

Lemma idx_kept : forall e c c' res, process_transition ev t route idx ts ctx e c = (c', Val res) ->
  (exists r, nth_error (sequence (c_ws c)) idx = Some r) -> exists r', nth_error (sequence (c_ws c')) idx = Some r'.
Proof.
  intros e c c' res H [r Hr]. destruct (frame_of_eff _ _ _ _ H) as [b [_ [_ [_ Rec]]]]. destruct (Rec _ Hr) as [r' [Hr' _]]. exists r'; exact Hr'.
Qed.

Definition outcome (e : gedge) (c : cstate) : Prop :=
  wstatus (c_ws c) = S_FAILED \/ entry_val e c (Some false) \/ (entry_val e c (Some true) /\ Good e c).

Lemma outcome_step : forall e0 e c c' res, base c -> In e0 (g_next_transitions g t) -> ekey e <> ekey e0 ->
  process_transition ev t route idx ts ctx e c = (c', Val res) -> outcome e0 c -> outcome e0 c'.
Proof.
  intros e0 e c c' res Hb Hin Hne H [O|[O|[O1 O2]]].
  - left. eapply failed_step; eassumption.
  - right; left. eapply entry_kept; eassumption.
  - right; right. eapply pt_keeps_good; eassumption.
Qed.

Lemma loop_outcomes : forall l c c' rs, NoDup (map ekey l) -> (forall e, In e l -> In e (g_next_transitions g t)) ->
  base c -> (exists r, nth_error (sequence (c_ws c)) idx = Some r) ->
  mapM (process_transition ev t route idx ts ctx) l c = (c', Val rs) ->
  base c' /\ (exists r, nth_error (sequence (c_ws c')) idx = Some r) /\ forall e, In e l -> outcome e c'.
Proof.
  induction l as [|e l IH]; intros c c' rs Hnd Hl Hb Hr H; simpl in H.
  - inversion H; subst. split; [exact Hb|]. split; [exact Hr|]. intros e [].
  - apply bind_val_inv' in H. destruct H as [c1 [res [E1 H]]].
    apply bind_val_inv' in H. destruct H as [c2 [rs' [E2 H]]]. inversion H; subst c2 rs; clear H.
    inversion Hnd as [|x xs Hx Hnd']; subst.
    pose proof (base_step _ _ _ _ Hb E1) as Hb1. pose proof (idx_kept _ _ _ _ E1 Hr) as Hr1.
    destruct (IH _ _ _ Hnd' (fun e' He' => Hl e' (or_intror He')) Hb1 Hr1 E2) as [Hb2 [Hr2 Hout]].
    split; [exact Hb2|]. split; [exact Hr2|]. intros e0 [->|Hin]; [|apply Hout; exact Hin].
    (* the head: its outcome right after its own step, carried through the rest *)
    pose proof (pt_sets_good _ _ _ _ Hb E1 Hr) as O1.
    assert (Carry : forall l2 ca cb rs2, (forall e', In e' l2 -> ekey e' <> ekey e0) ->
              (forall e', In e' l2 -> In e' (g_next_transitions g t)) -> base ca ->
              mapM (process_transition ev t route idx ts ctx) l2 ca = (cb, Val rs2) -> outcome e0 ca -> outcome e0 cb).
    { induction l2 as [|e2 l2 IH2]; intros ca cb rs2 Hk Hl2 Hba Hm Ho; simpl in Hm; [inversion Hm; subst; exact Ho|].
      apply bind_val_inv' in Hm. destruct Hm as [cx [rx [Ex Hm]]].
      apply bind_val_inv' in Hm. destruct Hm as [cy [ry [Ey Hm]]]. inversion Hm; subst cy rs2; clear Hm.
      eapply IH2; [intros e' He'; apply Hk; right; exact He'|intros e' He'; apply Hl2; right; exact He'|eapply base_step; eassumption|exact Ey|].
      eapply outcome_step; [exact Hba|apply Hl; left; reflexivity|apply Hk; left; reflexivity|exact Ex|exact Ho]. }
    eapply Carry; [| |exact Hb1|exact E2|exact O1].
    + intros e' He' X. apply Hx. rewrite <- X. apply in_map. exact He'.
    + intros e' He'. apply Hl. right; exact He'.
Qed.

End Loop.

(* ---------------------------------------------------------------- the premise of the system invariant *)

Section Final.
Variable ev : string -> dict -> evalres.

Lemma run_on_fail_eff : forall l c c',
  forM_ l (fun '(n, rt) => modws (fun w => ws_set_staged w (staged_update (fun s => s_set_run_on_fail s true) n rt (staged w)))) c = (c', Val tt) ->
  sequence (c_ws c') = sequence (c_ws c) /\ tasks (c_ws c') = tasks (c_ws c) /\ wstatus (c_ws c') = wstatus (c_ws c) /\
  c_graph c' = c_graph c /\
  forall s, In s (staged (c_ws c)) -> exists s', In s' (staged (c_ws c')) /\ s_id s' = s_id s /\ (stg_plain s -> stg_plain s') /\ s_ready s' = s_ready s.
Proof.
  induction l as [|[n rt] l IH]; intros c c' H; simpl in H.
  - inversion H; subst. repeat split; auto. intros s Hs; exists s; auto.
  - apply bind_val_inv' in H. destruct H as [c1 [u [E1 H]]]. unfold modws in E1. inversion E1; subst c1; clear E1.
    destruct (IH _ _ H) as [A1 [A2 [A3 [A4 A5]]]]. simpl in *. repeat split; auto.
    intros s Hs. destruct (su_fwd (fun s => s_set_run_on_fail s true) n rt _ _ Hs) as [s1 [H1 [->|[_ ->]]]].
    + apply A5; exact H1.
    + destruct (A5 _ H1) as [s' [B1 [B2 [B3 B4]]]]. exists s'. simpl in *. auto.
Qed.

(* setting the terminal flag, or not *)
Definition Rterm (idx : nat) (c c' : cstate) : Prop :=
  Rnx idx c c' /\ staged (c_ws c') = staged (c_ws c) /\ wstatus (c_ws c') = wstatus (c_ws c) /\ c_graph c' = c_graph c.

Lemma term_upd : forall idx c c' u, upd_rec idx (fun r => r_set_term r true) c = (c', Val u) -> Rterm idx c c'.
Proof.
  intros idx c c' u H. unfold upd_rec, modws in H. inversion H; subst c'. split; [apply Rnx_upd; intro; split; reflexivity|].
  simpl. rewrite staged_update_rec, wstatus_update_rec. auto.
Qed.
Lemma Rterm_refl : forall idx c, Rterm idx c c.
Proof. intros; split; [apply Rnx_refl|auto]. Qed.

Lemma entry_val_Rnx : forall idx e c c' v, Rnx idx c c' -> entry_val idx e c v -> entry_val idx e c' v.
Proof.
  intros idx e c c' v [_ [_ R]] [r [Hr He]]. destruct (R _ Hr) as [r' [Hr' [Hn _]]]. exists r'. split; [exact Hr'|congruence].
Qed.

Theorem queue_hnt : forall g, (forall t, NoDup (map ekey (g_next_transitions g t))) -> queue_hnt_prop ev g.
Proof.
  intros g Hnd t route idx ts old new ctx cp cq q Hg Hw Hp H Hneq Hst Hnt.
  pose proof (vw_queue ev _ _ _ _ _ _ _ _ _ _ H Hw) as Hwq.
  unfold uts_queue in H.
  assert (Eb : negb (status_eqb new old) = true).
  { apply negb_true_iff. destruct (status_eqb new old) eqn:E; [apply status_eqb_eq in E; contradiction|reflexivity]. }
  rewrite Eb in H.
  apply bind_val_inv' in H. destruct H as [c0 [cst [E0 H]]]. inversion E0; subst c0 cst; clear E0. cbv zeta in H. rewrite Hg in H.
  apply bind_val_inv' in H. destruct H as [c1 [u1 [E1 H]]].
  apply bind_val_inv' in H. destruct H as [c2 [rs [E2 H]]].
  apply bind_val_inv' in H. destruct H as [c3 [u3 [E3 H]]].
  apply bind_val_inv' in H. destruct H as [c4 [r4 [E4 H]]]. apply get_rec_inv in E4; destruct E4 as [-> Hr4].
  apply bind_val_inv' in H. destruct H as [c5 [u5 [E5 H]]]. inversion H; subst c5 q; clear H.
  (* the frames of the small steps *)
  assert (T1 : Rterm idx cp c1) by (destruct (g_next_transitions g t); [eapply term_upd; exact E1|inversion E1; subst; apply Rterm_refl]).
  assert (T5 : Rterm idx c3 cq).
  { destruct (g_next_transitions g t); [inversion E5; subst; apply Rterm_refl|].
    destruct (existsb _ (r_next r4)); [inversion E5; subst; apply Rterm_refl|eapply term_upd; exact E5]. }
  assert (T3 : sequence (c_ws c3) = sequence (c_ws c2) /\ tasks (c_ws c3) = tasks (c_ws c2) /\ wstatus (c_ws c3) = wstatus (c_ws c2) /\
               c_graph c3 = c_graph c2 /\
               forall s, In s (staged (c_ws c2)) -> exists s', In s' (staged (c_ws c3)) /\ s_id s' = s_id s /\ (stg_plain s -> stg_plain s') /\ s_ready s' = s_ready s).
  { destruct (existsb _ _); [destruct u3; eapply run_on_fail_eff; exact E3|]. inversion E3; subst. repeat split; auto. intros s Hs; exists s; auto. }
  destruct T1 as [N1 [S1 [W1 G1]]]. destruct T5 as [N5 [S5 [W5 G5]]]. destruct T3 as [Q3 [K3 [W3 [G3 Car3]]]].
  (* the record of the reporting task exists all along *)
  destruct (proj2 (proj1 Hw) _ _ (aget_In_tkey _ _ _ Hp)) as [rp [Hrp Hkp]].
  assert (Hb1 : base t route idx g c1).
  { split; [|split; [congruence|destruct N1 as [X _]; rewrite X; exact Hp]].
    destruct (g_next_transitions g t); [|inversion E1; subst; exact Hw].
    unfold upd_rec, modws in E1. inversion E1; subst c1. apply winv_update_rec; [intro; reflexivity|exact Hw]. }
  assert (Hr1 : exists r, nth_error (sequence (c_ws c1)) idx = Some r).
  { destruct N1 as [_ [_ X]]. destruct (X _ Hrp) as [r' [Y _]]. exists r'; exact Y. }
  destruct (loop_outcomes ev t route idx ts ctx g _ _ _ _ (Hnd t) (fun e He => He) Hb1 Hr1 E2) as [[Hw2 [G2 P2]] [Hr2 Hout]].
  assert (Gq : c_graph cq = g) by congruence.
  (* the witness of has_next_tasks *)
  unfold has_next_tasks, has_next in Hnt. rewrite Gq in Hnt.
  assert (Pq : aget tkey_eqb (t, route) (tasks (c_ws cq)) = Some idx).
  { destruct N5 as [X _]. rewrite X, K3. exact P2. }
  unfold ws_task_entry, ws_task_idx in Hnt. rewrite Pq in Hnt.
  destruct (nth_error (sequence (c_ws cq)) idx) as [rq|] eqn:Erq; [|discriminate].
  destruct (negb (ostatus_in (r_status rq) COMPLETED_STATUSES)); [discriminate|].
  apply existsb_exists in Hnt. destruct Hnt as [e0 [Hin0 Hcl]].
  destruct (String.eqb (e_dst e0) "continue"); [discriminate|].
  destruct (aget trid_eqb (e_dst e0, e_key e0) (r_next rq)) as [[|]|] eqn:Ent; try discriminate.
  (* the outcome of that transition, carried to the end *)
  assert (Hwst : wstatus (c_ws cq) = wstatus (c_ws c2)) by congruence.
  assert (Ev : forall v, entry_val idx e0 c2 v -> v = Some true).
  { intros v Hv. assert (X : entry_val idx e0 c3 v) by (destruct Hv as [r [A B]]; exists r; rewrite Q3; auto).
    apply (entry_val_Rnx idx e0 c3 cq v N5) in X. destruct X as [r [A B]]. rewrite Erq in A. inversion A; subst r.
    unfold ekey in B. congruence. }
  destruct (Hout _ Hin0) as [O|[O|[O1 [s [Hs [Hid [Hpl Hrd]]]]]]].
  { rewrite <- Hwst in O. rewrite O in Hst. simpl in Hst. intuition discriminate. }
  { specialize (Ev _ O). discriminate. }
  destruct (Car3 _ Hs) as [s' [Hs' [Hid' [Hpl' Hrd']]]]. rewrite <- S5 in Hs'.
  destruct (next_transitions_in _ _ _ Hin0) as [Hprev Hsrc].
  destruct Hrd as [Hrd|Hrd].
  { right. unfold stgb. apply has_staged_iff. exists s'. split; [exact Hs'|]. split; [congruence|apply (Hpl' Hpl)]. }
  (* the criteria were not satisfied when the entry was made ready: they are not now *)
  assert (Hsatq : sat g (c_ws cq) (e_dst e0) route = false).
  { destruct O1 as [r2 [Hr2' He2]].
    assert (Hr3 : nth_error (sequence (c_ws c3)) idx = Some r2) by (rewrite Q3; exact Hr2').
    destruct N5 as [Tq [Oq Rq]]. destruct (Rq _ Hr3) as [rq' [Hrq' [Hnq Hsq]]]. rewrite Erq in Hrq'. inversion Hrq'; subst rq'.
    destruct (proj2 (proj1 Hw2) _ _ (aget_In_tkey _ _ _ P2)) as [r2' [Hr2'' Hk2]]. rewrite Hr2' in Hr2''. inversion Hr2''; subst r2'.
    assert (Hid2 : r_id r2 = t) by (unfold key_of in Hk2; congruence).
    assert (Tok3 : tasks_ok (c_ws c3)).
    { destruct Hw2 as [[A B] _]. split; [rewrite K3; exact A|]. intros k i Hk. rewrite K3 in Hk. rewrite Q3. apply B; exact Hk. }
    assert (X1 : r_id rq = r_id r2) by (unfold sig in Hsq; congruence).
    assert (X2 : e_src e0 = r_id r2) by congruence.
    assert (X3 : aget trid_eqb (e_dst e0, e_key e0) (r_next r2) = Some true) by (unfold ekey in He2; exact He2).
    rewrite (sat_stable g (c_ws c3) (c_ws cq) (e_dst e0) route idx r2 rq e0 Tok3 Tq Oq Hr3 Erq X1 Hprev X2 X3 Ent).
    rewrite (sat_same g (c_ws c2) (c_ws c3)); [exact Hrd|exact K3|exact Q3]. }
  destruct (g_has_barrier g (e_dst e0)) eqn:Ebar.
  - cbn [negb] in Hcl. apply negb_true_iff in Hcl.
    pose proof (criteria_unsat_wip g (c_ws cq) (e_dst e0) route Hsatq Hcl) as Hor.
    apply orb_prop in Hor. destruct Hor as [Ha|Hs2]; [left; apply (has_active_iff cq Hwq); exact Ha|right; exact Hs2].
  - exfalso. rewrite (sat_no_barrier g (c_ws cq) (e_dst e0) route idx rq e0 Ebar) in Hsatq; [discriminate| |exact Erq|exact Hprev|exact Ent].
    rewrite Hsrc. exact Pq.
Qed.

End Final.

(* ================================================================== the theorems about reachable system states *)

Lemma trid_nodup_b_sound : forall l, trid_nodup_b l = true -> NoDup l.
Proof.
  induction l as [|x l IH]; intro H; [constructor|]. simpl in H. apply andb_prop in H. destruct H as [H1 H2].
  constructor; [|apply IH; exact H2]. intro Hin. apply negb_true_iff in H1.
  assert (X : existsb (trid_eqb x) l = true) by (apply existsb_exists; exists x; split; [exact Hin|apply trid_eqb_eq; reflexivity]).
  congruence.
Qed.

Lemma edge_keys_unique_sound : forall g, edge_keys_unique_b g = true -> forall t, NoDup (map ekey (g_next_transitions g t)).
Proof.
  intros g H t. destruct (g_next_transitions g t) as [|e l] eqn:E; [constructor|].
  assert (Hin : In e (g_next_transitions g t)) by (rewrite E; left; reflexivity).
  destruct (next_transitions_in _ _ _ Hin) as [Hp Hs]. unfold g_prev_transitions in Hp. apply filter_In in Hp. destruct Hp as [Hp _].
  unfold edge_keys_unique_b in H. rewrite forallb_forall in H. specialize (H _ Hp). rewrite Hs, E in H.
  apply trid_nodup_b_sound. exact H.
Qed.

Lemma sys_graph_ok_sound : forall g, sys_graph_ok g = true ->
  graph_commands_inert g /\ (forall t, In t (g_roots g) -> is_engine_command t = false) /\ g_roots g <> [] /\
  (forall t, NoDup (map ekey (g_next_transitions g t))).
Proof.
  intros g H. unfold sys_graph_ok in H. apply andb_prop in H. destruct H as [H H4]. apply andb_prop in H. destruct H as [H H3].
  apply andb_prop in H. destruct H as [H1 H2].
  split; [apply inert_b_sound; exact H1|]. split.
  - intros t Ht. unfold roots_not_cmds_b in H2. rewrite forallb_forall in H2. apply negb_true_iff. apply H2; exact Ht.
  - split; [unfold has_root_b in H3; destruct (g_roots g); [discriminate|discriminate]|apply edge_keys_unique_sound; exact H4].
Qed.

Section Theorems.
Variable ev : string -> dict -> evalres.
Variable sp : wf_spec.
Variable g : graph.
Variables inputs parent : dict.
Hypothesis Hni : no_items sp = true.
Hypothesis Hok : sys_graph_ok g = true.

(* the invariant of every reachable, fault-free system state *)
Theorem reachable_cinv : forall ops, let s := sys_run ev ops (sys_init sp g inputs parent) in
  s_fault s = false ->
  (s_c s = init_cstate sp g inputs parent /\ s_inflight s = []) \/ cinv sp g (s_c s) (s_inflight s).
Proof.
  intros ops s Hf. destruct (sys_graph_ok_sound _ Hok) as [H1 [H2 [H3 H4]]].
  exact (sys_reachable_inv ev sp g inputs parent Hni H1 H2 H3 (queue_hnt ev g H4) ops Hf).
Qed.

Lemma pstat_entry : forall c k x, pstat c k = Some x <->
  exists r, ws_task_entry (c_ws c) (fst k) (snd k) = Some r /\ r_status r = x.
Proof.
  intros c [t rt] x. unfold pstat, ws_task_entry, ws_task_idx. simpl.
  destruct (aget tkey_eqb (t, rt) (tasks (c_ws c))) as [i|]; [|split; [discriminate|intros [r [H _]]; discriminate]].
  destruct (nth_error (sequence (c_ws c)) i) as [r|]; [|split; [discriminate|intros [r [H _]]; discriminate]].
  split; [intro H; inversion H; exists r; auto|intros [r' [H1 H2]]; inversion H1; subst; reflexivity].
Qed.

(* (I1) every action in flight has a record, reachable through the pointer map, that is running (an active status) *)
Theorem link_inflight_has_active_record : forall ops, let s := sys_run ev ops (sys_init sp g inputs parent) in
  s_fault s = false -> forall k, In k (s_inflight s) ->
  exists r, ws_task_entry (c_ws (s_c s)) (fst k) (snd k) = Some r /\ r_status r = Some S_RUNNING /\
            ostatus_in (r_status r) ACTIVE_STATUSES = true.
Proof.
  intros ops s Hf k Hk. destruct (reachable_cinv ops Hf) as [[_ HF]|I]; [fold s in HF; rewrite HF in Hk; destruct Hk|].
  destruct I as (_ & _ & _ & _ & _ & _ & _ & _ & I9 & _). apply I9 in Hk. apply pstat_entry in Hk.
  destruct Hk as [r [H1 H2]]. exists r. split; [exact H1|]. split; [exact H2|rewrite H2; reflexivity].
Qed.

(* (I2) every task execution the conductor counts active (get_tasks_by_status(ACTIVE_STATUSES): pointed records with an
   active status) is in flight at the provider *)
Theorem link_active_record_in_flight : forall ops, let s := sys_run ev ops (sys_init sp g inputs parent) in
  s_fault s = false -> forall i r, In (i, r) (ws_tasks_by_status (c_ws (s_c s)) ACTIVE_STATUSES) ->
  In (r_id r, r_route r) (s_inflight s) /\ r_status r = Some S_RUNNING.
Proof.
  intros ops s Hf i r Hin. destruct (reachable_cinv ops Hf) as [[Hc _]|I].
  { fold s in Hc. rewrite Hc in Hin. simpl in Hin. destruct Hin. }
  fold s in I. destruct I as (_ & _ & _ & I4 & I5 & _ & _ & _ & _ & I10 & _).
  destruct (tasks_by_status_In _ _ _ _ Hin) as [Hn Ha].
  unfold ws_tasks_by_status in Hin. apply filter_In in Hin. destruct Hin as [_ Hf2]. apply andb_prop in Hf2. destruct Hf2 as [_ Hp].
  apply ws_pointed_iff in Hp. destruct Hp as [k Hk].
  destruct (proj2 (proj1 I4) _ _ Hk) as [r0 [Hr0 Hk0]]. rewrite Hn in Hr0. inversion Hr0; subst r0.
  assert (Hps : pstat (s_c s) k = Some (r_status r)).
  { unfold pstat. rewrite (In_aget_tkey _ _ _ (proj1 (proj1 I4)) Hk), Hn. reflexivity. }
  destruct (I5 _ _ Hps) as [st [Hx Hs]]. rewrite Hx in Ha. simpl in Ha.
  pose proof (active_simple_running _ Hs Ha) as E. subst st. rewrite Hx in Hps.
  split; [|exact Hx]. unfold key_of in Hk0. rewrite Hk0. apply I10. exact Hps.
Qed.

(* auxiliary invariants: no engine command is ever in flight; every pointed record has one of the five statuses
   running / succeeded / failed / canceled / retrying; no engine command waits in staging between protocol steps *)
Theorem link_auxiliary : forall ops, let s := sys_run ev ops (sys_init sp g inputs parent) in
  s_fault s = false ->
  (forall k, In k (s_inflight s) -> is_engine_command (fst k) = false) /\
  (forall t rt r, ws_task_entry (c_ws (s_c s)) t rt = Some r -> exists st, r_status r = Some st /\ In st simple_statuses) /\
  (forall e, In e (staged (c_ws (s_c s))) -> is_engine_command (s_id e) = false /\ s_items e = None /\ s_completed e = false).
Proof.
  intros ops s Hf. destruct (reachable_cinv ops Hf) as [[Hc HF]|I].
  { fold s in Hc, HF. rewrite Hc, HF. simpl. split; [intros k []|]. split; [intros t rt r H; discriminate|intros e []]. }
  fold s in I. destruct I as (_ & _ & _ & I4 & I5 & I6 & _ & _ & _ & _ & I11).
  split; [exact I11|]. split.
  - intros t rt r H. apply (I5 (t, rt)). apply pstat_entry. exists r. auto.
  - intros e He. split; [apply (ncmd_zero _ I6 _ He)|apply (proj2 I4 _ He)].
Qed.

Lemma no_act_when_idle : forall c, cinv sp g c [] -> ~ act c.
Proof.
  intros c (_ & _ & _ & _ & I5 & _ & _ & _ & _ & I10 & _) [k [st [Hp Ha]]].
  destruct (I5 _ _ Hp) as [st' [Hx Hs]]. inversion Hx; subst st'.
  rewrite (active_simple_running _ Hs Ha) in Hp. exact (I10 _ Hp).
Qed.

Lemma act_when_inflight : forall c F k, cinv sp g c F -> In k F -> act c.
Proof.
  intros c F k (_ & _ & _ & _ & _ & _ & _ & _ & I9 & _) Hk. exists k, S_RUNNING. split; [apply I9; exact Hk|reflexivity].
Qed.

Lemma inflight_when_act : forall c F, cinv sp g c F -> act c -> F <> [].
Proof.
  intros c F (_ & _ & _ & _ & I5 & _ & _ & _ & _ & I10 & _) [k [st [Hp Ha]]] E.
  destruct (I5 _ _ Hp) as [st' [Hx Hs]]. inversion Hx; subst st'.
  rewrite (active_simple_running _ Hs Ha) in Hp. specialize (I10 _ Hp). rewrite E in I10. destruct I10.
Qed.

(* ---- C02 at the protocol-step boundaries ---- *)

(* succeeded: nothing in flight, nothing waiting to run, every pointed record completed or waiting for its retry *)
Theorem C02_succeeded_partial : forall ops, let s := sys_run ev ops (sys_init sp g inputs parent) in
  s_fault s = false -> wstatus (c_ws (s_c s)) = S_SUCCEEDED ->
  s_inflight s = [] /\ has_staged_tasks (c_ws (s_c s)) = false /\
  ws_tasks_by_status (c_ws (s_c s)) ACTIVE_STATUSES = [] /\
  (forall t rt r, ws_task_entry (c_ws (s_c s)) t rt = Some r ->
     ostatus_in (r_status r) COMPLETED_STATUSES = true \/ r_status r = Some S_RETRYING).
Proof.
  intros ops s Hf Hst. destruct (reachable_cinv ops Hf) as [[Hc _]|I].
  { fold s in Hc. rewrite Hc in Hst. discriminate Hst. }
  fold s in I. pose proof I as (_ & _ & _ & I4 & I5 & _ & I7 & _ & _ & _ & _).
  destruct I7 as [_ [K2 [K3 _]]]. rewrite Hst in K2, K3.
  assert (Hna : ~ act (s_c s)) by (apply K2; simpl; auto).
  assert (HF : s_inflight s = []).
  { destruct (s_inflight s) as [|k l] eqn:E; [reflexivity|]. exfalso. apply Hna. apply (act_when_inflight _ _ k I). left; reflexivity. }
  split; [exact HF|]. split; [apply K3; reflexivity|]. split.
  - destruct (ws_tasks_by_status (c_ws (s_c s)) ACTIVE_STATUSES) as [|p l] eqn:E; [reflexivity|]. exfalso. apply Hna.
    apply (has_active_iff _ I4). unfold has_active_tasks. rewrite E. reflexivity.
  - intros t rt r Hr. assert (Hp : pstat (s_c s) (t, rt) = Some (r_status r)) by (apply pstat_entry; exists r; auto).
    destruct (I5 _ _ Hp) as [st [Hx Hs]]. rewrite Hx.
    destruct Hs as [E|[E|[E|[E|[E|[]]]]]]; subst st; simpl; auto.
    exfalso. apply Hna. exists (t, rt), S_RUNNING. rewrite Hp, Hx. split; reflexivity.
Qed.

(* paused or canceled: no action is in flight *)
Theorem C02_paused_canceled_idle : forall ops, let s := sys_run ev ops (sys_init sp g inputs parent) in
  s_fault s = false -> In (wstatus (c_ws (s_c s))) [S_PAUSED; S_CANCELED] -> s_inflight s = [].
Proof.
  intros ops s Hf Hst. destruct (reachable_cinv ops Hf) as [[_ HF]|I]; [exact HF|].
  fold s in I. pose proof I as (_ & _ & _ & _ & _ & _ & I7 & _). destruct I7 as [_ [K2 _]].
  assert (Hna : ~ act (s_c s)) by (apply K2; simpl in Hst; simpl; intuition).
  destruct (s_inflight s) as [|k l] eqn:E; [reflexivity|]. exfalso. apply Hna. apply (act_when_inflight _ _ k I). left; reflexivity.
Qed.

(* pausing or canceling: at least one action is in flight *)
Theorem C02_pausing_canceling_busy : forall ops, let s := sys_run ev ops (sys_init sp g inputs parent) in
  s_fault s = false -> In (wstatus (c_ws (s_c s))) [S_PAUSING; S_CANCELING] -> s_inflight s <> [].
Proof.
  intros ops s Hf Hst. destruct (reachable_cinv ops Hf) as [[Hc _]|I].
  { fold s in Hc. rewrite Hc in Hst. simpl in Hst. intuition discriminate. }
  fold s in I. pose proof I as (_ & _ & _ & _ & _ & _ & I7 & _). destruct I7 as [_ [_ [_ [K4 _]]]].
  apply (inflight_when_act _ _ I). apply K4; exact Hst.
Qed.

(* ---- C03 at the protocol-step boundaries ---- *)

(* nothing in flight and the poll offers nothing: after that poll the workflow is at rest (or was never started) *)
Theorem C03_quiescent_rests : forall ops c1, let s := sys_run ev ops (sys_init sp g inputs parent) in
  s_fault s = false -> s_inflight s = [] -> get_next_tasks ev (s_c s) = (c1, Val []) ->
  In (wstatus (c_ws c1)) [S_SUCCEEDED; S_FAILED; S_CANCELED; S_PAUSED; S_UNSET].
Proof.
  intros ops c1 s Hf HF Hg.
  (* the initialised conductor the poll ran on *)
  assert (Hc0 : exists c0, cinv sp g c0 [] /\ get_next_tasks ev c0 = (c1, Val [])).
  { destruct (reachable_cinv ops Hf) as [[Hc _]|I]; [|fold s in I; rewrite HF in I; exists (s_c s); split; [exact I|exact Hg]].
    fold s in Hc. rewrite Hc in Hg. unfold get_next_tasks in Hg. destruct (sys_graph_ok_sound _ Hok) as [H1 [H2 [H3 H4]]].
    match type of Hg with bind _ ?k _ = _ =>
      destruct (on_fresh ev sp g inputs parent H2 H3 _ k) as [[cx [e [_ X]]]|[cx [_ [I Y]]]] end.
    - rewrite X in Hg. discriminate.
    - exists cx. split; [exact I|]. rewrite Y in Hg. exact Hg. }
  destruct Hc0 as [c0 [I E0]]. pose proof I as (I1 & _ & I3 & I4 & _ & _ & I7 & _).
  assert (Hn' : no_items (c_spec c0) = true) by (rewrite I1; exact Hni).
  destruct (get_next_eff ev _ _ _ I3 Hn' E0) as [L [_ Hnil]].
  pose proof (no_act_when_idle _ I) as Hna.
  destruct L as [_ [_ [_ [_ [_ [Wl _]]]]]].
  destruct I7 as [K1 [_ [_ [K4 K5]]]].
  assert (Cases : In (wstatus (c_ws c0)) [S_PAUSING; S_CANCELING] \/ In (wstatus (c_ws c0)) [S_RUNNING; S_RESUMING] \/
                  In (wstatus (c_ws c0)) [S_SUCCEEDED; S_FAILED; S_CANCELED; S_PAUSED; S_UNSET]).
  { simpl in K1. simpl. intuition. }
  destruct Cases as [C|[C|C]].
  - exfalso. exact (Hna (K4 C)).
  - destruct (K5 C) as [A|S]; [exfalso; exact (Hna A)|].
    rewrite (Hnil eq_refl); [simpl; auto| |exact S].
    destruct C as [C|[C|[]]]; rewrite <- C; reflexivity.
  - destruct Wl as [W|W]; rewrite W; [exact C|simpl; auto].
Qed.

(* equivalently: a workflow that reports running, resuming, pausing or canceling has an action in flight, or
   the poll offers a task (or fails the workflow because the task on offer cannot be rendered) *)
Theorem C03_transitional_has_work : forall ops c1 offers, let s := sys_run ev ops (sys_init sp g inputs parent) in
  s_fault s = false -> In (wstatus (c_ws (s_c s))) [S_RUNNING; S_RESUMING; S_PAUSING; S_CANCELING] ->
  get_next_tasks ev (s_c s) = (c1, Val offers) ->
  s_inflight s <> [] \/ offers <> [] \/ wstatus (c_ws c1) = S_FAILED.
Proof.
  intros ops c1 offers s Hf Hst Hg.
  destruct (s_inflight s) as [|k l] eqn:HF; [|left; discriminate]. right.
  destruct offers as [|o l]; [|left; discriminate]. right.
  destruct (reachable_cinv ops Hf) as [[Hc _]|I].
  { fold s in Hc. rewrite Hc in Hst. simpl in Hst. intuition discriminate. }
  fold s in I. rewrite HF in I. pose proof I as (I1 & _ & I3 & _ & _ & _ & I7 & _).
  assert (Hn' : no_items (c_spec (s_c s)) = true) by (rewrite I1; exact Hni).
  destruct (get_next_eff ev _ _ _ I3 Hn' Hg) as [_ [_ Hnil]].
  pose proof (no_act_when_idle _ I) as Hna. destruct I7 as [_ [_ [_ [K4 K5]]]].
  assert (C : In (wstatus (c_ws (s_c s))) [S_RUNNING; S_RESUMING]).
  { simpl in Hst. destruct Hst as [E|[E|[E|[E|[]]]]]; [simpl; auto|simpl; auto| |];
      exfalso; apply Hna; apply K4; rewrite <- E; simpl; auto. }
  destruct (K5 C) as [A|S]; [exfalso; exact (Hna A)|].
  apply Hnil; [reflexivity| |exact S]. destruct C as [C|[C|[]]]; rewrite <- C; reflexivity.
Qed.


(* ---- paused (or pausing) only after a pause request ---- *)
Theorem C03_paused_needs_request : forall ops, let s := sys_run ev ops (sys_init sp g inputs parent) in
  s_fault s = false -> In (wstatus (c_ws (s_c s))) [S_PAUSING; S_PAUSED] ->
  existsb pause_request ops = true.
Proof.
  intros ops s Hf Hst. destruct (existsb pause_request ops) eqn:E; [reflexivity|exfalso].
  assert (Hall : forallb (fun op => negb (pause_request op)) ops = true).
  { apply forallb_forall. intros op Hop. apply negb_true_iff. destruct (pause_request op) eqn:Ep; [|reflexivity].
    assert (X : existsb pause_request ops = true) by (apply existsb_exists; exists op; auto). congruence. }
  destruct (sys_graph_ok_sound _ Hok) as [H1 [H2 [H3 H4]]].
  exact (sys_reachable_np ev sp g inputs parent Hni H1 H2 H3 (queue_hnt ev g H4) ops Hall Hf Hst).
Qed.

End Theorems.

(* ================================================================== the protocol is a history of API calls *)

Section Replay.
Variable ev : string -> dict -> evalres.

Lemma run_ops_app : forall l1 l2 c, run_ops ev (app l1 l2) c = run_ops ev l2 (run_ops ev l1 c).
Proof. intros; unfold run_ops; apply fold_left_app. Qed.

Lemma sys_ack_run : forall keys s,
  s_c (fold_left (sys_ack ev) keys s) = run_ops ev (map (fun k => OpEvent (fst k) (snd k) ack_event) keys) (s_c s).
Proof.
  induction keys as [|k keys IH]; intro s; [reflexivity|]. cbn [fold_left map]. rewrite IH.
  unfold run_ops. cbn [fold_left]. f_equal. unfold sys_ack.
  destruct (api_exec ev (OpEvent (fst k) (snd k) ack_event) (s_c s)) as [c' r]. reflexivity.
Qed.

(* the conductor state after a protocol step is the state after the API calls [sys_api_ops_step] lists *)
Lemma sys_step_is_history : forall s op,
  s_c (sys_step ev s op) = run_ops ev (sys_api_ops_step ev s op) (s_c s).
Proof.
  intros s op. destruct op; cbn [sys_step sys_api_ops_step].
  - unfold sys_request. destruct (status_in S_RUNNING request_statuses) eqn:Es; [|vm_compute in Es; discriminate].
    unfold run_ops. cbn [fold_left]. destruct (api_exec ev (OpRequest S_RUNNING) (s_c s)) as [c' r]. reflexivity.
  - unfold sys_poll. destruct (get_next_tasks ev (s_c s)) as [c1 [offers|e]] eqn:E.
    + rewrite sys_ack_run. cbn [s_c]. unfold run_ops at 2. cbn [fold_left api_exec]. unfold bind at 1. rewrite E. cbn [fst].
      rewrite map_map. reflexivity.
    + cbn [s_c]. unfold run_ops. cbn [fold_left api_exec]. unfold bind. rewrite E. reflexivity.
  - unfold sys_report. destruct (akey_in (t, route) (s_inflight s) && status_in st report_statuses); [|reflexivity].
    unfold run_ops. cbn [fold_left]. destruct (api_exec ev (OpEvent t route (EvAction st result)) (s_c s)) as [c' r]. reflexivity.
  - unfold sys_request. destruct (status_in st request_statuses); [|reflexivity].
    unfold run_ops. cbn [fold_left]. destruct (api_exec ev (OpRequest st) (s_c s)) as [c' r]. reflexivity.
  - unfold sys_call. unfold run_ops. cbn [fold_left]. destruct (api_exec ev OpRender (s_c s)) as [c' r]. reflexivity.
  - unfold sys_call. unfold run_ops. cbn [fold_left]. destruct (api_exec ev OpPersist (s_c s)) as [c' r]. reflexivity.
Qed.

Theorem sys_run_is_history : forall ops s,
  s_c (sys_run ev ops s) = run_ops ev (sys_api_ops ev ops s) (s_c s).
Proof.
  induction ops as [|op ops IH]; intro s; [reflexivity|]. simpl. rewrite run_ops_app, <- sys_step_is_history. apply IH.
Qed.

End Replay.
