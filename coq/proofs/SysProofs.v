(* SysProofs.v -- the provider protocol (model/ProviderSys.v) as a transition system over the conductor model,
   and the invariant of its reachable states that LINKS the conductor's task records to the provider's set of
   in-flight actions and makes the reported workflow status truthful about both.

   Scope: every evaluator; definitions without with-items tasks; Boot / Poll (+ acknowledgements) / completion
   reports / control requests / render / persist; fault-free histories (no conductor call raised, rejected status
   requests excepted).  The invariant [cinv] of an initialised conductor c with in-flight set F says:
     - the pointer map is a function and every pointer names a record of its own key; no staged entry tracks items or
       is marked completed; no engine command is staged ([winv], [ncmd c = 0]);
     - every pointed record is running, succeeded, failed, canceled or retrying ([simple]);
     - (I1) every key in F points to a running record; (I2) every pointed running record has its key in F; no key in
       F is an engine command;
     - [kinv]: paused / canceled / succeeded => no active record; succeeded => nothing ready in staging;
       pausing / canceling => some active record; running / resuming => an active record or a ready staged entry.
   [sys_reachable_inv] proves it for every history, given that the queue step of a report leaves every satisfied
   next task in staging ([queue_hnt_prop], proved in SysNextProofs.v from the uniqueness of edge keys).

   Method.  A judgment for RETURNING runs ([vpres R m], part A, with its walk tactic [sw]) proves the frames that do
   not depend on values computed on the way (B: key/status of records, C: well-formedness, D: definition kept);
   the value-dependent spine of update_task_state is inverted once (E, G: selection of the record, machine step,
   completion, tail), reusing the decomposition of proofs/RetryProofs.v; engine commands in staging are counted (H);
   the workflow-machine step is characterised by two table sweeps of facts/F_sys.v (I); the three kinds of call --
   queued engine command, retry re-entry, acknowledgement / report -- are then assembled (J), get_next_tasks, the lazy
   creation and control requests are characterised (K, L, M), and the protocol steps are shown to keep the invariant (N). *)
From Coq Require Import String List Bool ZArith Arith Lia.
From Orq Require Import GenStatuses GenEvents GenTables GenSpecMeta Base State Machines Codec Conductor Decode Api Driver ProviderSys.
From Orq Require Import F_tables F_names F_sys Hoare ValuePost StatusReach C04Proofs C05Proofs C02C03Proofs OffersProofs InertProofs RetryProofs.
Import ListNotations.
Open Scope string_scope.
Open Scope monad_scope.

(* ================================================================== A. successful runs *)

(* [vpres R m]: every run of m that RETURNS relates the state before to the state after.  (Hoare.preserves
   speaks about raising runs as well; the link theorems are about fault-free histories, and the conductor's
   rejected-request path undoes its own writes, which only a returning-run judgment can ignore.) *)
Definition vpres (R : cstate -> cstate -> Prop) {A} (m : M A) : Prop :=
  forall c c' a, m c = (c', Val a) -> R c c'.

Section VPres.
  Variable R : cstate -> cstate -> Prop.
  Hypothesis R_refl : forall c, R c c.
  Hypothesis R_trans : forall a b c, R a b -> R b c -> R a c.

  Lemma vp_of_pres : forall A (m : M A), preserves R m -> vpres R m.
  Proof. intros A m H c c' a E; eapply H; exact E. Qed.
  Lemma vp_ret : forall A (a : A), vpres R (ret a).
  Proof. intros A a c c' x H; inversion H; subst; apply R_refl. Qed.
  Lemma vp_raise : forall A e, vpres R (@raise A e).
  Proof. intros A e c c' x H; inversion H. Qed.
  Lemma vp_get : vpres R get.
  Proof. intros c c' x H; inversion H; subst; apply R_refl. Qed.
  Lemma vp_getws : vpres R getws.
  Proof. intros c c' x H; inversion H; subst; apply R_refl. Qed.
  Lemma vp_bind : forall A B (m : M A) (f : A -> M B),
    vpres R m -> (forall a, vpres R (f a)) -> vpres R (bind m f).
  Proof.
    intros A B m f Hm Hf c c' b H. unfold bind in H. destruct (m c) as [c1 [a|e]] eqn:E; [|inversion H].
    eapply R_trans; [eapply Hm; exact E|eapply Hf; exact H].
  Qed.
  (* a continuation that never returns *)
  Lemma vp_bind_raise : forall A B (m : M A) (e : A -> exn), vpres R (bind m (fun a => @raise B (e a))).
  Proof. intros A B m e c c' b H. unfold bind in H. destruct (m c) as [c1 [a|x]]; inversion H. Qed.
  Lemma vp_bind_v : forall A B (Q : A -> Prop) (m : M A) (f : A -> M B),
    vpost Q m -> vpres R m -> (forall a, Q a -> vpres R (f a)) -> vpres R (bind m f).
  Proof.
    intros A B Q m f Hq Hm Hf c c' b H. unfold bind in H. destruct (m c) as [c1 [a|e]] eqn:E; [|inversion H].
    eapply R_trans; [eapply Hm; exact E|eapply Hf; [eapply Hq; exact E|exact H]].
  Qed.
  Lemma vp_try_catch : forall A (m : M A) h,
    preserves R m -> (forall e, vpres R (h e)) -> vpres R (try_catch m h).
  Proof.
    intros A m h Hm Hh c c' a H. unfold try_catch in H. destruct (m c) as [c1 [a1|e]] eqn:E.
    - inversion H; subst. eapply Hm; exact E.
    - eapply R_trans; [eapply Hm; exact E|eapply Hh; exact H].
  Qed.
  Lemma vp_try_catch_expr : forall A (m : M A) h,
    preserves R m -> (forall e, vpres R (h e)) -> vpres R (try_catch_expr m h).
  Proof.
    intros A m h Hm Hh c c' a H. unfold try_catch_expr in H. destruct (m c) as [c1 [a1|e]] eqn:E.
    - inversion H; subst. eapply Hm; exact E.
    - destruct (x_expr e); [|inversion H]. eapply R_trans; [eapply Hm; exact E|eapply Hh; exact H].
  Qed.
  Lemma vp_mapM : forall A B (f : A -> M B) l, (forall a, vpres R (f a)) -> vpres R (mapM f l).
  Proof.
    intros A B f l Hf; induction l as [|x l IH]; simpl; [apply vp_ret|].
    apply vp_bind; [apply Hf|intro y]. apply vp_bind; [exact IH|intro ys; apply vp_ret].
  Qed.
  Lemma vp_forM : forall A (l : list A) f, (forall a, vpres R (f a)) -> vpres R (forM_ l f).
  Proof.
    intros A l f Hf; induction l as [|x l IH]; simpl; [apply vp_ret|].
    apply vp_bind; [apply Hf|intro; exact IH].
  Qed.
  Lemma vp_forM_In : forall A (l : list A) f, (forall a, In a l -> vpres R (f a)) -> vpres R (forM_ l f).
  Proof.
    intros A l f; induction l as [|x l IH]; intro Hf; simpl; [apply vp_ret|].
    apply vp_bind; [apply Hf; left; reflexivity|intro; apply IH; intros y Hy; apply Hf; right; exact Hy].
  Qed.
  Lemma vp_lift_res : forall A (r : result A), vpres R (lift_res r).
  Proof. intros A r; destruct r; [apply vp_ret|apply vp_raise]. Qed.
  Lemma vp_lift_eval : forall r, vpres R (lift_eval r).
  Proof. intros r; destruct r; [apply vp_ret|apply vp_raise]. Qed.
  Lemma vp_modify : forall f, (forall c, R c (f c)) -> vpres R (modify f).
  Proof. intros f Hf c c' a H; inversion H; subst; apply Hf. Qed.
  Lemma vp_modws : forall f, (forall c, R c (set_ws c (f (c_ws c)))) -> vpres R (modws f).
  Proof. intros f Hf c c' a H; inversion H; subst; apply Hf. Qed.
  Lemma vp_when : forall b m, vpres R m -> vpres R (when_ b m).
  Proof. intros b m Hm; destruct b; [exact Hm|apply vp_ret]. Qed.
  Lemma vp_state_pure : forall A (m : M A), state_pure m -> vpres R m.
  Proof. intros A m H c c' a E. specialize (H c). rewrite E in H; simpl in H; subst; apply R_refl. Qed.
End VPres.

(* the walk for returning runs: [pleaf] closes Hoare.preserves goals (the bodies of try blocks), [leaf]
   closes vpres goals at the state-writing primitives *)
Ltac sw Rr Rt pleaf leaf :=
  lazymatch goal with
  | |- vpres _ (ret _) => apply (vp_ret _ Rr)
  | |- vpres _ (raise _) => apply vp_raise
  | |- vpres _ get => apply (vp_get _ Rr)
  | |- vpres _ getws => apply (vp_getws _ Rr)
  | |- vpres _ (bind _ (fun _ => raise _)) => apply vp_bind_raise
  | |- vpres _ (bind _ _) => apply (vp_bind _ Rt); [ sw Rr Rt pleaf leaf | intro; sw Rr Rt pleaf leaf ]
  | |- vpres _ (try_catch _ _) =>
      apply (vp_try_catch _ Rt); [ pw Rr Rt pleaf | intro; sw Rr Rt pleaf leaf ]
  | |- vpres _ (try_catch_expr _ _) =>
      apply (vp_try_catch_expr _ Rt); [ pw Rr Rt pleaf | intro; sw Rr Rt pleaf leaf ]
  | |- vpres _ (mapM _ _) => apply (vp_mapM _ Rr Rt); intro; sw Rr Rt pleaf leaf
  | |- vpres _ (forM_ _ _) => apply (vp_forM _ Rr Rt); intro; sw Rr Rt pleaf leaf
  | |- vpres _ (when_ _ _) => apply (vp_when _ Rr); sw Rr Rt pleaf leaf
  | |- vpres _ (lift_res _) => apply (vp_lift_res _ Rr)
  | |- vpres _ (lift_eval _) => apply (vp_lift_eval _ Rr)
  | |- vpres _ (evaluate _ _ _) => apply (vp_state_pure _ Rr); apply evaluate_pure
  | |- vpres _ (match ?x with _ => _ end) => destruct x; sw Rr Rt pleaf leaf
  | |- vpres _ ?m =>
      first [ solve [leaf]
            | let h := head_of m in progress (unfold h); sw Rr Rt pleaf leaf
            | progress (cbv beta); sw Rr Rt pleaf leaf
            | idtac ]
  end.

(* ================================================================== B. the frame of a task event *)

(* what is visible of a record to the link: its key and its status *)
Definition sig (r : trec) : string * nat * option status := (r_id r, r_route r, r_status r).

(* pointers, keys and statuses of all records kept; the workflow status kept or failed; definition kept *)
Definition Rfr (c c' : cstate) : Prop :=
  tasks (c_ws c') = tasks (c_ws c) /\
  map sig (sequence (c_ws c')) = map sig (sequence (c_ws c)) /\
  (wstatus (c_ws c') = wstatus (c_ws c) \/ wstatus (c_ws c') = S_FAILED) /\
  c_graph c' = c_graph c /\ c_spec c' = c_spec c /\ c_init c' = c_init c.

Lemma Rfr_refl : forall c, Rfr c c.
Proof. intro c; repeat split; auto. Qed.
Lemma Rfr_trans : forall a b c, Rfr a b -> Rfr b c -> Rfr a c.
Proof.
  intros a b c [A1 [A2 [A3 [A4 [A5 A6]]]]] [B1 [B2 [B3 [B4 [B5 B6]]]]].
  repeat split; try congruence.
  destruct B3 as [B3|B3]; [|right; exact B3]. destruct A3 as [A3|A3]; [left|right]; congruence.
Qed.

Lemma Rfr_same_ws : forall c c', c_ws c' = c_ws c -> c_graph c' = c_graph c -> c_spec c' = c_spec c ->
  c_init c' = c_init c -> Rfr c c'.
Proof. intros c c' H1 H2 H3 H4; unfold Rfr; rewrite H1; repeat split; auto. Qed.

Lemma map_sig_set_nth : forall l i (r r' : trec), nth_error l i = Some r -> sig r' = sig r ->
  map sig (list_set_nth i r' l) = map sig l.
Proof.
  induction l as [|a l IH]; intros [|i] r r' H E; simpl in *; try discriminate.
  - inversion H; subst. rewrite E; reflexivity.
  - f_equal. eapply IH; eassumption.
Qed.

Lemma map_sig_update_rec : forall w i f, (forall r, sig (f r) = sig r) ->
  map sig (sequence (ws_update_rec w i f)) = map sig (sequence w).
Proof.
  intros w i f Hf; unfold ws_update_rec. destruct (nth_error (sequence w) i) as [r|] eqn:E; [|reflexivity].
  simpl. eapply map_sig_set_nth; [exact E|apply Hf].
Qed.

Lemma wstatus_update_rec : forall w i f, wstatus (ws_update_rec w i f) = wstatus w.
Proof. intros; unfold ws_update_rec; destruct (nth_error (sequence w) i); reflexivity. Qed.

Lemma Rfr_update_rec : forall c i f, (forall r, sig (f r) = sig r) -> Rfr c (set_ws c (ws_update_rec (c_ws c) i f)).
Proof.
  intros c i f Hf; unfold Rfr; simpl. rewrite tasks_update_rec, map_sig_update_rec, wstatus_update_rec by exact Hf.
  repeat split; auto.
Qed.

Lemma wstatus_remove_staged : forall w t r, wstatus (ws_remove_staged_task w t r) = wstatus w.
Proof.
  intros; unfold ws_remove_staged_task. destruct (get_staged_task w t r); [|reflexivity].
  destruct (items_any_active s); reflexivity.
Qed.

Lemma Rfr_remove_staged : forall c t r, Rfr c (set_ws c (ws_remove_staged_task (c_ws c) t r)).
Proof.
  intros c t r; unfold Rfr; simpl. rewrite tasks_remove_staged, seq_remove_staged, wstatus_remove_staged.
  repeat split; auto.
Qed.

(* "workflow_failed" moves no task *)
Lemma tpe_workflow_failed : forall w r ns, task_process_event w r (EvWorkflow S_FAILED) = Val ns -> ns = None.
Proof.
  intros w r ns H. unfold task_process_event in H.
  destruct (negb (string_in (ev_name (EvWorkflow S_FAILED)) WORKFLOW_EXECUTION_EVENTS)); [discriminate|].
  apply task_table_step_val in H. change (task_workflow_event_name w (r_id r) (r_route r) S_FAILED)
    with (workflow_event_name S_FAILED) in H. rewrite F_workflow_failed_nowhere in H. symmetry; exact H.
Qed.

(* the workflow table sends "workflow_failed" to failed, wherever it is accepted *)
Lemma F_wf_failed_target : forall s n, tbl_step wf_table s "workflow_failed" = Some n -> n = S_FAILED.
Proof.
  intros s n H.
  assert (T : table_forall wf_table (fun _ e t => negb (String.eqb e "workflow_failed") || status_eqb t S_FAILED) = true)
    by (vm_compute; reflexivity).
  pose proof (table_forall_step _ _ T _ _ _ H) as P; cbv beta in P.
  rewrite String.eqb_refl in P; cbn [negb orb] in P. apply status_eqb_eq; exact P.
Qed.

Lemma wf_failed_event_name : forall w, wf_workflow_event_name w S_FAILED = "workflow_failed".
Proof.
  intro w. unfold wf_workflow_event_name. cbn [status_in existsb status_eqb S_FAILED app PAUSE_STATUSES CANCEL_STATUSES].
  rewrite andb_false_r. reflexivity.
Qed.

(* the lighter frame: nothing of the workflow state moves but its status (kept or failed) *)
Definition Rlt (c c' : cstate) : Prop :=
  sequence (c_ws c') = sequence (c_ws c) /\ tasks (c_ws c') = tasks (c_ws c) /\
  staged (c_ws c') = staged (c_ws c) /\ contexts (c_ws c') = contexts (c_ws c) /\
  routes (c_ws c') = routes (c_ws c) /\
  (wstatus (c_ws c') = wstatus (c_ws c) \/ wstatus (c_ws c') = S_FAILED) /\
  c_graph c' = c_graph c /\ c_spec c' = c_spec c /\ c_init c' = c_init c.

Lemma Rlt_refl : forall c, Rlt c c.
Proof. intro c; repeat split; auto. Qed.
Lemma Rlt_trans : forall a b c, Rlt a b -> Rlt b c -> Rlt a c.
Proof.
  intros a b c [A1 [A2 [A3 [A4 [A5 [A6 [A7 [A8 A9]]]]]]]] [B1 [B2 [B3 [B4 [B5 [B6 [B7 [B8 B9]]]]]]]].
  repeat split; try congruence.
  destruct B6 as [B6|B6]; [|right; exact B6]. destruct A6 as [A6|A6]; [left|right]; congruence.
Qed.
Lemma Rlt_same_ws : forall c c', c_ws c' = c_ws c -> c_graph c' = c_graph c -> c_spec c' = c_spec c ->
  c_init c' = c_init c -> Rlt c c'.
Proof. intros c c' H1 H2 H3 H4; unfold Rlt; rewrite H1; repeat split; auto. Qed.
Lemma Rlt_Rfr : forall c c', Rlt c c' -> Rfr c c'.
Proof. intros c c' [A1 [A2 [A3 [A4 [A5 [A6 [A7 [A8 A9]]]]]]]]. unfold Rfr. rewrite A1, A2. repeat split; auto. Qed.

Create HintDb syslt.

Create HintDb sysfr.

Section Light.
Variable ev : string -> dict -> evalres.

Ltac pleaf :=
  first
    [ apply (preserves_modws Rlt); intro; first [ apply Rlt_same_ws; reflexivity | unfold Rlt; simpl; repeat split; auto ]
    | apply (preserves_modify Rlt); intro; first [ apply Rlt_same_ws; reflexivity
        | match goal with |- context [if ?b then _ else _] => destruct b end; apply Rlt_same_ws; reflexivity ]
    | assumption
    | eauto 3 with syslt ].
Ltac leaf :=
  first
    [ apply (vp_modws Rlt); intro; first [ apply Rlt_same_ws; reflexivity | unfold Rlt; simpl; repeat split; auto ]
    | apply (vp_modify Rlt); intro; first [ apply Rlt_same_ws; reflexivity
        | match goal with |- context [if ?b then _ else _] => destruct b end; apply Rlt_same_ws; reflexivity ]
    | assumption
    | eauto 3 with syslt ].
Ltac walk := sw Rlt_refl Rlt_trans pleaf leaf.
Ltac pwalk := pw Rlt_refl Rlt_trans pleaf.

Lemma lt_wf_workflow_failed : vpres Rlt (wf_workflow_event_M S_FAILED).
Proof.
  intros c c' a H. unfold wf_workflow_event_M in H.
  destruct (wf_process_workflow_event (c_graph c) (c_ws c) S_FAILED) as [[new unr]|e] eqn:E; inversion H; subst; clear H.
  unfold Rlt; simpl. repeat split; auto.
  unfold wf_process_workflow_event in E. rewrite wf_failed_event_name in E.
  destruct (negb (string_in "workflow_failed" WORKFLOW_EXECUTION_EVENTS)); [discriminate|].
  destruct (tbl_row wf_table (wstatus (c_ws c))) as [row|] eqn:Er; [|discriminate].
  destruct (aget String.eqb "workflow_failed" row) as [n|] eqn:Ea.
  - assert (St : tbl_step wf_table (wstatus (c_ws c)) "workflow_failed" = Some n) by (unfold tbl_step; rewrite Er; exact Ea).
    apply F_wf_failed_target in St; subst n.
    destruct (negb (status_eqb S_FAILED (wstatus (c_ws c))) && status_eqb S_FAILED S_SUCCEEDED) eqn:Eb;
      [rewrite andb_comm in Eb; discriminate Eb|]. inversion E; subst; right; reflexivity.
  - inversion E; subst; left; reflexivity.
Qed.

Lemma lt_log_entry_error : forall m t r tr res, preserves Rlt (log_entry_error m t r tr res).
Proof. intros; unfold log_entry_error; pwalk. Qed.
Hint Resolve lt_log_entry_error : syslt.
Lemma lt_log_error : forall e t r tr, preserves Rlt (log_error e t r tr).
Proof. intros; unfold log_error; auto with syslt. Qed.
Hint Resolve lt_log_error : syslt.
Lemma lt_log_errors : forall es t r tr, preserves Rlt (log_errors es t r tr).
Proof. intros; unfold log_errors; pwalk. Qed.
Hint Resolve lt_log_errors : syslt.
Lemma lt_log_unreachable : forall l, preserves Rlt (log_unreachable l).
Proof. intros; unfold log_unreachable; pwalk. Qed.
Hint Resolve lt_log_unreachable : syslt.
Lemma vlt_log_error : forall e t r tr, vpres Rlt (log_error e t r tr).
Proof. intros; apply vp_of_pres; auto with syslt. Qed.
Lemma vlt_log_errors : forall es t r tr, vpres Rlt (log_errors es t r tr).
Proof. intros; apply vp_of_pres; auto with syslt. Qed.
Lemma vlt_log_unreachable : forall l, vpres Rlt (log_unreachable l).
Proof. intros; apply vp_of_pres; auto with syslt. Qed.
Hint Resolve vlt_log_error vlt_log_errors vlt_log_unreachable : syslt.

(* a failure request that returns: nothing moves but the workflow status, which stays or becomes failed *)
Lemma vlt_request_failed : vpres Rlt (request_status_core S_FAILED).
Proof.
  unfold request_status_core.
  apply (vp_bind _ Rlt_trans); [apply (vp_getws _ Rlt_refl)|intro w0]. cbv zeta.
  apply (vp_bind _ Rlt_trans).
  { apply (vp_forM _ Rlt_refl Rlt_trans); intros [i r0].
    apply (vp_bind _ Rlt_trans); [apply (vp_getws _ Rlt_refl)|intro w].
    destruct (nth_error (sequence w) i) as [r|]; [|apply (vp_ret _ Rlt_refl)].
    apply (vp_bind_v _ Rlt_trans _ _ (fun ns => ns = None)).
    - intros c c' ns H. apply lift_res_inv in H; destruct H as [_ H]. eapply tpe_workflow_failed; symmetry; exact H.
    - apply (vp_lift_res _ Rlt_refl).
    - intros ns ->. apply (vp_ret _ Rlt_refl). }
  intros _.
  apply (vp_bind _ Rlt_trans); [apply lt_wf_workflow_failed|intro unr].
  apply (vp_bind _ Rlt_trans); [apply vlt_log_unreachable|intros _].
  apply (vp_bind _ Rlt_trans); [apply (vp_getws _ Rlt_refl)|intro w1].
  repeat match goal with |- vpres _ (if ?b then _ else _) => destruct b end;
    first [apply (vp_ret _ Rlt_refl)|apply vp_bind_raise].
Qed.
Hint Resolve vlt_request_failed : syslt.

(* ... and it does leave the workflow failed *)
Lemma request_failed_fails : forall c c', request_status_core S_FAILED c = (c', Val tt) -> wstatus (c_ws c') = S_FAILED.
Proof.
  intros c c' H. pose proof (vlt_request_failed _ _ _ H) as [_ [_ [_ [_ [_ [Hw _]]]]]].
  destruct Hw as [Hw|Hw]; [|exact Hw].
  (* the status did not move: then the call returns only if it was failed already *)
  unfold request_status_core in H.
  apply bind_val_inv' in H. destruct H as [c0 [w0 [E0 H]]]. inversion E0; subst c0 w0; clear E0. cbv zeta in H.
  apply bind_val_inv' in H. destruct H as [c1 [u1 [E1 H]]].
  assert (S1 : wstatus (c_ws c1) = wstatus (c_ws c)).
  { assert (P : vpres (fun a b => wstatus (c_ws b) = wstatus (c_ws a))
                      (forM_ (ws_tasks_by_status (c_ws c) ACTIVE_STATUSES)
                         (fun '(i, _) => w <- getws ;; match nth_error (sequence w) i with
                            | None => ret tt
                            | Some r => ns <- lift_res (task_process_event w r (EvWorkflow S_FAILED)) ;;
                                        match ns with Some s => set_rec_status i (Some s) | None => ret tt end end))).
    { apply vp_forM; [reflexivity|intros; congruence|]. intros [i r0].
      apply vp_bind; [intros; congruence|apply vp_getws; reflexivity|intro w].
      destruct (nth_error (sequence w) i); [|apply vp_ret; reflexivity].
      apply vp_bind; [intros; congruence|apply vp_lift_res; reflexivity|intros [s|]]; [|apply vp_ret; reflexivity].
      unfold set_rec_status. apply vp_modws. intro x; simpl. apply wstatus_update_rec. }
    exact (P _ _ _ E1). }
  apply bind_val_inv' in H. destruct H as [c2 [unr [E2 H]]].
  apply bind_val_inv' in H. destruct H as [c3 [u3 [E3 H]]].
  assert (S3 : c_ws c3 = c_ws c2).
  { assert (P : vpres (fun a b => c_ws b = c_ws a) (log_unreachable unr)).
    { unfold log_unreachable, log_error, log_entry_error. apply vp_forM; [reflexivity|intros; congruence|]. intro s.
      apply vp_modify. intro x. destruct (existsb _ _); reflexivity. }
    exact (P _ _ _ E3). }
  apply bind_val_inv' in H. destruct H as [c4 [w1 [E4 H]]]. inversion E4; subst c4 w1; clear E4.
  rewrite S3 in H.
  change (status_eqb S_FAILED S_PAUSED) with false in H. change (status_eqb S_FAILED S_CANCELED) with false in H.
  cbn [andb] in H.
  destruct (negb (status_eqb S_FAILED (wstatus (c_ws c))) && status_eqb (wstatus (c_ws c)) (wstatus (c_ws c2))) eqn:Eb.
  - apply bind_val_inv' in H. destruct H as [c5 [u5 [_ H]]]. inversion H.
  - inversion H; subst c'. rewrite S3 in *.
    apply andb_false_iff in Eb. destruct Eb as [Eb|Eb].
    + apply negb_false_iff in Eb. apply status_eqb_eq in Eb. rewrite Hw. symmetry; exact Eb.
    + rewrite Hw in Eb. rewrite status_eqb_refl in Eb. discriminate Eb.
Qed.

Lemma vlt_get_task_context : forall idxs, vpres Rlt (get_task_context idxs).
Proof. intros; unfold get_task_context; walk. Qed.
Hint Resolve vlt_get_task_context : syslt.
Lemma lt_render_vars : forall specs rolling rendered errs, preserves Rlt (render_vars ev specs rolling rendered errs).
Proof. induction specs as [|[n d] specs IH]; intros; simpl; pwalk. Qed.
Hint Resolve lt_render_vars : syslt.
Lemma vlt_render_vars : forall specs rolling rendered errs, vpres Rlt (render_vars ev specs rolling rendered errs).
Proof. intros; apply vp_of_pres; auto with syslt. Qed.
Hint Resolve vlt_render_vars : syslt.
Lemma vlt_merge_term_contexts : forall l acc, vpres Rlt (merge_term_contexts l acc).
Proof. induction l as [|[i r] l IH]; intros; simpl; walk. Qed.
Hint Resolve vlt_merge_term_contexts : syslt.

(* rendering the output: nothing moves but the status (kept or failed), the output and the error log *)
Lemma vlt_render_workflow_output : forall c, c_init c = true -> forall c' a,
  render_workflow_output ev c = (c', Val a) -> Rlt c c'.
Proof.
  intros c Hi c' a H. unfold render_workflow_output in H.
  match type of H with (bind (ensure_ws ev) ?k) c = _ =>
    assert (P : vpres Rlt (k tt)) by (cbv beta; unfold get_workflow_terminal_context; walk) end.
  unfold bind at 1 in H. rewrite (ensure_ws_inited ev c Hi) in H. exact (P _ _ _ H).
Qed.

Lemma lt_get_task_context : forall idxs, preserves Rlt (get_task_context idxs).
Proof. intros; unfold get_task_context; pwalk. Qed.
Hint Resolve lt_get_task_context : syslt.
Lemma lt_setup_retry : forall t idxs, preserves Rlt (setup_retry ev t idxs).
Proof. intros; unfold setup_retry; pwalk. Qed.
Hint Resolve lt_setup_retry : syslt.

(* a new record: what add_task_state does when it returns *)
Definition new_rec (t : string) (rt : nat) (ins : list nat) (prev : list (trid * nat)) (retry : option retry_rec) : trec :=
  {| r_id := t; r_route := rt; r_in := match ins with [] => [0] | _ => ins end; r_out := None; r_prev := prev;
     r_next := []; r_status := None; r_term := false; r_retry := retry |}.

Lemma add_task_state_eff : forall t rt ins prev c c' idx,
  add_task_state ev t rt ins prev c = (c', Val idx) ->
  exists cm retry, Rlt c cm /\ idx = length (sequence (c_ws cm)) /\
    c' = set_ws cm (ws_set_tasks (ws_set_sequence (c_ws cm) (app (sequence (c_ws cm)) [new_rec t rt ins prev retry]))
                                 (aset tkey_eqb (t, rt) idx (tasks (c_ws cm)))) /\
    (g_task_has_retry (c_graph c) t = false -> retry = None).
Proof.
  intros t rt ins prev c c' idx H. unfold add_task_state in H.
  apply bind_val_inv' in H. destruct H as [c0 [cst [E0 H]]]. inversion E0; subst c0 cst; clear E0.
  destruct (negb (g_has_task (c_graph c) t)); [inversion H|]. cbv zeta in H.
  apply bind_val_inv' in H. destruct H as [cm [retry [Er H]]].
  apply bind_val_inv' in H. destruct H as [c0 [w [E0 H]]]. inversion E0; subst c0 w; clear E0.
  apply bind_val_inv' in H. destruct H as [c1 [u [E1 H]]]. inversion E1; subst c1; clear E1.
  inversion H; subst c' idx; clear H.
  exists cm, retry. split; [|split; [reflexivity|split; [reflexivity|]]].
  - match type of Er with ?m _ = _ => assert (P : vpres Rlt m) by walk end.
    exact (P _ _ _ Er).
  - intro Hn. rewrite Hn in Er. inversion Er; reflexivity.
Qed.

End Light.

Section Frame.
Variable ev : string -> dict -> evalres.

Ltac pleaf :=
  first
    [ apply (preserves_modws Rfr); intro; first [apply Rfr_update_rec; intro; reflexivity | apply Rfr_remove_staged
                                                 | apply Rfr_same_ws; reflexivity | unfold Rfr; simpl; repeat split; auto ]
    | apply (preserves_modify Rfr); intro; first [ apply Rfr_same_ws; reflexivity
        | match goal with |- context [if ?b then _ else _] => destruct b end; apply Rfr_same_ws; reflexivity ]
    | assumption
    | eauto 3 with sysfr ].
Ltac leaf :=
  first
    [ apply (vp_modws Rfr); intro; first [apply Rfr_update_rec; intro; reflexivity | apply Rfr_remove_staged
                                          | apply Rfr_same_ws; reflexivity | unfold Rfr; simpl; repeat split; auto ]
    | apply (vp_modify Rfr); intro; first [ apply Rfr_same_ws; reflexivity
        | match goal with |- context [if ?b then _ else _] => destruct b end; apply Rfr_same_ws; reflexivity ]
    | assumption
    | eauto 3 with sysfr ].
Ltac walk := sw Rfr_refl Rfr_trans pleaf leaf.
Ltac pwalk := pw Rfr_refl Rfr_trans pleaf.

Lemma fr_log_entry_error : forall m t r tr res, preserves Rfr (log_entry_error m t r tr res).
Proof. intros; unfold log_entry_error; pwalk. Qed.
Hint Resolve fr_log_entry_error : sysfr.
Lemma fr_log_error : forall e t r tr, preserves Rfr (log_error e t r tr).
Proof. intros; unfold log_error; auto with sysfr. Qed.
Hint Resolve fr_log_error : sysfr.
Lemma fr_log_errors : forall es t r tr, preserves Rfr (log_errors es t r tr).
Proof. intros; unfold log_errors; pwalk. Qed.
Hint Resolve fr_log_errors : sysfr.
Lemma fr_log_unreachable : forall l, preserves Rfr (log_unreachable l).
Proof. intros; unfold log_unreachable; pwalk. Qed.
Hint Resolve fr_log_unreachable : sysfr.
Lemma vfr_log_entry_error : forall m t r tr res, vpres Rfr (log_entry_error m t r tr res).
Proof. intros; apply vp_of_pres; auto with sysfr. Qed.
Lemma vfr_log_error : forall e t r tr, vpres Rfr (log_error e t r tr).
Proof. intros; apply vp_of_pres; auto with sysfr. Qed.
Lemma vfr_log_errors : forall es t r tr, vpres Rfr (log_errors es t r tr).
Proof. intros; apply vp_of_pres; auto with sysfr. Qed.
Lemma vfr_log_unreachable : forall l, vpres Rfr (log_unreachable l).
Proof. intros; apply vp_of_pres; auto with sysfr. Qed.
Hint Resolve vfr_log_entry_error vfr_log_error vfr_log_errors vfr_log_unreachable : sysfr.

Lemma fr_upd_rec : forall i f, (forall r, sig (f r) = sig r) -> preserves Rfr (upd_rec i f).
Proof. intros i f Hf; unfold upd_rec. apply (preserves_modws Rfr); intro; apply Rfr_update_rec; exact Hf. Qed.
Lemma vfr_upd_rec : forall i f, (forall r, sig (f r) = sig r) -> vpres Rfr (upd_rec i f).
Proof. intros; apply vp_of_pres; apply fr_upd_rec; assumption. Qed.
Lemma fr_get_rec : forall i, preserves Rfr (get_rec i).
Proof. intros; unfold get_rec; pwalk. Qed.
Hint Resolve fr_get_rec : sysfr.
Lemma vfr_get_rec : forall i, vpres Rfr (get_rec i).
Proof. intros; apply vp_of_pres; auto with sysfr. Qed.
Hint Resolve vfr_get_rec : sysfr.

(* a failure request that returns: statuses of records kept, workflow status kept or failed *)
Lemma vfr_request_failed : vpres Rfr (request_status_core S_FAILED).
Proof. intros c c' a H. apply Rlt_Rfr. eapply vlt_request_failed; exact H. Qed.
Hint Resolve vfr_request_failed : sysfr.

Lemma fr_get_task_context : forall idxs, preserves Rfr (get_task_context idxs).
Proof. intros; unfold get_task_context; pwalk. Qed.
Hint Resolve fr_get_task_context : sysfr.
Lemma vfr_get_task_context : forall idxs, vpres Rfr (get_task_context idxs).
Proof. intros; apply vp_of_pres; auto with sysfr. Qed.
Hint Resolve vfr_get_task_context : sysfr.
Lemma fr_render_vars : forall specs rolling rendered errs, preserves Rfr (render_vars ev specs rolling rendered errs).
Proof. induction specs as [|[n d] specs IH]; intros; simpl; pwalk. Qed.
Hint Resolve fr_render_vars : sysfr.
Lemma vfr_render_vars : forall specs rolling rendered errs, vpres Rfr (render_vars ev specs rolling rendered errs).
Proof. intros; apply vp_of_pres; auto with sysfr. Qed.
Hint Resolve vfr_render_vars : sysfr.
Lemma fr_setup_retry : forall t idxs, preserves Rfr (setup_retry ev t idxs).
Proof. intros; unfold setup_retry; pwalk. Qed.
Hint Resolve fr_setup_retry : sysfr.
Lemma fr_evaluate_task_retry : forall r ctx, preserves Rfr (evaluate_task_retry ev r ctx).
Proof. intros; unfold evaluate_task_retry; pwalk. Qed.
Hint Resolve fr_evaluate_task_retry : sysfr.
Lemma vfr_evaluate_route : forall e r, vpres Rfr (evaluate_route e r).
Proof. intros; unfold evaluate_route; walk. Qed.
Hint Resolve vfr_evaluate_route : sysfr.
Lemma vfr_finalize_context : forall ts e ctx, vpres Rfr (finalize_context ev ts e ctx).
Proof. intros; unfold finalize_context; walk. Qed.
Hint Resolve vfr_finalize_context : sysfr.

Lemma vfr_process_transition : forall t route idx ts ctx e, vpres Rfr (process_transition ev t route idx ts ctx e).
Proof.
  intros; unfold process_transition.
  pose proof (fun f H => fr_upd_rec idx f H) as Hu. pose proof (fun f H => vfr_upd_rec idx f H) as Hv.
  walk.
Qed.
Hint Resolve vfr_process_transition : sysfr.

Lemma vfr_unstage : forall t route evt s0, vpres Rfr (uts_unstage t route evt s0).
Proof. intros; unfold uts_unstage; walk. Qed.
Lemma vfr_item : forall t route evt s0, vpres Rfr (uts_item t route evt s0).
Proof. intros; unfold uts_item; walk. Qed.
Lemma vfr_logfail : forall t evt, vpres Rfr (uts_logfail t evt).
Proof. intros; unfold uts_logfail; walk. Qed.
Lemma vfr_retrying : forall t route idx r ns, vpres Rfr (uts_retrying t route idx r ns).
Proof. intros; unfold uts_retrying; walk. Qed.
Lemma vfr_completion : forall t route evt ts idx ns o0, vpres Rfr (uts_completion ev t route evt ts idx ns o0).
Proof. intros; unfold uts_completion; walk. Qed.
Lemma vfr_queue : forall t route idx ts o n compl, vpres Rfr (uts_queue ev t route idx ts o n compl).
Proof. intros; unfold uts_queue; walk. Qed.

End Frame.

(* ================================================================== C. well-formedness kept by a task event *)

Definition key_of (r : trec) : tkey := (r_id r, r_route r).

(* the pointer map is a function and every pointer names a record of its own key *)
Definition tasks_ok (w : wstate) : Prop :=
  NoDup (map fst (tasks w)) /\
  forall k i, In (k, i) (tasks w) -> exists r, nth_error (sequence w) i = Some r /\ key_of r = k.

(* no staged entry tracks items, none is marked completed (workflows without with-items tasks) *)
Definition stg_plain (s : stg) : Prop := s_items s = None /\ s_completed s = false.
Definition staged_ok (w : wstate) : Prop := forall s, In s (staged w) -> stg_plain s.

Definition winv (c : cstate) : Prop := tasks_ok (c_ws c) /\ staged_ok (c_ws c).
Definition Rw (c c' : cstate) : Prop := winv c -> winv c'.
Lemma Rw_refl : forall c, Rw c c.
Proof. intros c H; exact H. Qed.
Lemma Rw_trans : forall a b c, Rw a b -> Rw b c -> Rw a c.
Proof. unfold Rw; intros; auto. Qed.

Lemma tkey_eqb_eq : forall a b, tkey_eqb a b = true <-> a = b.
Proof.
  intros [a1 a2] [b1 b2]; unfold tkey_eqb; simpl; split.
  - intro H; apply andb_prop in H; destruct H as [H1 H2]. apply String.eqb_eq in H1; apply Nat.eqb_eq in H2; subst; reflexivity.
  - intro H; inversion H; subst. rewrite String.eqb_refl, Nat.eqb_refl; reflexivity.
Qed.

Lemma aget_In_tkey : forall (d : list (tkey * nat)) k i, aget tkey_eqb k d = Some i -> In (k, i) d.
Proof.
  induction d as [|[k' v] d IH]; simpl; intros k i H; [discriminate|].
  destruct (tkey_eqb k k') eqn:E; [apply tkey_eqb_eq in E; subst; inversion H; subst; left; reflexivity|right; apply IH; exact H].
Qed.

Lemma In_aset : forall (d : list (tkey * nat)) k v x, In x (aset tkey_eqb k v d) -> x = (k, v) \/ In x d.
Proof.
  induction d as [|[k0 v0] d IH]; simpl; intros k v x H.
  - destruct H as [H|[]]; left; symmetry; exact H.
  - destruct (tkey_eqb k k0) eqn:E.
    + apply tkey_eqb_eq in E; subst k0. destruct H as [H|H]; [left; symmetry; exact H|right; right; exact H].
    + destruct H as [H|H]; [right; left; exact H|]. destruct (IH _ _ _ H) as [A|A]; [left; exact A|right; right; exact A].
Qed.

Lemma In_map_fst_aset : forall (d : list (tkey * nat)) k v x, In x (map fst (aset tkey_eqb k v d)) -> x = k \/ In x (map fst d).
Proof.
  intros d k v x H. apply in_map_iff in H. destruct H as [[k' i] [Hk Hin]]. simpl in Hk; subst k'.
  apply In_aset in Hin. destruct Hin as [Hin|Hin]; [inversion Hin; left; reflexivity|right].
  apply in_map_iff. exists (x, i); split; [reflexivity|exact Hin].
Qed.

Lemma NoDup_aset : forall (d : list (tkey * nat)) k v, NoDup (map fst d) -> NoDup (map fst (aset tkey_eqb k v d)).
Proof.
  induction d as [|[k0 v0] d IH]; simpl; intros k v H; [constructor; [intros []|constructor]|].
  inversion H as [|x xs Hx Hd]; subst.
  destruct (tkey_eqb k k0) eqn:E; simpl; [constructor; assumption|].
  constructor; [|apply IH; exact Hd].
  intro Hin. apply In_map_fst_aset in Hin. destruct Hin as [Hin|Hin]; [|exact (Hx Hin)].
  subst k0. rewrite (proj2 (tkey_eqb_eq k k) eq_refl) in E. discriminate.
Qed.

Lemma In_aget_tkey : forall (d : list (tkey * nat)) k i, NoDup (map fst d) -> In (k, i) d -> aget tkey_eqb k d = Some i.
Proof.
  induction d as [|[k' v] d IH]; simpl; intros k i Hn H; [contradiction|].
  inversion Hn as [|x xs Hx Hd]; subst.
  destruct H as [H|H].
  - inversion H; subst. rewrite (proj2 (tkey_eqb_eq k k) eq_refl). reflexivity.
  - destruct (tkey_eqb k k') eqn:E; [|apply IH; assumption].
    apply tkey_eqb_eq in E; subst. exfalso; apply Hx. apply in_map_iff. exists (k', i); split; [reflexivity|exact H].
Qed.

Lemma aget_aset_other : forall (d : list (tkey * nat)) k v k', k' <> k -> aget tkey_eqb k' (aset tkey_eqb k v d) = aget tkey_eqb k' d.
Proof.
  induction d as [|[k0 v0] d IH]; simpl; intros k v k' Hn.
  - destruct (tkey_eqb k' k) eqn:E; [apply tkey_eqb_eq in E; contradiction|reflexivity].
  - destruct (tkey_eqb k k0) eqn:E; simpl.
    + apply tkey_eqb_eq in E; subst k0. destruct (tkey_eqb k' k) eqn:E2; [apply tkey_eqb_eq in E2; contradiction|reflexivity].
    + destruct (tkey_eqb k' k0); [reflexivity|apply IH; exact Hn].
Qed.

Lemma In_staged_remove_first : forall t r l s, In s (staged_remove_first t r l) -> In s l.
Proof.
  induction l as [|a l IH]; simpl; intros s H; [exact H|].
  destruct (stg_matches t r a); [right; exact H|]. destruct H as [H|H]; [left; exact H|right; apply IH; exact H].
Qed.

Lemma In_staged_update : forall f t r l s, In s (staged_update f t r l) -> In s l \/ exists s0, In s0 l /\ s = f s0.
Proof.
  induction l as [|a l IH]; simpl; intros s H; [contradiction|].
  destruct (stg_matches t r a).
  - destruct H as [H|H]; [right; exists a; split; [left; reflexivity|symmetry; exact H]|left; right; exact H].
  - destruct H as [H|H]; [left; left; exact H|]. destruct (IH _ H) as [A|[s0 [A B]]]; [left; right; exact A|].
    right; exists s0; split; [right; exact A|exact B].
Qed.

Lemma staged_remove_task_incl : forall w t r s, In s (staged (ws_remove_staged_task w t r)) -> In s (staged w).
Proof.
  intros w t r s H. unfold ws_remove_staged_task in H. destruct (get_staged_task w t r); [|exact H].
  destruct (items_any_active s0); [exact H|]. simpl in H. eapply In_staged_remove_first; exact H.
Qed.

Lemma winv_update_rec : forall c i f, (forall r, key_of (f r) = key_of r) -> winv c -> winv (set_ws c (ws_update_rec (c_ws c) i f)).
Proof.
  intros c i f Hf [[Hnd Ht] Hs]; split; simpl.
  - split; [rewrite tasks_update_rec; exact Hnd|].
    intros k j Hin. rewrite tasks_update_rec in Hin. destruct (Ht _ _ Hin) as [r [Hr Hk]].
    destruct (Nat.eq_dec i j) as [<-|Hn].
    + exists (f r). split; [apply nth_update_rec_same; exact Hr|rewrite Hf; exact Hk].
    + exists r. split; [rewrite nth_update_rec_other by exact Hn; exact Hr|exact Hk].
  - intros s Hin. apply Hs. unfold ws_update_rec in Hin. destruct (nth_error (sequence (c_ws c)) i); exact Hin.
Qed.

Lemma winv_staged : forall c l, (forall s, In s l -> In s (staged (c_ws c)) \/ stg_plain s) ->
  winv c -> winv (set_ws c (ws_set_staged (c_ws c) l)).
Proof.
  intros c l Hl [Ht Hs]; split; simpl; [exact Ht|]. intros s Hin. destruct (Hl _ Hin) as [A|A]; [apply Hs; exact A|exact A].
Qed.

Lemma winv_staged_update : forall c f t r, (forall s, stg_plain s -> stg_plain (f s)) ->
  winv c -> winv (set_ws c (ws_set_staged (c_ws c) (staged_update f t r (staged (c_ws c))))).
Proof.
  intros c f t r Hf H. apply winv_staged; [|exact H]. intros s Hin.
  destruct (In_staged_update _ _ _ _ _ Hin) as [A|[s0 [A B]]]; [left; exact A|right]. subst s. apply Hf. apply (proj2 H). exact A.
Qed.

Lemma winv_remove_staged : forall c t r, winv c -> winv (set_ws c (ws_remove_staged_task (c_ws c) t r)).
Proof.
  intros c t r [[Hnd Ht] Hs]; split; simpl.
  - split; [rewrite tasks_remove_staged; exact Hnd|].
    intros k i Hin. rewrite tasks_remove_staged in Hin. rewrite seq_remove_staged. apply Ht; exact Hin.
  - intros s Hin. apply Hs. eapply staged_remove_task_incl; exact Hin.
Qed.

Lemma winv_add_staged : forall c s, stg_plain s -> winv c -> winv (set_ws c (ws_add_staged (c_ws c) s)).
Proof.
  intros c s Hp H. unfold ws_add_staged. apply winv_staged; [|exact H]. intros x Hin.
  apply in_app_or in Hin. destruct Hin as [A|[A|[]]]; [left; exact A|right; subst; exact Hp].
Qed.

Lemma winv_same : forall c c', tasks (c_ws c') = tasks (c_ws c) -> sequence (c_ws c') = sequence (c_ws c) ->
  staged (c_ws c') = staged (c_ws c) -> winv c -> winv c'.
Proof. intros c c' H1 H2 H3 [Ht Hs]; split; [unfold tasks_ok; rewrite H1, H2; exact Ht|unfold staged_ok; rewrite H3; exact Hs]. Qed.

Lemma Rlt_winv : forall c c', Rlt c c' -> winv c -> winv c'.
Proof. intros c c' [A1 [A2 [A3 _]]]; apply winv_same; assumption. Qed.

(* a new record keeps the pointer map sound *)
Lemma winv_new_rec : forall c t rt ins prev retry, winv c ->
  winv (set_ws c (ws_set_tasks (ws_set_sequence (c_ws c) (app (sequence (c_ws c)) [new_rec t rt ins prev retry]))
                               (aset tkey_eqb (t, rt) (length (sequence (c_ws c))) (tasks (c_ws c))))).
Proof.
  intros c t rt ins prev retry [[Hnd Ht] Hs]; split; simpl; [|exact Hs].
  split; [simpl; apply NoDup_aset; exact Hnd|].
  intros k i Hin. simpl in Hin. apply In_aset in Hin. destruct Hin as [Hin|Hin].
  - inversion Hin; subst. eexists; split; [simpl; rewrite nth_error_app2 by apply Nat.le_refl; rewrite Nat.sub_diag; reflexivity|reflexivity].
  - destruct (Ht _ _ Hin) as [r [Hr Hk]]. exists r; split; [|exact Hk]. simpl.
    rewrite nth_error_app1; [exact Hr|]. apply nth_error_Some. rewrite Hr; discriminate.
Qed.

Create HintDb sysw.

Section WellFormed.
Variable ev : string -> dict -> evalres.

Ltac plain := unfold stg_plain; simpl; intuition.
Ltac wleaf0 :=
  first [ apply winv_update_rec; [intro; reflexivity|assumption]
        | apply winv_remove_staged; assumption
        | apply winv_add_staged; [plain|assumption]
        | apply winv_staged_update; [intros ? [? ?]; unfold stg_plain; simpl;
             repeat match goal with |- context [match ?x with _ => _ end] => destruct x end; auto; try (split; congruence) |assumption]
        | eapply winv_same; [| | |eassumption]; reflexivity ].
Ltac pleaf :=
  first
    [ apply (preserves_modws Rw); intros ? ?; wleaf0
    | apply (preserves_modify Rw); intros ? ?; first [ wleaf0
        | match goal with |- context [if ?b then _ else _] => destruct b end; wleaf0 ]
    | assumption
    | eauto 3 with sysw ].
Ltac leaf :=
  first
    [ apply (vp_modws Rw); intros ? ?; wleaf0
    | apply (vp_modify Rw); intros ? ?; first [ wleaf0
        | match goal with |- context [if ?b then _ else _] => destruct b end; wleaf0 ]
    | assumption
    | eauto 3 with sysw ].
Ltac walk := sw Rw_refl Rw_trans pleaf leaf.
Ltac pwalk := pw Rw_refl Rw_trans pleaf.

Lemma vw_of_lt : forall A (m : M A), vpres Rlt m -> vpres Rw m.
Proof. intros A m H c c' a E Hw. eapply Rlt_winv; [eapply H; exact E|exact Hw]. Qed.
Lemma pw_of_lt : forall A (m : M A), preserves Rlt m -> preserves Rw m.
Proof. intros A m H c c' a E Hw. eapply Rlt_winv; [eapply H; exact E|exact Hw]. Qed.

Lemma w_log_entry_error : forall m t r tr res, preserves Rw (log_entry_error m t r tr res).
Proof. intros; apply pw_of_lt; apply lt_log_entry_error. Qed.
Lemma w_log_error : forall e t r tr, preserves Rw (log_error e t r tr).
Proof. intros; apply pw_of_lt; apply lt_log_error. Qed.
Lemma w_log_errors : forall es t r tr, preserves Rw (log_errors es t r tr).
Proof. intros; apply pw_of_lt; apply lt_log_errors. Qed.
Lemma w_log_unreachable : forall l, preserves Rw (log_unreachable l).
Proof. intros; apply pw_of_lt; apply lt_log_unreachable. Qed.
Hint Resolve w_log_entry_error w_log_error w_log_errors w_log_unreachable : sysw.
Lemma vw_log_entry_error : forall m t r tr res, vpres Rw (log_entry_error m t r tr res).
Proof. intros; apply vp_of_pres; auto with sysw. Qed.
Lemma vw_log_error : forall e t r tr, vpres Rw (log_error e t r tr).
Proof. intros; apply vp_of_pres; auto with sysw. Qed.
Lemma vw_log_errors : forall es t r tr, vpres Rw (log_errors es t r tr).
Proof. intros; apply vp_of_pres; auto with sysw. Qed.
Lemma vw_log_unreachable : forall l, vpres Rw (log_unreachable l).
Proof. intros; apply vp_of_pres; auto with sysw. Qed.
Hint Resolve vw_log_entry_error vw_log_error vw_log_errors vw_log_unreachable : sysw.
Lemma vw_request_failed : vpres Rw (request_status_core S_FAILED).
Proof. apply vw_of_lt; apply vlt_request_failed. Qed.
Hint Resolve vw_request_failed : sysw.
Lemma w_get_task_context : forall idxs, preserves Rw (get_task_context idxs).
Proof. intros; apply pw_of_lt; apply lt_get_task_context. Qed.
Hint Resolve w_get_task_context : sysw.
Lemma vw_get_task_context : forall idxs, vpres Rw (get_task_context idxs).
Proof. intros; apply vp_of_pres; auto with sysw. Qed.
Hint Resolve vw_get_task_context : sysw.
Lemma w_render_vars : forall specs rolling rendered errs, preserves Rw (render_vars ev specs rolling rendered errs).
Proof. intros; apply pw_of_lt; apply lt_render_vars. Qed.
Hint Resolve w_render_vars : sysw.
Lemma vw_render_vars : forall specs rolling rendered errs, vpres Rw (render_vars ev specs rolling rendered errs).
Proof. intros; apply vp_of_pres; auto with sysw. Qed.
Hint Resolve vw_render_vars : sysw.
Lemma w_evaluate_task_retry : forall r ctx, preserves Rw (evaluate_task_retry ev r ctx).
Proof. intros; unfold evaluate_task_retry; pwalk. Qed.
Hint Resolve w_evaluate_task_retry : sysw.
Lemma w_get_rec : forall i, preserves Rw (get_rec i).
Proof. intros; unfold get_rec; pwalk. Qed.
Hint Resolve w_get_rec : sysw.
Lemma vw_get_rec : forall i, vpres Rw (get_rec i).
Proof. intros; apply vp_of_pres; auto with sysw. Qed.
Hint Resolve vw_get_rec : sysw.
Lemma w_upd_rec : forall i f, (forall r, key_of (f r) = key_of r) -> preserves Rw (upd_rec i f).
Proof. intros i f Hf; unfold upd_rec. apply (preserves_modws Rw); intros c Hc; apply winv_update_rec; assumption. Qed.
Lemma vw_upd_rec : forall i f, (forall r, key_of (f r) = key_of r) -> vpres Rw (upd_rec i f).
Proof. intros; apply vp_of_pres; apply w_upd_rec; assumption. Qed.
Lemma vw_set_rec_status : forall i s, vpres Rw (set_rec_status i s).
Proof. intros; unfold set_rec_status. apply (vp_modws Rw); intros c Hc; apply winv_update_rec; [intro; reflexivity|assumption]. Qed.
Hint Resolve vw_set_rec_status : sysw.
Lemma vw_wf_task_event : forall t route st, vpres Rw (wf_task_event_M t route st).
Proof.
  intros t route st c c' a H Hw. unfold wf_task_event_M in H.
  destruct (wf_process_task_event (c_graph c) (c_ws c) t route st) as [[new unr]|e]; inversion H; subst.
  eapply winv_same; [| | |exact Hw]; reflexivity.
Qed.
Hint Resolve vw_wf_task_event : sysw.

Lemma vw_add_task_state : forall t rt ins prev, vpres Rw (add_task_state ev t rt ins prev).
Proof.
  intros t rt ins prev c c' idx H Hw.
  destruct (add_task_state_eff ev _ _ _ _ _ _ _ H) as [cm [retry [Hlt [Hi [Hc _]]]]]. subst c' idx.
  apply winv_new_rec. eapply Rlt_winv; eassumption.
Qed.
Hint Resolve vw_add_task_state : sysw.

Lemma vw_evaluate_route : forall e r, vpres Rw (evaluate_route e r).
Proof. intros; unfold evaluate_route; walk. Qed.
Hint Resolve vw_evaluate_route : sysw.
Lemma vw_finalize_context : forall ts e ctx, vpres Rw (finalize_context ev ts e ctx).
Proof. intros; unfold finalize_context; walk. Qed.
Hint Resolve vw_finalize_context : sysw.
Lemma vw_process_transition : forall t route idx ts ctx e, vpres Rw (process_transition ev t route idx ts ctx e).
Proof.
  intros; unfold process_transition.
  pose proof (fun f H => w_upd_rec idx f H) as Hu. pose proof (fun f H => vw_upd_rec idx f H) as Hv.
  walk.
Qed.
Hint Resolve vw_process_transition : sysw.

Lemma vw_sel1 : forall t s0 e0, vpres Rw (uts_sel1 ev t s0 e0).
Proof. intros; unfold uts_sel1, uts_need_staged; walk. Qed.
Lemma vw_sel2 : forall t evt s0 r1 i, vpres Rw (uts_sel2 ev t evt s0 r1 i).
Proof. intros; unfold uts_sel2, uts_need_staged; walk. Qed.
Lemma vw_unstage : forall t route evt s0, vpres Rw (uts_unstage t route evt s0).
Proof. intros; unfold uts_unstage; walk. Qed.
Lemma vw_item : forall t route evt s0, vpres Rw (uts_item t route evt s0).
Proof. intros; unfold uts_item; walk. Qed.
Lemma vw_logfail : forall t evt, vpres Rw (uts_logfail t evt).
Proof. intros; unfold uts_logfail; walk. Qed.
Lemma vw_setst : forall i ns, vpres Rw (uts_setst i ns).
Proof. intros; unfold uts_setst; walk. Qed.
Lemma vw_retrying : forall t route idx r ns, vpres Rw (uts_retrying t route idx r ns).
Proof. intros; unfold uts_retrying. pose proof (fun f H => vw_upd_rec idx f H) as Hv. walk. Qed.
Lemma vw_completion : forall t route evt ts idx ns o0, task_has_items ts = false ->
  vpres Rw (uts_completion ev t route evt ts idx ns o0).
Proof. intros t route evt ts idx ns o0 Hts; unfold uts_completion. rewrite Hts. cbn [andb negb]. walk. Qed.
Lemma vw_queue : forall t route idx ts o n compl, vpres Rw (uts_queue ev t route idx ts o n compl).
Proof.
  intros; unfold uts_queue. pose proof (fun f H => w_upd_rec idx f H) as Hu. pose proof (fun f H => vw_upd_rec idx f H) as Hv.
  walk.
Qed.
Hint Resolve vw_sel1 vw_sel2 vw_unstage vw_item vw_logfail vw_setst vw_retrying vw_queue : sysw.

Lemma vw_tail : forall rec, (forall t route evt, vpres Rw (rec t route evt)) ->
  forall t route ts idx o n compl, vpres Rw (uts_tail ev rec t route ts idx o n compl).
Proof.
  intros rec Hrec t route ts idx o n compl; unfold uts_tail, uts_call.
  pose proof (fun f H => vw_upd_rec idx f H) as Hv. walk.
Qed.

Lemma vw_main : forall rec, (forall t route evt, vpres Rw (rec t route evt)) ->
  forall t route evt ts s0 e0, task_has_items ts = false -> vpres Rw (uts_main ev rec t route evt ts s0 e0).
Proof.
  intros rec Hrec t route evt ts s0 e0 Hts. unfold uts_main, uts_machine.
  pose proof (vw_completion t route evt ts) as Hc. pose proof (vw_tail rec Hrec) as Htl.
  walk.
Qed.

End WellFormed.

(* ================================================================== D. definition, graph and initialisation are kept by every call *)

Definition Rdef (c c' : cstate) : Prop :=
  c_graph c' = c_graph c /\ c_spec c' = c_spec c /\ (c_init c = true -> c_init c' = true).
Lemma Rdef_refl : forall c, Rdef c c.
Proof. intro; repeat split; auto. Qed.
Lemma Rdef_trans : forall a b c, Rdef a b -> Rdef b c -> Rdef a c.
Proof. unfold Rdef; intros a b c [A1 [A2 A3]] [B1 [B2 B3]]; repeat split; try congruence; auto. Qed.

Create HintDb sysdef.

Section Def.
Variable ev : string -> dict -> evalres.

Ltac leaf :=
  first
    [ solve [apply (preserves_modws Rdef); intro; unfold Rdef; simpl; auto]
    | solve [apply (preserves_modify Rdef); intro; unfold Rdef;
             match goal with |- context [if ?b then _ else _] => destruct b end; simpl; auto]
    | solve [apply (preserves_modify Rdef); intro; unfold Rdef; simpl; auto]
    | assumption
    | match goal with IH : forall _ _ _, preserves _ _ |- _ => apply IH end
    | match goal with IH : forall _ _, preserves _ _ |- _ => apply IH end
    | match goal with IH : forall _ _ _ _, preserves _ _ |- _ => apply IH end
    | eauto 3 with sysdef ].
Ltac walk := pw Rdef_refl Rdef_trans leaf.

Lemma pd_wf_workflow_event : forall st, preserves Rdef (wf_workflow_event_M st).
Proof.
  intros st c c' r H. unfold wf_workflow_event_M in H.
  destruct (wf_process_workflow_event (c_graph c) (c_ws c) st) as [[new unr]|e]; inversion H; subst; unfold Rdef; simpl; auto.
Qed.
Hint Resolve pd_wf_workflow_event : sysdef.
Lemma pd_wf_task_event : forall t route st, preserves Rdef (wf_task_event_M t route st).
Proof.
  intros t route st c c' r H. unfold wf_task_event_M in H.
  destruct (wf_process_task_event (c_graph c) (c_ws c) t route st) as [[new unr]|e]; inversion H; subst; unfold Rdef; simpl; auto.
Qed.
Hint Resolve pd_wf_task_event : sysdef.
Lemma pd_log_entry_error : forall m t r tr res, preserves Rdef (log_entry_error m t r tr res).
Proof. intros; unfold log_entry_error; walk. Qed.
Hint Resolve pd_log_entry_error : sysdef.
Lemma pd_log_error : forall e t r tr, preserves Rdef (log_error e t r tr).
Proof. intros; unfold log_error; auto with sysdef. Qed.
Hint Resolve pd_log_error : sysdef.
Lemma pd_log_errors : forall es t r tr, preserves Rdef (log_errors es t r tr).
Proof. intros; unfold log_errors; walk. Qed.
Hint Resolve pd_log_errors : sysdef.
Lemma pd_log_unreachable : forall l, preserves Rdef (log_unreachable l).
Proof. intros; unfold log_unreachable; walk. Qed.
Hint Resolve pd_log_unreachable : sysdef.
Lemma pd_set_rec_status : forall i s, preserves Rdef (set_rec_status i s).
Proof. intros; unfold set_rec_status; walk. Qed.
Hint Resolve pd_set_rec_status : sysdef.
Lemma pd_upd_rec : forall i f, preserves Rdef (upd_rec i f).
Proof. intros; unfold upd_rec; walk. Qed.
Hint Resolve pd_upd_rec : sysdef.
Lemma pd_get_rec : forall i, preserves Rdef (get_rec i).
Proof. intros; unfold get_rec; walk. Qed.
Hint Resolve pd_get_rec : sysdef.
Lemma pd_request_status_core : forall st, preserves Rdef (request_status_core st).
Proof. intros; unfold request_status_core; walk. Qed.
Hint Resolve pd_request_status_core : sysdef.
Lemma pd_render_input : forall specs rt rolling errs, preserves Rdef (render_input ev specs rt rolling errs).
Proof. induction specs as [|[n d] specs IH]; intros; simpl; walk. Qed.
Hint Resolve pd_render_input : sysdef.
Lemma pd_render_vars : forall specs rolling rendered errs, preserves Rdef (render_vars ev specs rolling rendered errs).
Proof. induction specs as [|[n d] specs IH]; intros; simpl; walk. Qed.
Hint Resolve pd_render_vars : sysdef.
Lemma pd_ensure_ws : preserves Rdef (ensure_ws ev).
Proof. unfold ensure_ws; walk. Qed.
Hint Resolve pd_ensure_ws : sysdef.
Lemma pd_request_workflow_status : forall st, preserves Rdef (request_workflow_status ev st).
Proof. intros; unfold request_workflow_status; walk. Qed.
Lemma pd_get_task_context : forall idxs, preserves Rdef (get_task_context idxs).
Proof. intros; unfold get_task_context; walk. Qed.
Hint Resolve pd_get_task_context : sysdef.
Lemma pd_render_task : forall ts ctx, preserves Rdef (render_task ev ts ctx).
Proof. intros; unfold render_task; walk. Qed.
Hint Resolve pd_render_task : sysdef.
Lemma pd_next_task_for : forall s, preserves Rdef (next_task_for ev s).
Proof. intros; unfold next_task_for; walk. Qed.
Hint Resolve pd_next_task_for : sysdef.
Lemma pd_get_next_tasks : preserves Rdef (get_next_tasks ev).
Proof. unfold get_next_tasks; walk. Qed.
Lemma pd_setup_retry : forall t idxs, preserves Rdef (setup_retry ev t idxs).
Proof. intros; unfold setup_retry; walk. Qed.
Hint Resolve pd_setup_retry : sysdef.
Lemma pd_add_task_state : forall t r i p, preserves Rdef (add_task_state ev t r i p).
Proof. intros; unfold add_task_state; walk. Qed.
Hint Resolve pd_add_task_state : sysdef.
Lemma pd_evaluate_route : forall e r, preserves Rdef (evaluate_route e r).
Proof. intros; unfold evaluate_route; walk. Qed.
Hint Resolve pd_evaluate_route : sysdef.
Lemma pd_evaluate_task_retry : forall r ctx, preserves Rdef (evaluate_task_retry ev r ctx).
Proof. intros; unfold evaluate_task_retry; walk. Qed.
Hint Resolve pd_evaluate_task_retry : sysdef.
Lemma pd_finalize_context : forall ts e ctx, preserves Rdef (finalize_context ev ts e ctx).
Proof. intros; unfold finalize_context; walk. Qed.
Hint Resolve pd_finalize_context : sysdef.
Lemma pd_process_transition : forall t route idx ts ctx e, preserves Rdef (process_transition ev t route idx ts ctx e).
Proof. intros; unfold process_transition; walk. Qed.
Hint Resolve pd_process_transition : sysdef.
Lemma pd_uts_fuel : forall fuel t route evt, preserves Rdef (update_task_state_fuel ev fuel t route evt).
Proof. induction fuel as [|fuel IH]; intros t route evt; simpl; [apply (preserves_raise _ Rdef_refl)|]. walk. Qed.
Lemma pd_update_task_state : forall t route evt, preserves Rdef (update_task_state ev t route evt).
Proof. intros; unfold update_task_state; apply pd_uts_fuel. Qed.
Lemma pd_merge_term_contexts : forall l acc, preserves Rdef (merge_term_contexts l acc).
Proof. induction l as [|[i r] l IH]; intros; simpl; walk. Qed.
Hint Resolve pd_merge_term_contexts : sysdef.
Lemma pd_render_workflow_output : preserves Rdef (render_workflow_output ev).
Proof. unfold render_workflow_output, get_workflow_terminal_context; walk. Qed.

End Def.

(* ================================================================== E. what a returning task event does *)

Lemma log_entry_error_eff : forall m t r tr res c c' x, log_entry_error m t r tr res c = (c', x) ->
  x = Val tt /\ c_ws c' = c_ws c /\ c_graph c' = c_graph c /\ c_spec c' = c_spec c /\ c_init c' = c_init c.
Proof.
  intros m t r tr res c c' x H. unfold log_entry_error, modify in H. inversion H; subst; clear H.
  cbv zeta. destruct (existsb _ _); repeat split; reflexivity.
Qed.

Definition not_item (evt : event) : Prop := match evt with EvItem _ _ _ _ => False | _ => True end.

Lemma staged_remove_task_eq : forall w w' t r, staged w' = staged w ->
  staged (ws_remove_staged_task w' t r) = staged (ws_remove_staged_task w t r).
Proof.
  intros w w' t r H. unfold ws_remove_staged_task, get_staged_task. rewrite H.
  destruct (find (stg_matches t r) (staged w)) as [s|]; [|exact H].
  destruct (items_any_active s); [exact H|]. simpl. try rewrite H. reflexivity.
Qed.

Definition cmdb (s : stg) : bool := is_engine_command (s_id s).
Definition ncmd (c : cstate) : nat := length (filter cmdb (staged (c_ws c))).

Lemma ncmd_remove_first_le : forall t r l,
  length (filter cmdb (staged_remove_first t r l)) <= length (filter cmdb l).
Proof.
  induction l as [|a l IH]; simpl; [lia|]. destruct (stg_matches t r a).
  - destruct (cmdb a); simpl; lia.
  - simpl. destruct (cmdb a); simpl; lia.
Qed.

Lemma ncmd_remove_first_cmd : forall t r l s, find (stg_matches t r) l = Some s -> cmdb s = true ->
  length (filter cmdb (staged_remove_first t r l)) + 1 = length (filter cmdb l).
Proof.
  induction l as [|a l IH]; simpl; intros s H Hc; [discriminate|]. destruct (stg_matches t r a).
  - inversion H; subst a. rewrite Hc. simpl. lia.
  - simpl. destruct (cmdb a); simpl; rewrite <- (IH _ H Hc); lia.
Qed.

Lemma filter_cmdb_staged_update : forall f t r l, (forall s, s_id (f s) = s_id s) ->
  length (filter cmdb (staged_update f t r l)) = length (filter cmdb l).
Proof.
  intros f t r l Hf; induction l as [|a l IH]; simpl; [reflexivity|]. destruct (stg_matches t r a); simpl.
  - assert (E : cmdb (f a) = cmdb a) by (unfold cmdb; rewrite Hf; reflexivity).
    rewrite E. destruct (cmdb a); reflexivity.
  - destruct (cmdb a); simpl; rewrite IH; reflexivity.
Qed.

Lemma ncmd_remove_task_le : forall c t r, ncmd (set_ws c (ws_remove_staged_task (c_ws c) t r)) <= ncmd c.
Proof.
  intros c t r. unfold ncmd; simpl. unfold ws_remove_staged_task. destruct (get_staged_task (c_ws c) t r); [|lia].
  destruct (items_any_active s); [lia|]. simpl. apply ncmd_remove_first_le.
Qed.

Definition Rstg (c c' : cstate) : Prop := staged (c_ws c') = staged (c_ws c).
Lemma Rstg_refl : forall c, Rstg c c. Proof. intro; reflexivity. Qed.
Lemma Rstg_trans : forall a b c, Rstg a b -> Rstg b c -> Rstg a c. Proof. unfold Rstg; intros; congruence. Qed.
Definition Rcnt (c c' : cstate) : Prop := ncmd c' <= ncmd c.
Lemma Rcnt_refl : forall c, Rcnt c c. Proof. intro; unfold Rcnt; lia. Qed.
Lemma Rcnt_trans : forall a b c, Rcnt a b -> Rcnt b c -> Rcnt a c. Proof. unfold Rcnt; intros; lia. Qed.
Lemma Rstg_Rcnt : forall c c', Rstg c c' -> Rcnt c c'.
Proof. intros c c' H; unfold Rcnt, ncmd; rewrite H; lia. Qed.
Lemma Rlt_Rstg : forall c c', Rlt c c' -> Rstg c c'.
Proof. intros c c' [_ [_ [H _]]]; exact H. Qed.

Lemma staged_update_rec : forall w i f, staged (ws_update_rec w i f) = staged w.
Proof. intros; unfold ws_update_rec; destruct (nth_error (sequence w) i); reflexivity. Qed.


Section Effects.
Variable ev : string -> dict -> evalres.

(* staging only shrinks *)
Definition Rsub (c c' : cstate) : Prop := forall s, In s (staged (c_ws c')) -> In s (staged (c_ws c)).
Lemma Rsub_refl : forall c, Rsub c c.
Proof. intros c s H; exact H. Qed.
Lemma Rsub_trans : forall a b c, Rsub a b -> Rsub b c -> Rsub a c.
Proof. unfold Rsub; intros; auto. Qed.
Lemma Rlt_Rsub : forall c c', Rlt c c' -> Rsub c c'.
Proof. intros c c' [_ [_ [H _]]] s Hs. rewrite H in Hs; exact Hs. Qed.

Lemma sub_completion : forall t route evt ts idx ns o0, task_has_items ts = false ->
  vpres Rsub (uts_completion ev t route evt ts idx ns o0).
Proof.
  intros t route evt ts idx ns o0 Hts. unfold uts_completion. rewrite Hts. cbn [andb negb].
  assert (L : forall A (m : M A), vpres Rlt m -> vpres Rsub m)
    by (intros A m H c c' a E; apply Rlt_Rsub; eapply H; exact E).
  assert (PL : forall A (m : M A), preserves Rlt m -> preserves Rsub m)
    by (intros A m H c c' a E; apply Rlt_Rsub; eapply H; exact E).
  pose proof (L _ _ (vlt_request_failed)) as H1.
  pose proof (fun e t r tr => L _ _ (vlt_log_error e t r tr)) as H2.
  pose proof (fun i => L _ _ (vlt_get_task_context i)) as H3.
  assert (H4 : forall i, vpres Rsub (get_rec i)).
  { intro i. apply L. unfold get_rec. apply vp_bind; [apply Rlt_trans|apply vp_getws; apply Rlt_refl|intro w].
    destruct (nth_error (sequence w) i); [apply vp_ret|apply vp_raise]; apply Rlt_refl. }
  assert (H5 : forall r ctx, preserves Rsub (evaluate_task_retry ev r ctx)).
  { intros r ctx. apply (state_pure_preserves _ Rsub_refl). apply evaluate_task_retry_pure. }
  sw Rsub_refl Rsub_trans ltac:(first [assumption|apply H5|apply (preserves_ret _ Rsub_refl)])
     ltac:(first [ assumption | apply H1 | apply H2 | apply H3 | apply H4
                 | apply (vp_modws Rsub); intros c s Hs; simpl in Hs; eapply staged_remove_task_incl; exact Hs ]).
Qed.

Lemma cnt_completion : forall t route evt ts idx ns o0, task_has_items ts = false ->
  vpres Rcnt (uts_completion ev t route evt ts idx ns o0).
Proof.
  intros t route evt ts idx ns o0 Hts. unfold uts_completion. rewrite Hts. cbn [andb negb].
  assert (L : forall A (m : M A), vpres Rlt m -> vpres Rcnt m)
    by (intros A m H c c' a E; apply Rstg_Rcnt; apply Rlt_Rstg; eapply H; exact E).
  pose proof (L _ _ (vlt_request_failed)) as H1.
  pose proof (fun e t r tr => L _ _ (vlt_log_error e t r tr)) as H2.
  pose proof (fun i => L _ _ (vlt_get_task_context i)) as H3.
  assert (H4 : forall i, vpres Rcnt (get_rec i)).
  { intro i. apply L. unfold get_rec. apply vp_bind; [apply Rlt_trans|apply vp_getws; apply Rlt_refl|intro w].
    destruct (nth_error (sequence w) i); [apply vp_ret|apply vp_raise]; apply Rlt_refl. }
  assert (H5 : forall r ctx, preserves Rcnt (evaluate_task_retry ev r ctx)).
  { intros r ctx. apply (state_pure_preserves _ Rcnt_refl). apply evaluate_task_retry_pure. }
  sw Rcnt_refl Rcnt_trans ltac:(first [assumption|apply H5|apply (preserves_ret _ Rcnt_refl)])
     ltac:(first [ assumption | apply H1 | apply H2 | apply H3 | apply H4
                 | apply (vp_modws Rcnt); intros c; apply ncmd_remove_task_le ]).
Qed.

(* selecting the record the event is applied to *)
Lemma sel_eff : forall t route evt c c1 idx1 r1 c2 idx,
  uts_sel1 ev t (get_staged_task (c_ws c) t route) (ws_task_idx (c_ws c) t route) c = (c1, Val idx1) ->
  nth_error (sequence (c_ws c1)) idx1 = Some r1 ->
  uts_sel2 ev t evt (get_staged_task (c_ws c) t route) r1 idx1 c1 = (c2, Val idx) ->
  (ws_task_idx (c_ws c) t route = Some idx /\ is_engine_command t = false /\ c2 = c /\
   (status_in (ev_status evt) STARTING_STATUSES = true ->
    (exists s0, get_staged_task (c_ws c) t route = Some s0 /\ s_completed s0 = false) ->
    forall r, nth_error (sequence (c_ws c)) idx = Some r -> ostatus_in (r_status r) COMPLETED_STATUSES = false)) \/
  (exists s cm retry, get_staged_task (c_ws c) t route = Some s /\ Rlt c cm /\ idx = length (sequence (c_ws cm)) /\
     c2 = set_ws cm (ws_set_tasks (ws_set_sequence (c_ws cm)
                        (app (sequence (c_ws cm)) [new_rec t route (s_in s) (s_prev s) retry]))
                     (aset tkey_eqb (t, route) idx (tasks (c_ws cm)))) /\
     (g_task_has_retry (c_graph c) t = false -> retry = None)).
Proof.
  intros t route evt c c1 idx1 r1 c2 idx E1 Hr1 E2.
  assert (New : forall s ca cb i, get_staged_task (c_ws c) t route = Some s ->
            add_task_state ev t (s_route s) (s_in s) (s_prev s) ca = (cb, Val i) ->
            exists cm retry, Rlt ca cm /\ i = length (sequence (c_ws cm)) /\
              cb = set_ws cm (ws_set_tasks (ws_set_sequence (c_ws cm)
                        (app (sequence (c_ws cm)) [new_rec t route (s_in s) (s_prev s) retry]))
                     (aset tkey_eqb (t, route) i (tasks (c_ws cm)))) /\
              (g_task_has_retry (c_graph ca) t = false -> retry = None)).
  { intros s ca cb i Hs Ha. destruct (get_staged_matches _ _ _ _ Hs) as [_ Hrt]. rewrite Hrt in Ha.
    destruct (add_task_state_eff ev _ _ _ _ _ _ _ Ha) as [cm [retry [A [B [C D]]]]]. exists cm, retry. auto. }
  destruct (sel1_inv ev _ _ _ _ _ _ E1) as [[He [Hc ->]]|[s [Hs Ha]]].
  - destruct (sel2_inv ev _ _ _ _ _ _ _ _ E2) as [[-> ->]|[_ [s [Hs Ha]]]].
    + left. split; [exact He|]. split; [exact Hc|]. split; [reflexivity|].
      intros Hst [s0 [Hs0 Hc0]] r Hr. rewrite Hr in Hr1; inversion Hr1; subst r1.
      destruct (ostatus_in (r_status r) COMPLETED_STATUSES) eqn:Eo; [|reflexivity]. exfalso.
      unfold uts_sel2 in E2. rewrite Eo, Hst, Hs0, Hc0 in E2. cbn [andb negb] in E2.
      apply bind_val_inv' in E2. destruct E2 as [cx [sx [Ex E2]]]. inversion Ex; subst cx sx.
      destruct (add_task_state_eff ev _ _ _ _ _ _ _ E2) as [cm [retry [[Hseq _] [Hidx [Hcc _]]]]].
      (* the call would have changed the state *)
      assert (L : length (sequence (c_ws c)) = S (length (sequence (c_ws cm)))).
      { rewrite Hcc at 1. simpl. rewrite app_length. simpl. lia. }
      rewrite Hseq in L. lia.
    + right. destruct (New _ _ _ _ Hs Ha) as [cm [retry [A [B [C D]]]]]. exists s, cm, retry. auto.
  - destruct (New _ _ _ _ Hs Ha) as [cm [retry [A [B [C D]]]]].
    destruct (sel2_inv ev _ _ _ _ _ _ _ _ E2) as [[-> ->]|[Hcomp _]].
    + right. exists s, cm, retry. auto.
    + exfalso. subst c1 idx1. simpl in Hr1. rewrite nth_error_app2 in Hr1 by apply Nat.le_refl.
      rewrite Nat.sub_diag in Hr1. simpl in Hr1. inversion Hr1; subst r1. discriminate Hcomp.
Qed.


(* the state after the record was selected, the entry unstaged and the failure logged *)
Definition sel_post (t : string) (route : nat) (evt : event) (c c3 : cstate) (idx : nat) : Prop :=
  ((ws_task_idx (c_ws c) t route = Some idx /\ is_engine_command t = false /\
    tasks (c_ws c3) = tasks (c_ws c) /\ sequence (c_ws c3) = sequence (c_ws c) /\
    wstatus (c_ws c3) = wstatus (c_ws c) /\
    (status_in (ev_status evt) STARTING_STATUSES = true ->
     (exists s0, get_staged_task (c_ws c) t route = Some s0 /\ s_completed s0 = false) ->
     forall r, nth_error (sequence (c_ws c)) idx = Some r -> ostatus_in (r_status r) COMPLETED_STATUSES = false))
   \/
   (exists s0 nr, get_staged_task (c_ws c) t route = Some s0 /\ idx = length (sequence (c_ws c)) /\
      tasks (c_ws c3) = aset tkey_eqb (t, route) idx (tasks (c_ws c)) /\
      sequence (c_ws c3) = app (sequence (c_ws c)) [nr] /\ sig nr = (t, route, None) /\ r_next nr = [] /\
      (g_task_has_retry (c_graph c) t = false -> r_retry nr = None) /\
      (wstatus (c_ws c3) = wstatus (c_ws c) \/ wstatus (c_ws c3) = S_FAILED))) /\
  staged (c_ws c3) = staged (ws_remove_staged_task (c_ws c) t route) /\
  contexts (c_ws c3) = contexts (c_ws c) /\ routes (c_ws c3) = routes (c_ws c) /\
  c_graph c3 = c_graph c /\ c_spec c3 = c_spec c /\ c_init c3 = c_init c.

Lemma pre_main_sel : forall t route evt ts c cp p, winv c -> not_item evt ->
  pre_main ev t route evt ts (get_staged_task (c_ws c) t route) (ws_task_idx (c_ws c) t route) c = (cp, Val p) ->
  exists idx c3, sel_post t route evt c c3 idx /\ pre_machine ev t route evt ts idx c3 = (cp, Val p).
Proof.
  intros t route evt ts c cp p Hw Hni H. unfold pre_main in H.
  apply bind_val_inv' in H. destruct H as [c1 [idx1 [E1 H]]].
  apply bind_val_inv' in H. destruct H as [c0 [r1 [E0 H]]]. apply get_rec_inv in E0; destruct E0 as [-> Hr1].
  apply bind_val_inv' in H. destruct H as [c2 [idx [E2 H]]].
  apply bind_val_inv' in H. destruct H as [c3 [u3 [E3 H]]].
  apply bind_val_inv' in H. destruct H as [c4 [u4 [E4 H]]].
  apply bind_val_inv' in H. destruct H as [c5 [u5 [E5 H]]].
  exists idx, c5. split; [|exact H].
  (* item and logfail *)
  assert (I4 : c4 = c3).
  { unfold uts_item in E4. destruct (get_staged_task (c_ws c) t route); [|inversion E4; reflexivity].
    destruct evt; try (inversion E4; reflexivity). destruct Hni. }
  subst c4.
  assert (I5 : c_ws c5 = c_ws c3 /\ c_graph c5 = c_graph c3 /\ c_spec c5 = c_spec c3 /\ c_init c5 = c_init c3).
  { unfold uts_logfail in E5. destruct (status_eqb (ev_status evt) S_FAILED); [|inversion E5; auto].
    apply log_entry_error_eff in E5. tauto. }
  destruct I5 as [I5a [I5b [I5c I5d]]].
  (* unstage *)
  assert (I3 : staged (c_ws c2) = staged (c_ws c) ->
               c_ws c3 = (match get_staged_task (c_ws c) t route with
                          | Some _ => ws_remove_staged_task (c_ws c2) t route | None => c_ws c2 end) /\
               c_graph c3 = c_graph c2 /\ c_spec c3 = c_spec c2 /\ c_init c3 = c_init c2).
  { intros Hst. unfold uts_unstage in E3. destruct (get_staged_task (c_ws c) t route) as [s|] eqn:Es; [|inversion E3; auto].
    assert (Hp : s_items s = None).
    { apply (proj2 Hw). unfold get_staged_task in Es. apply find_some in Es. tauto. }
    rewrite Hp in E3. destruct evt; try (inversion E3; subst; simpl; auto). destruct Hni. }
  unfold sel_post. rewrite I5a, I5b, I5c, I5d.
  destruct (sel_eff _ _ _ _ _ _ _ _ _ E1 Hr1 E2) as [[He [Hc [-> Hncomp]]]|[s [cm [retry [Hs [Hlt [Hi [-> Hnr]]]]]]]].
  - destruct (I3 eq_refl) as [J1 [J2 [J3 J4]]]. rewrite J1, J2, J3, J4.
    split; [left|].
    + split; [exact He|]. split; [exact Hc|].
      destruct (get_staged_task (c_ws c) t route); [|auto].
      rewrite tasks_remove_staged, seq_remove_staged, wstatus_remove_staged. auto.
    + split; [destruct (get_staged_task (c_ws c) t route) eqn:Es; [reflexivity|];
               unfold ws_remove_staged_task; rewrite Es; reflexivity|].
      assert (X : forall w, contexts (ws_remove_staged_task w t route) = contexts w /\ routes (ws_remove_staged_task w t route) = routes w).
      { intro w; unfold ws_remove_staged_task. destruct (get_staged_task w t route); [|auto]. destruct (items_any_active s); auto. }
      destruct (get_staged_task (c_ws c) t route); [destruct (X (c_ws c)) as [X1 X2]; rewrite X1, X2|]; auto.
  - destruct Hlt as [L1 [L2 [L3 [L4 [L5 [L6 [L7 [L8 L9]]]]]]]].
    match type of I3 with staged (c_ws ?x) = _ -> _ => assert (Hst : staged (c_ws x) = staged (c_ws c)) by (simpl; exact L3) end.
    destruct (I3 Hst) as [J1 [J2 [J3 J4]]]. rewrite J1, J2, J3, J4. rewrite Hs. simpl.
    rewrite tasks_remove_staged, seq_remove_staged, wstatus_remove_staged. simpl.
    split; [right|].
    + exists s, (new_rec t route (s_in s) (s_prev s) retry). rewrite <- L1, <- L2.
      split; [reflexivity|]. split; [exact Hi|]. split; [rewrite Hi; reflexivity|]. split; [reflexivity|].
      split; [reflexivity|]. split; [reflexivity|]. split; [|exact L6].
      intro Hn. simpl. apply Hnr; exact Hn.
    + split.
      * rewrite (staged_remove_task_eq (c_ws c)); [reflexivity|]. simpl. exact L3.
      * assert (X : forall w, contexts (ws_remove_staged_task w t route) = contexts w /\ routes (ws_remove_staged_task w t route) = routes w).
        { intro w; unfold ws_remove_staged_task. destruct (get_staged_task w t route); [|auto]. destruct (items_any_active s0); auto. }
        match goal with |- contexts (ws_remove_staged_task ?w _ _) = _ /\ _ => destruct (X w) as [X1 X2]; rewrite X1, X2 end.
        simpl. auto.
Qed.


Lemma list_set_nth_same : forall A (l : list A) i x, nth_error l i = Some x -> list_set_nth i x l = l.
Proof. induction l as [|a l IH]; intros [|i] x H; simpl in *; try discriminate; [inversion H; reflexivity|f_equal; apply IH; exact H]. Qed.

Lemma retrying_eff : forall t route idx r st c c', uts_retrying t route idx r st c = (c', Val tt) ->
  Rfr c c' /\
  (st <> S_RETRYING -> c' = c) /\
  (st = S_RETRYING ->
     (forall s, In s (staged (c_ws c')) -> In s (staged (c_ws c)) \/
                                          (stg_matches t route s = true /\ s_ready s = true /\ stg_plain s)) /\
     (exists s, In s (staged (c_ws c')) /\ stg_matches t route s = true /\ s_ready s = true /\ stg_plain s)) /\
  (is_engine_command t = false -> ncmd c' <= ncmd c).
Proof.
  intros t route idx r st c c' H. split; [eapply vfr_retrying; exact H|].
  assert (Hcnt : is_engine_command t = false -> ncmd c' <= ncmd c).
  { intro Hc. unfold uts_retrying in H. destruct (status_eqb st S_RETRYING); [|inversion H; unfold ncmd; lia].
       destruct (r_retry r) as [rr|]; [|inversion H].
       apply bind_val_inv' in H. destruct H as [c1 [u1 [E1 H]]]. unfold upd_rec, modws in E1. inversion E1; subst c1; clear E1.
       apply bind_val_inv' in H. destruct H as [c2 [u2 [E2 H]]]. unfold modws in E2. inversion E2; subst c2; clear E2.
       unfold modws in H. inversion H; subst c'; clear H. unfold ncmd at 1; simpl.
       rewrite filter_app, app_length. simpl. unfold cmdb at 2; simpl. rewrite Hc. simpl. rewrite Nat.add_0_r.
       match goal with |- length (filter cmdb (staged (ws_remove_staged_task ?w _ _))) <= _ =>
         pose proof (ncmd_remove_task_le (set_ws c w) t route) as L; unfold ncmd in L; simpl in L end.
       unfold ncmd. rewrite staged_update_rec in L. exact L. }
  match goal with |- ?A /\ ?B /\ _ => cut (A /\ B); [tauto|] end.
  unfold uts_retrying in H. destruct (status_eqb st S_RETRYING) eqn:Es.
  - apply status_eqb_eq in Es. split; [intro Hn; contradiction|intros _].
    destruct (r_retry r) as [rr|]; [|inversion H].
    apply bind_val_inv' in H. destruct H as [c1 [u1 [E1 H]]]. unfold upd_rec, modws in E1. inversion E1; subst c1; clear E1.
    apply bind_val_inv' in H. destruct H as [c2 [u2 [E2 H]]]. unfold modws in E2. inversion E2; subst c2; clear E2.
    unfold modws in H. inversion H; subst c'; clear H. simpl.
    assert (M : stg_matches t route (mk_staged t route (r_in r) (r_prev r) true
              (Some {| rr_when := rr_when rr; rr_count := rr_count rr; rr_delay := rr_delay rr; rr_tally := S (rr_tally rr) |})) = true).
    { unfold stg_matches, mk_staged; simpl. rewrite String.eqb_refl, Nat.eqb_refl; reflexivity. }
    split.
    + intros s Hin. apply in_app_or in Hin. destruct Hin as [Hin|[Hin|[]]].
      * left. apply staged_remove_task_incl in Hin. unfold ws_update_rec in Hin.
        destruct (nth_error (sequence (c_ws c)) idx); exact Hin.
      * right. subst s. split; [exact M|]. split; [reflexivity|split; reflexivity].
    + eexists. split; [apply in_or_app; right; left; reflexivity|]. split; [exact M|]. split; [reflexivity|split; reflexivity].
  - split; [intros _; inversion H; reflexivity|]. intro E; subst st. rewrite status_eqb_refl in Es; discriminate.
Qed.

Lemma setst_eff : forall idx ns c c' r, uts_setst idx ns c = (c', Val tt) -> nth_error (sequence (c_ws c)) idx = Some r ->
  sequence (c_ws c') = list_set_nth idx (stepped r ns) (sequence (c_ws c)) /\ tasks (c_ws c') = tasks (c_ws c) /\
  staged (c_ws c') = staged (c_ws c) /\ wstatus (c_ws c') = wstatus (c_ws c) /\
  contexts (c_ws c') = contexts (c_ws c) /\ routes (c_ws c') = routes (c_ws c) /\
  c_graph c' = c_graph c /\ c_spec c' = c_spec c /\ c_init c' = c_init c.
Proof.
  intros idx ns c c' r H Hr. unfold uts_setst in H. destruct ns as [s|].
  - unfold set_rec_status, modws in H. inversion H; subst c'; clear H. simpl.
    unfold ws_update_rec. rewrite Hr. simpl. repeat split; reflexivity.
  - inversion H; subst c'. simpl. rewrite (list_set_nth_same _ _ _ _ Hr). repeat split; reflexivity.
Qed.

(* the machine step, the re-staging for a retry and the completion step *)
Definition machine_post (t : string) (route : nat) (evt : event) (c3 cp : cstate) (p : pre_out) (idx : nat) : Prop :=
  exists r ns,
    nth_error (sequence (c_ws c3)) idx = Some r /\ task_process_event (c_ws c3) r evt = Val ns /\
    po_idx p = idx /\ po_old p = rstatus r /\ po_new p = rstatus (stepped r ns) /\
    tasks (c_ws cp) = tasks (c_ws c3) /\
    map sig (sequence (c_ws cp)) = map sig (list_set_nth idx (stepped r ns) (sequence (c_ws c3))) /\
    (wstatus (c_ws cp) = wstatus (c_ws c3) \/ wstatus (c_ws cp) = S_FAILED) /\
    c_graph cp = c_graph c3 /\ c_spec cp = c_spec c3 /\ c_init cp = c_init c3 /\
    (forall s, In s (staged (c_ws cp)) -> In s (staged (c_ws c3)) \/
        (po_new p = S_RETRYING /\ stg_matches t route s = true /\ s_ready s = true /\ stg_plain s)) /\
    (po_new p = S_RETRYING -> exists s, In s (staged (c_ws cp)) /\ stg_matches t route s = true /\ s_ready s = true /\ stg_plain s) /\
    (status_in (po_new p) COMPLETED_STATUSES = false -> po_compl p = None) /\
    (status_in (po_new p) COMPLETED_STATUSES = true -> exists ctx b, po_compl p = Some (ctx, b)) /\
    (forall ctx, po_compl p = Some (ctx, true) -> tbl_transition_valid task_table (po_new p) S_RETRYING = true) /\
    (po_new p <> S_RETRYING -> ncmd cp <= ncmd c3) /\ (is_engine_command t = false -> ncmd cp <= ncmd c3) /\
    (status_in (po_new p) COMPLETED_STATUSES = false -> po_new p <> S_RETRYING -> staged (c_ws cp) = staged (c_ws c3)).

Lemma pre_machine_eff : forall t route evt ts idx c3 cp p, task_has_items ts = false ->
  pre_machine ev t route evt ts idx c3 = (cp, Val p) -> machine_post t route evt c3 cp p idx.
Proof.
  intros t route evt ts idx c3 cp p Hts H.
  destruct (pre_machine_inv ev _ _ _ _ _ _ _ _ H) as [r [ns [c1 [c2 [Hr [Ens [Est [Hn1 [_ [_ [Ert [Ec [_ [Hpi [Hpo Hpn]]]]]]]]]]]]]]].
  destruct (setst_eff _ _ _ _ _ Est Hr) as [S1 [S2 [S3 [S4 [S5 [S6 [S7 [S8 S9]]]]]]]].
  destruct (retrying_eff _ _ _ _ _ _ _ Ert) as [F2 [R1 [R2 R3]]].
  pose proof (vfr_completion ev _ _ _ _ _ _ _ _ _ _ Ec) as F3.
  pose proof (sub_completion _ _ _ _ _ _ _ Hts _ _ _ Ec) as U3.
  pose proof (cnt_completion _ _ _ _ _ _ _ Hts _ _ _ Ec) as N3. unfold Rcnt in N3.
  assert (N1 : ncmd c1 = ncmd c3) by (unfold ncmd; rewrite S3; reflexivity).
  destruct (Rfr_trans _ _ _ F2 F3) as [T1 [T2 [T3 [T4 [T5 T6]]]]].
  exists r, ns. split; [exact Hr|]. split; [exact Ens|]. split; [exact Hpi|]. split; [exact Hpo|]. split; [exact Hpn|].
  split; [congruence|]. split; [rewrite T2, S1; reflexivity|]. split; [rewrite <- S4; exact T3|].
  split; [congruence|]. split; [congruence|]. split; [congruence|].
  destruct (completion_inv ev _ _ _ _ _ _ _ _ _ _ Ec) as [[Hnc [Hcn Hcc]]|[Hcomp [c6 [r6 [ctx [b [K6 [G6 [Hr6 [Hc6 [Hb6 Hn6]]]]]]]]]]].
  - (* not completed *)
    subst cp. split.
    { intros s Hin. destruct (status_eqb (rstatus (stepped r ns)) S_RETRYING) eqn:Es.
      - apply status_eqb_eq in Es. destruct (R2 Es) as [R2a _]. destruct (R2a _ Hin) as [A|A].
        + left. rewrite <- S3; exact A.
        + right. rewrite Hpn. split; [exact Es|exact A].
      - assert (Hne : rstatus (stepped r ns) <> S_RETRYING) by (intro E; rewrite E in Es; discriminate).
        rewrite (R1 Hne) in Hin. left. rewrite <- S3; exact Hin. }
    split.
    { intro Hret. rewrite Hpn in Hret. destruct (R2 Hret) as [_ R2b]. exact R2b. }
    split; [intros _; exact Hcn|]. split; [rewrite Hpn, Hnc; discriminate|].
    split; [intros ctx Hc; rewrite Hcn in Hc; discriminate|].
    split; [intro Hne; rewrite Hpn in Hne; rewrite (R1 Hne); lia|].
    split; [intro Hc; specialize (R3 Hc); lia|].
    intros _ Hne. rewrite Hpn in Hne. rewrite (R1 Hne). exact S3.
  - (* completed: not retrying, so the re-staging did nothing; the completion step only removes *)
    assert (Hne : rstatus (stepped r ns) <> S_RETRYING) by (intro E; rewrite E in Hcomp; discriminate).
    rewrite (R1 Hne) in *. split.
    { intros s Hin. left. rewrite <- S3. apply U3. exact Hin. }
    split; [intro Hret; rewrite Hpn in Hret; contradiction|].
    split; [rewrite Hpn, Hcomp; discriminate|]. split; [intros _; exists ctx, b; exact Hc6|].
    split.
    { intros ctx' Hc. rewrite Hc6 in Hc. inversion Hc; subst. destruct (Hb6 eq_refl) as [_ [Hv _]]. rewrite Hpn. exact Hv. }
    split; [intros _; lia|]. split; [intros _; lia|]. intro X. rewrite Hpn, Hcomp in X. discriminate.
Qed.

End Effects.

(* ================================================================== F. the status of the record a key points to *)

Definition pstat (c : cstate) (k : tkey) : option (option status) :=
  match aget tkey_eqb k (tasks (c_ws c)) with
  | Some i => match nth_error (sequence (c_ws c)) i with Some r => Some (r_status r) | None => None end
  | None => None
  end.

Lemma nth_error_map_sig : forall l l' i, map sig l' = map sig l ->
  match nth_error l' i with Some r => Some (r_status r) | None => None end =
  match nth_error l i with Some r => Some (r_status r) | None => None end.
Proof.
  intros l l' i H.
  assert (E : nth_error (map sig l') i = nth_error (map sig l) i) by (rewrite H; reflexivity).
  rewrite !nth_error_map in E. destruct (nth_error l' i), (nth_error l i); simpl in E; try discriminate; [|reflexivity].
  inversion E; reflexivity.
Qed.

Lemma pstat_same : forall c c', tasks (c_ws c') = tasks (c_ws c) ->
  map sig (sequence (c_ws c')) = map sig (sequence (c_ws c)) -> forall k, pstat c' k = pstat c k.
Proof.
  intros c c' Ht Hs k. unfold pstat. rewrite Ht. destruct (aget tkey_eqb k (tasks (c_ws c))); [|reflexivity].
  apply nth_error_map_sig; exact Hs.
Qed.

Lemma pstat_Rfr : forall c c', Rfr c c' -> forall k, pstat c' k = pstat c k.
Proof. intros c c' [H1 [H2 _]]; apply pstat_same; assumption. Qed.

Lemma pstat_some : forall c k x, pstat c k = Some x ->
  exists i r, aget tkey_eqb k (tasks (c_ws c)) = Some i /\ nth_error (sequence (c_ws c)) i = Some r /\ r_status r = x.
Proof.
  intros c k x H. unfold pstat in H. destruct (aget tkey_eqb k (tasks (c_ws c))) as [i|]; [|discriminate].
  destruct (nth_error (sequence (c_ws c)) i) as [r|] eqn:E; [|discriminate]. inversion H. exists i, r; auto.
Qed.

(* some pointed record is active *)
Definition act (c : cstate) : Prop :=
  exists k s, pstat c k = Some (Some s) /\ status_in s ACTIVE_STATUSES = true.

Lemma In_enumerate_from_nth : forall A (l : list A) n i x, nth_error l i = Some x -> In (n + i, x) (enumerate_from n l).
Proof.
  induction l as [|a l IH]; intros n [|i] x H; simpl in *; try discriminate.
  - inversion H; subst. rewrite Nat.add_0_r. left; reflexivity.
  - right. replace (n + S i) with (S n + i) by lia. apply IH; exact H.
Qed.

Lemma tasks_by_status_intro : forall w l i r, nth_error (sequence w) i = Some r -> ostatus_in (r_status r) l = true ->
  ws_pointed w i = true -> In (i, r) (ws_tasks_by_status w l).
Proof.
  intros w l i r Hn Hs Hp. unfold ws_tasks_by_status. apply filter_In. split.
  - unfold enumerate. apply (In_enumerate_from_nth _ _ 0 i r Hn).
  - rewrite Hs, Hp; reflexivity.
Qed.

Lemma ws_pointed_iff : forall w i, ws_pointed w i = true <-> exists k, In (k, i) (tasks w).
Proof.
  intros w i; unfold ws_pointed; rewrite existsb_exists; split.
  - intros [[k j] [Hin He]]. apply Nat.eqb_eq in He; subst j. exists k; exact Hin.
  - intros [k Hin]. exists (k, i); split; [exact Hin|apply Nat.eqb_refl].
Qed.

Lemma tasks_by_status_iff : forall c l, winv c ->
  (ws_tasks_by_status (c_ws c) l <> [] <-> exists k s, pstat c k = Some (Some s) /\ status_in s l = true).
Proof.
  intros c l [[Hnd Ht] _]; split.
  - intro H. destruct (ws_tasks_by_status (c_ws c) l) as [|[i r] rest] eqn:E; [contradiction|].
    assert (Hin : In (i, r) (ws_tasks_by_status (c_ws c) l)) by (rewrite E; left; reflexivity).
    destruct (tasks_by_status_In _ _ _ _ Hin) as [Hn Hs].
    unfold ws_tasks_by_status in Hin. apply filter_In in Hin. destruct Hin as [_ Hf]. apply andb_prop in Hf. destruct Hf as [_ Hp].
    apply ws_pointed_iff in Hp. destruct Hp as [k Hk].
    destruct (r_status r) as [s|] eqn:Er; [|discriminate]. exists k, s. split; [|exact Hs].
    unfold pstat. rewrite (In_aget_tkey _ _ _ Hnd Hk), Hn, Er. reflexivity.
  - intros [k [s [Hp Hs]]] E. destruct (pstat_some _ _ _ Hp) as [i [r [Ha [Hn Hr]]]].
    assert (Hin : In (i, r) (ws_tasks_by_status (c_ws c) l)).
    { apply tasks_by_status_intro; [exact Hn|rewrite Hr; exact Hs|]. apply ws_pointed_iff. exists k. apply aget_In_tkey; exact Ha. }
    rewrite E in Hin. destruct Hin.
Qed.

Lemma has_active_iff : forall c, winv c -> (has_active_tasks (c_ws c) = true <-> act c).
Proof.
  intros c Hw. unfold has_active_tasks, act. rewrite <- (tasks_by_status_iff c ACTIVE_STATUSES Hw).
  destruct (ws_tasks_by_status (c_ws c) ACTIVE_STATUSES); split; intro H; try discriminate; try reflexivity.
  exfalso; apply H; reflexivity.
Qed.

Lemma has_active_false_iff : forall c, winv c -> (has_active_tasks (c_ws c) = false <-> ~ act c).
Proof.
  intros c Hw. rewrite <- (has_active_iff c Hw). destruct (has_active_tasks (c_ws c)); split; intro H;
    first [reflexivity | discriminate | (exfalso; apply H; reflexivity) | (intro; discriminate)].
Qed.

Lemma pstat_sig : forall c k, pstat c k =
  match aget tkey_eqb k (tasks (c_ws c)) with
  | Some i => option_map (fun x : string * nat * option status => snd x) (nth_error (map sig (sequence (c_ws c))) i)
  | None => None end.
Proof.
  intros c k; unfold pstat. destruct (aget tkey_eqb k (tasks (c_ws c))) as [i|]; [|reflexivity].
  rewrite nth_error_map. destruct (nth_error (sequence (c_ws c)) i); reflexivity.
Qed.

Lemma map_sig_set_nth_other : forall l i j (x : trec), i <> j ->
  nth_error (map sig (list_set_nth i x l)) j = nth_error (map sig l) j.
Proof. intros. rewrite !nth_error_map, nth_error_set_nth_other by assumption. reflexivity. Qed.

Lemma aget_aset_same_tkey : forall (d : list (tkey * nat)) k v, aget tkey_eqb k (aset tkey_eqb k v d) = Some v.
Proof. intros; apply aget_aset_same. apply tkey_eqb_refl. Qed.

(* the records after the machine step, key by key *)
Lemma prefix_pstat : forall t route evt c c3 cp p idx, winv c ->
  sel_post t route evt c c3 idx -> machine_post t route evt c3 cp p idx ->
  (forall k', k' <> (t, route) -> pstat cp k' = pstat c k') /\
  exists r ns, nth_error (sequence (c_ws c3)) idx = Some r /\ task_process_event (c_ws c3) r evt = Val ns /\
    pstat cp (t, route) = Some (r_status (stepped r ns)) /\
    aget tkey_eqb (t, route) (tasks (c_ws cp)) = Some idx /\
    po_new p = rstatus (stepped r ns) /\ po_old p = rstatus r /\
    ((pstat c (t, route) = Some (r_status r) /\ is_engine_command t = false /\ key_of r = (t, route) /\
      (status_in (ev_status evt) STARTING_STATUSES = true ->
       (exists s0, get_staged_task (c_ws c) t route = Some s0 /\ s_completed s0 = false) ->
       ostatus_in (r_status r) COMPLETED_STATUSES = false)) \/
     (r_status r = None /\ r_next r = [] /\ (g_task_has_retry (c_graph c) t = false -> r_retry r = None) /\
      exists s0, get_staged_task (c_ws c) t route = Some s0)).
Proof.
  intros t route evt c c3 cp p idx [[Hnd Ht] Hs] [Hsel _] [r [ns [Hr [Ens [_ [Hpo [Hpn [T1 [T2 _]]]]]]]]].
  assert (Hself : (pstat cp (t, route) = Some (r_status (stepped r ns)) /\
                   aget tkey_eqb (t, route) (tasks (c_ws cp)) = Some idx) /\
                  forall k', k' <> (t, route) -> pstat cp k' = pstat c k').
  { destruct Hsel as [[He [Hc [A1 [A2 [A3 A3x]]]]]|[s0 [nr [Hs0 [Hi [A1 [A2 [A3 [A3' [A4 A5]]]]]]]]]].
    - unfold ws_task_idx in He. split.
      + split; [|rewrite T1, A1; exact He].
        rewrite pstat_sig, T1, A1, He, T2. rewrite nth_error_map.
        rewrite (nth_error_set_nth_same _ _ _ _ _ Hr). reflexivity.
      + intros k' Hk. rewrite !pstat_sig, T1, A1, T2.
        destruct (aget tkey_eqb k' (tasks (c_ws c))) as [i|] eqn:Ek; [|reflexivity].
        assert (Hne : idx <> i).
        { intro E; subst i. destruct (Ht _ _ (aget_In_tkey _ _ _ Ek)) as [r1 [Hr1 Hk1]].
          destruct (Ht _ _ (aget_In_tkey _ _ _ He)) as [r2 [Hr2 Hk2]]. rewrite Hr1 in Hr2; inversion Hr2; subst. congruence. }
        rewrite map_sig_set_nth_other by exact Hne. rewrite A2. reflexivity.
    - split.
      + split; [|rewrite T1, A1; apply aget_aset_same_tkey].
        rewrite pstat_sig, T1, A1, aget_aset_same_tkey, T2. rewrite nth_error_map.
        rewrite (nth_error_set_nth_same _ _ _ _ _ Hr). reflexivity.
      + intros k' Hk. rewrite !pstat_sig, T1, A1, T2, aget_aset_other by exact Hk.
        destruct (aget tkey_eqb k' (tasks (c_ws c))) as [i|] eqn:Ek; [|reflexivity].
        destruct (Ht _ _ (aget_In_tkey _ _ _ Ek)) as [r1 [Hr1 _]].
        assert (Hlt : i < length (sequence (c_ws c))) by (apply nth_error_Some; rewrite Hr1; discriminate).
        rewrite map_sig_set_nth_other by lia. rewrite A2, !nth_error_map, nth_error_app1 by exact Hlt. reflexivity. }
  destruct Hself as [[H1 H1'] H2]. split; [exact H2|].
  exists r, ns. split; [exact Hr|]. split; [exact Ens|]. split; [exact H1|]. split; [exact H1'|]. split; [exact Hpn|]. split; [exact Hpo|].
  destruct Hsel as [[He [Hc [A1 [A2 [A3 A3x]]]]]|[s0 [nr [Hs0 [Hi [A1 [A2 [A3 [A3' [A4 A5]]]]]]]]]].
  - left. unfold ws_task_idx in He. rewrite A2 in Hr. split; [unfold pstat; rewrite He, Hr; reflexivity|]. split; [exact Hc|].
    split; [destruct (Ht _ _ (aget_In_tkey _ _ _ He)) as [r2 [Hr2 Hk2]]; rewrite Hr in Hr2; inversion Hr2; subst; exact Hk2|].
    intros X Y. exact (A3x X Y _ Hr).
  - right. rewrite A2, Hi in Hr. rewrite nth_error_app2 in Hr by apply Nat.le_refl. rewrite Nat.sub_diag in Hr.
    simpl in Hr. inversion Hr; subst r. assert (Hst : r_status nr = None) by (unfold sig in A3; congruence).
    split; [exact Hst|]. split; [exact A3'|]. split; [exact A4|exists s0; exact Hs0].
Qed.

(* ================================================================== G. the spine of a returning call *)

Lemma spec_no_items : forall sp t ts, no_items sp = true -> spec_get_task sp t = Some ts -> task_has_items ts = false.
Proof.
  intros sp t ts Hn H. unfold spec_get_task in H. destruct (string_in t RESERVED_TASK_NAMES).
  - inversion H; reflexivity.
  - apply aget_In in H. unfold no_items in Hn. rewrite forallb_forall in Hn. specialize (Hn _ H).
    apply negb_true_iff in Hn. exact Hn.
Qed.

(* everything but the record flags and the error log is as before *)
Definition Rflag (c c' : cstate) : Prop :=
  Rfr c c' /\ staged (c_ws c') = staged (c_ws c) /\ wstatus (c_ws c') = wstatus (c_ws c).

Section Spine.
Variable ev : string -> dict -> evalres.

Lemma prefix_eff : forall t route evt c cp p, winv c -> c_init c = true -> no_items (c_spec c) = true -> not_item evt ->
  uts_prefix ev t route evt c = (cp, Val p) ->
  exists idx c3, sel_post t route evt c c3 idx /\ machine_post t route evt c3 cp p idx /\
    spec_get_task (c_spec c) t = Some (po_ts p) /\ task_has_items (po_ts p) = false /\
    g_has_task (c_graph c) t = true.
Proof.
  intros t route evt c cp p Hw Hi Hn Hni H. unfold uts_prefix in H.
  unfold bind at 1 in H. rewrite (ensure_ws_inited ev c Hi) in H.
  unfold bind at 1 in H. unfold get at 1 in H.
  destruct (negb (g_has_task (c_graph c) t)) eqn:Eg; [inversion H|]. apply negb_false_iff in Eg. cbv zeta in H.
  apply bind_val_inv' in H. destruct H as [c2 [ts [E2 H]]].
  destruct (spec_get_task (c_spec c) t) as [ts'|] eqn:Ets; [|inversion E2]. inversion E2; subst c2 ts'; clear E2.
  pose proof (spec_no_items _ _ _ Hn Ets) as Hts.
  assert (Hm : pre_main ev t route evt ts (get_staged_task (c_ws c) t route) (ws_task_idx (c_ws c) t route) c = (cp, Val p)).
  { destruct (get_staged_task (c_ws c) t route), (ws_task_idx (c_ws c) t route); try exact H. inversion H. }
  destruct (pre_main_sel ev _ _ _ _ _ _ _ Hw Hni Hm) as [idx [c3 [Hsel Hpm]]].
  assert (Hpts : po_ts p = ts).
  { destruct (pre_machine_inv ev _ _ _ _ _ _ _ _ Hpm) as [r [ns [c1 [c4 [_ [_ [_ [_ [_ [_ [_ [_ [Hp _]]]]]]]]]]]]]. exact Hp. }
  exists idx, c3. split; [exact Hsel|]. split; [apply (pre_machine_eff ev _ _ _ ts); assumption|].
  rewrite Hpts. auto.
Qed.

Lemma tail_inv : forall rec t route ts idx old new compl cp c',
  uts_tail ev rec t route ts idx old new compl cp = (c', Val tt) -> (forall ctx, compl <> Some (ctx, true)) ->
  exists queue cq r st unr cw cl cn,
    uts_queue ev t route idx ts old new compl cp = (cq, Val queue) /\
    nth_error (sequence (c_ws cq)) idx = Some r /\ r_status r = Some st /\
    wf_task_event_M t route st cq = (cw, Val unr) /\
    log_unreachable unr cw = (cl, Val tt) /\ c_ws cl = c_ws cw /\
    forM_ queue (uts_call rec) cl = (cn, Val tt) /\
    Rflag cn c'.
Proof.
  intros rec t route ts idx old new compl cp c' H Hc. unfold uts_tail in H.
  assert (H' : (queue <- uts_queue ev t route idx ts old new compl ;;
                r <- get_rec idx ;;
                st <- match r_status r with Some s => ret s | None => raise (exn_key "status") end ;;
                unreachable <- wf_task_event_M t route st ;;
                log_unreachable unreachable ;;;
                forM_ queue (uts_call rec) ;;;
                (w <- getws ;; (if status_in (wstatus w) COMPLETED_STATUSES then upd_rec idx (fun r0 => r_set_term r0 true) else ret tt)))
               cp = (c', Val tt)).
  { destruct compl as [[ctx [|]]|]; [exfalso; exact (Hc ctx eq_refl)|exact H|exact H]. }
  clear H. rename H' into H.
  apply bind_val_inv' in H. destruct H as [cq [queue [Eq H]]].
  apply bind_val_inv' in H. destruct H as [c0 [r [E0 H]]]. apply get_rec_inv in E0; destruct E0 as [-> Hr].
  apply bind_val_inv' in H. destruct H as [c0 [st [E0 H]]].
  destruct (r_status r) as [st'|] eqn:Est; [|inversion E0]. inversion E0; subst c0 st'; clear E0.
  apply bind_val_inv' in H. destruct H as [cw [unr [Ew H]]].
  apply bind_val_inv' in H. destruct H as [cl [[] [El H]]].
  apply bind_val_inv' in H. destruct H as [cn [[] [En H]]].
  exists queue, cq, r, st, unr, cw, cl, cn.
  split; [exact Eq|]. split; [exact Hr|]. split; [exact Est|]. split; [exact Ew|]. split; [exact El|].
  split; [destruct (log_unreachable_run unr cw) as [c2 [E2 W2]]; rewrite E2 in El; inversion El; subst; exact W2|].
  split; [exact En|].
  apply bind_val_inv' in H. destruct H as [c0 [w [E0 H]]]. inversion E0; subst c0 w; clear E0.
  destruct (status_in (wstatus (c_ws cn)) COMPLETED_STATUSES).
  - unfold upd_rec, modws in H. inversion H; subst c'. split; [apply Rfr_update_rec; intro; reflexivity|].
    simpl. rewrite wstatus_update_rec. split; [|reflexivity].
    unfold ws_update_rec. destruct (nth_error (sequence (c_ws cn)) idx); reflexivity.
  - inversion H; subst. split; [apply Rfr_refl|split; reflexivity].
Qed.

End Spine.

(* ================================================================== H. engine commands in staging: counted *)

Section Counting.
Variable ev : string -> dict -> evalres.

Lemma vs_of_lt : forall A (m : M A), vpres Rlt m -> vpres Rstg m.
Proof. intros A m H c c' a E; apply Rlt_Rstg; eapply H; exact E. Qed.
Lemma ps_of_lt : forall A (m : M A), preserves Rlt m -> preserves Rstg m.
Proof. intros A m H c c' a E; apply Rlt_Rstg; eapply H; exact E. Qed.

Ltac sleaf0 := first [ apply staged_update_rec | reflexivity ].
Ltac pleaf :=
  first [ solve [apply (preserves_modws Rstg); intro; unfold Rstg; simpl; sleaf0]
        | solve [apply (preserves_modify Rstg); intro; unfold Rstg; simpl; sleaf0]
        | assumption
        | solve [apply ps_of_lt; first [apply lt_log_error|apply lt_log_errors|apply lt_get_task_context|apply lt_render_vars|apply lt_log_entry_error]] ].
Ltac leaf :=
  first [ solve [apply (vp_modws Rstg); intro; unfold Rstg; simpl; sleaf0]
        | solve [apply (vp_modify Rstg); intro; unfold Rstg; simpl; sleaf0]
        | assumption
        | solve [apply vs_of_lt; first [apply vlt_request_failed|apply vlt_log_error|apply vlt_log_errors|apply vlt_get_task_context
                                        |apply vlt_render_vars|apply vlt_log_unreachable]] ].
Ltac walk := sw Rstg_refl Rstg_trans pleaf leaf.

Lemma vs_get_rec : forall i, vpres Rstg (get_rec i).
Proof. intros; unfold get_rec; walk. Qed.
Lemma vs_upd_rec : forall i f, vpres Rstg (upd_rec i f).
Proof. intros; unfold upd_rec; walk. Qed.
Lemma ps_upd_rec : forall i f, preserves Rstg (upd_rec i f).
Proof. intros; unfold upd_rec. apply (preserves_modws Rstg); intro; unfold Rstg; simpl; apply staged_update_rec. Qed.
Lemma vs_evaluate_route : forall e r, vpres Rstg (evaluate_route e r).
Proof. intros; unfold evaluate_route; walk. Qed.
Lemma vs_finalize_context : forall ts e ctx, vpres Rstg (finalize_context ev ts e ctx).
Proof. intros; unfold finalize_context; walk. Qed.

(* one transition: at most one engine command more in staging, and then it is queued *)
Lemma process_transition_count : forall t route idx ts ctx e c c' res,
  process_transition ev t route idx ts ctx e c = (c', Val res) ->
  ncmd c' <= ncmd c + match fst res with Some _ => 1 | None => 0 end.
Proof.
  intros t route idx ts ctx e c c' res H. unfold process_transition in H.
  apply bind_val_inv' in H. destruct H as [c1 [ok [E1 H]]].
  assert (S1 : staged (c_ws c1) = staged (c_ws c)).
  { match type of E1 with ?m _ = _ => assert (P : vpres Rstg m) end; [|exact (P _ _ _ E1)].
    pose proof (ps_upd_rec idx) as Hu. pose proof (vs_upd_rec idx) as Hv. walk. }
  assert (Z : forall cx n, staged (c_ws cx) = staged (c_ws c) -> ncmd cx <= ncmd c + n) by (intros cx n Hx; unfold ncmd; rewrite Hx; lia).
  destruct ok as [[|]|]; try (inversion H; subst; apply Z; exact S1).
  apply bind_val_inv' in H. destruct H as [c2 [[new_ctx errors] [E2 H]]].
  pose proof (vs_finalize_context _ _ _ _ _ _ E2) as S2. unfold Rstg in S2.
  destruct errors as [|e1 errs].
  2: { apply bind_val_inv' in H. destruct H as [c3 [u3 [E3 H]]].
       apply bind_val_inv' in H. destruct H as [c4 [u4 [E4 H]]]. inversion H; subst; simpl.
       pose proof (vs_of_lt _ _ (vlt_log_errors _ _ _ _) _ _ _ E3) as S3.
       pose proof (vs_of_lt _ _ vlt_request_failed _ _ _ E4) as S4. unfold Rstg in *.
       apply Z. congruence. }
  apply bind_val_inv' in H. destruct H as [c3 [r [E3 H]]]. apply get_rec_inv in E3; destruct E3 as [-> Hr].
  apply bind_val_inv' in H. destruct H as [c3 [w [E3 H]]]. inversion E3; subst c3 w; clear E3.
  apply bind_val_inv' in H. destruct H as [c3 [out_idxs [E3 H]]].
  assert (S3 : staged (c_ws c3) = staged (c_ws c2)).
  { match type of E3 with ?m _ = _ => assert (P : vpres Rstg m) end; [|exact (P _ _ _ E3)].
    pose proof (vs_upd_rec idx) as Hv. walk. }
  apply bind_val_inv' in H. destruct H as [c4 [next_route [E4 H]]].
  pose proof (vs_evaluate_route _ _ _ _ _ E4) as S4. unfold Rstg in S4.
  apply bind_val_inv' in H. destruct H as [c5 [w5 [E5 H]]]. inversion E5; subst c5 w5; clear E5.
  apply bind_val_inv' in H. destruct H as [c5 [u5 [E5 H]]].
  apply bind_val_inv' in H. destruct H as [c6 [cc [E6 H]]]. inversion E6; subst c6 cc; clear E6.
  apply bind_val_inv' in H. destruct H as [c6 [u6 [E6 H]]]. unfold modws in E6. inversion E6; subst c6; clear E6.
  assert (N5 : ncmd c5 <= ncmd c4 + (if is_engine_command (e_dst e) then 1 else 0)).
  { destruct (get_staged_task (c_ws c4) (e_dst e) next_route).
    - destruct (nat_remove_first 0 out_idxs); [|inversion E5]. unfold modws in E5. inversion E5; subst c5. unfold ncmd; simpl.
      rewrite filter_cmdb_staged_update by (intro; reflexivity). lia.
    - unfold modws in E5. inversion E5; subst c5. unfold ncmd; simpl. unfold ws_add_staged; simpl.
      rewrite filter_app, app_length. simpl. unfold cmdb at 2. simpl. destruct (is_engine_command (e_dst e)); simpl; lia. }
  assert (N4 : ncmd c4 = ncmd c) by (unfold ncmd; congruence).
  assert (N6 : forall cx, cx = set_ws c5 (ws_set_staged (c_ws c5)
                 (staged_update (fun s => s_set_ready s
                    (inbound_eqb (get_inbound_criteria_status (c_graph c5) (c_ws c5) (e_dst e) route) InbSatisfied))
                    (e_dst e) next_route (staged (c_ws c5)))) -> ncmd cx = ncmd c5).
  { intros cx ->. unfold ncmd; simpl. apply filter_cmdb_staged_update. intro; reflexivity. }
  destruct (is_engine_command (e_dst e)).
  - inversion H; subst. simpl. rewrite (N6 _ eq_refl). lia.
  - match type of H with (if ?b then _ else _) _ = _ => destruct b end; inversion H; subst; simpl; rewrite (N6 _ eq_refl); lia.
Qed.

Lemma mapM_transitions_count : forall t route idx ts ctx l c c' rs,
  mapM (process_transition ev t route idx ts ctx) l c = (c', Val rs) ->
  ncmd c' <= ncmd c + length (flat_map (fun '(q, _) => match q with Some x => [x] | None => [] end) rs).
Proof.
  intros t route idx ts ctx; induction l as [|e l IH]; intros c c' rs H; simpl in H.
  - inversion H; subst; simpl; lia.
  - apply bind_val_inv' in H. destruct H as [c1 [res [E1 H]]].
    apply bind_val_inv' in H. destruct H as [c2 [rs' [E2 H]]]. inversion H; subst; clear H.
    pose proof (process_transition_count _ _ _ _ _ _ _ _ _ E1) as N1. pose proof (IH _ _ _ E2) as N2.
    simpl. rewrite app_length. destruct res as [[x|] q]; simpl in *; lia.
Qed.

End Counting.

Section QueueFacts.
Variable ev : string -> dict -> evalres.

Lemma Rflag_refl : forall c, Rflag c c.
Proof. intro c; split; [apply Rfr_refl|split; reflexivity]. Qed.
Lemma Rflag_trans : forall a b c, Rflag a b -> Rflag b c -> Rflag a c.
Proof. intros a b c [A1 [A2 A3]] [B1 [B2 B3]]; split; [eapply Rfr_trans; eassumption|split; congruence]. Qed.
Lemma Rflag_upd_rec : forall c i f, (forall r, sig (f r) = sig r) -> Rflag c (set_ws c (ws_update_rec (c_ws c) i f)).
Proof.
  intros c i f Hf. split; [apply Rfr_update_rec; exact Hf|]. simpl. rewrite staged_update_rec, wstatus_update_rec. split; reflexivity.
Qed.

(* a task without outgoing transition: nothing queued, nothing staged *)
Lemma queue_nil_flag : forall t route idx ts old new compl c c' q,
  uts_queue ev t route idx ts old new compl c = (c', Val q) -> g_next_transitions (c_graph c) t = [] ->
  q = [] /\ Rflag c c'.
Proof.
  intros t route idx ts old new compl c c' q H Hc. unfold uts_queue in H.
  destruct compl as [[ctx b]|]; [|inversion H; subst; split; [reflexivity|apply Rflag_refl]].
  destruct (negb (status_eqb new old)); [|inversion H; subst; split; [reflexivity|apply Rflag_refl]].
  apply bind_val_inv' in H. destruct H as [c0 [cst [E0 H]]]. inversion E0; subst c0 cst; clear E0.
  cbv zeta in H. rewrite Hc in H.
  apply bind_val_inv' in H. destruct H as [c1 [u1 [E1 H]]]. unfold upd_rec, modws in E1. inversion E1; subst c1; clear E1.
  apply bind_val_inv' in H. destruct H as [c2 [rs [E2 H]]]. simpl in E2. inversion E2; subst c2 rs; clear E2.
  apply bind_val_inv' in H. destruct H as [c3 [u3 [E3 H]]]. simpl in E3. inversion E3; subst c3; clear E3.
  apply bind_val_inv' in H. destruct H as [c4 [r4 [E4 H]]]. apply get_rec_state in E4; subst c4.
  apply bind_val_inv' in H. destruct H as [c5 [u5 [E5 H]]]. inversion E5; subst c5; clear E5.
  inversion H; subst. split; [reflexivity|]. apply Rflag_upd_rec. intro; reflexivity.
Qed.

Lemma queue_count : forall t route idx ts old new compl c c' q,
  uts_queue ev t route idx ts old new compl c = (c', Val q) -> ncmd c' <= ncmd c + length q.
Proof.
  intros t route idx ts old new compl c c' q H. unfold uts_queue in H.
  destruct compl as [[ctx b]|]; [|inversion H; subst; simpl; lia].
  destruct (negb (status_eqb new old)); [|inversion H; subst; simpl; lia].
  apply bind_val_inv' in H. destruct H as [c0 [cst [E0 H]]]. inversion E0; subst c0 cst; clear E0. cbv zeta in H.
  apply bind_val_inv' in H. destruct H as [c1 [u1 [E1 H]]].
  assert (N1 : ncmd c1 = ncmd c).
  { destruct (g_next_transitions (c_graph c) t); [|inversion E1; reflexivity].
    unfold upd_rec, modws in E1. inversion E1; subst c1. unfold ncmd; simpl. rewrite staged_update_rec; reflexivity. }
  apply bind_val_inv' in H. destruct H as [c2 [rs [E2 H]]].
  pose proof (mapM_transitions_count ev _ _ _ _ _ _ _ _ _ E2) as N2.
  apply bind_val_inv' in H. destruct H as [c3 [u3 [E3 H]]].
  assert (N3 : ncmd c3 = ncmd c2).
  { match type of E3 with ?m _ = _ => assert (P : vpres (fun a b => ncmd b = ncmd a) m) end; [|exact (P _ _ _ E3)].
    destruct (existsb _ _); [|apply vp_ret; reflexivity].
    apply vp_forM; [reflexivity|intros; congruence|]. intros [n rt]. apply vp_modws. intro x. unfold ncmd; simpl.
    apply filter_cmdb_staged_update. intro; reflexivity. }
  apply bind_val_inv' in H. destruct H as [c4 [r4 [E4 H]]]. apply get_rec_state in E4; subst c4.
  apply bind_val_inv' in H. destruct H as [c5 [u5 [E5 H]]].
  assert (N5 : ncmd c5 = ncmd c3).
  { destruct (g_next_transitions (c_graph c) t); [inversion E5; reflexivity|].
    match type of E5 with (if ?b then _ else _) _ = _ => destruct b end; [inversion E5; reflexivity|].
    unfold upd_rec, modws in E5. inversion E5; subst c5. unfold ncmd; simpl. rewrite staged_update_rec; reflexivity. }
  inversion H; subst. lia.
Qed.

End QueueFacts.

(* ================================================================== I. the workflow status is truthful *)

(* every pointed record has one of the five statuses of a task without items under the protocol *)
Definition simple (c : cstate) : Prop :=
  forall k x, pstat c k = Some x -> exists s, x = Some s /\ In s simple_statuses.

Lemma active_simple_running : forall s, In s simple_statuses -> status_in s ACTIVE_STATUSES = true -> s = S_RUNNING.
Proof. intros s [H|[H|[H|[H|[H|[]]]]]] Ha; subst; try reflexivity; discriminate. Qed.

(* the workflow is not pausing or paused (and its status is one the protocol can produce) *)
Definition npause (c : cstate) : Prop :=
  In (wstatus (c_ws c)) sys_wf_statuses /\ ~ In (wstatus (c_ws c)) [S_PAUSING; S_PAUSED].

Lemma npause_weaken : forall c c', npause c -> (wstatus (c_ws c') = wstatus (c_ws c) \/ wstatus (c_ws c') = S_FAILED) -> npause c'.
Proof.
  intros c c' [H1 H2] [E|E]; unfold npause; rewrite E; [split; assumption|].
  split; [simpl; tauto|]. simpl. intuition discriminate.
Qed.

Lemma simple_update : forall c c' k, (forall k', k' <> k -> pstat c' k' = pstat c k') -> simple c ->
  (forall x, pstat c' k = Some x -> exists s, x = Some s /\ In s simple_statuses) -> simple c'.
Proof.
  intros c c' k H Hs Hk k' x Hp. destruct (tkey_eqb k' k) eqn:E.
  - apply tkey_eqb_eq in E; subst k'. apply Hk; exact Hp.
  - rewrite H in Hp; [exact (Hs _ _ Hp)|]. intro X; subst k'. rewrite tkey_eqb_refl in E. discriminate.
Qed.

Lemma simple_same : forall c c', (forall k, pstat c' k = pstat c k) -> simple c -> simple c'.
Proof. intros c c' H Hs k x Hp. rewrite H in Hp. exact (Hs _ _ Hp). Qed.

(* no task is pausing, paused or pending *)
Lemma no_pause_flags : forall c, winv c -> simple c ->
  has_pausing_tasks (c_ws c) || has_paused_tasks (c_ws c) = false.
Proof.
  intros c Hw Hs.
  assert (X : forall l, (forall s, In s simple_statuses -> status_in s l = false) -> ws_tasks_by_status (c_ws c) l = []).
  { intros l Hl. destruct (ws_tasks_by_status (c_ws c) l) eqn:E; [reflexivity|exfalso].
    assert (Y : ws_tasks_by_status (c_ws c) l <> []) by (rewrite E; discriminate).
    apply (tasks_by_status_iff c _ Hw) in Y. destruct Y as [k [s [Hp Hin]]].
    destruct (Hs _ _ Hp) as [s' [Hx Hss]]. inversion Hx; subst s'. rewrite (Hl _ Hss) in Hin. discriminate. }
  unfold has_pausing_tasks, has_paused_tasks.
  rewrite (X [S_PAUSING]), (X [S_PAUSED; S_PENDING]); [reflexivity| |];
    intros s [H|[H|[H|[H|[H|[]]]]]]; subst s; reflexivity.
Qed.

Definition stgb (c : cstate) : bool := has_staged_tasks (c_ws c).

(* the status-linked invariant: what each workflow status says about active records and ready entries *)
Definition kinv (c : cstate) : Prop :=
  let s := wstatus (c_ws c) in
  In s sys_wf_statuses /\
  (In s [S_PAUSED; S_CANCELED; S_SUCCEEDED] -> ~ act c) /\
  (s = S_SUCCEEDED -> stgb c = false) /\
  (In s [S_PAUSING; S_CANCELING] -> act c) /\
  (In s [S_RUNNING; S_RESUMING] -> act c \/ stgb c = true).

(* its resting clauses only (what is known in the middle of a task event) *)
Definition kpre (c : cstate) : Prop :=
  let s := wstatus (c_ws c) in
  In s sys_wf_statuses /\ s <> S_UNSET /\
  (In s [S_PAUSED; S_CANCELED; S_SUCCEEDED] -> ~ act c) /\
  (s = S_SUCCEEDED -> stgb c = false).

Lemma kinv_kpre : forall c, kinv c -> wstatus (c_ws c) <> S_UNSET -> kpre c.
Proof. intros c [K1 [K2 [K3 _]]] Hn; repeat split; assumption. Qed.

Lemma act_same : forall c c', (forall k, pstat c' k = pstat c k) -> (act c' <-> act c).
Proof.
  intros c c' H; unfold act; split; intros [k [s [Hp Hs]]]; exists k, s; split; try exact Hs; [rewrite <- H|rewrite H]; exact Hp.
Qed.

Lemma wf_task_event_eff : forall t route st c c' unr, wf_task_event_M t route st c = (c', Val unr) ->
  exists n, c' = set_ws c (ws_set_status (c_ws c) n) /\
    (n = S_FAILED \/ n = step_or_stay (wstatus (c_ws c)) (wf_task_event_name (c_graph c) (c_ws c) t route st)).
Proof.
  intros t route st c c' unr H.
  pose proof (wf_task_event_M_spec _ _ _ _ _ _ H) as [[e [He _]]|[u [Hu Hspec]]]; [discriminate|].
  unfold wf_task_event_M in H.
  destruct (wf_process_task_event (c_graph c) (c_ws c) t route st) as [[new unr']|e]; inversion H; subst; clear H.
  exists new. split; [reflexivity|]. cbv zeta in Hspec. simpl in Hspec. unfold step_or_stay.
  destruct (tbl_step wf_table (wstatus (c_ws c)) (wf_task_event_name (c_graph c) (c_ws c) t route st)) as [n|].
  - destruct Hspec as [E|[E _]]; [right; exact E|left; exact E].
  - right; exact Hspec.
Qed.

Lemma pstat_set_status : forall c n k, pstat (set_ws c (ws_set_status (c_ws c) n)) k = pstat c k.
Proof. intros; reflexivity. Qed.

Lemma wf_event_kinv : forall t route st c c' unr,
  winv c -> kpre c -> wf_task_event_M t route st c = (c', Val unr) -> In st simple_statuses ->
  (st = S_RUNNING -> act c) -> (st = S_RETRYING -> stgb c = true) ->
  (In (wstatus (c_ws c)) [S_RUNNING; S_RESUMING; S_PAUSING; S_CANCELING] ->
   has_next_tasks (c_graph c) (c_ws c) t route = true -> act c \/ stgb c = true) ->
  kinv c' /\ wstatus (c_ws c') <> S_UNSET.
Proof.
  intros t route st c c' unr Hw [P1 [P2 [P3 P4]]] H Hst Hrun Hret Hnt.
  destruct (wf_task_event_eff _ _ _ _ _ _ H) as [n [-> Hn]].
  assert (A : forall b, has_active_tasks (c_ws c) = b -> (b = true -> act c) /\ (b = false -> ~ act c)).
  { intros b Hb; split; intro Hx; rewrite Hx in Hb; [apply (has_active_iff c Hw)|apply (has_active_false_iff c Hw)]; exact Hb. }
  unfold kinv. cbn [c_ws set_ws wstatus ws_set_status]. unfold stgb; cbn [c_ws set_ws].
  change (has_staged_tasks (ws_set_status (c_ws c) n)) with (has_staged_tasks (c_ws c)).
  assert (E : act (set_ws c (ws_set_status (c_ws c) n)) <-> act c) by (apply act_same; intro; reflexivity).
  destruct Hn as [->|Hn].
  { split; [|discriminate]. split; [simpl; tauto|]. repeat split; intro X; simpl in X; intuition discriminate. }
  unfold wf_task_event_name in Hn.
  set (a := has_active_tasks (c_ws c)) in *.
  set (hnt := has_next_tasks (c_graph c) (c_ws c) t route) in *.
  set (m := has_staged_tasks (c_ws c) || hnt) in *.
  destruct (A a eq_refl) as [Aa Ana].
  assert (Hs : In (wstatus (c_ws c)) [S_RUNNING; S_RESUMING; S_PAUSING; S_CANCELING] \/
               In (wstatus (c_ws c)) [S_PAUSED; S_CANCELED; S_SUCCEEDED; S_FAILED]).
  { simpl in P1. simpl. intuition. }
  destruct Hs as [Hs|Hs].
  - (* tasks run in this status *)
    assert (Hrun' : st = S_RUNNING -> a = true).
    { intro Es. destruct a eqn:Ea; [reflexivity|]. exfalso. apply (Ana eq_refl). apply Hrun; exact Es. }
    assert (Hret' : st = S_RETRYING -> m = true).
    { intro Es. unfold m. unfold stgb in Hret. rewrite (Hret Es). reflexivity. }
    pose proof (F_sys_task_event_running (wstatus (c_ws c)) st
                 (hnt || has_barrier_next (c_graph c) (c_ws c) t route) a
                 (has_canceling_tasks (c_ws c) || has_canceled_tasks (c_ws c))
                 (has_pausing_tasks (c_ws c) || has_paused_tasks (c_ws c)) m Hs Hst Hrun' Hret') as F.
    cbv zeta in F. rewrite <- Hn in F. destruct F as [F1 [F2 [F3 [F4 [F5 F6]]]]].
    split; [|exact F2]. split; [exact F1|].
    split; [intros X Y; apply E in Y; exact (Ana (F3 X) Y)|].
    split; [intro X; specialize (F4 X); unfold m in F4; apply orb_false_elim in F4; tauto|].
    split; [intro X; apply E; apply Aa; exact (F5 X)|].
    intro X. destruct (F6 X) as [Y|Y]; [left; apply E; apply Aa; exact Y|].
    unfold m in Y. apply orb_prop in Y. destruct Y as [Y|Y]; [right; exact Y|].
    destruct (Hnt Hs Y) as [Z|Z]; [left; apply E; exact Z|right; exact Z].
  - (* a resting status *)
    pose proof (F_sys_task_event_resting (wstatus (c_ws c)) st
                 (hnt || has_barrier_next (c_graph c) (c_ws c) t route) a
                 (has_canceling_tasks (c_ws c) || has_canceled_tasks (c_ws c))
                 (has_pausing_tasks (c_ws c) || has_paused_tasks (c_ws c)) m Hs Hst) as F.
    cbv zeta in F. rewrite <- Hn in F. destruct F as [F|[F|[F1 [F2 F3]]]].
    + rewrite F. split; [|exact P2]. split; [exact P1|].
      split; [intros X Y; apply E in Y; exact (P3 X Y)|]. split; [exact P4|].
      split; intro X; exfalso;
        cbv [In S_RUNNING S_RESUMING S_PAUSING S_PAUSED S_CANCELING S_CANCELED S_SUCCEEDED S_FAILED] in X, Hs;
        intuition congruence.
    + rewrite F. split; [|discriminate]. split; [simpl; tauto|]. repeat split; intro X; simpl in X; intuition discriminate.
    + rewrite F3. split; [|discriminate]. split; [simpl; tauto|].
      split; [intro X; simpl in X; intuition discriminate|]. split; [discriminate|].
      split; [intro X; simpl in X; intuition discriminate|]. intros _. left. apply E. apply Hrun; exact F2.
Qed.

(* a task event of the protocol never pauses the workflow *)
Lemma np_of_event : forall c t route st n, winv c -> simple c -> npause c -> In st simple_statuses ->
  (n = S_FAILED \/ n = step_or_stay (wstatus (c_ws c)) (wf_task_event_name (c_graph c) (c_ws c) t route st)) ->
  In n sys_wf_statuses /\ ~ In n [S_PAUSING; S_PAUSED].
Proof.
  intros c t route st n Hw Hs [N1 N2] Hst [-> | ->]; [split; [simpl; tauto|simpl; intuition discriminate]|].
  unfold wf_task_event_name. rewrite (no_pause_flags c Hw Hs). apply F_np_task_event; assumption.
Qed.

Lemma has_staged_iff : forall w, has_staged_tasks w = true <-> exists s, In s (staged w) /\ s_ready s = true /\ s_completed s = false.
Proof.
  intro w. unfold has_staged_tasks, staged_filtered. split.
  - intro H. destruct (filter _ (staged w)) as [|s l] eqn:E; [discriminate|].
    assert (Hin : In s (filter (fun s => s_ready s && negb (s_completed s)) (staged w))) by (rewrite E; left; reflexivity).
    apply filter_In in Hin. destruct Hin as [Hin Hb]. apply andb_prop in Hb. destruct Hb as [Hb1 Hb2].
    apply negb_true_iff in Hb2. exists s; auto.
  - intros [s [Hin [Hr Hc]]].
    assert (Hf : In s (filter (fun s => s_ready s && negb (s_completed s)) (staged w))).
    { apply filter_In. split; [exact Hin|]. rewrite Hr, Hc. reflexivity. }
    destruct (filter _ (staged w)); [destruct Hf|reflexivity].
Qed.

Lemma has_staged_incl : forall w w', (forall s, In s (staged w') -> In s (staged w)) ->
  has_staged_tasks w' = true -> has_staged_tasks w = true.
Proof.
  intros w w' H Hs. apply has_staged_iff in Hs. destruct Hs as [s [Hin Hp]]. apply has_staged_iff. exists s; split; [apply H; exact Hin|exact Hp].
Qed.

Lemma has_staged_same : forall w w', staged w' = staged w -> has_staged_tasks w' = has_staged_tasks w.
Proof. intros w w' H. unfold has_staged_tasks, staged_filtered. rewrite H. reflexivity. Qed.

Lemma kinv_transport : forall c c', wstatus (c_ws c') = wstatus (c_ws c) -> (forall k, pstat c' k = pstat c k) ->
  stgb c' = stgb c -> kinv c -> kinv c'.
Proof.
  intros c c' Hw Hp Hs [K1 [K2 [K3 [K4 K5]]]]. pose proof (act_same c c' Hp) as E.
  unfold kinv. rewrite Hw, Hs. repeat split; auto.
  - intros X Y. apply E in Y. exact (K2 X Y).
  - intro X. apply E. exact (K4 X).
  - intro X. destruct (K5 X) as [Y|Y]; [left; apply E; exact Y|right; exact Y].
Qed.

Lemma kinv_Rflag : forall c c', Rflag c c' -> kinv c -> kinv c'.
Proof.
  intros c c' [F [S W]] K. apply (kinv_transport c c'); [exact W|apply pstat_Rfr; exact F| |exact K].
  unfold stgb. apply has_staged_same; exact S.
Qed.

Lemma kinv_same_ws : forall c c', c_ws c' = c_ws c -> kinv c -> kinv c'.
Proof.
  intros c c' H K. apply (kinv_transport c c'); [rewrite H; reflexivity| |unfold stgb; rewrite H; reflexivity|exact K].
  intro k. unfold pstat. rewrite H. reflexivity.
Qed.

Lemma winv_same_ws : forall c c', c_ws c' = c_ws c -> winv c -> winv c'.
Proof. intros c c' H. apply winv_same; rewrite H; reflexivity. Qed.

Lemma Rfr_winv_tasks : forall c c', Rfr c c' -> tasks_ok (c_ws c) -> tasks_ok (c_ws c').
Proof.
  intros c c' [T [S _]] [Hnd Ht]. split; [rewrite T; exact Hnd|]. intros k i Hin. rewrite T in Hin.
  destruct (Ht _ _ Hin) as [r [Hr Hk]].
  assert (E : nth_error (map sig (sequence (c_ws c'))) i = nth_error (map sig (sequence (c_ws c))) i) by (rewrite S; reflexivity).
  rewrite !nth_error_map, Hr in E. destruct (nth_error (sequence (c_ws c')) i) as [r'|]; [|discriminate].
  exists r'; split; [reflexivity|]. simpl in E. unfold sig in E. inversion E. unfold key_of in *. congruence.
Qed.

(* ================================================================== J. the three kinds of call *)

Section Calls.
Variable ev : string -> dict -> evalres.

Lemma vw_pre_main : forall t route evt ts s0 e0, task_has_items ts = false ->
  vpres Rw (pre_main ev t route evt ts s0 e0).
Proof.
  intros t route evt ts s0 e0 Hts. unfold pre_main, pre_machine.
  pose proof (vw_sel1 ev) as H1. pose proof (vw_sel2 ev) as H2. pose proof vw_unstage as H3. pose proof vw_item as H4.
  pose proof vw_logfail as H5. pose proof vw_setst as H6. pose proof (vw_retrying ev) as H7.
  pose proof (vw_completion ev t route evt ts) as H8. pose proof w_get_rec as H9. pose proof vw_get_rec as H10.
  sw Rw_refl Rw_trans ltac:(first [assumption|apply H9]) ltac:(first [assumption|apply H1|apply H2|apply H3|apply H4|apply H5|apply H6|apply H7|apply H8; assumption|apply H10]).
Qed.

Lemma prefix_winv : forall t route evt c cp p, winv c -> c_init c = true -> no_items (c_spec c) = true ->
  uts_prefix ev t route evt c = (cp, Val p) -> winv cp.
Proof.
  intros t route evt c cp p Hw Hi Hn H. unfold uts_prefix in H.
  unfold bind at 1 in H. rewrite (ensure_ws_inited ev c Hi) in H.
  unfold bind at 1 in H. unfold get at 1 in H.
  destruct (negb (g_has_task (c_graph c) t)); [inversion H|]. cbv zeta in H.
  apply bind_val_inv' in H. destruct H as [c2 [ts [E2 H]]].
  destruct (spec_get_task (c_spec c) t) as [ts'|] eqn:Ets; [|inversion E2]. inversion E2; subst c2 ts'; clear E2.
  pose proof (spec_no_items _ _ _ Hn Ets) as Hts.
  assert (Hm : pre_main ev t route evt ts (get_staged_task (c_ws c) t route) (ws_task_idx (c_ws c) t route) c = (cp, Val p)).
  { destruct (get_staged_task (c_ws c) t route), (ws_task_idx (c_ws c) t route); try exact H. inversion H. }
  exact (vw_pre_main _ _ _ _ _ _ Hts _ _ _ Hm Hw).
Qed.

(* what the definition, the graph and initialisation are after the prefix *)
Lemma prefix_def : forall t route evt c cp p, uts_prefix ev t route evt c = (cp, Val p) -> Rdef c cp.
Proof.
  intros t route evt c cp p H.
  assert (P : preserves Rdef (uts_prefix ev t route evt)).
  { unfold uts_prefix, pre_main, pre_machine, uts_sel1, uts_sel2, uts_need_staged, uts_unstage, uts_item, uts_logfail,
      uts_setst, uts_retrying, uts_completion.
    pw Rdef_refl Rdef_trans ltac:(first
      [ solve [apply (preserves_modws Rdef); intro; unfold Rdef; simpl; auto]
      | solve [apply (preserves_modify Rdef); intro; unfold Rdef;
               match goal with |- context [if ?b then _ else _] => destruct b end; simpl; auto]
      | solve [apply (preserves_modify Rdef); intro; unfold Rdef; simpl; auto]
      | apply pd_ensure_ws | apply pd_add_task_state | apply pd_get_rec | apply pd_log_entry_error | apply pd_set_rec_status
      | apply pd_upd_rec | apply pd_get_task_context | apply pd_evaluate_task_retry | apply pd_log_error
      | apply pd_request_status_core ]). }
  exact (P _ _ _ H).
Qed.


Definition nonactive (x : option (option status)) : Prop :=
  forall s, x = Some (Some s) -> status_in s ACTIVE_STATUSES = false.

Lemma act_change_one : forall c c' k, (forall k', k' <> k -> pstat c' k' = pstat c k') ->
  nonactive (pstat c k) -> nonactive (pstat c' k) -> (act c' <-> act c).
Proof.
  intros c c' k H N N'. unfold act. split; intros [k0 [s [Hp Hs]]].
  - destruct (tkey_eqb k0 k) eqn:E.
    + apply tkey_eqb_eq in E; subst k0. rewrite (N' _ Hp) in Hs; discriminate.
    + assert (Hne : k0 <> k) by (intro X; subst; rewrite tkey_eqb_refl in E; discriminate).
      exists k0, s. rewrite <- (H _ Hne). auto.
  - destruct (tkey_eqb k0 k) eqn:E.
    + apply tkey_eqb_eq in E; subst k0. rewrite (N _ Hp) in Hs; discriminate.
    + assert (Hne : k0 <> k) by (intro X; subst; rewrite tkey_eqb_refl in E; discriminate).
      exists k0, s. rewrite (H _ Hne). auto.
Qed.

Lemma kpre_weaken : forall c c', kpre c -> (wstatus (c_ws c') = wstatus (c_ws c) \/ wstatus (c_ws c') = S_FAILED) ->
  (act c' -> act c) -> (stgb c' = true -> stgb c = true) -> kpre c'.
Proof.
  intros c c' [P1 [P2 [P3 P4]]] [Hw|Hw] Ha Hs; unfold kpre; rewrite Hw.
  - repeat split; auto.
    + intros X Y. exact (P3 X (Ha Y)).
    + intro X. specialize (P4 X). destruct (stgb c') eqn:E; [rewrite (Hs eq_refl) in P4; discriminate|reflexivity].
  - split; [simpl; tauto|]. split; [discriminate|]. split; [intro X; simpl in X; intuition discriminate|discriminate].
Qed.

Lemma has_next_nil : forall g w t route b, g_next_transitions g t = [] -> has_next g w t route b = false.
Proof.
  intros g w t route b H. unfold has_next. destruct (ws_task_entry w t route); [|reflexivity].
  destruct (negb _); [reflexivity|]. rewrite H. reflexivity.
Qed.

(* (A) the call for a queued engine command *)
Lemma cmd_call : forall rec n rt name st c c',
  winv c -> c_init c = true -> no_items (c_spec c) = true -> graph_commands_inert (c_graph c) ->
  aget String.eqb n ENGINE_EVENT_MAP = Some (name, st) ->
  uts_body ev rec n rt (EvEngine name st) c = (c', Val tt) ->
  winv c' /\ Rdef c c' /\
  (forall k', k' <> (n, rt) -> pstat c' k' = pstat c k') /\
  (pstat c' (n, rt) = Some (Some S_SUCCEEDED) \/ pstat c' (n, rt) = Some (Some S_FAILED)) /\
  (forall s, In s (staged (c_ws c')) -> In s (staged (c_ws c))) /\
  ncmd c' + 1 <= ncmd c /\
  (kpre c -> nonactive (pstat c (n, rt)) -> kinv c' /\ wstatus (c_ws c') <> S_UNSET) /\
  (simple c -> npause c -> npause c').
Proof.
  intros rec n rt name st c c' Hw Hi Hn Hg Hmap H.
  assert (Hcmd : is_engine_command n = true) by (unfold is_engine_command, ahas; rewrite Hmap; reflexivity).
  destruct (Hg n Hcmd) as [Hnt Hnr].
  rewrite body_eq in H. apply bind_val_inv' in H. destruct H as [cp [p [Ep Htl]]]. unfold tail_of in Htl.
  destruct (prefix_eff ev n rt (EvEngine name st) c cp p Hw Hi Hn I Ep) as [idx [c3 [Hsel [Hmach [Hspec [Hts Hgt]]]]]].
  destruct (prefix_pstat _ _ _ _ _ _ _ _ Hw Hsel Hmach) as [Hother [r [ns [Hr [Ens [Hself [Hptr [Hpn [Hpo Hcase]]]]]]]]].
  destruct Hcase as [[_ [Hc _]]|[Hrs [_ [_ [s0 Hs0]]]]]; [congruence|].
  pose proof (prefix_winv _ _ _ _ _ _ Hw Hi Hn Ep) as Hwp.
  pose proof (prefix_def _ _ _ _ _ _ Ep) as [Dg [Ds Di]]. specialize (Di Hi).
  assert (Hnotrue : forall ctx, po_compl p <> Some (ctx, true)).
  { intros ctx Hc. pose proof (prefix_cmd_no_retry ev _ _ _ _ _ _ Hcmd Hnr Ep _ _ Hc). discriminate. }
  assert (Hpi : po_idx p = idx) by (destruct Hmach as [? [? [_ [_ [X _]]]]]; exact X).
  rewrite Hpi in Htl.
  destruct (tail_inv ev _ _ _ _ _ _ _ _ _ _ Htl Hnotrue) as [queue [cq [r' [st' [unr [cw [cl [cn [Eq [Hr' [Hst' [Ew [El [Wl [En Hfl]]]]]]]]]]]]]]].
  assert (Hntp : g_next_transitions (c_graph cp) n = []) by (rewrite Dg; exact Hnt).
  destruct (queue_nil_flag ev _ _ _ _ _ _ _ _ _ _ Eq Hntp) as [-> Hfq].
  simpl in En. inversion En; subst cn; clear En.
  destruct Hfq as [Fq [Sq Wq]].
  (* the record of the command after the machine step *)
  assert (Hpq : pstat cq (n, rt) = Some (Some st')).
  { unfold pstat. destruct Fq as [Tq _]. rewrite Tq, Hptr, Hr', Hst'. reflexivity. }
  assert (Hns : ns = Some st' /\ (st' = S_SUCCEEDED \/ st' = S_FAILED)).
  { rewrite (pstat_Rfr _ _ Fq) in Hpq. rewrite Hself in Hpq. inversion Hpq as [Hx].
    apply tpe_engine in Ens. unfold rstatus in Ens. rewrite Hrs in Ens.
    destruct ns as [x|]; simpl in Hx; [|rewrite Hrs in Hx; discriminate]. inversion Hx; subst x. split; [reflexivity|].
    destruct (F_engine_on_unset _ _ _ Hmap) as [F|[F|F]]; rewrite F in Ens; inversion Ens; auto. }
  destruct Hns as [-> Hst2].
  destruct (wf_task_event_eff _ _ _ _ _ _ Ew) as [nw [-> Hnw]].
  (* states after the workflow event *)
  assert (Pcl : forall k, pstat cl k = pstat cq k) by (intro k; unfold pstat; rewrite Wl; reflexivity).
  assert (Pc' : forall k, pstat c' k = pstat cp k).
  { intro k. rewrite (pstat_Rfr _ _ (proj1 Hfl)), Pcl. apply pstat_Rfr; exact Fq. }
  assert (Sc' : staged (c_ws c') = staged (c_ws cp)).
  { destruct Hfl as [_ [S1 _]]. rewrite S1, Wl. simpl. exact Sq. }
  destruct Hmach as (r0 & ns0 & _ & _ & _ & _ & Hpn0 & _ & _ & Wm & _ & _ & _ & Hsub & _ & _ & _ & _ & Hcnt & _ & _).
  assert (Hnr' : po_new p <> S_RETRYING).
  { rewrite Hpn. simpl. destruct Hst2; subst; discriminate. }
  destruct Hsel as [Hselc [Hstg3 _]].
  assert (Hs0p : s_items s0 = None /\ s_id s0 = n).
  { split; [apply (proj2 Hw); unfold get_staged_task in Hs0; apply find_some in Hs0; tauto|].
    apply get_staged_matches in Hs0; tauto. }
  assert (Hrm : staged (ws_remove_staged_task (c_ws c) n rt) = staged_remove_first n rt (staged (c_ws c))).
  { unfold ws_remove_staged_task. rewrite Hs0. unfold items_any_active. rewrite (proj1 Hs0p). reflexivity. }
  assert (Hsub' : forall s, In s (staged (c_ws c')) -> In s (staged (c_ws c))).
  { intros s Hin. rewrite Sc' in Hin. destruct (Hsub _ Hin) as [A|[A _]]; [|contradiction].
    rewrite Hstg3, Hrm in A. eapply In_staged_remove_first; exact A. }
  split.
  { (* winv at the end *)
    destruct Hfl as [Ffl [Sfl Wfl]].
    assert (W1 : winv cq) by (exact (vw_queue ev _ _ _ _ _ _ _ _ _ _ Eq Hwp)).
    assert (W2 : winv cl) by (apply (winv_same_ws (set_ws cq (ws_set_status (c_ws cq) nw))); [exact Wl|];
                              eapply winv_same; [| | |exact W1]; reflexivity).
    split; [eapply Rfr_winv_tasks; [exact Ffl|exact (proj1 W2)]|]. intros s Hin. rewrite Sfl in Hin. exact (proj2 W2 _ Hin). }
  split.
  { destruct Hfl as [[_ [_ [_ [G1 [G2 G3]]]]] _]. unfold Rdef.
    assert (Gl : c_graph cl = c_graph cq /\ c_spec cl = c_spec cq /\ c_init cl = c_init cq).
    { pose proof (pd_log_unreachable unr _ _ _ El) as [X1 [X2 X3]]. simpl in *.
      destruct (lt_log_unreachable unr _ _ _ El) as [_ [_ [_ [_ [_ [_ [Y1 [Y2 Y3]]]]]]]]. simpl in *. auto. }
    destruct Gl as [L1 [L2 L3]]. destruct Fq as [_ [_ [_ [Q1 [Q2 Q3]]]]].
    repeat split; try congruence. }
  split; [intros k' Hk; rewrite Pc'; apply Hother; exact Hk|].
  split; [rewrite Pc', Hself; simpl; destruct Hst2; subst; auto|].
  split; [exact Hsub'|].
  split.
  { specialize (Hcnt Hnr'). unfold ncmd at 1. rewrite Sc'. fold (ncmd cp).
    assert (N3 : ncmd c3 + 1 = ncmd c).
    { unfold ncmd. rewrite Hstg3, Hrm. apply (ncmd_remove_first_cmd _ _ _ s0); [exact Hs0|].
      unfold cmdb. rewrite (proj2 Hs0p). exact Hcmd. }
    lia. }
  assert (Hwsq : wstatus (c_ws cq) = wstatus (c_ws c) \/ wstatus (c_ws cq) = S_FAILED).
  { rewrite Wq. destruct Hselc as [[_ [_ [_ [_ [A _]]]]]|[_ [_ [_ [_ [_ [_ [_ [_ [_ A]]]]]]]]]].
    + destruct Wm as [Wm|Wm]; [left; congruence|right; exact Wm].
    + destruct Wm as [Wm|Wm]; [|right; exact Wm]. destruct A as [A|A]; [left|right]; congruence. }
  assert (Hst'' : In st' simple_statuses) by (destruct Hst2; subst; simpl; auto).
  assert (Wc'n : wstatus (c_ws c') = nw) by (destruct Hfl as [_ [_ Wfl]]; rewrite Wfl, Wl; reflexivity).
  split.
  2: { intros Hsim Hnp.
       assert (W1 : winv cq) by (exact (vw_queue ev _ _ _ _ _ _ _ _ _ _ Eq Hwp)).
       assert (Hsimq : simple cq).
       { apply (simple_update c cq (n, rt)); [intros k' Hk'; rewrite (pstat_Rfr _ _ Fq); apply Hother; exact Hk'|exact Hsim|].
         intros x Hx. rewrite Hpq in Hx. inversion Hx; subst x. exists st'; auto. }
       unfold npause. rewrite Wc'n. apply (np_of_event cq n rt st' nw W1 Hsimq (npause_weaken _ _ Hnp Hwsq) Hst'' Hnw). }
  (* the status-linked invariant *)
  intros Hk Hna.
  assert (W1 : winv cq) by (exact (vw_queue ev _ _ _ _ _ _ _ _ _ _ Eq Hwp)).
  assert (Hact : act cq <-> act c).
  { apply (act_change_one c cq (n, rt)).
    - intros k' Hk'. rewrite (pstat_Rfr _ _ Fq). apply Hother; exact Hk'.
    - exact Hna.
    - intros s Hs. rewrite Hpq in Hs. inversion Hs; subst. destruct Hst2; subst; reflexivity. }
  assert (Hkq : kpre cq).
  { apply (kpre_weaken c cq Hk).
    - exact Hwsq.
    - apply Hact.
    - unfold stgb. apply has_staged_incl. intros s Hin. apply Hsub'. rewrite Sc', <- Sq. exact Hin. }
  destruct (wf_event_kinv n rt st' cq _ unr W1 Hkq Ew Hst'') as [K1 K2].
  - intro X; destruct Hst2; subst; discriminate.
  - intro X; destruct Hst2; subst; discriminate.
  - intros _ X. unfold has_next_tasks in X. rewrite has_next_nil in X; [discriminate|].
    destruct Fq as [_ [_ [_ [Q1 _]]]]. rewrite Q1. exact Hntp.
  - split.
    + apply (kinv_Rflag cl c' Hfl). apply (kinv_same_ws _ cl Wl). exact K1.
    + destruct Hfl as [_ [_ Wfl]]. rewrite Wfl, Wl. exact K2.
Qed.


(* the workflow is in a status in which tasks run, or failed *)
Definition krun (c : cstate) : Prop :=
  In (wstatus (c_ws c)) [S_RUNNING; S_RESUMING; S_PAUSING; S_CANCELING; S_FAILED].

Lemma krun_kpre : forall c, krun c -> kpre c.
Proof.
  intros c H. unfold krun in H. unfold kpre.
  cbv [In S_RUNNING S_RESUMING S_PAUSING S_PAUSED S_CANCELING S_CANCELED S_SUCCEEDED S_FAILED S_UNSET sys_wf_statuses] in *.
  repeat split; try (intuition congruence).
Qed.

Lemma krun_weaken : forall c c', krun c -> (wstatus (c_ws c') = wstatus (c_ws c) \/ wstatus (c_ws c') = S_FAILED) -> krun c'.
Proof. intros c c' H [E|E]; unfold krun; rewrite E; [exact H|simpl; tauto]. Qed.

Lemma has_next_not_completed : forall g c t route b x, pstat c (t, route) = Some x ->
  ostatus_in x COMPLETED_STATUSES = false -> has_next g (c_ws c) t route b = false.
Proof.
  intros g c t route b x Hp Hx. destruct (pstat_some _ _ _ Hp) as [i [r [Ha [Hn Hr]]]].
  unfold has_next, ws_task_entry, ws_task_idx. simpl in Ha. rewrite Ha, Hn, Hr, Hx. reflexivity.
Qed.

(* a tail without completion: the workflow machine step, the log, the flag *)
Lemma tail_none : forall rec t route ts idx old new cp c',
  uts_tail ev rec t route ts idx old new None cp = (c', Val tt) ->
  exists r st unr cw cl,
    nth_error (sequence (c_ws cp)) idx = Some r /\ r_status r = Some st /\
    wf_task_event_M t route st cp = (cw, Val unr) /\ log_unreachable unr cw = (cl, Val tt) /\ c_ws cl = c_ws cw /\
    Rflag cl c'.
Proof.
  intros rec t route ts idx old new cp c' H.
  assert (Hn : forall ctx : dict, @None (dict * bool) <> Some (ctx, true)) by (intros; discriminate).
  destruct (tail_inv ev _ _ _ _ _ _ _ _ _ _ H Hn) as [queue [cq [r [st [unr [cw [cl [cn [Eq [Hr [Hst [Ew [El [Wl [En Hfl]]]]]]]]]]]]]]].
  unfold uts_queue in Eq. inversion Eq; subst cq queue; clear Eq. simpl in En. inversion En; subst cn; clear En.
  exists r, st, unr, cw, cl. repeat split; try assumption; apply Hfl.
Qed.

Lemma log_unreachable_def : forall unr c c' x, log_unreachable unr c = (c', x) ->
  c_graph c' = c_graph c /\ c_spec c' = c_spec c /\ c_init c' = c_init c.
Proof.
  intros unr c c' x H. destruct (lt_log_unreachable unr _ _ _ H) as [_ [_ [_ [_ [_ [_ [Y1 [Y2 Y3]]]]]]]]. auto.
Qed.

Lemma tail_none_post : forall rec t route ts idx old new cp c',
  winv cp -> aget tkey_eqb (t, route) (tasks (c_ws cp)) = Some idx ->
  uts_tail ev rec t route ts idx old new None cp = (c', Val tt) ->
  exists st, pstat cp (t, route) = Some (Some st) /\ winv c' /\
    (forall k, pstat c' k = pstat cp k) /\ staged (c_ws c') = staged (c_ws cp) /\
    c_graph c' = c_graph cp /\ c_spec c' = c_spec cp /\ c_init c' = c_init cp /\
    (wstatus (c_ws c') = S_FAILED \/
     wstatus (c_ws c') = step_or_stay (wstatus (c_ws cp)) (wf_task_event_name (c_graph cp) (c_ws cp) t route st)) /\
    (kpre cp -> In st simple_statuses -> (st = S_RUNNING -> act cp) -> (st = S_RETRYING -> stgb cp = true) ->
     (In (wstatus (c_ws cp)) [S_RUNNING; S_RESUMING; S_PAUSING; S_CANCELING] ->
      has_next_tasks (c_graph cp) (c_ws cp) t route = true -> act cp \/ stgb cp = true) ->
     kinv c' /\ wstatus (c_ws c') <> S_UNSET).
Proof.
  intros rec t route ts idx old new cp c' Hw Hptr H.
  destruct (tail_none _ _ _ _ _ _ _ _ _ H) as [r [st [unr [cw [cl [Hr [Hst [Ew [El [Wl Hfl]]]]]]]]]].
  exists st. split; [unfold pstat; rewrite Hptr, Hr, Hst; reflexivity|].
  destruct (wf_task_event_eff _ _ _ _ _ _ Ew) as [nw [Ecw Hnw]].
  assert (W2 : winv cl).
  { apply (winv_same_ws cw); [exact Wl|]. subst cw. eapply winv_same; [| | |exact Hw]; reflexivity. }
  destruct Hfl as [Ffl [Sfl Wfl]].
  split. { split; [eapply Rfr_winv_tasks; [exact Ffl|exact (proj1 W2)]|]. intros s Hin. rewrite Sfl in Hin. exact (proj2 W2 _ Hin). }
  split. { intro k. rewrite (pstat_Rfr _ _ Ffl). unfold pstat. rewrite Wl. subst cw. reflexivity. }
  split. { rewrite Sfl, Wl. subst cw. reflexivity. }
  destruct (log_unreachable_def _ _ _ _ El) as [G1 [G2 G3]].
  pose proof Ffl as Ffl0. destruct Ffl as [_ [_ [_ [F1 [F2 F3]]]]].
  split; [rewrite F1, G1; subst cw; reflexivity|]. split; [rewrite F2, G2; subst cw; reflexivity|].
  split; [rewrite F3, G3; subst cw; reflexivity|].
  split. { rewrite Wfl, Wl. subst cw. simpl. destruct Hnw as [X|X]; [left|right]; exact X. }
  intros Hk Hs Hrun Hret Hnt.
  destruct (wf_event_kinv t route st cp cw unr Hw Hk Ew Hs Hrun Hret Hnt) as [K1 K2].
  split.
  - apply (kinv_Rflag cl c'); [split; [exact Ffl0|split; assumption]|]. apply (kinv_same_ws _ cl Wl). exact K1.
  - rewrite Wfl, Wl. exact K2.
Qed.


Lemma sel_staged_incl : forall t route evt c c3 idx, sel_post t route evt c c3 idx ->
  forall s, In s (staged (c_ws c3)) -> In s (staged (c_ws c)).
Proof. intros t route evt c c3 idx [_ [H _]] s Hin. rewrite H in Hin. eapply staged_remove_task_incl; exact Hin. Qed.

Lemma sel_ncmd_le : forall t route evt c c3 idx, sel_post t route evt c c3 idx -> ncmd c3 <= ncmd c.
Proof.
  intros t route evt c c3 idx [_ [H _]]. unfold ncmd at 1. rewrite H.
  pose proof (ncmd_remove_task_le c t route) as L. unfold ncmd in L at 1. simpl in L. exact L.
Qed.

Lemma sel_wstatus : forall t route evt c c3 idx, sel_post t route evt c c3 idx ->
  wstatus (c_ws c3) = wstatus (c_ws c) \/ wstatus (c_ws c3) = S_FAILED.
Proof.
  intros t route evt c c3 idx [[[_ [_ [_ [_ [A _]]]]]|[_ [_ [_ [_ [_ [_ [_ [_ [_ A]]]]]]]]]] _]; [left; exact A|exact A].
Qed.

Lemma machine_wstatus : forall t route evt c3 cp p idx, machine_post t route evt c3 cp p idx ->
  wstatus (c_ws cp) = wstatus (c_ws c3) \/ wstatus (c_ws cp) = S_FAILED.
Proof. intros t route evt c3 cp p idx (r & ns & _ & _ & _ & _ & _ & _ & _ & W & _). exact W. Qed.

Lemma wstatus_chain : forall (a b c : status), (b = a \/ b = S_FAILED) -> (c = b \/ c = S_FAILED) -> (c = a \/ c = S_FAILED).
Proof. intros a b c [H1|H1] [H2|H2]; subst; auto. Qed.

(* (B) the re-entry with the retry event *)
Lemma retry_call : forall rec t route s0 c c',
  winv c -> c_init c = true -> no_items (c_spec c) = true -> is_engine_command t = false ->
  pstat c (t, route) = Some (Some s0) -> In s0 COMPLETED_STATUSES ->
  tbl_transition_valid task_table s0 S_RETRYING = true -> krun c ->
  uts_body ev rec t route retry_event c = (c', Val tt) ->
  winv c' /\ Rdef c c' /\ (forall k', k' <> (t, route) -> pstat c' k' = pstat c k') /\
  pstat c' (t, route) = Some (Some S_RETRYING) /\
  (forall s, In s (staged (c_ws c')) -> In s (staged (c_ws c)) \/ stg_matches t route s = true) /\
  ncmd c' <= ncmd c /\ (kinv c' /\ wstatus (c_ws c') <> S_UNSET) /\
  (simple c -> npause c -> npause c').
Proof.
  intros rec t route s0 c c' Hw Hi Hn Hcmd Hps Hcomp Hvalid Hkr H.
  rewrite body_eq in H. apply bind_val_inv' in H. destruct H as [cp [p [Ep Htl]]]. unfold tail_of in Htl.
  destruct (prefix_eff ev t route retry_event c cp p Hw Hi Hn I Ep) as [idx [c3 [Hsel [Hmach [Hspec [Hts Hgt]]]]]].
  destruct (prefix_pstat _ _ _ _ _ _ _ _ Hw Hsel Hmach) as [Hother [r [ns [Hr [Ens [Hself [Hptr [Hpn [Hpo Hcase]]]]]]]]].
  pose proof (prefix_winv _ _ _ _ _ _ Hw Hi Hn Ep) as Hwp.
  pose proof (prefix_def _ _ _ _ _ _ Ep) as [Dg [Ds Di]].
  assert (Hpi : po_idx p = idx) by (destruct Hmach as [? [? [_ [_ [X _]]]]]; exact X).
  rewrite Hpi in Htl.
  apply tpe_engine in Ens.
  assert (Hns : ns = Some S_RETRYING \/ (r_status r = None /\ ns = None)).
  { destruct Hcase as [[Hpc _]|[Hrs _]].
    - left. rewrite Hps in Hpc. inversion Hpc as [Hx]. unfold rstatus in Ens. rewrite <- Hx in Ens.
      destruct (F_task_retry_valid _ Hvalid) as [E|E]; [|rewrite E in Ens; symmetry; exact Ens].
      subst s0. simpl in Hcomp. intuition discriminate.
    - right. split; [exact Hrs|]. unfold rstatus in Ens. rewrite Hrs, F_retry_on_unset in Ens. symmetry; exact Ens. }
  assert (Hcn : po_compl p = None).
  { destruct Hmach as (r0 & ns0 & _ & _ & _ & _ & _ & _ & _ & _ & _ & _ & _ & _ & _ & M14 & _).
    apply M14. rewrite Hpn. destruct Hns as [->|[Hrs ->]]; [reflexivity|]. unfold rstatus; simpl. rewrite Hrs. reflexivity. }
  rewrite Hcn in Htl.
  destruct (tail_none_post _ _ _ _ _ _ _ _ _ Hwp Hptr Htl) as [st [Hpst [Hw' [Hp' [Hs' [G1 [G2 [G3 [Hws' Hk']]]]]]]]].
  rewrite Hself in Hpst.
  destruct Hns as [->|[Hrs ->]]; [|simpl in Hpst; rewrite Hrs in Hpst; discriminate].
  simpl in Hpst. inversion Hpst; subst st. simpl in Hself.
  assert (Hpnr : po_new p = S_RETRYING) by (rewrite Hpn; reflexivity).
  destruct Hmach as (r0 & ns0 & _ & _ & _ & _ & _ & _ & _ & Wm & _ & _ & _ & M12 & M13 & _ & _ & _ & _ & M18 & _).
  assert (Hkrp : krun cp).
  { apply (krun_weaken c cp Hkr). eapply wstatus_chain; [eapply sel_wstatus; exact Hsel|exact Wm]. }
  split; [exact Hw'|]. split; [unfold Rdef; rewrite G1, G2, G3; auto|].
  split; [intros k' Hk0; rewrite Hp'; apply Hother; exact Hk0|].
  split; [rewrite Hp'; exact Hself|].
  split.
  { intros s Hin. rewrite Hs' in Hin. destruct (M12 _ Hin) as [A|[_ [A _]]]; [left; eapply sel_staged_incl; eassumption|right; exact A]. }
  split.
  { unfold ncmd at 1. rewrite Hs'. fold (ncmd cp). specialize (M18 Hcmd). pose proof (sel_ncmd_le _ _ _ _ _ _ Hsel). lia. }
  split.
  2: { intros Hsim Hnp.
       assert (Hsimp : simple cp).
       { apply (simple_update c cp (t, route) Hother Hsim). intros x Hx. rewrite Hself in Hx. inversion Hx; subst x.
         exists S_RETRYING. split; [reflexivity|simpl; auto 6]. }
       assert (Hnpp : npause cp).
       { apply (npause_weaken c cp Hnp). eapply wstatus_chain; [eapply sel_wstatus; exact Hsel|exact Wm]. }
       unfold npause. apply (np_of_event cp t route S_RETRYING (wstatus (c_ws c')) Hwp Hsimp Hnpp); [simpl; auto 6|exact Hws']. }
  apply Hk'.
  - apply krun_kpre; exact Hkrp.
  - simpl; auto 6.
  - discriminate.
  - intros _. destruct (M13 Hpnr) as [s [Hin [_ [Hrd [_ Hc]]]]]. unfold stgb. apply has_staged_iff. exists s; auto.
  - intros _ X. unfold has_next_tasks in X. rewrite (has_next_not_completed _ cp t route true (Some S_RETRYING)) in X; [discriminate|exact Hself|reflexivity].
Qed.


Lemma tpe_action : forall w r st res ns, task_process_event w r (EvAction st res) = Val ns ->
  tbl_step task_table (rstatus r) (action_event_name st) = ns.
Proof.
  intros w r st res ns H. unfold task_process_event in H. cbn [ev_name] in H.
  destruct (negb (string_in (ACTION_EVENT_PREFIX ++ status_name st) (app ACTION_EXECUTION_EVENTS ENGINE_OPERATION_EVENTS)));
    [discriminate|]. apply task_table_step_val; exact H.
Qed.

(* (C1) the acknowledgement of an offered task *)
Lemma ack_call : forall rec t route c c',
  winv c -> c_init c = true -> no_items (c_spec c) = true -> is_engine_command t = false ->
  ((exists s0, get_staged_task (c_ws c) t route = Some s0) \/ pstat c (t, route) = Some (Some S_RUNNING)) ->
  (forall x, pstat c (t, route) = Some x -> exists s, x = Some s /\ In s simple_statuses) ->
  In (wstatus (c_ws c)) [S_RUNNING; S_RESUMING; S_FAILED] ->
  uts_body ev rec t route ack_event c = (c', Val tt) ->
  winv c' /\ Rdef c c' /\ (forall k', k' <> (t, route) -> pstat c' k' = pstat c k') /\
  pstat c' (t, route) = Some (Some S_RUNNING) /\
  staged (c_ws c') = staged (ws_remove_staged_task (c_ws c) t route) /\
  ncmd c' <= ncmd c /\ kinv c' /\ In (wstatus (c_ws c')) [S_RUNNING; S_RESUMING; S_FAILED].
Proof.
  intros rec t route c c' Hw Hi Hn Hcmd Hoff Hsimple Hst H.
  rewrite body_eq in H. apply bind_val_inv' in H. destruct H as [cp [p [Ep Htl]]]. unfold tail_of in Htl.
  destruct (prefix_eff ev t route ack_event c cp p Hw Hi Hn I Ep) as [idx [c3 [Hsel [Hmach [Hspec [Hts Hgt]]]]]].
  destruct (prefix_pstat _ _ _ _ _ _ _ _ Hw Hsel Hmach) as [Hother [r [ns [Hr [Ens [Hself [Hptr [Hpn [Hpo Hcase]]]]]]]]].
  pose proof (prefix_winv _ _ _ _ _ _ Hw Hi Hn Ep) as Hwp.
  assert (Hpi : po_idx p = idx) by (destruct Hmach as [? [? [_ [_ [X _]]]]]; exact X).
  rewrite Hpi in Htl.
  apply tpe_action in Ens.
  assert (Hns : ns = Some S_RUNNING).
  { destruct Hcase as [[Hpc [_ [_ Hnc]]]|[Hrs _]].
    - destruct (Hsimple _ Hpc) as [x [Hx Hxs]].
      assert (Hnc' : ostatus_in (r_status r) COMPLETED_STATUSES = false).
      { destruct Hoff as [[s0 Hs0]|Hrunning].
        - apply Hnc; [reflexivity|]. exists s0; split; [exact Hs0|].
          apply (proj2 Hw). unfold get_staged_task in Hs0. apply find_some in Hs0. tauto.
        - rewrite Hrunning in Hpc. inversion Hpc as [Hy]. reflexivity. }
      unfold rstatus in Ens. rewrite Hx in Ens, Hnc'. simpl in Hnc'.
      assert (Hx' : In x [S_UNSET; S_RETRYING; S_RUNNING]).
      { destruct Hxs as [E|[E|[E|[E|[E|[]]]]]]; subst x; simpl; auto; discriminate Hnc'. }
      rewrite (F_ack_step _ Hx') in Ens. symmetry; exact Ens.
    - unfold rstatus in Ens. rewrite Hrs in Ens. rewrite (F_ack_step S_UNSET) in Ens by (simpl; auto). symmetry; exact Ens. }
  rewrite Hns in Hself, Hpn. simpl in Hself, Hpn. clear Ens.
  destruct Hmach as (r0 & ns0 & _ & _ & _ & _ & _ & _ & _ & Wm & _ & _ & _ & M12 & _ & M14 & _ & _ & M17 & _ & M19).
  assert (Hcn : po_compl p = None) by (apply M14; rewrite Hpn; reflexivity).
  rewrite Hcn in Htl.
  destruct (tail_none_post _ _ _ _ _ _ _ _ _ Hwp Hptr Htl) as [st [Hpst [Hw' [Hp' [Hs' [G1 [G2 [G3 [Hws' Hk']]]]]]]]].
  rewrite Hself in Hpst. inversion Hpst; subst st.
  pose proof (prefix_def _ _ _ _ _ _ Ep) as [Dg [Ds Di]].
  assert (Hwcp : wstatus (c_ws cp) = wstatus (c_ws c) \/ wstatus (c_ws cp) = S_FAILED)
    by (eapply wstatus_chain; [eapply sel_wstatus; exact Hsel|exact Wm]).
  assert (Hstp : In (wstatus (c_ws cp)) [S_RUNNING; S_RESUMING; S_FAILED]).
  { destruct Hwcp as [E|E]; rewrite E; [exact Hst|simpl; auto]. }
  assert (Hactp : act cp) by (exists (t, route), S_RUNNING; split; [exact Hself|reflexivity]).
  split; [exact Hw'|]. split; [unfold Rdef; rewrite G1, G2, G3; auto|].
  split; [intros k' Hk0; rewrite Hp'; apply Hother; exact Hk0|].
  split; [rewrite Hp'; exact Hself|].
  assert (Hnr : po_new p <> S_RETRYING) by (rewrite Hpn; discriminate).
  split.
  { rewrite Hs', M19; [destruct Hsel as [_ [X _]]; exact X|rewrite Hpn; reflexivity|exact Hnr]. }
  split.
  { unfold ncmd at 1. rewrite Hs'. fold (ncmd cp). specialize (M17 Hnr). pose proof (sel_ncmd_le _ _ _ _ _ _ Hsel). lia. }
  split.
  - apply Hk'.
    + apply krun_kpre. unfold krun. simpl in Hstp. simpl. tauto.
    + simpl; auto.
    + intros _; exact Hactp.
    + discriminate.
    + intros _ _. left; exact Hactp.
  - destruct Hws' as [E|E]; [rewrite E; simpl; auto|]. rewrite E. unfold wf_task_event_name. apply F_ack_wf. exact Hstp.
Qed.


Lemma nonactive_done : forall x, x = Some (Some S_SUCCEEDED) \/ x = Some (Some S_FAILED) -> nonactive x.
Proof. intros x [-> | ->] s H; inversion H; reflexivity. Qed.

(* the queued engine commands, one after the other *)
Lemma cmds_run : forall f queue c c',
  Forall cmd_pair queue -> winv c -> c_init c = true -> no_items (c_spec c) = true -> graph_commands_inert (c_graph c) ->
  forM_ queue (uts_call (update_task_state_fuel ev (S f))) c = (c', Val tt) ->
  winv c' /\ Rdef c c' /\
  (forall k', is_engine_command (fst k') = false -> pstat c' k' = pstat c k') /\
  (forall k', is_engine_command (fst k') = true ->
     pstat c' k' = pstat c k' \/ pstat c' k' = Some (Some S_SUCCEEDED) \/ pstat c' k' = Some (Some S_FAILED)) /\
  (forall s, In s (staged (c_ws c')) -> In s (staged (c_ws c))) /\
  ncmd c' + length queue <= ncmd c /\
  (kinv c -> wstatus (c_ws c) <> S_UNSET -> (forall k', is_engine_command (fst k') = true -> nonactive (pstat c k')) ->
   kinv c' /\ wstatus (c_ws c') <> S_UNSET) /\
  (simple c -> npause c -> npause c').
Proof.
  intros f queue; induction queue as [|[n rt] queue IH]; intros c c' Hq Hw Hi Hn Hg H.
  - simpl in H. inversion H; subst c'. split; [exact Hw|]. split; [apply Rdef_refl|].
    split; [reflexivity|]. split; [left; reflexivity|]. split; [auto|]. split; [simpl; lia|]. split; auto.
  - inversion Hq as [|x xs Hc Hq']; subst. unfold cmd_pair in Hc. simpl in Hc.
    cbn [forM_] in H. apply bind_val_inv' in H. destruct H as [c1 [[] [E1 H]]].
    unfold uts_call in E1. unfold engine_event in E1. unfold is_engine_command, ahas in Hc.
    destruct (aget String.eqb n ENGINE_EVENT_MAP) as [[name st]|] eqn:Emap; [|discriminate].
    rewrite uts_unfold in E1.
    destruct (cmd_call _ _ _ _ _ _ _ Hw Hi Hn Hg Emap E1) as [W1 [[D1 [D2 D3]] [P1 [P2 [S1 [N1 [K1 NP1]]]]]]].
    assert (Hg1 : graph_commands_inert (c_graph c1)) by (rewrite D1; exact Hg).
    assert (Hn1 : no_items (c_spec c1) = true) by (rewrite D2; exact Hn).
    destruct (IH _ _ Hq' W1 (D3 Hi) Hn1 Hg1 H) as [W2 [[E1' [E2' E3']] [Q1 [Q2 [S2 [N2 [K2 NP2]]]]]]].
    assert (Hcmdn : is_engine_command n = true) by (unfold is_engine_command, ahas; rewrite Emap; reflexivity).
    split; [exact W2|]. split; [unfold Rdef; repeat split; try congruence; auto|].
    split.
    { intros k' Hk. rewrite (Q1 _ Hk). apply P1. intro E; subst k'. simpl in Hk. congruence. }
    split.
    { intros k' Hk. destruct (Q2 _ Hk) as [A|A]; [|right; exact A]. rewrite A.
      destruct (tkey_eqb k' (n, rt)) eqn:E.
      - apply tkey_eqb_eq in E; subst k'. right. exact P2.
      - left. apply P1. intro X; subst k'. rewrite tkey_eqb_refl in E. discriminate. }
    split; [intros s Hin; apply S1; apply S2; exact Hin|].
    split; [simpl; lia|].
    split.
    2: { intros Hsim Hnp. apply NP2; [|apply NP1; assumption].
         apply (simple_update c c1 (n, rt) P1 Hsim). intros x Hx.
         destruct P2 as [P2|P2]; rewrite P2 in Hx; inversion Hx; subst x; eexists; split; try reflexivity; simpl; auto. }
    intros Kc Hu Hna.
    destruct (K1 (kinv_kpre _ Kc Hu) (Hna (n, rt) Hcmdn)) as [Kc1 Hu1].
    apply K2; [exact Kc1|exact Hu1|].
    intros k' Hk. destruct (tkey_eqb k' (n, rt)) eqn:E.
    + apply tkey_eqb_eq in E; subst k'. apply nonactive_done. exact P2.
    + rewrite P1; [apply Hna; exact Hk|]. intro X; subst k'. rewrite tkey_eqb_refl in E. discriminate.
Qed.

(* what the queue step must guarantee for the "nothing is stuck" clause: a satisfied next task is waiting
   in staging (proved below from the uniqueness of edge keys) *)
Definition queue_hnt_prop (g : graph) : Prop := forall t route idx ts old new ctx cp cq q,
  c_graph cp = g -> winv cp -> aget tkey_eqb (t, route) (tasks (c_ws cp)) = Some idx ->
  uts_queue ev t route idx ts old new (Some (ctx, false)) cp = (cq, Val q) -> new <> old ->
  In (wstatus (c_ws cq)) [S_RUNNING; S_RESUMING; S_PAUSING; S_CANCELING] ->
  has_next_tasks (c_graph cq) (c_ws cq) t route = true -> act cq \/ stgb cq = true.

(* (C2) the completion report of an action in flight *)
Lemma report_call : forall f t route st res c c',
  winv c -> c_init c = true -> no_items (c_spec c) = true -> graph_commands_inert (c_graph c) ->
  queue_hnt_prop (c_graph c) ->
  pstat c (t, route) = Some (Some S_RUNNING) -> is_engine_command t = false -> In st COMPLETED_STATUSES ->
  (forall k', is_engine_command (fst k') = true -> nonactive (pstat c k')) ->
  krun c ->
  uts_body ev (update_task_state_fuel ev (S f)) t route (EvAction st res) c = (c', Val tt) ->
  winv c' /\ Rdef c c' /\
  (forall k', k' <> (t, route) -> is_engine_command (fst k') = false -> pstat c' k' = pstat c k') /\
  (forall k', is_engine_command (fst k') = true ->
     pstat c' k' = pstat c k' \/ pstat c' k' = Some (Some S_SUCCEEDED) \/ pstat c' k' = Some (Some S_FAILED)) /\
  (exists x, pstat c' (t, route) = Some (Some x) /\ In x [S_SUCCEEDED; S_FAILED; S_CANCELED; S_RETRYING]) /\
  ncmd c' <= ncmd c /\ (kinv c' /\ wstatus (c_ws c') <> S_UNSET) /\
  (simple c -> npause c -> npause c').
Proof.
  intros f t route st res c c' Hw Hi Hn Hg Hhnt Hps Hcmd Hstc Hna Hkr H.
  rewrite body_eq in H. apply bind_val_inv' in H. destruct H as [cp [p [Ep Htl]]]. unfold tail_of in Htl.
  destruct (prefix_eff ev t route (EvAction st res) c cp p Hw Hi Hn I Ep) as [idx [c3 [Hsel [Hmach [Hspec [Hts Hgt]]]]]].
  destruct (prefix_pstat _ _ _ _ _ _ _ _ Hw Hsel Hmach) as [Hother [r [ns [Hr [Ens [Hself [Hptr [Hpn [Hpo Hcase]]]]]]]]].
  pose proof (prefix_winv _ _ _ _ _ _ Hw Hi Hn Ep) as Hwp.
  pose proof (prefix_def _ _ _ _ _ _ Ep) as [Dg [Ds Di]]. specialize (Di Hi).
  assert (Hpi : po_idx p = idx) by (destruct Hmach as [? [? [_ [_ [X _]]]]]; exact X).
  rewrite Hpi in Htl.
  apply tpe_action in Ens.
  pose proof Hmach as Hmach0.
  destruct Hmach as (r0 & ns0 & _ & _ & _ & _ & _ & _ & _ & Wm & _ & _ & _ & M12 & M13 & M14 & M15 & M16 & M17 & M18 & _).
  assert (Hkrp : krun cp).
  { apply (krun_weaken c cp Hkr). eapply wstatus_chain; [eapply sel_wstatus; exact Hsel|exact Wm]. }
  assert (Hcp3 : ncmd cp <= ncmd c) by (specialize (M18 Hcmd); pose proof (sel_ncmd_le _ _ _ _ _ _ Hsel); lia).
  (* the record was running and is now completed *)
  assert (Hns : exists n, ns = Some n /\ In n [S_SUCCEEDED; S_FAILED; S_CANCELED] /\ rstatus r = S_RUNNING).
  { destruct Hcase as [[Hpc _]|[Hrs _]].
    - rewrite Hps in Hpc. inversion Hpc as [Hx]. unfold rstatus in *. rewrite <- Hx in *.
      destruct (F_report_step _ Hstc) as [n [Hn1 Hn2]]. rewrite Hn1 in Ens. exists n. auto.
    - exfalso. unfold rstatus in Ens. rewrite Hrs, (F_report_on_unset _ Hstc) in Ens. subst ns.
      assert (Hcn : po_compl p = None) by (apply M14; rewrite Hpn; unfold rstatus; simpl; rewrite Hrs; reflexivity).
      rewrite Hcn in Htl.
      destruct (tail_none_post _ _ _ _ _ _ _ _ _ Hwp Hptr Htl) as [st' [Hpst _]].
      rewrite Hself in Hpst. simpl in Hpst. rewrite Hrs in Hpst. discriminate. }
  destruct Hns as [n [-> [Hn3 Hrun]]]. rewrite Hrun in Hpo.
  assert (Hpn' : po_new p = n) by (rewrite Hpn; reflexivity). clear Hpn; rename Hpn' into Hpn.
  assert (Hself' : pstat cp (t, route) = Some (Some n)) by (rewrite Hself; reflexivity). clear Hself; rename Hself' into Hself.
  assert (Hncomp : status_in n COMPLETED_STATUSES = true) by (destruct Hn3 as [E|[E|[E|[]]]]; subst n; reflexivity).
  assert (Hnne : n <> S_RUNNING) by (destruct Hn3 as [E|[E|[E|[]]]]; subst n; discriminate).
  assert (Hnnr : po_new p <> S_RETRYING) by (rewrite Hpn; destruct Hn3 as [E|[E|[E|[]]]]; subst n; discriminate).
  assert (Hcmdp : forall k', is_engine_command (fst k') = true -> pstat cp k' = pstat c k').
  { intros k' Hk. apply Hother. intro E; subst k'. simpl in Hk. congruence. }
  destruct (M15 (eq_ind_r (fun x => status_in x COMPLETED_STATUSES = true) Hncomp Hpn)) as [ctx [b Hcompl]].
  rewrite Hcompl in Htl. destruct b.
  - (* the retry is decided: re-entry *)
    unfold uts_tail in Htl. rewrite uts_unfold in Htl.
    assert (Hvalid : tbl_transition_valid task_table n S_RETRYING = true) by (rewrite <- Hpn; eapply M16; exact Hcompl).
    assert (Hnp : no_items (c_spec cp) = true) by (rewrite Ds; exact Hn).
    assert (Hnc : In n COMPLETED_STATUSES) by (apply status_in_In; exact Hncomp).
    destruct (retry_call _ _ _ _ _ _ Hwp Di Hnp Hcmd Hself Hnc Hvalid Hkrp Htl) as [W' [[E1 [E2 E3]] [P1 [P2 [S1 [N1 [K12 NP]]]]]]].
    split; [exact W'|]. split; [unfold Rdef; repeat split; try congruence; auto|].
    split; [intros k' Hk _; rewrite (P1 _ Hk); apply Hother; exact Hk|].
    split; [intros k' Hk; left; rewrite P1; [apply Hcmdp; exact Hk|intro E; subst k'; simpl in Hk; congruence]|].
    split; [exists S_RETRYING; split; [exact P2|simpl; auto]|].
    split; [lia|]. split; [exact K12|].
    intros Hsim Hnpa. apply NP.
    + apply (simple_update c cp (t, route) Hother Hsim). intros x Hx. rewrite Hself in Hx. inversion Hx; subst x.
      exists n. split; [reflexivity|]. destruct Hn3 as [E|[E|[E|[]]]]; subst n; simpl; auto.
    + apply (npause_weaken c cp Hnpa). eapply wstatus_chain; [eapply sel_wstatus; exact Hsel|exact Wm].
  - (* transitions, the workflow machine, the engine commands *)
    assert (Hnt : forall ctx0 : dict, Some (ctx, false) <> Some (ctx0, true)) by (intros ctx0 X; inversion X).
    destruct (tail_inv ev _ _ _ _ _ _ _ _ _ _ Htl Hnt) as [queue [cq [r' [st' [unr [cw [cl [cn [Eq [Hr' [Hst' [Ew [El [Wl [En Hfl]]]]]]]]]]]]]]].
    pose proof (vfr_queue ev _ _ _ _ _ _ _ _ _ _ Eq) as Fq.
    pose proof (vw_queue ev _ _ _ _ _ _ _ _ _ _ Eq Hwp) as Wq.
    pose proof (queue_cmds ev _ _ _ _ _ _ _ _ _ _ Eq) as Hqc.
    pose proof (queue_count ev _ _ _ _ _ _ _ _ _ _ Eq) as Nq.
    assert (Hpq : forall k, pstat cq k = pstat cp k) by (apply pstat_Rfr; exact Fq).
    assert (Hst2 : st' = n).
    { assert (X : pstat cq (t, route) = Some (Some st')).
      { unfold pstat. destruct Fq as [Tq _]. rewrite Tq, Hptr, Hr', Hst'. reflexivity. }
      rewrite Hpq, Hself in X. inversion X; reflexivity. }
    subst st'.
    assert (Hkrq : krun cq) by (apply (krun_weaken cp cq Hkrp); destruct Fq as [_ [_ [X _]]]; exact X).
    assert (Gq : c_graph cq = c_graph c /\ c_spec cq = c_spec c /\ c_init cq = true).
    { destruct Fq as [_ [_ [_ [X1 [X2 X3]]]]]. repeat split; congruence. }
    destruct Gq as [Gq1 [Gq2 Gq3]].
    assert (Hsimple : In n simple_statuses) by (destruct Hn3 as [E|[E|[E|[]]]]; subst n; simpl; auto).
    destruct (wf_event_kinv t route n cq cw unr Wq (krun_kpre _ Hkrq) Ew Hsimple) as [Kw Uw].
    + intro X; contradiction.
    + intro X; destruct Hn3 as [E|[E|[E|[]]]]; subst n; discriminate.
    + intros Hrunning Hh. rewrite Hpo, Hpn in Eq.
      apply (Hhnt t route idx (po_ts p) S_RUNNING n ctx cp cq queue); auto.
    + destruct (wf_task_event_eff _ _ _ _ _ _ Ew) as [nw [Ecw _]].
      assert (Wcl : winv cl).
      { apply (winv_same_ws cw); [exact Wl|]. subst cw. eapply winv_same; [| | |exact Wq]; reflexivity. }
      destruct (log_unreachable_def _ _ _ _ El) as [L1 [L2 L3]].
      assert (Gl : c_graph cl = c_graph c /\ c_spec cl = c_spec c /\ c_init cl = true).
      { subst cw. simpl in *. repeat split; congruence. }
      destruct Gl as [Gl1 [Gl2 Gl3]].
      assert (Pcl : forall k, pstat cl k = pstat cq k) by (intro k; unfold pstat; rewrite Wl; subst cw; reflexivity).
      assert (Kcl : kinv cl) by (apply (kinv_same_ws _ cl Wl); exact Kw).
      assert (Ucl : wstatus (c_ws cl) <> S_UNSET) by (rewrite Wl; exact Uw).
      assert (Hgl : graph_commands_inert (c_graph cl)) by (rewrite Gl1; exact Hg).
      assert (Hnl : no_items (c_spec cl) = true) by (rewrite Gl2; exact Hn).
      destruct (cmds_run _ _ _ _ Hqc Wcl Gl3 Hnl Hgl En) as [Wn [[E1 [E2 E3]] [Q1 [Q2 [S2 [N2 [K2 NP2]]]]]]].
      destruct Hfl as [Ffl [Sfl Wfl]].
      assert (Pc' : forall k, pstat c' k = pstat cn k) by (apply pstat_Rfr; exact Ffl).
      assert (Wc' : winv c').
      { split; [eapply Rfr_winv_tasks; [exact Ffl|exact (proj1 Wn)]|]. intros s Hin. rewrite Sfl in Hin. exact (proj2 Wn _ Hin). }
      pose proof Ffl as Ffl0. destruct Ffl as [_ [_ [_ [F1 [F2 F3]]]]].
      split; [exact Wc'|].
      split; [unfold Rdef; split; [congruence|split; [congruence|intro; rewrite F3; apply E3; exact Gl3]]|].
      split.
      { intros k' Hk Hc. rewrite Pc', (Q1 _ Hc), Pcl, Hpq. apply Hother; exact Hk. }
      split.
      { intros k' Hk. rewrite Pc'. destruct (Q2 _ Hk) as [A|A]; [left|right; exact A].
        rewrite A, Pcl, Hpq. apply Hcmdp; exact Hk. }
      split.
      { exists n. split; [rewrite Pc', (Q1 (t, route) Hcmd), Pcl, Hpq; exact Hself|]. simpl in Hn3. simpl. tauto. }
      split.
      { unfold ncmd at 1. rewrite Sfl. fold (ncmd cn).
        assert (X : ncmd cl = ncmd cq) by (unfold ncmd; rewrite Wl; subst cw; reflexivity). lia. }
      assert (Hnal : forall k', is_engine_command (fst k') = true -> nonactive (pstat cl k')).
      { intros k' Hk. rewrite Pcl, Hpq, (Hcmdp _ Hk). apply Hna; exact Hk. }
      destruct (K2 Kcl Ucl Hnal) as [Kn Un].
      split.
      { split.
        * apply (kinv_Rflag cn c'); [split; [exact Ffl0|split; assumption]|exact Kn].
        * rewrite Wfl. exact Un. }
      intros Hsim Hnpa.
      assert (Hsimq : simple cq).
      { apply (simple_same cp cq Hpq). apply (simple_update c cp (t, route) Hother Hsim). intros x Hx. rewrite Hself in Hx.
        inversion Hx; subst x. exists n. split; [reflexivity|exact Hsimple]. }
      assert (Hnpq : npause cq).
      { apply (npause_weaken c cq Hnpa). eapply wstatus_chain; [eapply wstatus_chain; [eapply sel_wstatus; exact Hsel|exact Wm]|].
        destruct Fq as [_ [_ [X _]]]; exact X. }
      destruct (wf_task_event_eff _ _ _ _ _ _ Ew) as [nw' [Ecw' Hnw']].
      assert (Hnpl : npause cl).
      { unfold npause. rewrite Wl, Ecw'. simpl. apply (np_of_event cq t route n nw' Wq Hsimq Hnpq Hsimple Hnw'). }
      assert (Hsiml : simple cl) by (apply (simple_same cq cl Pcl); exact Hsimq).
      pose proof (NP2 Hsiml Hnpl) as [X1 X2]. unfold npause. rewrite Wfl. split; assumption.
Qed.

End Calls.

(* ================================================================== K. get_next_tasks without with-items tasks *)

Section Offers.
Variable ev : string -> dict -> evalres.

Lemma state_pure_get_task_context : forall idxs, state_pure (get_task_context idxs).
Proof.
  intros idxs c. unfold get_task_context, bind, getws. destruct (get_task_context_from _ _ _); reflexivity.
Qed.

Lemma state_pure_get : forall A (k : cstate -> M A), (forall c, fst (k c c) = c) -> state_pure (bind get k).
Proof. intros A k H c. unfold bind, get. apply H. Qed.

Lemma bind_pure_inv : forall A B (m : M A) (f : A -> M B) c c' r, state_pure m -> bind m f c = (c', r) ->
  (exists a, m c = (c, Val a) /\ f a c = (c', r)) \/ (exists e, m c = (c, Exc e) /\ c' = c /\ r = Exc e).
Proof.
  intros A B m f c c' r Hp H. unfold bind in H. pose proof (Hp c) as Hc.
  destruct (m c) as [c1 [a|e]] eqn:E; simpl in Hc; subst c1.
  - left; exists a; auto.
  - right; exists e. inversion H; subst; auto.
Qed.

(* rendering a task without items never touches the state and always yields an offer *)
Lemma next_task_for_plain : forall s c c' r, no_items (c_spec c) = true -> next_task_for ev s c = (c', r) ->
  c' = c /\ forall o, r = Val o -> o <> None.
Proof.
  intros s c c' r Hn H. unfold next_task_for in H. unfold bind at 1 in H. unfold get at 1 in H.
  apply bind_pure_inv in H.
  2: { destruct (get_staged_task (c_ws c) (s_id s) (s_route s)); [apply state_pure_get_task_context|].
       destruct (ws_task_entry (c_ws c) (s_id s) (s_route s)); [apply state_pure_get_task_context|].
       destruct (nth_error (contexts (c_ws c)) 0); [apply state_pure_ret|apply state_pure_raise]. }
  destruct H as [[ctx0 [_ H]]|[e [_ [-> ->]]]]; [|split; [reflexivity|discriminate]].
  cbv zeta in H.
  destruct (spec_get_task (c_spec c) (s_id s)) as [ts|] eqn:Ets; [|inversion H; subst; split; [reflexivity|discriminate]].
  unfold bind at 1 in H. unfold ret at 1 in H.
  pose proof (spec_no_items _ _ _ Hn Ets) as Hts. unfold task_has_items in Hts.
  destruct (ts_with ts) eqn:Ew; [discriminate|].
  apply bind_pure_inv in H.
  2: { unfold render_task. rewrite Ew.
       apply state_pure_bind; [apply evaluate_pure|intro]. apply state_pure_bind; [apply evaluate_pure|intro]. apply state_pure_ret. }
  destruct H as [[acts [Ea H]]|[e [_ [-> ->]]]]; [|split; [reflexivity|discriminate]].
  assert (Hacts : acts <> []).
  { unfold render_task in Ea. rewrite Ew in Ea.
    assert (V : vpost (fun l : list action_spec => l <> []) (a <- evaluate ev (ts_action ts) (merge_dicts (dset "__current_task" (current_task_json (s_id s) (s_route s) None) ctx0) (state_ctx (c_ws c))) ;;
                  i <- evaluate ev (ts_input ts) (merge_dicts (dset "__current_task" (current_task_json (s_id s) (s_route s) None) ctx0) (state_ctx (c_ws c))) ;;
                  ret [{| a_action := a; a_input := i; a_item := None |}])).
    { apply vpost_bind; intro. apply vpost_bind; intro. apply vpost_ret. discriminate. }
    exact (V _ _ _ Ea). }
  apply bind_pure_inv in H.
  2: { destruct (truthy (ts_delay ts)); [|apply state_pure_ret].
       apply state_pure_bind; [destruct (ts_delay ts); first [apply evaluate_pure|apply state_pure_ret]|intro d].
       destruct (py_is_int d); [apply state_pure_ret|apply state_pure_raise]. }
  destruct H as [[dl [_ H]]|[e [_ [-> ->]]]]; [|split; [reflexivity|discriminate]].
  inversion H; subst. split; [reflexivity|]. intros o Ho. inversion Ho; subst.
  destruct acts; [contradiction|discriminate].
Qed.


Definition only_errors (c c1 : cstate) : Prop :=
  c_ws c1 = c_ws c /\ c_graph c1 = c_graph c /\ c_spec c1 = c_spec c /\ c_init c1 = c_init c.

Definition offer_try (s : stg) : M (option offer * bool) :=
  try_catch (o <- next_task_for ev s ;; ret (o, false))
            (fun e => log_error e (Some (s_id s)) (Some (s_route s)) None ;;; ret (None, true)).

Lemma offer_try_eff : forall s c c1 r, no_items (c_spec c) = true -> offer_try s c = (c1, Val r) ->
  only_errors c c1 /\ (snd r = false -> c1 = c /\ fst r <> None).
Proof.
  intros s c c1 r Hn H. unfold offer_try, try_catch in H.
  destruct ((o <- next_task_for ev s ;; ret (o, false)) c) as [c2 [x|e]] eqn:E.
  - inversion H; subst c2 x; clear H. apply bind_val_inv' in E. destruct E as [c3 [o [E1 E2]]].
    destruct (next_task_for_plain _ _ _ _ Hn E1) as [-> Ho]. inversion E2; subst. simpl.
    split; [repeat split; reflexivity|]. intros _. split; [reflexivity|apply Ho; reflexivity].
  - unfold bind in E. destruct (next_task_for ev s c) as [c3 [o|e']] eqn:E1; [inversion E|]. inversion E; subst c3 e'; clear E.
    destruct (next_task_for_plain _ _ _ _ Hn E1) as [-> _].
    apply bind_val_inv' in H. destruct H as [c4 [u [E4 H]]]. inversion H; subst. simpl.
    unfold log_error in E4. apply log_entry_error_eff in E4. split; [unfold only_errors; tauto|discriminate].
Qed.

Lemma offers_mapM : forall l c c1 rs, no_items (c_spec c) = true -> mapM offer_try l c = (c1, Val rs) ->
  only_errors c c1 /\ length rs = length l /\ (existsb snd rs = false -> c1 = c /\ Forall (fun r => fst r <> None) rs).
Proof.
  induction l as [|s l IH]; intros c c1 rs Hn H; simpl in H.
  - inversion H; subst. split; [repeat split; reflexivity|]. split; [reflexivity|]. intros _; split; [reflexivity|constructor].
  - apply bind_val_inv' in H. destruct H as [c2 [r [E1 H]]].
    apply bind_val_inv' in H. destruct H as [c3 [rs' [E2 H]]]. inversion H; subst; clear H.
    destruct (offer_try_eff _ _ _ _ Hn E1) as [[A1 [A2 [A3 A4]]] A5].
    assert (Hn2 : no_items (c_spec c2) = true) by (rewrite A3; exact Hn).
    destruct (IH _ _ _ Hn2 E2) as [[B1 [B2 [B3 B4]]] [B5 B6]].
    split; [unfold only_errors; repeat split; congruence|]. split; [simpl; rewrite B5; reflexivity|].
    simpl. intro Hx. apply orb_false_elim in Hx. destruct Hx as [Hx1 Hx2].
    destruct (A5 Hx1) as [-> A6]. destruct (B6 Hx2) as [-> B7]. split; [reflexivity|constructor; assumption].
Qed.

(* get_next_tasks when it returns: nothing moves but (on a rendering error) the status, which fails; what is
   offered are ready entries; with something ready in a status in which tasks run, something is offered
   or the workflow has failed *)
Lemma get_next_eff : forall c c1 offers, c_init c = true -> no_items (c_spec c) = true ->
  get_next_tasks ev c = (c1, Val offers) ->
  Rlt c c1 /\
  (offers <> [] -> c1 = c /\ (status_in (wstatus (c_ws c)) RUNNING_STATUSES = true \/ wstatus (c_ws c) = S_FAILED)) /\
  (offers = [] -> status_in (wstatus (c_ws c)) RUNNING_STATUSES = true -> stgb c = true -> wstatus (c_ws c1) = S_FAILED).
Proof.
  intros c c1 offers Hi Hn H. unfold get_next_tasks in H.
  unfold bind at 1 in H. rewrite (ensure_ws_inited ev c Hi) in H.
  unfold bind at 1 in H. unfold getws at 1 in H. cbv zeta in H.
  set (w := c_ws c) in *. set (stasks := staged_filtered w) in *.
  set (rem := if status_eqb (wstatus w) S_FAILED then filter s_run_on_fail stasks else []) in *.
  destruct (negb (status_in (wstatus w) RUNNING_STATUSES) && match rem with [] => true | _ => false end) eqn:Eg.
  { inversion H; subst. split; [apply Rlt_refl|]. split; [intro X; contradiction|].
    intros _ Hr _. rewrite Hr in Eg. discriminate. }
  set (todo := match rem with [] => stasks | _ => rem end) in *.
  apply bind_val_inv' in H. destruct H as [c2 [rs [E2 H]]].
  change (mapM offer_try todo c = (c2, Val rs)) in E2.
  destruct (offers_mapM _ _ _ _ Hn E2) as [[A1 [A2 [A3 A4]]] [A5 A6]].
  assert (Hst : status_in (wstatus w) RUNNING_STATUSES = true \/ wstatus w = S_FAILED).
  { destruct (status_in (wstatus w) RUNNING_STATUSES) eqn:Er; [left; reflexivity|right]. cbn [negb andb] in Eg.
    unfold rem in Eg. destruct (status_eqb (wstatus w) S_FAILED) eqn:Ef; [apply status_eqb_eq; exact Ef|discriminate]. }
  destruct (existsb snd rs) eqn:Ee.
  - apply bind_val_inv' in H. destruct H as [c3 [u [E3 H]]]. inversion H; subst c3 offers; clear H. destruct u.
    pose proof (vlt_request_failed _ _ _ E3) as L. pose proof (request_failed_fails _ _ E3) as F.
    split.
    { apply (Rlt_trans c c2 c1); [|exact L]. apply Rlt_same_ws; assumption. }
    split; [intro X; contradiction|]. intros _ _ _. exact F.
  - destruct (A6 eq_refl) as [-> A7]. inversion H; subst c1 offers; clear H.
    split; [apply Rlt_refl|]. split; [intros _; split; [reflexivity|exact Hst]|].
    intros Hoff Hr Hs. exfalso.
    (* something is ready, so todo is not empty and every try yields an offer *)
    assert (Htodo : todo <> []).
    { unfold todo. destruct rem eqn:Er; [|discriminate]. unfold stasks. unfold stgb, has_staged_tasks in Hs. fold w in Hs.
      destruct (staged_filtered w); [discriminate|discriminate]. }
    destruct todo as [|s0 todo']; [contradiction|]. destruct rs as [|[o b] rs']; [discriminate A5|].
    inversion A7 as [|x xs Hx Hxs]; subst. simpl in Hx. destruct o as [o|]; [|contradiction].
    simpl in Hoff.
    assert (X : In o (sort_by offer_leb (o :: flat_map (fun '(o0, _) => match o0 with Some x => [x] | None => [] end) rs'))).
    { unfold sort_by. 
      assert (G : forall (l acc : list offer) x, In x acc \/ In x l -> In x (fold_left (fun acc y => insert_sorted offer_leb y acc) l acc)).
      { induction l as [|y l IHl]; intros acc x [Hx'|Hx']; simpl; auto; try contradiction.
        - apply IHl. left. clear -Hx'. induction acc as [|z acc IHa]; simpl; [destruct Hx'|].
          destruct (offer_leb z y); simpl; destruct Hx' as [->|Hx']; auto.
        - destruct Hx' as [->|Hx']; [apply IHl; left|apply IHl; right; exact Hx'].
          clear. induction acc as [|z acc IHa]; simpl; [left; reflexivity|]. destruct (offer_leb z x); simpl; auto. }
      apply G. right. left. reflexivity. }
    rewrite Hoff in X. destruct X.
Qed.

End Offers.

(* ================================================================== L. the lazy creation of the workflow state *)

Section Fresh.
Variable ev : string -> dict -> evalres.

Lemma lt_render_input : forall specs rt rolling errs, preserves Rlt (render_input ev specs rt rolling errs).
Proof.
  induction specs as [|[n d] specs IH]; intros; simpl.
  - apply (preserves_ret _ Rlt_refl).
  - apply (preserves_bind _ Rlt_trans).
    + apply (preserves_try_catch_expr _ Rlt_trans).
      * apply (preserves_bind _ Rlt_trans); [apply (state_pure_preserves _ Rlt_refl); apply evaluate_pure|intro; apply (preserves_ret _ Rlt_refl)].
      * intro; apply (preserves_ret _ Rlt_refl).
    + intros [x|e]; apply IH.
Qed.

Definition root_entry (t : string) : stg := mk_staged t 0 [0] [] true None.

Lemma forM_add_roots : forall l c,
  forM_ l (fun t => modws (fun w => ws_add_staged w (root_entry t))) c =
  (set_ws c (ws_set_staged (c_ws c) (app (staged (c_ws c)) (map root_entry l))), Val tt).
Proof.
  induction l as [|t l IH]; intro c; simpl.
  - rewrite app_nil_r. destruct c as [sp g inp par ini w er lg out]; destruct w; reflexivity.
  - unfold bind, modws at 1. rewrite IH. simpl. unfold ws_add_staged. simpl. rewrite <- app_assoc. reflexivity.
Qed.

Lemma ensure_fresh : forall c c1, c_init c = false -> c_ws c = empty_ws -> ensure_ws ev c = (c1, Val tt) ->
  c_init c1 = true /\ c_graph c1 = c_graph c /\ c_spec c1 = c_spec c /\
  sequence (c_ws c1) = [] /\ tasks (c_ws c1) = [] /\
  ((wstatus (c_ws c1) = S_FAILED /\ staged (c_ws c1) = []) \/
   (wstatus (c_ws c1) = S_UNSET /\ staged (c_ws c1) = map root_entry (g_roots (c_graph c)))).
Proof.
  intros c c1 Hi Hw H. unfold ensure_ws in H. unfold bind at 1 in H. unfold get at 1 in H. rewrite Hi in H.
  apply bind_val_inv' in H. destruct H as [c2 [u2 [E2 H]]]. unfold modify in E2. inversion E2; subst c2; clear E2.
  apply bind_val_inv' in H. destruct H as [c3 [[rin ierrs] [E3 H]]].
  pose proof (lt_render_input _ _ _ _ _ _ _ E3) as L3.
  apply bind_val_inv' in H. destruct H as [c4 [[rv verrs] [E4 H]]].
  pose proof (lt_render_vars ev _ _ _ _ _ _ _ E4) as L4.
  apply bind_val_inv' in H. destruct H as [c5 [u5 [E5 H]]].
  assert (L5 : Rlt c4 c5 /\ (app ierrs verrs <> [] -> wstatus (c_ws c5) = S_FAILED)).
  { destruct (app ierrs verrs) as [|e0 es]; [inversion E5; subst; split; [apply Rlt_refl|intro X; contradiction]|].
    apply bind_val_inv' in E5. destruct E5 as [c6 [u6 [E6 E5]]]. destruct u5.
    split; [eapply Rlt_trans; [eapply vlt_log_errors; exact E6|eapply vlt_request_failed; exact E5]|].
    intros _. eapply request_failed_fails; exact E5. }
  destruct L5 as [L5 F5].
  pose proof (Rlt_trans _ _ _ (Rlt_trans _ _ _ L3 L4) L5) as [A1 [A2 [A3 [A4 [A5 [A6 [A7 [A8 A9]]]]]]]].
  simpl in A1, A2, A3, A4, A5, A6, A7, A8, A9. rewrite Hw in A1, A2, A3, A6. simpl in A1, A2, A3, A6.
  apply bind_val_inv' in H. destruct H as [c6 [w6 [E6 H]]]. inversion E6; subst c6 w6; clear E6.
  destruct (status_in (wstatus (c_ws c5)) ABENDED_STATUSES) eqn:Eab.
  - inversion H; subst c1. repeat split; try assumption. left.
    destruct A6 as [A6|A6]; [rewrite A6 in Eab; discriminate|]. split; assumption.
  - apply bind_val_inv' in H. destruct H as [c7 [u7 [E7 H]]]. unfold modws in E7. inversion E7; subst c7; clear E7.
    rewrite forM_add_roots in H. inversion H; subst c1; clear H. simpl.
    repeat split; try assumption. right.
    destruct A6 as [A6|A6]; [|rewrite A6 in Eab; discriminate]. split; [exact A6|]. rewrite A3. reflexivity.
Qed.

(* after the state exists, every API function starts with a no-op: a call on the uninitialised conductor is
   the creation followed by the same call on the initialised one *)
Lemma ensure_then : forall A (k : unit -> M A) c c1, ensure_ws ev c = (c1, Val tt) -> c_init c1 = true ->
  bind (ensure_ws ev) k c = bind (ensure_ws ev) k c1.
Proof. intros A k c c1 H Hi. unfold bind. rewrite H, (ensure_ws_inited ev c1 Hi). reflexivity. Qed.

End Fresh.

(* ================================================================== M. control requests *)

Lemma task_table_step_running : forall n, task_table_step S_RUNNING n = Val (tbl_step task_table S_RUNNING n).
Proof.
  intro n. unfold task_table_step, tbl_step. destruct (tbl_row task_table S_RUNNING) eqn:E; [reflexivity|].
  vm_compute in E. discriminate.
Qed.

Lemma tpe_request_noop : forall c r st, winv c -> r_status r = Some S_RUNNING -> wev_in_vocab st = true ->
  task_process_event (c_ws c) r (EvWorkflow st) = Val None.
Proof.
  intros c r st [_ Hs] Hr Hv. unfold task_process_event. unfold wev_in_vocab in Hv. cbn [ev_name]. rewrite Hv. cbn [negb].
  unfold rstatus. rewrite Hr.
  assert (Hname : task_workflow_event_name (c_ws c) (r_id r) (r_route r) st = workflow_event_name st).
  { unfold task_workflow_event_name, workflow_event_name.
    destruct (status_in st (app PAUSE_STATUSES CANCEL_STATUSES)); [|reflexivity].
    destruct (get_staged_task (c_ws c) (r_id r) (r_route r)) as [s|] eqn:E; [|reflexivity].
    assert (Hp : s_items s = None) by (apply Hs; unfold get_staged_task in E; apply find_some in E; tauto).
    rewrite Hp. reflexivity. }
  rewrite Hname, task_table_step_running, F_request_keeps_running. reflexivity.
Qed.

Lemma push_loop_noop : forall c st, winv c -> simple c -> wev_in_vocab st = true ->
  forall l, (forall i r, In (i, r) l -> In (i, r) (ws_tasks_by_status (c_ws c) ACTIVE_STATUSES)) ->
  forM_ l (push_body st) c = (c, Val tt).
Proof.
  intros c st Hw Hs Hv. induction l as [|[i r0] l IH]; intro Hl; [reflexivity|].
  cbn [forM_]. unfold bind.
  assert (Hin : In (i, r0) (ws_tasks_by_status (c_ws c) ACTIVE_STATUSES)) by (apply Hl; left; reflexivity).
  destruct (tasks_by_status_In _ _ _ _ Hin) as [Hn Ha].
  assert (Hrun : r_status r0 = Some S_RUNNING).
  { unfold ws_tasks_by_status in Hin. apply filter_In in Hin. destruct Hin as [_ Hf]. apply andb_prop in Hf. destruct Hf as [_ Hp].
    apply ws_pointed_iff in Hp. destruct Hp as [k Hk].
    assert (Hps : pstat c k = Some (r_status r0)).
    { unfold pstat. rewrite (In_aget_tkey _ _ _ (proj1 (proj1 Hw)) Hk), Hn. reflexivity. }
    destruct (Hs _ _ Hps) as [s [Hx Hss]]. rewrite Hx in Ha. simpl in Ha. rewrite Hx.
    rewrite (active_simple_running _ Hss Ha). reflexivity. }
  rewrite (push_body_run st i r0 c r0 None Hn (tpe_request_noop _ _ _ Hw Hrun Hv)). rewrite with_seq_same.
  apply IH. intros j r Hj. apply Hl. right; exact Hj.
Qed.

Lemma wf_workflow_event_eff : forall st c c' unr, wf_workflow_event_M st c = (c', Val unr) ->
  exists n, c' = set_ws c (ws_set_status (c_ws c) n) /\
    (n = S_FAILED \/ n = step_or_stay (wstatus (c_ws c)) (wf_workflow_event_name (c_ws c) st)).
Proof.
  intros st c c' unr H. unfold wf_workflow_event_M in H.
  destruct (wf_process_workflow_event (c_graph c) (c_ws c) st) as [[new unr']|e] eqn:E; inversion H; subst; clear H.
  exists new. split; [reflexivity|]. unfold wf_process_workflow_event in E.
  destruct (negb (string_in (wf_workflow_event_name (c_ws c) st) WORKFLOW_EXECUTION_EVENTS)); [discriminate|].
  unfold step_or_stay, tbl_step.
  destruct (tbl_row wf_table (wstatus (c_ws c))) as [row|]; [|discriminate].
  destruct (aget String.eqb (wf_workflow_event_name (c_ws c) st) row) as [n|].
  - destruct (negb (status_eqb n (wstatus (c_ws c))) && status_eqb n S_SUCCEEDED).
    + unfold fail_on_unreachable in E. destruct (get_unreachable_barriers _ _); inversion E; subst; [right; reflexivity|left; reflexivity].
    + inversion E; subst. right; reflexivity.
  - inversion E; subst. right; reflexivity.
Qed.

Lemma wf_workflow_event_name_eq : forall w st,
  wf_workflow_event_name w st =
  request_event_name_of st (has_active_tasks w)
    (status_eqb (wstatus w) S_PAUSED && status_in st [S_RUNNING; S_RESUMING]
     && negb (has_active_tasks w) && negb (has_staged_tasks w) && negb (has_paused_tasks w)).
Proof. intros; reflexivity. Qed.

Section Requests.
Variable ev : string -> dict -> evalres.

(* a status request that returns: nothing moves but the workflow status *)
Lemma request_eff : forall c c' st, winv c -> simple c -> wev_in_vocab st = true ->
  request_status_core st c = (c', Val tt) ->
  exists n, c_ws c' = ws_set_status (c_ws c) n /\ c_graph c' = c_graph c /\ c_spec c' = c_spec c /\ c_init c' = c_init c /\
    (n = S_FAILED \/ n = step_or_stay (wstatus (c_ws c)) (wf_workflow_event_name (c_ws c) st)).
Proof.
  intros c c' st Hw Hs Hv H. rewrite request_status_core_eq in H. unfold bind at 1 in H.
  rewrite (push_loop_noop c st Hw Hs Hv) in H by auto.
  unfold request_tail in H.
  apply bind_val_inv' in H. destruct H as [c2 [unr [E2 H]]].
  destruct (wf_workflow_event_eff _ _ _ _ E2) as [n [-> Hn]].
  apply bind_val_inv' in H. destruct H as [c3 [u3 [E3 H]]].
  destruct (log_unreachable_run unr (set_ws c (ws_set_status (c_ws c) n))) as [c3' [E3' W3]].
  rewrite E3' in E3. inversion E3; subst c3'; clear E3.
  destruct (log_unreachable_def _ _ _ _ E3') as [G1 [G2 G3]]. simpl in G1, G2, G3.
  apply bind_val_inv' in H. destruct H as [c4 [w4 [E4 H]]]. inversion E4; subst c4 w4; clear E4.
  assert (Hc : c' = c3).
  { repeat match type of H with (if ?b then _ else _) _ = _ => destruct b end; try (inversion H; reflexivity).
    apply bind_val_inv' in H. destruct H as [c5 [u5 [_ H]]]. inversion H. }
  subst c'. exists n. rewrite W3. simpl. auto.
Qed.

End Requests.

(* ================================================================== N. the system invariant *)

Lemma akey_eqb_eq : forall a b : akey, akey_eqb a b = true <-> a = b.
Proof. intros a b. apply (tkey_eqb_eq a b). Qed.
Lemma akey_in_iff : forall k l, akey_in k l = true <-> In k l.
Proof.
  intros k l; unfold akey_in; rewrite existsb_exists; split.
  - intros [x [Hin He]]. apply akey_eqb_eq in He; subst; exact Hin.
  - intro H; exists k; split; [exact H|apply akey_eqb_eq; reflexivity].
Qed.
Lemma In_akey_add : forall k k0 l, In k (akey_add k0 l) <-> k = k0 \/ In k l.
Proof.
  intros k k0 l; unfold akey_add. destruct (akey_in k0 l) eqn:E.
  - apply akey_in_iff in E. split; [auto|intros [->|H]; assumption].
  - rewrite in_app_iff. simpl. split; [intros [H|[H|[]]]; auto|intros [->|H]; auto].
Qed.
Lemma In_akey_remove : forall k k0 l, In k (akey_remove k0 l) <-> In k l /\ k <> k0.
Proof.
  intros k k0 l; unfold akey_remove. rewrite filter_In. split.
  - intros [H1 H2]. split; [exact H1|]. intro E; subst. apply negb_true_iff in H2.
    rewrite (proj2 (akey_eqb_eq k0 k0) eq_refl) in H2. discriminate.
  - intros [H1 H2]. split; [exact H1|]. apply negb_true_iff. destruct (akey_eqb k0 k) eqn:E; [|reflexivity].
    apply akey_eqb_eq in E. congruence.
Qed.

Section System.
Variable ev : string -> dict -> evalres.
Variable sp : wf_spec.
Variable g : graph.
Variables inputs parent : dict.
Hypothesis Hni : no_items sp = true.
Hypothesis Hinert : graph_commands_inert g.
Hypothesis Hroots_cmd : forall t, In t (g_roots g) -> is_engine_command t = false.
Hypothesis Hroots : g_roots g <> [].
Hypothesis Hhnt : queue_hnt_prop ev g.

(* the invariant of an initialised conductor together with the provider's in-flight set *)
Definition cinv (c : cstate) (F : list akey) : Prop :=
  c_spec c = sp /\ c_graph c = g /\ c_init c = true /\
  winv c /\ simple c /\ ncmd c = 0 /\ kinv c /\
  (wstatus (c_ws c) = S_UNSET -> (forall k, pstat c k = None) /\ stgb c = true) /\
  (forall k, In k F -> pstat c k = Some (Some S_RUNNING)) /\
  (forall k, pstat c k = Some (Some S_RUNNING) -> In k F) /\
  (forall k, In k F -> is_engine_command (fst k) = false).

Definition sys_inv (s : sys) : Prop :=
  s_fault s = false ->
  (s_c s = init_cstate sp g inputs parent /\ s_inflight s = []) \/ cinv (s_c s) (s_inflight s).

Lemma kinv_failed : forall c, wstatus (c_ws c) = S_FAILED -> kinv c.
Proof.
  intros c H. unfold kinv. rewrite H. split; [simpl; tauto|]. repeat split; intro X; simpl in X; intuition discriminate.
Qed.

Lemma cinv_Rlt : forall c c1 F, cinv c F -> Rlt c c1 -> cinv c1 F.
Proof.
  intros c c1 F (I1 & I2 & I3 & I4 & I5 & I6 & I7 & I8 & I9 & I10 & I11) L.
  pose proof (Rlt_winv _ _ L I4) as W. pose proof (pstat_Rfr _ _ (Rlt_Rfr _ _ L)) as P.
  destruct L as [A1 [A2 [A3 [A4 [A5 [A6 [A7 [A8 A9]]]]]]]].
  assert (S1 : stgb c1 = stgb c) by (unfold stgb; apply has_staged_same; exact A3).
  unfold cinv. split; [congruence|]. split; [congruence|]. split; [congruence|]. split; [exact W|].
  split; [intros k x Hk; rewrite P in Hk; exact (I5 _ _ Hk)|].
  split; [unfold ncmd; rewrite A3; exact I6|].
  split; [destruct A6 as [E|E]; [apply (kinv_transport c c1 E P S1 I7)|apply kinv_failed; exact E]|].
  split.
  { intro U. destruct A6 as [E|E]; [|rewrite E in U; discriminate]. rewrite E in U. destruct (I8 U) as [X Y].
    split; [intro k; rewrite P; apply X|rewrite S1; exact Y]. }
  split; [intros k Hk; rewrite P; apply I9; exact Hk|]. split; [intros k Hk; rewrite P in Hk; apply I10; exact Hk|exact I11].
Qed.

Lemma winv_fresh : forall c, sequence (c_ws c) = [] -> tasks (c_ws c) = [] ->
  (forall s, In s (staged (c_ws c)) -> stg_plain s) -> winv c.
Proof.
  intros c Hs Ht Hp. split; [|exact Hp]. split; [rewrite Ht; constructor|]. intros k i Hin. rewrite Ht in Hin. destruct Hin.
Qed.

Lemma pstat_no_tasks : forall c k, tasks (c_ws c) = [] -> pstat c k = None.
Proof. intros c k H. unfold pstat. rewrite H. reflexivity. Qed.

(* the state the lazy creation leaves, when it returns, satisfies the invariant with nothing in flight *)
Lemma fresh_cinv : forall c1, ensure_ws ev (init_cstate sp g inputs parent) = (c1, Val tt) -> cinv c1 [].
Proof.
  intros c1 H. destruct (ensure_fresh ev (init_cstate sp g inputs parent) c1 eq_refl eq_refl H) as [E1 [E2 [E3 [E4 [E5 E6]]]]]. simpl in E2, E3.
  assert (Hp : forall k, pstat c1 k = None) by (intro k; apply pstat_no_tasks; exact E5).
  assert (Hplain : forall s, In s (staged (c_ws c1)) -> stg_plain s /\ is_engine_command (s_id s) = false /\ s_ready s = true).
  { intros s Hin. destruct E6 as [[_ E6]|[_ E6]]; rewrite E6 in Hin; [destruct Hin|].
    simpl in Hin. apply in_map_iff in Hin. destruct Hin as [t [<- Ht]]. split; [split; reflexivity|]. split; [apply Hroots_cmd; exact Ht|reflexivity]. }
  unfold cinv. split; [exact E3|]. split; [exact E2|]. split; [exact E1|].
  split; [apply winv_fresh; [exact E4|exact E5|intros s Hs; apply (Hplain s Hs)]|].
  split; [intros k x Hk; rewrite Hp in Hk; discriminate|].
  split.
  { unfold ncmd. assert (X : forall l, (forall s, In s l -> cmdb s = false) -> filter cmdb l = []).
    { induction l as [|a l IH]; intro Hl; [reflexivity|]. simpl. rewrite (Hl a (or_introl eq_refl)). apply IH. intros s Hs; apply Hl; right; exact Hs. }
    rewrite X; [reflexivity|]. intros s Hs. apply (Hplain s Hs). }
  split.
  { destruct E6 as [[E6 _]|[E6 _]]; [apply kinv_failed; exact E6|]. unfold kinv. rewrite E6.
    split; [simpl; tauto|]. repeat split; intro X; simpl in X; intuition discriminate. }
  split.
  { intro U. split; [exact Hp|]. destruct E6 as [[E6 _]|[_ E6]]; [rewrite E6 in U; discriminate|].
    unfold stgb. apply has_staged_iff. destruct (g_roots g) as [|t0 l] eqn:Er; [contradiction|].
    exists (root_entry t0). rewrite E6. simpl. rewrite Er. simpl. auto. }
  split; [intros k []|]. split; [intros k Hk; rewrite Hp in Hk; discriminate|intros k []].
Qed.

(* a call on the fresh conductor: either the creation raises, and so does the call, or the call is the
   same call on the initialised conductor, which satisfies the invariant *)
Lemma on_fresh : forall A (k : unit -> M A),
  (exists c1 e, ensure_ws ev (init_cstate sp g inputs parent) = (c1, Exc e) /\
                bind (ensure_ws ev) k (init_cstate sp g inputs parent) = (c1, Exc e)) \/
  (exists c1, ensure_ws ev (init_cstate sp g inputs parent) = (c1, Val tt) /\ cinv c1 [] /\
              bind (ensure_ws ev) k (init_cstate sp g inputs parent) = bind (ensure_ws ev) k c1).
Proof.
  intros A k. destruct (ensure_ws ev (init_cstate sp g inputs parent)) as [c1 [[]|e]] eqn:E.
  - right. exists c1. split; [reflexivity|]. pose proof (fresh_cinv _ E) as I. split; [exact I|].
    apply ensure_then; [exact E|]. destruct I as (_ & _ & X & _). exact X.
  - left. exists c1, e. split; [reflexivity|]. unfold bind. rewrite E. reflexivity.
Qed.


Lemma sys_statuses_lifecycle : forall s, In s sys_wf_statuses -> In s wf_statuses.
Proof. intros s H. simpl in *. intuition. Qed.

Lemma no_paused_tasks : forall c, winv c -> simple c -> has_paused_tasks (c_ws c) = false.
Proof.
  intros c Hw Hs. unfold has_paused_tasks.
  destruct (ws_tasks_by_status (c_ws c) [S_PAUSED; S_PENDING]) eqn:E; [reflexivity|exfalso].
  assert (X : ws_tasks_by_status (c_ws c) [S_PAUSED; S_PENDING] <> []) by (rewrite E; discriminate).
  apply (tasks_by_status_iff c _ Hw) in X. destruct X as [k [s [Hp Hin]]].
  destruct (Hs _ _ Hp) as [s' [Hx Hss]]. inversion Hx; subst s'.
  destruct Hss as [H|[H|[H|[H|[H|[]]]]]]; subst s; discriminate Hin.
Qed.

Lemma request_statuses_vocab : forall st, status_in st request_statuses = true -> wev_in_vocab st = true.
Proof.
  intros st H. apply status_in_In in H. simpl in H.
  destruct H as [H|[H|[H|[H|[H|[H|[H|[]]]]]]]]; subst st; vm_compute; reflexivity.
Qed.

(* a control request on the initialised conductor, accepted or rejected *)
Lemma step_request_core : forall c F st c' r, cinv c F -> status_in st request_statuses = true ->
  request_status_core st c = (c', r) -> cinv c' F.
Proof.
  intros c F st c' r I Hst H. pose proof I as (I1 & I2 & I3 & I4 & I5 & I6 & I7 & I8 & I9 & I10 & I11).
  destruct r as [[]|e].
  2: { assert (Hrow : workflow_status_has_row c).
       { apply lifecycle_status_has_row. apply sys_statuses_lifecycle. exact (proj1 I7). }
       rewrite (rejected_core_is_inert _ _ _ _ Hrow H). exact I. }
  destruct (request_eff _ _ _ I4 I5 (request_statuses_vocab _ Hst) H) as [n [W [G1 [G2 [G3 Hn]]]]].
  assert (P : forall k, pstat c' k = pstat c k) by (intro k; unfold pstat; rewrite W; reflexivity).
  assert (S1 : stgb c' = stgb c) by (unfold stgb; rewrite W; reflexivity).
  assert (Wn : wstatus (c_ws c') = n) by (rewrite W; reflexivity).
  assert (W' : winv c') by (eapply winv_same; [| | |exact I4]; rewrite W; reflexivity).
  assert (Ea : act c' <-> act c) by (apply act_same; exact P).
  unfold cinv. split; [congruence|]. split; [congruence|]. split; [congruence|]. split; [exact W'|].
  split; [intros k x Hk; rewrite P in Hk; exact (I5 _ _ Hk)|].
  split; [unfold ncmd; rewrite W; exact I6|].
  assert (Rest : (forall k, In k F -> pstat c' k = Some (Some S_RUNNING)) /\
                 (forall k, pstat c' k = Some (Some S_RUNNING) -> In k F) /\
                 (forall k, In k F -> is_engine_command (fst k) = false)).
  { split; [intros k Hk; rewrite P; apply I9; exact Hk|]. split; [intros k Hk; rewrite P in Hk; apply I10; exact Hk|exact I11]. }
  destruct Hn as [Hn|Hn].
  { split; [apply kinv_failed; rewrite Wn; exact Hn|]. split; [intro U; rewrite Wn, Hn in U; discriminate|exact Rest]. }
  rewrite wf_workflow_event_name_eq in Hn.
  set (s := wstatus (c_ws c)) in *. set (a := has_active_tasks (c_ws c)) in *.
  set (d := status_eqb s S_PAUSED && status_in st [S_RUNNING; S_RESUMING] && negb a && negb (has_staged_tasks (c_ws c))
            && negb (has_paused_tasks (c_ws c))) in *.
  destruct I7 as [K1 [K2 [K3 [K4 K5]]]]. fold s in K1, K2, K3, K4, K5.
  assert (Hd : d = true -> s = S_PAUSED /\ a = false /\ In st [S_RUNNING; S_RESUMING]).
  { intro X. unfold d in X. repeat (apply andb_prop in X; destruct X as [X ?]).
    split; [apply status_eqb_eq; exact X|]. split; [apply negb_true_iff; assumption|apply status_in_In; assumption]. }
  assert (Hstf : In st request_statuses_f) by (apply status_in_In in Hst; exact Hst).
  pose proof (F_sys_request s st a d K1 Hstf Hd) as Fq. cbv zeta in Fq. rewrite <- Hn in Fq.
  destruct Fq as [F1 [F2 [F3 [F4 [F5 F6]]]]].
  assert (Aa : a = true -> act c) by (intro X; apply (has_active_iff c I4); exact X).
  assert (Ana : a = false -> ~ act c) by (intro X; apply (has_active_false_iff c I4); exact X).
  split.
  { unfold kinv. rewrite Wn, S1. split; [exact F1|].
    split.
    { intros X Y. apply Ea in Y. revert Y.
      assert (Hc : In n [S_PAUSED; S_CANCELED] \/ n = S_SUCCEEDED) by (simpl in X; simpl; intuition).
      destruct Hc as [Hc|Hc].
      - destruct (F3 Hc) as [E|E]; [rewrite E in X; exact (K2 X)|exact (Ana E)].
      - destruct (F5 Hc) as [E|E]; [rewrite E in X; exact (K2 X)|]. destruct (Hd E) as [_ [E2 _]]. exact (Ana E2). }
    split.
    { intro X. destruct (F5 X) as [E|E]; [rewrite E in X; exact (K3 X)|].
      unfold d in E. repeat (apply andb_prop in E; destruct E as [E ?]). unfold stgb. apply negb_true_iff. assumption. }
    split.
    { intro X. apply Ea. destruct (F4 X) as [E|E]; [rewrite E in X; exact (K4 X)|exact (Aa E)]. }
    intro X. destruct (F6 X) as [E|[E|[E|[E1 [E2 E3]]]]].
    - rewrite E in X. destruct (K5 X) as [Y|Y]; [left; apply Ea; exact Y|right; exact Y].
    - right. exact (proj2 (I8 E)).
    - assert (Hc : In s [S_PAUSING; S_CANCELING] \/ In s [S_RUNNING; S_RESUMING]) by (simpl in E; simpl; intuition).
      destruct Hc as [Hc|Hc]; [left; apply Ea; exact (K4 Hc)|]. destruct (K5 Hc) as [Y|Y]; [left; apply Ea; exact Y|right; exact Y].
    - unfold d in E2. rewrite E1 in E2. rewrite (proj2 (status_in_In _ _) E3) in E2.
      change (status_eqb S_PAUSED S_PAUSED) with true in E2. cbn [andb] in E2.
      rewrite (no_paused_tasks c I4 I5) in E2. cbn [negb] in E2. rewrite andb_true_r in E2.
      apply andb_false_iff in E2. destruct E2 as [E2|E2]; apply negb_false_iff in E2;
        [left; apply Ea; exact (Aa E2)|right; exact E2]. }
  split; [|exact Rest].
  intro U. rewrite Wn in U. specialize (F2 U). destruct (I8 F2) as [X Y].
  split; [intro k; rewrite P; apply X|rewrite S1; exact Y].
Qed.


Lemma cinv_cmd_nonactive : forall c F, cinv c F -> forall k', is_engine_command (fst k') = true -> nonactive (pstat c k').
Proof.
  intros c F (I1 & I2 & I3 & I4 & I5 & I6 & I7 & I8 & I9 & I10 & I11) k' Hk s Hp.
  destruct (I5 _ _ Hp) as [s' [Hx Hs]]. inversion Hx; subst s'.
  destruct (status_in s ACTIVE_STATUSES) eqn:Ea; [|reflexivity]. exfalso.
  rewrite (active_simple_running _ Hs Ea) in Hp. specialize (I11 _ (I10 _ Hp)). congruence.
Qed.

Lemma cinv_act_krun : forall c F, cinv c F -> act c -> krun c.
Proof.
  intros c F (I1 & I2 & I3 & I4 & I5 & I6 & I7 & I8 & I9 & I10 & I11) Ha.
  destruct I7 as [K1 [K2 _]]. unfold krun.
  assert (U : wstatus (c_ws c) <> S_UNSET).
  { intro X. destruct (I8 X) as [Y _]. destruct Ha as [k [s [Hp _]]]. rewrite Y in Hp. discriminate. }
  cbv [In sys_wf_statuses S_RUNNING S_RESUMING S_PAUSING S_PAUSED S_CANCELING S_CANCELED S_SUCCEEDED S_FAILED S_UNSET] in *.
  intuition.
Qed.

(* a completion report of an action in flight, when the call returns *)
Lemma step_report_call : forall c F t route st res c', cinv c F -> In (t, route) F -> In st COMPLETED_STATUSES ->
  update_task_state ev t route (EvAction st res) c = (c', Val tt) -> cinv c' (akey_remove (t, route) F).
Proof.
  intros c F t route st res c' I Hin Hst H.
  pose proof I as (I1 & I2 & I3 & I4 & I5 & I6 & I7 & I8 & I9 & I10 & I11).
  assert (Hps : pstat c (t, route) = Some (Some S_RUNNING)) by (apply I9; exact Hin).
  assert (Hcmd : is_engine_command t = false) by (apply (I11 _ Hin)).
  assert (Hact : act c) by (exists (t, route), S_RUNNING; split; [exact Hps|reflexivity]).
  unfold update_task_state in H. rewrite uts_unfold in H.
  assert (Hn' : no_items (c_spec c) = true) by (rewrite I1; exact Hni).
  assert (Hg' : graph_commands_inert (c_graph c)) by (rewrite I2; exact Hinert).
  assert (Hh' : queue_hnt_prop ev (c_graph c)) by (rewrite I2; exact Hhnt).
  destruct (report_call ev 1 t route st res c c' I4 I3 Hn' Hg' Hh' Hps Hcmd Hst (cinv_cmd_nonactive _ _ I) (cinv_act_krun _ _ I Hact) H)
    as [W' [[D1 [D2 D3]] [P1 [P2 [[x [P3 P3']] [N' [[K' U'] _]]]]]]].
  unfold cinv. split; [congruence|]. split; [congruence|]. split; [exact (D3 I3)|]. split; [exact W'|].
  split.
  { intros k y Hk. destruct (tkey_eqb k (t, route)) eqn:E.
    - apply tkey_eqb_eq in E; subst k. rewrite P3 in Hk. inversion Hk; subst y. exists x. split; [reflexivity|].
      simpl in P3'. simpl. intuition.
    - assert (Hne : k <> (t, route)) by (intro X; subst; rewrite tkey_eqb_refl in E; discriminate).
      destruct (is_engine_command (fst k)) eqn:Ec.
      + destruct (P2 _ Ec) as [A|[A|A]]; rewrite A in Hk; [exact (I5 _ _ Hk)| |]; inversion Hk; subst y; eexists; split; try reflexivity; simpl; auto.
      + rewrite (P1 _ Hne Ec) in Hk. exact (I5 _ _ Hk). }
  split; [lia|]. split; [exact K'|]. split; [intro X; contradiction|].
  split.
  { intros k Hk. apply In_akey_remove in Hk. destruct Hk as [Hk Hne]. rewrite (P1 _ Hne (I11 _ Hk)). apply I9; exact Hk. }
  split; [|intros k Hk; apply In_akey_remove in Hk; apply I11; tauto].
  intros k Hk. apply In_akey_remove.
  destruct (tkey_eqb k (t, route)) eqn:E.
  - apply tkey_eqb_eq in E; subst k. rewrite P3 in Hk. inversion Hk; subst x. simpl in P3'. intuition discriminate.
  - assert (Hne : k <> (t, route)) by (intro X; subst; rewrite tkey_eqb_refl in E; discriminate).
    split; [|exact Hne]. destruct (is_engine_command (fst k)) eqn:Ec.
    + destruct (P2 _ Ec) as [A|[A|A]]; rewrite A in Hk; [|discriminate|discriminate].
      specialize (I11 _ (I10 _ Hk)). congruence.
    + rewrite (P1 _ Hne Ec) in Hk. apply I10; exact Hk.
Qed.

Lemma find_remove_first_other : forall t r t' r' l, (t', r') <> (t, r) ->
  find (stg_matches t' r') (staged_remove_first t r l) = find (stg_matches t' r') l.
Proof.
  intros t r t' r' l Hne; induction l as [|a l IH]; simpl; [reflexivity|].
  destruct (stg_matches t r a) eqn:E.
  - destruct (stg_matches t' r' a) eqn:E'; [|reflexivity]. exfalso. apply Hne.
    unfold stg_matches in E, E'. apply andb_prop in E; apply andb_prop in E'. destruct E as [A B], E' as [A' B'].
    apply String.eqb_eq in A, A'. apply Nat.eqb_eq in B, B'. congruence.
  - simpl. destruct (stg_matches t' r' a); [reflexivity|exact IH].
Qed.

Lemma get_staged_after_remove : forall w w' t r t' r', (t', r') <> (t, r) ->
  staged w' = staged (ws_remove_staged_task w t r) -> get_staged_task w' t' r' = get_staged_task w t' r'.
Proof.
  intros w w' t r t' r' Hne H. unfold get_staged_task. rewrite H. unfold ws_remove_staged_task.
  destruct (get_staged_task w t r); [|reflexivity]. destruct (items_any_active s); [reflexivity|]. simpl.
  apply find_remove_first_other; exact Hne.
Qed.

(* the acknowledgement of one offered key, when the call returns *)
Lemma step_ack_call : forall c F t route c', cinv c F -> is_engine_command t = false ->
  ((exists s0, get_staged_task (c_ws c) t route = Some s0) \/ pstat c (t, route) = Some (Some S_RUNNING)) ->
  In (wstatus (c_ws c)) [S_RUNNING; S_RESUMING; S_FAILED] ->
  update_task_state ev t route ack_event c = (c', Val tt) ->
  cinv c' (akey_add (t, route) F) /\ In (wstatus (c_ws c')) [S_RUNNING; S_RESUMING; S_FAILED] /\
  pstat c' (t, route) = Some (Some S_RUNNING) /\
  (forall t' r', (t', r') <> (t, route) -> get_staged_task (c_ws c') t' r' = get_staged_task (c_ws c) t' r') /\
  (forall k', k' <> (t, route) -> pstat c' k' = pstat c k').
Proof.
  intros c F t route c' I Hcmd Hoff Hst H.
  pose proof I as (I1 & I2 & I3 & I4 & I5 & I6 & I7 & I8 & I9 & I10 & I11).
  unfold update_task_state in H. rewrite uts_unfold in H.
  assert (Hn' : no_items (c_spec c) = true) by (rewrite I1; exact Hni).
  destruct (ack_call ev _ t route c c' I4 I3 Hn' Hcmd Hoff (I5 (t, route)) Hst H)
    as [W' [[D1 [D2 D3]] [P1 [P2 [S' [N' [K' St']]]]]]].
  split; [|split; [exact St'|split; [exact P2|split; [|exact P1]]]].
  2: { intros t' r' Hne. eapply get_staged_after_remove; [exact Hne|exact S']. }
  unfold cinv. split; [congruence|]. split; [congruence|]. split; [exact (D3 I3)|]. split; [exact W'|].
  split.
  { intros k y Hk. destruct (tkey_eqb k (t, route)) eqn:E.
    - apply tkey_eqb_eq in E; subst k. rewrite P2 in Hk. inversion Hk; subst y. exists S_RUNNING; split; [reflexivity|simpl; auto].
    - assert (Hne : k <> (t, route)) by (intro X; subst; rewrite tkey_eqb_refl in E; discriminate).
      rewrite (P1 _ Hne) in Hk. exact (I5 _ _ Hk). }
  split; [lia|]. split; [exact K'|].
  split; [intro X; rewrite X in St'; simpl in St'; intuition discriminate|].
  split.
  { intros k Hk. apply In_akey_add in Hk. destruct (tkey_eqb k (t, route)) eqn:E.
    - apply tkey_eqb_eq in E; subst k. exact P2.
    - assert (Hne : k <> (t, route)) by (intro X; subst; rewrite tkey_eqb_refl in E; discriminate).
      rewrite (P1 _ Hne). apply I9. destruct Hk as [Hk|Hk]; [contradiction|exact Hk]. }
  split.
  { intros k Hk. apply In_akey_add. destruct (tkey_eqb k (t, route)) eqn:E.
    - apply tkey_eqb_eq in E; left; exact E.
    - assert (Hne : k <> (t, route)) by (intro X; subst; rewrite tkey_eqb_refl in E; discriminate).
      right. apply I10. rewrite <- (P1 _ Hne). exact Hk. }
  intros k Hk. apply In_akey_add in Hk. destruct Hk as [->|Hk]; [exact Hcmd|apply I11; exact Hk].
Qed.


(* ---- the protocol steps ---- *)

Lemma then_ret_inv : forall A (m : M unit) (a : A) c c' x, (m ;;; ret a) c = (c', x) ->
  (x = Val a /\ m c = (c', Val tt)) \/ (exists e, x = Exc e /\ m c = (c', Exc e)).
Proof.
  intros A m a c c' x H. unfold bind in H. destruct (m c) as [c1 [[]|e]]; inversion H; subst; [left|right; exists e]; auto.
Qed.

Lemma orb_false_l_r : forall a b, a || b = false -> a = false /\ b = false.
Proof. intros [] []; simpl; auto. Qed.

Lemma ncmd_zero : forall c, ncmd c = 0 -> forall s, In s (staged (c_ws c)) -> is_engine_command (s_id s) = false.
Proof.
  intros c H s Hin. unfold ncmd in H. destruct (is_engine_command (s_id s)) eqn:E; [|reflexivity]. exfalso.
  assert (X : In s (filter cmdb (staged (c_ws c)))) by (apply filter_In; split; [exact Hin|exact E]).
  destruct (filter cmdb (staged (c_ws c))); [destruct X|discriminate].
Qed.

Lemma find_exists : forall A (f : A -> bool) l x, In x l -> f x = true -> exists y, find f l = Some y.
Proof.
  intros A f l; induction l as [|a l IH]; intros x Hin Hf; [destruct Hin|]. simpl. destruct (f a) eqn:E; [exists a; reflexivity|].
  destruct Hin as [->|Hin]; [congruence|]. eapply IH; eassumption.
Qed.

Lemma sys_request_inv : forall s st, sys_inv s -> sys_inv (sys_request ev s st).
Proof.
  intros s st Hs. unfold sys_request. destruct (status_in st request_statuses) eqn:Est; [|exact Hs].
  destruct (api_exec ev (OpRequest st) (s_c s)) as [c' x] eqn:E. intro Hf. simpl in Hf. simpl.
  apply orb_false_l_r in Hf. destruct Hf as [Hf1 Hf2].
  cbn [api_exec] in E.
  assert (E' : exists y, request_workflow_status ev st (s_c s) = (c', y)).
  { destruct (then_ret_inv _ _ _ _ _ _ E) as [[_ X]|[e [_ X]]]; eexists; exact X. }
  destruct E' as [y E']. unfold request_workflow_status in E'.
  right. destruct (Hs Hf1) as [[Hc HF]|I].
  - rewrite HF. rewrite Hc in Hf2, E'.
    destruct (on_fresh _ (fun _ => request_status_core st)) as [[c1 [e [X _]]]|[c1 [X [I Y]]]].
    + rewrite X in Hf2. discriminate.
    + rewrite Y in E'. unfold bind in E'. pose proof I as (_ & _ & I3 & _).
      rewrite (ensure_ws_inited ev c1 I3) in E'.
      eapply step_request_core; [exact I|exact Est|exact E'].
  - pose proof I as (_ & _ & I3 & _). unfold bind in E'. rewrite (ensure_ws_inited ev _ I3) in E'.
    eapply step_request_core; [exact I|exact Est|exact E'].
Qed.

Lemma sys_ack_fault : forall keys s, s_fault s = true -> s_fault (fold_left (sys_ack ev) keys s) = true.
Proof.
  induction keys as [|k keys IH]; intros s H; [exact H|]. simpl. apply IH. unfold sys_ack.
  destruct (api_exec ev _ (s_c s)). simpl. rewrite H. reflexivity.
Qed.

Lemma sys_ack_loop : forall keys s,
  (s_fault s = false ->
   cinv (s_c s) (s_inflight s) /\ (keys <> [] -> In (wstatus (c_ws (s_c s))) [S_RUNNING; S_RESUMING; S_FAILED]) /\
   forall k, In k keys -> is_engine_command (fst k) = false /\
     ((exists s0, get_staged_task (c_ws (s_c s)) (fst k) (snd k) = Some s0) \/ pstat (s_c s) k = Some (Some S_RUNNING))) ->
  s_fault (fold_left (sys_ack ev) keys s) = false ->
  cinv (s_c (fold_left (sys_ack ev) keys s)) (s_inflight (fold_left (sys_ack ev) keys s)) /\
  (keys <> [] -> In (wstatus (c_ws (s_c (fold_left (sys_ack ev) keys s)))) [S_RUNNING; S_RESUMING; S_FAILED]).
Proof.
  induction keys as [|k keys IH]; intros s H Hf; simpl in *.
  - split; [apply (H Hf)|intro X; contradiction].
  - destruct (s_fault (sys_ack ev s k)) eqn:Ef; [rewrite (sys_ack_fault _ _ Ef) in Hf; discriminate|].
    assert (Hstep : cinv (s_c (sys_ack ev s k)) (s_inflight (sys_ack ev s k)) /\
                    In (wstatus (c_ws (s_c (sys_ack ev s k)))) [S_RUNNING; S_RESUMING; S_FAILED] /\
                    forall k2, In k2 keys -> is_engine_command (fst k2) = false /\
                      ((exists s0, get_staged_task (c_ws (s_c (sys_ack ev s k))) (fst k2) (snd k2) = Some s0) \/
                       pstat (s_c (sys_ack ev s k)) k2 = Some (Some S_RUNNING))).
    2: { destruct Hstep as [A [B C]]. destruct (IH (sys_ack ev s k)) as [X Y]; [intros _; split; [exact A|split; [intros _; exact B|exact C]]|exact Hf|].
         split; [exact X|]. intros _. destruct keys as [|k3 keys3]; [simpl; exact B|apply Y; discriminate]. }
    unfold sys_ack in *. destruct (api_exec ev (OpEvent (fst k) (snd k) ack_event) (s_c s)) as [c' x] eqn:E.
    simpl in Ef. simpl. apply orb_false_l_r in Ef. destruct Ef as [Ef1 Ef2].
    destruct (H Ef1) as [I [Hst Hk]]. specialize (Hst ltac:(discriminate)). cbn [api_exec] in E.
    destruct (then_ret_inv _ _ _ _ _ _ E) as [[_ X]|[e [X _]]]; [|rewrite X in Ef2; discriminate].
    destruct (Hk k (or_introl eq_refl)) as [Hc Ho].
    assert (Ho' : (exists s0, get_staged_task (c_ws (s_c s)) (fst k) (snd k) = Some s0) \/
                  pstat (s_c s) (fst k, snd k) = Some (Some S_RUNNING)) by (destruct k; exact Ho).
    destruct (step_ack_call _ _ _ _ _ I Hc Ho' Hst X) as [I' [Hst' [Pk [Sk Po]]]].
    split; [destruct k; exact I'|]. split; [exact Hst'|].
    intros k2 Hk2. destruct (Hk k2 (or_intror Hk2)) as [Hc2 Ho2]. split; [exact Hc2|].
    destruct (tkey_eqb k2 (fst k, snd k)) eqn:E2.
    + apply tkey_eqb_eq in E2. right. rewrite E2. exact Pk.
    + assert (Hne : k2 <> (fst k, snd k)) by (intro Y; rewrite Y in E2; rewrite tkey_eqb_refl in E2; discriminate).
      destruct Ho2 as [[s0 Hs0]|Hr]; [left; exists s0; rewrite Sk; [exact Hs0|destruct k2; exact Hne]|right; rewrite (Po _ Hne); exact Hr].
Qed.

Lemma sys_poll_inv : forall s, sys_inv s -> sys_inv (sys_poll ev s).
Proof.
  intros s Hs. unfold sys_poll. destruct (get_next_tasks ev (s_c s)) as [c1 [offers|e]] eqn:E; [|intro X; discriminate X].
  intro Hf. right.
  assert (Hf0 : s_fault s = false).
  { destruct (s_fault s) eqn:Ef; [|reflexivity]. rewrite sys_ack_fault in Hf; [discriminate|reflexivity]. }
  (* the initialised conductor the call ran on *)
  assert (Hc0 : exists c0, cinv c0 (s_inflight s) /\ get_next_tasks ev c0 = (c1, Val offers)).
  { destruct (Hs Hf0) as [[Hc HF]|I]; [|exists (s_c s); split; [exact I|exact E]].
    rewrite HF. rewrite Hc in E. unfold get_next_tasks in E.
    match type of E with bind _ ?k _ = _ => destruct (on_fresh _ k) as [[cx [e [_ X]]]|[cx [_ [I Y]]]] end.
    - rewrite X in E. discriminate.
    - exists cx. split; [exact I|]. rewrite Y in E. exact E. }
  destruct Hc0 as [c0 [I0 E0]]. pose proof I0 as (I1 & I2 & I3 & I4 & I5 & I6 & I7 & I8 & I9 & I10 & I11).
  assert (Hn' : no_items (c_spec c0) = true) by (rewrite I1; exact Hni).
  destruct (get_next_eff ev _ _ _ I3 Hn' E0) as [L [Hne Hnil]].
  pose proof (cinv_Rlt _ _ _ I0 L) as I1'.
  apply sys_ack_loop; [|exact Hf]. intros _. simpl.
  split; [exact I1'|].
  destruct offers as [|o offers'].
  - simpl. split; [intro X; contradiction|intros k []].
  - assert (X : o :: offers' <> []) by discriminate. destruct (Hne X) as [-> Hst].
    split.
    { intros _. destruct I7 as [K1 _]. destruct Hst as [Hst|Hst]; [|rewrite Hst; simpl; auto].
      cbv [In sys_wf_statuses S_RUNNING S_RESUMING S_PAUSING S_PAUSED S_CANCELING S_CANCELED S_SUCCEEDED S_FAILED S_UNSET] in *.
      destruct K1 as [K|[K|[K|[K|[K|[K|[K|[K|[K|[]]]]]]]]]]; rewrite <- K in *; try discriminate Hst; auto. }
    intros k Hk. apply in_map_iff in Hk. destruct Hk as [o' [<- Ho']].
    destruct (offers_are_staged ev _ _ _ I3 E0 _ Ho') as [s0 [Hin [Hr [Hc [Hid Hrt]]]]].
    unfold offer_key. simpl. rewrite Hid, Hrt. split; [apply (ncmd_zero _ I6 _ Hin)|]. left.
    unfold get_staged_task. apply (find_exists _ _ _ s0 Hin). unfold stg_matches. rewrite String.eqb_refl, Nat.eqb_refl. reflexivity.
Qed.


Lemma sys_report_inv : forall s t route st res, sys_inv s -> sys_inv (sys_report ev s t route st res).
Proof.
  intros s t route st res Hs. unfold sys_report.
  destruct (akey_in (t, route) (s_inflight s) && status_in st report_statuses) eqn:Ep; [|exact Hs].
  apply andb_prop in Ep. destruct Ep as [Ep1 Ep2]. apply akey_in_iff in Ep1. apply status_in_In in Ep2.
  destruct (api_exec ev (OpEvent t route (EvAction st res)) (s_c s)) as [c' x] eqn:E. intro Hf. simpl in Hf. simpl.
  apply orb_false_l_r in Hf. destruct Hf as [Hf1 Hf2]. right.
  destruct (Hs Hf1) as [[_ HF]|I]; [rewrite HF in Ep1; destruct Ep1|].
  cbn [api_exec] in E. destruct (then_ret_inv _ _ _ _ _ _ E) as [[_ X]|[e [X _]]]; [|rewrite X in Hf2; discriminate].
  eapply step_report_call; eassumption.
Qed.

Lemma sys_call_inv : forall s op, (op = OpRender \/ op = OpPersist) -> sys_inv s -> sys_inv (sys_call ev s op).
Proof.
  intros s op Hop Hs. unfold sys_call. destruct (api_exec ev op (s_c s)) as [c' x] eqn:E. intro Hf. simpl in Hf. simpl.
  apply orb_false_l_r in Hf. destruct Hf as [Hf1 Hf2]. right.
  destruct x as [a|e]; [|discriminate Hf2].
  assert (Hc0 : exists c0, cinv c0 (s_inflight s) /\ api_exec ev op c0 = (c', Val a)).
  { destruct (Hs Hf1) as [[Hc HF]|I]; [|exists (s_c s); split; [exact I|exact E]].
    rewrite HF. rewrite Hc in E.
    destruct Hop as [-> | ->]; cbn [api_exec] in E |- *.
    - destruct (then_ret_inv _ _ _ _ _ _ E) as [[Ha X]|[e [Y _]]]; [|discriminate]. unfold render_workflow_output in X.
      match type of X with bind _ ?k _ = _ => destruct (on_fresh _ k) as [[cx [e [_ Z]]]|[cx [_ [I Z]]]] end.
      + rewrite Z in X. discriminate.
      + exists cx. split; [exact I|]. rewrite Z in X. unfold render_workflow_output. unfold bind at 1. rewrite X. rewrite Ha. reflexivity.
    - destruct (then_ret_inv _ _ _ _ _ _ E) as [[Ha X]|[e [Y _]]]; [|discriminate]. unfold persist in X.
      match type of X with bind _ ?k _ = _ => destruct (on_fresh _ k) as [[cx [e [_ Z]]]|[cx [_ [I Z]]]] end.
      + rewrite Z in X. discriminate.
      + exists cx. split; [exact I|]. rewrite Z in X. unfold persist. unfold bind at 1. rewrite X. rewrite Ha. reflexivity. }
  destruct Hc0 as [c0 [I E0]]. pose proof I as (_ & _ & I3 & _).
  destruct Hop as [-> | ->]; cbn [api_exec] in E0.
  - destruct (then_ret_inv _ _ _ _ _ _ E0) as [[_ X]|[e [Y _]]]; [|discriminate].
    eapply cinv_Rlt; [exact I|]. eapply vlt_render_workflow_output; [exact I3|exact X].
  - destruct (then_ret_inv _ _ _ _ _ _ E0) as [[_ X]|[e [Y _]]]; [|discriminate].
    rewrite (persist_identity ev c0 I3) in X. inversion X; subst. exact I.
Qed.

Theorem sys_step_inv : forall s op, sys_inv s -> sys_inv (sys_step ev s op).
Proof.
  intros s op Hs. destruct op; cbn [sys_step].
  - apply sys_request_inv; exact Hs.
  - apply sys_poll_inv; exact Hs.
  - apply sys_report_inv; exact Hs.
  - apply sys_request_inv; exact Hs.
  - apply sys_call_inv; [left; reflexivity|exact Hs].
  - apply sys_call_inv; [right; reflexivity|exact Hs].
Qed.

Theorem sys_run_inv : forall ops s, sys_inv s -> sys_inv (sys_run ev ops s).
Proof.
  induction ops as [|op ops IH]; intros s Hs; [exact Hs|]. simpl. apply IH. apply sys_step_inv; exact Hs.
Qed.

Lemma sys_init_inv : sys_inv (sys_init sp g inputs parent).
Proof. intros _. left. split; reflexivity. Qed.

Theorem sys_reachable_inv : forall ops, sys_inv (sys_run ev ops (sys_init sp g inputs parent)).
Proof. intro ops. apply sys_run_inv. apply sys_init_inv. Qed.


(* ---- paused only after a pause request ---- *)

Definition pause_request (op : sys_op) : bool :=
  match op with Request st => status_in st [S_PAUSING; S_PAUSED] | _ => false end.

Definition not_pausing (c : cstate) : Prop := ~ In (wstatus (c_ws c)) [S_PAUSING; S_PAUSED].
Definition sys_np (s : sys) : Prop := s_fault s = false -> not_pausing (s_c s).

Lemma cinv_npause : forall c F, cinv c F -> not_pausing c -> npause c.
Proof. intros c F (_ & _ & _ & _ & _ & _ & K & _) H. split; [exact (proj1 K)|exact H]. Qed.

Lemma not_pausing_Rlt : forall c c1, Rlt c c1 -> not_pausing c -> not_pausing c1.
Proof.
  intros c c1 [_ [_ [_ [_ [_ [W _]]]]]] H. unfold not_pausing. destruct W as [E|E]; rewrite E; [exact H|simpl; intuition discriminate].
Qed.

Lemma step_request_core_np : forall c F st c' r, cinv c F -> status_in st request_statuses = true ->
  status_in st [S_PAUSING; S_PAUSED] = false -> request_status_core st c = (c', r) -> not_pausing c -> not_pausing c'.
Proof.
  intros c F st c' r I Hst Hnps H Hnp. pose proof I as (I1 & I2 & I3 & I4 & I5 & I6 & I7 & _).
  destruct r as [[]|e].
  2: { assert (Hrow : workflow_status_has_row c).
       { apply lifecycle_status_has_row. apply sys_statuses_lifecycle. exact (proj1 I7). }
       rewrite (rejected_core_is_inert _ _ _ _ Hrow H). exact Hnp. }
  destruct (request_eff _ _ _ I4 I5 (request_statuses_vocab _ Hst) H) as [n [W [_ [_ [_ Hn]]]]].
  unfold not_pausing. rewrite W. simpl. destruct Hn as [-> | ->]; [simpl; intuition discriminate|].
  rewrite wf_workflow_event_name_eq. apply F_np_request; [exact (proj1 I7)|exact Hnp|].
  apply status_in_In in Hst. simpl in Hst. simpl.
  destruct Hst as [E|[E|[E|[E|[E|[E|[E|[]]]]]]]]; subst st; try discriminate Hnps; tauto.
Qed.

Lemma sys_step_np : forall s op, pause_request op = false -> sys_inv s -> sys_np s -> sys_np (sys_step ev s op).
Proof.
  intros s op Hop Hs Hnp.
  assert (Fresh : forall c, c = init_cstate sp g inputs parent -> not_pausing c).
  { intros c ->. unfold not_pausing. simpl. intuition discriminate. }
  assert (ReqCase : forall st, status_in st [S_PAUSING; S_PAUSED] = false -> sys_np (sys_request ev s st)).
  { intros st Hps. unfold sys_request. destruct (status_in st request_statuses) eqn:Est; [|exact Hnp].
    destruct (api_exec ev (OpRequest st) (s_c s)) as [c' x] eqn:E. intro Hf. simpl in Hf. simpl.
    apply orb_false_l_r in Hf. destruct Hf as [Hf1 Hf2]. cbn [api_exec] in E.
    assert (E' : exists y, request_workflow_status ev st (s_c s) = (c', y)).
    { destruct (then_ret_inv _ _ _ _ _ _ E) as [[_ X]|[e [_ X]]]; eexists; exact X. }
    destruct E' as [y E']. unfold request_workflow_status in E'.
    destruct (Hs Hf1) as [[Hc HF]|I].
    - rewrite Hc in Hf2, E'.
      destruct (on_fresh _ (fun _ => request_status_core st)) as [[c1 [e [X _]]]|[c1 [X [I Y]]]]; [rewrite X in Hf2; discriminate|].
      rewrite Y in E'. unfold bind in E'. pose proof I as (_ & _ & I3 & _ & _ & _ & _ & I8 & _).
      rewrite (ensure_ws_inited ev c1 I3) in E'.
      eapply step_request_core_np; [exact I|exact Est|exact Hps|exact E'|].
      (* the created state is unset or failed *)
      destruct (ensure_fresh ev (init_cstate sp g inputs parent) c1 eq_refl eq_refl X) as [_ [_ [_ [_ [_ [[W _]|[W _]]]]]]];
        unfold not_pausing; rewrite W; simpl; intuition discriminate.
    - pose proof I as (_ & _ & I3 & _). unfold bind in E'. rewrite (ensure_ws_inited ev _ I3) in E'.
      eapply step_request_core_np; [exact I|exact Est|exact Hps|exact E'|exact (Hnp Hf1)]. }
  destruct op; cbn [sys_step]; cbn [pause_request] in Hop.
  - apply ReqCase. reflexivity.
  - (* Poll *)
    unfold sys_poll. destruct (get_next_tasks ev (s_c s)) as [c1 [offers|e]] eqn:E; [|intro X; discriminate X].
    intro Hf.
    assert (Hf0 : s_fault s = false).
    { destruct (s_fault s) eqn:Ef; [|reflexivity]. rewrite sys_ack_fault in Hf; [discriminate|reflexivity]. }
    assert (Hc0 : exists c0, cinv c0 (s_inflight s) /\ get_next_tasks ev c0 = (c1, Val offers) /\ not_pausing c0).
    { destruct (Hs Hf0) as [[Hc HF]|I]; [|exists (s_c s); split; [exact I|split; [exact E|exact (Hnp Hf0)]]].
      rewrite HF. rewrite Hc in E. unfold get_next_tasks in E.
      match type of E with bind _ ?k _ = _ => destruct (on_fresh _ k) as [[cx [e [_ X]]]|[cx [X0 [I Y]]]] end; [rewrite X in E; discriminate|].
      exists cx. split; [exact I|]. split; [rewrite Y in E; exact E|].
      destruct (ensure_fresh ev (init_cstate sp g inputs parent) cx eq_refl eq_refl X0) as [_ [_ [_ [_ [_ [[W _]|[W _]]]]]]];
        unfold not_pausing; rewrite W; simpl; intuition discriminate. }
    destruct Hc0 as [c0 [I0 [E0 Hnp0]]]. pose proof I0 as (I1 & I2 & I3 & I4 & I5 & I6 & I7 & I8 & I9 & I10 & I11).
    assert (Hn' : no_items (c_spec c0) = true) by (rewrite I1; exact Hni).
    destruct (get_next_eff ev _ _ _ I3 Hn' E0) as [L [Hne Hnil]].
    pose proof (cinv_Rlt _ _ _ I0 L) as I1'.
    destruct offers as [|o offers'].
    { simpl. apply (not_pausing_Rlt _ _ L Hnp0). }
    assert (Hloop : In (wstatus (c_ws (s_c (fold_left (sys_ack ev) (map offer_key (o :: offers'))
                      {| s_c := c1; s_inflight := s_inflight s; s_fault := s_fault s |})))) [S_RUNNING; S_RESUMING; S_FAILED]).
    { apply sys_ack_loop; [|exact Hf|discriminate]. intros _. simpl.
      split; [exact I1'|].
      assert (X : o :: offers' <> []) by discriminate. destruct (Hne X) as [-> Hst].
      split.
      { intros _. destruct I7 as [K1 _]. destruct Hst as [Hst|Hst]; [|rewrite Hst; simpl; auto].
        cbv [In sys_wf_statuses S_RUNNING S_RESUMING S_PAUSING S_PAUSED S_CANCELING S_CANCELED S_SUCCEEDED S_FAILED S_UNSET] in *.
        destruct K1 as [K|[K|[K|[K|[K|[K|[K|[K|[K|[]]]]]]]]]]; rewrite <- K in *; try discriminate Hst; auto. }
      intros k Hk. change (In k (map offer_key (o :: offers'))) in Hk.
      apply in_map_iff in Hk. destruct Hk as [o' [<- Ho']].
      destruct (offers_are_staged ev _ _ _ I3 E0 _ Ho') as [s0 [Hin [Hr [Hc [Hid Hrt]]]]].
      unfold offer_key. simpl. rewrite Hid, Hrt. split; [apply (ncmd_zero _ I6 _ Hin)|]. left.
      unfold get_staged_task. apply (find_exists _ _ _ s0 Hin). unfold stg_matches. rewrite String.eqb_refl, Nat.eqb_refl. reflexivity. }
    unfold not_pausing. simpl in Hloop. simpl. intro X. simpl in X.
    destruct Hloop as [Y|[Y|[Y|[]]]]; rewrite <- Y in X; intuition discriminate.
  - (* Report *)
    unfold sys_report. destruct (akey_in (t, route) (s_inflight s) && status_in st report_statuses) eqn:Ep; [|exact Hnp].
    apply andb_prop in Ep. destruct Ep as [Ep1 Ep2]. apply akey_in_iff in Ep1. apply status_in_In in Ep2.
    destruct (api_exec ev (OpEvent t route (EvAction st result)) (s_c s)) as [c' x] eqn:E. intro Hf. simpl in Hf. simpl.
    apply orb_false_l_r in Hf. destruct Hf as [Hf1 Hf2].
    destruct (Hs Hf1) as [[_ HF]|I]; [rewrite HF in Ep1; destruct Ep1|].
    cbn [api_exec] in E. destruct (then_ret_inv _ _ _ _ _ _ E) as [[_ X]|[e [X _]]]; [|rewrite X in Hf2; discriminate].
    pose proof I as (I1 & I2 & I3 & I4 & I5 & I6 & I7 & I8 & I9 & I10 & I11).
    assert (Hps : pstat (s_c s) (t, route) = Some (Some S_RUNNING)) by (apply I9; exact Ep1).
    assert (Hact : act (s_c s)) by (exists (t, route), S_RUNNING; split; [exact Hps|reflexivity]).
    unfold update_task_state in X. rewrite uts_unfold in X.
    assert (Hn' : no_items (c_spec (s_c s)) = true) by (rewrite I1; exact Hni).
    assert (Hg' : graph_commands_inert (c_graph (s_c s))) by (rewrite I2; exact Hinert).
    assert (Hh' : queue_hnt_prop ev (c_graph (s_c s))) by (rewrite I2; exact Hhnt).
    destruct (report_call ev 1 t route st result (s_c s) c' I4 I3 Hn' Hg' Hh' Hps (I11 _ Ep1) Ep2
                (cinv_cmd_nonactive _ _ I) (cinv_act_krun _ _ I Hact) X) as [_ [_ [_ [_ [_ [_ [_ NP]]]]]]].
    apply (NP I5 (cinv_npause _ _ I (Hnp Hf1))).
  - apply ReqCase. exact Hop.
  - (* Render *)
    unfold sys_call. destruct (api_exec ev OpRender (s_c s)) as [c' x] eqn:E. intro Hf. simpl in Hf. simpl.
    apply orb_false_l_r in Hf. destruct Hf as [Hf1 Hf2]. destruct x as [a|e]; [|discriminate Hf2].
    cbn [api_exec] in E. destruct (then_ret_inv _ _ _ _ _ _ E) as [[_ X]|[e [Y _]]]; [|discriminate].
    destruct (Hs Hf1) as [[Hc HF]|I].
    + rewrite Hc in X. unfold render_workflow_output in X.
      match type of X with bind _ ?k _ = _ => destruct (on_fresh _ k) as [[cx [e [_ Z]]]|[cx [Z0 [I Z]]]] end; [rewrite Z in X; discriminate|].
      rewrite Z in X. pose proof I as (_ & _ & I3 & _).
      assert (X' : render_workflow_output ev cx = (c', Val tt)) by (unfold render_workflow_output; exact X).
      apply (not_pausing_Rlt cx c' (vlt_render_workflow_output ev cx I3 _ _ X')).
      destruct (ensure_fresh ev (init_cstate sp g inputs parent) cx eq_refl eq_refl Z0) as [_ [_ [_ [_ [_ [[W _]|[W _]]]]]]];
        unfold not_pausing; rewrite W; simpl; intuition discriminate.
    + pose proof I as (_ & _ & I3 & _). apply (not_pausing_Rlt _ _ (vlt_render_workflow_output ev _ I3 _ _ X)). exact (Hnp Hf1).
  - (* Persist *)
    unfold sys_call. destruct (api_exec ev OpPersist (s_c s)) as [c' x] eqn:E. intro Hf. simpl in Hf. simpl.
    apply orb_false_l_r in Hf. destruct Hf as [Hf1 Hf2]. destruct x as [a|e]; [|discriminate Hf2].
    cbn [api_exec] in E. destruct (then_ret_inv _ _ _ _ _ _ E) as [[_ X]|[e [Y _]]]; [|discriminate].
    destruct (Hs Hf1) as [[Hc HF]|I].
    + rewrite Hc in X. unfold persist in X.
      match type of X with bind _ ?k _ = _ => destruct (on_fresh _ k) as [[cx [e [_ Z]]]|[cx [Z0 [I Z]]]] end; [rewrite Z in X; discriminate|].
      rewrite Z in X. pose proof I as (_ & _ & I3 & _).
      assert (X' : persist ev cx = (c', Val tt)) by (unfold persist; exact X).
      rewrite (persist_identity ev cx I3) in X'. inversion X'; subst c'.
      destruct (ensure_fresh ev (init_cstate sp g inputs parent) cx eq_refl eq_refl Z0) as [_ [_ [_ [_ [_ [[W _]|[W _]]]]]]];
        unfold not_pausing; rewrite W; simpl; intuition discriminate.
    + pose proof I as (_ & _ & I3 & _). rewrite (persist_identity ev _ I3) in X. inversion X; subst c'. exact (Hnp Hf1).
Qed.

Theorem sys_run_np : forall ops s, forallb (fun op => negb (pause_request op)) ops = true ->
  sys_inv s -> sys_np s -> sys_np (sys_run ev ops s).
Proof.
  induction ops as [|op ops IH]; intros s Hops Hs Hnp; [exact Hnp|]. simpl in Hops. apply andb_prop in Hops. destruct Hops as [H1 H2].
  simpl. apply IH; [exact H2|apply sys_step_inv; exact Hs|]. apply sys_step_np; [apply negb_true_iff; exact H1|exact Hs|exact Hnp].
Qed.

Theorem sys_reachable_np : forall ops, forallb (fun op => negb (pause_request op)) ops = true ->
  sys_np (sys_run ev ops (sys_init sp g inputs parent)).
Proof.
  intros ops H. apply sys_run_np; [exact H|apply sys_init_inv|]. intros _. unfold not_pausing. simpl. intuition discriminate.
Qed.

End System.
