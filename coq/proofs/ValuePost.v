(* ValuePost.v -- postconditions on the value a monadic computation returns (when it returns). *)
From Coq Require Import String List Bool ZArith Arith Lia.
From Orq Require Import GenStatuses GenEvents GenTables GenSpecMeta Base State Machines Codec Conductor.
From Orq Require Import Hoare.
Import ListNotations.
Open Scope monad_scope.

Definition vpost {A} (P : A -> Prop) (m : M A) : Prop := forall c c' a, m c = (c', Val a) -> P a.

Lemma vpost_ret : forall A (P : A -> Prop) a, P a -> vpost P (ret a).
Proof. intros A P a H c c' a' E; inversion E; subst; exact H. Qed.
Lemma vpost_raise : forall A (P : A -> Prop) e, vpost P (raise e).
Proof. intros A P e c c' a E; inversion E. Qed.
Lemma vpost_bind : forall A B (P : B -> Prop) (m : M A) (f : A -> M B),
  (forall a, vpost P (f a)) -> vpost P (bind m f).
Proof.
  intros A B P m f Hf c c' b E. unfold bind in E. destruct (m c) as [c1 [a|e]]; [eapply Hf; exact E|inversion E].
Qed.
Lemma vpost_bind_strong : forall A B (Q : A -> Prop) (P : B -> Prop) (m : M A) (f : A -> M B),
  vpost Q m -> (forall a, Q a -> vpost P (f a)) -> vpost P (bind m f).
Proof.
  intros A B Q P m f Hm Hf c c' b E. unfold bind in E. destruct (m c) as [c1 [a|e]] eqn:Em; [|inversion E].
  eapply Hf; [eapply Hm; exact Em|exact E].
Qed.
Lemma vpost_try_catch : forall A (P : A -> Prop) (m : M A) h,
  vpost P m -> (forall e, vpost P (h e)) -> vpost P (try_catch m h).
Proof.
  intros A P m h Hm Hh c c' a E. unfold try_catch in E. destruct (m c) as [c1 [a1|e]] eqn:Em.
  - inversion E; subst. eapply Hm; exact Em.
  - eapply Hh; exact E.
Qed.
Lemma vpost_weaken : forall A (P Q : A -> Prop) m, (forall a, P a -> Q a) -> vpost P m -> vpost Q m.
Proof. intros A P Q m H Hm c c' a E; apply H; eapply Hm; exact E. Qed.

(* mapM relates inputs and outputs element-wise *)
Lemma vpost_mapM : forall A B (R : A -> B -> Prop) (f : A -> M B) l,
  (forall a, vpost (R a) (f a)) -> vpost (Forall2 R l) (mapM f l).
Proof.
  intros A B R f l Hf; induction l as [|x l IH]; simpl.
  - apply vpost_ret; constructor.
  - apply (vpost_bind_strong _ _ (R x)); [apply Hf|intros y Hy].
    apply (vpost_bind_strong _ _ (Forall2 R l)); [exact IH|intros ys Hys].
    apply vpost_ret; constructor; assumption.
Qed.

(* walk for value posts: binds are skipped (the value comes from the continuation), returns are left to [fin] *)
Ltac vw fin :=
  lazymatch goal with
  | |- vpost _ (ret _) => apply vpost_ret; fin
  | |- vpost _ (raise _) => apply vpost_raise
  | |- vpost _ (bind _ _) => apply vpost_bind; intro; vw fin
  | |- vpost _ (try_catch _ _) => apply vpost_try_catch; [ vw fin | intro; vw fin ]
  | |- vpost _ (match ?x with _ => _ end) => destruct x; vw fin
  | |- vpost _ ?m =>
      first [ let h := head_of m in progress (unfold h); vw fin
            | progress (cbv beta); vw fin
            | idtac ]
  end.

(* insertion sort only permutes *)
Lemma In_insert_sorted : forall A (leb : A -> A -> bool) x y l, In x (insert_sorted leb y l) -> x = y \/ In x l.
Proof.
  intros A leb x y l; induction l as [|z l IH]; simpl; intro H.
  - destruct H as [H|[]]; auto.
  - destruct (leb z y); simpl in H.
    + destruct H as [H|H]; [right; left; exact H|]. destruct (IH H) as [E|E]; auto.
    + destruct H as [H|[H|H]]; auto.
Qed.

Lemma In_sort_by : forall A (leb : A -> A -> bool) x l, In x (sort_by leb l) -> In x l.
Proof.
  intros A leb x l. unfold sort_by.
  assert (G : forall acc, In x (fold_left (fun acc y => insert_sorted leb y acc) l acc) -> In x acc \/ In x l).
  { induction l as [|y l IH]; simpl; intros acc H; [left; exact H|].
    destruct (IH _ H) as [E|E]; [|right; right; exact E].
    destruct (In_insert_sorted _ _ _ _ _ E) as [E1|E1]; [right; left; symmetry; exact E1|left; exact E1]. }
  intro H; destruct (G [] H) as [[]|E]; exact E.
Qed.
