(* C01 -- Every task execution is justified by the definition, exactly once.
   Property theorems only (proofs/OffersProofs.v, proofs/C18Proofs.v). *)
From Coq Require Import String List Bool.
From Orq Require Import GenStatuses Base State Machines Conductor Api OffersProofs C18Proofs.
Import ListNotations.

(* [F] the conductor asks the provider to run a task only from staging: every offer returned by
   get_next_tasks, for every evaluator and every initialised state, is the (id, route) of a staged
   entry that is ready and not flagged completed in the state the call was made in *)
Theorem C01_offers_are_staged : forall ev c c' l, c_init c = true -> get_next_tasks ev c = (c', Val l) ->
  forall o, In o l -> exists s, In s (staged (c_ws c)) /\ s_ready s = true /\ s_completed s = false /\
                                o_id o = s_id s /\ o_route o = s_route s.
Proof. exact offers_are_staged. Qed.
Print Assumptions C01_offers_are_staged.

(* [P] the record of an execution keeps the predecessors (prev) and contexts it was started with for
   ever (C18), so the justification of an execution recorded when it started cannot be rewritten *)
Theorem C01_justification_is_permanent : forall ev ops c,
  forallb (fun op => negb (is_persist op)) ops = true -> R18 c (run_ops ev ops c).
Proof. exact history_append_only. Qed.
Print Assumptions C01_justification_is_permanent.

(* NOT PROVED (tested by monitor c01 against an independent reading of the definition): staged entries
   are created only for roots, satisfied transitions, retries and reruns; each satisfied transition
   into a non-join task yields exactly one execution; on success the executed multiset is exactly the
   one the definition prescribes. *)
