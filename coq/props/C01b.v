(* C01b -- C01, first half: the conductor asks the provider to run a task only if it is a start task
   or a completed predecessor's transition to it had its condition evaluate true.  Property theorems
   only; proofs are in proofs/JustifiedProofs.v.

   [Justified g c] (unfolded by C01b_justified_unfold): the graph of c is g; the pointer map names
   records of the right task; a record that is not completed has decided no transition; and every
   staged entry s and every record r carries a predecessor list in which every reference
   ((src, k), j) is a [witness]: record j exists, is a record of task src, is completed, has the
   transition (target, k) recorded TRUE in its r_next, and the graph has the edge src -> target with
   key k; an empty predecessor list occurs only for a start task (no inbound edge).  Engine commands
   are covered by the same statement: they are staged and recorded like tasks. *)
From Coq Require Import String List Bool.
From Orq Require Import GenStatuses GenEvents Base State Machines Conductor Api RetryProofs FrozenProofs JustifiedProofs.
Import ListNotations.
Open Scope string_scope.

Theorem C01b_justified_unfold : forall g c,
  Justified g c <->
  (c_graph c = g /\ ptr_ok (c_ws c) /\ open_ok (sequence (c_ws c)) /\
   (forall s, In s (staged (c_ws c)) -> jprev g (sequence (c_ws c)) (s_id s) (s_prev s)) /\
   (forall j r, nth_error (sequence (c_ws c)) j = Some r -> jprev g (sequence (c_ws c)) (r_id r) (r_prev r))).
Proof. exact justified_unfold. Qed.
Print Assumptions C01b_justified_unfold.

Theorem C01b_witness_unfold : forall g sq dst p,
  witness g sq dst p <->
  exists r', nth_error sq (snd p) = Some r' /\ r_id r' = fst (fst p) /\ decided r' /\
             aget trid_eqb (dst, snd (fst p)) (r_next r') = Some true /\
             exists e, In e (g_edges g) /\ e_src e = fst (fst p) /\ e_dst e = dst /\ e_key e = snd (fst p).
Proof. exact witness_unfold. Qed.
Print Assumptions C01b_witness_unfold.

(* [F] the state of a fresh conductor is justified *)
Theorem C01b_fresh_justified : forall sp g inputs parent, Justified g (fresh_state sp g inputs parent).
Proof. exact fresh_justified. Qed.
Print Assumptions C01b_fresh_justified.

(* [F] every API operation preserves the invariant -- every evaluator; status requests, polls,
   rendering, RERUNS (a rerun stages the task again, and gives it a new record, with the predecessor
   list of the record being rerun: the original justification) and persists need no hypothesis; an
   event must be [call_ok] in the state it is delivered in (unfolded below).  Also for calls that
   raise.  The graph hypothesis: the outgoing transitions of a task have distinct (target, key) ids
   (true of every composed graph; without it the invariant is false, last example). *)
Theorem C01b_api_justified : forall g ev, out_tids_unique g ->
  forall op c c' res, op_in_protocol ev c op -> api_exec ev op c = (c', res) ->
  Justified g c -> Justified g c'.
Proof. exact api_justified. Qed.
Print Assumptions C01b_api_justified.

Theorem C01b_history_justified : forall g ev, out_tids_unique g ->
  forall ops c, hist_in_protocol ev ops c -> Justified g c -> Justified g (run_ops ev ops c).
Proof. exact history_justified. Qed.
Print Assumptions C01b_history_justified.

(* [F] from a fresh conductor: every reachable state is justified, and every offer of
   get_next_tasks in it is a staged entry whose predecessor list is justified in that sense *)
Theorem C01b_reachable_justified : forall ev sp g inputs parent ops, out_tids_unique g ->
  hist_in_protocol ev ops (fresh_state sp g inputs parent) ->
  Justified g (run_ops ev ops (fresh_state sp g inputs parent)).
Proof. exact reachable_justified. Qed.
Print Assumptions C01b_reachable_justified.

Theorem C01b_reachable_offers_justified : forall ev sp g inputs parent ops c' l, out_tids_unique g ->
  hist_in_protocol ev ops (fresh_state sp g inputs parent) ->
  c_init (run_ops ev ops (fresh_state sp g inputs parent)) = true ->
  get_next_tasks ev (run_ops ev ops (fresh_state sp g inputs parent)) = (c', Val l) ->
  forall o, In o l ->
    exists s, In s (staged (c_ws (run_ops ev ops (fresh_state sp g inputs parent)))) /\
              o_id o = s_id s /\ o_route o = s_route s /\ s_ready s = true /\ s_completed s = false /\
              jprev g (sequence (c_ws (run_ops ev ops (fresh_state sp g inputs parent)))) (o_id o) (s_prev s).
Proof. exact reachable_offers_justified. Qed.
Print Assumptions C01b_reachable_offers_justified.

(* the per-event hypothesis: the task is an engine command; or (after the lazy creation of the
   workflow state) the record the (task, route) pointer names has decided no transition; or, on an
   initialised conductor, IF that record is completed and has decided transitions THEN the event is
   a new start of the task (staged again, not flagged completed) or is not the internal retry event
   and finds no retry left.  Every event of the reference provider qualifies (a report addresses a
   record that is still active, hence has decided nothing). *)
Theorem C01b_call_ok_unfold : forall ev c t route evt,
  call_ok ev c t route evt <->
  (is_engine_command t = true \/
   (forall c1 u i r, ensure_ws ev c = (c1, u) -> ws_task_idx (c_ws c1) t route = Some i ->
      nth_error (sequence (c_ws c1)) i = Some r -> r_next r = []) \/
   (c_init c = true /\
    forall i r, ws_task_idx (c_ws c) t route = Some i -> nth_error (sequence (c_ws c)) i = Some r ->
      decided r -> r_next r <> [] ->
      (status_in (ev_status evt) STARTING_STATUSES = true /\
       exists s, get_staged_task (c_ws c) t route = Some s /\ s_completed s = false) \/
      (is_retry_event evt = false /\ ~ retry_open r))).
Proof. exact call_ok_unfold. Qed.
Print Assumptions C01b_call_ok_unfold.

(* [F] the usual case: on a justified, initialised state an event whose (task, route) pointer names no
   record, or a record that is not completed, is call_ok *)
Theorem C01b_call_ok_open_target : forall ev g c t route evt, c_init c = true -> Justified g c ->
  (forall i r, ws_task_idx (c_ws c) t route = Some i -> nth_error (sequence (c_ws c)) i = Some r -> ~ decided r) ->
  call_ok ev c t route evt.
Proof. exact call_ok_open_target. Qed.
Print Assumptions C01b_call_ok_open_target.

(* [F] D33 (the retry of a completed task is evaluated only when the report changed its status): the protocol clause
   no longer needs "no retry left".  From a fresh conductor, every state reached by API calls among which nobody
   injects the engine's internal retry event is justified -- late, duplicate and malformed reports, reruns and
   persists included *)
Theorem C01b_reachable_justified_always : forall ev sp g inputs parent ops, out_tids_unique g ->
  forallb op_no_retry ops = true -> Justified g (run_ops ev ops (fresh_state sp g inputs parent)).
Proof. exact reachable_justified_always. Qed.
Print Assumptions C01b_reachable_justified_always.

(* [F] one call, general form (call_ok_w: as call_ok, without the demand on the retries left) *)
Theorem C01b_api_justified_always : forall g ev, out_tids_unique g ->
  forall op c c' res, op_in_protocol_w ev c op -> api_exec ev op c = (c', res) ->
  Justified g c -> Justified g c'.
Proof. exact api_justified_w. Qed.
Print Assumptions C01b_api_justified_always.
Theorem C01b_call_ok_w_unfold : forall ev c t route evt,
  call_ok_w ev c t route evt <->
  (is_engine_command t = true \/
   (forall c1 u i r, ensure_ws ev c = (c1, u) -> ws_task_idx (c_ws c1) t route = Some i ->
      nth_error (sequence (c_ws c1)) i = Some r -> r_next r = []) \/
   (c_init c = true /\
    forall i r, ws_task_idx (c_ws c) t route = Some i -> nth_error (sequence (c_ws c)) i = Some r ->
      decided r -> r_next r <> [] ->
      (status_in (ev_status evt) STARTING_STATUSES = true /\
       exists s, get_staged_task (c_ws c) t route = Some s /\ s_completed s = false) \/
      is_retry_event evt = false)).
Proof. exact call_ok_w_unfold. Qed.
Print Assumptions C01b_call_ok_w_unfold.

(* The former refutation [R] of dropping the hypothesis on events is gone with the engine fix D33 (the retry of a
   completed task is evaluated only when the report changed its status).  Before the fix the duplicate completion
   report of C18b reopened a decided record with retries left and rewrote its decision to false, leaving t2 staged
   with a reference to a transition recorded false.  Same definition and operation list (as
   C18b_decided_record_kept_with_retries_left) now: the report is absorbed and the invariant holds of the result,
   although the history is outside the hypothesis (call_ok). *)
Theorem C01b_justified_kept_by_duplicate_report :
  Justified (w_graph w_retry)
      (run_ops ev_w (w_ops1 ++ w_late :: w_ops3) (fresh_state w_spec (w_graph w_retry) [] [])).
Proof. exact justified_kept_by_duplicate_report. Qed.
Print Assumptions C01b_justified_kept_by_duplicate_report.

(* ---- "recorded satisfied" = "the condition evaluated true" ---- *)

(* process_transition is: evaluate the criteria and record the decision (pt_step1), then act on
   the decision (pt_cont) *)
Theorem C01b_transition_two_steps : forall ev t route idx ts ctx e,
  process_transition ev t route idx ts ctx e = bind (pt_step1 ev t route idx ctx e) (pt_cont ev t route idx ts ctx e).
Proof. exact pt_eq. Qed.
Print Assumptions C01b_transition_two_steps.

(* [F] the value recorded for the transition is exactly the conjunction of the truthiness of the
   edge's criteria, each evaluated -- without error -- by the evaluator on the context handed to
   process_transition *)
Theorem C01b_decision_recorded_is_criteria : forall ev t route idx ctx e c c1 b,
  pt_step1 ev t route idx ctx e c = (c1, Val (Some b)) ->
  exists vs, mapM (fun cr => evaluate ev cr ctx) (e_criteria e) c = (c, Val vs) /\ b = forallb truthy vs /\
    forall r, nth_error (sequence (c_ws c)) idx = Some r ->
      nth_error (sequence (c_ws c1)) idx = Some (r_set_next r (aset trid_eqb (e_dst e, e_key e) b (r_next r))).
Proof. exact decision_recorded_is_criteria. Qed.
Print Assumptions C01b_decision_recorded_is_criteria.

(* [F] and nothing is staged for it unless that value is true *)
Theorem C01b_no_reference_unless_true : forall ev t route idx ts ctx e ok, ok <> Some true ->
  pt_cont ev t route idx ts ctx e ok = ret (None, None).
Proof. exact no_reference_unless_true. Qed.
Print Assumptions C01b_no_reference_unless_true.

(* [F] that context is the one the completion step of update_task_state builds: the inbound
   context of the completed record, __current_task = {id, route, result reported by the event},
   __state = the serialized workflow state of that moment (holding the record's actual status) *)
Theorem C01b_completion_ctx_shape : forall ev t route evt ts idx new old c c' cx b,
  uts_completion ev t route evt ts idx new old c = (c', Val (Some (cx, b))) ->
  exists c1 r in_ctx result,
    nth_error (sequence (c_ws c1)) idx = Some r /\
    get_task_context (r_in r) c1 = (c1, Val in_ctx) /\
    result = (if negb (task_has_items ts) then ev_result evt
              else match evt with
                   | EvItem _ _ _ acc => if truthy acc then acc else JList []
                   | _ => if truthy (ev_result evt) then ev_result evt else JList []
                   end) /\
    cx = merge_dicts (dset "__current_task" (current_task_json (r_id r) (r_route r) (Some result)) in_ctx)
                     (state_ctx (c_ws c1)).
Proof. exact completion_ctx_shape. Qed.
Print Assumptions C01b_completion_ctx_shape.

(* [F] no other API operation writes a decision: outside update_task_state the r_next (and r_out)
   of every record is left as it is (inside it, only process_transition writes them:
   FrozenProofs.pno_prefix and the retry theorems of C18b) *)
Theorem C01b_next_untouched_outside_update_task_state : forall ev op,
  match op with OpEvent _ _ _ => False | _ => True end -> Hoare.preserves Rnx (api_exec ev op).
Proof. exact next_untouched_outside_update_task_state. Qed.
Print Assumptions C01b_next_untouched_outside_update_task_state.

(* ---- non-vacuity ---- *)

Example C01b_w_protocol_history_justified :
  Justified (w_graph w_retry) (run_ops ev_w w_ops1 (fresh_state w_spec (w_graph w_retry) [] [])).
Proof. exact w_protocol_history_justified. Qed.

Example C01b_w_protocol_history_offers_t2 :
  match get_next_tasks ev_w (run_ops ev_w w_ops1 (fresh_state w_spec (w_graph w_retry) [] [])) with
  | (_, Val l) => map o_id l
  | _ => []
  end = ["t2"].
Proof. exact w_protocol_history_offers_t2. Qed.

Example C01b_w_graph_tids_unique : out_tids_unique (w_graph w_retry).
Proof. exact w_graph_tids_unique. Qed.

(* the graph hypothesis is needed: two parallel edges with the same key (not producible by the
   composer) let the second decision overwrite the first after the target was staged *)
Example C01b_justified_needs_unique_transition_ids :
  ~ Justified w_graph_dup (run_ops ev_w w_ops1 (fresh_state w_spec w_graph_dup [] [])).
Proof. exact justified_needs_unique_transition_ids. Qed.
