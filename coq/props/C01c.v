(* C01c -- C01, second sentence, the staging half: "each such satisfied transition into a non-join task yields exactly
   one execution of the target ... nothing spurious, nothing duplicated, nothing lost".
   Property theorems only (proofs/OnceProofs.v).  What is proved, per step, for every evaluator and state:
   - one followed transition stages its target under exactly one key (target, route) and appends ONE staged entry if and
     only if no entry with that key is staged; otherwise it updates the entry that is there;
   - a staged entry becomes exactly one record at the first event for it (add_task_state), later events create none;
   - an engine command queued by a transition gets exactly one record of its own, always.
   What is REFUTED: "exactly one execution per satisfied transition".  Two satisfied transitions into a non-join task
   are merged into one staged entry -- one execution -- whenever they reach the same (task, route) before the first
   staging is consumed; two reachable situations, replayed on the engine (examples at the end). *)
From Coq Require Import String List Bool ZArith.
From Orq Require Import GenStatuses GenEvents GenTables Base State Machines Conductor Api F_tables
  RetryProofs NoInternalProofs OnceProofs.
Import ListNotations.
Open Scope string_scope.

(* [F] ONE followed transition and the staged list, exactly.  Either nothing is staged and the staged list is untouched
   (the condition is false or failed to evaluate, or the publish failed), or the target is staged under the route nr
   that evaluate_route answers -- the task's own route, or the route opened by this step (a split target outside cycles
   reached by a transition the route does not carry yet) -- and the list of staged KEYS is the old one with
   (target, nr) appended if and only if no entry with that key was staged; an engine command is also returned for the
   queue.  (Holds for join targets too; a join is MEANT to be merged.) *)
Theorem C01c_transition_stages_once : forall ev t route idx ts ctx e c c' v,
  process_transition ev t route idx ts ctx e c = (c', Val v) ->
  (staged (c_ws c') = staged (c_ws c) /\ v = (None, None)) \/
  exists nr,
    (nr = route \/ nr = length (routes (c_ws c))) /\
    map skey (staged (c_ws c')) =
      (if existsb (stg_matches (e_dst e) nr) (staged (c_ws c)) then map skey (staged (c_ws c))
       else app (map skey (staged (c_ws c))) [(e_dst e, nr)]) /\
    get_staged_task (c_ws c') (e_dst e) nr <> None /\
    (is_engine_command (e_dst e) = true -> v = (Some (e_dst e, nr), None)) /\
    (is_engine_command (e_dst e) = false -> fst v = None).
Proof. exact pt_staging_keys. Qed.
Print Assumptions C01c_transition_stages_once.
Theorem C01c_skey_unfold : forall s, skey s = (s_id s, s_route s).
Proof. reflexivity. Qed.
Print Assumptions C01c_skey_unfold.

(* [F] records are created by add_task_state only, one at a time: it appends exactly one record and points its key at it *)
Theorem C01c_add_task_state_one : forall ev t rt ins prev c c' idx,
  add_task_state ev t rt ins prev c = (c', Val idx) ->
  idx = length (sequence (c_ws c)) /\ length (sequence (c_ws c')) = S (length (sequence (c_ws c))) /\
  ws_task_idx (c_ws c') t rt = Some idx /\
  (forall k, k <> (t, rt) -> aget tkey_eqb k (tasks (c_ws c')) = aget tkey_eqb k (tasks (c_ws c))).
Proof. exact add_task_state_one. Qed.
Print Assumptions C01c_add_task_state_one.

(* [F] the first event for a task that has no record (the call up to and including the completion step, uts_prefix):
   exactly one record is created and the key points to it ... *)
Theorem C01c_first_event_creates_one_record : forall ev t route evt c c' p,
  c_init c = true -> is_engine_command t = false -> ws_task_idx (c_ws c) t route = None ->
  uts_prefix ev t route evt c = (c', Val p) ->
  length (sequence (c_ws c')) = S (length (sequence (c_ws c))) /\
  ws_task_idx (c_ws c') t route = Some (length (sequence (c_ws c))) /\ po_idx p = length (sequence (c_ws c)).
Proof. exact first_event_creates_one_record. Qed.
(* ... and a later event for a task whose record is not completed creates none *)
Theorem C01c_later_event_creates_no_record : forall ev t route evt idx r c c' p,
  c_init c = true -> is_engine_command t = false -> ws_task_idx (c_ws c) t route = Some idx ->
  nth_error (sequence (c_ws c)) idx = Some r -> ostatus_in (r_status r) COMPLETED_STATUSES = false ->
  uts_prefix ev t route evt c = (c', Val p) ->
  length (sequence (c_ws c')) = length (sequence (c_ws c)) /\ tasks (c_ws c') = tasks (c_ws c) /\ po_idx p = idx.
Proof. exact later_event_creates_no_record. Qed.
Print Assumptions C01c_first_event_creates_one_record.
Print Assumptions C01c_later_event_creates_no_record.

(* [F] (b) engine commands: the engine's call of a queued command creates exactly one record for it -- also when the
   (command, route) was visited before: a command always gets a record of its own -- and touches no other pointer *)
Theorem C01c_command_call_creates_one_record : forall ev fuel n rt e c c',
  c_init c = true -> is_engine_command n = true -> graph_commands_inert (c_graph c) ->
  update_task_state_fuel ev (S fuel) n rt e c = (c', Val tt) ->
  length (sequence (c_ws c')) = S (length (sequence (c_ws c))) /\
  ws_task_idx (c_ws c') n rt = Some (length (sequence (c_ws c))) /\
  (forall k, k <> (n, rt) -> aget tkey_eqb k (tasks (c_ws c')) = aget tkey_eqb k (tasks (c_ws c))).
Proof. exact command_call_creates_one_record. Qed.
Print Assumptions C01c_command_call_creates_one_record.

(* [F] after the completion step of a call that takes no retry: the records created are exactly one per queued command
   -- the queue holding one entry per satisfied transition to a command (C01c_transition_stages_once) *)
Theorem C01c_tail_record_count : forall ev fuel t route ts idx o n compl c c',
  c_init c = true -> graph_commands_inert (c_graph c) -> (forall ctx, compl <> Some (ctx, true)) ->
  uts_tail ev (update_task_state_fuel ev (S fuel)) t route ts idx o n compl c = (c', Val tt) ->
  exists c2 q, uts_queue ev t route idx ts o n compl c = (c2, Val q) /\
               length (sequence (c_ws c')) = length (sequence (c_ws c)) + length q.
Proof. exact tail_record_count. Qed.
Print Assumptions C01c_tail_record_count.

(* ------------------------------------------------------------------ witnesses: two satisfied transitions, one execution *)

Module C01cWitnesses.

Definition ev_toy (s : string) (ctx : dict) : evalres := if String.eqb s "<% never %>" then EvOk (JBool false) else EvOk (JStr s).
Definition plain nxt : task_spec :=
  {| ts_action := JStr "core.noop"; ts_input := JDict []; ts_with := None; ts_delay := JNull; ts_join := JNull; ts_next := nxt |}.
Definition node n := {| n_id := n; n_barrier := JNull; n_splits := None; n_retry := JNull |}.
Definition act t st := OpEvent t 0 (EvAction st JNull).
Definition mk sp g : cstate :=
  {| c_spec := sp; c_graph := g; c_inputs := []; c_parent := []; c_init := false; c_ws := empty_ws;
     c_errors := []; c_log := []; c_output := None |}.
Definition tr w d := {| tr_when := w; tr_publish := []; tr_do := d |}.
Definition edge s d k crit := {| e_src := s; e_dst := d; e_key := k; e_ref := 0; e_criteria := crit |}.
Definition view (c : cstate) :=
  (map (fun r => (r_id r, r_status r, r_next r)) (sequence (c_ws c)), map (fun s => (skey s, s_prev s)) (staged (c_ws c)), routes (c_ws c)).

(* W-O1 (engine: same outcome).  a and b start together and both go on to x; x is no join; x lies in a cycle
   (x -> y -> x).  Without the cycle x is a split and each transition opens a route: two entries, two executions
   (second example).  WITH the cycle the route is kept, b's transition finds the entry a's transition staged, and the
   two satisfied transitions end in ONE staged entry (x, 0): x runs once. *)
Definition spec1 (back : list transition_spec) : wf_spec := {| wf_input := []; wf_vars := []; wf_output := [];
  wf_tasks := [("a", plain [tr JNull ["x"]]); ("b", plain [tr JNull ["x"]]); ("x", plain [tr JNull ["y"]]); ("y", plain back)] |}.
Definition graph1 (back : list gedge) : graph := {| g_nodes := [node "a"; node "b"; node "x"; node "y"];
  g_edges := [edge "a" "x" 0 []; edge "b" "x" 0 []; edge "x" "y" 0 []] ++ back |}.
Definition h1 := [OpRequest S_RUNNING; OpGetNext; act "a" S_RUNNING; act "b" S_RUNNING; act "a" S_SUCCEEDED; act "b" S_SUCCEEDED].
Example two_branches_into_a_task_in_a_cycle_merged :
  view (run_ops ev_toy h1 (mk (spec1 [tr (JStr "<% never %>") ["x"]]) (graph1 [edge "y" "x" 0 [JStr "<% never %>"]])))
  = ([("a", Some S_SUCCEEDED, [(("x", 0), true)]); ("b", Some S_SUCCEEDED, [(("x", 0), true)])],
     [(("x", 0), [(("a", 0), 0); (("b", 0), 1)])], [[]]).
Proof. vm_compute; reflexivity. Qed.
Example two_branches_into_a_task_outside_cycles_kept_apart :
  view (run_ops ev_toy h1 (mk (spec1 []) (graph1 [])))
  = ([("a", Some S_SUCCEEDED, [(("x", 0), true)]); ("b", Some S_SUCCEEDED, [(("x", 0), true)])],
     [(("x", 1), [(("a", 0), 0)]); (("x", 2), [(("b", 0), 1)])], [[]; [("a", 0)]; [("b", 0)]]).
Proof. vm_compute; reflexivity. Qed.

(* W-O2 (engine: same outcome).  A loop with a side branch: t goes on to x and to itself.  The provider acknowledges
   the second round of t before it acknowledges x: t completes again, its transition to x is satisfied again (two
   records of t with x recorded true) and finds x still staged: ONE staged entry (x, 0), its predecessor reference
   overwritten with the later record -- x runs once for two satisfied transitions.  Every call is in the scope of
   C15_no_internal_error. *)
Definition spec2 : wf_spec := {| wf_input := []; wf_vars := []; wf_output := [];
  wf_tasks := [("init", plain [tr JNull ["t"]]); ("t", plain [tr JNull ["x"; "t"]]); ("x", plain [])] |}.
Definition graph2 : graph := {| g_nodes := [node "init"; node "t"; node "x"];
  g_edges := [edge "init" "t" 0 []; edge "t" "t" 0 []; edge "t" "x" 0 []] |}.
Definition h2 := [OpRequest S_RUNNING; OpGetNext; act "init" S_RUNNING; act "init" S_SUCCEEDED; OpGetNext; act "t" S_RUNNING; act "t" S_SUCCEEDED;
                  OpGetNext; act "t" S_RUNNING; act "t" S_SUCCEEDED].
Example loop_with_a_side_branch_merged :
  view (run_ops ev_toy h2 (mk spec2 graph2))
  = ([("init", Some S_SUCCEEDED, [(("t", 0), true)]);
      ("t", Some S_SUCCEEDED, [(("t", 0), true); (("x", 0), true)]);
      ("t", Some S_SUCCEEDED, [(("t", 0), true); (("x", 0), true)])],
     [(("x", 0), [(("t", 0), 2)]); (("t", 0), [(("t", 0), 2)])], [[]]) /\
  hist_in_scope_b ev_toy h2 (mk spec2 graph2) = true.
Proof. split; vm_compute; reflexivity. Qed.

End C01cWitnesses.
