(* C02 -- Reported workflow status is truthful about the tasks.  Property theorems only. *)
From Coq Require Import String List Bool.
From Orq Require Import GenStatuses GenEvents GenTables Base State Machines Conductor Api F_tables F_names F_classes C02C03Proofs C09C10Proofs.
Import ListNotations.
Open Scope string_scope.

(* [F] succeeded is truthful: the workflow machine reports succeeded through a task event only if at that
   moment no task execution is active, none is pausing/paused/pending, none canceling/canceled, no staged
   entry is ready and the reporting task has no satisfiable next; and the reporting task succeeded or its
   failure was remediated *)
Theorem C02_succeeded_only_when_all_done : forall t route st c c' unr,
  wstatus (c_ws c) <> S_SUCCEEDED ->
  wf_task_event_M t route st c = (c', Val unr) ->
  wstatus (c_ws c') = S_SUCCEEDED ->
  has_active_tasks (c_ws c) = false /\
  has_canceling_tasks (c_ws c) = false /\ has_canceled_tasks (c_ws c) = false /\
  has_pausing_tasks (c_ws c) = false /\ has_paused_tasks (c_ws c) = false /\
  has_staged_tasks (c_ws c) = false /\ has_next_tasks (c_graph c) (c_ws c) t route = false /\
  (st = S_SUCCEEDED \/ In st ABENDED_STATUSES).
Proof. exact succeeded_only_when_all_done. Qed.
Print Assumptions C02_succeeded_only_when_all_done.

(* [F] a task failure with no matching transition (no satisfiable next, no join it feeds) fails the
   workflow from running, pausing, paused and resuming, whatever else is active *)
Theorem C02_unremediated_failure_fails : forall t route c c' unr,
  In (wstatus (c_ws c)) [S_RUNNING; S_PAUSING; S_PAUSED; S_RESUMING] ->
  has_next_tasks (c_graph c) (c_ws c) t route = false ->
  has_barrier_next (c_graph c) (c_ws c) t route = false ->
  wf_task_event_M t route S_FAILED c = (c', Val unr) ->
  wstatus (c_ws c') = S_FAILED.
Proof. exact unremediated_failure_fails_workflow. Qed.
Print Assumptions C02_unremediated_failure_fails.

(* [F] ... unless a cancellation is in progress: then the status stays in the cancel class *)
Theorem C02_failure_while_canceling : forall t route c c' unr,
  wstatus (c_ws c) = S_CANCELING ->
  wf_task_event_M t route S_FAILED c = (c', Val unr) ->
  In (wstatus (c_ws c')) [S_CANCELING; S_CANCELED; S_FAILED].
Proof. exact failure_while_canceling_stays_cancel_class. Qed.
Print Assumptions C02_failure_while_canceling.

(* [F] pausing / canceling are reported only while something is active: when the event of a task that has
   stopped running is processed and no task execution is active, the workflow leaves pausing/canceling *)
Theorem C02_transitional_only_while_active : forall t route st c c' unr,
  In st settled_statuses ->
  has_active_tasks (c_ws c) = false ->
  In (wstatus (c_ws c)) [S_PAUSING; S_CANCELING] ->
  wf_task_event_M t route st c = (c', Val unr) ->
  ~ In (wstatus (c_ws c')) [S_PAUSING; S_CANCELING; S_RESUMING].
Proof. exact settled_event_with_nothing_active_rests. Qed.
Print Assumptions C02_transitional_only_while_active.

(* [F] table level: "active" events never put the workflow to rest; "dormant" task events never leave it
   in a transitional status *)
Theorem C02_active_events_keep_going : forall s e t, tbl_step wf_table s e = Some t ->
  contains "_workflow_active" e = true -> ~ In t [S_PAUSED; S_CANCELED; S_SUCCEEDED].
Proof. exact F_wf_active_keeps. Qed.
Print Assumptions C02_active_events_keep_going.

(* [F] the status sets classify every status the task table can produce: completed, active (counted as
   running by has_active_tasks), or one of the three dormant ones (paused, pending, retrying); and a report that
   says the action is in progress (started, running, resuming, being paused or canceled) always leaves the
   task counted as active (or already finished) -- "in flight" at the provider is "active" in the conductor *)
Theorem C02_status_classes : forall s e t, tbl_step task_table s e = Some t ->
  In t COMPLETED_STATUSES \/ In t ACTIVE_STATUSES \/ In t [S_PAUSED; S_PENDING; S_RETRYING].
Proof. exact F_task_status_classes. Qed.
Print Assumptions C02_status_classes.

Theorem C02_in_progress_report_is_active : forall s st t, In st in_progress_statuses ->
  tbl_step task_table s (ACTION_EVENT_PREFIX ++ status_name st) = Some t ->
  In t ACTIVE_STATUSES \/ In t COMPLETED_STATUSES.
Proof. exact F_in_progress_report_is_active. Qed.
Print Assumptions C02_in_progress_report_is_active.

(* NOT PROVED (tested by monitor c02 under the provider protocol): the link between the conductor's
   notion of an active task execution and the provider's set of in-flight actions. *)
