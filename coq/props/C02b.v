(* C02b -- C02, the protocol clauses: the LINK between the conductor's task records and the provider's set
   of in-flight actions, and what the reported workflow status says about that set.  Property theorems only;
   the provider protocol is model/ProviderSys.v (the protocol of harness/provider.py restricted to workflows
   without with-items tasks, completion reports only, no reruns); proofs are in proofs/SysProofs.v and
   proofs/SysNextProofs.v.

   All theorems are about EVERY evaluator [ev], every definition [sp] without with-items tasks, every graph
   [g] that passes the boolean check [sys_graph_ok] (engine commands inert, a start task exists and is not an
   engine command, edge keys distinct -- all true of composed graphs), every inputs, and EVERY protocol history
   [ops] from the fresh conductor, as long as no conductor call of the history raised ([s_fault s = false];
   a status request that the conductor rejects is not a fault).  The statements are made at the protocol-step
   boundaries (Poll is atomic, like harness/provider.py). *)
From Coq Require Import String List Bool ZArith.
From Orq Require Import GenStatuses GenTables Base State Machines Conductor Api Driver ProviderSys Composer.
From Orq Require Import F_tables F_names F_sys SysProofs SysNextProofs.
Import ListNotations.
Open Scope string_scope.

(* [F] (I1) every action in flight has a record, reachable through the pointer map, whose status is running
   (an active status) *)
Theorem C02b_inflight_has_active_record : forall ev sp g inputs parent,
  no_items sp = true -> sys_graph_ok g = true ->
  forall ops, let s := sys_run ev ops (sys_init sp g inputs parent) in
  s_fault s = false -> forall k, In k (s_inflight s) ->
  exists r, ws_task_entry (c_ws (s_c s)) (fst k) (snd k) = Some r /\ r_status r = Some S_RUNNING /\
            ostatus_in (r_status r) ACTIVE_STATUSES = true.
Proof. exact link_inflight_has_active_record. Qed.
Print Assumptions C02b_inflight_has_active_record.

(* [F] (I2) every task execution the conductor itself counts active -- get_tasks_by_status(ACTIVE_STATUSES),
   i.e. every record reachable through the pointer map with an active status -- is in flight at the provider
   (and its status is running) *)
Theorem C02b_active_record_in_flight : forall ev sp g inputs parent,
  no_items sp = true -> sys_graph_ok g = true ->
  forall ops, let s := sys_run ev ops (sys_init sp g inputs parent) in
  s_fault s = false -> forall i r, In (i, r) (ws_tasks_by_status (c_ws (s_c s)) ACTIVE_STATUSES) ->
  In (r_id r, r_route r) (s_inflight s) /\ r_status r = Some S_RUNNING.
Proof. exact link_active_record_in_flight. Qed.
Print Assumptions C02b_active_record_in_flight.

(* [F] auxiliary invariants of the link: an engine command is never in flight; every pointed record has one of
   the statuses running / succeeded / failed / canceled / retrying; between protocol steps no engine command
   waits in staging and no staged entry tracks items or is marked completed *)
Theorem C02b_link_auxiliary : forall ev sp g inputs parent,
  no_items sp = true -> sys_graph_ok g = true ->
  forall ops, let s := sys_run ev ops (sys_init sp g inputs parent) in
  s_fault s = false ->
  (forall k, In k (s_inflight s) -> is_engine_command (fst k) = false) /\
  (forall t rt r, ws_task_entry (c_ws (s_c s)) t rt = Some r -> exists st, r_status r = Some st /\ In st simple_statuses) /\
  (forall e, In e (staged (c_ws (s_c s))) -> is_engine_command (s_id e) = false /\ s_items e = None /\ s_completed e = false).
Proof. exact link_auxiliary. Qed.
Print Assumptions C02b_link_auxiliary.

(* FULL STATEMENT of the first clause: "whenever the workflow reports succeeded, every task execution has
   completed, no action is in flight, nothing is waiting to run":
     wstatus = succeeded -> s_inflight s = [] /\ has_staged_tasks = false /\
                            forall pointed record r, r_status r is a completed status.
   [P] Proved: nothing in flight, no ready staged entry, no active record, and every pointed record is completed
   OR retrying.  Missing for the full statement: that no pointed record is in status retrying (a record waiting
   for its re-offer keeps its re-staged entry ready unless a transition of another task into the same task
   re-evaluates the entry's readiness -- only possible in cyclic graphs with joins; excluding it needs an
   invariant tying "entry not ready" to "criteria not satisfied" across routes, which is not proved). *)
Theorem C02b_succeeded_partial : forall ev sp g inputs parent,
  no_items sp = true -> sys_graph_ok g = true ->
  forall ops, let s := sys_run ev ops (sys_init sp g inputs parent) in
  s_fault s = false -> wstatus (c_ws (s_c s)) = S_SUCCEEDED ->
  s_inflight s = [] /\ has_staged_tasks (c_ws (s_c s)) = false /\
  ws_tasks_by_status (c_ws (s_c s)) ACTIVE_STATUSES = [] /\
  (forall t rt r, ws_task_entry (c_ws (s_c s)) t rt = Some r ->
     ostatus_in (r_status r) COMPLETED_STATUSES = true \/ r_status r = Some S_RETRYING).
Proof. exact C02_succeeded_partial. Qed.
Print Assumptions C02b_succeeded_partial.

(* [F] "whenever it reports paused or canceled no action is in flight" *)
Theorem C02b_paused_canceled_idle : forall ev sp g inputs parent,
  no_items sp = true -> sys_graph_ok g = true ->
  forall ops, let s := sys_run ev ops (sys_init sp g inputs parent) in
  s_fault s = false -> In (wstatus (c_ws (s_c s))) [S_PAUSED; S_CANCELED] -> s_inflight s = [].
Proof. exact C02_paused_canceled_idle. Qed.
Print Assumptions C02b_paused_canceled_idle.

(* [F] "whenever it reports pausing or canceling at least one still is" *)
Theorem C02b_pausing_canceling_busy : forall ev sp g inputs parent,
  no_items sp = true -> sys_graph_ok g = true ->
  forall ops, let s := sys_run ev ops (sys_init sp g inputs parent) in
  s_fault s = false -> In (wstatus (c_ws (s_c s))) [S_PAUSING; S_CANCELING] -> s_inflight s <> [].
Proof. exact C02_pausing_canceling_busy. Qed.
Print Assumptions C02b_pausing_canceling_busy.

(* [F] the protocol is a history of conductor API calls: the conductor state after a protocol history is the
   state after the list of API operations [sys_api_ops] computes from it (get_next, the acknowledgements of
   what was offered, the reports, the requests ...): a run of the system can be replayed on the engine *)
Theorem C02b_protocol_is_api_history : forall ev ops s,
  s_c (sys_run ev ops s) = run_ops ev (sys_api_ops ev ops s) (s_c s).
Proof. exact sys_run_is_history. Qed.
Print Assumptions C02b_protocol_is_api_history.

(* ------------------------------------------------------------------ non-vacuity *)

Module C02bExamples.

(* evaluator: "ok" / "ko" read the result the action reported; everything else is a literal *)
Definition cur_result (ctx : dict) : json :=
  match dget "__current_task" ctx with
  | Some (JDict d) => match dget "result" d with Some r => r | None => JNull end
  | _ => JNull
  end.
Definition ev_ex (s : string) (ctx : dict) : evalres :=
  if String.eqb s "ok" then EvOk (JBool (json_eqb (cur_result ctx) (JStr "ok")))
  else if String.eqb s "ko" then EvOk (JBool (json_eqb (cur_result ctx) (JStr "ko")))
  else EvOk (JStr s).

Definition mk_task (join : json) (next : list transition_spec) : task_spec :=
  {| ts_action := JStr "core.noop"; ts_input := JDict []; ts_with := None; ts_delay := JNull; ts_join := join; ts_next := next |}.
Definition tr (w : json) (d : list string) := {| tr_when := w; tr_publish := []; tr_do := d |}.
Definition nd (n : string) (b : json) := {| n_id := n; n_barrier := b; n_splits := None; n_retry := JNull |}.
Definition ed (s d : string) (k r : nat) (c : list json) := {| e_src := s; e_dst := d; e_key := k; e_ref := r; e_criteria := c |}.

(* a: on "ok" fork to b and c, which join in d; on "ko" the failure handler h.
     tasks:
       a: { action: core.noop, next: [ {when: ok, do: [b, c]}, {when: ko, do: [h]} ] }
       b: { action: core.noop, next: [ {do: [d]} ] }
       c: { action: core.noop, next: [ {do: [d]} ] }
       d: { join: all, action: core.noop }
       h: { action: core.noop }                                                                   *)
Definition spec1 : wf_spec := {| wf_input := []; wf_vars := []; wf_output := [];
  wf_tasks := [("a", mk_task JNull [tr (JStr "ok") ["b"; "c"]; tr (JStr "ko") ["h"]]);
               ("b", mk_task JNull [tr JNull ["d"]]); ("c", mk_task JNull [tr JNull ["d"]]);
               ("d", mk_task (JStr "all") []); ("h", mk_task JNull [])] |}.
Definition graph1 : graph :=
  {| g_nodes := [nd "a" JNull; nd "b" JNull; nd "c" JNull; nd "h" JNull; nd "d" (JStr "*")];
     g_edges := [ed "a" "b" 0 0 [JStr "ok"]; ed "a" "c" 0 0 [JStr "ok"]; ed "a" "h" 0 1 [JStr "ko"];
                 ed "b" "d" 0 0 []; ed "c" "d" 0 0 []] |}.

Example hypotheses_hold : no_items spec1 = true /\ sys_graph_ok graph1 = true.
Proof. split; vm_compute; reflexivity. Qed.

(* the graph is the one the (modelled) composer builds from the definition *)
Example graph_is_composed : compose spec1 [] 100 = Val graph1.
Proof. vm_compute; reflexivity. Qed.

Definition view (s : sys) :=
  (wstatus (c_ws (s_c s)), s_inflight s, s_fault s,
   map (fun r => (r_id r, r_status r)) (sequence (c_ws (s_c s)))).

Definition s0 := sys_init spec1 graph1 [] [].
Definition ok := JStr "ok".
Definition run (ops : list sys_op) := view (sys_run ev_ex ops s0).

(* the fork: after a succeeds both b and c are in flight, the join d waits *)
Example fork_in_flight :
  run [Boot; Poll; Report "a" 0 S_SUCCEEDED ok; Poll]
  = (S_RUNNING, [("b", 0); ("c", 0)], false,
     [("a", Some S_SUCCEEDED); ("b", Some S_RUNNING); ("c", Some S_RUNNING)]).
Proof. vm_compute; reflexivity. Qed.

(* ... to the end: succeeded, nothing in flight, every record completed, no call raised *)
Example fork_join_succeeds :
  run [Boot; Poll; Report "a" 0 S_SUCCEEDED ok; Poll; Report "c" 0 S_SUCCEEDED JNull; Poll;
       Report "b" 0 S_SUCCEEDED JNull; Poll; Report "d" 0 S_SUCCEEDED JNull; Render; Persist]
  = (S_SUCCEEDED, [], false,
     [("a", Some S_SUCCEEDED); ("b", Some S_SUCCEEDED); ("c", Some S_SUCCEEDED); ("d", Some S_SUCCEEDED)]).
Proof. vm_compute; reflexivity. Qed.

(* the failure handler: a fails with "ko", h runs, the workflow succeeds with a's failure handled *)
Example failure_handled :
  run [Boot; Poll; Report "a" 0 S_FAILED (JStr "ko"); Poll; Report "h" 0 S_SUCCEEDED JNull]
  = (S_SUCCEEDED, [], false, [("a", Some S_FAILED); ("h", Some S_SUCCEEDED)]).
Proof. vm_compute; reflexivity. Qed.

(* pausing while b and c run: pausing with two in flight, still pausing with one, paused with none; resumed, d runs *)
Example pausing_then_paused :
  run [Boot; Poll; Report "a" 0 S_SUCCEEDED ok; Poll; Request S_PAUSING]
    = (S_PAUSING, [("b", 0); ("c", 0)], false, [("a", Some S_SUCCEEDED); ("b", Some S_RUNNING); ("c", Some S_RUNNING)]) /\
  run [Boot; Poll; Report "a" 0 S_SUCCEEDED ok; Poll; Request S_PAUSING; Report "b" 0 S_SUCCEEDED JNull; Poll]
    = (S_PAUSING, [("c", 0)], false, [("a", Some S_SUCCEEDED); ("b", Some S_SUCCEEDED); ("c", Some S_RUNNING)]) /\
  run [Boot; Poll; Report "a" 0 S_SUCCEEDED ok; Poll; Request S_PAUSING; Report "b" 0 S_SUCCEEDED JNull;
       Report "c" 0 S_FAILED JNull]   (* c's transition to d is unconditional: its failure is handled by it *)
    = (S_PAUSED, [], false, [("a", Some S_SUCCEEDED); ("b", Some S_SUCCEEDED); ("c", Some S_FAILED)]) /\
  run [Boot; Poll; Report "a" 0 S_SUCCEEDED ok; Poll; Request S_PAUSING; Report "b" 0 S_SUCCEEDED JNull;
       Report "c" 0 S_SUCCEEDED JNull; Poll]
    = (S_PAUSED, [], false, [("a", Some S_SUCCEEDED); ("b", Some S_SUCCEEDED); ("c", Some S_SUCCEEDED)]) /\
  run [Boot; Poll; Report "a" 0 S_SUCCEEDED ok; Poll; Request S_PAUSING; Report "b" 0 S_SUCCEEDED JNull;
       Report "c" 0 S_SUCCEEDED JNull; Request S_RESUMING; Poll]
    = (S_RUNNING, [("d", 0)], false,
       [("a", Some S_SUCCEEDED); ("b", Some S_SUCCEEDED); ("c", Some S_SUCCEEDED); ("d", Some S_RUNNING)]).
Proof. repeat split; vm_compute; reflexivity. Qed.

(* cancellation while b and c run: canceling while in flight, canceled when the last one reports *)
Example canceling_then_canceled :
  run [Boot; Poll; Report "a" 0 S_SUCCEEDED ok; Poll; Request S_CANCELING; Report "b" 0 S_CANCELED JNull]
    = (S_CANCELING, [("c", 0)], false, [("a", Some S_SUCCEEDED); ("b", Some S_CANCELED); ("c", Some S_RUNNING)]) /\
  run [Boot; Poll; Report "a" 0 S_SUCCEEDED ok; Poll; Request S_CANCELING; Report "b" 0 S_CANCELED JNull;
       Report "c" 0 S_SUCCEEDED JNull; Poll]
    = (S_CANCELED, [], false, [("a", Some S_SUCCEEDED); ("b", Some S_CANCELED); ("c", Some S_SUCCEEDED)]).
Proof. split; vm_compute; reflexivity. Qed.

(* a rejected request (pause of a fresh conductor, cancel of a succeeded one) and an ignored report (not in
   flight) are not faults and change nothing *)
Example rejected_request_is_no_fault :
  run [Request S_PAUSING] = (S_UNSET, [], false, []) /\
  run [Boot; Poll; Report "zz" 0 S_SUCCEEDED JNull; Report "a" 0 S_RUNNING JNull]
    = (S_RUNNING, [("a", 0)], false, [("a", Some S_RUNNING)]).
Proof. split; vm_compute; reflexivity. Qed.

(* the theorems applied to the concrete run *)
Example link_on_the_fork :
  let s := sys_run ev_ex [Boot; Poll; Report "a" 0 S_SUCCEEDED ok; Poll] s0 in
  forall k, In k (s_inflight s) ->
  exists r, ws_task_entry (c_ws (s_c s)) (fst k) (snd k) = Some r /\ r_status r = Some S_RUNNING /\
            ostatus_in (r_status r) ACTIVE_STATUSES = true.
Proof.
  apply (C02b_inflight_has_active_record ev_ex spec1 graph1 [] [] (proj1 hypotheses_hold) (proj2 hypotheses_hold)).
  vm_compute; reflexivity.
Qed.

End C02bExamples.
