(* C02c -- C02, last sentence, at the level of a whole update_task_state call: "A task failure with no matching
   transition, a fail command or a runtime error always ends in failed unless a cancellation is in progress."
   Property theorems only (proofs/FailProofs.v; the forward computation of the call is shared with C04c, LateProofs.v).
   The runtime error is C11b.  Earlier: C02_unremediated_failure_fails is the workflow machine's step alone. *)
From Coq Require Import String List Bool ZArith.
From Orq Require Import GenStatuses GenEvents GenTables Base State Machines Conductor Api F_tables
  RetryProofs FrozenProofs NoInternalProofs LateProofs FailProofs.
Import ListNotations.
Open Scope string_scope.

(* ------------------------------------------------------------------ (a) a task failure with no matching transition *)

(* [F] for every evaluator: a provider's failure report (failed, timeout or abandoned -- recorded as failed) for a
   plain task whose record is running / pausing / canceling and has no retry to spend (no policy, or tally >= count),
   in a well-formed state whose workflow is running, pausing, paused or resuming.  If the call returns and none of the
   task's transitions is recorded satisfied in the state it leaves (`continue` does not count), the workflow is
   FAILED. *)
Theorem C02c_unremediated_failure_fails_call : forall ev t route st res ts idx r s c c' r',
  WF c -> in_progress (wstatus (c_ws c)) ->
  is_engine_command t = false -> g_has_task (c_graph c) t = true ->
  spec_get_task (c_spec c) t = Some ts -> task_has_items ts = false ->
  ws_task_idx (c_ws c) t route = Some idx -> nth_error (sequence (c_ws c)) idx = Some r ->
  r_status r = Some s -> In s [S_RUNNING; S_PAUSING; S_CANCELING] ->
  status_in st COMPLETED_STATUSES = true -> reported st = S_FAILED -> no_retry_left r ->
  update_task_state ev t route (EvAction st res) c = (c', Val tt) ->
  nth_error (sequence (c_ws c')) idx = Some r' -> unsatisfied (c_graph c) t r' ->
  wstatus (c_ws c') = S_FAILED.
Proof. exact unremediated_failure_fails_call. Qed.
Print Assumptions C02c_unremediated_failure_fails_call.

(* [F] ... unless a cancellation is in progress: whatever the call (any event, any task, also when it raises), a
   canceling / canceled workflow stays in that class or is failed *)
Theorem C02c_call_keeps_cancel_class : forall ev t route evt c c' res,
  In (wstatus (c_ws c)) [S_CANCELING; S_CANCELED] -> update_task_state ev t route evt c = (c', res) ->
  In (wstatus (c_ws c')) [S_CANCELING; S_CANCELED; S_FAILED].
Proof. exact call_keeps_cancel_class. Qed.
Print Assumptions C02c_call_keeps_cancel_class.

Theorem C02c_in_progress_unfold : forall s, in_progress s <-> In s [S_RUNNING; S_PAUSING; S_PAUSED; S_RESUMING].
Proof. intro; split; intro H; exact H. Qed.
Theorem C02c_unsatisfied_unfold : forall g t r,
  unsatisfied g t r <->
  forall e, In e (g_next_transitions g t) ->
    e_dst e = "continue" \/ aget trid_eqb (e_dst e, e_key e) (r_next r) <> Some true.
Proof. intros; split; intro H; exact H. Qed.
Theorem C02c_no_retry_left_unfold : forall r,
  no_retry_left r <->
  (r_retry r = None \/
   exists rr, r_retry r = Some rr /\ py_is_int (rr_count rr) = true /\ (py_int_value (rr_count rr) <= Z.of_nat (rr_tally rr))%Z).
Proof. intro; split; intro H; exact H. Qed.
Print Assumptions C02c_in_progress_unfold.
Print Assumptions C02c_unsatisfied_unfold.
Print Assumptions C02c_no_retry_left_unfold.

(* ------------------------------------------------------------------ (b) the fail command *)

(* [F] the engine's own call of the `fail` command (update_task_state "fail" route, event task_fail_requested), for a
   (command, route) that has no record yet, in a graph whose commands are inert (static_ok), delivered while the
   workflow is running, pausing, paused, resuming -- or already failed: when it returns the workflow is FAILED.
   (From canceling / canceled: C02c_call_keeps_cancel_class.) *)
Theorem C02c_fail_command_call_fails : forall ev fuel rt c c',
  graph_commands_inert (c_graph c) -> c_init c = true -> ws_task_idx (c_ws c) "fail" rt = None ->
  (in_progress (wstatus (c_ws c)) \/ wstatus (c_ws c) = S_FAILED) ->
  update_task_state_fuel ev (S fuel) "fail" rt fail_event c = (c', Val tt) ->
  wstatus (c_ws c') = S_FAILED.
Proof. exact fail_command_call_fails. Qed.
Print Assumptions C02c_fail_command_call_fails.
Theorem C02c_fail_event_is_the_commands : engine_event "fail" = Some fail_event.
Proof. reflexivity. Qed.
Print Assumptions C02c_fail_event_is_the_commands.

(* [F] the siblings: when `fail` is among the commands queued by the transitions of a completion, every task the same
   completion staged ready (the second components of the transitions' results) is flagged run_on_fail in the state in
   which the queue is returned -- before any command is delivered *)
Theorem C02c_fail_flags_siblings : forall ev t route idx ts o n ctx b c c' q rt,
  uts_queue ev t route idx ts o n (Some (ctx, b)) c = (c', Val q) -> In ("fail", rt) q ->
  exists c1 c2 rs,
    mapM (process_transition ev t route idx ts ctx) (g_next_transitions (c_graph c) t) c1 = (c2, Val rs) /\
    q = flat_map (fun '(x, _) => match x with Some y => [y] | None => [] end) rs /\
    forall k, In k (flat_map (fun '(_, x) => match x with Some y => [y] | None => [] end) rs) ->
      flagged (staged (c_ws c')) k.
Proof. exact fail_flags_siblings. Qed.
Print Assumptions C02c_fail_flags_siblings.
Theorem C02c_flagged_unfold : forall l k,
  flagged l k <-> forall s, find (stg_matches (fst k) (snd k)) l = Some s -> s_run_on_fail s = true.
Proof. intros; split; intro H; exact H. Qed.
Print Assumptions C02c_flagged_unfold.

(* NOT PROVED: the composition of the two for a whole provider call whose transitions queue `fail` -- that the workflow
   has not succeeded (and no record of that (fail, route) exists) when the engine delivers the command after the
   workflow machine's step for the completing task.  The example below shows the whole call. *)

(* ------------------------------------------------------------------ examples *)

Module C02cExamples.

Definition ev_toy (s : string) (ctx : dict) : evalres :=
  if String.eqb s "<% failed() %>" then EvOk (JBool true)
  else if String.eqb s "<% succeeded() %>" then EvOk (JBool false) else EvOk (JStr s).
Definition plain nxt : task_spec :=
  {| ts_action := JStr "core.noop"; ts_input := JDict []; ts_with := None; ts_delay := JNull; ts_join := JNull; ts_next := nxt |}.
Definition node n := {| n_id := n; n_barrier := JNull; n_splits := None; n_retry := JNull |}.
Definition act t st := OpEvent t 0 (EvAction st JNull).
Definition mk sp g : cstate :=
  {| c_spec := sp; c_graph := g; c_inputs := []; c_parent := []; c_init := false; c_ws := empty_ws;
     c_errors := []; c_log := []; c_output := None |}.
Definition view (c : cstate) :=
  (wstatus (c_ws c), map (fun r => (r_id r, r_route r, r_status r, r_next r)) (sequence (c_ws c)),
   map (fun s => (s_id s, s_ready s, s_run_on_fail s)) (staged (c_ws c))).
Definition start := [OpRequest S_RUNNING; OpGetNext; act "t1" S_RUNNING].

(* (a) t1 goes on to t2 when it succeeds; it fails: the transition is recorded false, the workflow is failed *)
Definition specA : wf_spec :=
  {| wf_input := []; wf_vars := []; wf_output := [];
     wf_tasks := [("t1", plain [{| tr_when := JStr "<% succeeded() %>"; tr_publish := []; tr_do := ["t2"] |}]); ("t2", plain [])] |}.
Definition graphA : graph :=
  {| g_nodes := [node "t1"; node "t2"];
     g_edges := [{| e_src := "t1"; e_dst := "t2"; e_key := 0; e_ref := 0; e_criteria := [JStr "<% succeeded() %>"] |}] |}.
Definition runningA := run_ops ev_toy start (mk specA graphA).
Example unhandled_failure_fails :
  view runningA = (S_RUNNING, [("t1", 0, Some S_RUNNING, [])], []) /\ WF_b runningA = true /\
  view (fst (api_exec ev_toy (act "t1" S_FAILED) runningA)) = (S_FAILED, [("t1", 0, Some S_FAILED, [(("t2", 0), false)])], []) /\
  snd (api_exec ev_toy (act "t1" S_FAILED) runningA) = Val RUnit.
Proof. split; [vm_compute; reflexivity|]. split; [vm_compute; reflexivity|]. split; vm_compute; reflexivity. Qed.
(* ... and the hypotheses of the theorem hold of it (the decidable ones, evaluated) *)
Example unhandled_failure_hypotheses :
  is_engine_command "t1" = false /\ g_has_task (c_graph runningA) "t1" = true /\
  ws_task_idx (c_ws runningA) "t1" 0 = Some 0 /\
  map (fun r => (r_status r, r_retry r)) (sequence (c_ws runningA)) = [(Some S_RUNNING, None)] /\
  reported S_FAILED = S_FAILED /\
  map (fun e => aget trid_eqb (e_dst e, e_key e) [(("t2", 0), false)]) (g_next_transitions graphA "t1") = [Some false].
Proof. repeat (split; [vm_compute; reflexivity|]). vm_compute; reflexivity. Qed.

(* (b) t1's failure is handled by one transition `do: t2, fail`: both edges are satisfied, t2 is staged ready and
   flagged run_on_fail, the fail command gets its record and the workflow is failed; t2 -- and only t2 -- is then
   offered (C04_failed_offers_only_cleanup) *)
Definition specB : wf_spec :=
  {| wf_input := []; wf_vars := []; wf_output := [];
     wf_tasks := [("t1", plain [{| tr_when := JStr "<% failed() %>"; tr_publish := []; tr_do := ["t2"; "fail"] |}]); ("t2", plain [])] |}.
Definition graphB : graph :=
  {| g_nodes := [node "t1"; node "t2"; node "fail"];
     g_edges := [{| e_src := "t1"; e_dst := "fail"; e_key := 0; e_ref := 0; e_criteria := [JStr "<% failed() %>"] |};
                 {| e_src := "t1"; e_dst := "t2"; e_key := 0; e_ref := 0; e_criteria := [JStr "<% failed() %>"] |}] |}.
Definition failedB := run_ops ev_toy (start ++ [act "t1" S_FAILED]) (mk specB graphB).
Example fail_command_with_a_sibling :
  view failedB
  = (S_FAILED,
     [("t1", 0, Some S_FAILED, [(("fail", 0), true); (("t2", 0), true)]); ("fail", 0, Some S_FAILED, [])],
     [("t2", true, true)]) /\
  match snd (api_exec ev_toy OpGetNext failedB) with Val (ROffers l) => map o_id l | _ => [] end = ["t2"].
Proof. split; vm_compute; reflexivity. Qed.

End C02cExamples.
