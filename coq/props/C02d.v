(* C02d -- C02 for the provider protocol WITH with-items tasks (model/ProviderSysItems.v): the LINK between the
   provider's in-flight set and the conductor, item part, in the form of C02b.  Property theorems only; proofs are in
   proofs/SysItemsProofs.v and proofs/SysItemsRecProofs.v.  Hypotheses: the flags of C12b / C12c ([si_fault],
   [si_wiped], [run_odd]) -- no hypothesis on the definition or the graph ([no_items] and [sys_graph_ok] are gone).

   WHAT IS PROVED (item keys):
     in flight  =>  the slot of the item is "running" in the table of the staged entry   (C02d_item_in_flight_slot_running)
     in flight  =>  the task record is ACTIVE                                              (C02d_item_in_flight_record_active)
     active slot in any staged table  =>  the slot is "running" and the item is in flight (C02d_active_slot_in_flight)
   WHAT IS NOT, and why the statements of C02b have to change with items:
     (I2) "every active record is in flight" is FALSE with items in normal operation: between two polls a with-items
          record is running with nothing in flight whenever the window has emptied and items remain (Example
          [active_record_nothing_in_flight]); the right statement is
            active with-items record  =>  an item of it is in flight, OR its staged entry has an item never offered;
     "pausing / canceling => something in flight" and "quiescent => resting" are FALSE by finding D24 (Example
          [d24_quiescent_not_resting]: the workflow became canceling by a TASK event, the sibling ending canceled,
          while w has items never offered; polls offer nothing while canceling; nothing is in flight; w stays running).
          With the reformulated (I2) the quiescent, not resting states are exactly those where an active with-items
          record has a never-offered item while the workflow is pausing or canceling -- the D24 situation.  This
          characterisation, and "paused / canceled => nothing in flight", need the status-linked invariant [kinv] of
          proofs/SysProofs.v (what each workflow status says about active records) for states with item tables; its
          proof there rests on [simple] (task statuses running / succeeded / failed / canceled / retrying only) and
          on the workflow-table facts for those statuses, and is not redone here.
     the plain keys (single action of a task without items) in a system that also has with-items tasks: the link of
          C02b is not re-proved for them here (it needs the kind of a task -- with items or not -- tied to the definition
          in the offers; the record frame of proofs/SysItemsRecProofs.v applies to them unchanged). *)
From Coq Require Import String List Bool ZArith Arith.
From Orq Require Import GenStatuses GenTables Base State Machines Conductor Api Driver ProviderSys ProviderSysItems ProviderSysItemsMon Composer.
From Orq Require Import F_tables F_names F_sys F_sysitems SysProofs SysNextProofs SysItemsProofs SysItemsRecProofs.
From Orq Require Import C12b.
Import ListNotations.
Open Scope string_scope.

(* [F] (I1), item keys, slot level *)
Theorem C02d_item_in_flight_slot_running : forall ev sp g inputs parent ops,
  let s := isys_run ev ops (isys_init sp g inputs parent) in
  si_fault s = false -> si_wiped s = false ->
  forall t r i, In (t, r, Some i) (si_inflight s) ->
  exists l, items_of (si_c s) t r = Some l /\ nth_error l i = Some S_RUNNING.
Proof. intros ev sp g inputs parent ops s Hf Hw. exact (proj1 (items_link ev sp g inputs parent ops Hf Hw)). Qed.
Print Assumptions C02d_item_in_flight_slot_running.

(* [F] (I1), item keys, record level: the record the pointer map gives for the task is a record of that task and
   route, and its status is active *)
Theorem C02d_item_in_flight_record_active : forall ev sp g inputs parent ops,
  let s := isys_run ev ops (isys_init sp g inputs parent) in
  si_fault s = false -> si_wiped s = false -> run_odd ev ops (isys_init sp g inputs parent) = false ->
  forall t r i, In (t, r, Some i) (si_inflight s) ->
  exists rec, ws_task_entry (c_ws (si_c s)) t r = Some rec /\ r_id rec = t /\ r_route rec = r /\
              ostatus_in (r_status rec) ACTIVE_STATUSES = true.
Proof. exact items_record_active. Qed.
Print Assumptions C02d_item_in_flight_record_active.

(* [F] (I2), slot level: every active slot of every staged item table is "running" and in flight *)
Theorem C02d_active_slot_in_flight : forall ev sp g inputs parent ops,
  let s := isys_run ev ops (isys_init sp g inputs parent) in
  si_fault s = false -> si_wiped s = false ->
  forall e l i st, In e (staged (c_ws (si_c s))) -> s_items e = Some l -> nth_error l i = Some st ->
  status_in st ACTIVE_STATUSES = true -> st = S_RUNNING /\ In (s_id e, s_route e, Some i) (si_inflight s).
Proof. intros ev sp g inputs parent ops s Hf Hw. exact (proj1 (proj2 (items_link ev sp g inputs parent ops Hf Hw))). Qed.
Print Assumptions C02d_active_slot_in_flight.

(* [F] every record is free of the status "pending" (an action status the protocol never reports): used to pass from
   "active or pending" to "active" above; stated for every record of the task list *)
Theorem C02d_no_pending_record : forall ev sp g inputs parent ops,
  let s := isys_run ev ops (isys_init sp g inputs parent) in
  si_fault s = false -> si_wiped s = false ->
  forall i rec, nth_error (sequence (c_ws (si_c s))) i = Some rec -> r_status rec <> Some S_PENDING.
Proof.
  intros ev sp g inputs parent ops s Hf Hw.
  apply (np_run ev ops _ (isys_init_inv2 sp g inputs parent)); [|apply ibad_false; assumption].
  intros _ j rc E. simpl in E. destruct j; discriminate E.
Qed.
Print Assumptions C02d_no_pending_record.

Module C02dExamples.
Import C12bExamples.

(* [R] (I2) of C02b is false with items, in normal operation: both items of the first window are back, two items were
   never offered, nothing is in flight, the record of w is running, the workflow is running -- and the next poll offers
   items 2 and 3 *)
Example active_record_nothing_in_flight :
  let s := isys_run ev_it [IBoot; IPoll; It "w" 0 S_SUCCEEDED; It "w" 1 S_SUCCEEDED; Pl "p" S_SUCCEEDED] (isys_init spec1 graph1 [] []) in
  view s = (S_RUNNING, [], (false, false), [("p", Some S_SUCCEEDED); ("w", Some S_RUNNING)],
            [("w", Some [S_SUCCEEDED; S_SUCCEEDED; S_UNSET; S_UNSET], false)]) /\
  map (fun o => (o_id o, map a_item (o_actions o))) (match snd (get_next_tasks ev_it (si_c s)) with Val l => l | _ => [] end)
  = [("w", [Some 2; Some 3])].
Proof. split; vm_compute; reflexivity. Qed.

(* [R] finding D24: quiescent and not resting.  The sibling p ends CANCELED (a task event, not a request): the workflow
   is canceling; the two items in flight come back; w has two items never offered; polls offer nothing while
   canceling; nothing is in flight; the record of w stays running and the workflow stays canceling for ever *)
Example d24_quiescent_not_resting :
  let s := isys_run ev_it [IBoot; IPoll; Pl "p" S_CANCELED; It "w" 0 S_SUCCEEDED; It "w" 1 S_SUCCEEDED] (isys_init spec1 graph1 [] []) in
  view s = (S_CANCELING, [], (false, false), [("p", Some S_CANCELED); ("w", Some S_RUNNING)],
            [("w", Some [S_SUCCEEDED; S_SUCCEEDED; S_UNSET; S_UNSET], false)]) /\
  snd (get_next_tasks ev_it (si_c s)) = Val [] /\
  run_odd ev_it [IBoot; IPoll; Pl "p" S_CANCELED; It "w" 0 S_SUCCEEDED; It "w" 1 S_SUCCEEDED; IPoll] (isys_init spec1 graph1 [] []) = false.
Proof. repeat split; vm_compute; reflexivity. Qed.

End C02dExamples.
