(* C02e -- C02 for the provider protocol WITH with-items tasks (model/ProviderSysItems.v), second part: the plain keys
   (the single action of a task without items) of a system that also has with-items tasks, and "whenever the workflow
   reports paused or canceled no action is in flight".  Property theorems only; proofs are in
   proofs/SysItemsPlainProofs.v and proofs/SysItemsIdleProofs.v (on top of the record frame of SysItemsRecProofs.v).

   Hypotheses: no hypothesis on the definition or the graph; the flags [si_fault], [si_wiped] of C12b, the monitor
   [run_odd] of C12c, and a second monitor [run_odd2] (model/ProviderSysItemsMon2.v), raised when along the history
     - a poll finds an item table on the staged entry of a (task, route) whose single action is in flight, or returns an
       offer without items for an entry that has a table, or an empty-list offer for a (task, route) whose single action
       is in flight (the kind of a task is fixed by the definition: never raised for a fixed definition);
     - the single action of a task is acknowledged onto a completed record whose staged entry is marked completed or
       gone (completed entries are not offered);
     - an offer is acknowledged while the workflow is paused or canceled.  A poll offers nothing in these statuses; the
       one way there in the middle of a poll is the acknowledgement of an EMPTY list (it completes its task on the
       spot) while another task is still paused after a resume -- the next acknowledgement takes the workflow back to
       running.  This disjunct is substantive for C02e_paused_canceled_idle only.
   Examples [monitors_silent] show both monitors silent on the runs of C12b. *)
From Coq Require Import String List Bool ZArith Arith.
From Orq Require Import GenStatuses GenTables Base State Machines Conductor Api Driver ProviderSys ProviderSysItems ProviderSysItemsMon ProviderSysItemsMon2 Composer.
From Orq Require Import F_tables F_names F_sys F_sysitems SysProofs SysNextProofs SysItemsProofs SysItemsRecProofs SysItemsPlainProofs SysItemsIdleProofs.
From Orq Require Import C12b.
Import ListNotations.
Open Scope string_scope.

(* [F] (I1) for the plain keys: while the single action of (t, r) is in flight the pointer map leads to a record of that
   task and route whose status is ACTIVE *)
Theorem C02e_plain_in_flight_record_active : forall ev sp g inputs parent ops,
  let s := isys_run ev ops (isys_init sp g inputs parent) in
  si_fault s = false -> si_wiped s = false -> run_odd ev ops (isys_init sp g inputs parent) = false ->
  run_odd2 ev ops (isys_init sp g inputs parent) = false ->
  forall t r, In (t, r, None) (si_inflight s) ->
  exists rec, ws_task_entry (c_ws (si_c s)) t r = Some rec /\ r_id rec = t /\ r_route rec = r /\
              ostatus_in (r_status rec) ACTIVE_STATUSES = true.
Proof. exact plain_record_active. Qed.
Print Assumptions C02e_plain_in_flight_record_active.

(* [F] (I1) for every key, plain or item (with C12c): everything in flight has an active task record *)
Theorem C02e_in_flight_has_active_record : forall ev sp g inputs parent ops,
  let s := isys_run ev ops (isys_init sp g inputs parent) in
  si_fault s = false -> si_wiped s = false -> run_odd ev ops (isys_init sp g inputs parent) = false ->
  run_odd2 ev ops (isys_init sp g inputs parent) = false ->
  forall t r item, In (t, r, item) (si_inflight s) ->
  exists rec, ws_task_entry (c_ws (si_c s)) t r = Some rec /\ r_id rec = t /\ r_route rec = r /\
              ostatus_in (r_status rec) ACTIVE_STATUSES = true.
Proof.
  intros ev sp g inputs parent ops s Hf Hw Ho Ho2 t r [i|] Hin.
  - exact (items_record_active ev sp g inputs parent ops Hf Hw Ho t r i Hin).
  - exact (plain_record_active ev sp g inputs parent ops Hf Hw Ho Ho2 t r Hin).
Qed.
Print Assumptions C02e_in_flight_has_active_record.

(* [F] the workflow machine is truthful at rest: when the workflow reports paused or canceled the conductor counts no
   active task execution (get_tasks_by_status(ACTIVE_STATUSES) is empty).  Underneath: a task event or a status request
   changes the workflow status to paused or canceled only when no task is active -- for EVERY task status, flag
   combination and workflow status (facts F_rest_needs_dormant_task / _request, swept over the generated tables). *)
Theorem C02e_paused_canceled_no_active_task : forall ev sp g inputs parent ops,
  let s := isys_run ev ops (isys_init sp g inputs parent) in
  si_fault s = false -> si_wiped s = false -> run_odd2 ev ops (isys_init sp g inputs parent) = false ->
  In (wstatus (c_ws (si_c s))) [S_PAUSED; S_CANCELED] -> has_active_tasks (c_ws (si_c s)) = false.
Proof. exact rest_no_active_record. Qed.
Print Assumptions C02e_paused_canceled_no_active_task.

(* [F] "whenever it reports paused or canceled no action is in flight" -- with with-items tasks *)
Theorem C02e_paused_canceled_idle : forall ev sp g inputs parent ops,
  let s := isys_run ev ops (isys_init sp g inputs parent) in
  si_fault s = false -> si_wiped s = false -> run_odd ev ops (isys_init sp g inputs parent) = false ->
  run_odd2 ev ops (isys_init sp g inputs parent) = false ->
  In (wstatus (c_ws (si_c s))) [S_PAUSED; S_CANCELED] -> si_inflight s = [].
Proof. exact paused_canceled_idle. Qed.
Print Assumptions C02e_paused_canceled_idle.

(* ------------------------------------------------------------------ non-vacuity *)
Module C02eExamples.
Import C12bExamples.

Example monitors_silent :
  let r1 := [IBoot; IPoll; It "w" 1 S_SUCCEEDED; IPoll; It "w" 0 S_SUCCEEDED; It "w" 2 S_SUCCEEDED; IPoll;
             It "w" 3 S_SUCCEEDED; Pl "p" S_SUCCEEDED; IPoll; Pl "z" S_SUCCEEDED] in
  let r2 := [IBoot; IPoll; IRequest S_PAUSING; It "w" 0 S_SUCCEEDED; It "w" 1 S_SUCCEEDED; Pl "p" S_SUCCEEDED; IPoll;
             IRequest S_RESUMING; IPoll] in
  let r3 := [IBoot; IPoll; IRequest S_CANCELING; It "w" 0 S_SUCCEEDED; It "w" 1 S_SUCCEEDED; Pl "p" S_SUCCEEDED; IPoll] in
  run_odd ev_it r1 (isys_init spec1 graph1 [] []) = false /\ run_odd2 ev_it r1 (isys_init spec1 graph1 [] []) = false /\
  run_odd ev_it r2 (isys_init spec1 graph1 [] []) = false /\ run_odd2 ev_it r2 (isys_init spec1 graph1 [] []) = false /\
  run_odd ev_it r3 (isys_init spec1 graph1 [] []) = false /\ run_odd2 ev_it r3 (isys_init spec1 graph1 [] []) = false /\
  run_odd2 ev_it [IBoot; IPoll] (isys_init spec0 graph0 [] []) = false.
Proof. repeat split; vm_compute; reflexivity. Qed.

(* the theorem applies: pause with items in flight -- pausing while they are out, paused and idle once they are back *)
Example paused_is_idle :
  let s1 := isys_run ev_it [IBoot; IPoll; IRequest S_PAUSING; It "w" 0 S_SUCCEEDED] (isys_init spec1 graph1 [] []) in
  let s2 := isys_run ev_it [IBoot; IPoll; IRequest S_PAUSING; It "w" 0 S_SUCCEEDED; It "w" 1 S_SUCCEEDED; Pl "p" S_SUCCEEDED] (isys_init spec1 graph1 [] []) in
  wstatus (c_ws (si_c s1)) = S_PAUSING /\ si_inflight s1 = [("p", 0, None); ("w", 0, Some 1)] /\
  wstatus (c_ws (si_c s2)) = S_PAUSED /\ si_inflight s2 = [] /\ has_active_tasks (c_ws (si_c s2)) = false.
Proof. repeat split; vm_compute; reflexivity. Qed.

End C02eExamples.
