(* C02f -- C02, last sentence, the fail command, composed: a whole provider call whose satisfied transitions queue the
   engine command `fail` leaves the workflow failed -- or in the cancel class.  Property theorem only
   (proofs/FailCallProofs.v); it composes C02c_fail_command_call_fails with the two facts left open there:
   - the workflow machine's step for the completing task does not make the workflow succeeded, because `fail` is a next
     task of it (the edge's decision is recorded true: C02_succeeded_only_when_all_done);
   - the (fail, route) the engine delivers has no record yet (a route opened by this call, or a first visit:
     cmds_unvisited). *)
From Coq Require Import String List Bool ZArith.
From Orq Require Import GenStatuses GenEvents GenTables Base State Machines Conductor Api F_tables
  RetryProofs FrozenProofs JustifiedProofs NoInternalProofs LateProofs FailProofs Late2Proofs FailCallProofs.
Import ListNotations.
Open Scope string_scope.

(* [F] for every evaluator (eval_no_internal): a provider's completion report EvAction st (st completed) for a plain
   task whose record is running / pausing / canceling and has no retry to spend, in a well-formed state (WF, static_ok)
   whose workflow is running, pausing, paused or resuming; the task's transitions have distinct (target, key) ids (true of
   every composed graph), `fail` is no join, and the commands on the task's own route are visited for the first time.
   "The call's transitions queue `fail`" is said with the call's own pieces: the queue that uts_queue returns after the
   call's prefix starts with ("fail", rt) -- `fail` is delivered first whenever the task has no edge to `continue`,
   the edges being followed in the order of their targets' names.  If the call returns, the workflow is FAILED, or
   CANCELING / CANCELED (possible only when the task's own event put it there: the task was reported canceled, or a
   cancellation was in progress among the other tasks). *)
Theorem C02f_queued_fail_fails_call : forall ev, eval_no_internal ev ->
  forall t route st res ts idx r s c c' c1 p c2 q rt,
  WF c -> static_ok (c_spec c) (c_graph c) -> in_progress (wstatus (c_ws c)) ->
  NoDup (map trid_of (g_next_transitions (c_graph c) t)) -> g_has_barrier (c_graph c) "fail" = false ->
  cmds_unvisited c t route ->
  is_engine_command t = false -> g_has_task (c_graph c) t = true ->
  spec_get_task (c_spec c) t = Some ts -> task_has_items ts = false ->
  ws_task_idx (c_ws c) t route = Some idx -> nth_error (sequence (c_ws c)) idx = Some r ->
  r_status r = Some s -> In s [S_RUNNING; S_PAUSING; S_CANCELING] ->
  status_in st COMPLETED_STATUSES = true -> no_retry_left r ->
  update_task_state ev t route (EvAction st res) c = (c', Val tt) ->
  uts_prefix ev t route (EvAction st res) c = (c1, Val p) ->
  uts_queue ev t route (po_idx p) (po_ts p) (po_old p) (po_new p) (po_compl p) c1 = (c2, Val (("fail", rt) :: q)) ->
  In (wstatus (c_ws c')) [S_FAILED; S_CANCELING; S_CANCELED].
Proof. exact queued_fail_fails_call. Qed.
Print Assumptions C02f_queued_fail_fails_call.

(* [F] the fact behind the first point: every command the queue holds comes from an edge of the task whose decision is
   recorded true in the state the queue is returned in *)
Theorem C02f_queue_records_true : forall ev t route idx ts o n compl c c' q,
  uts_queue ev t route idx ts o n compl c = (c', Val q) -> NoDup (map trid_of (g_next_transitions (c_graph c) t)) ->
  (exists r, nth_error (sequence (c_ws c)) idx = Some r) ->
  forall p, In p q ->
    exists e r', In e (g_next_transitions (c_graph c) t) /\ e_dst e = fst p /\ nth_error (sequence (c_ws c')) idx = Some r' /\
                 aget trid_eqb (trid_of e) (r_next r') = Some true.
Proof. exact queue_records_true. Qed.
Print Assumptions C02f_queue_records_true.

(* ------------------------------------------------------------------ example (the whole call, by computation) *)

Module C02fExamples.
Definition ev_toy (s : string) (ctx : dict) : evalres :=
  if String.eqb s "<% failed() %>" then EvOk (JBool true) else EvOk (JStr s).
Definition plain nxt : task_spec :=
  {| ts_action := JStr "core.noop"; ts_input := JDict []; ts_with := None; ts_delay := JNull; ts_join := JNull; ts_next := nxt |}.
Definition node n := {| n_id := n; n_barrier := JNull; n_splits := None; n_retry := JNull |}.
Definition act t st := OpEvent t 0 (EvAction st JNull).
Definition mk sp g : cstate :=
  {| c_spec := sp; c_graph := g; c_inputs := []; c_parent := []; c_init := false; c_ws := empty_ws;
     c_errors := []; c_log := []; c_output := None |}.
(* t1's failure is handled by `do: t2, fail` *)
Definition specB : wf_spec :=
  {| wf_input := []; wf_vars := []; wf_output := [];
     wf_tasks := [("t1", plain [{| tr_when := JStr "<% failed() %>"; tr_publish := []; tr_do := ["t2"; "fail"] |}]); ("t2", plain [])] |}.
Definition graphB : graph :=
  {| g_nodes := [node "t1"; node "t2"; node "fail"];
     g_edges := [{| e_src := "t1"; e_dst := "fail"; e_key := 0; e_ref := 0; e_criteria := [JStr "<% failed() %>"] |};
                 {| e_src := "t1"; e_dst := "t2"; e_key := 0; e_ref := 0; e_criteria := [JStr "<% failed() %>"] |}] |}.
Definition runningB := run_ops ev_toy [OpRequest S_RUNNING; OpGetNext; act "t1" S_RUNNING] (mk specB graphB).
(* the decidable hypotheses hold, the queue of the call starts with ("fail", 0), and the workflow ends failed *)
Example fail_is_queued_first_and_fails :
  WF_b runningB = true /\ static_ok_b specB graphB = true /\ g_has_barrier graphB "fail" = false /\
  map trid_of (g_next_transitions graphB "t1") = [("fail", 0); ("t2", 0)] /\
  cmd_edges_on_route runningB "t1" 0 = [{| e_src := "t1"; e_dst := "fail"; e_key := 0; e_ref := 0; e_criteria := [JStr "<% failed() %>"] |}] /\
  ws_task_idx (c_ws runningB) "fail" 0 = None /\
  (match uts_prefix ev_toy "t1" 0 (EvAction S_FAILED JNull) runningB with
   | (c1, Val p) => snd (uts_queue ev_toy "t1" 0 (po_idx p) (po_ts p) (po_old p) (po_new p) (po_compl p) c1)
   | _ => Val []
   end) = Val [("fail", 0)] /\
  snd (update_task_state ev_toy "t1" 0 (EvAction S_FAILED JNull) runningB) = Val tt /\
  wstatus (c_ws (fst (update_task_state ev_toy "t1" 0 (EvAction S_FAILED JNull) runningB))) = S_FAILED.
Proof. repeat (split; [vm_compute; reflexivity|]). vm_compute; reflexivity. Qed.
End C02fExamples.
