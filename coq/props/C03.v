(* C03 -- No stuck workflow: quiescence implies a resting status.  Property theorems only. *)
From Coq Require Import String List Bool.
From Orq Require Import GenStatuses GenTables Base State Machines Conductor Api F_tables F_names C02C03Proofs C04Proofs C09C10Proofs OffersProofs.
Import ListNotations.
Open Scope string_scope.

(* [F] the last report puts the workflow to rest: when the event of a task that has stopped running is
   processed while no task execution is active, a pausing or canceling workflow becomes paused / canceled
   (or completes): it never stays transitional with nothing in flight *)
Theorem C03_last_report_rests : forall t route st c c' unr,
  In st settled_statuses ->
  has_active_tasks (c_ws c) = false ->
  In (wstatus (c_ws c)) [S_PAUSING; S_CANCELING] ->
  wf_task_event_M t route st c = (c', Val unr) ->
  ~ In (wstatus (c_ws c')) [S_PAUSING; S_CANCELING; S_RESUMING].
Proof. exact settled_event_with_nothing_active_rests. Qed.
Print Assumptions C03_last_report_rests.

(* [F] table level, swept over every status and every contextualised name: a dormant settled task event is
   always accepted from pausing and canceling, and wherever it is accepted it leads to a resting status *)
Theorem C03_dormant_event_accepted : forall s st r c p m,
  In s [S_PAUSING; S_CANCELING] -> In st settled_statuses ->
  exists t, tbl_step wf_table s (task_event_name_of st r false c p m) = Some t.
Proof. exact F_dormant_event_accepted. Qed.
Print Assumptions C03_dormant_event_accepted.

Theorem C03_dormant_event_rests : forall s st r c p m t,
  In st settled_statuses -> tbl_step wf_table s (task_event_name_of st r false c p m) = Some t ->
  ~ In t [S_PAUSING; S_CANCELING; S_RESUMING].
Proof. exact F_dormant_event_rests. Qed.
Print Assumptions C03_dormant_event_rests.

(* [F] resume of a paused workflow with nothing left completes it instead of leaving it resuming (the
   table entries exist) *)
Theorem C03_resume_completed_rows :
  tbl_step wf_table S_PAUSED "workflow_resuming_workflow_completed" = Some S_SUCCEEDED /\
  tbl_step wf_table S_PAUSED "workflow_running_workflow_completed" = Some S_SUCCEEDED.
Proof. destruct F_wf_resume_request as [_ [_ [A [B _]]]]; split; assumption. Qed.
Print Assumptions C03_resume_completed_rows.

(* [F] what is on offer comes from staging: a running workflow with a ready staged entry is not quiescent
   because get_next_tasks considers exactly the ready, not-completed staged entries (C01) *)
Theorem C03_offers_are_the_ready_staged : forall ev c c' l, c_init c = true -> get_next_tasks ev c = (c', Val l) ->
  forall o, In o l -> exists s, In s (staged (c_ws c)) /\ s_ready s = true /\ s_completed s = false /\
                                o_id o = s_id s /\ o_route o = s_route s.
Proof. exact offers_are_staged. Qed.
Print Assumptions C03_offers_are_the_ready_staged.

(* NOT PROVED (tested by monitor c03 with a side-effect-free poll at every quiescent point): that a ready
   staged entry always renders to at least one action (or fails the workflow), and the with-items /
   retry / rerun cases (known findings D1, D9). *)
