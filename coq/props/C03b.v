(* C03b -- C03, the protocol form: "whenever no action is in flight at the provider and the conductor offers no
   further task, the workflow status is succeeded, failed, canceled or paused; equivalently, a workflow that
   reports running, resuming, pausing or canceling always has an action in flight or a task on offer".
   Property theorems only; protocol in model/ProviderSys.v, proofs in proofs/SysProofs.v, proofs/SysNextProofs.v.
   Scope as in C02b: every evaluator, every definition without with-items tasks, every graph passing
   [sys_graph_ok], every protocol history from the fresh conductor in which no conductor call raised. *)
From Coq Require Import String List Bool ZArith.
From Orq Require Import GenStatuses GenTables Base State Machines Conductor Api Driver ProviderSys.
From Orq Require Import F_tables F_names F_sys SysProofs SysNextProofs C02b.
Import ListNotations.
Open Scope string_scope.

(* [F] quiescence implies rest.  At every protocol-step boundary with nothing in flight: if the poll
   (get_next_tasks) returns no offer, then after that poll the workflow status is succeeded, failed, canceled or
   paused -- or still unset, i.e. the workflow was never started (no Boot yet).  The status is read after the
   poll because get_next_tasks itself fails the workflow when the task on offer cannot be rendered (this is also
   what monitor c03 reads). *)
Theorem C03b_quiescent_rests : forall ev sp g inputs parent,
  no_items sp = true -> sys_graph_ok g = true ->
  forall ops c1, let s := sys_run ev ops (sys_init sp g inputs parent) in
  s_fault s = false -> s_inflight s = [] -> get_next_tasks ev (s_c s) = (c1, Val []) ->
  In (wstatus (c_ws c1)) [S_SUCCEEDED; S_FAILED; S_CANCELED; S_PAUSED; S_UNSET].
Proof. exact C03_quiescent_rests. Qed.
Print Assumptions C03b_quiescent_rests.

(* [F] the equivalent form: a workflow that reports running, resuming, pausing or canceling has an action in flight,
   or the poll offers a task, or the poll fails the workflow (the task on offer cannot be rendered) *)
Theorem C03b_transitional_has_work : forall ev sp g inputs parent,
  no_items sp = true -> sys_graph_ok g = true ->
  forall ops c1 offers, let s := sys_run ev ops (sys_init sp g inputs parent) in
  s_fault s = false -> In (wstatus (c_ws (s_c s))) [S_RUNNING; S_RESUMING; S_PAUSING; S_CANCELING] ->
  get_next_tasks ev (s_c s) = (c1, Val offers) ->
  s_inflight s <> [] \/ offers <> [] \/ wstatus (c_ws c1) = S_FAILED.
Proof. exact C03_transitional_has_work. Qed.
Print Assumptions C03b_transitional_has_work.

(* [F] "paused only following a pause request (or a paused or pending task)": the protocol of this file has no
   pending / paused action reports, so the clause reads: a workflow that reports pausing or paused was asked to --
   the history contains a Request pausing or Request paused *)
Theorem C03b_paused_only_after_pause_request : forall ev sp g inputs parent,
  no_items sp = true -> sys_graph_ok g = true ->
  forall ops, let s := sys_run ev ops (sys_init sp g inputs parent) in
  s_fault s = false -> In (wstatus (c_ws (s_c s))) [S_PAUSING; S_PAUSED] ->
  existsb pause_request ops = true.
Proof. exact C03_paused_needs_request. Qed.
Print Assumptions C03b_paused_only_after_pause_request.

(* ------------------------------------------------------------------ the hypotheses cannot be dropped *)

Module C03bWitnesses.
Import C02bExamples.

(* [R] without a start task the statement is false.  Definition (every task has an inbound transition):
     tasks:
       a: { action: core.noop, next: [ {do: [b]} ] }
       b: { action: core.noop, next: [ {do: [a]} ] }
   graph: nodes a, b; edges a->b (key 0), b->a (key 0).  History: Boot.  The workflow reports running, nothing is
   staged, nothing is in flight, get_next_tasks offers nothing and leaves it running: stuck.  (orquesta's
   inspection rejects such a definition; the conductor does not.)  Every other conjunct of sys_graph_ok holds. *)
Definition spec_cycle : wf_spec := {| wf_input := []; wf_vars := []; wf_output := [];
  wf_tasks := [("a", mk_task JNull [tr JNull ["b"]]); ("b", mk_task JNull [tr JNull ["a"]])] |}.
Definition graph_cycle : graph :=
  {| g_nodes := [nd "a" JNull; nd "b" JNull]; g_edges := [ed "a" "b" 0 0 []; ed "b" "a" 0 0 []] |}.

Theorem C03b_refuted_without_start_task :
  no_items spec_cycle = true /\ cmds_inert_b graph_cycle = true /\ roots_not_cmds_b graph_cycle = true /\
  edge_keys_unique_b graph_cycle = true /\ has_root_b graph_cycle = false /\
  let s := sys_run ev_ex [Boot] (sys_init spec_cycle graph_cycle [] []) in
  s_fault s = false /\ s_inflight s = [] /\ wstatus (c_ws (s_c s)) = S_RUNNING /\
  exists c1, get_next_tasks ev_ex (s_c s) = (c1, Val []) /\ wstatus (c_ws c1) = S_RUNNING.
Proof.
  repeat split; try (vm_compute; reflexivity).
  eexists. split; vm_compute; reflexivity.
Qed.

(* [R] without "no conductor call raised" the statement is false in the model: an evaluator that answers with an
   exception that is NOT an expression-evaluation error (C11 shows the real evaluators never do; checked at run
   time) makes update_task_state raise half-way through the transitions.  Definition:
     tasks:
       a: { action: core.noop, next: [ {publish: [x: boom], do: [b]} ] }
       b: { action: core.noop }
   History: Boot; Poll; Report a succeeded.  The report raises after a's record was completed and before b was
   staged: the fault flag is set, nothing is in flight, nothing is on offer, and the workflow stays running. *)
Definition ev_bad (s : string) (ctx : dict) : evalres :=
  if String.eqb s "boom" then EvErr {| x_cls := "RuntimeError"; x_msg := "not an expression error"; x_expr := false |}
  else EvOk (JStr s).
Definition spec_pub : wf_spec := {| wf_input := []; wf_vars := []; wf_output := [];
  wf_tasks := [("a", mk_task JNull [{| tr_when := JNull; tr_publish := [("x", JStr "boom")]; tr_do := ["b"] |}]);
               ("b", mk_task JNull [])] |}.
Definition graph_pub : graph :=
  {| g_nodes := [nd "a" JNull; nd "b" JNull]; g_edges := [ed "a" "b" 0 0 []] |}.

Theorem C03b_refuted_after_a_fault :
  no_items spec_pub = true /\ sys_graph_ok graph_pub = true /\
  let s := sys_run ev_bad [Boot; Poll; Report "a" 0 S_SUCCEEDED JNull] (sys_init spec_pub graph_pub [] []) in
  s_fault s = true /\ s_inflight s = [] /\
  exists c1, get_next_tasks ev_bad (s_c s) = (c1, Val []) /\ wstatus (c_ws c1) = S_RUNNING.
Proof.
  repeat split; try (vm_compute; reflexivity).
  eexists. split; vm_compute; reflexivity.
Qed.

(* the same definition under an evaluator whose failure IS an expression error: contained, the workflow fails,
   no fault, and the theorem applies *)
Definition ev_expr_err (s : string) (ctx : dict) : evalres :=
  if String.eqb s "boom" then EvErr {| x_cls := "YaqlEvaluationException"; x_msg := "boom"; x_expr := true |}
  else EvOk (JStr s).
Example contained_error_fails_the_workflow :
  let s := sys_run ev_expr_err [Boot; Poll; Report "a" 0 S_SUCCEEDED JNull] (sys_init spec_pub graph_pub [] []) in
  s_fault s = false /\ s_inflight s = [] /\ wstatus (c_ws (s_c s)) = S_FAILED.
Proof. repeat split; vm_compute; reflexivity. Qed.

(* ---- non-vacuity on the fork / join / failure-handler workflow of C02b ---- *)

(* an unhandled failure ("zz" matches neither transition of a): failed, quiescent *)
Example unhandled_failure_rests :
  let s := sys_run ev_ex [Boot; Poll; Report "a" 0 S_FAILED (JStr "zz")] s0 in
  s_fault s = false /\ s_inflight s = [] /\ snd (get_next_tasks ev_ex (s_c s)) = Val [] /\ wstatus (c_ws (s_c s)) = S_FAILED.
Proof. repeat split; vm_compute; reflexivity. Qed.

(* in the middle of the fork-join nothing is in flight after b and c reported, and the join d is on offer *)
Example join_is_on_offer :
  let s := sys_run ev_ex [Boot; Poll; Report "a" 0 S_SUCCEEDED ok; Poll; Report "b" 0 S_SUCCEEDED JNull;
                          Report "c" 0 S_SUCCEEDED JNull] s0 in
  s_fault s = false /\ s_inflight s = [] /\ wstatus (c_ws (s_c s)) = S_RUNNING /\
  match snd (get_next_tasks ev_ex (s_c s)) with Val l => map (fun o => (o_id o, o_route o)) l | Exc _ => [] end = [("d", 0)].
Proof. repeat split; vm_compute; reflexivity. Qed.

(* the theorem applied: every quiescent point of this history is at rest *)
Example quiescent_point_of_the_run : forall c1,
  let s := sys_run ev_ex [Boot; Poll; Report "a" 0 S_FAILED (JStr "ko"); Poll; Report "h" 0 S_SUCCEEDED JNull] s0 in
  get_next_tasks ev_ex (s_c s) = (c1, Val []) ->
  In (wstatus (c_ws c1)) [S_SUCCEEDED; S_FAILED; S_CANCELED; S_PAUSED; S_UNSET].
Proof.
  intros c1. apply (C03b_quiescent_rests ev_ex spec1 graph1 [] [] (proj1 hypotheses_hold) (proj2 hypotheses_hold));
    vm_compute; reflexivity.
Qed.

End C03bWitnesses.
