(* C03d -- C03 for the provider protocol WITH with-items tasks (model/ProviderSysItems.v): QUIESCENCE.
   C03b: "when nothing is in flight and a poll offers nothing, the workflow is in a resting status".  With with-items
   tasks the statement is FALSE, by finding D24 alone as far as is known: [C03d_quiescence_refuted_by_D24] is the
   counterexample as a theorem (no fault, no wipe, monitor silent).  What remains true and is proved:
     - while the workflow is pausing / paused / canceling / canceled a poll offers nothing and changes nothing
       (C12b_no_items_offered_when_held), so such a state, once quiescent, stays quiescent;
     - at a quiescent state no item slot of any staged table is active (C03d_quiescent_no_active_slot): what is left of a
       with-items task at quiescence is a record and a table whose items are finished or were never offered.
   Not proved: that D24 is the ONLY obstruction (quiescent, not resting  =>  the workflow is pausing or canceling by a
   task event and a staged with-items entry has an item never offered).  It needs the status-linked invariant of
   proofs/SysProofs.v ([kinv]) for states with item tables; see props/C02d.v. *)
From Coq Require Import String List Bool ZArith Arith.
From Orq Require Import GenStatuses GenTables Base State Machines Conductor Api Driver ProviderSys ProviderSysItems ProviderSysItemsMon Composer.
From Orq Require Import F_tables F_names F_sys F_sysitems SysProofs SysNextProofs SysItemsProofs SysItemsRecProofs.
From Orq Require Import C12b.
Import ListNotations.
Open Scope string_scope.

(* [F] nothing in flight: no staged item table has an active slot *)
Theorem C03d_quiescent_no_active_slot : forall ev sp g inputs parent ops,
  let s := isys_run ev ops (isys_init sp g inputs parent) in
  si_fault s = false -> si_wiped s = false -> si_inflight s = [] ->
  forall e l i st, In e (staged (c_ws (si_c s))) -> s_items e = Some l -> nth_error l i = Some st ->
  status_in st ACTIVE_STATUSES = false.
Proof.
  intros ev sp g inputs parent ops s Hf Hw HF e l i st He Hl Hn.
  destruct (status_in st ACTIVE_STATUSES) eqn:E; [|reflexivity].
  destruct (proj1 (proj2 (items_link ev sp g inputs parent ops Hf Hw)) e l i st He Hl Hn E) as [_ X].
  change (In (s_id e, s_route e, Some i) (si_inflight s)) in X. rewrite HF in X. destruct X.
Qed.
Print Assumptions C03d_quiescent_no_active_slot.

(* [R] quiescent and not resting: finding D24.  Definition (C12bExamples.spec1):
     tasks:
       w: { with: { items: items4, concurrency: 2 }, action: core.echo, next: [ {do: [z]} ] }
       p: { action: core.noop }
       z: { action: core.noop }
   History: Boot; Poll; Report p canceled; Report w[0] succeeded; Report w[1] succeeded.  p ending canceled makes the
   workflow canceling; items 2 and 3 of w are never offered; nothing is in flight; a poll offers nothing; the workflow
   is canceling and the record of w running -- for ever. *)
Theorem C03d_quiescence_refuted_by_D24 :
  let ops := [IBoot; IPoll; C12bExamples.Pl "p" S_CANCELED; C12bExamples.It "w" 0 S_SUCCEEDED; C12bExamples.It "w" 1 S_SUCCEEDED] in
  let s := isys_run C12bExamples.ev_it ops (isys_init C12bExamples.spec1 C12bExamples.graph1 [] []) in
  si_fault s = false /\ si_wiped s = false /\ run_odd C12bExamples.ev_it (app ops [IPoll]) (isys_init C12bExamples.spec1 C12bExamples.graph1 [] []) = false /\
  si_inflight s = [] /\ snd (get_next_tasks C12bExamples.ev_it (si_c s)) = Val [] /\
  wstatus (c_ws (si_c s)) = S_CANCELING /\
  option_map r_status (ws_task_entry (c_ws (si_c s)) "w" 0) = Some (Some S_RUNNING) /\
  items_of (si_c s) "w" 0 = Some [S_SUCCEEDED; S_SUCCEEDED; S_UNSET; S_UNSET].
Proof. repeat split; vm_compute; reflexivity. Qed.
Print Assumptions C03d_quiescence_refuted_by_D24.
