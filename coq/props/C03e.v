(* C03e -- C02 / C03 for the provider protocol WITH with-items tasks, third part: "whenever the workflow reports pausing
   or canceling at least one task execution is still active", and what is left of the quiescence claim.  Property
   theorems only; proofs are in proofs/SysItemsBusyProofs.v.
   Hypotheses: [si_fault = false], [si_wiped = false] only -- no monitor, no hypothesis on the definition or the graph.

   PROVED
     C03e_pausing_canceling_has_active_task   pausing / canceling  =>  has_active_tasks = true (a pointed task record has an
                                              active status).  With C02e_paused_canceled_no_active_task the workflow machine
                                              is truthful about the task records in all four pause / cancel statuses.
     C03e_records_use_item_statuses           every record of the task list has one of the statuses running, pausing,
                                              paused, canceling, canceled, succeeded, failed, retrying (or none yet).
     C03e_held_and_idle_is_a_stuck_task       pausing / canceling with nothing in flight  =>  the conductor counts an active
                                              task execution although no action of it is out: the D24 situation.
   NOT PROVED: that this situation arises only as finding D24 describes it (the workflow entered pausing / canceling
   through a TASK event while a with-items entry had items never offered), i.e. "pausing / canceling => something in
   flight, or the D24 flag", and "quiescent and not resting => the D24 flag".  Missing: the backward link (an active
   record has an action in flight or is a with-items record whose table has no active slot) and the invariant that a
   status request tells every active with-items record (so that an untold, idle, active record can only date from a
   task-driven pause / cancel); for running / resuming also that an entry with unoffered items is offered by the next
   poll.  The table facts they need are in facts/F_sysitems.v (F_held_needs_active_task / _request,
   F_rest_needs_dormant_task / _request).  Underneath the theorem above: for every task status the protocol uses, every
   flag combination and every workflow status, a task event leaves the workflow pausing / canceling only when a task is
   active, and a status request changes it to pausing / canceling only then (a rejected request restores the task
   statuses it touched). *)
From Coq Require Import String List Bool ZArith Arith.
From Orq Require Import GenStatuses GenTables Base State Machines Conductor Api Driver ProviderSys ProviderSysItems Composer.
From Orq Require Import F_tables F_names F_sys F_sysitems SysProofs SysNextProofs SysItemsProofs SysItemsRecProofs SysItemsIdleProofs SysItemsBusyProofs.
From Orq Require Import C12b.
Import ListNotations.
Open Scope string_scope.

Theorem C03e_pausing_canceling_has_active_task : forall ev sp g inputs parent ops,
  let s := isys_run ev ops (isys_init sp g inputs parent) in
  si_fault s = false -> si_wiped s = false ->
  In (wstatus (c_ws (si_c s))) [S_PAUSING; S_CANCELING] -> has_active_tasks (c_ws (si_c s)) = true.
Proof. exact held_has_active_task. Qed.
Print Assumptions C03e_pausing_canceling_has_active_task.

Theorem C03e_records_use_item_statuses : forall ev sp g inputs parent ops,
  let s := isys_run ev ops (isys_init sp g inputs parent) in
  si_fault s = false -> si_wiped s = false ->
  forall i rec, nth_error (sequence (c_ws (si_c s))) i = Some rec ->
  ostatus_in (r_status rec) UNUSED_STATUSES = false /\ r_status rec <> Some S_UNSET.
Proof. exact records_use_item_statuses. Qed.
Print Assumptions C03e_records_use_item_statuses.

Theorem C03e_held_and_idle_is_a_stuck_task : forall ev sp g inputs parent ops,
  let s := isys_run ev ops (isys_init sp g inputs parent) in
  si_fault s = false -> si_wiped s = false ->
  In (wstatus (c_ws (si_c s))) [S_PAUSING; S_CANCELING] -> si_inflight s = [] ->
  exists i rec, nth_error (sequence (c_ws (si_c s))) i = Some rec /\ ostatus_in (r_status rec) ACTIVE_STATUSES = true /\
                ws_pointed (c_ws (si_c s)) i = true /\ forall item, ~ In (r_id rec, r_route rec, item) (si_inflight s).
Proof.
  intros ev sp g inputs parent ops s Hf Hw Hin HF.
  pose proof (held_has_active_task ev sp g inputs parent ops Hf Hw Hin) as Ha. apply has_active_HA in Ha.
  destruct Ha as [i [r [A [B C]]]]. exists i, r. split; [exact A|]. split; [exact B|]. split; [exact C|].
  intros item X. fold s in HF. rewrite HF in X. destruct X.
Qed.
Print Assumptions C03e_held_and_idle_is_a_stuck_task.

Module C03eExamples.
Import C12bExamples.

(* the D24 run: canceling, nothing in flight, and the theorem's active task is w, running, two items never offered *)
Example d24_is_the_stuck_task :
  let s := isys_run ev_it [IBoot; IPoll; Pl "p" S_CANCELED; It "w" 0 S_SUCCEEDED; It "w" 1 S_SUCCEEDED] (isys_init spec1 graph1 [] []) in
  wstatus (c_ws (si_c s)) = S_CANCELING /\ si_inflight s = [] /\ has_active_tasks (c_ws (si_c s)) = true /\
  map (fun r => (r_id r, r_status r)) (sequence (c_ws (si_c s))) = [("p", Some S_CANCELED); ("w", Some S_RUNNING)].
Proof. repeat split; vm_compute; reflexivity. Qed.

(* a pause REQUEST with items in flight: pausing while an item is out (an active record), paused afterwards *)
Example pause_request_is_truthful :
  let s1 := isys_run ev_it [IBoot; IPoll; IRequest S_PAUSING; It "w" 0 S_SUCCEEDED] (isys_init spec1 graph1 [] []) in
  let s2 := isys_run ev_it [IBoot; IPoll; IRequest S_PAUSING; It "w" 0 S_SUCCEEDED; It "w" 1 S_SUCCEEDED; Pl "p" S_SUCCEEDED] (isys_init spec1 graph1 [] []) in
  wstatus (c_ws (si_c s1)) = S_PAUSING /\ has_active_tasks (c_ws (si_c s1)) = true /\
  wstatus (c_ws (si_c s2)) = S_PAUSED /\ has_active_tasks (c_ws (si_c s2)) = false.
Proof. repeat split; vm_compute; reflexivity. Qed.

End C03eExamples.
