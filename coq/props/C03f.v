(* C03f -- C02 / C03 for the provider protocol WITH with-items tasks, fourth part: finding D24 as a COMPUTED FLAG, and the
   two statements C03e left open.  Property theorems only; proofs are in proofs/SysItemsStuckProofs.v.

   The flag (model/ProviderSysItemsMon3.v, executable): [run_d24 ev ops s0] is raised when, somewhere along the history, a
   step that is NOT a status request (a poll, a report, a render, a persist -- a task event) takes the workflow from a
   status other than pausing / canceling into pausing or canceling while some staged with-items entry has an item that
   was never offered (its slot is neither active nor completed) and the task record of that entry is running.  That task
   was not told to pause / cancel -- only a status request tells the active tasks.

   Hypotheses: [si_fault = false], [si_wiped = false], the first monitor [run_odd = false] (model/ProviderSysItemsMon.v:
   no resized offer, no kind clash, no engine command offered, no stale acknowledgement) and, for the first three
   theorems below, [run_d24 = false].  The second monitor (run_odd2) is NOT needed.

   PROVED
     C03f_pausing_canceling_has_action_in_flight   pausing / canceling, flag down  =>  some action is in flight.
     C03f_pausing_canceling_idle_is_flagged        pausing / canceling with nothing in flight  =>  the flag is up:
                                                   "quiescent and not resting => the D24 flag" for the two statuses in
                                                   which a poll offers nothing (C12b_no_items_offered_when_held).
     C03f_pausing_canceling_no_untold_task         pausing / canceling, flag down  =>  no running task record has a staged
                                                   item table with an item never offered (every such task was told).
     C03f_active_record_backed                     (no flag needed) the backward link: behind every active record of a
                                                   task that is not an engine command there is an action of the task in
                                                   flight, or the record is running and its staged item table has an
                                                   item never offered.
   Underneath: one pointer per (task, route) and engine-command records never active (ND, CM); the exact effect of a
   status request on every record (rq_char: refused => all statuses restored and the workflow status unchanged;
   otherwise every pointed active record is given the request once, the others are untouched, and the workflow reports
   pausing / canceling only after a pause / cancel request); facts F_dormant_report, F_told_active, F_told_dormant,
   F_told_stays, F_plain_any, F_running_base of facts/F_sysitems.v.

   NOT PROVED: "quiescent and not resting => flag" for the statuses running / resuming (nothing in flight, a poll offers
   nothing, the workflow says running or resuming).  By C03f_active_record_backed every active record is then running
   with an item never offered, so what is missing is liveness of the offer: that get_next_tasks offers an item of a
   staged ready entry with a never-offered slot when the workflow is running / resuming and the record is running.  The
   sweep candidate noted earlier (workflow resuming, a task reports paused, nothing staged ready) needs a with-items
   entry that is not staged ready although it has a table, which the protocol never produces without a wipe. *)
From Coq Require Import String List Bool ZArith Arith.
From Orq Require Import GenStatuses GenTables Base State Machines Conductor Api Driver ProviderSys ProviderSysItems ProviderSysItemsMon ProviderSysItemsMon3 Composer.
From Orq Require Import F_tables F_names F_sys F_sysitems SysProofs SysNextProofs SysItemsProofs SysItemsRecProofs SysItemsStuckProofs.
From Orq Require Import C12b.
Import ListNotations.
Open Scope string_scope.

Theorem C03f_pausing_canceling_has_action_in_flight : forall ev sp g inputs parent ops,
  let s := isys_run ev ops (isys_init sp g inputs parent) in
  si_fault s = false -> si_wiped s = false -> run_odd ev ops (isys_init sp g inputs parent) = false ->
  run_d24 ev ops (isys_init sp g inputs parent) = false ->
  In (wstatus (c_ws (si_c s))) [S_PAUSING; S_CANCELING] -> exists k, In k (si_inflight s).
Proof. exact held_has_flight. Qed.
Print Assumptions C03f_pausing_canceling_has_action_in_flight.

Theorem C03f_pausing_canceling_idle_is_flagged : forall ev sp g inputs parent ops,
  let s := isys_run ev ops (isys_init sp g inputs parent) in
  si_fault s = false -> si_wiped s = false -> run_odd ev ops (isys_init sp g inputs parent) = false ->
  In (wstatus (c_ws (si_c s))) [S_PAUSING; S_CANCELING] -> si_inflight s = [] ->
  run_d24 ev ops (isys_init sp g inputs parent) = true.
Proof. exact held_idle_flagged. Qed.
Print Assumptions C03f_pausing_canceling_idle_is_flagged.

Theorem C03f_pausing_canceling_no_untold_task : forall ev sp g inputs parent ops,
  let s := isys_run ev ops (isys_init sp g inputs parent) in
  si_fault s = false -> si_wiped s = false -> run_odd ev ops (isys_init sp g inputs parent) = false ->
  run_d24 ev ops (isys_init sp g inputs parent) = false ->
  In (wstatus (c_ws (si_c s))) [S_PAUSING; S_CANCELING] ->
  forall t r rec l, is_engine_command t = false -> ws_task_entry (c_ws (si_c s)) t r = Some rec ->
    r_status rec = Some S_RUNNING -> items_of (si_c s) t r = Some l -> has_open l = false.
Proof. exact held_no_untold_task. Qed.
Print Assumptions C03f_pausing_canceling_no_untold_task.

Theorem C03f_active_record_backed : forall ev sp g inputs parent ops,
  let s := isys_run ev ops (isys_init sp g inputs parent) in
  si_fault s = false -> si_wiped s = false -> run_odd ev ops (isys_init sp g inputs parent) = false ->
  forall t r rec, is_engine_command t = false -> ws_task_entry (c_ws (si_c s)) t r = Some rec ->
    ostatus_in (r_status rec) ACTIVE_STATUSES = true ->
    (exists it, In (t, r, it) (si_inflight s)) \/
    (exists l, items_of (si_c s) t r = Some l /\ r_status rec = Some S_RUNNING /\ has_open l = true).
Proof. exact active_record_backed. Qed.
Print Assumptions C03f_active_record_backed.

(* ---- witnesses, on C12bExamples.spec1:
     tasks:
       w: { with: { items: items4, concurrency: 2 }, action: core.echo, next: [ {do: [z]} ] }
       p: { action: core.noop }
       z: { action: core.noop } ---- *)
Module C03fExamples.
Import C12bExamples.

Definition i0 : isys := isys_init spec1 graph1 [] [].
Definition view (ops : list isys_op) :=
  let s := isys_run ev_it ops i0 in
  (si_fault s, si_wiped s, run_odd ev_it ops i0, run_d24 ev_it ops i0, si_inflight s, wstatus (c_ws (si_c s)),
   option_map r_status (ws_task_entry (c_ws (si_c s)) "w" 0), items_of (si_c s) "w" 0).

(* D24: the flag goes up at the report that makes the workflow canceling (two items of w still out) ... *)
Example flag_raised_by_task_driven_cancel :
  view [IBoot; IPoll; Pl "p" S_CANCELED] =
  (false, false, false, true, [("w", 0, Some 0); ("w", 0, Some 1)], S_CANCELING, Some (Some S_RUNNING),
   Some [S_RUNNING; S_RUNNING; S_UNSET; S_UNSET]).
Proof. vm_compute. reflexivity. Qed.
(* ... and the history ends canceling with nothing in flight, w running, items 2 and 3 never offered *)
Example flag_up_at_the_stuck_state :
  view [IBoot; IPoll; Pl "p" S_CANCELED; It "w" 0 S_SUCCEEDED; It "w" 1 S_SUCCEEDED] =
  (false, false, false, true, [], S_CANCELING, Some (Some S_RUNNING), Some [S_SUCCEEDED; S_SUCCEEDED; S_UNSET; S_UNSET]).
Proof. vm_compute. reflexivity. Qed.

(* the hypotheses of the first theorem are satisfiable: a REQUESTED cancel / pause keeps the flag down, w is told,
   actions are in flight while canceling / pausing, and the workflow comes to rest *)
Example flag_down_on_requested_cancel :
  view [IBoot; IPoll; IRequest S_CANCELING] =
  (false, false, false, false, [("p", 0, None); ("w", 0, Some 0); ("w", 0, Some 1)], S_CANCELING, Some (Some S_CANCELING),
   Some [S_RUNNING; S_RUNNING; S_UNSET; S_UNSET]).
Proof. vm_compute. reflexivity. Qed.
Example requested_cancel_still_canceling :
  view [IBoot; IPoll; IRequest S_CANCELING; It "w" 0 S_SUCCEEDED; It "w" 1 S_SUCCEEDED] =
  (false, false, false, false, [("p", 0, None)], S_CANCELING, Some (Some S_CANCELED), None).
Proof. vm_compute. reflexivity. Qed.
Example requested_cancel_comes_to_rest :
  view [IBoot; IPoll; IRequest S_CANCELING; It "w" 0 S_SUCCEEDED; It "w" 1 S_SUCCEEDED; Pl "p" S_SUCCEEDED] =
  (false, false, false, false, [], S_CANCELED, Some (Some S_CANCELED), None).
Proof. vm_compute. reflexivity. Qed.
Example requested_pause_still_pausing :
  view [IBoot; IPoll; IRequest S_PAUSING; It "w" 0 S_SUCCEEDED; It "w" 1 S_SUCCEEDED] =
  (false, false, false, false, [("p", 0, None)], S_PAUSING, Some (Some S_PAUSED), Some [S_SUCCEEDED; S_SUCCEEDED; S_UNSET; S_UNSET]).
Proof. vm_compute. reflexivity. Qed.
Example requested_pause_comes_to_rest :
  view [IBoot; IPoll; IRequest S_PAUSING; It "w" 0 S_SUCCEEDED; It "w" 1 S_SUCCEEDED; Pl "p" S_SUCCEEDED] =
  (false, false, false, false, [], S_PAUSED, Some (Some S_PAUSED), Some [S_SUCCEEDED; S_SUCCEEDED; S_UNSET; S_UNSET]).
Proof. vm_compute. reflexivity. Qed.

(* the flag is precise about WHICH task event: an item of w itself ending canceled makes w (not running any more)
   and the workflow canceling with items never offered -- flag down, and the workflow comes to rest *)
Example flag_down_when_the_with_items_task_cancels_itself :
  view [IBoot; IPoll; It "w" 0 S_CANCELED] =
  (false, false, false, false, [("p", 0, None); ("w", 0, Some 1)], S_CANCELING, Some (Some S_CANCELING),
   Some [S_CANCELED; S_RUNNING; S_UNSET; S_UNSET]).
Proof. vm_compute. reflexivity. Qed.
Example self_canceled_comes_to_rest :
  view [IBoot; IPoll; It "w" 0 S_CANCELED; It "w" 1 S_SUCCEEDED; Pl "p" S_SUCCEEDED] =
  (false, false, false, false, [], S_CANCELED, Some (Some S_CANCELED), None).
Proof. vm_compute. reflexivity. Qed.

(* the second alternative of the backward link is not vacuous: between two polls of a running workflow, w is running
   with nothing of it in flight and items never offered *)
Example running_record_with_items_never_offered :
  view [IBoot; IPoll; It "w" 0 S_SUCCEEDED; It "w" 1 S_SUCCEEDED] =
  (false, false, false, false, [("p", 0, None)], S_RUNNING, Some (Some S_RUNNING), Some [S_SUCCEEDED; S_SUCCEEDED; S_UNSET; S_UNSET]).
Proof. vm_compute. reflexivity. Qed.

End C03fExamples.
