(* C04 -- Terminal statuses are final and nothing is scheduled after them.
   Property theorems only; proofs are in proofs/C04Proofs.v. *)
From Coq Require Import String List Bool.
From Orq Require Import GenStatuses Base State Machines Conductor Api C04Proofs.
Import ListNotations.

(* [F] for every expression evaluator, every state and every history of API calls without an
   accepted-or-not rerun: failed stays failed, canceled stays canceled, succeeded can only become
   failed.  (run_ops folds api_exec over the history; exceptions leave the state they reached.) *)
Theorem C04_failed_final : forall ev ops c,
  forallb (fun op => negb (is_rerun op)) ops = true ->
  wstatus (c_ws c) = S_FAILED -> wstatus (c_ws (run_ops ev ops c)) = S_FAILED.
Proof. exact failed_is_final. Qed.
Print Assumptions C04_failed_final.

Theorem C04_canceled_final : forall ev ops c,
  forallb (fun op => negb (is_rerun op)) ops = true ->
  wstatus (c_ws c) = S_CANCELED -> wstatus (c_ws (run_ops ev ops c)) = S_CANCELED.
Proof. exact canceled_is_final. Qed.
Print Assumptions C04_canceled_final.

Theorem C04_succeeded_only_to_failed : forall ev ops c,
  forallb (fun op => negb (is_rerun op)) ops = true ->
  wstatus (c_ws c) = S_SUCCEEDED ->
  wstatus (c_ws (run_ops ev ops c)) = S_SUCCEEDED \/ wstatus (c_ws (run_ops ev ops c)) = S_FAILED.
Proof. exact succeeded_only_to_failed. Qed.
Print Assumptions C04_succeeded_only_to_failed.

(* [F] get_next_tasks offers nothing (and changes nothing) in succeeded and canceled; in failed it
   offers nothing unless a staged entry carries the run_on_fail flag *)
Theorem C04_no_offers_when_done : forall ev c, c_init c = true ->
  In (wstatus (c_ws c)) [S_SUCCEEDED; S_CANCELED] -> get_next_tasks ev c = (c, Val []).
Proof. exact no_offers_when_done. Qed.
Print Assumptions C04_no_offers_when_done.

Theorem C04_failed_offers_only_cleanup : forall ev c, c_init c = true -> wstatus (c_ws c) = S_FAILED ->
  filter s_run_on_fail (staged_filtered (c_ws c)) = [] -> get_next_tasks ev c = (c, Val []).
Proof. exact failed_offers_only_cleanup. Qed.
Print Assumptions C04_failed_offers_only_cleanup.
