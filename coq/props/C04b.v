(* C04b -- C04, clause "status requests that the lifecycle forbids are rejected with an error and
   have no effect on the persisted state".  Property theorems only; proofs are in
   proofs/InertProofs.v (and proofs/C09C10Proofs.v for the frame of an accepted request). *)
From Coq Require Import String List Bool.
From Orq Require Import GenStatuses GenTables Base State Machines Conductor Api F_tables C09C10Proofs InertProofs.
Import ListNotations.
Open Scope string_scope.

(* [F] for every expression evaluator, every requested status and every initialised conductor state
   whose workflow status has a row in the workflow table: if request_workflow_status raises --
   whatever it raises, wherever it raises -- the conductor state it leaves behind is EQUAL to the
   state before the call (definition, graph, inputs, contexts, routes, every field of every record,
   staged entries, pointer map, reruns, status, errors, log, output). *)
Theorem C04b_rejected_status_request_is_inert : forall ev st c c' e, c_init c = true ->
  workflow_status_has_row c ->
  request_workflow_status ev st c = (c', Exc e) -> c' = c.
Proof. exact rejected_status_request_is_inert. Qed.
Print Assumptions C04b_rejected_status_request_is_inert.

(* the same with the proviso spelled as membership in the twelve workflow statuses *)
Theorem C04b_rejected_status_request_is_inert_lifecycle : forall ev st c c' e, c_init c = true ->
  In (wstatus (c_ws c)) wf_statuses ->
  request_workflow_status ev st c = (c', Exc e) -> c' = c.
Proof. exact rejected_status_request_is_inert_lifecycle. Qed.
Print Assumptions C04b_rejected_status_request_is_inert_lifecycle.

(* [F] the proviso is an invariant of the API: after any history of calls (reruns and persists
   included, exceptions included) from a state that satisfies it, it holds; a fresh conductor
   (status unset) satisfies it *)
Theorem C04b_lifecycle_invariant : forall ev ops c,
  In (wstatus (c_ws c)) wf_statuses -> In (wstatus (c_ws (run_ops ev ops c))) wf_statuses.
Proof. exact lifecycle_invariant. Qed.
Print Assumptions C04b_lifecycle_invariant.

Theorem C04b_fresh_status_in_lifecycle : In (wstatus empty_ws) wf_statuses.
Proof. exact fresh_status_in_lifecycle. Qed.
Print Assumptions C04b_fresh_status_in_lifecycle.

(* [R] the proviso cannot be dropped: on a state whose workflow status has no row (a status no
   history produces) the request raises after a record status was changed and nothing restores it *)
Theorem C04b_rejected_request_not_inert_outside_lifecycle : forall ev, exists st c c' e,
  c_init c = true /\ request_workflow_status ev st c = (c', Exc e) /\ c' <> c.
Proof. exact rejected_request_not_inert_outside_lifecycle. Qed.
Print Assumptions C04b_rejected_request_not_inert_outside_lifecycle.

(* [F] an accepted (or rejected) request changes nothing but the workflow status, record statuses
   and the error log *)
Theorem C04b_request_frame : forall ev st c c' r, c_init c = true ->
  request_workflow_status ev st c = (c', r) -> Rctl c c'.
Proof. exact control_request_frame. Qed.
Print Assumptions C04b_request_frame.

(* [F] the only exceptions a status request raises on an initialised conductor *)
Theorem C04b_status_request_exceptions : forall ev st c c' e, c_init c = true ->
  request_workflow_status ev st c = (c', Exc e) ->
  In (x_cls e) ["InvalidEvent"; "InvalidTaskStatusTransition"; "InvalidWorkflowStatusTransition"].
Proof. exact status_request_exceptions. Qed.
Print Assumptions C04b_status_request_exceptions.

(* ---- non-vacuity: a failed workflow with a with-items task still running.  The pause request
   moves that record inside the call (first example), is rejected, and the state comes back
   exactly (second); an unknown event name is refused before anything moves; on the running
   workflow the same request is accepted and does change statuses. ---- *)
Example C04b_ex_push_moves_record :
  ex_statuses (fst (forM_ (ws_tasks_by_status (c_ws (ex_state S_FAILED)) ACTIVE_STATUSES)
                          (push_body S_PAUSING) (ex_state S_FAILED)))
  = ([Some S_PAUSING; Some S_RUNNING], S_FAILED).
Proof. exact ex_push_moves_record. Qed.

Example C04b_ex_rejected_pause_is_inert : forall ev,
  request_workflow_status ev S_PAUSING (ex_state S_FAILED)
  = (ex_state S_FAILED, Exc (exn_invalid_wf_transition S_FAILED "workflow_pausing")).
Proof. exact ex_rejected_pause_is_inert. Qed.

Example C04b_ex_rejected_cancel_is_inert : forall ev,
  request_workflow_status ev S_CANCELED (ex_state S_SUCCEEDED)
  = (ex_state S_SUCCEEDED, Exc (exn_invalid_wf_transition S_SUCCEEDED "workflow_canceled")).
Proof. exact ex_rejected_cancel_is_inert. Qed.

Example C04b_ex_unknown_event_is_inert : forall ev,
  request_workflow_status ev S_EXPIRED (ex_state S_RUNNING)
  = (ex_state S_RUNNING, Exc (exn_invalid_event "workflow_timeout")).
Proof. exact ex_unknown_event_is_inert. Qed.

Example C04b_ex_accepted_pause_moves : forall ev,
  (let p := request_workflow_status ev S_PAUSING (ex_state S_RUNNING) in (ex_statuses (fst p), snd p))
  = (([Some S_PAUSING; Some S_RUNNING], S_PAUSING), Val tt).
Proof. exact ex_accepted_pause_moves. Qed.

Example C04b_ex_state_has_row : workflow_status_has_row (ex_state S_FAILED).
Proof. exact ex_state_has_row. Qed.
