(* C04c -- C04, the clause "late completion reports of still-running actions are absorbed without error".
   Property theorems only (proofs/LateProofs.v).

   SETTING.  The workflow is already failed, canceled or succeeded (done); a provider sends the completion report
   EvAction st (st completed: succeeded, failed, timeout, abandoned, canceled) for a task whose record is still
   running, pausing or canceling.  Scope of the proof: a task without with-items whose transitions lead to no engine
   command (fail / noop / continue); the evaluator's own errors are expression errors (ev_expr) and evaluation raises
   no internal class (eval_no_internal, C15b); the state is well-formed (WF, C15b) and the definition and graph agree
   (static_ok, C15b).  All hypotheses on the state are decidable. *)
From Coq Require Import String List Bool ZArith.
From Orq Require Import GenStatuses GenEvents GenTables Base State Machines Conductor Api F_tables
  NoInternalProofs LateProofs.
Import ListNotations.
Open Scope string_scope.

(* [F] the report is absorbed.  The call returns normally -- with ONE exception, stated exactly: when the workflow is
   CANCELED and an expression of one of the task's transitions fails, the engine's own request to fail the workflow is
   refused and that refusal (InvalidWorkflowStatusTransition "workflow_failed" in "canceled") escapes update_task_state
   (the second disjunct; see the example at the end: the state it needs has a running record in a canceled workflow).
   In every case: the state stays well-formed, the workflow status does not move -- except succeeded to failed (by such
   an expression failure; the table has no other way) --, and the record takes the reported status (timeout and
   abandoned are recorded as failed). *)
Theorem C04c_late_report_absorbed : forall ev, ev_expr ev -> eval_no_internal ev ->
  forall t route st res ts idx r s c c' r',
  WF c -> static_ok (c_spec c) (c_graph c) -> done c ->
  is_engine_command t = false -> g_has_task (c_graph c) t = true ->
  spec_get_task (c_spec c) t = Some ts -> task_has_items ts = false ->
  (forall e, In e (g_next_transitions (c_graph c) t) -> is_engine_command (e_dst e) = false) ->
  ws_task_idx (c_ws c) t route = Some idx -> nth_error (sequence (c_ws c)) idx = Some r ->
  r_status r = Some s -> In s [S_RUNNING; S_PAUSING; S_CANCELING] -> status_in st COMPLETED_STATUSES = true ->
  update_task_state ev t route (EvAction st res) c = (c', r') ->
  (r' = Val tt \/ (wstatus (c_ws c') = S_CANCELED /\ r' = Exc fail_refused)) /\
  WF c' /\
  (wstatus (c_ws c') = wstatus (c_ws c) \/ (wstatus (c_ws c) = S_SUCCEEDED /\ wstatus (c_ws c') = S_FAILED)) /\
  (exists r1, nth_error (sequence (c_ws c')) idx = Some r1 /\ r_status r1 = Some (reported st)).
Proof. exact late_report_absorbed. Qed.
Print Assumptions C04c_late_report_absorbed.

Theorem C04c_done_unfold : forall c, done c <-> In (wstatus (c_ws c)) [S_FAILED; S_CANCELED; S_SUCCEEDED].
Proof. intro c; split; intro H; exact H. Qed.
Theorem C04c_reported_unfold : forall st,
  reported st = if status_eqb st S_SUCCEEDED then S_SUCCEEDED else if status_eqb st S_CANCELED then S_CANCELED else S_FAILED.
Proof. reflexivity. Qed.
Print Assumptions C04c_done_unfold.
Print Assumptions C04c_reported_unfold.

(* [F] what the task's transitions stage on the way (they ARE evaluated, and their targets staged) is never offered:
   nothing is, in a canceled or succeeded workflow; in a failed one only entries flagged run_on_fail
   (C04_failed_offers_only_cleanup) *)
Theorem C04c_nothing_offered : forall ev c', WF c' -> In (wstatus (c_ws c')) [S_SUCCEEDED; S_CANCELED] ->
  get_next_tasks ev c' = (c', Val []).
Proof. exact late_report_no_offers. Qed.
Print Assumptions C04c_nothing_offered.

(* [F] the engine's own request to fail a workflow that is done (made by the handlers of expression failures), exactly:
   failed stays failed, succeeded becomes failed, canceled REFUSES and then nothing at all has changed *)
Theorem C04c_request_to_fail_when_done : forall c c' res, done c -> request_status_core S_FAILED c = (c', res) ->
  (res = Val tt /\ wstatus (c_ws c') = (if status_eqb (wstatus (c_ws c)) S_SUCCEEDED then S_FAILED else wstatus (c_ws c))) \/
  (wstatus (c_ws c) = S_CANCELED /\ c' = c /\ res = Exc fail_refused).
Proof. exact rsc_failed_done. Qed.
Print Assumptions C04c_request_to_fail_when_done.

(* [F] a task event never moves a done workflow and reports no join *)
Theorem C04c_task_event_when_done : forall t route st c, done c ->
  In st [S_SUCCEEDED; S_FAILED; S_CANCELED; S_RUNNING; S_PAUSING; S_CANCELING] ->
  wf_task_event_M t route st c = (c, Val []).
Proof. exact wf_task_event_done. Qed.
Print Assumptions C04c_task_event_when_done.

(* ------------------------------------------------------------------ examples *)

Module C04cExamples.

Definition ev_toy (s : string) (ctx : dict) : evalres :=
  if String.eqb s "<% boom %>" then EvErr {| x_cls := "YaqlEvaluationException"; x_msg := "boom"; x_expr := true |}
  else if String.eqb s "<% succeeded() %>" then EvOk (JBool true) else EvOk (JStr s).
Definition plain nxt : task_spec :=
  {| ts_action := JStr "core.noop"; ts_input := JDict []; ts_with := None; ts_delay := JNull; ts_join := JNull; ts_next := nxt |}.
Definition node n := {| n_id := n; n_barrier := JNull; n_splits := None; n_retry := JNull |}.
Definition act t st := OpEvent t 0 (EvAction st JNull).
(* a and b start together; b goes on to c when its condition holds *)
Definition spec1 (w : json) : wf_spec :=
  {| wf_input := []; wf_vars := []; wf_output := [];
     wf_tasks := [("a", plain []); ("b", plain [{| tr_when := w; tr_publish := [("x", JStr "v")]; tr_do := ["c"] |}]); ("c", plain [])] |}.
Definition graph1 (w : json) : graph :=
  {| g_nodes := [node "a"; node "b"; node "c"];
     g_edges := [{| e_src := "b"; e_dst := "c"; e_key := 0; e_ref := 0; e_criteria := [w] |}] |}.
Definition c0 w : cstate :=
  {| c_spec := spec1 w; c_graph := graph1 w; c_inputs := []; c_parent := []; c_init := false; c_ws := empty_ws;
     c_errors := []; c_log := []; c_output := None |}.
Definition view (c : cstate) :=
  (wstatus (c_ws c), map (fun r => (r_id r, r_status r, r_next r)) (sequence (c_ws c)), map s_id (staged (c_ws c)),
   map er_message (c_errors c)).
(* a fails while b is running: the workflow is failed *)
Definition h1 := [OpRequest S_RUNNING; OpGetNext; act "a" S_RUNNING; act "b" S_RUNNING; act "a" S_FAILED].
Definition ok := JStr "<% succeeded() %>".
Definition boom := JStr "<% boom %>".
Definition failed_b_running := run_ops ev_toy h1 (c0 ok).

Example fork_a_failed_b_running :
  view failed_b_running
  = (S_FAILED, [("a", Some S_FAILED, []); ("b", Some S_RUNNING, [])], [], ["Execution failed. See result for details."]) /\
  WF_b failed_b_running = true /\ static_ok_b (c_spec failed_b_running) (c_graph failed_b_running) = true.
Proof. split; [vm_compute; reflexivity|split; vm_compute; reflexivity]. Qed.

(* b succeeds late: absorbed -- no error, the workflow stays failed, b is succeeded, its transition is evaluated and c is
   staged, and nothing is offered *)
Example late_success_absorbed :
  let p := api_exec ev_toy (act "b" S_SUCCEEDED) failed_b_running in
  snd p = Val RUnit /\
  view (fst p) = (S_FAILED, [("a", Some S_FAILED, []); ("b", Some S_SUCCEEDED, [(("c", 0), true)])], ["c"],
                  ["Execution failed. See result for details."]) /\
  snd (api_exec ev_toy OpGetNext (fst p)) = Val (ROffers []).
Proof. cbv zeta. split; [vm_compute; reflexivity|split; vm_compute; reflexivity]. Qed.

(* the same with a condition that fails to evaluate: the failure is logged, the (failed) workflow absorbs the engine's
   request to fail it, no error *)
Example late_success_with_failing_condition_absorbed :
  let p := api_exec ev_toy (act "b" S_SUCCEEDED) (run_ops ev_toy h1 (c0 boom)) in
  snd p = Val RUnit /\
  view (fst p) = (S_FAILED, [("a", Some S_FAILED, []); ("b", Some S_SUCCEEDED, [])], [],
                  ["Execution failed. See result for details."; "YaqlEvaluationException: boom"]).
Proof. cbv zeta. split; vm_compute; reflexivity. Qed.

(* the exception of the theorem, on a hand-made state (the workflow status of the state above overwritten with
   `canceled`; a running record in a canceled workflow is not known to be reachable through the API): the record is
   completed, the failure logged, and the refusal escapes *)
Definition force (st : status) (c : cstate) := set_ws c (ws_set_status (c_ws c) st).
Example refusal_in_a_canceled_workflow :
  let p := api_exec ev_toy (act "b" S_SUCCEEDED) (force S_CANCELED (run_ops ev_toy h1 (c0 boom))) in
  snd p = Exc fail_refused /\
  view (fst p) = (S_CANCELED, [("a", Some S_FAILED, []); ("b", Some S_SUCCEEDED, [])], [],
                  ["Execution failed. See result for details."; "YaqlEvaluationException: boom"]).
Proof. cbv zeta. split; vm_compute; reflexivity. Qed.
(* ... and succeeded becomes failed the same way *)
Example succeeded_to_failed_by_a_late_report :
  view (fst (api_exec ev_toy (act "b" S_SUCCEEDED) (force S_SUCCEEDED (run_ops ev_toy h1 (c0 boom)))))
  = (S_FAILED, [("a", Some S_FAILED, []); ("b", Some S_SUCCEEDED, [])], [],
     ["Execution failed. See result for details."; "YaqlEvaluationException: boom"]).
Proof. vm_compute; reflexivity. Qed.

End C04cExamples.
