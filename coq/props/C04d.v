(* C04d -- C04, late completion reports, continued: the two scope restrictions of C04c lifted.
   (1) the late task's transitions may lead to engine commands; (2) with-items tasks: the completion report of an item
   that is still out.  Property theorems only (proofs/Late2Proofs.v).  Setting and notions as in C04c: the workflow is
   failed, canceled or succeeded (done); ev_expr, eval_no_internal, WF, static_ok; fail_refused is the one exception
   (an expression failure of a transition in a CANCELED workflow).  New, all decidable:
   - cmd_targets_known c t: the engine commands the task's edges lead to are nodes of the graph (true of composed graphs);
   - cmd_routes_distinct c t route (C15b);
   - cmds_unvisited c t route: the commands reached on the task's own route have no record yet. *)
From Coq Require Import String List Bool ZArith.
From Orq Require Import GenStatuses GenEvents GenTables Base State Machines Conductor Api F_tables
  RetryProofs NoInternalProofs LateProofs Late2Proofs.
Import ListNotations.
Open Scope string_scope.

(* ------------------------------------------------------------------ (1) engine commands *)

(* [F] what an engine command does when the engine delivers it to a workflow that is done (the command is staged, has
   no record yet, is startable and a node of the graph): the call returns, a record is appended for it with the
   command's status -- succeeded for noop and continue, failed for fail --, no other record and no other pointer
   changes, and the WORKFLOW STATUS DOES NOT MOVE: in particular `fail` delivered to a succeeded workflow leaves it
   succeeded (a task event never moves a done workflow, C04c_task_event_when_done) *)
Theorem C04d_command_on_done_workflow : forall ev fuel n rt e sf c,
  WF c -> static_ok (c_spec c) (c_graph c) -> done c ->
  is_engine_command n = true -> engine_event n = Some e -> cmd_startable n -> g_has_task (c_graph c) n = true ->
  get_staged_task (c_ws c) n rt = Some sf -> ws_task_idx (c_ws c) n rt = None ->
  exists c', update_task_state_fuel ev (S fuel) n rt e c = (c', Val tt) /\
    wstatus (c_ws c') = wstatus (c_ws c) /\
    (forall j, j < length (sequence (c_ws c)) -> nth_error (sequence (c_ws c')) j = nth_error (sequence (c_ws c)) j) /\
    (forall k, k <> (n, rt) -> aget tkey_eqb k (tasks (c_ws c')) = aget tkey_eqb k (tasks (c_ws c))) /\
    (exists rn s, nth_error (sequence (c_ws c')) (length (sequence (c_ws c))) = Some rn /\ r_id rn = n /\ r_route rn = rt /\
                  r_status rn = Some s /\ In s [S_SUCCEEDED; S_FAILED]).
Proof. exact cmd_call_done. Qed.
Print Assumptions C04d_command_on_done_workflow.

(* [F] C04c_late_report_absorbed without the restriction on the task's transitions *)
Theorem C04d_late_report_absorbed : forall ev, eval_no_internal ev -> ev_expr ev ->
  forall t route st res ts idx r s c c' r',
  WF c -> static_ok (c_spec c) (c_graph c) -> done c ->
  is_engine_command t = false -> g_has_task (c_graph c) t = true ->
  spec_get_task (c_spec c) t = Some ts -> task_has_items ts = false ->
  cmd_targets_known c t -> cmd_routes_distinct c t route -> cmds_unvisited c t route ->
  ws_task_idx (c_ws c) t route = Some idx -> nth_error (sequence (c_ws c)) idx = Some r ->
  r_status r = Some s -> In s [S_RUNNING; S_PAUSING; S_CANCELING] -> status_in st COMPLETED_STATUSES = true ->
  update_task_state ev t route (EvAction st res) c = (c', r') ->
  (r' = Val tt \/ (wstatus (c_ws c') = S_CANCELED /\ r' = Exc fail_refused)) /\
  WF c' /\
  (wstatus (c_ws c') = wstatus (c_ws c) \/ (wstatus (c_ws c) = S_SUCCEEDED /\ wstatus (c_ws c') = S_FAILED)) /\
  (exists r1, nth_error (sequence (c_ws c')) idx = Some r1 /\ r_status r1 = Some (reported st)).
Proof. exact late_report_absorbed_cmds. Qed.
Print Assumptions C04d_late_report_absorbed.

Theorem C04d_cmd_targets_known_unfold : forall c t,
  cmd_targets_known c t <->
  forall e, In e (g_next_transitions (c_graph c) t) -> is_engine_command (e_dst e) = true -> g_has_task (c_graph c) (e_dst e) = true.
Proof. intros; split; intro H; exact H. Qed.
Theorem C04d_cmds_unvisited_unfold : forall c t route,
  cmds_unvisited c t route <->
  forall e, In e (cmd_edges_on_route c t route) -> ws_task_idx (c_ws c) (e_dst e) route = None.
Proof. intros; split; intro H; exact H. Qed.
Print Assumptions C04d_cmd_targets_known_unfold.
Print Assumptions C04d_cmds_unvisited_unfold.

(* ------------------------------------------------------------------ (2) with-items tasks *)

(* [F] the completion report EvItem i st of an item of a with-items task that is staged with its items table (its), in
   a done workflow, the record not completed.  The hypothesis on the task machine: it accepts the report -- with
   the item's status written into the table (items_written) -- and answers ns (None: no change), and the resulting
   status is none of retrying / timeout / abandoned / unset (see the two corollaries for the answers).  Then: absorbed
   as in (1); the record has the status the machine answered; and while the task is not completed by the report the
   call returns normally and the staged list is exactly the old one with the item's status written in. *)
Theorem C04d_late_item_report_absorbed : forall ev, eval_no_internal ev -> ev_expr ev ->
  forall t route i st res acc ts sI its idx r s ns c c' r',
  WF c -> static_ok (c_spec c) (c_graph c) -> done c ->
  is_engine_command t = false -> g_has_task (c_graph c) t = true ->
  spec_get_task (c_spec c) t = Some ts -> task_has_items ts = true ->
  get_staged_task (c_ws c) t route = Some sI -> s_items sI = Some its -> i < length its ->
  ws_task_idx (c_ws c) t route = Some idx -> nth_error (sequence (c_ws c)) idx = Some r ->
  r_status r = Some s -> status_in s COMPLETED_STATUSES = false ->
  task_process_event (items_written (c_ws c) t route i st) r (EvItem i st res acc) = Val ns ->
  ~ In (rstatus (stepped r ns)) [S_RETRYING; S_EXPIRED; S_ABANDONED; S_UNSET] ->
  cmd_targets_known c t -> cmd_routes_distinct c t route -> cmds_unvisited c t route ->
  update_task_state ev t route (EvItem i st res acc) c = (c', r') ->
  (r' = Val tt \/ (wstatus (c_ws c') = S_CANCELED /\ r' = Exc fail_refused)) /\
  WF c' /\
  (wstatus (c_ws c') = wstatus (c_ws c) \/ (wstatus (c_ws c) = S_SUCCEEDED /\ wstatus (c_ws c') = S_FAILED)) /\
  (exists r1, nth_error (sequence (c_ws c')) idx = Some r1 /\ r_status r1 = Some (rstatus (stepped r ns))) /\
  (status_in (rstatus (stepped r ns)) COMPLETED_STATUSES = false ->
     r' = Val tt /\ staged (c_ws c') = staged (items_written (c_ws c) t route i st)).
Proof. exact late_item_report_absorbed. Qed.
Print Assumptions C04d_late_item_report_absorbed.

Theorem C04d_items_written_unfold : forall w t route i st,
  items_written w t route i st =
  ws_set_staged w (staged_update (fun e => s_set_items e (match s_items e with Some l => Some (list_set_nth i st l) | None => None end))
                                 t route (staged w)).
Proof. reflexivity. Qed.
Print Assumptions C04d_items_written_unfold.

(* [F] the machine's answers: the task completes when the LAST item reports (every other item succeeded) ... *)
Theorem C04d_last_item_completes : forall w t route i res acc sI its r s,
  get_staged_task w t route = Some sI -> s_items sI = Some its -> i < length its ->
  r_id r = t -> r_route r = route -> r_status r = Some s -> In s [S_RUNNING; S_PAUSING; S_CANCELING] ->
  forallb (fun x => status_eqb x S_SUCCEEDED) (list_del_nth i its) = true ->
  task_process_event (items_written w t route i S_SUCCEEDED) r (EvItem i S_SUCCEEDED res acc) = Val (Some S_SUCCEEDED).
Proof. exact last_item_completes. Qed.
(* ... and a running task stays running while another item is active *)
Theorem C04d_item_with_others_out : forall w t route i res acc sI its r,
  get_staged_task w t route = Some sI -> s_items sI = Some its -> i < length its ->
  r_id r = t -> r_route r = route -> r_status r = Some S_RUNNING ->
  existsb (fun x => status_in x ACTIVE_STATUSES) (list_del_nth i its) = true ->
  task_process_event (items_written w t route i S_SUCCEEDED) r (EvItem i S_SUCCEEDED res acc) = Val (Some S_RUNNING).
Proof. exact item_with_others_out. Qed.
Print Assumptions C04d_last_item_completes.
Print Assumptions C04d_item_with_others_out.

(* ------------------------------------------------------------------ examples *)

Module C04dExamples.

Definition ev_toy (s : string) (ctx : dict) : evalres :=
  if String.eqb s "<% ctx().xs %>" then EvOk (JList [JStr "p"; JStr "q"])
  else if String.eqb s "<% succeeded() %>" then EvOk (JBool true) else EvOk (JStr s).
Definition plain nxt : task_spec :=
  {| ts_action := JStr "core.noop"; ts_input := JDict []; ts_with := None; ts_delay := JNull; ts_join := JNull; ts_next := nxt |}.
Definition items nxt : task_spec :=
  {| ts_action := JStr "core.echo"; ts_input := JDict [];
     ts_with := Some {| it_expr := "<% ctx().xs %>"; it_keys := None; it_concurrency := JNull |};
     ts_delay := JNull; ts_join := JNull; ts_next := nxt |}.
Definition node n := {| n_id := n; n_barrier := JNull; n_splits := None; n_retry := JNull |}.
Definition act t st := OpEvent t 0 (EvAction st JNull).
Definition it t i st := OpEvent t 0 (EvItem i st JNull (JList [])).
Definition mk sp g : cstate :=
  {| c_spec := sp; c_graph := g; c_inputs := []; c_parent := []; c_init := false; c_ws := empty_ws;
     c_errors := []; c_log := []; c_output := None |}.
Definition view (c : cstate) :=
  (wstatus (c_ws c), map (fun r => (r_id r, r_route r, r_status r)) (sequence (c_ws c)),
   map (fun s => (s_id s, s_items s)) (staged (c_ws c))).

(* (1) a and b start together; b's one transition does noop and fail.  a fails (the workflow is failed, b running);
   b succeeds late: both commands get their records, the workflow stays failed, no error *)
Definition spec1 : wf_spec := {| wf_input := []; wf_vars := []; wf_output := [];
  wf_tasks := [("a", plain []); ("b", plain [{| tr_when := JStr "<% succeeded() %>"; tr_publish := []; tr_do := ["noop"; "fail"] |}])] |}.
Definition graph1 : graph := {| g_nodes := [node "a"; node "b"; node "noop"; node "fail"];
  g_edges := [{| e_src := "b"; e_dst := "fail"; e_key := 0; e_ref := 0; e_criteria := [JStr "<% succeeded() %>"] |};
              {| e_src := "b"; e_dst := "noop"; e_key := 0; e_ref := 0; e_criteria := [JStr "<% succeeded() %>"] |}] |}.
Definition h1 := [OpRequest S_RUNNING; OpGetNext; act "a" S_RUNNING; act "b" S_RUNNING; act "a" S_FAILED].
Definition failed1 := run_ops ev_toy h1 (mk spec1 graph1).
Example late_task_with_commands :
  view failed1 = (S_FAILED, [("a", 0, Some S_FAILED); ("b", 0, Some S_RUNNING)], []) /\
  WF_b failed1 = true /\ static_ok_b spec1 graph1 = true /\ cmd_routes_distinct_b failed1 "b" 0 = true /\
  snd (api_exec ev_toy (act "b" S_SUCCEEDED) failed1) = Val RUnit /\
  view (fst (api_exec ev_toy (act "b" S_SUCCEEDED) failed1))
  = (S_FAILED, [("a", 0, Some S_FAILED); ("b", 0, Some S_SUCCEEDED); ("fail", 0, Some S_FAILED); ("noop", 0, Some S_SUCCEEDED)], []).
Proof. repeat (split; [vm_compute; reflexivity|]). vm_compute; reflexivity. Qed.
(* `fail` delivered to a succeeded workflow (hand-made: the status of the state above overwritten) leaves it succeeded *)
Definition force (st : status) (c : cstate) := set_ws c (ws_set_status (c_ws c) st).
Example fail_on_a_succeeded_workflow :
  view (fst (api_exec ev_toy (act "b" S_SUCCEEDED) (force S_SUCCEEDED failed1)))
  = (S_SUCCEEDED, [("a", 0, Some S_FAILED); ("b", 0, Some S_SUCCEEDED); ("fail", 0, Some S_FAILED); ("noop", 0, Some S_SUCCEEDED)], []).
Proof. vm_compute; reflexivity. Qed.

(* (2) a plain task and w with two items start together; a fails while both items are out.  Item 0 reports: absorbed,
   its status is in the table, w stays running; item 1 reports last: w succeeds and leaves the staged list; the
   workflow stays failed *)
Definition spec2 : wf_spec := {| wf_input := []; wf_vars := []; wf_output := []; wf_tasks := [("a", plain []); ("w", items [])] |}.
Definition graph2 : graph := {| g_nodes := [node "a"; node "w"]; g_edges := [] |}.
Definition h2 := [OpRequest S_RUNNING; OpGetNext; act "a" S_RUNNING; it "w" 0 S_RUNNING; it "w" 1 S_RUNNING; act "a" S_FAILED].
Definition failed2 := run_ops ev_toy h2 (mk spec2 graph2).
Example late_item_reports :
  view failed2 = (S_FAILED, [("a", 0, Some S_FAILED); ("w", 0, Some S_RUNNING)], [("w", Some [S_RUNNING; S_RUNNING])]) /\
  WF_b failed2 = true /\
  snd (api_exec ev_toy (it "w" 0 S_SUCCEEDED) failed2) = Val RUnit /\
  view (run_ops ev_toy [it "w" 0 S_SUCCEEDED] failed2)
  = (S_FAILED, [("a", 0, Some S_FAILED); ("w", 0, Some S_RUNNING)], [("w", Some [S_SUCCEEDED; S_RUNNING])]) /\
  snd (api_exec ev_toy (it "w" 1 S_SUCCEEDED) (run_ops ev_toy [it "w" 0 S_SUCCEEDED] failed2)) = Val RUnit /\
  view (run_ops ev_toy [it "w" 0 S_SUCCEEDED; it "w" 1 S_SUCCEEDED] failed2)
  = (S_FAILED, [("a", 0, Some S_FAILED); ("w", 0, Some S_SUCCEEDED)], []).
Proof. repeat (split; [vm_compute; reflexivity|]). vm_compute; reflexivity. Qed.

End C04dExamples.
