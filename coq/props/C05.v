(* C05 -- Persisting the conductor and restoring it changes nothing.
   Property theorems only; proofs are in proofs/C05Proofs.v. *)
From Coq Require Import String List Bool ZArith.
From Orq Require Import GenStatuses GenEvents Base State Machines Codec Conductor Decode Api C05Proofs.
Import ListNotations.
Open Scope string_scope.

(* [F] the identifiers of transitions ("<task>__t<n>") and of task pointers ("<task>__r<n>") are
   parsed back exactly, for EVERY task name -- including names that themselves contain or end with
   the separators or digits -- because the parser splits at the LAST separator and the decimal
   numeral never contains "_". *)
Theorem C05_trid_roundtrip : forall t n, dec_trid (trid_str (t, n)) = Some (t, n).
Proof. intros; apply dec_trid_roundtrip. Qed.
Print Assumptions C05_trid_roundtrip.

Theorem C05_tkey_roundtrip : forall t n, dec_tkey (tkey_str (t, n)) = Some (t, n).
Proof. intros; apply dec_tkey_roundtrip. Qed.
Print Assumptions C05_tkey_roundtrip.

Example C05_trid_roundtrip_ex : dec_trid (trid_str ("a__t1__t", 10)) = Some ("a__t1__t", 10)
                             /\ trid_str ("a__t1__t", 10) = "a__t1__t__t10".
Proof. vm_compute. split; reflexivity. Qed.

(* [F] decoding the persisted form of a conductor gives the conductor back.  The only
   well-formedness condition is that the lazy workflow state exists (c_init): no condition on
   task names, error entries, output, flags or reruns is needed. *)
Theorem C05_codec_roundtrip : forall c, c_init c = true ->
  dec_cstate (c_spec c) (c_graph c) (enc_cstate c) = Some c.
Proof. exact dec_cstate_enc. Qed.
Print Assumptions C05_codec_roundtrip.

(* [F] without the condition: the restored conductor is the original marked initialised *)
Theorem C05_codec_roundtrip_total : forall c,
  dec_cstate (c_spec c) (c_graph c) (enc_cstate c) = Some (set_init c true).
Proof. exact dec_cstate_enc_total. Qed.
Print Assumptions C05_codec_roundtrip_total.

Example C05_codec_roundtrip_ex :
  dec_cstate ex_spec ex_graph (enc_cstate ex_state) = Some ex_state
  /\ length (sequence (c_ws ex_state)) = 3
  /\ dec_cstate ex_spec ex_graph (enc_cstate (set_output ex_state None)) <> Some ex_state.
Proof. vm_compute. repeat split; try reflexivity. discriminate. Qed.

(* [F] persisting a restored conductor reproduces the persisted form exactly *)
Theorem C05_persist_reproduces_form : forall c c2,
  dec_cstate (c_spec c) (c_graph c) (enc_cstate c) = Some c2 -> enc_cstate c2 = enc_cstate c.
Proof. exact persist_reproduces_form. Qed.
Print Assumptions C05_persist_reproduces_form.

(* [F] for every evaluator the persist round trip is the identity on an initialised conductor, and on
   every conductor (initialised or not) it is exactly serialize() *)
Theorem C05_persist_identity : forall ev c, c_init c = true -> persist ev c = (c, Val tt).
Proof. exact persist_identity. Qed.
Print Assumptions C05_persist_identity.

Theorem C05_persist_is_serialize : forall ev c, api_exec ev OpPersist c = api_exec ev OpSerialize c.
Proof. exact persist_is_serialize. Qed.
Print Assumptions C05_persist_is_serialize.

(* [F] every API call (rerun included) keeps the conductor initialised, and makes it so *)
Theorem C05_api_keeps_init : forall ev op c, c_init c = true -> c_init (fst (api_exec ev op c)) = true.
Proof. exact api_exec_keeps_init. Qed.
Print Assumptions C05_api_keeps_init.

Theorem C05_api_inits : forall ev op c, c_init (fst (api_exec ev op c)) = true.
Proof. exact api_exec_inits. Qed.
Print Assumptions C05_api_inits.

(* [F] for every evaluator, every history and every subset (mask) of the points between API calls:
   running the history with a persist round trip at the chosen points reaches the same state and
   shows a provider the same outcome of every call (offers, raised exceptions) as running it
   without any.  run_obs lists the outcomes of the calls other than the round trips. *)
Theorem C05_persist_unobservable : forall ev mask ops c, c_init c = true ->
  run_ops ev (weave mask ops) c = run_ops ev ops c /\
  run_obs ev (weave mask ops) c = run_obs ev ops c.
Proof. exact persist_unobservable. Qed.
Print Assumptions C05_persist_unobservable.

(* [F] same, any number of round trips at every point *)
Theorem C05_persist_unobservable_rel : forall ev ops ops', ins_persist ops ops' -> forall c, c_init c = true ->
  run_ops ev ops' c = run_ops ev ops c /\ run_obs ev ops' c = run_obs ev ops c.
Proof. exact persist_unobservable_rel. Qed.
Print Assumptions C05_persist_unobservable_rel.

(* [F] for a conductor that has not created its workflow state yet (a fresh one): round trips at any
   points after the first call are unobservable *)
Theorem C05_persist_unobservable_fresh : forall ev mask op ops c,
  run_ops ev (op :: weave mask ops) c = run_ops ev (op :: ops) c /\
  run_obs ev (op :: weave mask ops) c = run_obs ev (op :: ops) c.
Proof. exact persist_unobservable_after_first_call. Qed.
Print Assumptions C05_persist_unobservable_fresh.

(* non-vacuity: a fork / with-items / join workflow driven for 10 calls, with 8 round trips woven in *)
Example C05_persist_unobservable_ex :
  run_ops ex_ev (weave ex_mask ex_ops) ex_c0 = run_ops ex_ev ex_ops ex_c0
  /\ run_obs ex_ev (weave ex_mask ex_ops) ex_c0 = run_obs ex_ev ex_ops ex_c0
  /\ length (weave ex_mask ex_ops) = 18
  /\ length (sequence (c_ws (run_ops ex_ev ex_ops ex_c0))) = 3
  /\ map s_items (staged (c_ws (run_ops ex_ev ex_ops ex_c0))) = [Some [S_SUCCEEDED; S_UNSET]].
Proof. vm_compute. repeat split; reflexivity. Qed.
