(* C06 -- A task sees exactly the variables published by its causal ancestors.
   Property theorems only (proofs/C06Proofs.v, C16Proofs.v, C18Proofs.v). *)
From Coq Require Import String List Bool.
From Orq Require Import GenStatuses Base State Machines Conductor Api Hoare C18Proofs C16Proofs C06Proofs.
Import ListNotations.

(* [F] the context a task is offered with is the merge, in list order (later wins; dictionaries merged
   key-wise as characterised in C16), of the snapshots its staged entry points to, plus the engine's
   __current_task and __state entries *)
Theorem C06_offer_context_is_the_fold : forall ev s c c' o, next_task_for ev s c = (c', Val (Some o)) ->
  exists c0 ctx0, inbound_ctx_M s c c = (c0, Val ctx0)
                  /\ o_ctx o = task_eval_ctx (s_id s) (s_route s) None ctx0 (c_ws c).
Proof. exact next_task_for_ctx. Qed.
Print Assumptions C06_offer_context_is_the_fold.

(* [F] no leak at the point of publication: processing a transition (evaluating its condition, rendering
   its publishes into a NEW snapshot, staging its target) leaves the staged entry of every task other
   than that transition's target exactly as it was -- for every evaluator, also when it raises *)
Theorem C06_publish_reaches_only_its_target : forall ev nt t route idx ts ctx e,
  e_dst e = nt -> preserves (Rstg nt) (process_transition ev t route idx ts ctx e).
Proof. exact transition_touches_only_its_target. Qed.
Print Assumptions C06_publish_reaches_only_its_target.

(* [F] a snapshot, once published, is never modified by any later API call: what a started task saw stays
   what it saw, whatever branches arrive later *)
Theorem C06_snapshots_never_change : forall ev ops c i d,
  forallb (fun op => negb (is_persist op)) ops = true ->
  nth_error (contexts (c_ws c)) i = Some d -> nth_error (contexts (c_ws (run_ops ev ops c))) i = Some d.
Proof. exact snapshots_never_change. Qed.
Print Assumptions C06_snapshots_never_change.

(* [F] published deltas contain exactly the published names (no engine internals, nothing else) *)
Theorem C06_delta_is_the_publish : forall ev specs rolling c c' out errs,
  render_vars ev specs rolling [] [] c = (c', Val (out, errs)) ->
  (forall k, In k (keys out) -> In k (map fst specs))
  /\ (errs = [] -> forall n, In n (map fst specs) -> In n (keys out)).
Proof. exact published_names. Qed.
Print Assumptions C06_delta_is_the_publish.

(* NOT PROVED: the global statement "every snapshot index in a task's list was published by a causal
   ancestor on a path to it" (needs an invariant over prev-chains; tested by the taint monitor c06), and the
   supersession order at joins, which is REFUTED on the unchanged tree by known finding D11 (a branch that
   merely inherited an older value overrides a newer one). *)
